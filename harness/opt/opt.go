// Package opt names every public option constructor so that option sets are
// plain data (printable, shrinkable, storable in replay files).
package opt

import (
	"fmt"
	"sort"

	"github.com/go-json-experiment/json"
	"github.com/go-json-experiment/json/jsontext"
	jsonv1 "github.com/go-json-experiment/json/v1"
)

// Spec is one option application.
type Spec struct {
	Name string `json:"name"`
	B    bool   `json:"b,omitempty"`
	S    string `json:"s,omitempty"`
}

func (s Spec) String() string {
	if _, ok := strOpts[s.Name]; ok {
		return fmt.Sprintf("%s(%q)", s.Name, s.S)
	}
	if _, ok := nullary[s.Name]; ok {
		return s.Name + "()"
	}
	return fmt.Sprintf("%s(%v)", s.Name, s.B)
}

// Bool option constructors by name.
var BoolOpts = map[string]func(bool) json.Options{
	// jsontext
	"AllowDuplicateNames":   jsontext.AllowDuplicateNames,
	"AllowInvalidUTF8":      jsontext.AllowInvalidUTF8,
	"EscapeForHTML":         jsontext.EscapeForHTML,
	"EscapeForJS":           jsontext.EscapeForJS,
	"PreserveRawStrings":    jsontext.PreserveRawStrings,
	"CanonicalizeRawInts":   jsontext.CanonicalizeRawInts,
	"CanonicalizeRawFloats": jsontext.CanonicalizeRawFloats,
	"ReorderRawObjects":     jsontext.ReorderRawObjects,
	"SpaceAfterColon":       jsontext.SpaceAfterColon,
	"SpaceAfterComma":       jsontext.SpaceAfterComma,
	"Multiline":             jsontext.Multiline,
	// json
	"StringifyNumbers":             json.StringifyNumbers,
	"Deterministic":                json.Deterministic,
	"FormatNilMapAsNull":           json.FormatNilMapAsNull,
	"FormatNilSliceAsNull":         json.FormatNilSliceAsNull,
	"MatchCaseInsensitiveNames":    json.MatchCaseInsensitiveNames,
	"OmitZeroStructFields":         json.OmitZeroStructFields,
	"RejectUnknownMembers":         json.RejectUnknownMembers,
	"ExperimentalSupportFormatTag": json.ExperimentalSupportFormatTag,
	// v1
	"CallMethodsWithLegacySemantics":  jsonv1.CallMethodsWithLegacySemantics,
	"FormatByteArrayAsArray":          jsonv1.FormatByteArrayAsArray,
	"FormatBytesWithLegacySemantics":  jsonv1.FormatBytesWithLegacySemantics,
	"FormatDurationAsNano":            jsonv1.FormatDurationAsNano,
	"MatchCaseSensitiveDelimiter":     jsonv1.MatchCaseSensitiveDelimiter,
	"MergeWithLegacySemantics":        jsonv1.MergeWithLegacySemantics,
	"OmitEmptyWithLegacySemantics":    jsonv1.OmitEmptyWithLegacySemantics,
	"ParseBytesWithLooseRFC4648":      jsonv1.ParseBytesWithLooseRFC4648,
	"ParseTimeWithLooseRFC3339":       jsonv1.ParseTimeWithLooseRFC3339,
	"ReportErrorsWithLegacySemantics": jsonv1.ReportErrorsWithLegacySemantics,
	"StringifyWithLegacySemantics":    jsonv1.StringifyWithLegacySemantics,
	"UnmarshalArrayFromAnyLength":     jsonv1.UnmarshalArrayFromAnyLength,
}

var strOpts = map[string]func(string) json.Options{
	"WithIndent":       jsontext.WithIndent,
	"WithIndentPrefix": jsontext.WithIndentPrefix,
}

var nullary = map[string]func() json.Options{
	"DefaultOptionsV1": jsonv1.DefaultOptionsV1,
	"DefaultOptionsV2": json.DefaultOptionsV2,
}

// BoolNames is the sorted list of boolean option names.
var BoolNames = func() []string {
	var out []string
	for k := range BoolOpts {
		out = append(out, k)
	}
	sort.Strings(out)
	return out
}()

// Build realises the specs in order. Unknown names are an error.
func Build(specs []Spec) ([]json.Options, error) {
	var out []json.Options
	for _, s := range specs {
		switch {
		case BoolOpts[s.Name] != nil:
			out = append(out, BoolOpts[s.Name](s.B))
		case strOpts[s.Name] != nil:
			out = append(out, strOpts[s.Name](s.S))
		case nullary[s.Name] != nil:
			out = append(out, nullary[s.Name]())
		default:
			return nil, fmt.Errorf("opt: unknown option %q", s.Name)
		}
	}
	return out, nil
}

// Must is Build that panics on unknown names (generators only use known names).
func Must(specs []Spec) []json.Options {
	o, err := Build(specs)
	if err != nil {
		panic(err)
	}
	return o
}

// Has reports the last value set for a boolean option in specs (and whether set).
func Has(specs []Spec, name string) (val, set bool) {
	for _, s := range specs {
		if s.Name == name {
			val, set = s.B, true
		}
	}
	return
}

// B makes a boolean spec.
func B(name string, v bool) Spec { return Spec{Name: name, B: v} }

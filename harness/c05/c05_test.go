package c05

import (
	"os"
	"path/filepath"
	"testing"

	"verif/harness/rt"
)

func TestCheck(t *testing.T) {
	e := rt.Setup(t, "C05")
	defer e.Finish()
	rec = e.Rec

	// Is finding F10 listed in known_findings.txt? If it is, rt suppresses and
	// counts it; if not, campaign sub-checks count the matching cases as
	// excluded (the committed example under regression/C05 still reports it).
	listed := false
	for _, k := range rt.LoadKnown(filepath.Join(e.Root, "known_findings.txt")) {
		if k.Property == "C05" && k.Classifier == clsF10 {
			listed = true
		}
	}
	if os.Getenv("C05_NO_EXCLUDE") != "" {
		listed = true // developer knob: report F10 from the campaigns too (to obtain shrunk replays)
	}
	excl := func(err error) error {
		if err == nil || listed {
			return err
		}
		if isKnownF10(err) {
			e.Rec.Excluded(clsF10)
			return nil
		}
		return err
	}
	run := func(c Case) error { return excl(Run(c)) }
	runU := func(c UCase) error { return excl(RunU(c)) }

	selfTest(e)

	// regression-only replayers: plain Run, nothing excluded
	rt.Only(e, "known-f10", Run)
	rt.Only(e, "known-f10-unmarshal", RunU)
	rt.Only(e, "FuzzChunked", Run) // replays of cases saved by the native fuzz target

	// (a) bounded-exhaustive layers
	rt.Enum(e, "enum-cuts", func(yield func(Case) bool) { enumCuts(e, yield) }, run)
	rt.Enum(e, "enum-ops", func(yield func(Case) bool) { enumOps(e, yield) }, run)
	rt.Enum(e, "enum-faults", func(yield func(Case) bool) { enumFaults(e, yield) }, run)

	// (b) random campaigns
	rt.Rapid(e, "docs", 400_000, 4_000_000, genSmall, run)
	rt.Rapid(e, "boundary", 160_000, 1_600_000, genBoundary, run)
	rt.Rapid(e, "long", 6_000, 60_000, genLong, run)
	rt.Rapid(e, "faults", 250_000, 2_500_000, genFaulty, run)
	rt.Rapid(e, "unmarshal", 200_000, 2_000_000, genU, runU)
	rt.Rapid(e, "unmarshal-faults", 80_000, 800_000, genUF, RunUF)
}

package c05

import (
	"errors"
	"fmt"

	"verif/harness/rt"
)

func isKnownF10(err error) bool {
	var k *rt.KnownErr
	return errors.As(err, &k) && k.Classifier == clsF10
}

// selfTest checks the harness' own moving parts (scheduled reader, model,
// classifier) on fixed examples; a failure makes the run inconclusive.
func selfTest(e *rt.Env) {
	// the scheduled reader hands out exactly the input, honours the schedule
	in := []byte(`{"a":[1,2,3],"b":"xyz"}`)
	for _, s := range []Sched{{Chunks: []int{1}, Cycle: true}, {Chunks: []int{0, 0, 0, 0, 0, 2}, Cycle: true}, {Chunks: []int{3, 0, 4}}, {Chunks: []int{5}, EOFWithData: true}, {Chunks: []int{2}, Cycle: true, Faults: []int{0, 1, 4}}} {
		r := newSchedReader(in, &s)
		var got []byte
		p := make([]byte, 7)
		zero := 0
		for i := 0; i < 1000; i++ {
			n, err := r.Read(p)
			got = append(got, p[:n]...)
			if n == 0 && err == nil {
				zero++
				if zero > 3 {
					e.OracleFail(fmt.Sprintf("scheduled reader %+v: more than 3 consecutive empty reads", s))
				}
			} else {
				zero = 0
			}
			if err != nil && err != errT {
				break
			}
		}
		if string(got) != string(in) {
			e.OracleFail(fmt.Sprintf("scheduled reader %+v delivered %q", s, got))
		}
		if r.fired != len(s.Faults) {
			e.OracleFail(fmt.Sprintf("scheduled reader %+v fired %d faults", s, r.fired))
		}
	}
	// cut classification
	cls := cutClasses([]byte(`["\ud83d\ude00",1e5,true,"a\nb"]`), []int{9, 17, 22, 28})
	for _, k := range []string{"cut-in-surrogate", "cut-in-number", "cut-at-exponent", "cut-in-literal", "cut-in-escape", "cut-in-string"} {
		if !cls[k] {
			e.OracleFail("cut classification misses " + k)
		}
	}
}

package c05

import (
	"bytes"
	"errors"
	"fmt"
	"io"
	"reflect"
	"strings"

	"github.com/go-json-experiment/json"
	"github.com/go-json-experiment/json/jsontext"
	jsonv1 "github.com/go-json-experiment/json/v1"
	"pgregory.net/rapid"

	"verif/harness/cov"
	"verif/harness/gen"
	"verif/harness/ref"
	"verif/harness/rt"
)

// UCase is a case of clause (v): UnmarshalRead == Unmarshal, and
// UnmarshalDecode over a stream == Unmarshal of each reference segment.
type UCase struct {
	Input  []byte `json:"input"`
	UTF8   bool   `json:"allow_invalid_utf8"`
	Dup    bool   `json:"allow_duplicate_names"`
	Sched  Sched  `json:"sched"`
	Target int    `json:"target"`           // see newTarget
	Stream bool   `json:"stream"`           // UnmarshalDecode over a stream instead of UnmarshalRead
	Legacy bool   `json:"legacy,omitempty"` // with v1.ReportErrorsWithLegacySemantics(true): the input is validated ahead of decoding
}

// Rec is a struct target with a fallback for unknown members.
type Rec struct {
	A any                       `json:"a"`
	B []int                     `json:"b"`
	S string                    `json:"s"`
	M map[string]any            `json:"m"`
	V jsontext.Value            `json:"v"`
	X *Rec                      `json:"x"`
	K map[string]jsontext.Value `json:"k"`
	C chan int                  `json:"c"` // cannot be decoded: the error is reported in front of the value
	U jsontext.Value            `json:",embed"`
}

const nTargets = 6

var targetNames = [nTargets]string{"any", "jsontext.Value", "map[string]jsontext.Value", "[]any", "struct-with-unknown-fallback", "[]jsontext.Value"}

func newTarget(k int) any {
	switch k {
	case 1:
		return new(jsontext.Value)
	case 2:
		return new(map[string]jsontext.Value)
	case 3:
		return new([]any)
	case 4:
		return new(Rec)
	case 5:
		return new([]jsontext.Value)
	default:
		return new(any)
	}
}

func (c UCase) opts() []json.Options {
	return append([]json.Options{jsontext.AllowInvalidUTF8(c.UTF8), jsontext.AllowDuplicateNames(c.Dup)}, c.callOpts()...)
}

// callOpts are the options given to the (Un)marshal call itself.
func (c UCase) callOpts() []json.Options {
	if c.Legacy {
		return []json.Options{jsonv1.ReportErrorsWithLegacySemantics(true)}
	}
	return nil
}

// uShape is the structural view of an Unmarshal error: the chain of Go types
// with the positions of the SyntacticError / SemanticError links.
type uShape struct {
	chain []string
	synOf *errShape // innermost *jsontext.SyntacticError, if any
}

func ushapeOf(err error) *uShape {
	if err == nil {
		return nil
	}
	u := &uShape{}
	for e := err; e != nil; e = errors.Unwrap(e) {
		switch x := e.(type) {
		case *jsontext.SyntacticError:
			u.chain = append(u.chain, fmt.Sprintf("SyntacticError@%d", x.ByteOffset))
			u.synOf = shapeOf(x)
		case *json.SemanticError:
			gt := "<nil>"
			if x.GoType != nil {
				gt = x.GoType.String()
			}
			u.chain = append(u.chain, fmt.Sprintf("SemanticError@%d ptr=%q kind=%q type=%s", x.ByteOffset, x.JSONPointer, x.JSONKind.String(), gt))
		default:
			s := fmt.Sprintf("%T", e)
			if e == io.EOF {
				s = "io.EOF"
			} else if e == io.ErrUnexpectedEOF {
				s = "io.ErrUnexpectedEOF"
			} else if e == jsontext.ErrDuplicateName {
				s = "ErrDuplicateName"
			}
			u.chain = append(u.chain, s)
		}
	}
	return u
}

func (u *uShape) String() string {
	if u == nil {
		return "<nil>"
	}
	s := fmt.Sprint(u.chain)
	if u.synOf != nil {
		s += fmt.Sprintf(" JSONPointer=%q", u.synOf.ptr)
	}
	return s
}

func sameU(a, b *uShape, ignorePtr bool) bool {
	if a == nil || b == nil {
		return a == b
	}
	if len(a.chain) != len(b.chain) {
		return false
	}
	for i := range a.chain {
		if a.chain[i] != b.chain[i] {
			return false
		}
	}
	if (a.synOf == nil) != (b.synOf == nil) {
		return false
	}
	if a.synOf != nil && !sameErr(a.synOf, b.synOf, ignorePtr) {
		return false
	}
	return true
}

// f10Unmarshal applies the F10 classifier to an Unmarshal-level disagreement:
// the shapes differ only in the JSONPointer of the SyntacticError, and the
// pointer difference is explained by stale member names of some container
// value that starts after offset 0 (the value handed to ReadValue internally).
func f10Unmarshal(in []byte, got, want *uShape, calls []int) bool {
	if got == nil || want == nil || got.synOf == nil || want.synOf == nil || !sameU(got, want, true) || sameU(got, want, false) {
		return false
	}
	errOff := int(want.synOf.off)
	for p := 1; p < errOff && p < len(in); p++ {
		if in[p] != '{' && in[p] != '[' {
			continue
		}
		st := state{off: int64(p)}
		g := step{op: 'V', err: got.synOf, st: st}
		w := step{op: 'V', err: want.synOf, st: st}
		if isF10x(in, st, g, w, calls, false) {
			return true
		}
	}
	return false
}

// RunU decides one UCase.
func RunU(c UCase) error {
	rec.Eval()
	if c.Target < 0 || c.Target >= nTargets {
		return fmt.Errorf("harness: bad target %d", c.Target)
	}
	in := c.Input
	var rd *schedReader
	mkReader := func() io.Reader {
		if c.Sched.Buffer {
			return bytes.NewBuffer(append([]byte(nil), in...))
		}
		s := c.Sched
		s.Faults = nil
		rd = newSchedReader(in, &s)
		return rd
	}
	var err error
	if c.Stream {
		err = runStream(&c, mkReader)
	} else {
		err = runRead(&c, mkReader)
	}
	// evidence
	rec.Class("unmarshal-target-" + targetNames[c.Target])
	if c.Legacy {
		rec.Class("unmarshal-with-legacy-error-semantics")
	}
	if c.Stream {
		rec.Class("unmarshal-decode-stream")
	} else {
		rec.Class("unmarshal-read")
	}
	if rd != nil {
		cls := cutClasses(in, rd.bounds)
		var names []string
		for k := range cls {
			rec.Class(k)
			names = append(names, k)
		}
		if rd.maxP > 64 {
			rec.Class("buffer-growth")
		}
		if len(cls) > 0 {
			sb := []byte{b2(c.UTF8), b2(c.Dup), b2(c.Stream), byte(c.Target), b2(c.Sched.Cycle), b2(c.Sched.EOFWithData)}
			for _, n := range c.Sched.Chunks {
				sb = append(sb, byte(n), byte(n>>8), ',')
			}
			fp := cov.FP(in, sb, []byte("unmarshal"))
			rec.NonTrivial(fp)
			rec.Sample(fp, func() any {
				return map[string]any{"input": string(clip(in)), "input_len": len(in), "target": targetNames[c.Target], "stream": c.Stream, "sched": c.Sched, "refills_inside_tokens": names}
			})
		}
	}
	return err
}

func runRead(c *UCase, mkReader func() io.Reader) error {
	in := c.Input
	want := newTarget(c.Target)
	var werr error
	if p := rt.Guard(func() { werr = json.Unmarshal(append([]byte(nil), in...), want, c.opts()...) }); p != nil {
		return fmt.Errorf("Unmarshal panicked: %v", p)
	}
	got := newTarget(c.Target)
	r := mkReader()
	var gerr error
	if p := rt.Guard(func() { gerr = json.UnmarshalRead(r, got, c.opts()...) }); p != nil {
		return fmt.Errorf("UnmarshalRead panicked: %v (input %q sched %+v)", p, clip(in), c.Sched)
	}
	ws, gs := ushapeOf(werr), ushapeOf(gerr)
	ctx := fmt.Sprintf("input %q utf8=%v dup=%v target=%s sched=%+v", clip(in), c.UTF8, c.Dup, targetNames[c.Target], c.Sched)
	if !sameU(gs, ws, false) {
		err := fmt.Errorf("UnmarshalRead error differs from Unmarshal error:\n got  %v (%v)\n want %v (%v)\n %s", gs, gerr, ws, werr, ctx)
		if sr, ok := r.(*schedReader); ok && f10Unmarshal(in, gs, ws, sr.callPos) {
			return rt.Known(clsF10, err)
		}
		return err
	}
	if werr == nil && !reflect.DeepEqual(got, want) {
		return fmt.Errorf("UnmarshalRead value differs from Unmarshal value:\n got  %#v\n want %#v\n %s", reflect.ValueOf(got).Elem(), reflect.ValueOf(want).Elem(), ctx)
	}
	if sr, ok := r.(*schedReader); ok && werr == nil {
		// documented: consumes the entirety of the reader until io.EOF
		if sr.pos != len(in) {
			return fmt.Errorf("UnmarshalRead succeeded but consumed only %d of %d bytes (%s)", sr.pos, len(in), ctx)
		}
	}
	return nil
}

func runStream(c *UCase, mkReader func() io.Reader) error {
	in := c.Input
	opt := ref.Opt{AllowInvalidUTF8: c.UTF8, AllowDup: c.Dup}
	nodes, _ := ref.ParseStream(in, opt)
	dopts := []jsontext.Options{jsontext.AllowInvalidUTF8(c.UTF8), jsontext.AllowDuplicateNames(c.Dup)}
	dw := jsontext.NewDecoder(bytes.NewBuffer(append([]byte(nil), in...)), dopts...)
	r := mkReader()
	dc := jsontext.NewDecoder(r, dopts...)
	ctx := fmt.Sprintf("input %q utf8=%v dup=%v target=%s sched=%+v", clip(in), c.UTF8, c.Dup, targetNames[c.Target], c.Sched)
	for k := 0; k < len(nodes)+2; k++ {
		want, got := newTarget(c.Target), newTarget(c.Target)
		var werr, gerr error
		calls0 := 0
		if sr, ok := r.(*schedReader); ok {
			calls0 = sr.calls
		}
		if p := rt.Guard(func() { werr = json.UnmarshalDecode(dw, want, c.callOpts()...) }); p != nil {
			return fmt.Errorf("UnmarshalDecode (whole input) panicked: %v (%s)", p, ctx)
		}
		if p := rt.Guard(func() { gerr = json.UnmarshalDecode(dc, got, c.callOpts()...) }); p != nil {
			return fmt.Errorf("UnmarshalDecode (chunked) panicked: %v (%s)", p, ctx)
		}
		ws, gs := ushapeOf(werr), ushapeOf(gerr)
		if !sameU(gs, ws, false) {
			err := fmt.Errorf("value #%d: UnmarshalDecode error over the chunked reader differs from the whole-input decoder:\n got  %v (%v)\n want %v (%v)\n %s", k, gs, gerr, ws, werr, ctx)
			if sr, ok := r.(*schedReader); ok && f10Unmarshal(in, gs, ws, sr.callPos[calls0:]) {
				return rt.Known(clsF10, err)
			}
			return err
		}
		if werr == nil && !reflect.DeepEqual(got, want) {
			return fmt.Errorf("value #%d: UnmarshalDecode over the chunked reader gives %#v, whole-input decoder %#v (%s)", k, reflect.ValueOf(got).Elem(), reflect.ValueOf(want).Elem(), ctx)
		}
		if a, b := dc.InputOffset(), dw.InputOffset(); a != b && werr == nil {
			return fmt.Errorf("value #%d: InputOffset %d (chunked) vs %d (whole) after UnmarshalDecode (%s)", k, a, b, ctx)
		}
		// absolute: Unmarshal of the reference segment
		if k < len(nodes) {
			seg := in[nodes[k].Start:nodes[k].End]
			abs := newTarget(c.Target)
			var aerr error
			if p := rt.Guard(func() { aerr = json.Unmarshal(append([]byte(nil), seg...), abs, c.opts()...) }); p != nil {
				return fmt.Errorf("Unmarshal panicked: %v", p)
			}
			if (aerr == nil) != (gerr == nil) {
				return fmt.Errorf("value #%d: UnmarshalDecode over the stream returns %v but Unmarshal of the segment %q returns %v (%s)", k, gerr, clip(seg), aerr, ctx)
			}
			if aerr == nil && !reflect.DeepEqual(got, abs) {
				return fmt.Errorf("value #%d: UnmarshalDecode over the stream gives %#v but Unmarshal of the segment %q gives %#v (%s)", k, reflect.ValueOf(got).Elem(), clip(seg), reflect.ValueOf(abs).Elem(), ctx)
			}
			if aerr != nil && fmt.Sprintf("%T", aerr) != fmt.Sprintf("%T", gerr) {
				return fmt.Errorf("value #%d: UnmarshalDecode error %v (%T) but Unmarshal of the segment fails with %v (%T) (%s)", k, gerr, gerr, aerr, aerr, ctx)
			}
		} else if k == len(nodes) {
			if _, serr := ref.ParseStream(in, opt); serr == nil && gerr != io.EOF {
				return fmt.Errorf("after the %d values of a valid stream UnmarshalDecode returns %v instead of io.EOF (%s)", len(nodes), gerr, ctx)
			}
		}
		if werr != nil {
			break
		}
	}
	return nil
}

// genU draws a UCase.
func genU(t *rapid.T) UCase {
	c := UCase{UTF8: rapid.IntRange(0, 2).Draw(t, "allowutf8") == 0, Dup: rapid.IntRange(0, 2).Draw(t, "allowdup") == 0,
		Target: rapid.IntRange(0, nTargets-1).Draw(t, "target"), Stream: rapid.Bool().Draw(t, "stream"), Legacy: rapid.IntRange(0, 3).Draw(t, "legacy") == 0}
	cfg := gen.DocCfg{WS: true, LongStr: rapid.IntRange(0, 3).Draw(t, "longstr") == 0, Dups: rapid.IntRange(0, 3).Draw(t, "dups") == 0, BadUTF8: rapid.IntRange(0, 4).Draw(t, "badutf8") == 0}
	var in []byte
	switch rapid.IntRange(0, 5).Draw(t, "shape") {
	case 0, 1:
		in = gen.Doc(t, cfg)
	case 2:
		// an object that fits the struct target, with unknown members
		in = genRecDoc(t, cfg, 2)
	case 3:
		bc := genBoundary(t)
		in = bc.Input
	default:
		in = gen.Stream(t, cfg)
		if !c.Stream && rapid.Bool().Draw(t, "single") {
			in = gen.Doc(t, cfg)
		}
	}
	if c.Stream && rapid.Bool().Draw(t, "more") {
		in = append(append(in, ' '), genRecDoc(t, cfg, 1)...)
		in = append(append(in, '\n'), gen.Doc(t, cfg)...)
	}
	if rapid.IntRange(0, 3).Draw(t, "mutate") == 0 {
		in = gen.Mutate(t, in)
	}
	c.Input = in
	c.Sched = genSched(t, len(in))
	return c
}

func genRecDoc(t *rapid.T, cfg gen.DocCfg, depth int) []byte {
	var b bytes.Buffer
	b.WriteByte('{')
	n := rapid.IntRange(0, 6).Draw(t, "nmemb")
	for i := 0; i < n; i++ {
		if i > 0 {
			b.WriteByte(',')
		}
		name := rapid.SampledFrom([]string{"a", "b", "s", "m", "v", "x", "k", "zz", "unknown-1", "\\u0061", "A", "c", "zz", "extra"}).Draw(t, "name")
		fmt.Fprintf(&b, `"%s":`, name)
		switch {
		case name == "b" && rapid.Bool().Draw(t, "fit"):
			b.WriteString(rapid.SampledFrom([]string{"[1,2,3]", "[]", "null", "[1,2.5]", `[1,"x"]`}).Draw(t, "ints"))
		case name == "s" && rapid.Bool().Draw(t, "fit"):
			b.WriteString(`"` + gen.StrBody(t, cfg) + `"`)
		case name == "x" && depth > 0 && rapid.Bool().Draw(t, "fit"):
			b.Write(genRecDoc(t, cfg, depth-1))
		case (name == "m" || name == "k") && rapid.Bool().Draw(t, "fit"):
			b.WriteString(rapid.SampledFrom([]string{`{"p":{"q":[1,{"r":null}]},"s":2}`, `{}`, `{"p":1,"p":2}`, `null`}).Draw(t, "obj"))
		default:
			sub := cfg
			sub.MaxDepth = 2
			b.Write(gen.Doc(t, sub))
		}
	}
	b.WriteByte('}')
	return b.Bytes()
}

// ---------------------------------------------------------------------------
// sub-check "unmarshal-faults": transient read errors at the boundaries between
// the top-level values of a stream read with UnmarshalDecode. A failed read is
// reported as that error; it is never turned into io.EOF (the reader has not
// reported the end of its data), and the retried call delivers the next value.

// UFCase is a stream of valid values with faults before some of them.
type UFCase struct {
	Docs   [][]byte `json:"docs"`
	Sep    []byte   `json:"sep"`    // whitespace written after every value
	Faults []int    `json:"faults"` // Faults[i]: number of failed reads before value i is delivered (index len(Docs): before the end of input)
	Target int      `json:"target"` // 0 any, 1 jsontext.Value, 2 type with UnmarshalJSONFrom, 3 any through an UnmarshalFromFunc, 4 struct field of the hook type
	Legacy bool     `json:"legacy,omitempty"`
}

// hookFrom stores the value it is asked to decode.
type hookFrom struct{ Raw []byte }

func (h *hookFrom) UnmarshalJSONFrom(dec *jsontext.Decoder) error {
	v, err := dec.ReadValue()
	h.Raw = append(h.Raw[:0], v...)
	return err
}

type boundaryReader struct {
	segs   [][]byte
	faults []int
	i      int
	eof    bool
	fired  int
}

func (r *boundaryReader) Read(p []byte) (int, error) {
	if r.i < len(r.faults) && r.faults[r.i] > 0 {
		r.faults[r.i]--
		r.fired++
		return 0, errT
	}
	if r.i >= len(r.segs) {
		r.eof = true
		return 0, io.EOF
	}
	if len(p) == 0 {
		return 0, nil
	}
	n := copy(p, r.segs[r.i])
	r.segs[r.i] = r.segs[r.i][n:]
	if len(r.segs[r.i]) == 0 {
		r.i++
	}
	return n, nil
}

func genUF(t *rapid.T) UFCase {
	c := UFCase{Target: rapid.IntRange(0, 4).Draw(t, "target"), Legacy: rapid.IntRange(0, 3).Draw(t, "legacy") == 0,
		Sep: []byte(rapid.SampledFrom([]string{"\n", " ", "", "\n\n", " \t\r\n"}).Draw(t, "sep"))}
	n := rapid.IntRange(1, 5).Draw(t, "ndocs")
	cfg := gen.DocCfg{WS: true, MaxDepth: 3}
	for i := 0; i < n; i++ {
		d := gen.Doc(t, cfg)
		if len(c.Sep) == 0 && len(d) > 0 && d[0] != '{' && d[0] != '[' && d[0] != '"' {
			d = append([]byte("["), append(d, ']')...) // adjacent scalars need a separator
		}
		if c.Target == 4 {
			d = append([]byte(`{"H":`), append(d, '}')...)
		}
		c.Docs = append(c.Docs, d)
	}
	for i := 0; i <= n; i++ {
		c.Faults = append(c.Faults, rapid.SampledFrom([]int{0, 0, 1, 1, 2}).Draw(t, "nfaults"))
	}
	return c
}

// RunUF decides one UFCase.
func RunUF(c UFCase) error {
	rec.Eval()
	var whole []byte
	rd := &boundaryReader{faults: append([]int(nil), c.Faults...)}
	for _, d := range c.Docs {
		if _, err := ref.Parse(d, ref.Opt{}); err != nil {
			rec.Class("unmarshal-faults:invalid-doc(not a case)")
			return nil
		}
		seg := append(append([]byte(nil), d...), c.Sep...)
		rd.segs = append(rd.segs, seg)
		whole = append(whole, seg...)
	}
	for len(rd.faults) < len(rd.segs)+1 {
		rd.faults = append(rd.faults, 0)
	}
	total := 0
	for _, f := range rd.faults {
		total += f
	}
	var opts []json.Options
	if c.Legacy {
		opts = append(opts, jsonv1.ReportErrorsWithLegacySemantics(true))
	}
	if c.Target == 3 {
		opts = append(opts, json.WithUnmarshalers(json.UnmarshalFromFunc(func(dec *jsontext.Decoder, p *any) error {
			v, err := dec.ReadValue()
			*p = string(v)
			return err
		})))
	}
	mk := func() any {
		switch c.Target {
		case 1:
			return new(jsontext.Value)
		case 2:
			return new(hookFrom)
		case 4:
			return new(struct{ H hookFrom })
		}
		return new(any)
	}
	for _, d := range c.Docs {
		// every value must be acceptable alone, else the stream proves nothing
		if err := json.Unmarshal(d, mk(), opts...); err != nil {
			rec.Class("unmarshal-faults:value-rejected-alone(not a case)")
			return nil
		}
	}
	dec := jsontext.NewDecoder(rd)
	ctx := fmt.Sprintf("stream %q, failed reads before each value %v, target %d, legacy=%v", clip(whole), c.Faults, c.Target, c.Legacy)
	i, surfaced := 0, 0
	for step := 0; step < 2*(len(c.Docs)+total)+4; step++ {
		tgt := mk()
		var err error
		if p := rt.Guard(func() { err = json.UnmarshalDecode(dec, tgt, opts...) }); p != nil {
			return fmt.Errorf("UnmarshalDecode panicked: %v (%s)", p, ctx)
		}
		switch {
		case err == nil:
			if i >= len(c.Docs) {
				return fmt.Errorf("UnmarshalDecode delivered more values than the stream holds (%s)", ctx)
			}
			want := strings.TrimSpace(string(c.Docs[i]))
			switch v := tgt.(type) {
			case *jsontext.Value:
				if string(*v) != want {
					return fmt.Errorf("value #%d: got %q, the stream holds %q (%s)", i, *v, want, ctx)
				}
			case *hookFrom:
				if string(v.Raw) != want {
					return fmt.Errorf("value #%d: UnmarshalJSONFrom saw %q, the stream holds %q (%s)", i, v.Raw, want, ctx)
				}
			case *any:
				if c.Target == 3 {
					if s, _ := (*v).(string); s != want {
						return fmt.Errorf("value #%d: the UnmarshalFromFunc saw %q, the stream holds %q (%s)", i, *v, want, ctx)
					}
				} else {
					var w any
					if werr := json.Unmarshal(c.Docs[i], &w); werr == nil && !reflect.DeepEqual(*v, w) {
						return fmt.Errorf("value #%d: got %#v, Unmarshal of %q gives %#v (%s)", i, *v, c.Docs[i], w, ctx)
					}
				}
			}
			i++
		case errors.Is(err, errT):
			surfaced++
			if c.Target == 4 {
				// a struct is decoded member by member: a fault inside it leaves
				// the decoder mid-value, which the statement does not constrain
				rec.Class("unmarshal-faults:struct-target-stops-at-first-fault")
				return nil
			}
		case err == io.EOF:
			if !rd.eof {
				return fmt.Errorf("UnmarshalDecode returned io.EOF after %d of %d values although the reader never reported the end of its data: a failed read was turned into the end of the stream (%s)", i, len(c.Docs), ctx)
			}
			if i != len(c.Docs) {
				return fmt.Errorf("UnmarshalDecode returned io.EOF after %d of %d values (%s)", i, len(c.Docs), ctx)
			}
			if total > 0 {
				fp := cov.FP(whole, []byte(fmt.Sprint(c.Faults, c.Target, c.Legacy)), []byte("ufaults"))
				rec.NonTrivial(fp)
				rec.Sample(fp, func() any {
					return map[string]any{"check": "unmarshal-faults", "stream": string(clip(whole)), "failed_reads_before_value": c.Faults, "target": c.Target, "faults_surfaced": surfaced}
				})
				rec.Class("unmarshal-faults:stream-with-faults-completed")
			}
			return nil
		default:
			if i == len(c.Docs) {
				// Every value was delivered; how the end of the input is reported
				// after a failed read is not constrained by the statement (its
				// fault clause names ReadToken, ReadValue and PeekKind). Observed:
				// for targets with UnmarshalJSONFrom the failed read is absorbed by
				// the end-of-input probe and the method's ReadValue then meets
				// io.EOF, reported as a SemanticError wrapping "unexpected EOF".
				rec.Class("unmarshal-faults:error-after-last-value(not constrained)")
				return nil
			}
			return fmt.Errorf("UnmarshalDecode failed with %v (%T) on a stream of valid values after %d of %d (%s)", err, err, i, len(c.Docs), ctx)
		}
	}
	return fmt.Errorf("UnmarshalDecode neither finished the stream nor reported its end within the step budget (%s)", ctx)
}

package c05

import (
	"bytes"
	"fmt"

	"verif/harness/ref"
)

// model drives the independent reference token list (ref.Tokens) with the
// same ops as the decoder: clause (ii), valid streams only.
type model struct {
	in    []byte
	toks  []ref.Tok
	match []int // for an opening token: index of its closing token
	i     int
	st    state
}

func newModel(in []byte, toks []ref.Tok) *model {
	m := &model{in: in, toks: toks, match: make([]int, len(toks))}
	var stack []int
	for i, t := range toks {
		switch t.Kind {
		case '{', '[':
			stack = append(stack, i)
		case '}', ']':
			o := stack[len(stack)-1]
			stack = stack[:len(stack)-1]
			m.match[o] = i
		}
	}
	return m
}

// atClose reports whether the next token is '}' or ']'.
func (m *model) atClose() bool {
	return m.i < len(m.toks) && (m.toks[m.i].Kind == '}' || m.toks[m.i].Kind == ']')
}

// modelStep is what the documentation promises for one call.
type modelStep struct {
	op      byte
	kind    byte
	text    []byte // nil: not checked
	eof     bool   // io.EOF expected
	synErr  bool   // a *SyntacticError expected (ReadValue/SkipValue at an end token)
	st      state
	hasText bool
}

func (s modelStep) String() string {
	return fmt.Sprintf("{%c kind=%q text=%q eof=%v syntactic-error=%v off=%d depth=%d ptr=%q}", s.op, printable(s.kind), clip(s.text), s.eof, s.synErr, s.st.off, s.st.depth, s.st.ptr)
}

func (m *model) apply(op byte) modelStep {
	s := modelStep{op: op}
	n := len(m.toks)
	switch op {
	case 'P':
		if m.i < n {
			s.kind = byte(m.toks[m.i].Kind)
		}
	case 'T':
		if m.i >= n {
			s.eof = true
			break
		}
		t := m.toks[m.i]
		s.kind = byte(t.Kind)
		switch t.Kind {
		case '"':
			s.text, s.hasText = []byte(t.Str), true
		case '0':
			s.text, s.hasText = m.in[t.Start:t.End], true
		}
		m.st = state{off: int64(t.End), depth: t.Depth, ptr: t.Pointer}
		m.i++
	case 'V', 'S':
		if m.i >= n {
			s.eof = true
			break
		}
		t := m.toks[m.i]
		if t.Kind == '}' || t.Kind == ']' {
			s.synErr = true
			break
		}
		j := m.i
		if t.Kind == '{' || t.Kind == '[' {
			j = m.match[m.i]
		}
		e := m.toks[j]
		if op == 'V' {
			s.kind = byte(t.Kind)
			s.text, s.hasText = m.in[t.Start:e.End], true
		}
		m.st = state{off: int64(e.End), depth: e.Depth, ptr: e.Pointer}
		m.i = j + 1
	}
	s.st = m.st
	return s
}

// diff compares an observed step with the model ("" when they agree).
func (m *model) diff(got step, want modelStep) string {
	switch {
	case want.eof:
		if got.err == nil || got.err.isSyn || !got.err.eof || got.err.typ != "*errors.errorString" {
			return fmt.Sprintf("expected io.EOF, got %v", got.err)
		}
	case want.synErr:
		if got.err == nil || !got.err.isSyn {
			return fmt.Sprintf("expected a *SyntacticError (value read at an end token), got %v", got.err)
		}
	default:
		if got.err != nil {
			return fmt.Sprintf("unexpected error %v", got.err)
		}
	}
	if got.kind != want.kind {
		return fmt.Sprintf("kind %q vs %q", printable(got.kind), printable(want.kind))
	}
	if want.hasText && !bytes.Equal(got.text, want.text) {
		return fmt.Sprintf("text %q vs %q", clip(got.text), clip(want.text))
	}
	if got.st != want.st {
		return fmt.Sprintf("state after the call %+v vs %+v", got.st, want.st)
	}
	return ""
}

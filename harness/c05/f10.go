package c05

import (
	"strconv"
	"strings"

	"verif/harness/ref"
)

// clsF10 names the known finding F10 (DESIGN.md section 7): consumeObject
// keeps a slice of the member name (quotedName) across fetch() calls, which
// move the buffer; the JSONPointer of a syntactic error raised by ReadValue
// inside that member is then built from stale bytes.
const clsF10 = "chunked-error-pointer-stale-name"

type f10frame struct {
	obj        bool
	idx        int
	ns, ne     int
	hasName    bool
	expectName bool
}

func strEnd(in []byte, i int) int {
	n := len(in)
	j := i + 1
	for j < n {
		if in[j] == '\\' {
			j += 2
			continue
		}
		if in[j] == '"' {
			return j + 1
		}
		j++
	}
	return n + 1 // unterminated
}

// isF10 reports whether the disagreement between got (chunked) and want
// (whole input) at a ReadValue step is exactly finding F10:
//   - both calls fail with a *SyntacticError of the same class at the same
//     ByteOffset and leave the state (equal in both runs) unchanged;
//   - the only difference is the JSONPointer, the two pointers have the same
//     number of tokens, and every differing token is the name of a member of
//     an object *inside the value being read* whose name had been scanned
//     completely before a refill (a Read call made during this ReadValue with
//     at least name-end bytes handed out before; it must be the first Read
//     call of this ReadValue), i.e. a position where consumeObject holds a
//     quotedName slice across a fetch() that moves the buffer contents;
//   - the decoder had consumed something before (InputOffset > 0), which is
//     necessary for fetch() to move the buffer contents.
//
// calls are the handed-out byte counts before each Read call made during the
// failing ReadValue.
func isF10(in []byte, st0 state, got, want step, calls []int) bool {
	return isF10x(in, st0, got, want, calls, true)
}

// isF10x: with firstOnly the refill that makes a name stale must be the first
// Read call of the failing ReadValue (only that fetch can move the buffer
// contents: afterwards prevStart is 0, and a growing fetch leaves the old
// array intact). firstOnly=false is used where the inner ReadValue call is not
// visible (Unmarshal level).
func isF10x(in []byte, st0 state, got, want step, calls []int, firstOnly bool) bool {
	if want.op != 'V' || got.err == nil || want.err == nil || !got.err.isSyn || !want.err.isSyn {
		return false
	}
	if got.err.ptr == want.err.ptr || diffStep(got, want, true) != "" {
		return false
	}
	if got.st != st0 || st0.off <= 0 || len(calls) == 0 {
		return false
	}
	gt := strings.Split(got.err.ptr, "/")
	wt := strings.Split(want.err.ptr, "/")
	if len(gt) != len(wt) || len(wt) < 2 {
		return false
	}
	gt, wt = gt[1:], wt[1:]

	// walk the value from its start to the error offset
	errOff := int(want.err.off)
	if errOff > len(in) {
		return false
	}
	i := int(st0.off)
	skipWS := func() {
		for i < len(in) && (in[i] == ' ' || in[i] == '\t' || in[i] == '\n' || in[i] == '\r') {
			i++
		}
	}
	skipWS()
	if i < len(in) && (in[i] == ',' || in[i] == ':') {
		i++
		skipWS()
	}
	if i >= len(in) || in[i] != '{' && in[i] != '[' {
		return false
	}
	var fr []f10frame
	for i < errOff {
		switch c := in[i]; c {
		case '{':
			fr = append(fr, f10frame{obj: true, expectName: true})
			i++
		case '[':
			fr = append(fr, f10frame{})
			i++
		case '}', ']':
			if len(fr) <= 1 {
				return false // the value would be complete
			}
			fr = fr[:len(fr)-1]
			i++
		case ',':
			if len(fr) == 0 {
				return false
			}
			t := &fr[len(fr)-1]
			if t.obj {
				t.expectName, t.hasName = true, false
			} else {
				t.idx++
			}
			i++
		case ':':
			i++
		case '"':
			if len(fr) == 0 {
				return false
			}
			j := strEnd(in, i)
			if j > errOff {
				i = errOff // the error lies inside this string
				break
			}
			t := &fr[len(fr)-1]
			if t.obj && t.expectName {
				t.ns, t.ne, t.hasName, t.expectName = i, j, true, false
			}
			i = j
		default:
			i++
		}
	}
	if len(fr) == 0 {
		return false
	}
	// expected pointer suffix contributed by the frames
	type ptok struct {
		tok   string
		stale bool
	}
	build := func(withInnermost bool) ([]ptok, bool) {
		var out []ptok
		for k, f := range fr {
			last := k == len(fr)-1
			if last && !withInnermost {
				break
			}
			if !f.obj {
				out = append(out, ptok{tok: strconv.Itoa(f.idx)})
				continue
			}
			if !f.hasName {
				if last && want.err.dup && f.expectName && errOff < len(in) && in[errOff] == '"' {
					// duplicate-name error reported at the start of the name:
					// the name is freshly sliced, never stale
					j := strEnd(in, errOff)
					if j > len(in) {
						return nil, false
					}
					s, _, ok := ref.Unquote(in[errOff:j])
					if !ok {
						return nil, false
					}
					out = append(out, ptok{tok: ref.EscapePtr(s)})
					continue
				}
				if last {
					continue // error before/inside the name: no token
				}
				return nil, false
			}
			s, _, ok := ref.Unquote(in[f.ns:f.ne])
			if !ok {
				return nil, false
			}
			stale := false
			for k, h := range calls {
				if h >= f.ne && (k == 0 || !firstOnly) {
					stale = true
				}
			}
			out = append(out, ptok{tok: ref.EscapePtr(s), stale: stale})
		}
		return out, true
	}
	for _, withInner := range []bool{true, false} {
		suf, ok := build(withInner)
		if !ok || len(suf) == 0 || len(suf) > len(wt) {
			continue
		}
		base := len(wt) - len(suf)
		match, ndiff := true, 0
		for k := range wt {
			if k < base {
				if wt[k] != gt[k] {
					match = false
				}
				continue
			}
			p := suf[k-base]
			if wt[k] != p.tok {
				match = false // our reading of the input disagrees with the whole-input pointer
				break
			}
			if wt[k] != gt[k] {
				if !p.stale {
					match = false
					break
				}
				ndiff++
			}
		}
		if match && ndiff > 0 {
			return true
		}
	}
	return false
}

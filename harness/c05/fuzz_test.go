package c05

import (
	"encoding/json"
	"fmt"
	"os"
	"path/filepath"
	"testing"

	"verif/harness/cov"
)

// caseFromFuzz decodes the two fuzz arguments into a Case (data provider).
//
//	schedule[0]   flag bits: 1 AllowInvalidUTF8, 2 AllowDuplicateNames, 4 data+EOF,
//	              8 cycle the chunk list, 16 ClearWithValue, 32 faults present, 64 *bytes.Buffer, 128 RetryPeek
//	schedule[1]   number of ops (mod 8), followed by that many op bytes (b&3 -> T V S P)
//	next          tail length (1 + b&3), followed by the tail ops
//	next          (if faults) number of faults (1 + b&3) followed by the Read-call indices
//	rest          chunk lengths: 0 empty read, 1..199 that many bytes, >=200 (b-199)*64 bytes
func caseFromFuzz(data, schedule []byte) Case {
	c := Case{Input: data}
	i := 0
	next := func() (byte, bool) {
		if i < len(schedule) {
			i++
			return schedule[i-1], true
		}
		return 0, false
	}
	const alphabet = "TVSP"
	flags, _ := next()
	c.UTF8 = flags&1 != 0
	c.Dup = flags&2 != 0
	c.Sched.EOFWithData = flags&4 != 0
	c.Sched.Cycle = flags&8 != 0
	c.ClearWithValue = flags&16 != 0
	c.RetryPeek = flags&128 != 0
	c.Sched.Buffer = flags&64 != 0 && flags&32 == 0
	nops, _ := next()
	for k := 0; k < int(nops&7); k++ {
		b, ok := next()
		if !ok {
			break
		}
		c.Ops = append(c.Ops, alphabet[b&3])
	}
	ntail, _ := next()
	progress := false
	for k := 0; k < 1+int(ntail&3); k++ {
		b, _ := next()
		op := alphabet[b&3]
		c.Tail = append(c.Tail, op)
		progress = progress || op != 'P'
	}
	if !progress {
		c.Tail = append(c.Tail, 'T')
	}
	if flags&32 != 0 {
		nf, _ := next()
		for k := 0; k < 1+int(nf&3); k++ {
			b, ok := next()
			if !ok {
				break
			}
			c.Sched.Faults = append(c.Sched.Faults, int(b))
		}
	}
	for {
		b, ok := next()
		if !ok {
			break
		}
		n := int(b)
		if n >= 200 {
			n = (n - 199) * 64
		}
		c.Sched.Chunks = append(c.Sched.Chunks, n)
		if len(c.Sched.Chunks) >= 64 {
			break
		}
	}
	return c
}

// FuzzChunked is the native coverage-guided target of the thorough tier.
func FuzzChunked(f *testing.F) {
	for _, s := range cutCatalogue {
		f.Add([]byte(s), []byte{0, 0, 0, 0, 3})
		f.Add([]byte(s), []byte{8, 1, 0, 0, 1, 1})
		f.Add([]byte(s), []byte{3 | 8 | 32, 2, 3, 0, 1, 0, 1, 1, 2, 4, 2})
	}
	for _, s := range hotBad {
		f.Add([]byte(`[0,{"name":[1,`+s+`]}]`), []byte{8, 2, 0, 0, 0, 1, 7})
	}
	f.Fuzz(func(t *testing.T, data, schedule []byte) {
		if len(data) > 16<<10 {
			return
		}
		c := caseFromFuzz(data, schedule)
		var o outcome
		err := run(&c, &o)
		if err == nil || isKnownF10(err) {
			return
		}
		root := os.Getenv("VERIF_ROOT")
		if root == "" {
			root = "/verif"
		}
		raw, _ := json.Marshal(c)
		file := map[string]any{"property": "C05", "sub": "FuzzChunked", "case": json.RawMessage(raw), "msg": err.Error()}
		out, _ := json.MarshalIndent(file, "", " ")
		dir := filepath.Join(root, "replays")
		os.MkdirAll(dir, 0o755)
		path := filepath.Join(dir, fmt.Sprintf("C05-FuzzChunked-%016x.json", cov.FP(raw)))
		os.WriteFile(path, out, 0o644)
		fmt.Printf("VERIF-FUZZ-REPLAY %s\n", path)
		t.Fatalf("VERIF-FUZZ-REPLAY %s\n%v", path, err)
	})
}

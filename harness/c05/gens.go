package c05

import (
	"fmt"
	"sort"
	"strings"

	"pgregory.net/rapid"

	"verif/harness/cov"
	"verif/harness/gen"
	"verif/harness/rt"
)

// ---------------------------------------------------------------------------
// schedules, programs, faults

var chunkMix = []int{0, 1, 1, 2, 3, 4, 5, 6, 7, 8, 13, 16, 31, 32, 33, 63, 64, 65, 100, 127, 128, 129, 500, 1000, 4096}

func genSched(t *rapid.T, total int) Sched {
	var s Sched
	switch rapid.IntRange(0, 10).Draw(t, "sched") {
	case 0:
		s.Buffer = true
		return s
	case 1:
		s.Chunks, s.Cycle = []int{1}, true
	case 2:
		s.Chunks, s.Cycle = []int{rapid.IntRange(2, 9).Draw(t, "k")}, true
	case 3:
		// full reads: the decoder's own buffer size decides where refills fall
	case 4:
		s.Chunks, s.Cycle = []int{rapid.SampledFrom([]int{13, 16, 31, 32, 33, 63, 64, 65, 100, 127, 128, 129, 500, 4096}).Draw(t, "k")}, true
	case 5, 6:
		n := rapid.IntRange(1, 12).Draw(t, "nchunks")
		for i := 0; i < n; i++ {
			s.Chunks = append(s.Chunks, rapid.SampledFrom(chunkMix).Draw(t, "chunk"))
		}
		s.Cycle = rapid.Bool().Draw(t, "cycle")
	case 7:
		s.Chunks = rapid.SampledFrom([][]int{{1, 0}, {0, 0, 0, 1}, {2, 0, 0}, {0, 3}, {0, 0, 0, 0, 5}, {1, 0, 0, 0, 2}}).Draw(t, "zeros")
		s.Cycle = true
	default:
		// explicit cut positions
		if total >= 2 {
			n := rapid.IntRange(1, 4).Draw(t, "ncuts")
			cuts := make([]int, n)
			for i := range cuts {
				cuts[i] = rapid.IntRange(1, total-1).Draw(t, "cut")
			}
			sort.Ints(cuts)
			prev := 0
			for _, c := range cuts {
				if c > prev {
					s.Chunks = append(s.Chunks, c-prev)
					prev = c
				}
			}
		}
	}
	s.EOFWithData = rapid.IntRange(0, 2).Draw(t, "eofdata") == 0
	if rapid.IntRange(0, 5).Draw(t, "warm") == 0 {
		s.Warm = rapid.SampledFrom([]int{70, 150, 300, 700, 1500, 3000, 6000}).Draw(t, "warmlen")
	}
	return s
}

var opMix = []byte("TTTTVVVSSPP")

func genProgram(t *rapid.T) (ops, tail []byte) {
	if rapid.IntRange(0, 3).Draw(t, "progkind") == 0 {
		// plain drains
		tail = []byte(rapid.SampledFrom([]string{"T", "V", "TV", "PT", "S", "TTV", "PV", "TS", "TTTV", "PS"}).Draw(t, "plain"))
		n := rapid.IntRange(0, 3).Draw(t, "nops")
		for i := 0; i < n; i++ {
			ops = append(ops, rapid.SampledFrom(opMix).Draw(t, "op"))
		}
		return ops, tail
	}
	n := rapid.IntRange(0, 10).Draw(t, "nops")
	for i := 0; i < n; i++ {
		ops = append(ops, rapid.SampledFrom(opMix).Draw(t, "op"))
	}
	m := rapid.IntRange(1, 4).Draw(t, "ntail")
	progress := false
	for i := 0; i < m; i++ {
		op := rapid.SampledFrom(opMix).Draw(t, "tailop")
		tail = append(tail, op)
		if op != 'P' {
			progress = true
		}
	}
	if !progress {
		tail = append(tail, 'T')
	}
	return ops, tail
}

func genFaults(t *rapid.T, total int) []int {
	n := rapid.IntRange(1, 4).Draw(t, "nfaults")
	hi := 12
	if rapid.Bool().Draw(t, "farfault") {
		hi = min(total, 200) + 3
	}
	set := map[int]bool{}
	for i := 0; i < n; i++ {
		set[rapid.IntRange(0, hi).Draw(t, "fault")] = true
	}
	if rapid.IntRange(0, 3).Draw(t, "consecutive") == 0 {
		for f := range set {
			set[f+1] = true
			break
		}
	}
	out := make([]int, 0, len(set))
	for f := range set {
		out = append(out, f)
	}
	sort.Ints(out)
	return out
}

// ---------------------------------------------------------------------------
// inputs

func genDocInput(t *rapid.T) []byte {
	cfg := gen.DocCfg{WS: true, LongStr: rapid.IntRange(0, 3).Draw(t, "longstr") == 0, Wide: rapid.IntRange(0, 5).Draw(t, "wide") == 0,
		Dups: rapid.Bool().Draw(t, "dups"), BadUTF8: rapid.IntRange(0, 3).Draw(t, "badutf8") == 0}
	switch rapid.IntRange(0, 9).Draw(t, "inputclass") {
	case 0, 1, 2, 3:
		return gen.Doc(t, cfg)
	case 4, 5:
		return gen.Stream(t, cfg)
	case 6, 7, 8:
		in := gen.Doc(t, cfg)
		if rapid.Bool().Draw(t, "stream") {
			in = gen.Stream(t, cfg)
		}
		return gen.Mutate(t, in)
	default:
		return gen.LexSeq(t, 8)
	}
}

func genSmall(t *rapid.T) Case {
	in := genDocInput(t)
	c := Case{Input: in, UTF8: rapid.Bool().Draw(t, "allowutf8"), Dup: rapid.Bool().Draw(t, "allowdup")}
	c.Sched = genSched(t, len(in))
	c.Ops, c.Tail = genProgram(t)
	return c
}

func genFaulty(t *rapid.T) Case {
	var c Case
	if rapid.IntRange(0, 3).Draw(t, "boundaryinput") == 0 {
		c = genBoundary(t)
	} else {
		c = genSmall(t)
	}
	if c.Sched.Buffer {
		c.Sched = Sched{Chunks: []int{rapid.IntRange(1, 7).Draw(t, "k")}, Cycle: true}
	}
	c.Sched.Faults = genFaults(t, len(c.Input))
	c.ClearWithValue = rapid.Bool().Draw(t, "clearV")
	c.RetryPeek = rapid.Bool().Draw(t, "retrypeek")
	return c
}

var hotTokens = []string{
	`"\ud83d\ude00"`, `"a\uD834\uDD1Eb"`, `"x\u00e9y"`, `"\n\\\"\/\b"`, "\"\u00e9\U0001F600\u65e5\u672c\"", `"plain ascii string"`, `""`, `"\ud800\udc00"`, `"\uDBFF\uDFFF\uDC00"`, `"\u0000\u001f"`,
	`-12.5e+10`, `1E5`, `0`, `-0.0`, `123456789012345678901234567890`, `1e-7`, `0.000000000000000000001E-999`,
	`false`, `null`, `true`,
	`{"name":"value"}`, `{"a":{"b":[1,{"c":null}]}}`, `[[[]]]`, `{}`, `[]`, `{"\u006b":1,"k2":{"k":2}}`, `{"n" : [ 1 , "x" ] , "m" : { } }`,
}

var hotBad = []string{
	`"\ud83dx"`, `"\ud83d\u0041"`, `"\ude00"`, `tru`, `nulL`, `1e`, `1.`, `-`, `01`, "\"\xff\"", "\"\xe2\x82\"", "\"\xf0\x9f\x98\"", `{"a" 1}`, `{"a":1,"a":2}`, `{"a":{"b":}}`,
	`[1 2]`, `"\u12G4"`, `"\q"`, "\"a\x01b\"", `{"k":{"k2":[1,{"k3":tru}]}}`, `{"k":{"k2" 7}}`, `{"k":{"k2":7 "k3":8}}`, `{"dup":{"x":1,"\u0078":2}}`, `[1,]`, `{"a":1,}`, `]`, `}`,
	`{"name":{"inner":[{"deep"`, `{"name":{"inner":`, `{"name"`,
}

var fillers = []string{`0`, `12`, `"aaaaaaa"`, `null`, `true`, `[]`, `{}`, `-1.5e3`, `"\u00e9"`, `{"f":1}`, `[1,2]`}

// genBoundary builds an input in which an interesting token starts a few
// bytes before or after a power-of-two offset (64 ... 8192), so that the
// decoder's buffer boundaries (and the scheduled cuts) fall inside it.
func genBoundary(t *rapid.T) Case {
	L := rapid.SampledFrom([]int{64, 64, 64, 128, 128, 256, 256, 512, 1024, 2048, 4096, 8192}).Draw(t, "L")
	delta := rapid.IntRange(-9, 6).Draw(t, "delta")
	target := L + delta
	var sb strings.Builder
	var closers []byte
	// optional named nesting in front (names live in the buffer)
	nest := rapid.IntRange(0, 3).Draw(t, "nest")
	for i := 0; i < nest; i++ {
		if rapid.Bool().Draw(t, "nestobj") {
			fmt.Fprintf(&sb, `{"n%d":`, i)
			closers = append(closers, '}')
		} else {
			sb.WriteString(`[0,`)
			closers = append(closers, ']')
		}
	}
	layout := rapid.IntRange(0, 3).Draw(t, "layout") // 0 array, 1 object, 2 top-level stream, 3 array with one long string
	if nest > 0 && layout == 2 {
		layout = 0
	}
	sep := ","
	switch layout {
	case 0, 3:
		sb.WriteByte('[')
		closers = append(closers, ']')
	case 1:
		sb.WriteByte('{')
		closers = append(closers, '}')
	case 2:
		sep = rapid.SampledFrom([]string{" ", "\n", "  "}).Draw(t, "streamsep")
	}
	hot := rapid.SampledFrom(hotTokens).Draw(t, "hot")
	bad := rapid.IntRange(0, 3).Draw(t, "bad") == 0
	if bad {
		hot = rapid.SampledFrom(hotBad).Draw(t, "hotbad")
	}
	hotAsName := layout == 1 && hot[0] == '"' && rapid.Bool().Draw(t, "hotname")
	// filler up to the target offset
	k := 0
	first := true
	member := func(val string) string {
		k++
		return fmt.Sprintf(`"k%d":%s`, k, val)
	}
	overhead := 0
	if layout == 1 && !hotAsName {
		overhead = 5 // `"kN":`
	}
	if layout == 3 {
		// one long string
		n := target - sb.Len() - 3 - overhead
		if n > 0 {
			frag := rapid.SampledFrom([]string{"a", "\u00e9", `\n`, "\U0001F600", `\ud83d\ude00`}).Draw(t, "frag")
			sb.WriteString(`"` + strings.Repeat(frag, n/len(frag)) + `"`)
			first = false
		}
	} else {
		fill := rapid.SampledFrom(fillers).Draw(t, "filler")
		varied := rapid.Bool().Draw(t, "varied")
		for sb.Len() < target-12-overhead {
			if !first {
				sb.WriteString(sep)
			}
			first = false
			f := fill
			if varied {
				f = fillers[(k*7+len(fill))%len(fillers)]
			}
			if layout == 1 {
				sb.WriteString(member(f))
			} else {
				k++
				sb.WriteString(f)
			}
		}
	}
	if !first {
		sb.WriteString(sep)
	}
	// whitespace up to the exact offset
	for sb.Len() < target-overhead {
		sb.WriteByte(' ')
	}
	switch {
	case hotAsName:
		sb.WriteString(hot + `:` + rapid.SampledFrom([]string{"1", `"v"`, `{"q":[]}`, "null"}).Draw(t, "nameval"))
	case layout == 1:
		sb.WriteString(member(hot))
	default:
		sb.WriteString(hot)
	}
	// suffix
	ns := rapid.IntRange(0, 3).Draw(t, "nsuffix")
	for i := 0; i < ns; i++ {
		sb.WriteString(sep)
		if rapid.Bool().Draw(t, "suffixws") {
			sb.WriteString(" ")
		}
		v := rapid.SampledFrom(hotTokens).Draw(t, "suffix")
		if layout == 1 {
			sb.WriteString(member(v))
		} else {
			sb.WriteString(v)
		}
	}
	for i := len(closers) - 1; i >= 0; i-- {
		sb.WriteByte(closers[i])
	}
	in := []byte(sb.String())
	switch rapid.IntRange(0, 7).Draw(t, "trunc") {
	case 0:
		lo := max(0, target-4)
		hi := min(len(in), target+len(hot)+4)
		if lo <= hi {
			in = in[:rapid.IntRange(lo, hi).Draw(t, "truncat")]
		}
	case 1:
		in = append(in, rapid.SampledFrom([]string{" ", "\n", " 1", "x", "]", ` {"t":1}`}).Draw(t, "trailer")...)
	}
	c := Case{Input: in, UTF8: rapid.IntRange(0, 2).Draw(t, "allowutf8") == 0, Dup: rapid.IntRange(0, 2).Draw(t, "allowdup") == 0}
	c.Sched = genSched(t, len(in))
	if L >= 2048 && len(c.Sched.Chunks) == 1 && c.Sched.Cycle && c.Sched.Chunks[0] <= 1 && rapid.IntRange(0, 3).Draw(t, "slow1") != 0 {
		c.Sched.Chunks = []int{rapid.IntRange(3, 80).Draw(t, "k2")}
	}
	c.Ops, c.Tail = genProgram(t)
	return c
}

// genLong builds inputs with one very large token or very many tokens.
func genLong(t *rapid.T) Case {
	var sb strings.Builder
	wrap := rapid.IntRange(0, 3).Draw(t, "wrap") // 0 bare, 1 in array after small elements, 2 as member value, 3 as member name
	switch wrap {
	case 1:
		sb.WriteString(`[1,"x",`)
	case 2:
		sb.WriteString(`{"a":1,"b":`)
	case 3:
		sb.WriteString(`{"a":1,`)
	}
	kind := rapid.IntRange(0, 5).Draw(t, "longkind")
	if wrap == 3 {
		kind = 0
	}
	switch kind {
	case 0: // 5 KiB string
		n := rapid.SampledFrom([]int{100, 1000, 4090, 4096, 5000, 5120, 8190, 9000}).Draw(t, "strlen")
		frag := rapid.SampledFrom([]string{"a", "ab", "\u00e9", `\n`, "\U0001F600", `\ud83d\ude00`, `\u00e9`, "a\\\"", "\u65e5\u672c\u8a9e"}).Draw(t, "frag")
		sb.WriteString(`"` + rapid.SampledFrom([]string{"", "p", "pq", "pqr"}).Draw(t, "head") + strings.Repeat(frag, n/len(frag)) + `"`)
		if wrap == 3 {
			sb.WriteString(`:2`)
		}
	case 1: // long number
		n := rapid.SampledFrom([]int{70, 130, 1000, 4100, 6000}).Draw(t, "numlen")
		sb.WriteString("-" + strings.Repeat("7", n/2) + "." + strings.Repeat("3", n/2) + rapid.SampledFrom([]string{"", "e+10", "E-5"}).Draw(t, "exp"))
	case 2: // many small elements
		n := rapid.SampledFrom([]int{40, 200, 1500}).Draw(t, "nelem")
		el := rapid.SampledFrom([]string{"1", "123", `"s"`, "true", "[]", `{"a":null}`, `"\u00e9"`, "-1e5"}).Draw(t, "elem")
		sb.WriteByte('[')
		for i := 0; i < n; i++ {
			if i > 0 {
				sb.WriteString(rapid.SampledFrom([]string{",", ", ", " ,\n"}).Draw(t, "comma"))
			}
			sb.WriteString(el)
		}
		sb.WriteByte(']')
	case 3: // many members
		n := rapid.SampledFrom([]int{30, 70, 300}).Draw(t, "nmemb")
		sb.WriteByte('{')
		for i := 0; i < n; i++ {
			if i > 0 {
				sb.WriteByte(',')
			}
			fmt.Fprintf(&sb, `"member-%d":%s`, i, rapid.SampledFrom([]string{"1", `"v"`, `{"x":[]}`, "[1,2]"}).Draw(t, "mval"))
		}
		sb.WriteByte('}')
	case 4: // deep nesting
		n := rapid.SampledFrom([]int{20, 70, 300}).Draw(t, "depth")
		obj := rapid.Bool().Draw(t, "deepobj")
		for i := 0; i < n; i++ {
			if obj {
				fmt.Fprintf(&sb, `{"d%d":`, i%10)
			} else {
				sb.WriteByte('[')
			}
		}
		sb.WriteString(rapid.SampledFrom([]string{"1", `"leaf"`, "null", `tru`, ``}).Draw(t, "leaf"))
		for i := 0; i < n; i++ {
			if obj {
				sb.WriteByte('}')
			} else {
				sb.WriteByte(']')
			}
		}
	default: // stream of many values
		n := rapid.SampledFrom([]int{50, 400}).Draw(t, "nvals")
		for i := 0; i < n; i++ {
			sb.WriteString(rapid.SampledFrom([]string{"1", `"s"`, `{"a":[1]}`, "[null]", "12.5"}).Draw(t, "sv"))
			sb.WriteString(rapid.SampledFrom([]string{" ", "\n", "  "}).Draw(t, "ssep"))
		}
	}
	switch wrap {
	case 1:
		sb.WriteString(`,2]`)
	case 2, 3:
		sb.WriteString(`,"z":[]}`)
	}
	in := []byte(sb.String())
	if rapid.IntRange(0, 5).Draw(t, "damage") == 0 {
		in = gen.Mutate(t, in)
	}
	c := Case{Input: in, UTF8: rapid.IntRange(0, 3).Draw(t, "allowutf8") == 0, Dup: rapid.IntRange(0, 3).Draw(t, "allowdup") == 0}
	c.Sched = genSched(t, len(in))
	c.Tail = []byte(rapid.SampledFrom([]string{"T", "V", "TV", "TTTV", "PT", "S", "TS", "PV", "TTVSP"}).Draw(t, "tail"))
	nops := rapid.IntRange(0, 4).Draw(t, "nops")
	for i := 0; i < nops; i++ {
		c.Ops = append(c.Ops, rapid.SampledFrom(opMix).Draw(t, "op"))
	}
	if rapid.IntRange(0, 4).Draw(t, "withfaults") == 0 && !c.Sched.Buffer {
		c.Sched.Faults = genFaults(t, len(in))
	}
	return c
}

// ---------------------------------------------------------------------------
// bounded-exhaustive parts

// cutCatalogue: inputs of at most 40 bytes for the all-cuts enumeration.
var cutCatalogue = []string{
	`{"a":"b\u00e9\n","c":[1,2.5e+3,true]}`,
	`["\ud83d\ude00","\uD834\uDD1E"]`,
	`[-0.0e-12,1E5,123456,0]`,
	`["\ud800\udc00","\uDBFF\uDFFF"]`,
	`[null,false,true,{"x":null}]`,
	`{"a":{"b":{"c":[{"d":1}]}}}`,
	` [ 1 , 2 ] {"k" : "v"} "s" 12 `,
	"\"\u00e9\U0001F600\u65e5\u672c\\u20ac\"",
	`{"a":1,"a":2}`,
	`{"k":1,"\u006b":2}`,
	`["\ud83d","x"]`,
	`["\ud83d\u0041"]`,
	"[\"\xff\xfe\",\"\xe2\x82\"]",
	`{"a":{"b"`,
	`{{"b"`,
	`[{"a":{"b":tru}},1]`,
	`[{"name":[1,{"n2" 5}]}]`,
	`{"a":[1,2,{"b":nul`,
	`[0,{"ab":{"cd":[1,{"ef":1 2}]}}]`,
	`[1,2,3`,
	`[1 2]`,
	`{"a" 1}`,
	`{"a":1 "b":2}`,
	`[1,]`,
	`{,}`,
	`tru`,
	`nulx`,
	`1e`,
	`-`,
	`1.`,
	`01`,
	`"abc`,
	`"\u12`,
	`"\ud83d\ude`,
	`"\q"`,
	`[1]]`,
	`}`,
	`123456789012345678901234567890.5e-300`,
	"[\"a\x01\"]",
	``,
	`  `,
	"\n\t [ ] \r\n",
	`{"x":{"x":{"x":1,"x":2}}}`,
	`[[[[[[[[[[1]]]]]]]]]]`,
	`1 2 3 true null "x"`,
}

type prog struct{ ops, tail string }

var cutPrograms = []prog{{"", "T"}, {"", "V"}, {"T", "V"}, {"", "PT"}, {"T", "S"}, {"TT", "VT"}, {"", "PVT"}}

func enumCuts(e *rt.Env, yield func(Case) bool) {
	var idx, total int64
	complete := true
	emit := func(c Case) bool {
		idx++
		if !e.Mine(idx) {
			return true
		}
		total++
		if !yield(c) {
			complete = false
			return false
		}
		return true
	}
outer:
	for _, s := range cutCatalogue {
		in := []byte(s)
		n := len(in)
		if n > 40 {
			panic("cut catalogue entry longer than 40 bytes: " + s)
		}
		for o := 0; o < 2; o++ {
			perm := o == 1
			for _, p := range cutPrograms {
				base := Case{Input: in, UTF8: perm, Dup: perm, Ops: []byte(p.ops), Tail: []byte(p.tail)}
				// no cut at all (scheduled reader handing out everything), *bytes.Buffer
				c := base
				if !emit(c) {
					break outer
				}
				c.Sched = Sched{Buffer: true}
				if !emit(c) {
					break outer
				}
				for c1 := 1; c1 < n; c1++ {
					c := base
					c.Sched = Sched{Chunks: []int{c1}}
					if !emit(c) {
						break outer
					}
					c.Sched = Sched{Chunks: []int{c1}, EOFWithData: true}
					if !emit(c) {
						break outer
					}
					c.Sched = Sched{Chunks: []int{c1, 0, 0}}
					if !emit(c) {
						break outer
					}
					for c2 := c1 + 1; c2 < n; c2++ {
						c.Sched = Sched{Chunks: []int{c1, c2 - c1}}
						if !emit(c) {
							break outer
						}
					}
				}
			}
		}
	}
	e.Rec.AddPart(cov.Part{Name: fmt.Sprintf("every single cut position (also with data+EOF and with empty reads after the cut) and every pair of cut positions for %d inputs of <=40 bytes x %d programs x 2 option sets", len(cutCatalogue), len(cutPrograms)), Size: total, Complete: complete})
}

// opDocs: small documents for the all-op-sequences enumeration.
var opDocs = []string{
	`{"a":1}`, `[1,2]`, `{"a":[1,{"b":null}],"c":"d"}`, `[[],{},[[]]]`, `"s"`, `12`, `null`, `1 2 3`,
	`{"a":{"b":{"c":1}}}`, `[true,false,null]`, `{"x":"\ud83d\ude00","y":-1.5e3}`, `[{"a":1},{"a":2}]`, ` {} `, `[]`,
	`[1,[2,[3,[4]]]]`, `{"a":1,"a":2}`, `[1,2`, `{"a":`, `{"a" 1}`, `[1,]`, `["a",tru]`, `{"a":{"b"`, `[{"k":"v"}`, ``,
	"{\"\u00e9\":[\"\\u00e9\"]}", `{{"b"`,
}

var opScheds = []Sched{
	{Chunks: []int{1}, Cycle: true},
	{Chunks: []int{2}, Cycle: true, EOFWithData: true},
	{Chunks: []int{3, 0}, Cycle: true},
}

func enumOps(e *rt.Env, yield func(Case) bool) {
	var idx, total int64
	complete := true
	const alphabet = "TVSP"
outer:
	for _, s := range opDocs {
		in := []byte(s)
		for l := 0; l <= 5; l++ {
			n := 1
			for i := 0; i < l; i++ {
				n *= 4
			}
			for x := 0; x < n; x++ {
				ops := make([]byte, l)
				y := x
				for j := 0; j < l; j++ {
					ops[j] = alphabet[y&3]
					y >>= 2
				}
				for si := range opScheds {
					idx++
					if !e.Mine(idx) {
						continue
					}
					total++
					if !yield(Case{Input: in, Sched: opScheds[si], Ops: ops, Tail: []byte("T")}) {
						complete = false
						break outer
					}
				}
			}
		}
	}
	e.Rec.AddPart(cov.Part{Name: fmt.Sprintf("every op sequence of length <=5 over {ReadToken,ReadValue,SkipValue,PeekKind} (then drained by ReadToken) on %d small documents x %d schedules", len(opDocs), len(opScheds)), Size: total, Complete: complete})
}

var faultPrograms = []prog{{"", "T"}, {"", "V"}, {"T", "V"}, {"", "PT"}, {"", "PV"}, {"T", "S"}, {"", "S"}, {"", "TPS"}, {"TT", "VP"}}

func enumFaults(e *rt.Env, yield func(Case) bool) {
	var idx, total int64
	complete := true
	emit := func(c Case) bool {
		idx++
		if !e.Mine(idx) {
			return true
		}
		total++
		if !yield(c) {
			complete = false
			return false
		}
		return true
	}
outer:
	for _, s := range opDocs {
		in := []byte(s)
		for _, p := range faultPrograms {
			for _, k := range []int{1, 2, 5} {
				ncalls := len(in)/k + 3
				for f := 0; f < ncalls; f++ {
					for _, more := range [][]int{nil, {1}, {2}, {1, 2}} {
						faults := []int{f}
						for _, m := range more {
							faults = append(faults, f+m)
						}
						for cv := 0; cv < 4; cv++ {
							if cv > 0 && !strings.Contains(p.ops+p.tail, "P") {
								continue
							}
							c := Case{Input: in, Ops: []byte(p.ops), Tail: []byte(p.tail), ClearWithValue: cv&1 != 0, RetryPeek: cv&2 != 0,
								Sched: Sched{Chunks: []int{k}, Cycle: true, Faults: faults, EOFWithData: k == 2}}
							if !emit(c) {
								break outer
							}
						}
					}
				}
			}
		}
	}
	e.Rec.AddPart(cov.Part{Name: fmt.Sprintf("every fault position (single, and runs f,f+1 / f,f+2 / f,f+1,f+2) under 1-, 2- and 5-byte reads on %d small documents x %d programs", len(opDocs), len(faultPrograms)), Size: total, Complete: complete})
}

// Package c05 decides property C05: decoding is independent of how the input
// arrives (reader chunking, empty reads, data+EOF, *bytes.Buffer, transient
// faults) and of how ReadToken / ReadValue / SkipValue / PeekKind are
// interleaved.
package c05

import (
	"bytes"
	"errors"
	"fmt"
	"io"

	"github.com/go-json-experiment/json/jsontext"

	"verif/harness/cov"
	"verif/harness/ref"
	"verif/harness/rt"
)

var rec = cov.New()

// errT is the transient fault injected by the scheduled reader.
var errT = errors.New("c05: injected transient read fault")

// Sched is a read schedule (plain data).
type Sched struct {
	// Buffer: hand the whole input to the decoder as a *bytes.Buffer (no
	// scheduled reader; Chunks/Faults are ignored).
	Buffer bool `json:"bytes_buffer,omitempty"`
	// Chunks are the lengths offered by successive Read calls; 0 is an empty
	// read (0,nil). A chunk is clipped to len(p) and to the remaining input.
	Chunks []int `json:"chunks"`
	// Cycle repeats Chunks for ever; otherwise everything that remains is
	// offered once the list is used up.
	Cycle bool `json:"cycle,omitempty"`
	// EOFWithData returns the final bytes together with io.EOF.
	EOFWithData bool `json:"eof_with_data,omitempty"`
	// Warm > 0: the Decoder is not fresh. It first reads one JSON string of
	// Warm bytes from another reader (which grows its internal buffer) and is
	// then Reset onto the scheduled reader, as pooled decoders are.
	Warm int `json:"warm,omitempty"`
	// Faults are indices of Read calls (counted over all calls, starting at
	// 0) that return (0, errT) without consuming a chunk.
	Faults []int `json:"faults,omitempty"`
}

// Case is one (input, options, schedule, program) tuple.
type Case struct {
	Input []byte `json:"input"`
	UTF8  bool   `json:"allow_invalid_utf8"`
	Dup   bool   `json:"allow_duplicate_names"`
	Sched Sched  `json:"sched"`
	// Ops is the program: 'T' ReadToken, 'V' ReadValue, 'S' SkipValue,
	// 'P' PeekKind. After Ops, Tail is repeated until the first error.
	Ops  []byte `json:"ops"`
	Tail []byte `json:"tail"`
	// ClearWithValue selects ReadValue (instead of ReadToken) as the read
	// call that follows a PeekKind that failed because of an injected fault.
	ClearWithValue bool `json:"clear_with_value,omitempty"`
	// RetryPeek: after a PeekKind that failed because of an injected fault,
	// always issue an extra read call (which must report the cached error)
	// and then retry PeekKind. When false and the next op of the program is
	// ReadToken/ReadValue, that op itself is issued (it must report the cached
	// error) and is then retried as the next step, the usual calling pattern.
	RetryPeek bool `json:"retry_peek,omitempty"`
}

func (c Case) opts() []jsontext.Options {
	return []jsontext.Options{jsontext.AllowInvalidUTF8(c.UTF8), jsontext.AllowDuplicateNames(c.Dup)}
}

func (c Case) fp() uint64 {
	sb := make([]byte, 0, 16+4*len(c.Sched.Chunks))
	sb = append(sb, b2(c.UTF8), b2(c.Dup), b2(c.Sched.Buffer), b2(c.Sched.Cycle), b2(c.Sched.EOFWithData), b2(c.ClearWithValue), b2(c.RetryPeek), byte(c.Sched.Warm), byte(c.Sched.Warm>>8))
	for _, n := range c.Sched.Chunks {
		sb = append(sb, byte(n), byte(n>>8), byte(n>>16), ',')
	}
	sb = append(sb, '|')
	for _, n := range c.Sched.Faults {
		sb = append(sb, byte(n), byte(n>>8), byte(n>>16), ',')
	}
	return cov.FP(c.Input, sb, c.Ops, c.Tail)
}

func b2(b bool) byte {
	if b {
		return 1
	}
	return 0
}

// ---------------------------------------------------------------------------
// scheduled reader

type schedReader struct {
	in      []byte
	pos     int
	s       *Sched
	ci      int
	zrun    int
	calls   int
	fired   int
	faults  map[int]bool
	bounds  []int // input offsets at which a refill happened with data before and after
	callPos []int // bytes handed out before each Read call
	maxP    int
	eof     bool
}

func newSchedReader(in []byte, s *Sched) *schedReader {
	r := &schedReader{in: in, s: s}
	if len(s.Faults) > 0 {
		r.faults = make(map[int]bool, len(s.Faults))
		for _, f := range s.Faults {
			r.faults[f] = true
		}
	}
	return r
}

func (r *schedReader) Read(p []byte) (int, error) {
	idx := r.calls
	r.calls++
	r.callPos = append(r.callPos, r.pos)
	if len(p) > r.maxP {
		r.maxP = len(p)
	}
	if r.faults[idx] {
		r.fired++
		return 0, errT
	}
	if len(p) == 0 {
		return 0, nil
	}
	if r.pos >= len(r.in) {
		r.eof = true
		return 0, io.EOF
	}
	n := len(r.in) - r.pos
	if r.ci < len(r.s.Chunks) {
		n = r.s.Chunks[r.ci]
		r.ci++
		if r.s.Cycle && r.ci == len(r.s.Chunks) {
			r.ci = 0
		}
	}
	if n <= 0 {
		// empty read; runs of empty reads are bounded as io.Reader demands
		r.zrun++
		if r.zrun <= 3 {
			return 0, nil
		}
		n = 1
	}
	r.zrun = 0
	n = min(n, len(p), len(r.in)-r.pos)
	if r.pos > 0 {
		r.bounds = append(r.bounds, r.pos)
	}
	copy(p, r.in[r.pos:r.pos+n])
	r.pos += n
	if r.pos == len(r.in) && r.s.EOFWithData {
		r.eof = true
		return n, io.EOF
	}
	return n, nil
}

// ---------------------------------------------------------------------------
// observations

type state struct {
	off   int64
	depth int
	ptr   string
}

// errShape is the structural view of an error; message text is never looked at.
type errShape struct {
	raw    error
	typ    string
	isSyn  bool
	off    int64
	ptr    string
	inner  string
	innerE error
	eof    bool // errors.Is(io.EOF)
	ueof   bool // errors.Is(io.ErrUnexpectedEOF)
	dup    bool // errors.Is(jsontext.ErrDuplicateName)
	nonstr bool // errors.Is(jsontext.ErrNonStringName)
	fault  bool // errors.Is(errT)
}

func shapeOf(err error) *errShape {
	if err == nil {
		return nil
	}
	s := &errShape{raw: err, typ: fmt.Sprintf("%T", err)}
	s.eof = errors.Is(err, io.EOF)
	s.ueof = errors.Is(err, io.ErrUnexpectedEOF)
	s.dup = errors.Is(err, jsontext.ErrDuplicateName)
	s.nonstr = errors.Is(err, jsontext.ErrNonStringName)
	s.fault = errors.Is(err, errT)
	if se, ok := err.(*jsontext.SyntacticError); ok {
		s.isSyn = true
		s.off = se.ByteOffset
		s.ptr = string(se.JSONPointer)
		s.inner = fmt.Sprintf("%T", se.Err)
		s.innerE = se.Err
	}
	return s
}

func (s *errShape) String() string {
	if s == nil {
		return "<nil>"
	}
	if s.isSyn {
		return fmt.Sprintf("%s{ByteOffset:%d JSONPointer:%q Err:%s eof=%v ueof=%v dup=%v} (%v)", s.typ, s.off, s.ptr, s.inner, s.eof, s.ueof, s.dup, s.raw)
	}
	return fmt.Sprintf("%s{eof=%v ueof=%v fault=%v} (%v)", s.typ, s.eof, s.ueof, s.fault, s.raw)
}

// sameErr compares two errors structurally. ignorePtr leaves JSONPointer out.
func sameErr(a, b *errShape, ignorePtr bool) bool {
	if a == nil || b == nil {
		return a == b
	}
	if a.typ != b.typ || a.isSyn != b.isSyn || a.eof != b.eof || a.ueof != b.ueof || a.dup != b.dup || a.nonstr != b.nonstr || a.fault != b.fault {
		return false
	}
	if !a.isSyn {
		// a bare sentinel must be the same sentinel
		if a.typ == "*errors.errorString" && a.raw != b.raw {
			return false
		}
		return true
	}
	if a.off != b.off || a.inner != b.inner {
		return false
	}
	if a.inner == "*errors.errorString" && a.innerE != b.innerE {
		return false // different sentinel
	}
	if !ignorePtr && a.ptr != b.ptr {
		return false
	}
	return true
}

// step is what one call returned plus the decoder state after it.
type step struct {
	op   byte
	kind byte   // token kind / value kind / PeekKind result
	text []byte // T: String() of string and number tokens; V: the raw value
	err  *errShape
	st   state
}

func (s step) String() string {
	return fmt.Sprintf("{%c kind=%q text=%q err=%v off=%d depth=%d ptr=%q}", s.op, printable(s.kind), clip(s.text), s.err, s.st.off, s.st.depth, s.st.ptr)
}

func printable(k byte) string {
	if k == 0 {
		return "invalid"
	}
	return string(rune(k))
}

func clip(b []byte) []byte {
	if len(b) > 80 {
		return append(append([]byte(nil), b[:60]...), "...(clipped)"...)
	}
	return b
}

// diffStep explains the first difference between two steps ("" if none).
func diffStep(got, want step, ignorePtr bool) string {
	switch {
	case got.kind != want.kind:
		return fmt.Sprintf("kind %q vs %q", printable(got.kind), printable(want.kind))
	case !bytes.Equal(got.text, want.text):
		return fmt.Sprintf("text %q vs %q", clip(got.text), clip(want.text))
	case !sameErr(got.err, want.err, ignorePtr):
		return fmt.Sprintf("error %v vs %v", got.err, want.err)
	case got.st.off != want.st.off:
		return fmt.Sprintf("InputOffset %d vs %d", got.st.off, want.st.off)
	case got.st.depth != want.st.depth:
		return fmt.Sprintf("StackDepth %d vs %d", got.st.depth, want.st.depth)
	case got.st.ptr != want.st.ptr:
		return fmt.Sprintf("StackPointer %q vs %q", got.st.ptr, want.st.ptr)
	}
	return ""
}

// ---------------------------------------------------------------------------
// executor

type executor struct {
	d      *jsontext.Decoder
	in     []byte
	rd     *schedReader  // nil in *bytes.Buffer mode
	bb     *bytes.Buffer // non-nil in *bytes.Buffer mode
	nsteps int
}

func (x *executor) handed() int {
	if x.rd != nil {
		return x.rd.pos
	}
	return len(x.in) - x.bb.Len()
}

func (x *executor) state() state {
	return state{off: x.d.InputOffset(), depth: x.d.StackDepth(), ptr: string(x.d.StackPointer())}
}

// conserve checks clause (iv): bytes taken from the reader are exactly
// input[:InputOffset] followed by UnreadBuffer.
func (x *executor) conserve(full bool) error {
	off := x.d.InputOffset()
	un := x.d.UnreadBuffer()
	h := x.handed()
	if off < 0 || int(off)+len(un) != h {
		return fmt.Errorf("conservation: reader handed out %d bytes but InputOffset=%d + len(UnreadBuffer)=%d", h, off, len(un))
	}
	if full || len(un) <= 512 {
		if !bytes.Equal(un, x.in[off:h]) {
			return fmt.Errorf("conservation: UnreadBuffer=%q differs from input[%d:%d]=%q", clip(un), off, h, clip(x.in[off:h]))
		}
	}
	return nil
}

// do performs one call and records the result. The second result reports a
// violation of clauses (iii)/(iv) or a panic.
func (x *executor) do(op byte) (s step, verr error) {
	s.op = op
	x.nsteps++
	var err error
	if p := rt.Guard(func() {
		switch op {
		case 'P':
			s.kind = byte(x.d.PeekKind())
		case 'T':
			var tok jsontext.Token
			tok, err = x.d.ReadToken()
			if err == nil {
				s.kind = byte(tok.Kind())
				if s.kind == '"' || s.kind == '0' {
					s.text = []byte(tok.String())
				}
			}
		case 'V':
			var v jsontext.Value
			v, err = x.d.ReadValue()
			if err == nil {
				s.kind = byte(v.Kind())
				s.text = append([]byte{}, v...)
			} else if v != nil {
				verr = fmt.Errorf("ReadValue returned both a value %q and an error %v", clip(v), err)
			}
		case 'S':
			err = x.d.SkipValue()
		default:
			panic(fmt.Sprintf("c05: bad op %q", op))
		}
		s.st = x.state()
	}); p != nil {
		return s, fmt.Errorf("op %c panicked: %v", op, p)
	}
	if verr != nil {
		return s, verr
	}
	s.err = shapeOf(err)
	if op == 'V' && err == nil {
		// (iii) the value is the input span that ends at InputOffset
		end := int(s.st.off)
		beg := end - len(s.text)
		if beg < 0 || end > len(x.in) || !bytes.Equal(s.text, x.in[beg:end]) {
			return s, fmt.Errorf("ReadValue returned %q which is not input[%d:%d]", clip(s.text), beg, end)
		}
		if len(s.text) == 0 {
			return s, fmt.Errorf("ReadValue returned an empty value without error")
		}
	}
	if e := x.conserve(x.rd != nil || x.nsteps&15 == 1); e != nil {
		return s, fmt.Errorf("after %c: %v", op, e)
	}
	return s, nil
}

// program yields the i-th op of the case (0 when the program is over).
func (c *Case) opAt(i int) byte {
	if i < len(c.Ops) {
		return c.Ops[i]
	}
	if len(c.Tail) == 0 {
		return 0
	}
	return c.Tail[(i-len(c.Ops))%len(c.Tail)]
}

func validOp(op byte) bool { return op == 'T' || op == 'V' || op == 'S' || op == 'P' }

func maxSteps(n int) int { return min(2*n+16, 20000) }

// ---------------------------------------------------------------------------
// Run

// outcome carries what the evidence recorder wants to know about a case.
type outcome struct {
	expected []step
	valid    bool
	rd       *schedReader
	faultCls []string
}

// Run decides one case.
func Run(c Case) error {
	rec.Eval()
	for _, op := range c.Ops {
		if !validOp(op) {
			return fmt.Errorf("harness: bad op %q in case", op)
		}
	}
	for _, op := range c.Tail {
		if !validOp(op) {
			return fmt.Errorf("harness: bad op %q in case", op)
		}
	}
	var o outcome
	err := run(&c, &o)
	record(&c, &o)
	return err
}

func run(c *Case, o *outcome) error {
	in := c.Input
	opt := ref.Opt{AllowInvalidUTF8: c.UTF8, AllowDup: c.Dup}

	// reference model (absolute oracle for valid streams)
	var mdl *model
	if toks, rerr := ref.Tokens(in, opt); rerr == nil {
		mdl = newModel(in, toks)
		o.valid = true
	}

	// 1. whole-input decoder (a *bytes.Buffer holding everything)
	whole := &executor{in: in}
	whole.bb = bytes.NewBuffer(append([]byte(nil), in...))
	whole.d = jsontext.NewDecoder(whole.bb, c.opts()...)
	if e := whole.conserve(true); e != nil {
		return fmt.Errorf("whole-input decoder before any call: %v", e)
	}
	limit := maxSteps(len(in))
	for i := 0; i < limit; i++ {
		op := c.opAt(i)
		if op == 0 {
			break
		}
		before := whole.state()
		s, verr := whole.do(op)
		if verr != nil {
			return fmt.Errorf("whole-input decoder, step %d: %v (input %q)", i, verr, clip(in))
		}
		if mdl != nil {
			atClose := mdl.atClose()
			want := mdl.apply(op)
			if d := mdl.diff(s, want); d != "" {
				return fmt.Errorf("whole-input decoder disagrees with the reference model at step %d (%c): %s\n got  %v\n want %v\n input %q utf8=%v dup=%v", i, op, d, s, want, clip(in), c.UTF8, c.Dup)
			}
			o.expected = append(o.expected, s)
			if s.err != nil {
				// ReadValue/SkipValue in front of '}' or ']' is documented to
				// fail and leave the state unchanged: the program goes on
				// (inside Ops only, so that a V/S tail cannot spin).
				if (op == 'V' || op == 'S') && atClose && i < len(c.Ops) && s.st == before {
					continue
				}
				break
			}
			continue
		}
		o.expected = append(o.expected, s)
		if s.err != nil {
			break
		}
	}

	// 2. the same program on the decoder fed by the scheduled reader
	x := &executor{in: in}
	if c.Sched.Buffer {
		x.bb = bytes.NewBuffer(append([]byte(nil), in...))
		x.d = jsontext.NewDecoder(x.bb, c.opts()...)
	} else {
		x.rd = newSchedReader(in, &c.Sched)
		o.rd = x.rd
		if w := c.Sched.Warm; w > 0 {
			w = min(w, 1<<15)
			warm := append(append([]byte{'"'}, bytes.Repeat([]byte{'w'}, w)...), '"')
			x.d = jsontext.NewDecoder(bytes.NewReader(warm))
			if _, err := x.d.ReadToken(); err != nil {
				return fmt.Errorf("warm-up read failed: %v", err)
			}
			x.d.Reset(x.rd, c.opts()...)
		} else {
			x.d = jsontext.NewDecoder(x.rd, c.opts()...)
		}
	}
	if e := x.conserve(true); e != nil {
		return fmt.Errorf("before any call: %v", e)
	}
	return x.follow(c, o)
}

// follow replays o.expected on x and compares step by step, handling
// injected faults by the documented retry protocol.
func (x *executor) follow(c *Case, o *outcome) error {
	in := c.Input
	maxAttempts := len(c.Sched.Faults) + 2
	ctx := func(i int) string {
		return fmt.Sprintf("input %q utf8=%v dup=%v sched=%+v ops=%q tail=%q step %d", clip(in), c.UTF8, c.Dup, c.Sched, c.Ops, c.Tail, i)
	}
	for i, want := range o.expected {
		op := want.op
		attempts := 0
	retry:
		attempts++
		if attempts > maxAttempts {
			return fmt.Errorf("%c still fails after %d attempts although only %d faults were injected (%s)", op, attempts-1, len(c.Sched.Faults), ctx(i))
		}
		st0 := x.state()
		fired0, calls0 := 0, 0
		if x.rd != nil {
			fired0, calls0 = x.rd.fired, x.rd.calls
		}
		got, verr := x.do(op)
		if verr != nil {
			return fmt.Errorf("%v (%s)", verr, ctx(i))
		}
		fired := x.rd != nil && x.rd.fired > fired0

		if got.err != nil && got.err.fault {
			// (vi) a transient fault surfaced
			if !fired {
				return fmt.Errorf("%c returned an error wrapping the transient fault although no fault was injected during this call (stale error): %v (%s)", op, got.err, ctx(i))
			}
			if got.st == st0 {
				o.faultCls = append(o.faultCls, "fault-retry-"+string(rune(op)))
				goto retry
			}
			if op != 'S' {
				return fmt.Errorf("%c failed with the transient fault but changed the decoder state: before %+v after %+v (%s)", op, st0, got.st, ctx(i))
			}
			// SkipValue made partial progress before the fault: finish the
			// skip token by token (exempt from the no-state-change clause).
			o.faultCls = append(o.faultCls, "fault-skip-partial")
			fin, ferr := x.finishSkip(st0.depth, maxAttempts)
			if ferr != nil {
				return fmt.Errorf("finishing a SkipValue interrupted by a fault: %v (%s)", ferr, ctx(i))
			}
			got = step{op: 'S', err: fin.err, st: fin.st}
			if d := diffStep(got, want, false); d != "" {
				return fmt.Errorf("SkipValue interrupted by a fault and finished with ReadToken ends differently from the fault-free SkipValue: %s\n got  %v\n want %v (%s)", d, got, want, ctx(i))
			}
			continue
		}

		if op == 'P' && fired {
			if got.kind != 0 {
				return fmt.Errorf("PeekKind returned %q although the reader failed during the call (%s)", printable(got.kind), ctx(i))
			}
			if got.st != st0 {
				return fmt.Errorf("failed PeekKind changed the decoder state: before %+v after %+v (%s)", st0, got.st, ctx(i))
			}
			// the read call following PeekKind()==0 reports the cached error
			clr := byte('T')
			if c.ClearWithValue {
				clr = 'V'
			}
			natural := false
			if !c.RetryPeek && i+1 < len(o.expected) {
				if nx := o.expected[i+1].op; nx == 'T' || nx == 'V' {
					clr, natural = nx, true
				}
			}
			cl, verr := x.do(clr)
			if verr != nil {
				return fmt.Errorf("%v (%s)", verr, ctx(i))
			}
			if cl.err == nil {
				return fmt.Errorf("PeekKind returned 0 because of a reader fault, but the following %c succeeded instead of reporting the cached error (%s)", clr, ctx(i))
			}
			if cl.st != st0 {
				return fmt.Errorf("%c reporting the cached PeekKind error changed the decoder state: before %+v after %+v (%s)", clr, st0, cl.st, ctx(i))
			}
			if cl.err.fault {
				o.faultCls = append(o.faultCls, "fault-peek")
			} else {
				// the delimiter in front was already known to be wrong
				// (checkDelimBeforeIOError): a definitive syntactic error.
				if !cl.err.isSyn {
					return fmt.Errorf("read after a failed PeekKind returned %v, neither the fault nor a syntactic error (%s)", cl.err, ctx(i))
				}
				o.faultCls = append(o.faultCls, "fault-masked-by-syntax-error")
			}
			if natural {
				// the failed read is retried as step i+1 and must then behave
				// as in the fault-free run; PeekKind legitimately returned 0
				o.faultCls = append(o.faultCls, "fault-peek-then-read-retried")
				continue
			}
			goto retry
		}

		if fired && op != 'P' {
			// a fault was injected but the call did not report it: only
			// acceptable when the call ends with the same definitive error
			// as the fault-free run.
			if want.err == nil || got.err == nil {
				return fmt.Errorf("a fault was injected during %c but the call did not report it: got %v (%s)", op, got, ctx(i))
			}
			o.faultCls = append(o.faultCls, "fault-masked-by-syntax-error")
		}

		if d := diffStep(got, want, false); d != "" {
			err := fmt.Errorf("chunked decoder differs from whole-input decoder at step %d (%c): %s\n got  %v\n want %v\n (%s)", i, op, d, got, want, ctx(i))
			if x.rd != nil && isF10(in, st0, got, want, x.rd.callPos[calls0:]) {
				return rt.Known(clsF10, err)
			}
			return err
		}
	}
	return nil
}

// finishSkip completes a SkipValue that was interrupted by a fault after
// partial progress: ReadToken until the depth is back at depth0.
func (x *executor) finishSkip(depth0, maxAttempts int) (step, error) {
	attempts := 0
	limit := maxSteps(len(x.in))
	for n := 0; n < limit; n++ {
		st0 := x.state()
		if st0.depth <= depth0 {
			return step{op: 'S', st: st0}, nil
		}
		fired0 := x.rd.fired
		s, verr := x.do('T')
		if verr != nil {
			return s, verr
		}
		if s.err != nil && s.err.fault {
			if x.rd.fired == fired0 {
				return s, fmt.Errorf("ReadToken returned a stale transient error %v", s.err)
			}
			if s.st != st0 {
				return s, fmt.Errorf("ReadToken failed with the transient fault but changed state: before %+v after %+v", st0, s.st)
			}
			attempts++
			if attempts > maxAttempts {
				return s, fmt.Errorf("too many transient errors")
			}
			continue
		}
		if s.err != nil {
			return s, nil // the skip ends with this error
		}
	}
	return step{}, fmt.Errorf("SkipValue remainder does not terminate")
}

package c05

// span is a lexical token of the raw input (lenient: works on invalid input).
type span struct {
	s, e int
	kind byte // '"', '0', 'a' (literal-like run of letters)
}

// lexSpans splits the input into multi-byte lexical tokens. It is only used
// to classify where refills fell (evidence), never for a verdict.
func lexSpans(in []byte) []span {
	var out []span
	n := len(in)
	for i := 0; i < n; {
		c := in[i]
		switch {
		case c == '"':
			j := i + 1
			for j < n {
				if in[j] == '\\' {
					j += 2
					continue
				}
				if in[j] == '"' {
					j++
					break
				}
				j++
			}
			if j > n {
				j = n
			}
			out = append(out, span{i, j, '"'})
			i = j
		case c == '-' || (c >= '0' && c <= '9'):
			j := i + 1
			for j < n && (in[j] >= '0' && in[j] <= '9' || in[j] == '.' || in[j] == 'e' || in[j] == 'E' || in[j] == '+' || in[j] == '-') {
				j++
			}
			out = append(out, span{i, j, '0'})
			i = j
		case c >= 'a' && c <= 'z' || c >= 'A' && c <= 'Z':
			j := i + 1
			for j < n && (in[j] >= 'a' && in[j] <= 'z' || in[j] >= 'A' && in[j] <= 'Z') {
				j++
			}
			out = append(out, span{i, j, 'a'})
			i = j
		default:
			i++
		}
	}
	return out
}

func isHex4(b []byte) bool {
	if len(b) < 4 {
		return false
	}
	for _, c := range b[:4] {
		if !(c >= '0' && c <= '9' || c >= 'a' && c <= 'f' || c >= 'A' && c <= 'F') {
			return false
		}
	}
	return true
}

func hexv(b []byte) int {
	v := 0
	for _, c := range b[:4] {
		v <<= 4
		switch {
		case c >= '0' && c <= '9':
			v |= int(c - '0')
		case c >= 'a' && c <= 'f':
			v |= int(c-'a') + 10
		default:
			v |= int(c-'A') + 10
		}
	}
	return v
}

// cutClasses names the kinds of places where refill boundaries fell strictly
// inside a token.
func cutClasses(in []byte, bounds []int) map[string]bool {
	cls := map[string]bool{}
	if len(bounds) == 0 {
		return cls
	}
	spans := lexSpans(in)
	si := 0
	for _, b := range bounds { // bounds are increasing
		for si < len(spans) && spans[si].e <= b {
			si++
		}
		if si >= len(spans) {
			break
		}
		sp := spans[si]
		if !(sp.s < b && b < sp.e) {
			continue
		}
		switch sp.kind {
		case '0':
			cls["cut-in-number"] = true
			if in[b] == 'e' || in[b] == 'E' || in[b-1] == 'e' || in[b-1] == 'E' {
				cls["cut-at-exponent"] = true
			}
		case 'a':
			cls["cut-in-literal"] = true
		case '"':
			cls["cut-in-string"] = true
			// walk the string body to find what b splits
			for k := sp.s + 1; k < sp.e && k < b; {
				if in[k] != '\\' {
					if in[k] >= 0xc0 {
						// multi-byte UTF-8 sequence
						w := 2
						if in[k] >= 0xe0 {
							w = 3
						}
						if in[k] >= 0xf0 {
							w = 4
						}
						if b > k && b < k+w {
							cls["cut-in-utf8"] = true
						}
						k += w
						continue
					}
					k++
					continue
				}
				if k+1 < sp.e && in[k+1] == 'u' {
					w := 6
					if k+6 <= sp.e && isHex4(in[k+2:k+6]) {
						if hi := hexv(in[k+2:]); hi >= 0xd800 && hi < 0xdc00 {
							// a high surrogate: the scanner needs the next
							// six bytes too before it can decide
							w = min(12, sp.e-k)
						}
					}
					if b > k && b < k+w {
						if w > 6 {
							cls["cut-in-surrogate"] = true
						} else {
							cls["cut-in-escape"] = true
						}
					}
					k += w
					continue
				}
				if b == k+1 {
					cls["cut-in-escape"] = true
				}
				k += 2
			}
		}
	}
	return cls
}

// record feeds the evidence recorder.
func record(c *Case, o *outcome) {
	nt := false
	if o.valid {
		rec.Class("input-valid-stream")
	} else {
		rec.Class("input-invalid")
	}
	if c.UTF8 {
		rec.Class("opt-allow-invalid-utf8")
	}
	if c.Dup {
		rec.Class("opt-allow-duplicate-names")
	}
	var classes []string
	if c.Sched.Buffer {
		rec.Class("sched-bytes-buffer")
	} else if o.rd != nil {
		if c.Sched.EOFWithData && o.rd.eof {
			rec.Class("sched-data-with-eof")
		}
		hasZero, one := false, len(c.Sched.Chunks) > 0
		for _, n := range c.Sched.Chunks {
			if n <= 0 {
				hasZero = true
			}
			if n != 1 {
				one = false
			}
		}
		if hasZero {
			rec.Class("sched-empty-reads")
		}
		if one && c.Sched.Cycle {
			rec.Class("sched-one-byte")
		}
		for k := range cutClasses(c.Input, o.rd.bounds) {
			rec.Class(k)
			classes = append(classes, k)
			nt = true
		}
		if c.Sched.Warm > 0 {
			rec.Class("decoder-reused-with-grown-buffer")
		} else if o.rd.maxP > 64 {
			rec.Class("buffer-growth")
			if o.rd.maxP > 4096 {
				rec.Class("buffer-growth-beyond-4k")
			}
		}
		if o.rd.fired > 0 {
			rec.Class("fault")
			nt = true
		}
		seen := map[string]bool{}
		for _, k := range o.faultCls {
			if !seen[k] {
				seen[k] = true
				rec.Class(k)
			}
		}
	}
	sawV, sawS, sawP, sawT := false, false, false, false
	for _, s := range o.expected {
		switch s.op {
		case 'V':
			sawV = true
		case 'S':
			sawS = true
		case 'P':
			sawP = true
		case 'T':
			sawT = true
		}
	}
	if n := b2(sawV) + b2(sawS) + b2(sawT); n >= 2 {
		rec.Class("ops-interleaved")
	}
	if sawP {
		rec.Class("ops-with-peek")
	}
	if n := len(o.expected); n > 0 && o.expected[n-1].err != nil {
		e := o.expected[n-1].err
		switch {
		case !e.isSyn && e.eof:
			rec.Class("end-io.EOF")
		case e.ueof:
			rec.Class("end-unexpected-EOF")
		case e.dup:
			rec.Class("end-duplicate-name")
		default:
			rec.Class("end-syntactic-error")
		}
	}
	if nt {
		fp := c.fp()
		rec.NonTrivial(fp)
		rec.Sample(fp, func() any {
			return map[string]any{"input": string(clip(c.Input)), "input_len": len(c.Input), "allow_invalid_utf8": c.UTF8, "allow_duplicate_names": c.Dup,
				"sched": c.Sched, "ops": string(c.Ops), "tail": string(c.Tail), "refills_inside_tokens": classes, "faults_fired": o.rd.fired, "steps": len(o.expected)}
		})
	}
}

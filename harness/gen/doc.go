// Package gen holds the shared rapid generators: JSON texts, mutations,
// lexeme sequences, read/write schedules and option sets.
package gen

import (
	"fmt"
	"strconv"
	"strings"

	"pgregory.net/rapid"
)

// DocCfg tunes Doc.
type DocCfg struct {
	MaxDepth  int  // maximal nesting (default 4)
	MaxWidth  int  // maximal members/elements per container (default 5)
	WS        bool // inject insignificant whitespace
	Dups      bool // allow duplicate member names
	BadUTF8   bool // allow ill-formed UTF-8 / lone surrogate escapes in strings
	Wide      bool // occasionally produce objects with 60..300 members
	LongStr   bool // occasionally produce long strings
	AsciiOnly bool
}

// String fragments: each is a piece of a string literal body (already escaped).
var strFrags = []string{
	"a", "b", "z", "A", "0", " ", "_", "-", "key", "name", "x1", "é", "ß", "€", "日本", "😀", "𝄞",
	`\"`, `\\`, `\/`, `\b`, `\f`, `\n`, `\r`, `\t`,
	"\\u0000", "\\u001f", "\\u0020", "\\u0041", "\\u00e9", "\\u00E9", "\\u20ac", "\\u20AC", "\\u2028", "\\u2029",
	"\\ud83d\\ude00", "\\uD83D\\uDE00", "\\ud834\\udd1e", "\\ud800\\udc00", "\\udbff\\udfff",
	"\\u003c", "\\u003C", "\\u003e", "\\u0026", "\\u007f", "\\ud7ff", "\\ue000", "\\uffff", "\\ufffd",
	"<", ">", "&", "\x7f", " ", " ", "퟿", "", "￿", "�", "\U00010000", "\U0010ffff", "/", "~", "~0", "~1",
	"\u0080", "߿", "ࠀ",
}

var badFrags = []string{
	"\xff", "\x80", "\xc0\x80", "\xc1\xbf", "\xe0\x80\x80", "\xed\xa0\x80", "\xed\xbf\xbf", "\xf0\x80\x80\x80", "\xf4\x90\x80\x80", "\xf5", "\xe2\x82", "\xf0\x9f\x98", "\xc2",
	"\\ud800", "\\udc00", "\\udfff", "\\udbff", "\\ud800\\u0041", "\\ud800\\ud800", "\\udc00\\ud800", "\\ud83dX", "\\ud800\\n",
}

// StrBody draws the body (without quotes) of a JSON string literal.
func StrBody(t *rapid.T, cfg DocCfg) string {
	if cfg.LongStr && rapid.IntRange(0, 30).Draw(t, "long") == 0 {
		n := rapid.SampledFrom([]int{2, 7, 8, 9, 15, 16, 17, 31, 32, 33, 63, 64, 65, 100, 127, 128, 129, 255, 256, 257, 300, 1000, 5000}).Draw(t, "longlen")
		c := rapid.SampledFrom([]string{"a", "b", "é", "\\n", "😀"}).Draw(t, "longc")
		s := strings.Repeat(c, n/len(c)+1)
		// vary head and tail so that strings sharing first/last bytes are met
		return rapid.SampledFrom([]string{"", "p", "pq"}).Draw(t, "head") + s + rapid.SampledFrom([]string{"", "s", "st"}).Draw(t, "tail")
	}
	n := rapid.IntRange(0, 5).Draw(t, "nfrag")
	var sb strings.Builder
	for i := 0; i < n; i++ {
		if cfg.BadUTF8 && rapid.IntRange(0, 4).Draw(t, "bad") == 0 {
			sb.WriteString(rapid.SampledFrom(badFrags).Draw(t, "badfrag"))
			continue
		}
		if cfg.AsciiOnly {
			sb.WriteString(rapid.SampledFrom(strFrags[:12]).Draw(t, "frag"))
			continue
		}
		sb.WriteString(rapid.SampledFrom(strFrags).Draw(t, "frag"))
	}
	return sb.String()
}

var numLits = []string{
	"0", "-0", "1", "-1", "2", "7", "10", "42", "123", "-123", "0.0", "-0.0", "0.5", "1.0", "1.5", "1e0", "1E0", "1e1", "1e+1", "1e-1", "10e-1", "1.0e0", "0e0", "0e-999", "-0e99",
	"127", "128", "-128", "-129", "255", "256", "32767", "32768", "65535", "65536", "2147483647", "2147483648", "-2147483648", "4294967295", "4294967296",
	"9007199254740991", "9007199254740992", "9007199254740993", "9223372036854775807", "9223372036854775808", "-9223372036854775808", "-9223372036854775809", "18446744073709551615", "18446744073709551616",
	"123456789012345678", "1234567890123456789", "12345678901234567890", "123456789012345678901", "1234567890123456789012",
	"1e21", "1e22", "1e-6", "1e-7", "1.7976931348623157e308", "1.7976931348623158e308", "1.7976931348623159e308", "1e308", "1e309", "-1e309", "1e400", "1e-400", "5e-324", "2.5e-324", "2.4703282292062327e-324", "2.4703282292062328e-324", "4.9e-324",
	"0.1", "0.2", "0.30000000000000004", "3.141592653589793", "2.2250738585072014e-308", "2.2250738585072011e-308", "1.00000000000000011102230246251565404236316680908203125", "1.00000000000000011102230246251565404236316680908203126", "1.00000000000000011102230246251565404236316680908203124",
	"100000000000000000000", "1000000000000000000000", "999999999999999999999", "0.000001", "0.0000001", "123456.789e3", "1E+2", "1E-2", "3.4028234663852886e38", "3.4028235677973366e38", "1.401298464324817e-45", "16777217", "0.1e1", "100e-2",
}

// Number draws a JSON number literal.
func Number(t *rapid.T) string {
	switch rapid.IntRange(0, 9).Draw(t, "numclass") {
	case 0, 1, 2, 3, 4:
		return rapid.SampledFrom(numLits).Draw(t, "numlit")
	case 5:
		return strconv.FormatInt(rapid.Int64().Draw(t, "i64"), 10)
	case 6:
		return strconv.FormatFloat(rapid.Float64().Draw(t, "f64"), 'g', -1, 64)
	case 7:
		// random literal: digits . digits e digits
		var sb strings.Builder
		if rapid.Bool().Draw(t, "neg") {
			sb.WriteByte('-')
		}
		ip := rapid.StringMatching(`0|[1-9][0-9]{0,24}`).Draw(t, "int")
		sb.WriteString(ip)
		if rapid.Bool().Draw(t, "hasfrac") {
			sb.WriteByte('.')
			sb.WriteString(rapid.StringMatching(`[0-9]{1,24}`).Draw(t, "frac"))
		}
		if rapid.Bool().Draw(t, "hasexp") {
			sb.WriteString(rapid.SampledFrom([]string{"e", "E", "e+", "e-", "E+", "E-"}).Draw(t, "e"))
			sb.WriteString(rapid.StringMatching(`[0-9]{1,3}`).Draw(t, "exp"))
		}
		return sb.String()
	case 8:
		return strconv.FormatUint(rapid.Uint64().Draw(t, "u64"), 10)
	default:
		f := rapid.Float32().Draw(t, "f32")
		return strconv.FormatFloat(float64(f), 'g', -1, 32)
	}
}

func ws(t *rapid.T, cfg DocCfg) string {
	if !cfg.WS {
		return ""
	}
	if rapid.IntRange(0, 3).Draw(t, "ws?") != 0 {
		return ""
	}
	return rapid.SampledFrom([]string{" ", "\n", "\t", "\r", "  ", " \n\t", "\r\n"}).Draw(t, "ws")
}

// Doc draws one valid JSON text (valid under the permissive options named by cfg).
func Doc(t *rapid.T, cfg DocCfg) []byte {
	if cfg.MaxDepth == 0 {
		cfg.MaxDepth = 4
	}
	if cfg.MaxWidth == 0 {
		cfg.MaxWidth = 5
	}
	var sb strings.Builder
	sb.WriteString(ws(t, cfg))
	docValue(t, cfg, &sb, cfg.MaxDepth)
	sb.WriteString(ws(t, cfg))
	return []byte(sb.String())
}

func docValue(t *rapid.T, cfg DocCfg, sb *strings.Builder, depth int) {
	k := rapid.IntRange(0, 9).Draw(t, "kind")
	if depth <= 0 && k >= 6 {
		k -= 6
	}
	switch k {
	case 0:
		sb.WriteString(rapid.SampledFrom([]string{"null", "true", "false"}).Draw(t, "lit"))
	case 1, 2:
		sb.WriteString(Number(t))
	case 3, 4, 5:
		sb.WriteByte('"')
		sb.WriteString(StrBody(t, cfg))
		sb.WriteByte('"')
	case 6, 7:
		sb.WriteByte('[')
		n := rapid.IntRange(0, cfg.MaxWidth).Draw(t, "nelem")
		for i := 0; i < n; i++ {
			if i > 0 {
				sb.WriteByte(',')
			}
			sb.WriteString(ws(t, cfg))
			docValue(t, cfg, sb, depth-1)
			sb.WriteString(ws(t, cfg))
		}
		if n == 0 {
			sb.WriteString(ws(t, cfg))
		}
		sb.WriteByte(']')
	default:
		sb.WriteByte('{')
		n := rapid.IntRange(0, cfg.MaxWidth).Draw(t, "nmemb")
		wide := false
		if cfg.Wide && rapid.IntRange(0, 40).Draw(t, "wide") == 0 {
			n = rapid.SampledFrom([]int{31, 32, 33, 63, 64, 65, 66, 70, 130, 300}).Draw(t, "widen")
			wide = true
		}
		seen := map[string]bool{}
		for i := 0; i < n; i++ {
			if i > 0 {
				sb.WriteByte(',')
			}
			sb.WriteString(ws(t, cfg))
			var name string
			if wide {
				name = fmt.Sprintf("k%d", i)
				if rapid.IntRange(0, 20).Draw(t, "esc") == 0 {
					name = fmt.Sprintf("\\u006b%d", i)
				}
			} else {
				name = StrBody(t, cfg)
			}
			if !cfg.Dups {
				// uniqueness is judged on the decoded name: make it unique by suffix if needed
				key := DecodeBodyLoose(name)
				for seen[key] {
					name += strconv.Itoa(i)
					key = DecodeBodyLoose(name)
				}
				seen[key] = true
			}
			sb.WriteByte('"')
			sb.WriteString(name)
			sb.WriteByte('"')
			sb.WriteString(ws(t, cfg))
			sb.WriteByte(':')
			sb.WriteString(ws(t, cfg))
			if wide {
				sb.WriteString(rapid.SampledFrom([]string{"1", "null", `"v"`, "[]", "{}"}).Draw(t, "wv"))
			} else {
				docValue(t, cfg, sb, depth-1)
			}
			sb.WriteString(ws(t, cfg))
		}
		if n == 0 {
			sb.WriteString(ws(t, cfg))
		}
		sb.WriteByte('}')
	}
}

// DecodeBodyLoose decodes a literal body built from the fragment pools well
// enough to compare names for equality (ill-formed parts are mapped to U+FFFD
// per byte / per lone surrogate). It is only used to keep generated names
// unique; the verdicts use package ref.
func DecodeBodyLoose(body string) string {
	var out []rune
	b := []byte(body)
	for i := 0; i < len(b); {
		c := b[i]
		if c == '\\' && i+1 < len(b) {
			switch b[i+1] {
			case 'u':
				if i+6 <= len(b) {
					v, err := strconv.ParseUint(string(b[i+2:i+6]), 16, 32)
					if err == nil {
						r := rune(v)
						if r >= 0xd800 && r < 0xdc00 && i+12 <= len(b) && b[i+6] == '\\' && b[i+7] == 'u' {
							v2, err2 := strconv.ParseUint(string(b[i+8:i+12]), 16, 32)
							if err2 == nil && v2 >= 0xdc00 && v2 < 0xe000 {
								out = append(out, 0x10000+(r-0xd800)<<10+(rune(v2)-0xdc00))
								i += 12
								continue
							}
						}
						if r >= 0xd800 && r < 0xe000 {
							r = 0xfffd
						}
						out = append(out, r)
						i += 6
						continue
					}
				}
				out = append(out, rune(c))
				i++
			case 'b':
				out = append(out, '\b')
				i += 2
			case 'f':
				out = append(out, '\f')
				i += 2
			case 'n':
				out = append(out, '\n')
				i += 2
			case 'r':
				out = append(out, '\r')
				i += 2
			case 't':
				out = append(out, '\t')
				i += 2
			default:
				out = append(out, rune(b[i+1]))
				i += 2
			}
			continue
		}
		if c < 0x80 {
			out = append(out, rune(c))
			i++
			continue
		}
		r, n := decodeRuneStrict(b[i:])
		out = append(out, r)
		i += n
	}
	return string(out)
}

func decodeRuneStrict(b []byte) (rune, int) {
	// Go's utf8.DecodeRune already rejects surrogates and overlongs and
	// reports width 1 for ill-formed input, i.e. one U+FFFD per byte.
	r, n := decodeRune(b)
	return r, n
}

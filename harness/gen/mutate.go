package gen

import (
	"pgregory.net/rapid"
)

// Critical bytes used for replacement / insertion edits.
var critBytes = []byte{'"', '\\', '{', '}', '[', ']', ',', ':', ' ', '\n', '\t', '\r', 0x00, 0x1f, 0x7f, 0x80, 0xbf, 0xc0, 0xc2, 0xe0, 0xed, 0xa0, 0xf0, 0xf4, 0x90, 0xff,
	'0', '1', '9', '-', '+', '.', 'e', 'E', 'u', 'n', 't', 'f', 'a', '/', 'd', 'D', 'c', '8', '\f', '\v'}

// Mutate applies 1..2 small edits to a text.
func Mutate(t *rapid.T, in []byte) []byte {
	b := append([]byte(nil), in...)
	n := rapid.IntRange(1, 2).Draw(t, "nedits")
	for i := 0; i < n; i++ {
		b = mutateOnce(t, b)
	}
	return b
}

func mutateOnce(t *rapid.T, b []byte) []byte {
	if len(b) == 0 {
		return []byte{rapid.SampledFrom(critBytes).Draw(t, "ins0")}
	}
	pos := rapid.IntRange(0, len(b)-1).Draw(t, "pos")
	switch rapid.IntRange(0, 8).Draw(t, "edit") {
	case 0: // replace by critical byte
		b[pos] = rapid.SampledFrom(critBytes).Draw(t, "rep")
	case 1: // insert critical byte
		c := rapid.SampledFrom(critBytes).Draw(t, "ins")
		b = append(b[:pos], append([]byte{c}, b[pos:]...)...)
	case 2: // delete
		b = append(b[:pos], b[pos+1:]...)
	case 3: // truncate
		b = b[:pos]
	case 4: // duplicate a span
		end := rapid.IntRange(pos, min(len(b), pos+12)).Draw(t, "end")
		span := append([]byte(nil), b[pos:end]...)
		b = append(b[:end], append(span, b[end:]...)...)
	case 5: // flip a bit
		b[pos] ^= 1 << uint(rapid.IntRange(0, 7).Draw(t, "bit"))
	case 6: // swap two bytes
		q := rapid.IntRange(0, len(b)-1).Draw(t, "pos2")
		b[pos], b[q] = b[q], b[pos]
	case 7: // random byte
		b[pos] = rapid.Byte().Draw(t, "byte")
	case 8: // append
		b = append(b, rapid.SampledFrom(critBytes).Draw(t, "app"))
	}
	return b
}

// Lexemes is the alphabet of whole lexemes for sequence generation.
var Lexemes = []string{"{", "}", "[", "]", ":", ",", `"a"`, `"b"`, "\"\\u0061\"", "\"\\ud800\"", "\"\\ud83d\\ude00\"", "\"\xff\"",
	"1", "-0", "01", "1.", "1e", "1e+1", "true", "nul", " ", "\n", `"`, `\`, "null", `""`}

// LexSeq draws a concatenation of lexemes.
func LexSeq(t *rapid.T, maxLen int) []byte {
	n := rapid.IntRange(0, maxLen).Draw(t, "nlex")
	var out []byte
	for i := 0; i < n; i++ {
		out = append(out, rapid.SampledFrom(Lexemes).Draw(t, "lex")...)
	}
	return out
}

// Text draws a byte string that is valid, a near neighbour of a valid text,
// a lexeme sequence or arbitrary bytes.
func Text(t *rapid.T, cfg DocCfg) []byte {
	switch rapid.IntRange(0, 9).Draw(t, "textclass") {
	case 0, 1, 2:
		return Doc(t, cfg)
	case 3, 4, 5, 6:
		return Mutate(t, Doc(t, cfg))
	case 7, 8:
		return LexSeq(t, 8)
	default:
		return rapid.SliceOfN(rapid.Byte(), 0, 12).Draw(t, "bytes")
	}
}

// Stream draws a concatenation of texts with optional whitespace between.
func Stream(t *rapid.T, cfg DocCfg) []byte {
	n := rapid.IntRange(0, 4).Draw(t, "nvals")
	var out []byte
	for i := 0; i < n; i++ {
		out = append(out, Doc(t, cfg)...)
		out = append(out, rapid.SampledFrom([]string{"", " ", "\n", " \n", "\t"}).Draw(t, "sep")...)
	}
	return out
}

// Chunks draws a read schedule: chunk sizes (0 means an empty read).
func Chunks(t *rapid.T, total int) []int {
	switch rapid.IntRange(0, 5).Draw(t, "sched") {
	case 0:
		return []int{1} // repeated: 1 byte at a time
	case 1:
		return []int{rapid.IntRange(1, 9).Draw(t, "k")}
	case 2:
		return []int{total + 1}
	default:
		n := rapid.IntRange(1, 12).Draw(t, "nchunks")
		out := make([]int, n)
		for i := range out {
			out[i] = rapid.SampledFrom([]int{0, 1, 1, 2, 3, 4, 5, 6, 7, 8, 13, 16, 31, 32, 33, 63, 64, 65, 100, 128, 500, 4096}).Draw(t, "chunk")
		}
		return out
	}
}

package c02

import (
	"testing"

	"verif/harness/rt"
)

func TestCheck(t *testing.T) {
	e := rt.Setup(t, "C02")
	defer e.Finish()
	rec = e.Rec

	rt.Rapid(e, "values", 100_000, 400_000, genCase(false), Run)
	rt.Rapid(e, "usercode", 140_000, 600_000, genCase(true), Run)
	rt.Rapid(e, "wide-names", 20_000, 300_000, genWide, Run)
	rt.Rapid(e, "times", 40_000, 400_000, genTimes, Run)
}

// Package c02 decides property C02: Marshal never emits malformed JSON,
// whatever the value or user code does.
package c02

import (
	"bytes"
	"errors"
	"fmt"
	"io"
	"reflect"
	"strings"

	"github.com/go-json-experiment/json"
	"github.com/go-json-experiment/json/jsontext"
	"pgregory.net/rapid"

	"verif/harness/cov"
	"verif/harness/opt"
	"verif/harness/ref"
	"verif/harness/rt"
	"verif/harness/tv"
)

var rec = cov.New()

// FuncSpec describes one caller-supplied marshal function.
type FuncSpec struct {
	Target string `json:"target"` // int, string, bool, float64, bytes, RawM
	To     bool   `json:"to"`     // MarshalToFunc (script) instead of MarshalFunc (bytes)
	Ops    []Op   `json:"ops,omitempty"`
	Ignore bool   `json:"ignore,omitempty"`
	Out    []byte `json:"out,omitempty"`
	Err    int64  `json:"err,omitempty"`
}

// Case is one marshal call.
type Case struct {
	Desc    *tv.Desc   `json:"desc"`
	Val     tv.Val     `json:"val"`
	EncOpts []opt.Spec `json:"enc_opts"`  // given to NewEncoder (entries 2..4) or first part of the call options
	Opts    []opt.Spec `json:"call_opts"` // given to the Marshal* call
	Funcs   []FuncSpec `json:"funcs,omitempty"`
	Entry   int        `json:"entry"` // 0 Marshal, 1 MarshalWrite, 2 MarshalEncode depth 0, 3 nested in array, 4 nested in object (value position), 5 in an object at the name position
	Pad     int        `json:"pad,omitempty"`    // the value is preceded by a string member of this many bytes (large outputs, flush thresholds)
	Poison  bool       `json:"poison,omitempty"` // a MarshalWrite that fails half way runs first (pooled encoder state)
	Plain   bool       `json:"plain,omitempty"`  // writers are plain io.Writers instead of *bytes.Buffer
	Rep     int        `json:"rep,omitempty"`    // the value is marshaled as a slice of this many copies (every part of it meets every fill level of the output buffer)
}

var marshalOptNames = []string{
	"AllowDuplicateNames", "AllowInvalidUTF8", "EscapeForHTML", "EscapeForJS", "PreserveRawStrings", "CanonicalizeRawInts", "CanonicalizeRawFloats",
	"ReorderRawObjects", "SpaceAfterColon", "SpaceAfterComma", "Multiline", "StringifyNumbers", "Deterministic", "FormatNilMapAsNull", "FormatNilSliceAsNull",
	"OmitZeroStructFields", "ExperimentalSupportFormatTag", "CallMethodsWithLegacySemantics", "FormatByteArrayAsArray", "FormatBytesWithLegacySemantics",
	"FormatDurationAsNano", "OmitEmptyWithLegacySemantics", "ReportErrorsWithLegacySemantics", "StringifyWithLegacySemantics", "MatchCaseInsensitiveNames", "RejectUnknownMembers",
}

func genOpts(t *rapid.T, label string) []opt.Spec {
	n := rapid.IntRange(0, 4).Draw(t, label+"n")
	var out []opt.Spec
	for i := 0; i < n; i++ {
		switch rapid.IntRange(0, 11).Draw(t, label+"kind") {
		case 0:
			out = append(out, opt.Spec{Name: "DefaultOptionsV1"})
		case 1:
			out = append(out, opt.Spec{Name: "DefaultOptionsV2"})
		case 2:
			out = append(out, opt.Spec{Name: rapid.SampledFrom([]string{"WithIndent", "WithIndentPrefix"}).Draw(t, label+"ind"), S: rapid.SampledFrom([]string{"", " ", "\t", "  \t"}).Draw(t, label+"inds")})
		case 4:
			// the escape options and PreserveRawStrings, which interact on raw strings
			out = append(out, opt.Spec{Name: rapid.SampledFrom([]string{"EscapeForJS", "EscapeForHTML", "PreserveRawStrings", "PreserveRawStrings", "EscapeForJS"}).Draw(t, label+"esc"), B: rapid.IntRange(0, 3).Draw(t, label+"val") != 0})
		case 3:
			// each whitespace option alone: the un-write and flush logic looks at the bytes before a member
			out = append(out, opt.Spec{Name: rapid.SampledFrom([]string{"SpaceAfterColon", "SpaceAfterComma", "SpaceAfterComma", "Multiline"}).Draw(t, label+"ws"), B: rapid.IntRange(0, 3).Draw(t, label+"val") != 0})
		default:
			out = append(out, opt.Spec{Name: rapid.SampledFrom(marshalOptNames).Draw(t, label+"name"), B: rapid.IntRange(0, 3).Draw(t, label+"val") != 0})
		}
	}
	return out
}

var poolLeaves = []string{"pool:ScriptTo", "pool:ScriptToP", "pool:RawM", "pool:TextM", "pool:AppendM"}
var poolKeys = []string{"pool:KeyT", "pool:KeyA"}

func genCase(user bool) func(t *rapid.T) Case {
	return func(t *rapid.T) Case {
		c := Case{EncOpts: genOpts(t, "enc"), Opts: genOpts(t, "call"), Entry: rapid.SampledFrom([]int{0, 0, 1, 1, 2, 2, 3, 3, 4, 4, 5}).Draw(t, "entry")}
		cfg := tv.Cfg{MaxDepth: rapid.IntRange(1, 4).Draw(t, "maxdepth"), Tags: true, Embedding: true, BigStructs: true, EscapeNames: true, Raw: true, Fallbacks: true, Formats: rapid.Bool().Draw(t, "formats"),
			TimeKinds: true, DurNoFormat: true, LegacyString: true,
			MapKeys: []string{"string", "string", "int", "int8", "int64", "uint", "uint8", "uint64", "float64", "float32", "bool", "any", "any"}}
		anyCfg := cfg
		if user {
			cfg.PoolLeaves, cfg.PoolKeys = poolLeaves, poolKeys
			anyCfg = cfg
		}
		c.Desc = tv.GenDesc(t, cfg)
		if rapid.IntRange(0, 7).Draw(t, "pad?") == 0 {
			c.Pad = rapid.SampledFrom([]int{1, 40, 200, 3000, 4050, 4090, 4096, 4100, 6000, 20000}).Draw(t, "pad")
		}
		if rapid.IntRange(0, 11).Draw(t, "rep?") == 0 {
			c.Rep = rapid.SampledFrom([]int{2, 9, 50, 300}).Draw(t, "rep")
		}
		c.Poison = rapid.IntRange(0, 5).Draw(t, "poison") == 0
		c.Plain = rapid.Bool().Draw(t, "plain")
		if cfg.Formats && rapid.IntRange(0, 3).Draw(t, "formatopt") != 0 {
			c.Opts = append(c.Opts, opt.B("ExperimentalSupportFormatTag", true))
		}
		vc := tv.ValCfg{BadUTF8: true, NonFinite: true, AnyDescs: anyCfg, RawInvalid: true, PoolGen: poolGen, TimeWide: true, Zones: true, FallbackCollide: true}
		if user {
			vc.AnyKeyPool = poolKeys
		}
		c.Val = tv.GenVal(t, c.Desc, vc)
		if user {
			n := rapid.IntRange(0, 2).Draw(t, "nfuncs")
			for i := 0; i < n; i++ {
				f := FuncSpec{Target: rapid.SampledFrom([]string{"int", "string", "bool", "float64", "bytes", "RawM"}).Draw(t, "ftarget"), To: rapid.Bool().Draw(t, "fto")}
				if f.To {
					sv := genScript(t)
					for _, ov := range sv.Elems[0].Elems {
						f.Ops = append(f.Ops, Op{K: int(ov.Elems[0].I), S: ov.Elems[1].S, N: ov.Elems[2].I})
					}
					f.Ignore = sv.Elems[1].B
				} else {
					ov := genOutErr(true)(t)
					f.Out, f.Err = ov.Elems[0].S, ov.Elems[1].I
				}
				c.Funcs = append(c.Funcs, f)
			}
		}
		return c
	}
}

func mkFunc[T any](f FuncSpec) *json.Marshalers {
	if f.To {
		return json.MarshalToFunc(func(enc *jsontext.Encoder, _ T) error { return exec(enc, f.Ops, f.Ignore) })
	}
	return json.MarshalFunc(func(T) ([]byte, error) { return f.Out, retErr(f.Err) })
}

func buildFuncs(fs []FuncSpec) *json.Marshalers {
	var ms []*json.Marshalers
	for _, f := range fs {
		switch f.Target {
		case "int":
			ms = append(ms, mkFunc[int](f))
		case "string":
			ms = append(ms, mkFunc[string](f))
		case "bool":
			ms = append(ms, mkFunc[bool](f))
		case "float64":
			ms = append(ms, mkFunc[float64](f))
		case "bytes":
			ms = append(ms, mkFunc[[]byte](f))
		case "RawM":
			ms = append(ms, mkFunc[RawM](f))
		}
	}
	return json.JoinMarshalers(ms...)
}

// effective computes the two grammar options in force (later entries win).
func effective(specs []opt.Spec) (utf8, dup bool) {
	for _, s := range specs {
		switch s.Name {
		case "DefaultOptionsV1":
			utf8, dup = true, true
		case "DefaultOptionsV2":
			utf8, dup = false, false
		case "AllowInvalidUTF8":
			utf8 = s.B
		case "AllowDuplicateNames":
			dup = s.B
		}
	}
	return
}

func isUserPanic(p *rt.PanicErr) bool {
	_, ok := p.Val.(userPanic)
	return ok
}

func isResetPanic(p *rt.PanicErr) bool {
	s, ok := p.Val.(string)
	return ok && strings.Contains(s, "cannot reset Encoder passed to json.MarshalerTo")
}

// scripts returns every encoder script of the case (user types and functions).
func scripts(c *Case) [][]Op {
	var out [][]Op
	tv.WalkVals(c.Desc, &c.Val, func(d *tv.Desc, v *tv.Val) {
		if d.K != "pool:ScriptTo" && d.K != "pool:ScriptToP" {
			return
		}
		if len(v.Elems) == 0 {
			return
		}
		var ops []Op
		for _, ov := range v.Elems[0].Elems {
			if len(ov.Elems) == 3 {
				ops = append(ops, Op{K: int(ov.Elems[0].I), S: ov.Elems[1].S, N: ov.Elems[2].I})
			}
		}
		out = append(out, ops)
	})
	for _, f := range c.Funcs {
		if f.To {
			out = append(out, f.Ops)
		}
	}
	return out
}

func usesReset(c *Case) bool {
	for _, ops := range scripts(c) {
		for _, o := range ops {
			if o.K == opReset {
				return true
			}
		}
	}
	return false
}

// popsBelowEntry reports whether some script issues an End token at a point
// where it has not opened more containers than it closed, i.e. it tries to
// close a container that belongs to the caller (known finding F2).
func popsBelowEntry(c *Case) bool {
	for _, ops := range scripts(c) {
		depth := 0
		for _, o := range ops {
			switch o.K {
			case opBeginObject, opBeginArray:
				depth++
			case opEndObject, opEndArray:
				if depth <= 0 {
					return true
				}
				depth--
			}
		}
	}
	return false
}

// Run decides one case.
func Run(c Case) error {
	if _, err := tv.Build(c.Desc); err != nil {
		return nil
	}
	v, err := tv.Make(c.Desc, &c.Val)
	if err != nil {
		return nil // e.g. unhashable interface key: not a case
	}
	encOpts, err := opt.Build(c.EncOpts)
	if err != nil {
		return err
	}
	callOpts, err := opt.Build(c.Opts)
	if err != nil {
		return err
	}
	if len(c.Funcs) > 0 {
		callOpts = append(callOpts, json.WithMarshalers(buildFuncs(c.Funcs)))
	}
	rec.Eval()
	all := append(append([]opt.Spec(nil), c.EncOpts...), c.Opts...)
	utf8, dup := effective(all)
	in := v.Interface()
	if c.Pad > 0 {
		// struct{P string; V T}: a long first member pushes the value past the flush thresholds
		pt := reflect.StructOf([]reflect.StructField{{Name: "P", Type: reflect.TypeFor[string]()}, {Name: "V", Type: v.Type()}})
		pv := reflect.New(pt).Elem()
		pv.Field(0).SetString(strings.Repeat("p", c.Pad))
		pv.Field(1).Set(v)
		v = pv
		in = v.Interface()
	}
	if c.Rep > 0 {
		n := min(c.Rep, 300)
		sl := reflect.MakeSlice(reflect.SliceOf(v.Type()), n, n)
		for i := 0; i < n; i++ {
			sl.Index(i).Set(v)
		}
		v = sl
		in = v.Interface()
		rec.Class("repeated-value")
	}
	if c.Poison {
		// a MarshalWrite to a plain writer that fails after part of the output was buffered
		_ = rt.Guard(func() {
			_ = json.MarshalWrite(&plainW{}, struct {
				A string
				C chan int
			}{A: "stale-bytes-from-a-failed-call"})
		})
	}
	// pass a pointer half of the time so that pointer-receiver methods are addressable
	if c.Entry%2 == 1 {
		p := reflect.New(v.Type())
		p.Elem().Set(v)
		in = p.Interface()
	}

	var out []byte
	var merr error
	var prefix, suffix string
	wantNL := false
	p := rt.Guard(func() {
		switch c.Entry {
		case 0:
			out, merr = json.Marshal(in, append(append([]json.Options(nil), encOpts...), callOpts...)...)
		case 1:
			if c.Plain {
				var pw plainW
				merr = json.MarshalWrite(&pw, in, append(append([]json.Options(nil), encOpts...), callOpts...)...)
				out = pw.b
				break
			}
			var buf bytes.Buffer
			merr = json.MarshalWrite(&buf, in, append(append([]json.Options(nil), encOpts...), callOpts...)...)
			out = buf.Bytes()
		default:
			var buf bytes.Buffer
			var w io.Writer = &buf
			var pw plainW
			if c.Plain {
				w = &pw
			}
			got := func() []byte {
				if c.Plain {
					return pw.b
				}
				return buf.Bytes()
			}
			enc := jsontext.NewEncoder(w, encOpts...)
			switch c.Entry {
			case 2:
				wantNL = true
			case 3:
				if merr = enc.WriteToken(jsontext.BeginArray); merr != nil {
					return
				}
			case 4:
				if merr = enc.WriteToken(jsontext.BeginObject); merr != nil {
					return
				}
				if merr = enc.WriteToken(jsontext.String("k")); merr != nil {
					return
				}
			case 5:
				// the value is marshaled where an object name is required: only what
				// encodes as a JSON string may succeed
				if merr = enc.WriteToken(jsontext.BeginObject); merr != nil {
					return
				}
			}
			merr = json.MarshalEncode(enc, in, callOpts...)
			if merr != nil {
				return
			}
			switch c.Entry {
			case 3:
				merr = enc.WriteToken(jsontext.EndArray)
				wantNL = true
			case 4:
				merr = enc.WriteToken(jsontext.EndObject)
				wantNL = true
			case 5:
				if merr = enc.WriteToken(jsontext.Null); merr == nil {
					merr = enc.WriteToken(jsontext.EndObject)
				}
				wantNL = true
			}
			if merr != nil {
				// the closing token was refused although MarshalEncode reported success:
				// the value written cannot have been exactly one value
				merr = fmt.Errorf("closing token refused after a successful MarshalEncode: %w", merr)
				out = got()
				prefix = "REFUSED"
				return
			}
			out = got()
		}
	})
	_ = suffix
	sig := c.Desc.Sig()
	optSig := fmt.Sprint(all)
	classify(&c)
	if p != nil {
		if isUserPanic(p) {
			rec.Class("user-script-panic")
			return nil
		}
		if isResetPanic(p) && usesReset(&c) {
			rec.Class("documented-reset-panic")
			return nil
		}
		perr := fmt.Errorf("library panicked: %v\ntype %s\nopts %s", p, sig, optSig)
		if _, d1 := effective(c.EncOpts); d1 {
			if _, d2 := effective(all); !d2 && len(scripts(&c)) > 0 && c.Entry >= 3 && strings.Contains(p.Stack, "objectNamespaceStack.Last") {
				return rt.Known("dupcheck-enabled-midobject-user-writes-name", perr)
			}
		}
		if popsBelowEntry(&c) {
			return rt.Known("user-code-pops-below-entry", perr)
		}
		return perr
	}
	known := func(err error) error {
		if popsBelowEntry(&c) {
			return rt.Known("user-code-pops-below-entry", err)
		}
		return err
	}
	if prefix == "REFUSED" {
		return known(fmt.Errorf("%v\noutput so far %q\ntype %s\nopts %s", merr, out, sig, optSig))
	}
	nontrivial := isNonTrivial(&c)
	if merr != nil {
		if nontrivial {
			fp := cov.FPs(sig, optSig, "error", errClass(merr))
			rec.NonTrivial(fp)
		}
		rec.Class("returns-error")
		return nil
	}
	rec.Class("returns-nil")
	body := out
	if wantNL {
		if len(body) == 0 || body[len(body)-1] != '\n' {
			return fmt.Errorf("Encoder output lacks the newline after the top-level value: %q\ntype %s\nopts %s", out, sig, optSig)
		}
		body = body[:len(body)-1]
		if len(body) > 0 && body[len(body)-1] == '\n' {
			return fmt.Errorf("Encoder output has more than one trailing newline: %q", out)
		}
	}
	node, perr := ref.Parse(body, ref.Opt{AllowInvalidUTF8: utf8, AllowDup: dup})
	if perr != nil {
		return known(fmt.Errorf("nil error but the output is not one valid JSON value under AllowInvalidUTF8=%v AllowDuplicateNames=%v: %v\noutput %q\ntype %s\nopts %s\nentry %d", utf8, dup, perr, out, sig, optSig, c.Entry))
	}
	// no bytes other than the value (Marshal / MarshalWrite produce no surrounding whitespace)
	if node.Start != 0 || node.End != len(body) {
		return fmt.Errorf("nil error but the output has bytes around the value: %q (value spans [%d,%d))\ntype %s\nopts %s", out, node.Start, node.End, sig, optSig)
	}
	if nontrivial {
		fp := cov.FPs(sig, optSig, string(out))
		rec.NonTrivial(fp)
		rec.Sample(fp, func() any {
			return map[string]any{"type": sig, "opts": optSig, "entry": c.Entry, "output": fmt.Sprintf("%q", out), "funcs": len(c.Funcs)}
		})
	}
	return nil
}

func errClass(err error) string {
	var se *json.SemanticError
	var sy *jsontext.SyntacticError
	switch {
	case errors.As(err, &se):
		return "semantic"
	case errors.As(err, &sy):
		return "syntactic"
	}
	return "other"
}

func hasPool(d *tv.Desc) bool {
	found := false
	d.Walk(func(x *tv.Desc) {
		if strings.HasPrefix(x.K, "pool:") {
			found = true
		}
	})
	return found
}

func isNonTrivial(c *Case) bool {
	if len(c.Funcs) > 0 || hasPool(c.Desc) {
		return true
	}
	nt := false
	c.Desc.Walk(func(x *tv.Desc) {
		if x.K == "raw" || x.K == "map" || x.K == "any" {
			nt = true
		}
		for _, f := range x.Fields {
			if strings.Contains(f.Tag, "omit") || f.Embedded {
				nt = true
			}
		}
	})
	if nt {
		return true
	}
	var walk func(v *tv.Val) bool
	walk = func(v *tv.Val) bool {
		if len(v.S) > 0 && (!ref.WellFormedUTF8(string(v.S)) || bytes.ContainsAny(v.S, "\"\\<>&\x00\n")) {
			return true
		}
		if v.Dyn != nil && hasPool(v.Dyn) {
			return true
		}
		for i := range v.Elems {
			if walk(&v.Elems[i]) {
				return true
			}
		}
		return false
	}
	return walk(&c.Val)
}

func classify(c *Case) {
	rec.Class(fmt.Sprintf("entry-%d", c.Entry))
	if len(c.Funcs) > 0 {
		rec.Class("function-marshalers")
	}
	kinds := map[string]bool{}
	c.Desc.Walk(func(x *tv.Desc) {
		if strings.HasPrefix(x.K, "pool:") || x.K == "raw" || x.K == "map" || x.K == "any" {
			kinds[x.K] = true
		}
		if len(x.Fields) > 64 {
			kinds["struct>64"] = true
		}
		if x.K == "map" && (x.Key.K == "any" || strings.HasPrefix(x.Key.K, "pool:")) {
			kinds["map-key-"+x.Key.K] = true
		}
	})
	for k := range kinds {
		rec.Class("type-has-" + k)
	}
}

// genWide builds objects with many member names (around the 64-name and
// 1 KiB thresholds of the encoder's name tracking) in which one name may
// repeat an earlier one at a boundary-biased position, produced through a raw
// value, a MarshalJSONTo script, colliding text-marshaler keys or a map fallback.
func genWide(t *rapid.T) Case {
	n := rapid.SampledFrom([]int{3, 22, 23, 24, 63, 64, 65, 66, 67, 68, 70, 130}).Draw(t, "n")
	long := rapid.Bool().Draw(t, "longnames")
	names := make([]string, n)
	for i := range names {
		if long {
			names[i] = fmt.Sprintf("name-%03d-%s", i, strings.Repeat("x", 40))
		} else {
			names[i] = fmt.Sprintf("k%d", i)
		}
	}
	idx := func(label string) int {
		i := rapid.SampledFrom([]int{0, 1, 21, 22, 23, 62, 63, 64, 65, 66, 67, n - 2, n - 1}).Draw(t, label)
		if rapid.IntRange(0, 3).Draw(t, label+"rnd") == 0 {
			i = rapid.IntRange(0, n-1).Draw(t, label+"any")
		}
		return max(0, min(i, n-1))
	}
	src, dst := idx("src"), idx("dst")
	if dst < src {
		src, dst = dst, src
	}
	dup := rapid.IntRange(0, 3).Draw(t, "dup?") != 0 && src != dst
	if dup {
		names[dst] = names[src]
	}
	c := Case{EncOpts: nil, Opts: nil, Entry: rapid.SampledFrom([]int{0, 0, 1, 1, 2, 2, 3, 3, 4, 4, 5}).Draw(t, "entry")}
	if rapid.IntRange(0, 3).Draw(t, "det") == 0 {
		c.Opts = append(c.Opts, opt.B("Deterministic", true))
	}
	switch rapid.IntRange(0, 3).Draw(t, "carrier") {
	case 0: // raw value
		var sb strings.Builder
		sb.WriteByte('{')
		for i, nm := range names {
			if i > 0 {
				sb.WriteByte(',')
			}
			fmt.Fprintf(&sb, "%q:%d", nm, i)
		}
		sb.WriteByte('}')
		c.Desc = &tv.Desc{K: "raw"}
		c.Val = tv.Val{S: []byte(sb.String())}
	case 1: // script writing the object token by token
		ops := []tv.Val{opVal(opBeginObject, nil, 0)}
		for i, nm := range names {
			ops = append(ops, opVal(opString, []byte(nm), 0), opVal(opInt, nil, int64(i)))
		}
		ops = append(ops, opVal(opEndObject, nil, 0))
		c.Desc = &tv.Desc{K: "pool:ScriptTo"}
		c.Val = tv.Val{Elems: []tv.Val{{Elems: ops}, {B: rapid.Bool().Draw(t, "ignore")}}}
	case 2: // text-marshaler keys: distinct Go keys, colliding text
		c.Desc = &tv.Desc{K: "map", Key: &tv.Desc{K: "pool:KeyT"}, Elem: &tv.Desc{K: "int"}}
		for i, nm := range names {
			c.Val.Keys = append(c.Val.Keys, tv.Val{S: []byte(fmt.Sprintf("%s|%d", nm, i))})
			c.Val.Elems = append(c.Val.Elems, tv.Val{I: int64(i)})
		}
	default: // struct with a map fallback whose keys may collide with field names
		d := &tv.Desc{K: "struct", ID: 1}
		v := tv.Val{}
		nf := n / 2
		for i := 0; i < nf; i++ {
			d.Fields = append(d.Fields, tv.Field{Name: fmt.Sprintf("F%d", i), Tag: names[i], HasTag: true, T: &tv.Desc{K: "int"}})
			v.Elems = append(v.Elems, tv.Val{I: int64(i)})
		}
		d.Fields = append(d.Fields, tv.Field{Name: "Fb", Tag: ",embed", HasTag: true, T: &tv.Desc{K: "map", Key: &tv.Desc{K: "string"}, Elem: &tv.Desc{K: "int"}}})
		fb := tv.Val{}
		for i := nf; i < n; i++ {
			fb.Keys = append(fb.Keys, tv.Val{S: []byte(names[i])})
			fb.Elems = append(fb.Elems, tv.Val{I: int64(i)})
		}
		v.Elems = append(v.Elems, fb)
		c.Desc, c.Val = d, v
	}
	if rapid.IntRange(0, 2).Draw(t, "wrap") == 0 {
		c.Desc = &tv.Desc{K: "slice", Elem: c.Desc}
		c.Val = tv.Val{Elems: []tv.Val{c.Val, c.Val}}
	}
	return c
}

func opVal(k int, s []byte, n int64) tv.Val {
	return tv.Val{Elems: []tv.Val{{I: int64(k)}, {S: s, Nil: s == nil}, {I: n}}}
}

// genTimes builds values dominated by time.Time / time.Duration fields under
// every documented format, with fixed zones whose names are arbitrary text.
func genTimes(t *rapid.T) Case {
	c := Case{EncOpts: genOpts(t, "enc"), Opts: genOpts(t, "call"), Entry: rapid.SampledFrom([]int{0, 0, 1, 1, 2, 2, 3, 3, 4, 4, 5}).Draw(t, "entry")}
	c.Opts = append(c.Opts, opt.B("ExperimentalSupportFormatTag", true))
	d := &tv.Desc{K: "struct", ID: 1}
	n := rapid.IntRange(1, 4).Draw(t, "nfields")
	for i := 0; i < n; i++ {
		kind := rapid.SampledFrom([]string{"time", "time", "time", "dur"}).Draw(t, "kind")
		ft := &tv.Desc{K: kind}
		switch rapid.IntRange(0, 5).Draw(t, "wrap") {
		case 0:
			ft = &tv.Desc{K: "ptr", Elem: ft}
		case 1:
			ft = &tv.Desc{K: "slice", Elem: ft}
		case 2:
			ft = &tv.Desc{K: "map", Key: &tv.Desc{K: "string"}, Elem: ft}
		}
		tag := ""
		if kind == "dur" || rapid.IntRange(0, 5).Draw(t, "fmt?") != 0 {
			tag = ",format:" + rapid.SampledFrom(tv.FormatsFor(kind)).Draw(t, "format")
		}
		if rapid.IntRange(0, 4).Draw(t, "omit") == 0 {
			tag = ",omitzero" + tag
		}
		d.Fields = append(d.Fields, tv.Field{Name: fmt.Sprintf("F%d", i), Tag: tag, HasTag: tag != "", T: ft})
	}
	c.Desc = d
	c.Val = tv.GenVal(t, d, tv.ValCfg{Zones: true, TimeWide: true})
	return c
}

// plainW is an io.Writer that is not a *bytes.Buffer (the library pools and
// flushes differently for it).
type plainW struct{ b []byte }

func (w *plainW) Write(p []byte) (int, error) { w.b = append(w.b, p...); return len(p), nil }

package c02

import (
	"errors"
	"math"
	"reflect"

	"github.com/go-json-experiment/json"
	"github.com/go-json-experiment/json/jsontext"
	"pgregory.net/rapid"

	"verif/harness/tv"
)

// Op is one scripted encoder operation.
type Op struct {
	K int    // kind, see exec
	S []byte // string / raw value payload
	N int64  // number payload
}

const (
	opNull = iota
	opTrue
	opFalse
	opString
	opInt
	opUint
	opFloat
	opBeginObject
	opEndObject
	opBeginArray
	opEndArray
	opWriteValue
	opRetErr
	opRetUnsupported
	opPanic
	opReset
	opQuery
	opNestedMarshal
	opNestedFail // a nested MarshalEncode that fails half way; the error is swallowed
	opRepair     // close whatever is open above the entry depth, re-using a member name
	numOps
)

type userPanic struct{}

var errUser = errors.New("user script error")

// exec runs the script on enc. With ignore, errors of write calls are
// swallowed and the script goes on (adversarial); otherwise it returns the
// first error like ordinary user code.
// execDepth bounds the recursion of scripts that re-enter themselves through a
// nested MarshalEncode (e.g. a function for strings whose nested call marshals a
// map with a string key): unbounded user recursion is the script's own doing and
// only makes cases quadratically slow.
var execDepth int

func exec(enc *jsontext.Encoder, ops []Op, ignore bool) error {
	if execDepth >= 40 {
		return errUser
	}
	execDepth++
	defer func() { execDepth-- }()
	entry := enc.StackDepth()
	for _, o := range ops {
		var err error
		switch o.K {
		case opNull:
			err = enc.WriteToken(jsontext.Null)
		case opTrue:
			err = enc.WriteToken(jsontext.True)
		case opFalse:
			err = enc.WriteToken(jsontext.False)
		case opString:
			err = enc.WriteToken(jsontext.String(string(o.S)))
		case opInt:
			err = enc.WriteToken(jsontext.Int(o.N))
		case opUint:
			err = enc.WriteToken(jsontext.Uint(uint64(o.N)))
		case opFloat:
			err = enc.WriteToken(jsontext.Float(math.Float64frombits(uint64(o.N))))
		case opBeginObject:
			err = enc.WriteToken(jsontext.BeginObject)
		case opEndObject:
			err = enc.WriteToken(jsontext.EndObject)
		case opBeginArray:
			err = enc.WriteToken(jsontext.BeginArray)
		case opEndArray:
			err = enc.WriteToken(jsontext.EndArray)
		case opWriteValue:
			err = enc.WriteValue(jsontext.Value(o.S))
		case opRetErr:
			return errUser
		case opRetUnsupported:
			return errors.ErrUnsupported
		case opPanic:
			panic(userPanic{})
		case opReset:
			enc.Reset(discard{})
		case opQuery:
			_, _ = json.GetOption(enc.Options(), jsontext.AllowDuplicateNames)
			_ = enc.StackDepth()
			_ = enc.StackPointer()
			_ = enc.OutputOffset()
		case opNestedMarshal:
			err = json.MarshalEncode(enc, map[string]int64{"n": o.N})
		case opNestedFail:
			// leaves containers open: the library must not let them be completed
			// into something invalid afterwards
			var v any
			switch ((o.N % 4) + 4) % 4 {
			case 0:
				v = struct {
					A int
					L []chan int
				}{1, []chan int{nil}}
			case 1:
				v = map[string][]chan int{"A": {nil}}
			case 2:
				v = struct {
					A int
					M map[string][]chan int
				}{1, map[string][]chan int{"A": {nil}}}
			default:
				v = []any{map[string]any{"A": []any{make(chan int)}}}
			}
			_ = json.MarshalEncode(enc, v)
		case opRepair:
			for d := enc.StackDepth(); d > entry; d = enc.StackDepth() {
				kind, n := enc.StackIndex(d)
				if kind == '[' {
					err = enc.WriteToken(jsontext.EndArray)
				} else {
					if n%2 == 1 {
						enc.WriteToken(jsontext.Null)
					}
					name := "A"
					if o.S != nil {
						name = string(o.S)
					}
					if e := enc.WriteToken(jsontext.String(name)); e == nil {
						enc.WriteToken(jsontext.Int(3))
					}
					err = enc.WriteToken(jsontext.EndObject)
				}
				if err != nil || enc.StackDepth() >= d {
					break // the encoder refuses: stop (no endless loop)
				}
			}
		}
		if err != nil && !ignore {
			return err
		}
	}
	return nil
}

type discard struct{}

func (discard) Write(p []byte) (int, error) { return len(p), nil }

// ScriptTo implements MarshalerTo on the value receiver.
type ScriptTo struct {
	Ops    []Op
	Ignore bool
}

func (s ScriptTo) MarshalJSONTo(enc *jsontext.Encoder) error { return exec(enc, s.Ops, s.Ignore) }

// ScriptToP implements MarshalerTo on the pointer receiver.
type ScriptToP struct {
	Ops    []Op
	Ignore bool
}

func (s *ScriptToP) MarshalJSONTo(enc *jsontext.Encoder) error { return exec(enc, s.Ops, s.Ignore) }

func retErr(code int64) error {
	switch code {
	case 1:
		return errUser
	case 2:
		return errors.ErrUnsupported
	}
	return nil
}

// RawM implements Marshaler returning arbitrary bytes.
type RawM struct {
	Out []byte
	Err int64
}

func (r RawM) MarshalJSON() ([]byte, error) { return r.Out, retErr(r.Err) }

// TextM implements encoding.TextMarshaler.
type TextM struct {
	Out []byte
	Err int64
}

func (r TextM) MarshalText() ([]byte, error) { return r.Out, retErr(r.Err) }

// AppendM implements encoding.TextAppender.
type AppendM struct {
	Out []byte
	Err int64
}

func (r AppendM) AppendText(b []byte) ([]byte, error) { return append(b, r.Out...), retErr(r.Err) }

// KeyT is a map-key type whose text is the part before '|', so that distinct
// keys can collide; a '!' makes MarshalText fail.
type KeyT string

func (k KeyT) MarshalText() ([]byte, error) {
	s := string(k)
	for i := 0; i < len(s); i++ {
		if s[i] == '!' {
			return nil, errUser
		}
	}
	for i := 0; i < len(s); i++ {
		if s[i] == '|' {
			return []byte(s[:i]), nil
		}
	}
	return []byte(s), nil
}

// KeyA is the TextAppender variant of KeyT.
type KeyA string

func (k KeyA) AppendText(b []byte) ([]byte, error) {
	t, err := KeyT(k).MarshalText()
	return append(b, t...), err
}

var opDesc = &tv.Desc{K: "struct", Fields: []tv.Field{{Name: "K", T: &tv.Desc{K: "int"}}, {Name: "S", T: &tv.Desc{K: "bytes"}}, {Name: "N", T: &tv.Desc{K: "int64"}}}}
var scriptDesc = &tv.Desc{K: "struct", Fields: []tv.Field{{Name: "Ops", T: &tv.Desc{K: "slice", Elem: opDesc}}, {Name: "Ignore", T: &tv.Desc{K: "bool"}}}}
var outErrDesc = &tv.Desc{K: "struct", Fields: []tv.Field{{Name: "Out", T: &tv.Desc{K: "bytes"}}, {Name: "Err", T: &tv.Desc{K: "int64"}}}}

func init() {
	tv.RegisterPool(tv.PoolType{Name: "ScriptTo", Type: reflect.TypeFor[ScriptTo](), Under: scriptDesc})
	tv.RegisterPool(tv.PoolType{Name: "ScriptToP", Type: reflect.TypeFor[ScriptToP](), Under: scriptDesc})
	tv.RegisterPool(tv.PoolType{Name: "RawM", Type: reflect.TypeFor[RawM](), Under: outErrDesc})
	tv.RegisterPool(tv.PoolType{Name: "TextM", Type: reflect.TypeFor[TextM](), Under: outErrDesc})
	tv.RegisterPool(tv.PoolType{Name: "AppendM", Type: reflect.TypeFor[AppendM](), Under: outErrDesc})
	tv.RegisterPool(tv.PoolType{Name: "KeyT", Type: reflect.TypeFor[KeyT](), Under: &tv.Desc{K: "string"}})
	tv.RegisterPool(tv.PoolType{Name: "KeyA", Type: reflect.TypeFor[KeyA](), Under: &tv.Desc{K: "string"}})
}

var strPayloads = [][]byte{[]byte(""), []byte("a"), []byte("b"), []byte("a"), []byte("k"), []byte("<&>"), []byte("\xff"), []byte("é"), []byte("\x00"), []byte(" "), []byte("a\"b"), []byte("name")}
var rawPayloads = [][]byte{[]byte("null"), []byte("1"), []byte(`"a"`), []byte(`"b"`), []byte("[]"), []byte("{}"), []byte(`{"a":1}`), []byte(`{"a":1,"a":2}`), []byte("[1,2]"), []byte(" 1 "), []byte(""), []byte("{"), []byte("1 2"), []byte("\"\xff\""), []byte("nul"), []byte("[1,]"), []byte(`"a`), []byte("]"), []byte(`"\ud800"`), []byte("01"), []byte(`{"a":{"b":[1,{"c":null}]}}`), []byte("\n[ ]\n"), []byte("tru"), []byte("-"), []byte(`"<"`), []byte("\"\u2028\""), []byte("\"a\u2029<\\u2028\""), []byte("{\"\u2028\":\"\u2029\"}")}

func genOps(t *rapid.T) []tv.Val {
	// mostly well-formed shapes with occasional disorder
	var ops []Op
	switch rapid.IntRange(0, 9).Draw(t, "scriptshape") {
	case 0: // one scalar
		ops = []Op{{K: rapid.SampledFrom([]int{opNull, opTrue, opString, opInt, opFloat, opWriteValue}).Draw(t, "k")}}
	case 1: // nothing
	case 2: // two values
		ops = []Op{{K: opInt, N: 1}, {K: opInt, N: 2}}
	case 3: // object left open
		ops = []Op{{K: opBeginObject}, {K: opString, S: []byte("a")}, {K: opInt, N: 1}}
	case 4: // proper object, maybe duplicate names
		ops = []Op{{K: opBeginObject}, {K: opString, S: []byte("a")}, {K: opInt, N: 1}, {K: opString, S: rapid.SampledFrom(strPayloads).Draw(t, "name2")}, {K: opNull}, {K: opEndObject}}
	case 5: // pops below the entry depth and re-pushes
		ops = []Op{{K: rapid.SampledFrom([]int{opEndArray, opEndObject}).Draw(t, "end")}, {K: rapid.SampledFrom([]int{opBeginArray, opBeginObject}).Draw(t, "begin")}, {K: opInt, N: 0}}
	case 6: // unsupported after writing
		ops = []Op{{K: opInt, N: 1}, {K: opRetUnsupported}}
	case 7: // unsupported before writing
		ops = []Op{{K: opRetUnsupported}}
		if rapid.Bool().Draw(t, "failrepair") {
			// a nested call fails half way, the script swallows the error and completes the output by hand
			ops = []Op{{K: opNestedFail, N: int64(rapid.IntRange(0, 3).Draw(t, "failkind"))}, {K: opRepair}}
		}
	default:
		n := rapid.IntRange(0, 7).Draw(t, "nops")
		for i := 0; i < n; i++ {
			ops = append(ops, Op{K: rapid.IntRange(0, numOps-1).Draw(t, "opk")})
		}
	}
	out := make([]tv.Val, len(ops))
	for i, o := range ops {
		switch o.K {
		case opString:
			if o.S == nil {
				o.S = rapid.SampledFrom(strPayloads).Draw(t, "strpayload")
			}
		case opWriteValue:
			o.S = rapid.SampledFrom(rawPayloads).Draw(t, "rawpayload")
		case opInt, opUint, opNestedMarshal:
			if o.N == 0 {
				o.N = int64(rapid.IntRange(-3, 3).Draw(t, "n"))
			}
		case opFloat:
			o.N = int64(rapid.SampledFrom([]uint64{0, math.Float64bits(1.5), math.Float64bits(math.NaN()), math.Float64bits(math.Inf(1)), math.Float64bits(-0.0), math.Float64bits(1e21)}).Draw(t, "fbits"))
		}
		out[i] = tv.Val{Elems: []tv.Val{{I: int64(o.K)}, {S: o.S, Nil: o.S == nil}, {I: o.N}}}
	}
	return out
}

func genScript(t *rapid.T) tv.Val {
	return tv.Val{Elems: []tv.Val{{Elems: genOps(t)}, {B: rapid.IntRange(0, 3).Draw(t, "ignore") == 0}}}
}

func genOutErr(raw bool) func(t *rapid.T) tv.Val {
	return func(t *rapid.T) tv.Val {
		var out []byte
		if raw {
			out = rapid.SampledFrom(rawPayloads).Draw(t, "out")
		} else {
			out = rapid.SampledFrom(strPayloads).Draw(t, "out")
		}
		e := int64(0)
		if rapid.IntRange(0, 7).Draw(t, "err?") == 0 {
			e = int64(rapid.IntRange(1, 2).Draw(t, "err"))
		}
		return tv.Val{Elems: []tv.Val{{S: out, Nil: out == nil}, {I: e}}}
	}
}

func genKey(t *rapid.T) tv.Val {
	return tv.Val{S: []byte(rapid.SampledFrom([]string{"a", "a|1", "a|2", "b", "b|x", "", "|", "c!", "\xff", "\xfe|", "<", "k"}).Draw(t, "key"))}
}

var poolGen = map[string]func(*rapid.T) tv.Val{
	"pool:ScriptTo":  genScript,
	"pool:ScriptToP": genScript,
	"pool:RawM":      genOutErr(true),
	"pool:TextM":     genOutErr(false),
	"pool:AppendM":   genOutErr(false),
	"pool:KeyT":      genKey,
	"pool:KeyA":      genKey,
}

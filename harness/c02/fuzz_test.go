package c02

import (
	"testing"

	"verif/harness/rt"
)

// FuzzUserCode lets the native fuzzer drive the user-code generator (coverage-guided).
func FuzzUserCode(f *testing.F) {
	rt.FuzzRapid(f, "C02", "usercode", genCase(true), Run)
}

package c14

import (
	"fmt"
	"reflect"

	"github.com/go-json-experiment/json"
	"pgregory.net/rapid"

	"verif/harness/cov"
	"verif/harness/rt"
	"verif/harness/tv"
)

// The stale-capacity relation: what lies between the length and the capacity
// of a destination slice is not part of the destination's value, so it must
// not influence what Unmarshal stores ("arrays are replaced", not merged with
// whatever an earlier use of the backing array left behind). Two destinations
// are prepared from the same first text; in A every slice is then cut to
// length zero keeping its backing array (the `s = s[:0]` idiom of decoding
// loops), in B every slice is replaced by a fresh empty one. The second text
// is unmarshaled into both; results and outcomes must agree.

// truncate cuts every slice reachable from v to length zero: stale keeps the
// backing array, !stale installs a fresh empty slice. It reports how many
// slices with spare capacity were cut.
func truncate(v reflect.Value, stale bool) (n int) {
	switch v.Kind() {
	case reflect.Slice:
		if v.IsNil() || v.Type().Elem().Kind() == reflect.Uint8 || !v.CanSet() {
			return 0
		}
		if v.Cap() > 0 && v.Len() > 0 {
			n = 1
		}
		if stale {
			v.Set(v.Slice(0, 0))
		} else {
			v.Set(reflect.MakeSlice(v.Type(), 0, 0))
		}
		return n
	case reflect.Pointer:
		if !v.IsNil() {
			return truncate(v.Elem(), stale)
		}
	case reflect.Struct:
		for i := 0; i < v.NumField(); i++ {
			if v.Field(i).CanSet() {
				n += truncate(v.Field(i), stale)
			}
		}
	case reflect.Array:
		for i := 0; i < v.Len(); i++ {
			n += truncate(v.Index(i), stale)
		}
	case reflect.Map:
		if v.IsNil() {
			return 0
		}
		for _, k := range v.MapKeys() {
			e := reflect.New(v.Type().Elem()).Elem()
			e.Set(v.MapIndex(k))
			if c := truncate(e, stale); c > 0 {
				n += c
			}
			v.SetMapIndex(k, e)
		}
	case reflect.Interface:
		if v.IsNil() || !v.CanSet() {
			return 0
		}
		e := reflect.New(v.Elem().Type()).Elem()
		e.Set(v.Elem())
		n = truncate(e, stale)
		v.Set(e)
	}
	return n
}

func genStale(t *rapid.T) Case {
	c := genCase(t)
	if rapid.IntRange(0, 3).Draw(t, "wrap") != 0 && len(c.Texts) >= 3 {
		// a slice of the generated type: two elements first, then one element
		// that lands in the stale first slot
		c.Desc = &tv.Desc{K: "slice", Elem: c.Desc}
		first := append(append(append(append([]byte("["), c.Texts[0]...), ','), c.Texts[1]...), ']')
		second := append(append([]byte("["), c.Texts[2]...), ']')
		c.Texts = [][]byte{first, second}
		return c
	}
	c.Texts = c.Texts[:2]
	return c
}

// RunStale decides one stale-capacity case.
func RunStale(c Case) error {
	typ, err := tv.Build(c.Desc)
	if err != nil || len(c.Texts) < 2 {
		return nil
	}
	rec.Eval()
	prep := func(stale bool) (reflect.Value, int, bool) {
		p := reflect.New(typ)
		if err := json.Unmarshal(c.Texts[0], p.Interface(), c.opts()...); err != nil {
			return p, 0, false
		}
		return p, truncate(p.Elem(), stale), true
	}
	a, cut, ok := prep(true)
	if !ok {
		rec.Class("stale:first-text-rejected(not compared)")
		return nil
	}
	b, _, _ := prep(false)
	if cut == 0 {
		rec.Class("stale:no-slice-with-elements")
	} else {
		fp := cov.FP([]byte("stale"), []byte(c.Desc.Sig()), c.Texts[0], c.Texts[1])
		rec.NonTrivial(fp)
		rec.Sample(fp, func() any {
			return map[string]any{"check": "stale-capacity", "type": c.Desc.Sig(), "first_text": string(c.Texts[0]), "second_text": string(c.Texts[1]), "slices_cut": cut}
		})
		rec.Class("stale:slices-cut-keeping-capacity")
	}
	var ea, eb error
	if p := rt.Guard(func() { ea = json.Unmarshal(c.Texts[1], a.Interface(), c.opts()...) }); p != nil {
		return fmt.Errorf("Unmarshal into a destination with truncated slices panicked: %v", p)
	}
	if p := rt.Guard(func() { eb = json.Unmarshal(c.Texts[1], b.Interface(), c.opts()...) }); p != nil {
		return fmt.Errorf("Unmarshal into a destination with fresh empty slices panicked: %v", p)
	}
	if (ea == nil) != (eb == nil) {
		return fmt.Errorf("Unmarshal of %s depends on what lies beyond the length of the destination's slices: with the old backing arrays kept (s[:0]) the error is %v, with fresh empty slices %v\nfirst text %s\ntype %s",
			c.Texts[1], ea, eb, c.Texts[0], c.Desc.Sig())
	}
	if ea != nil {
		rec.Class("stale:second-text-rejected-by-both")
		return nil
	}
	if !reflect.DeepEqual(a.Interface(), b.Interface()) {
		ja, _ := json.Marshal(a.Interface(), json.Deterministic(true))
		jb, _ := json.Marshal(b.Interface(), json.Deterministic(true))
		return fmt.Errorf("Unmarshal of %s depends on what lies beyond the length of the destination's slices:\n with the old backing arrays kept (s[:0]): %s\n with fresh empty slices:               %s\nfirst text %s\ntype %s",
			c.Texts[1], ja, jb, c.Texts[0], c.Desc.Sig())
	}
	return nil
}

package c14

import (
	"testing"

	"verif/harness/rt"
)

// FuzzChains lets the native fuzzer drive the (type, text chain) generator (coverage-guided).
func FuzzChains(f *testing.F) {
	rt.FuzzRapid(f, "C14", "chains", genCase, Run)
}

package c14

import (
	"testing"

	"verif/harness/rt"
)

func TestCheck(t *testing.T) {
	e := rt.Setup(t, "C14")
	defer e.Finish()
	rec = e.Rec

	rt.Rapid(e, "chains", 500_000, 4_000_000, genCase, Run)
	rt.Rapid(e, "stale-capacity", 150_000, 1_500_000, genStale, RunStale)
	rt.Enum(e, "catalogue-pairs", func(yield func(Case) bool) { enumCatalogue(e, yield) }, Run)
}

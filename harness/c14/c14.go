// Package c14 decides property C14: Unmarshal merges JSON objects into
// existing values and replaces everything else.
package c14

import (
	"fmt"
	"reflect"
	"strings"

	"github.com/go-json-experiment/json"
	"pgregory.net/rapid"

	"verif/harness/cov"
	"verif/harness/ref"
	"verif/harness/rt"
	"verif/harness/tv"
)

var rec = cov.New()

// Case is a type and a chain of texts.
type Case struct {
	Desc  *tv.Desc `json:"desc"`
	Texts [][]byte `json:"texts"`
}

func genCase(t *rapid.T) Case {
	cfg := tv.Cfg{MaxDepth: rapid.IntRange(1, 7).Draw(t, "maxdepth"), Embedding: true, Raw: true, TimeKinds: false, Fallbacks: true,
		MapKeys:   []string{"string", "string", "int", "int8", "uint", "uint16"},
		TopStruct: rapid.IntRange(0, 4).Draw(t, "topstruct") != 0, MaxFields: 4}
	if cfg.MaxDepth > 4 {
		// deep and narrow: containers of containers so that pointers, maps and
		// slices occur three and more levels down
		cfg.MaxFields = 2
		cfg.Containers = []string{"slice", "map", "ptr", "ptr", "struct", "struct", "struct", "any", "array"}
	}
	if rapid.IntRange(0, 2).Draw(t, "tags") == 0 {
		cfg.Tags = true // names / omit options / case options (no string or format)
		cfg.Leaves = []string{"bool", "string", "bytes", "bytearr", "bool", "string"}
	}
	c := Case{Desc: tv.GenDesc(t, cfg)}
	stripStringOpt(c.Desc)
	k := rapid.IntRange(2, 4).Draw(t, "chain")
	for i := 0; i < k; i++ {
		c.Texts = append(c.Texts, tv.GenJSON(t, c.Desc, tv.JSONCfg{Nulls: true, Extra: true, PresentPc: rapid.SampledFrom([]int{40, 60, 90}).Draw(t, "present")}))
	}
	return c
}

// stripStringOpt removes `string` and case options the text generator does not model.
func stripStringOpt(d *tv.Desc) {
	d.Walk(func(x *tv.Desc) {
		for i := range x.Fields {
			parts := strings.Split(x.Fields[i].Tag, ",")
			var keep []string
			for j, p := range parts {
				if j > 0 && (p == "string" || strings.HasPrefix(p, "format:")) {
					continue
				}
				keep = append(keep, p)
			}
			x.Fields[i].Tag = strings.Join(keep, ",")
		}
	})
}

var popt = ref.Opt{AllowInvalidUTF8: true, AllowDup: true}

// Run decides one case.
func Run(c Case) error {
	typ, err := tv.Build(c.Desc)
	if err != nil || len(c.Texts) < 2 {
		return nil
	}
	rec.Eval()
	sig := c.Desc.Sig()
	// sequential run
	seq := reflect.New(typ)
	for i, txt := range c.Texts {
		var uerr error
		if p := rt.Guard(func() { uerr = json.Unmarshal(txt, seq.Interface()) }); p != nil {
			return fmt.Errorf("Unmarshal panicked on text %d %s: %v\ntype %s", i, txt, p, sig)
		}
		if uerr != nil {
			rec.Class("chain-fails(not compared)")
			return nil
		}
	}
	// merged text
	m := &tv.Merger{}
	cur := c.Texts[0]
	for _, txt := range c.Texts[1:] {
		na, e1 := ref.Parse(cur, popt)
		nb, e2 := ref.Parse(txt, popt)
		if e1 != nil || e2 != nil {
			return nil
		}
		cur = m.Merge(c.Desc, cur, na, txt, nb)
	}
	if m.Ambiguous {
		rec.Class("ambiguous-field(not compared)")
		return nil
	}
	fresh := reflect.New(typ)
	if err := json.Unmarshal(cur, fresh.Interface()); err != nil {
		// the merged text can be unacceptable although each step succeeded only
		// through interface kind conflicts, which the statement excludes
		rec.Class("merged-text-rejected(not compared)")
		return nil
	}
	if m.Overlaps > 0 {
		parts := [][]byte{[]byte(sig)}
		parts = append(parts, c.Texts...)
		fp := cov.FP(parts...)
		rec.NonTrivial(fp)
		rec.Class("overlap")
		rec.Sample(fp, func() any {
			var ts []string
			for _, t := range c.Texts {
				ts = append(ts, string(t))
			}
			return map[string]any{"type": sig, "texts": ts, "merged": string(cur)}
		})
	} else {
		rec.Class("no-overlap")
	}
	if d := tv.Equal(seq.Elem(), fresh.Elem(), tv.EqOpt{}); d != "" {
		var ts []string
		for _, t := range c.Texts {
			ts = append(ts, string(t))
		}
		err := fmt.Errorf("sequential Unmarshal differs from Unmarshal of the merged text at %s\ntype %s\ntexts %q\nmerged %s", d, sig, ts, cur)
		if m.RawFallback && strings.Contains(d, "Fb") {
			// F6: a jsontext.Value fallback appends the unknown members of every call
			return rt.Known("value-fallback-accumulates-duplicates", err)
		}
		return err
	}
	return nil
}

// ---- bounded-exhaustive catalogue -------------------------------------------

var catalogue = []*tv.Desc{
	{K: "struct", ID: 1, Fields: []tv.Field{{Name: "P", T: &tv.Desc{K: "int"}}, {Name: "Q", T: &tv.Desc{K: "string"}}}},
	{K: "map", Key: &tv.Desc{K: "string"}, Elem: &tv.Desc{K: "int"}},
	{K: "map", Key: &tv.Desc{K: "string"}, Elem: &tv.Desc{K: "struct", ID: 2, Fields: []tv.Field{{Name: "P", T: &tv.Desc{K: "int"}}, {Name: "Q", T: &tv.Desc{K: "int"}}}}},
	{K: "map", Key: &tv.Desc{K: "string"}, Elem: &tv.Desc{K: "slice", Elem: &tv.Desc{K: "int"}}},
	{K: "map", Key: &tv.Desc{K: "string"}, Elem: &tv.Desc{K: "ptr", Elem: &tv.Desc{K: "struct", ID: 3, Fields: []tv.Field{{Name: "P", T: &tv.Desc{K: "int"}}, {Name: "Q", T: &tv.Desc{K: "int"}}}}}},
	{K: "ptr", Elem: &tv.Desc{K: "struct", ID: 4, Fields: []tv.Field{{Name: "P", T: &tv.Desc{K: "int"}}, {Name: "Q", T: &tv.Desc{K: "int"}}}}},
	{K: "ptr", Elem: &tv.Desc{K: "ptr", Elem: &tv.Desc{K: "map", Key: &tv.Desc{K: "string"}, Elem: &tv.Desc{K: "int"}}}},
	{K: "slice", Elem: &tv.Desc{K: "int"}},
	{K: "slice", Elem: &tv.Desc{K: "struct", ID: 5, Fields: []tv.Field{{Name: "P", T: &tv.Desc{K: "int"}}, {Name: "Q", T: &tv.Desc{K: "int"}}}}},
	{K: "slice", Elem: &tv.Desc{K: "map", Key: &tv.Desc{K: "string"}, Elem: &tv.Desc{K: "int"}}},
	{K: "slice", Elem: &tv.Desc{K: "ptr", Elem: &tv.Desc{K: "int"}}},
	{K: "slice", Elem: &tv.Desc{K: "slice", Elem: &tv.Desc{K: "int"}}},
	{K: "array", Len: 2, Elem: &tv.Desc{K: "struct", ID: 6, Fields: []tv.Field{{Name: "P", T: &tv.Desc{K: "int"}}, {Name: "Q", T: &tv.Desc{K: "int"}}}}},
	{K: "array", Len: 2, Elem: &tv.Desc{K: "ptr", Elem: &tv.Desc{K: "int"}}},
	{K: "any"},
	{K: "slice", Elem: &tv.Desc{K: "any"}},
	{K: "map", Key: &tv.Desc{K: "string"}, Elem: &tv.Desc{K: "any"}},
	{K: "map", Key: &tv.Desc{K: "int"}, Elem: &tv.Desc{K: "ptr", Elem: &tv.Desc{K: "slice", Elem: &tv.Desc{K: "int"}}}},
	{K: "struct", ID: 7, Fields: []tv.Field{{Name: "E", Embedded: true, T: &tv.Desc{K: "ptr", Elem: &tv.Desc{K: "struct", ID: 8, Fields: []tv.Field{{Name: "P", T: &tv.Desc{K: "int"}}}}}}, {Name: "Q", T: &tv.Desc{K: "int"}}}},
	{K: "bytes"},
	{K: "raw"},
	{K: "ptr", Elem: &tv.Desc{K: "int"}},
}

// shapes of JSON values placed at the top level and under one member "k" / "1".
var shapes = []string{`null`, `0`, `7`, `"s"`, `true`, `[]`, `[1]`, `[1,2]`, `[{"P":1},{"Q":2}]`, `[[1],[2,3]]`, `[null,1]`, `{}`, `{"P":1}`, `{"Q":2}`, `{"P":3,"Q":4}`, `{"P":null}`,
	`{"k":1}`, `{"k":{"P":1}}`, `{"k":{"Q":2}}`, `{"k":[1,2]}`, `{"k":[3]}`, `{"k":null}`, `{"j":{"P":5}}`, `{"1":[1,2]}`, `{"1":[3]}`, `{"1":null}`, `"AQI="`, `""`, `{"k":{"k":{"P":1}}}`, `{"k":{"k":{"Q":2}}}`}

func enumCatalogue(e *rt.Env, yield func(Case) bool) {
	var idx, total int64
	complete := true
outer:
	for _, d := range catalogue {
		for _, j1 := range shapes {
			for _, j2 := range shapes {
				idx++
				if !e.Mine(idx) {
					continue
				}
				total++
				if !yield(Case{Desc: d, Texts: [][]byte{[]byte(j1), []byte(j2)}}) {
					complete = false
					break outer
				}
				// three-step chains through a middle null / empty object
				for _, mid := range []string{`null`, `{}`} {
					total++
					if !yield(Case{Desc: d, Texts: [][]byte{[]byte(j1), []byte(mid), []byte(j2)}}) {
						complete = false
						break outer
					}
				}
			}
		}
	}
	e.Rec.AddPart(cov.Part{Name: fmt.Sprintf("%d catalogue types x all ordered pairs of %d JSON shapes (x {direct, via null, via {}})", len(catalogue), len(shapes)), Size: total, Complete: complete})
}

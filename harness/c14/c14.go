// Package c14 decides property C14: Unmarshal merges JSON objects into
// existing values and replaces everything else.
package c14

import (
	"fmt"
	"reflect"
	"strings"

	"github.com/go-json-experiment/json"
	jsonv1 "github.com/go-json-experiment/json/v1"
	"pgregory.net/rapid"

	"verif/harness/cov"
	"verif/harness/ref"
	"verif/harness/rt"
	"verif/harness/tv"
)

var rec = cov.New()

// Case is a type and a chain of texts.
type Case struct {
	Desc   *tv.Desc `json:"desc"`
	Texts  [][]byte `json:"texts"`
	AnyLen bool     `json:"any_len,omitempty"` // v1.UnmarshalArrayFromAnyLength(true)
	Spell  int      `json:"spell,omitempty"`   // 1: DefaultOptionsV2() passed explicitly, 2: the legacy merge/error options passed as false (present, value of the default)
}

func (c *Case) opts() []json.Options {
	var pre []json.Options
	switch c.Spell {
	case 1:
		pre = []json.Options{json.DefaultOptionsV2()}
	case 2:
		pre = []json.Options{jsonv1.MergeWithLegacySemantics(false), jsonv1.ReportErrorsWithLegacySemantics(false), json.RejectUnknownMembers(false)}
	}
	if c.AnyLen {
		return append(pre, jsonv1.UnmarshalArrayFromAnyLength(true))
	}
	return pre
}

func genCase(t *rapid.T) Case {
	cfg := tv.Cfg{MaxDepth: rapid.IntRange(1, 7).Draw(t, "maxdepth"), Embedding: true, Raw: true, TimeKinds: false, Fallbacks: true,
		MapKeys:   []string{"string", "string", "int", "int8", "uint", "uint16"},
		TopStruct: rapid.IntRange(0, 4).Draw(t, "topstruct") != 0, MaxFields: 4}
	if cfg.MaxDepth > 4 {
		// deep and narrow: containers of containers so that pointers, maps and
		// slices occur three and more levels down
		cfg.MaxFields = 2
		cfg.Containers = []string{"slice", "map", "ptr", "ptr", "struct", "struct", "struct", "any", "array"}
	}
	if rapid.IntRange(0, 2).Draw(t, "tags") == 0 {
		cfg.Tags = true // names / omit options / case options (no string or format)
		cfg.Leaves = []string{"bool", "string", "bytes", "bytearr", "bool", "string"}
	}
	c := Case{Desc: tv.GenDesc(t, cfg), AnyLen: rapid.IntRange(0, 3).Draw(t, "anylen") == 0, Spell: rapid.SampledFrom([]int{0, 0, 1, 2}).Draw(t, "spell")}
	stripStringOpt(c.Desc)
	k := rapid.IntRange(2, 4).Draw(t, "chain")
	for i := 0; i < k; i++ {
		c.Texts = append(c.Texts, tv.GenJSON(t, c.Desc, tv.JSONCfg{Nulls: true, Extra: true, AnyLen: c.AnyLen, PresentPc: rapid.SampledFrom([]int{40, 60, 90}).Draw(t, "present")}))
	}
	if rapid.IntRange(0, 4).Draw(t, "emptied") == 0 {
		// T1, T1 with every array emptied, T2...: slices come back with length
		// zero and their old capacity (stale elements behind the length).
		if e := emptyArrays(c.Texts[0]); e != nil {
			c.Texts = append([][]byte{c.Texts[0], e}, c.Texts[1:]...)
		}
	}
	if rapid.IntRange(0, 4).Draw(t, "hollowed") == 0 {
		// T1, then T1 with its innermost objects written as {}: an empty
		// object merges into what is there and changes nothing.
		if e := hollowObjects(c.Texts[0]); e != nil {
			c.Texts = append([][]byte{c.Texts[0], e}, c.Texts[1:]...)
		}
	}
	return c
}

// hollowObjects rewrites every non-empty object below the top level that has
// no object among its member values as {} (nil if the text does not parse or
// nothing was rewritten).
func hollowObjects(in []byte) []byte {
	n, err := ref.Parse(in, popt)
	if err != nil {
		return nil
	}
	var out []byte
	changed := false
	var walk func(n *ref.Node, depth int)
	walk = func(n *ref.Node, depth int) {
		switch n.Kind {
		case '[':
			out = append(out, '[')
			for i, e := range n.Elems {
				if i > 0 {
					out = append(out, ',')
				}
				walk(e, depth+1)
			}
			out = append(out, ']')
		case '{':
			inner := false
			for _, m := range n.Members {
				if m.Value.Kind == '{' {
					inner = true
				}
			}
			if depth > 0 && !inner && len(n.Members) > 0 {
				out = append(out, '{', '}')
				changed = true
				return
			}
			out = append(out, '{')
			for i, m := range n.Members {
				if i > 0 {
					out = append(out, ',')
				}
				out = append(out, in[m.Name.Start:m.Name.End]...)
				out = append(out, ':')
				walk(m.Value, depth+1)
			}
			out = append(out, '}')
		default:
			out = append(out, in[n.Start:n.End]...)
		}
	}
	walk(n, 0)
	if !changed {
		return nil
	}
	return out
}

// emptyArrays rewrites every array of a text as [] (nil if the text does not parse).
func emptyArrays(in []byte) []byte {
	n, err := ref.Parse(in, popt)
	if err != nil {
		return nil
	}
	var out []byte
	var walk func(n *ref.Node)
	walk = func(n *ref.Node) {
		switch n.Kind {
		case '[':
			out = append(out, '[', ']')
		case '{':
			out = append(out, '{')
			for i, m := range n.Members {
				if i > 0 {
					out = append(out, ',')
				}
				out = append(out, in[m.Name.Start:m.Name.End]...)
				out = append(out, ':')
				walk(m.Value)
			}
			out = append(out, '}')
		default:
			out = append(out, in[n.Start:n.End]...)
		}
	}
	walk(n)
	return out
}

// stripStringOpt removes `string` and case options the text generator does not model.
func stripStringOpt(d *tv.Desc) {
	d.Walk(func(x *tv.Desc) {
		for i := range x.Fields {
			parts := strings.Split(x.Fields[i].Tag, ",")
			var keep []string
			for j, p := range parts {
				if j > 0 && (p == "string" || strings.HasPrefix(p, "format:")) {
					continue
				}
				keep = append(keep, p)
			}
			x.Fields[i].Tag = strings.Join(keep, ",")
		}
	})
}

var popt = ref.Opt{AllowInvalidUTF8: true, AllowDup: true}

// Run decides one case.
func Run(c Case) error {
	typ, err := tv.Build(c.Desc)
	if err != nil || len(c.Texts) < 2 {
		return nil
	}
	rec.Eval()
	sig := c.Desc.Sig()
	// Each text must be acceptable on its own (into a fresh value); otherwise
	// the chain proves nothing.
	for _, txt := range c.Texts {
		if err := json.Unmarshal(txt, reflect.New(typ).Interface(), c.opts()...); err != nil {
			rec.Class("text-rejected-alone(not compared)")
			return nil
		}
	}
	// sequential run
	seq := reflect.New(typ)
	conflict := anyConflictPossible(c.Desc, c.Texts)
	for i, txt := range c.Texts {
		var uerr error
		if p := rt.Guard(func() { uerr = json.Unmarshal(txt, seq.Interface(), c.opts()...) }); p != nil {
			return fmt.Errorf("Unmarshal panicked on text %d %s: %v\ntype %s", i, txt, p, sig)
		}
		if uerr != nil {
			if !conflict {
				// Every text is acceptable alone and no interface-typed position is
				// mentioned twice (the only documented way an earlier value can make
				// a later text unacceptable): the destination must be replaced or merged.
				var ts []string
				for _, t := range c.Texts {
					ts = append(ts, string(t))
				}
				return fmt.Errorf("text %d is accepted by a zero value but rejected after the earlier texts although no interface-typed position is revisited: %v\ntype %s\ntexts %q", i, uerr, sig, ts)
			}
			rec.Class("chain-fails-on-interface-conflict(not compared)")
			return nil
		}
	}
	// merged text
	m := &tv.Merger{}
	cur := c.Texts[0]
	for _, txt := range c.Texts[1:] {
		na, e1 := ref.Parse(cur, popt)
		nb, e2 := ref.Parse(txt, popt)
		if e1 != nil || e2 != nil {
			return nil
		}
		cur = m.Merge(c.Desc, cur, na, txt, nb)
	}
	if m.Ambiguous {
		rec.Class("ambiguous-field(not compared)")
		return nil
	}
	fresh := reflect.New(typ)
	if err := json.Unmarshal(cur, fresh.Interface(), c.opts()...); err != nil {
		// the merged text can be unacceptable although each step succeeded only
		// through interface kind conflicts, which the statement excludes
		rec.Class("merged-text-rejected(not compared)")
		return nil
	}
	if m.Overlaps > 0 {
		parts := [][]byte{[]byte(sig)}
		parts = append(parts, c.Texts...)
		fp := cov.FP(parts...)
		rec.NonTrivial(fp)
		rec.Class("overlap")
		rec.Sample(fp, func() any {
			var ts []string
			for _, t := range c.Texts {
				ts = append(ts, string(t))
			}
			return map[string]any{"type": sig, "texts": ts, "merged": string(cur)}
		})
	} else {
		rec.Class("no-overlap")
	}
	if d := tv.Equal(seq.Elem(), fresh.Elem(), tv.EqOpt{}); d != "" {
		var ts []string
		for _, t := range c.Texts {
			ts = append(ts, string(t))
		}
		err := fmt.Errorf("sequential Unmarshal differs from Unmarshal of the merged text at %s\ntype %s\ntexts %q\nmerged %s", d, sig, ts, cur)
		if m.RawFallback && strings.Contains(d, "Fb") {
			// F6: a jsontext.Value fallback appends the unknown members of every call
			return rt.Known("value-fallback-accumulates-duplicates", err)
		}
		return err
	}
	// absolute oracle: the reference model of Unmarshal-into-zero applied to the merged text
	if mn, perr := ref.Parse(cur, ref.Opt{}); perr == nil {
		if want, ok := tv.RefDecode(c.Desc, cur, mn, tv.DecodeOpt{AnyLen: c.AnyLen}); ok {
			rec.Class("reference-decode-compared")
			if d := tv.Equal(seq.Elem(), want, tv.EqOpt{}); d != "" {
				var ts []string
				for _, t := range c.Texts {
					ts = append(ts, string(t))
				}
				return fmt.Errorf("result differs from the reference decoding of the merged text at %s\ntype %s\ntexts %q\nmerged %s", d, sig, ts, cur)
			}
		} else {
			rec.Class("reference-decode-not-applicable")
		}
	}
	return nil
}

// anyConflictPossible reports whether some interface-typed position that is
// not below an array is given a non-null value by two or more texts.
func anyConflictPossible(d *tv.Desc, texts [][]byte) bool {
	count := map[string]int{}
	for _, txt := range texts {
		root, err := ref.Parse(txt, popt)
		if err != nil {
			return true
		}
		seen := map[string]bool{}
		var walk func(d *tv.Desc, n *ref.Node, ptr string)
		walk = func(d *tv.Desc, n *ref.Node, ptr string) {
			for d != nil && d.K == "ptr" {
				d = d.Elem
			}
			if d == nil || n.Kind == 'n' {
				return
			}
			if d.K == "any" {
				seen[ptr] = true
				return // everything below lives inside the interface value
			}
			if n.Kind != '{' {
				return // arrays reset their elements: nothing below can conflict with earlier texts
			}
			for _, m := range n.Members {
				var c *tv.Desc
				switch d.K {
				case "struct":
					c, _ = tv.FieldFor(d, m.Name.Str)
					if c == nil {
						if fb := tv.Fallback(d); fb != nil && fb.K == "map" {
							c = fb.Elem
						}
					}
				case "map":
					c = d.Elem
				}
				walk(c, m.Value, ptr+"/"+m.Name.Str)
			}
		}
		walk(d, root, "")
		for p := range seen {
			count[p]++
		}
	}
	for _, n := range count {
		if n > 1 {
			return true
		}
	}
	return false
}

// ---- bounded-exhaustive catalogue -------------------------------------------

var catalogue = []*tv.Desc{
	{K: "struct", ID: 1, Fields: []tv.Field{{Name: "P", T: &tv.Desc{K: "int"}}, {Name: "Q", T: &tv.Desc{K: "string"}}}},
	{K: "map", Key: &tv.Desc{K: "string"}, Elem: &tv.Desc{K: "int"}},
	{K: "map", Key: &tv.Desc{K: "string"}, Elem: &tv.Desc{K: "struct", ID: 2, Fields: []tv.Field{{Name: "P", T: &tv.Desc{K: "int"}}, {Name: "Q", T: &tv.Desc{K: "int"}}}}},
	{K: "map", Key: &tv.Desc{K: "string"}, Elem: &tv.Desc{K: "slice", Elem: &tv.Desc{K: "int"}}},
	{K: "map", Key: &tv.Desc{K: "string"}, Elem: &tv.Desc{K: "ptr", Elem: &tv.Desc{K: "struct", ID: 3, Fields: []tv.Field{{Name: "P", T: &tv.Desc{K: "int"}}, {Name: "Q", T: &tv.Desc{K: "int"}}}}}},
	{K: "ptr", Elem: &tv.Desc{K: "struct", ID: 4, Fields: []tv.Field{{Name: "P", T: &tv.Desc{K: "int"}}, {Name: "Q", T: &tv.Desc{K: "int"}}}}},
	{K: "ptr", Elem: &tv.Desc{K: "ptr", Elem: &tv.Desc{K: "map", Key: &tv.Desc{K: "string"}, Elem: &tv.Desc{K: "int"}}}},
	{K: "slice", Elem: &tv.Desc{K: "int"}},
	{K: "slice", Elem: &tv.Desc{K: "struct", ID: 5, Fields: []tv.Field{{Name: "P", T: &tv.Desc{K: "int"}}, {Name: "Q", T: &tv.Desc{K: "int"}}}}},
	{K: "slice", Elem: &tv.Desc{K: "map", Key: &tv.Desc{K: "string"}, Elem: &tv.Desc{K: "int"}}},
	{K: "slice", Elem: &tv.Desc{K: "ptr", Elem: &tv.Desc{K: "int"}}},
	{K: "slice", Elem: &tv.Desc{K: "slice", Elem: &tv.Desc{K: "int"}}},
	{K: "array", Len: 2, Elem: &tv.Desc{K: "struct", ID: 6, Fields: []tv.Field{{Name: "P", T: &tv.Desc{K: "int"}}, {Name: "Q", T: &tv.Desc{K: "int"}}}}},
	{K: "array", Len: 2, Elem: &tv.Desc{K: "ptr", Elem: &tv.Desc{K: "int"}}},
	{K: "any"},
	{K: "slice", Elem: &tv.Desc{K: "any"}},
	{K: "map", Key: &tv.Desc{K: "string"}, Elem: &tv.Desc{K: "any"}},
	{K: "map", Key: &tv.Desc{K: "int"}, Elem: &tv.Desc{K: "ptr", Elem: &tv.Desc{K: "slice", Elem: &tv.Desc{K: "int"}}}},
	{K: "struct", ID: 7, Fields: []tv.Field{{Name: "E", Embedded: true, T: &tv.Desc{K: "ptr", Elem: &tv.Desc{K: "struct", ID: 8, Fields: []tv.Field{{Name: "P", T: &tv.Desc{K: "int"}}}}}}, {Name: "Q", T: &tv.Desc{K: "int"}}}},
	{K: "bytes"},
	{K: "raw"},
	{K: "ptr", Elem: &tv.Desc{K: "int"}},
	// pointers, maps and slices three and four levels down
	mapOf(mapOf(mapOf(&tv.Desc{K: "ptr", Elem: pq(20)}))),
	mapOf(mapOf(&tv.Desc{K: "ptr", Elem: mapOf(pq(21))})),
	mapOf(mapOf(mapOf(mapOf(&tv.Desc{K: "int"})))),
	mapOf(&tv.Desc{K: "ptr", Elem: mapOf(&tv.Desc{K: "ptr", Elem: mapOf(&tv.Desc{K: "ptr", Elem: pq(22)})})}),
	mapOf(mapOf(mapOf(&tv.Desc{K: "slice", Elem: &tv.Desc{K: "int"}}))),
	mapOf(mapOf(mapOf(&tv.Desc{K: "any"}))),
}

func mapOf(e *tv.Desc) *tv.Desc { return &tv.Desc{K: "map", Key: &tv.Desc{K: "string"}, Elem: e} }
func pq(id int) *tv.Desc {
	return &tv.Desc{K: "struct", ID: id, Fields: []tv.Field{{Name: "P", T: &tv.Desc{K: "int"}}, {Name: "Q", T: &tv.Desc{K: "int"}}}}
}

// shapes of JSON values placed at the top level and under one member "k" / "1".
var shapes = []string{`null`, `0`, `7`, `"s"`, `true`, `[]`, `[1]`, `[1,2]`, `[{"P":1},{"Q":2}]`, `[[1],[2,3]]`, `[null,1]`, `{}`, `{"P":1}`, `{"Q":2}`, `{"P":3,"Q":4}`, `{"P":null}`,
	`{"k":1}`, `{"k":{"P":1}}`, `{"k":{"Q":2}}`, `{"k":[1,2]}`, `{"k":[3]}`, `{"k":null}`, `{"j":{"P":5}}`, `{"1":[1,2]}`, `{"1":[3]}`, `{"1":null}`, `"AQI="`, `""`, `{"k":{"k":{"P":1}}}`, `{"k":{"k":{"Q":2}}}`, `[{"Q":7}]`, `[{"P":8},7]`,
	`{"k":{"k":{"k":{"P":1}}}}`, `{"k":{"k":{"k":{"Q":2}}}}`, `{"k":{"k":{"k":null}}}`, `{"k":{"k":{"k":{"k":3}}}}`, `{"k":{"k":{"k":{"j":4}}}}`, `{"k":{"k":{"k":[5]}}}`}

func enumCatalogue(e *rt.Env, yield func(Case) bool) {
	var idx, total int64
	complete := true
outer:
	for _, d := range catalogue {
		for _, j1 := range shapes {
			for _, j2 := range shapes {
				idx++
				if !e.Mine(idx) {
					continue
				}
				total++
				if !yield(Case{Desc: d, Texts: [][]byte{[]byte(j1), []byte(j2)}}) {
					complete = false
					break outer
				}
				// three-step chains through a middle null / empty object
				for _, mid := range []string{`null`, `{}`} {
					total++
					if !yield(Case{Desc: d, Texts: [][]byte{[]byte(j1), []byte(mid), []byte(j2)}}) {
						complete = false
						break outer
					}
				}
			}
		}
	}
	e.Rec.AddPart(cov.Part{Name: fmt.Sprintf("%d catalogue types x all ordered pairs of %d JSON shapes (x {direct, via null, via {}})", len(catalogue), len(shapes)), Size: total, Complete: complete})
}

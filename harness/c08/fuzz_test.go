package c08

import (
	"testing"

	"verif/harness/rt"
)

// FuzzDup lets the native fuzzer drive the duplicate-injection generator (coverage-guided).
func FuzzDup(f *testing.F) {
	rt.FuzzRapid(f, "C08", "dup-unmarshal", genDup, RunDup)
}

package c08

import (
	"fmt"
	"reflect"
	"strings"

	"github.com/go-json-experiment/json"
	"github.com/go-json-experiment/json/jsontext"
	"pgregory.net/rapid"

	"verif/harness/cov"
	"verif/harness/rt"
	"verif/harness/tv"
)

// WideCase is an object with many members in which one name may repeat an
// earlier one at a boundary-biased position (around the 64-name and 1 KiB
// thresholds of the decoder's name tracking), unmarshaled into a target kind
// that has to detect the duplicate by itself or through the decoder.
type WideCase struct {
	Target int  `json:"target"` // 0 any, 1 jsontext.Value, 2 struct skipping unknown members, 3 struct with raw fallback, 4 struct with map fallback, 5 map[string]int, 6 nested in a skipped value, 7 struct with the names as fields
	N      int  `json:"n"`
	Long   bool `json:"long"`
	Src    int  `json:"src"`
	Dst    int  `json:"dst"`
	Dup    bool `json:"dup"`
	Spell  int  `json:"spell"`
}

func genWide(t *rapid.T) WideCase {
	c := WideCase{Target: rapid.IntRange(0, 7).Draw(t, "target"), Long: rapid.Bool().Draw(t, "long"), Dup: rapid.IntRange(0, 3).Draw(t, "dup?") != 0, Spell: rapid.IntRange(0, 2).Draw(t, "spell")}
	c.N = rapid.SampledFrom([]int{3, 22, 23, 24, 63, 64, 65, 66, 67, 68, 70, 130, 200}).Draw(t, "n")
	idx := func(label string) int {
		i := rapid.SampledFrom([]int{0, 1, 21, 22, 23, 62, 63, 64, 65, 66, 67, c.N - 2, c.N - 1}).Draw(t, label)
		if rapid.IntRange(0, 3).Draw(t, label+"rnd") == 0 {
			i = rapid.IntRange(0, c.N-1).Draw(t, label+"any")
		}
		return max(0, min(i, c.N-1))
	}
	c.Src, c.Dst = idx("src"), idx("dst")
	if c.Dst < c.Src {
		c.Src, c.Dst = c.Dst, c.Src
	}
	return c
}

func (c *WideCase) names() []string {
	names := make([]string, c.N)
	for i := range names {
		if c.Long {
			names[i] = fmt.Sprintf("Name%03d%s", i, strings.Repeat("x", 40))
		} else {
			names[i] = fmt.Sprintf("K%d", i)
		}
	}
	return names
}

// RunWide decides one wide-object case.
func RunWide(c WideCase) error {
	if c.N < 2 || c.N > 400 || c.Src < 0 || c.Dst >= c.N || c.Src > c.Dst {
		return nil
	}
	names := c.names()
	dup := c.Dup && c.Src != c.Dst
	var sb strings.Builder
	sb.WriteByte('{')
	for i, nm := range names {
		if i > 0 {
			sb.WriteByte(',')
		}
		lit := fmt.Sprintf("%q", nm)
		if dup && i == c.Dst {
			lit = fmt.Sprintf("%q", names[c.Src])
			switch c.Spell {
			case 1:
				lit = fmt.Sprintf("\"\\u%04x%s\"", names[c.Src][0], names[c.Src][1:])
			case 2:
				s := names[c.Src]
				lit = fmt.Sprintf("\"%s\\u%04X\"", s[:len(s)-1], s[len(s)-1])
			}
		}
		sb.WriteString(lit)
		sb.WriteString(":1")
	}
	sb.WriteByte('}')
	text := sb.String()
	var target any
	switch c.Target {
	case 0:
		target = new(any)
	case 1:
		target = new(jsontext.Value)
	case 2:
		target = new(struct{ A int })
	case 3:
		target = new(struct {
			A int
			X jsontext.Value `json:",embed"`
		})
	case 4:
		target = new(struct {
			A int
			X map[string]int `json:",embed"`
		})
	case 5:
		target = new(map[string]int)
	case 6:
		text = `{"A":1,"skipped":[` + text + `]}`
		target = new(struct{ A int })
	default:
		d := &tv.Desc{K: "struct", ID: 77}
		for i, nm := range names {
			if dup && i == c.Dst {
				continue
			}
			d.Fields = append(d.Fields, tv.Field{Name: nm, T: &tv.Desc{K: "int"}})
		}
		typ, err := tv.Build(d)
		if err != nil {
			return nil
		}
		target = reflect.New(typ).Interface()
	}
	rec.Eval()
	rec.Class(fmt.Sprintf("wide-target-%d", c.Target))
	if dup {
		fp := cov.FPs("wide", fmt.Sprint(c))
		rec.NonTrivial(fp)
		rec.Sample(fp, func() any {
			return map[string]any{"wide": fmt.Sprintf("%+v", c), "text_prefix": text[:min(len(text), 120)]}
		})
	}
	var err error
	if p := rt.Guard(func() { err = json.Unmarshal([]byte(text), target) }); p != nil {
		return fmt.Errorf("Unmarshal panicked: %v\ncase %+v", p, c)
	}
	if dup && err == nil {
		return fmt.Errorf("duplicate member name %q (members %d and %d of %d) accepted under default options by target kind %d\ncase %+v", names[c.Src], c.Src, c.Dst, c.N, c.Target, c)
	}
	if !dup && err != nil {
		return fmt.Errorf("object with %d distinct names rejected by target kind %d: %v\ncase %+v", c.N, c.Target, err, c)
	}
	return nil
}

package c08

import (
	"bytes"
	"fmt"
	"reflect"

	"github.com/go-json-experiment/json"
	"github.com/go-json-experiment/json/jsontext"
	"pgregory.net/rapid"

	"verif/harness/cov"
	"verif/harness/ref"
	"verif/harness/rt"
	"verif/harness/tv"
)

// UTF8Case injects an ill-formed fragment into one string of a fitting text.
type UTF8Case struct {
	Desc  *tv.Desc `json:"desc"`
	Base  []byte   `json:"base"`
	Str   int      `json:"str"`    // index of the string node (names and values, document order)
	Frag  []byte   `json:"frag"`   // bytes inserted into the literal body
	AtEnd bool     `json:"at_end"` // insert before the closing quote instead of after the opening one
}

var badFrags = [][]byte{[]byte("\xff"), []byte("\x80"), []byte("\xc0\x80"), []byte("\xed\xa0\x80"), []byte("\xf4\x90\x80\x80"), []byte("\xe2\x82"), []byte("\xf0\x9f\x98"),
	[]byte(`\ud800`), []byte(`\udc00`), []byte(`\udfff`), []byte(`\uDBFF`), []byte(`\ud800A`), []byte(`\udc00\ud800`), []byte("\xc2"), []byte("a\xfeb")}

func genUTF8(t *rapid.T) UTF8Case {
	cfg := tv.Cfg{MaxDepth: rapid.IntRange(1, 4).Draw(t, "maxdepth"), Embedding: true, Raw: true, Fallbacks: true, Tags: true,
		MapKeys: []string{"string", "string", "string", "int"}, Leaves: []string{"string", "string", "any", "bool", "int", "bytes"},
		TopStruct: rapid.IntRange(0, 3).Draw(t, "topstruct") != 0, MaxFields: 4}
	c := UTF8Case{Desc: tv.GenDesc(t, cfg)}
	stripUnmodelled(c.Desc)
	c.Base = tv.GenJSON(t, c.Desc, tv.JSONCfg{Extra: true, PresentPc: 85})
	c.Str = rapid.IntRange(0, 30).Draw(t, "str")
	c.Frag = rapid.SampledFrom(badFrags).Draw(t, "frag")
	c.AtEnd = rapid.Bool().Draw(t, "atend")
	return c
}

func stringNodes(n *ref.Node, isName bool, out *[]*ref.Node) {
	switch n.Kind {
	case '"':
		*out = append(*out, n)
	case '[':
		for _, e := range n.Elems {
			stringNodes(e, false, out)
		}
	case '{':
		for _, m := range n.Members {
			*out = append(*out, m.Name)
			stringNodes(m.Value, false, out)
		}
	}
}

// RunUTF8 decides one ill-formed-UTF-8 injection.
func RunUTF8(c UTF8Case) error {
	typ, err := tv.Build(c.Desc)
	if err != nil {
		return nil
	}
	root, perr := ref.Parse(c.Base, ref.Opt{})
	if perr != nil {
		return nil
	}
	var strs []*ref.Node
	stringNodes(root, false, &strs)
	if len(strs) == 0 {
		return nil
	}
	s := strs[c.Str%len(strs)]
	pos := s.Start + 1
	if c.AtEnd {
		pos = s.End - 1
	}
	text := append(append(append([]byte{}, c.Base[:pos]...), c.Frag...), c.Base[pos:]...)
	// the injection must make the text invalid only because of UTF-8
	if ref.Valid(text, ref.Opt{}) {
		return nil
	}
	loose, lerr := ref.Parse(text, ref.Opt{AllowInvalidUTF8: true})
	if lerr != nil {
		return nil // e.g. the sanitised name collides with another name
	}
	// sanitised text: every string literal re-quoted from its decoded (U+FFFD substituted) text
	var nodes []*ref.Node
	stringNodes(loose, false, &nodes)
	san := make([]byte, 0, len(text)+8)
	last := 0
	for _, n := range nodes {
		if n.StrValid {
			continue
		}
		q, _ := ref.Quote(n.Str, false, false)
		san = append(san, text[last:n.Start]...)
		san = append(san, q...)
		last = n.End
	}
	san = append(san, text[last:]...)
	if !ref.Valid(san, ref.Opt{}) {
		return nil
	}
	rec.Eval()
	sig := c.Desc.Sig()
	depth := 0
	inRaw := false
	tv.WalkJSON(c.Desc, root, func(p tv.JSONPos) {
		if p.N.Start <= s.Start && s.End <= p.N.End {
			if p.Depth > depth {
				depth = p.Depth
			}
			if p.InRaw {
				inRaw = true // a jsontext.Value destination keeps the text verbatim
			}
			if p.D != nil && p.D.K == "struct" && p.N.Kind == '{' {
				if fb := tv.Fallback(p.D); fb != nil && fb.K == "raw" {
					inRaw = true // member names of unknown members are kept verbatim too
				}
			}
		}
	})
	fp := cov.FP([]byte(sig), text)
	if depth >= 2 || c.AtEnd {
		rec.NonTrivial(fp)
		rec.Sample(fp, func() any {
			return map[string]any{"type": sig, "text": fmt.Sprintf("%q", text), "sanitised": string(san)}
		})
	}
	if bytes.HasPrefix(c.Frag, []byte(`\u`)) {
		rec.Class("lone-surrogate-escape")
	} else {
		rec.Class("ill-formed-bytes")
	}

	v1 := reflect.New(typ)
	var e1 error
	if p := rt.Guard(func() { e1 = json.Unmarshal(text, v1.Interface()) }); p != nil {
		return fmt.Errorf("Unmarshal panicked: %v\ntext %q", p, text)
	}
	if e1 == nil {
		return fmt.Errorf("ill-formed UTF-8 accepted under default options\ntext %q\ntype %s", text, sig)
	}
	v2 := reflect.New(typ)
	var e2 error
	if p := rt.Guard(func() { e2 = json.Unmarshal(text, v2.Interface(), jsontext.AllowInvalidUTF8(true)) }); p != nil {
		return fmt.Errorf("Unmarshal (AllowInvalidUTF8) panicked: %v\ntext %q", p, text)
	}
	v3 := reflect.New(typ)
	e3 := json.Unmarshal(san, v3.Interface())
	if (e2 == nil) != (e3 == nil) {
		return fmt.Errorf("AllowInvalidUTF8(true) on the text gives err=%v but default options on the sanitised text give err=%v\ntext %q\nsanitised %q\ntype %s", e2, e3, text, san, sig)
	}
	if e2 != nil {
		rec.Class("both-fail-semantically")
		return nil
	}
	if inRaw {
		rec.Class("inside-raw-destination(values not compared)")
		return nil
	}
	if d := tv.Equal(v2.Elem(), v3.Elem(), tv.EqOpt{}); d != "" {
		return fmt.Errorf("AllowInvalidUTF8(true) result differs from the sanitised-text result at %s\ntext %q\nsanitised %q\ntype %s", d, text, san, sig)
	}
	rec.Class("allowutf8-equals-sanitised")
	return nil
}

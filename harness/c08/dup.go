// Package c08 decides property C08: ambiguous input (duplicate names, invalid
// UTF-8) is rejected by default and handled as documented when allowed.
package c08

import (
	"bytes"
	"errors"
	"fmt"
	"io"
	"reflect"
	"strings"
	"testing/iotest"
	"unicode"

	"github.com/go-json-experiment/json"
	"github.com/go-json-experiment/json/jsontext"
	"pgregory.net/rapid"

	"verif/harness/cov"
	"verif/harness/ref"
	"verif/harness/rt"
	"verif/harness/tv"
)

var rec = cov.New()

var popt = ref.Opt{AllowInvalidUTF8: true, AllowDup: true}

// DupCase is a duplicate-name injection.
type DupCase struct {
	Desc      *tv.Desc `json:"desc"`
	Base      []byte   `json:"base"`    // dup-free text fitting the type
	Obj       int      `json:"obj"`     // index (in walk order) of the object receiving the duplicate
	Member    int      `json:"member"`  // index of the member being duplicated
	Variant   int      `json:"variant"` // how the duplicate name is spelled
	After     int      `json:"after"`   // the duplicate is inserted after this member index (-1: first)
	SameValue bool     `json:"same_value"`
	Value     []byte   `json:"value,omitempty"` // value of the duplicate when !SameValue
	CaseOpt   bool     `json:"case_opt"`        // MatchCaseInsensitiveNames(true)
	Pre       []byte   `json:"pre,omitempty"`   // optional text unmarshaled into the target first (pre-populated target)
}

func genDup(t *rapid.T) DupCase {
	cfg := tv.Cfg{MaxDepth: rapid.IntRange(1, 5).Draw(t, "maxdepth"), Embedding: true, Raw: true, Fallbacks: true, Tags: true, BigStructs: true,
		MapKeys:   []string{"string", "string", "int", "int8", "uint", "float64", "float32", "int64"},
		TopStruct: rapid.IntRange(0, 4).Draw(t, "topstruct") != 0, MaxFields: 4}
	if rapid.IntRange(0, 2).Draw(t, "mapcentric") == 0 {
		// map-centric shapes: numeric and string keyed maps at the top and below
		cfg.TopStruct = false
		cfg.Containers = []string{"map", "map", "map", "struct", "slice", "ptr", "any"}
		cfg.MapKeys = []string{"float64", "float32", "int", "string", "uint8", "float64"}
	}
	c := DupCase{Desc: tv.GenDesc(t, cfg)}
	stripUnmodelled(c.Desc)
	c.Base = tv.GenJSON(t, c.Desc, tv.JSONCfg{Nulls: true, Extra: true, PresentPc: 80})
	c.Obj = rapid.IntRange(0, 40).Draw(t, "obj")
	c.Member = rapid.IntRange(0, 8).Draw(t, "member")
	c.Variant = rapid.IntRange(0, 7).Draw(t, "variant")
	c.After = rapid.IntRange(-1, 8).Draw(t, "after")
	c.SameValue = rapid.Bool().Draw(t, "samevalue")
	if !c.SameValue {
		c.Value = []byte(rapid.SampledFrom([]string{"null", "0", "1", `"s"`, `""`, "true", "[]", "[1]", "{}", `{"a":1}`, `{"P":2}`, `"AQ=="`}).Draw(t, "value"))
	}
	c.CaseOpt = rapid.IntRange(0, 3).Draw(t, "caseopt") == 0
	if rapid.IntRange(0, 2).Draw(t, "prepopulate") == 0 {
		c.Pre = tv.GenJSON(t, c.Desc, tv.JSONCfg{PresentPc: 70})
	}
	return c
}

// stripUnmodelled removes tag options that the text generator and the merge
// model do not handle (string, format) and keeps names, omit*, case:*, embed.
func stripUnmodelled(d *tv.Desc) {
	d.Walk(func(x *tv.Desc) {
		for i := range x.Fields {
			parts := strings.Split(x.Fields[i].Tag, ",")
			var keep []string
			for j, p := range parts {
				if j > 0 && (p == "string" || strings.HasPrefix(p, "format:")) {
					continue
				}
				keep = append(keep, p)
			}
			x.Fields[i].Tag = strings.Join(keep, ",")
		}
	})
}

// respell returns a different literal for the same decoded name.
func respell(lit []byte, how int) []byte {
	s, _, ok := ref.Unquote(lit)
	if !ok || len(s) == 0 {
		return lit
	}
	r := []rune(s)
	esc := func(c rune, upper bool) string {
		if c > 0xffff {
			c -= 0x10000
			hi, lo := 0xd800+(c>>10), 0xdc00+(c&0x3ff)
			if upper {
				return fmt.Sprintf("\\u%04X\\u%04X", hi, lo)
			}
			return fmt.Sprintf("\\u%04x\\u%04x", hi, lo)
		}
		if upper {
			return fmt.Sprintf("\\u%04X", c)
		}
		return fmt.Sprintf("\\u%04x", c)
	}
	q := func(x string) string { b, _ := ref.Quote(x, false, false); return b[1 : len(b)-1] }
	switch how {
	case 1:
		return []byte(`"` + esc(r[0], false) + q(string(r[1:])) + `"`)
	case 2:
		return []byte(`"` + q(string(r[:len(r)-1])) + esc(r[len(r)-1], true) + `"`)
	}
	return lit
}

// foldVariant returns a name that differs from s but folds to the same name
// (case changes, '_' / '-' inserted).
func foldVariant(s string, how int) string {
	if s == "" {
		return "_"
	}
	r := []rune(s)
	switch how {
	case 0:
		for i, c := range r {
			if unicode.IsLower(c) {
				r[i] = unicode.ToUpper(c)
				return string(r)
			}
			if unicode.IsUpper(c) {
				r[i] = unicode.ToLower(c)
				return string(r)
			}
		}
		return s + "_"
	case 1:
		return "_" + s
	case 2:
		return s + "-"
	default:
		return strings.ToUpper(s) + "_"
	}
}

func fold(s string) string {
	var sb strings.Builder
	for _, c := range s {
		if c == '_' || c == '-' {
			continue
		}
		sb.WriteRune(unicode.ToLower(unicode.ToUpper(c)))
	}
	return sb.String()
}

// numVariant re-spells a numeric map key.
func numVariant(key string, float bool, how int) (string, bool) {
	if !float || key == "0" || key == "-0" {
		return "", false
	}
	switch how % 3 {
	case 0:
		if !strings.ContainsAny(key, ".eE") {
			return key + ".0", true
		}
	case 1:
		if !strings.ContainsAny(key, "eE") {
			return key + "e0", true
		}
	case 2:
		if !strings.ContainsAny(key, ".eE") {
			return key + "0e-1", true
		}
	}
	return "", false
}

type target struct {
	pos  tv.JSONPos
	kind string // struct, map, any, raw, skipped
}

func objects(d *tv.Desc, root *ref.Node) []target {
	var out []target
	tv.WalkJSON(d, root, func(p tv.JSONPos) {
		if p.N.Kind != '{' || len(p.N.Members) == 0 {
			return
		}
		k := "skipped"
		switch {
		case p.InRaw:
			k = "raw"
		case p.D == nil:
			k = "skipped"
		case p.D.K == "struct", p.D.K == "map", p.D.K == "any":
			k = p.D.K
		default:
			k = "mismatch" // object where the type wants something else: the base text would not fit
		}
		out = append(out, target{p, k})
	})
	return out
}

func fieldOf(d *tv.Desc, name string) *tv.Field {
	// field (with tag info) that an exact name resolves to, following embedding
	var found *tv.Field
	var walk func(x *tv.Desc, depth int) bool
	best := 1 << 30
	walk = func(x *tv.Desc, depth int) bool {
		for i := range x.Fields {
			fl := &x.Fields[i]
			if fl.Embedded || fl.HasOpt("embed") {
				inner := fl.T
				for inner.K == "ptr" {
					inner = inner.Elem
				}
				if inner.K == "struct" {
					walk(inner, depth+1)
				}
				continue
			}
			if n, ok := fl.JSONName(); ok && n == name && depth < best {
				best, found = depth, fl
			}
		}
		return false
	}
	walk(d, 0)
	return found
}

func allNames(d *tv.Desc) []string {
	var out []string
	var walk func(x *tv.Desc)
	walk = func(x *tv.Desc) {
		for i := range x.Fields {
			fl := &x.Fields[i]
			if fl.Embedded || fl.HasOpt("embed") {
				inner := fl.T
				for inner.K == "ptr" {
					inner = inner.Elem
				}
				if inner.K == "struct" {
					walk(inner)
				}
				continue
			}
			if n, ok := fl.JSONName(); ok {
				out = append(out, n)
			}
		}
	}
	walk(d)
	return out
}

// build constructs the injected text and, when computable, the merged text.
type built struct {
	text      []byte
	merged    []byte // nil if not computable (raw / skipped destinations)
	kind      string
	depth     int
	respelled bool
	why       string
}

func build(c *DupCase) (*built, bool) {
	root, perr := ref.Parse(c.Base, ref.Opt{})
	if perr != nil {
		return nil, false
	}
	objs := objects(c.Desc, root)
	if len(objs) == 0 {
		return nil, false
	}
	tg := objs[c.Obj%len(objs)]
	if tg.kind == "mismatch" {
		return nil, false
	}
	o := tg.pos.N
	mi := c.Member % len(o.Members)
	m := o.Members[mi]
	nameLit := c.Base[m.Name.Start:m.Name.End]
	newLit := nameLit
	b := &built{kind: tg.kind, depth: tg.pos.Depth}
	var childDesc *tv.Desc
	switch tg.kind {
	case "struct":
		childDesc, _ = tv.FieldFor(tg.pos.D, m.Name.Str)
		fl := fieldOf(tg.pos.D, m.Name.Str)
		insensitive := fl != nil && !fl.HasOpt("case:strict") && (fl.HasOpt("case:ignore") || c.CaseOpt)
		if c.Variant >= 3 && insensitive {
			v := foldVariant(m.Name.Str, c.Variant-3)
			// the variant must not be the exact name of another field nor fold to another field's name
			ok := v != m.Name.Str
			for _, n := range allNames(tg.pos.D) {
				if n == v || (n != m.Name.Str && fold(n) == fold(v)) {
					ok = false
				}
			}
			for _, om := range o.Members {
				if om.Name.Str == v {
					ok = false
				}
			}
			if ok {
				q, _ := ref.Quote(v, false, false)
				newLit = []byte(q)
				b.why = "folded-variant"
			}
		}
		if childDesc == nil {
			if fb := tv.Fallback(tg.pos.D); fb != nil {
				b.kind = "fallback-" + fb.K
				if fb.K == "map" {
					childDesc = fb.Elem
				}
			} else {
				b.kind = "unknown-member"
			}
		}
	case "map":
		childDesc = tg.pos.D.Elem
		if tv.IsFloat(tg.pos.D.Key.K) && c.Variant >= 3 {
			if v, ok := numVariant(m.Name.Str, true, c.Variant); ok {
				dupe := false
				for _, om := range o.Members {
					if om.Name.Str == v {
						dupe = true
					}
				}
				if !dupe {
					newLit = []byte(`"` + v + `"`)
					b.why = "numeric-variant"
				}
			}
		}
		b.kind = "map-" + tg.pos.D.Key.K
	case "any":
		childDesc = tg.pos.D
	}
	if bytes.Equal(newLit, nameLit) && c.Variant >= 1 && c.Variant <= 2 {
		newLit = respell(nameLit, c.Variant)
		if !bytes.Equal(newLit, nameLit) {
			b.why = "escape-respelled"
		}
	}
	b.respelled = !bytes.Equal(newLit, nameLit)
	val := c.Base[m.Value.Start:m.Value.End]
	if !c.SameValue {
		val = c.Value
	}
	// insertion point
	after := c.After
	if after >= len(o.Members) {
		after = len(o.Members) - 1
	}
	var ins int
	var piece []byte
	if after < 0 {
		ins = o.Members[0].Name.Start
		piece = append(append(append([]byte{}, newLit...), ':'), val...)
		piece = append(piece, ',')
	} else {
		ins = o.Members[after].Value.End
		piece = append([]byte{','}, newLit...)
		piece = append(append(piece, ':'), val...)
	}
	b.text = append(append(append([]byte{}, c.Base[:ins]...), piece...), c.Base[ins:]...)

	// merged text: the earlier of the two keeps its place, with the merged value
	if tg.pos.InRaw || tg.kind == "skipped" || tg.kind == "raw" || strings.HasPrefix(b.kind, "fallback-raw") {
		return b, true
	}
	valNode, verr := ref.Parse(val, popt)
	if verr != nil {
		return nil, false
	}
	mg := &tv.Merger{}
	var mergedVal []byte
	if after < mi {
		// duplicate comes first, the original merges into it
		mergedVal = mg.Merge(childDesc, val, valNode, c.Base, m.Value)
	} else {
		mergedVal = mg.Merge(childDesc, c.Base, m.Value, val, valNode)
	}
	if mg.Ambiguous || mg.RawFallback {
		return b, true
	}
	b.merged = append(append(append([]byte{}, c.Base[:m.Value.Start]...), mergedVal...), c.Base[m.Value.End:]...)
	return b, true
}

func (c *DupCase) opts(extra ...json.Options) []json.Options {
	o := []json.Options{json.MatchCaseInsensitiveNames(c.CaseOpt)}
	return append(o, extra...)
}

// RunDup decides one duplicate-name case.
func RunDup(c DupCase) error {
	typ, err := tv.Build(c.Desc)
	if err != nil {
		return nil
	}
	b, ok := build(&c)
	if !ok {
		return nil
	}
	// the base must be acceptable on its own, otherwise the injection proves nothing
	base := reflect.New(typ)
	if err := json.Unmarshal(c.Base, base.Interface(), c.opts()...); err != nil {
		rec.Class("base-rejected(skipped)")
		return nil
	}
	rec.Eval()
	sig := c.Desc.Sig()
	rec.Class("target-" + b.kind)
	if b.why != "" {
		rec.Class(b.why)
	}
	if b.depth >= 2 || b.respelled {
		fp := cov.FP([]byte(sig), b.text, []byte{byte(c.Variant)})
		rec.NonTrivial(fp)
		rec.Sample(fp, func() any {
			return map[string]any{"type": sig, "text": string(b.text), "target": b.kind, "spelling": b.why, "merged": string(b.merged)}
		})
	}

	// 1. default options: must be rejected
	v1 := reflect.New(typ)
	var e1 error
	if p := rt.Guard(func() { e1 = json.Unmarshal(b.text, v1.Interface(), c.opts()...) }); p != nil {
		return fmt.Errorf("Unmarshal panicked: %v\ntext %s\ntype %s", p, b.text, sig)
	}
	if e1 == nil {
		return fmt.Errorf("duplicate member accepted under default options (target %s, %s)\ntext %s\nbase %s\ntype %s\ncase-insensitive option %v", b.kind, b.why, b.text, c.Base, sig, c.CaseOpt)
	}
	if errors.Is(e1, jsontext.ErrDuplicateName) {
		rec.Class("err-is-ErrDuplicateName")
	}

	// 1a. the same text delivered one byte at a time (the two spellings of the name are then unescaped
	// across buffer refills) and in two halves: rejection must not depend on how the text arrives
	for _, rd := range []func() io.Reader{
		func() io.Reader { return iotest.OneByteReader(bytes.NewReader(b.text)) },
		func() io.Reader {
			return io.MultiReader(bytes.NewReader(b.text[:len(b.text)/2]), bytes.NewReader(b.text[len(b.text)/2:]))
		},
	} {
		vs := reflect.New(typ)
		var es error
		if p := rt.Guard(func() { es = json.UnmarshalRead(rd(), vs.Interface(), c.opts()...) }); p != nil {
			return fmt.Errorf("UnmarshalRead panicked: %v\ntext %s\ntype %s", p, b.text, sig)
		}
		if es == nil {
			return fmt.Errorf("duplicate member accepted under default options by UnmarshalRead over a reader delivering the text in pieces, rejected by Unmarshal (target %s, %s)\ntext %s\ntype %s", b.kind, b.why, b.text, sig)
		}
	}

	// 1b. the same into a pre-populated target (maps and structs already hold entries)
	if c.Pre != nil {
		vp := reflect.New(typ)
		if err := json.Unmarshal(c.Pre, vp.Interface(), c.opts()...); err == nil {
			rec.Class("pre-populated-target")
			var ep error
			if p := rt.Guard(func() { ep = json.Unmarshal(b.text, vp.Interface(), c.opts()...) }); p != nil {
				return fmt.Errorf("Unmarshal into a pre-populated target panicked: %v\ntext %s\ntype %s", p, b.text, sig)
			}
			if ep == nil {
				return fmt.Errorf("duplicate member accepted under default options when the target was pre-populated (target %s, %s)\npre  %s\ntext %s\ntype %s", b.kind, b.why, c.Pre, b.text, sig)
			}
		}
	}

	// 2. AllowDuplicateNames(true)
	v2 := reflect.New(typ)
	var e2 error
	if p := rt.Guard(func() { e2 = json.Unmarshal(b.text, v2.Interface(), c.opts(jsontext.AllowDuplicateNames(true))...) }); p != nil {
		return fmt.Errorf("Unmarshal (AllowDuplicateNames) panicked: %v\ntext %s\ntype %s", p, b.text, sig)
	}
	if e2 != nil {
		if c.SameValue && b.merged != nil && !hasAnyConflict(c.Desc) {
			return fmt.Errorf("AllowDuplicateNames(true): a duplicate repeating the original value is rejected: %v\ntext %s\ntype %s", e2, b.text, sig)
		}
		rec.Class("allowdup-fails(not compared)")
		return nil
	}
	if b.merged == nil {
		rec.Class("allowdup-ok(no merge model)")
		return nil
	}
	v3 := reflect.New(typ)
	if err := json.Unmarshal(b.merged, v3.Interface(), c.opts()...); err != nil {
		rec.Class("merged-text-rejected(not compared)")
		return nil
	}
	if d := tv.Equal(v2.Elem(), v3.Elem(), tv.EqOpt{}); d != "" {
		return fmt.Errorf("AllowDuplicateNames(true) result differs from the later-wins/merge model at %s\ntext   %s\nmerged %s\ntype %s", d, b.text, b.merged, sig)
	}
	rec.Class("allowdup-equals-merge-model")
	return nil
}

// hasAnyConflict: with interface-typed destinations a repeated value can
// legitimately conflict with what the first occurrence left (e.g. an object
// merged into a non-nil interface holding another kind is impossible for the
// same value, but nested anys inside arrays are replaced) - repeating the same
// value never conflicts, so this is always false; kept for clarity.
func hasAnyConflict(*tv.Desc) bool { return false }

// ---- catalogue ------------------------------------------------------------------

func sd(id int, fs ...tv.Field) *tv.Desc { return &tv.Desc{K: "struct", ID: id, Fields: fs} }
func fd(name, tag string, t *tv.Desc) tv.Field {
	return tv.Field{Name: name, Tag: tag, HasTag: tag != "", T: t}
}

var (
	tInt = &tv.Desc{K: "int"}
	tStr = &tv.Desc{K: "string"}
	tAny = &tv.Desc{K: "any"}
	tRaw = &tv.Desc{K: "raw"}
)

func mapOf(k string, e *tv.Desc) *tv.Desc { return &tv.Desc{K: "map", Key: &tv.Desc{K: k}, Elem: e} }

func bigStruct() *tv.Desc {
	d := &tv.Desc{K: "struct", ID: 90}
	for i := 0; i < 130; i++ {
		d.Fields = append(d.Fields, tv.Field{Name: fmt.Sprintf("F%d", i), T: tInt})
	}
	return d
}

type catEntry struct {
	d    *tv.Desc
	base string
}

var catalogue = []catEntry{
	{sd(1, fd("A", "", tInt), fd("B", "", tStr)), `{"A":1,"B":"x"}`},
	{sd(2, fd("A", "a,case:ignore", tInt), fd("B", "", tStr)), `{"a":1,"B":"x"}`},
	{sd(3, fd("A", "", tInt)), `{"A":1,"zz":{"p":1,"q":[{"r":1,"s":2}]}}`},
	{sd(4, fd("A", "", tInt), fd("X", ",embed", mapOf("string", tAny))), `{"A":1,"u":1,"w":{"p":1}}`},
	{sd(5, fd("A", "", tInt), fd("X", ",embed", tRaw)), `{"A":1,"u":1,"w":{"p":1}}`},
	{mapOf("string", tInt), `{"a":1,"b":2}`},
	{mapOf("int", tInt), `{"1":1,"-2":2}`},
	{mapOf("int8", sd(6, fd("P", "", tInt))), `{"1":{"P":1},"2":{"P":2}}`},
	{mapOf("float64", tInt), `{"1":1,"2.5":2}`},
	{mapOf("uint", tStr), `{"1":"a","2":"b"}`},
	{tAny, `{"a":1,"b":{"c":1,"d":[{"e":1,"f":2}]}}`},
	{tRaw, `{"a":1,"b":{"c":1,"d":2}}`},
	{sd(7, fd("R", "", tRaw), fd("Y", "", tAny)), `{"R":{"a":1,"b":2},"Y":{"a":1,"b":2}}`},
	{&tv.Desc{K: "slice", Elem: sd(8, fd("A", "", tInt), fd("B", "", tInt))}, `[{"A":1,"B":2},{"A":3,"B":4}]`},
	{&tv.Desc{K: "ptr", Elem: sd(9, fd("In", "", sd(10, fd("A", "", tInt), fd("B", "", tInt))))}, `{"In":{"A":1,"B":2}}`},
	{sd(11, tv.Field{Name: "E", Embedded: true, T: sd(12, fd("A", "", tInt))}, fd("B", "", tInt)), `{"A":1,"B":2}`},
	{sd(13, tv.Field{Name: "E", Embedded: true, T: &tv.Desc{K: "ptr", Elem: sd(14, fd("A", "", tInt))}}, fd("B", "", tInt)), `{"A":1,"B":2}`},
	{bigStruct(), `{"F0":1,"F63":2,"F64":3,"F65":4,"F127":5,"F128":6,"F129":7}`},
	{mapOf("string", mapOf("string", tInt)), `{"a":{"x":1,"y":2},"b":{"x":3}}`},
	{sd(15, fd("M", "", mapOf("string", tAny)), fd("S", "", &tv.Desc{K: "slice", Elem: mapOf("string", tInt)})), `{"M":{"a":1,"b":[{"c":1,"d":2}]},"S":[{"a":1,"b":2}]}`},
	{sd(16, fd("FooBar", "foo_bar,case:ignore", tInt), fd("Baz", "", tInt)), `{"foo_bar":1,"Baz":2}`},
	{sd(17, fd("Strict", "strict,case:strict", tInt), fd("Loose", "loose", tInt)), `{"strict":1,"loose":2}`},
}

func enumCatalogue(e *rt.Env, yield func(DupCase) bool) {
	var idx, total int64
	complete := true
outer:
	for _, ce := range catalogue {
		root, perr := ref.Parse([]byte(ce.base), ref.Opt{})
		if perr != nil {
			e.OracleFail("catalogue base invalid: " + ce.base)
			return
		}
		objs := objects(ce.d, root)
		for oi, o := range objs {
			for mi := range o.pos.N.Members {
				for variant := 0; variant <= 6; variant++ {
					for after := -1; after < len(o.pos.N.Members); after++ {
						for _, caseOpt := range []bool{false, true} {
							for _, val := range []string{"", "null", "1", `{"P":9}`} {
								idx++
								if !e.Mine(idx) {
									continue
								}
								total++
								c := DupCase{Desc: ce.d, Base: []byte(ce.base), Obj: oi, Member: mi, Variant: variant, After: after, SameValue: val == "", Value: []byte(val), CaseOpt: caseOpt}
								if !yield(c) {
									complete = false
									break outer
								}
							}
						}
					}
				}
			}
		}
	}
	e.Rec.AddPart(cov.Part{Name: fmt.Sprintf("%d catalogue target shapes x every object x every member x 7 spellings x every insertion position x 4 duplicate values x case option", len(catalogue)), Size: total, Complete: complete})
}

package c08

import (
	"testing"

	"verif/harness/rt"
)

func TestCheck(t *testing.T) {
	e := rt.Setup(t, "C08")
	defer e.Finish()
	rec = e.Rec

	rt.Rapid(e, "dup-unmarshal", 150_000, 1_500_000, genDup, RunDup)
	rt.Rapid(e, "utf8-unmarshal", 80_000, 800_000, genUTF8, RunUTF8)
	rt.Rapid(e, "marshal", 80_000, 800_000, genMarshal, RunMarshal)
	rt.Rapid(e, "wide", 30_000, 300_000, genWide, RunWide)
	rt.Enum(e, "catalogue", func(yield func(DupCase) bool) { enumCatalogue(e, yield) }, RunDup)
}

package c08

import (
	"bytes"
	"fmt"
	"sort"

	"github.com/go-json-experiment/json"
	"github.com/go-json-experiment/json/jsontext"
	"pgregory.net/rapid"

	"verif/harness/cov"
	"verif/harness/ref"
	"verif/harness/rt"
)

// TKey is a map key type whose JSON name is the text before '|'.
type TKey string

func (k TKey) MarshalText() ([]byte, error) {
	s := string(k)
	for i := 0; i < len(s); i++ {
		if s[i] == '|' {
			return []byte(s[:i]), nil
		}
	}
	return []byte(s), nil
}

// MarshalCase is one Go value that may collide names / hold ill-formed UTF-8.
type MarshalCase struct {
	Family int      `json:"family"`            // 0 text keys, 1 interface keys, 2 fallback vs field, 3 ill-formed values, 4 ill-formed keys, 5 raw value (jsontext.Value) object with such names, 6 keys renamed by caller-supplied functions
	Var    int      `json:"variant,omitempty"` // family 2: which struct (plain, case options + map fallback, case options + raw fallback); family 6: key kind
	Keys   [][]byte `json:"keys"`
	Kinds  []int    `json:"kinds"`  // family 1: dynamic kind per key
	Nested int      `json:"nested"` // wrap the value in this many slices / struct fields
	UTF8   bool     `json:"allow_invalid_utf8"`
	Dup    bool     `json:"allow_duplicate_names"`
	Determ bool     `json:"deterministic"`
}

var textKeyPool = []string{"a", "a|1", "a|2", "b", "b|x", "c", "", "|", "<"}
var badKeyPool = []string{"\xff", "\xfe", "a\xff", "a\xfe", "ok", "�", "a�", "x", "\xed\xa0\x80", "���"}
var strPool = []string{"ok", "", "\xff", "a\x80b", "é", "\xc0\x80", "\xf4\x90\x80\x80", "<>", "\xe2\x82"}

func genMarshal(t *rapid.T) MarshalCase {
	c := MarshalCase{Family: rapid.IntRange(0, 7).Draw(t, "family"), Var: rapid.IntRange(0, 2).Draw(t, "variant"), Nested: rapid.IntRange(0, 3).Draw(t, "nested"),
		UTF8: rapid.Bool().Draw(t, "utf8"), Dup: rapid.Bool().Draw(t, "dup"), Determ: rapid.Bool().Draw(t, "determ")}
	n := rapid.IntRange(1, 4).Draw(t, "n")
	for i := 0; i < n; i++ {
		switch c.Family {
		case 0:
			c.Keys = append(c.Keys, []byte(rapid.SampledFrom(textKeyPool).Draw(t, "tkey")))
		case 1:
			c.Keys = append(c.Keys, []byte(rapid.SampledFrom([]string{"1", "2", "a", "-1", "1.5"}).Draw(t, "akey")))
			c.Kinds = append(c.Kinds, rapid.IntRange(0, 4).Draw(t, "akind"))
		case 2:
			c.Keys = append(c.Keys, []byte(rapid.SampledFrom([]string{"A", "B", "a", "C", "A", "A "}).Draw(t, "fkey")))
		case 3:
			c.Keys = append(c.Keys, []byte(rapid.SampledFrom(strPool).Draw(t, "sval")))
		case 6:
			c.Keys = append(c.Keys, []byte(rapid.SampledFrom([]string{"0", "1", "2", "3", "4", "5"}).Draw(t, "fnkey")))
		case 7:
			c.Keys = append(c.Keys, []byte(rapid.SampledFrom(badKeyPool).Draw(t, "fbkey")))
		default:
			c.Keys = append(c.Keys, []byte(rapid.SampledFrom(badKeyPool).Draw(t, "bkey")))
		}
		if (c.Family == 3 || c.Family == 4) && rapid.IntRange(0, 1).Draw(t, "neighbours") == 0 {
			// what stands before and after an ill-formed byte must not make the encoder forget it
			k := c.Keys[len(c.Keys)-1]
			k = append([]byte(rapid.SampledFrom(neighbours).Draw(t, "before")), k...)
			k = append(k, rapid.SampledFrom(neighbours).Draw(t, "after")...)
			c.Keys[len(c.Keys)-1] = k
		}
	}
	return c
}

var neighbours = []string{"", "", "\u2028", "\u2029", "<", "\"", "\\", "é", "😀", "\x00", "x", "\ufffd", "\u2028\u2029"}

type withFallback struct {
	A int
	B string         `json:"B"`
	X map[string]int `json:",embed"`
}

// withFallbackCase: the fields carry case options (a strict field is looked up
// by its exact name only, an ignoring one also by its folded name).
type withFallbackCase struct {
	A int            `json:",case:strict"`
	B string         `json:"B,case:ignore"`
	X map[string]int `json:",embed"`
}

type withFallbackRaw struct {
	A int            `json:",case:strict"`
	B string         `json:"B"`
	X jsontext.Value `json:",embed"`
}

// renameInt / renameStr map distinct Go keys onto few JSON names.
func renameInt(k int) string    { return fmt.Sprintf("n%d", k%2) }
func renameStr(k string) string { return fmt.Sprintf("s%d", len(k)%2+int(k[0])%2) }

// renamers returns a fresh Marshalers value renaming map keys of the variant's key type.
func renamers(variant int) *json.Marshalers {
	if variant%2 == 0 {
		return json.MarshalFunc(func(k int) ([]byte, error) { return []byte(`"` + renameInt(k) + `"`), nil })
	}
	return json.MarshalFunc(func(k string) ([]byte, error) { return []byte(`"` + renameStr(k) + `"`), nil })
}

type strHolder struct {
	S []string
	M map[string]string
	P *string
	I any
}

// value builds the Go value plus: the JSON names it will produce in the
// colliding object (after sanitising), and whether ill-formed UTF-8 is present.
func (c *MarshalCase) value() (v any, names []string, bad bool, members int) {
	switch c.Family {
	case 0:
		m := map[TKey]int{}
		for i, k := range c.Keys {
			m[TKey(k)] = i
		}
		for k := range m {
			t, _ := k.MarshalText()
			names = append(names, string(t))
		}
		v, members = m, len(m)
	case 1:
		m := map[any]int{}
		for i, k := range c.Keys {
			s := string(k)
			var key any
			kind := 0
			if i < len(c.Kinds) {
				kind = c.Kinds[i]
			}
			switch s {
			case "1", "2", "-1":
				n := int(s[len(s)-1] - '0')
				if s[0] == '-' {
					n = -n
				}
				switch kind {
				case 0:
					key = n
				case 1:
					key = s
				case 2:
					key = int8(n)
				default:
					key = int64(n)
				}
			case "1.5":
				key = "1.5"
			default:
				key = s
			}
			m[key] = i
		}
		for k := range m {
			names = append(names, fmt.Sprint(k))
		}
		v, members = m, len(m)
	case 2:
		w := withFallback{A: 1, B: "b", X: map[string]int{}}
		for i, k := range c.Keys {
			w.X[string(k)] = i
		}
		names = []string{"A", "B"}
		for k := range w.X {
			names = append(names, k)
		}
		v, members = w, len(names)
		switch c.Var % 3 {
		case 1:
			v = withFallbackCase{A: 1, B: "b", X: w.X}
		case 2:
			// the same members as a raw object (every key once: a raw value
			// that repeats a name is a duplicate by itself)
			raw := []byte{'{'}
			for k, i := range w.X {
				if len(raw) > 1 {
					raw = append(raw, ',')
				}
				q, _ := ref.Quote(k, false, false)
				raw = append(append(append(raw, q...), ':'), byte('0'+i%10))
			}
			v = withFallbackRaw{A: 1, B: "b", X: jsontext.Value(append(raw, '}'))}
		}
	case 6:
		if c.Var%2 == 0 {
			m := map[int]int{}
			for i, k := range c.Keys {
				m[int(k[0]-'0')] = i
			}
			for k := range m {
				names = append(names, renameInt(k))
			}
			v, members = m, len(m)
		} else {
			m := map[string]int{}
			for i, k := range c.Keys {
				m["k"+string(k)] = i
			}
			for k := range m {
				names = append(names, renameStr(k))
			}
			v, members = m, len(m)
		}
	case 3:
		h := strHolder{M: map[string]string{}}
		for i, k := range c.Keys {
			s := string(k)
			if !ref.WellFormedUTF8(s) {
				bad = true
			}
			switch i % 4 {
			case 0:
				h.S = append(h.S, s)
			case 1:
				h.M[fmt.Sprintf("k%d", i)] = s
			case 2:
				h.P = &s
			default:
				h.I = s
			}
		}
		v = h
	case 7:
		// the raw object of family 5 as the embedded raw fallback of a struct
		c5 := *c
		c5.Family, c5.Nested = 5, 0
		rv, n5, b5, _ := c5.value()
		names = append([]string{"A", "B"}, n5...)
		bad = b5
		v, members = withFallbackRaw{A: 1, B: "b", X: rv.(jsontext.Value)}, len(names)
	case 5:
		// a raw JSON object whose names are written with raw (possibly ill-formed) bytes
		var sb []byte
		sb = append(sb, '{')
		seen := map[string]bool{}
		for i, k := range c.Keys {
			if seen[string(k)] {
				continue // byte-identical names would be duplicates under any option
			}
			seen[string(k)] = true
			if len(sb) > 1 {
				sb = append(sb, ',')
			}
			sb = append(sb, '"')
			sb = append(sb, k...)
			sb = append(sb, '"', ':')
			sb = append(sb, byte('0'+i%10))
			if !ref.WellFormedUTF8(string(k)) {
				bad = true
			}
			names = append(names, ref.Sanitize(string(k)))
		}
		sb = append(sb, '}')
		v, members = jsontext.Value(sb), len(names)
	default:
		m := map[string]int{}
		for i, k := range c.Keys {
			m[string(k)] = i
		}
		for k := range m {
			if !ref.WellFormedUTF8(k) {
				bad = true
			}
			names = append(names, ref.Sanitize(k))
		}
		v, members = m, len(m)
	}
	for i := 0; i < c.Nested; i++ {
		if i%2 == 0 {
			v = []any{v}
		} else {
			v = map[string]any{"w": v}
		}
	}
	return
}

func collides(names []string) bool {
	sort.Strings(names)
	for i := 1; i < len(names); i++ {
		if names[i] == names[i-1] {
			return true
		}
	}
	return false
}

func countMembersOfInner(out []byte, nested int, opt ref.Opt) (int, bool) {
	n, err := ref.Parse(out, opt)
	if err != nil {
		return 0, false
	}
	for i := nested - 1; i >= 0; i-- {
		if i%2 == 0 {
			if n.Kind != '[' || len(n.Elems) != 1 {
				return 0, false
			}
			n = n.Elems[0]
		} else {
			if n.Kind != '{' || len(n.Members) != 1 {
				return 0, false
			}
			n = n.Members[0].Value
		}
	}
	if n.Kind != '{' {
		return 0, false
	}
	return len(n.Members), true
}

// RunMarshal decides one marshal-side case.
func RunMarshal(c MarshalCase) error {
	v, names, bad, members := c.value()
	coll := collides(names)
	rec.Eval()
	opts := []json.Options{jsontext.AllowInvalidUTF8(c.UTF8), jsontext.AllowDuplicateNames(c.Dup), json.Deterministic(c.Determ)}
	var out []byte
	var err error
	if c.Family == 6 {
		// The functions are looked up once per options value and type: a
		// first call with a harmless map puts them into that cache.
		opts = append(opts, json.WithMarshalers(renamers(c.Var)))
		if c.Var%2 == 0 {
			json.Marshal(map[int]int{7: 7}, opts...)
		} else {
			json.Marshal(map[string]int{"warm": 7}, opts...)
		}
	}
	if p := rt.Guard(func() { out, err = json.Marshal(v, opts...) }); p != nil {
		return fmt.Errorf("Marshal panicked: %v\ncase %+v", p, c)
	}
	fp := cov.FP(append([][]byte{{byte(c.Family), byte(c.Nested), b2(c.UTF8), b2(c.Dup)}}, c.Keys...)...)
	if coll || bad {
		rec.NonTrivial(fp)
		rec.Sample(fp, func() any {
			return map[string]any{"family": c.Family, "keys": fmt.Sprintf("%q", c.Keys), "allow_invalid_utf8": c.UTF8, "allow_duplicate_names": c.Dup, "output": fmt.Sprintf("%q", out), "err": fmt.Sprint(err)}
		})
	}
	switch {
	case coll:
		rec.Class("marshal-name-collision")
	case bad:
		rec.Class("marshal-ill-formed-utf8")
	default:
		rec.Class("marshal-clean")
	}
	mustFail := (bad && !c.UTF8) || (coll && !c.Dup)
	if err == nil {
		// whatever was produced must be valid under the effective options
		if _, perr := ref.Parse(out, ref.Opt{AllowInvalidUTF8: c.UTF8, AllowDup: c.Dup}); perr != nil {
			return fmt.Errorf("Marshal returned nil error but the output is invalid under AllowInvalidUTF8=%v AllowDuplicateNames=%v: %v\noutput %q\ncase %+v", c.UTF8, c.Dup, perr, out, c)
		}
	}
	if mustFail {
		if err == nil {
			return fmt.Errorf("Marshal succeeded although the value has %s (AllowInvalidUTF8=%v AllowDuplicateNames=%v)\noutput %q\ncase %+v", why(coll, bad), c.UTF8, c.Dup, out, c)
		}
		return nil
	}
	if err != nil {
		return fmt.Errorf("Marshal failed although nothing forbids the value under AllowInvalidUTF8=%v AllowDuplicateNames=%v: %v\ncase %+v", c.UTF8, c.Dup, err, c)
	}
	if members > 0 {
		got, ok := countMembersOfInner(out, c.Nested, ref.Opt{AllowInvalidUTF8: c.UTF8, AllowDup: c.Dup})
		if !ok || got != members {
			return fmt.Errorf("Marshal output has %d members in the inner object, the Go value has %d entries\noutput %q\ncase %+v", got, members, out, c)
		}
	}
	if bad && c.UTF8 {
		// U+FFFD substitution and nothing else: equals the marshaling of the sanitised value
		c2 := c
		c2.Keys = nil
		for _, k := range c.Keys {
			c2.Keys = append(c2.Keys, []byte(ref.Sanitize(string(k))))
		}
		v2, names2, _, _ := c2.value()
		if !collides(names2) || c.Dup {
			if c.Determ || len(c.Keys) == 1 {
				out2, err2 := json.Marshal(v2, jsontext.AllowDuplicateNames(c.Dup), json.Deterministic(c.Determ))
				if err2 == nil && len(names2) == len(names) && !collides(names2) && !bytes.Equal(out, out2) && !sameUpToOrder(out, out2) {
					return fmt.Errorf("AllowInvalidUTF8(true) output differs from the marshaling of the sanitised value:\n got  %q\n want %q\ncase %+v", out, out2, c)
				}
			}
		}
		if !ref.WellFormedUTF8(string(out)) {
			return fmt.Errorf("AllowInvalidUTF8(true) output still contains ill-formed UTF-8 (no raw pass-through was requested): %q", out)
		}
	}
	return nil
}

func why(coll, bad bool) string {
	switch {
	case coll && bad:
		return "colliding names and ill-formed UTF-8"
	case coll:
		return "colliding names"
	}
	return "ill-formed UTF-8"
}

func b2(b bool) byte {
	if b {
		return 1
	}
	return 0
}

// sameUpToOrder compares two outputs as JSON values ignoring member order
// (Deterministic fixes an order but the documentation does not say which; it
// is observed to follow the Go keys, not the sanitised names).
func sameUpToOrder(a, b []byte) bool {
	na, ea := ref.Parse(a, ref.Opt{AllowDup: true})
	nb, eb := ref.Parse(b, ref.Opt{AllowDup: true})
	if ea != nil || eb != nil {
		return false
	}
	return ref.DecodedEqual(a, na, b, nb, ref.NumExactEq, true)
}

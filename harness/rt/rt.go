// Package rt is the run-time support shared by all property packages:
// environment (tier, shard, seed), sub-check registration (rapid campaigns,
// enumerations, regression replays), violation/replay files, known-finding
// classifiers, panic capture and a per-case watchdog.
package rt

import (
	"bufio"
	"encoding/json"
	"errors"
	"flag"
	"fmt"
	"os"
	"path/filepath"
	"runtime/debug"
	"sort"
	"strconv"
	"strings"
	"sync"
	"syscall"
	"sync/atomic"
	"testing"
	"time"

	"pgregory.net/rapid"

	"verif/harness/cov"
)

// KnownErr is returned by a check when the failure it observed is matched by
// a named known-finding classifier. It only suppresses the violation if the
// classifier is listed in known_findings.txt for the property.
type KnownErr struct {
	Classifier string
	Err        error
}

func (k *KnownErr) Error() string { return "known[" + k.Classifier + "]: " + k.Err.Error() }
func (k *KnownErr) Unwrap() error { return k.Err }

// Known wraps err as a known finding.
func Known(classifier string, err error) error { return &KnownErr{classifier, err} }

// Violation is one reported failure.
type Violation struct {
	Sub    string `json:"sub"`
	Replay string `json:"replay"`
	Msg    string `json:"msg"`
}

// KnownLine is one entry of known_findings.txt.
type KnownLine struct {
	Property   string
	ID         string
	Classifier string
	Example    string
	What       string
}

// ShardOut is what a shard process writes for the driver.
type ShardOut struct {
	Property   string      `json:"property"`
	Tier       string      `json:"tier"`
	Shard      int         `json:"shard"`
	Seed       uint64      `json:"seed"`
	Cov        cov.Shard   `json:"cov"`
	Violations []Violation `json:"violations"`
	// KnownConfirmed lists known findings whose committed example still fails.
	KnownConfirmed []string   `json:"known_confirmed"`
	Rapid          []RapidRun `json:"rapid"`
	OracleFail     []string   `json:"oracle_fail"` // oracle self-test failures (exit 2, never a violation)
	Done           bool       `json:"done"`
}

// RapidRun records how many cases a rapid campaign was asked for / passed.
type RapidRun struct {
	Sub       string `json:"sub"`
	Requested int    `json:"requested"`
	Seed      uint64 `json:"seed"`
	Failed    bool   `json:"failed"`
}

// Env is the per-process state.
type Env struct {
	ID        string
	Tier      string // quick | thorough
	Shard     int
	NShards   int
	Seed      uint64
	Root      string // /verif
	OutPath   string
	Replay    string
	Rec       *cov.Recorder
	known     map[string]KnownLine // classifier -> line, for this property
	replayers map[string]func(raw []byte) error
	order     []string
	out       ShardOut
	t         *testing.T
	mu        sync.Mutex
	cur       atomic.Pointer[curCase]
}

type curCase struct {
	sub   string
	c     any
	start time.Time
}

func envInt(name string, def int) int {
	if v := os.Getenv(name); v != "" {
		n, err := strconv.Atoi(v)
		if err == nil {
			return n
		}
	}
	return def
}

// Setup reads the environment. Call Finish at the end of the test.
func Setup(t *testing.T, id string) *Env {
	e := &Env{ID: id, t: t, Rec: cov.New(), replayers: map[string]func([]byte) error{}, known: map[string]KnownLine{}}
	e.Tier = os.Getenv("VERIF_TIER")
	if e.Tier == "" {
		e.Tier = "quick"
	}
	e.Shard = envInt("VERIF_SHARD", 0)
	e.NShards = envInt("VERIF_NSHARDS", 1)
	if s := os.Getenv("VERIF_SEED"); s != "" {
		if n, err := strconv.ParseUint(s, 10, 64); err == nil {
			e.Seed = n
		} else if n, err := strconv.ParseInt(s, 10, 64); err == nil {
			e.Seed = uint64(n)
		}
	} else {
		e.Seed = 1
	}
	e.Root = os.Getenv("VERIF_ROOT")
	if e.Root == "" {
		e.Root = "/verif"
	}
	e.OutPath = os.Getenv("VERIF_OUT")
	e.Replay = os.Getenv("VERIF_REPLAY")
	e.out = ShardOut{Property: id, Tier: e.Tier, Shard: e.Shard, Seed: e.Seed}
	for _, k := range LoadKnown(filepath.Join(e.Root, "known_findings.txt")) {
		if k.Property == id {
			e.known[k.Classifier] = k
		}
	}
	flag.Set("rapid.nofailfile", "true")
	flag.Set("rapid.shrinktime", "10s")
	debug.SetGCPercent(400)
	if os.Getenv("VERIF_NOWATCHDOG") == "" {
		go e.watchdog()
	}
	return e
}

// Thorough reports whether the thorough tier is running.
func (e *Env) Thorough() bool { return e.Tier == "thorough" }

// Replaying reports whether the process only replays one file.
func (e *Env) Replaying() bool { return e.Replay != "" }

// LoadKnown parses known_findings.txt.
func LoadKnown(path string) []KnownLine {
	f, err := os.Open(path)
	if err != nil {
		return nil
	}
	defer f.Close()
	var out []KnownLine
	sc := bufio.NewScanner(f)
	for sc.Scan() {
		line := strings.TrimSpace(sc.Text())
		if !strings.HasPrefix(line, "known:") {
			continue
		}
		head, what, _ := strings.Cut(strings.TrimPrefix(line, "known:"), "::")
		k := KnownLine{What: strings.TrimSpace(what)}
		for _, f := range strings.Fields(head) {
			key, val, _ := strings.Cut(f, "=")
			switch key {
			case "property":
				k.Property = val
			case "id":
				k.ID = val
			case "classifier":
				k.Classifier = val
			case "example":
				k.Example = val
			}
		}
		out = append(out, k)
	}
	return out
}

// splitmix64 step.
func mix(x uint64) uint64 {
	x += 0x9e3779b97f4a7c15
	x = (x ^ (x >> 30)) * 0xbf58476d1ce4e5b9
	x = (x ^ (x >> 27)) * 0x94d049bb133111eb
	return x ^ (x >> 31)
}

// SubSeed derives the rapid seed for a sub-check of this shard (never 0).
func (e *Env) SubSeed(sub string) uint64 {
	s := mix(e.Seed)
	s = mix(s ^ cov.FPs(e.ID, sub))
	s = mix(s ^ uint64(e.Shard+1))
	return s | 1
}

// Stride returns a deterministic offset in [0,n) derived from the seed, for
// strided sub-sampling of enumerations in the quick tier.
func (e *Env) Offset(sub string, n int) int {
	if n <= 1 {
		return 0
	}
	return int(mix(mix(e.Seed)^cov.FPs(sub)) % uint64(n))
}

// Mine reports whether item i of an enumeration belongs to this shard.
func (e *Env) Mine(i int64) bool { return int(i%int64(e.NShards)) == e.Shard }

func (e *Env) violation(sub string, c any, err error) {
	raw, jerr := json.Marshal(c)
	if jerr != nil {
		raw, _ = json.Marshal(fmt.Sprintf("unserialisable case: %v", jerr))
	}
	file := map[string]any{"property": e.ID, "sub": sub, "case": json.RawMessage(raw), "msg": err.Error()}
	data, _ := json.MarshalIndent(file, "", " ")
	fp := cov.FP([]byte(sub), raw)
	dir := filepath.Join(e.Root, "replays")
	os.MkdirAll(dir, 0o755)
	path := filepath.Join(dir, fmt.Sprintf("%s-%s-%016x.json", e.ID, sub, fp))
	os.WriteFile(path, data, 0o644)
	msg := err.Error()
	if len(msg) > 1500 {
		msg = msg[:1500] + "..."
	}
	e.mu.Lock()
	e.out.Violations = append(e.out.Violations, Violation{Sub: sub, Replay: path, Msg: msg})
	e.mu.Unlock()
	e.flush()
}

// OracleFail records a failure of an oracle self-test (inconclusive run).
func (e *Env) OracleFail(msg string) {
	e.mu.Lock()
	e.out.OracleFail = append(e.out.OracleFail, msg)
	e.mu.Unlock()
	e.flush()
}

// judge maps the error of a case to: nil (pass / suppressed known) or the
// error to report.
func (e *Env) judge(err error) error {
	if err == nil {
		return nil
	}
	var k *KnownErr
	if errors.As(err, &k) {
		if _, ok := e.known[k.Classifier]; ok {
			e.Rec.Known(k.Classifier)
			return nil
		}
	}
	return err
}

// PanicErr is a recovered panic.
type PanicErr struct {
	Val   any
	Stack string
}

func (p *PanicErr) Error() string { return fmt.Sprintf("panic: %v\n%s", p.Val, p.Stack) }

// Guard runs f and converts a panic into *PanicErr.
func Guard(f func()) (perr *PanicErr) {
	defer func() {
		if r := recover(); r != nil {
			st := string(debug.Stack())
			if len(st) > 3000 {
				st = st[:3000]
			}
			perr = &PanicErr{Val: r, Stack: st}
		}
	}()
	f()
	return nil
}

func safeRun[C any](run func(C) error, c C) (err error) {
	defer func() {
		if r := recover(); r != nil {
			st := string(debug.Stack())
			if len(st) > 4000 {
				st = st[:4000]
			}
			err = fmt.Errorf("panic escaped the check: %v\n%s", r, st)
		}
	}()
	return run(c)
}

func (e *Env) register(sub string, f func(raw []byte) error) {
	if _, dup := e.replayers[sub]; dup {
		panic("duplicate sub-check " + sub)
	}
	e.replayers[sub] = f
	e.order = append(e.order, sub)
}

// Count picks the number of rapid cases for this shard.
func (e *Env) Count(quick, thorough int) int {
	n := quick
	if e.Thorough() {
		n = thorough
	}
	n = (n + e.NShards - 1) / e.NShards
	if n < 1 {
		n = 1
	}
	return n
}

// Rapid registers and (unless replaying) runs a rapid campaign: gen draws a
// case, run decides it. quick/thorough are total case counts across shards.
func Rapid[C any](e *Env, sub string, quick, thorough int, gen func(*rapid.T) C, run func(C) error) {
	e.register(sub, func(raw []byte) error {
		var c C
		if err := json.Unmarshal(raw, &c); err != nil {
			return fmt.Errorf("bad replay case: %v", err)
		}
		return safeRun(run, c)
	})
	if e.Replaying() {
		return
	}
	n := e.Count(quick, thorough)
	seed := e.SubSeed(sub)
	var last *struct {
		c   C
		err error
	}
	rr := RapidRun{Sub: sub, Requested: n, Seed: seed}
	ok := e.t.Run(sub, func(t *testing.T) {
		flag.Set("rapid.checks", strconv.Itoa(n))
		flag.Set("rapid.seed", strconv.FormatUint(seed, 10))
		rapid.Check(t, func(rt *rapid.T) {
			c := gen(rt)
			e.cur.Store(&curCase{sub: sub, c: c, start: time.Now()})
			err := e.judge(safeRun(run, c))
			e.cur.Store(nil)
			if err != nil {
				last = &struct {
					c   C
					err error
				}{c, err}
				rt.Fatalf("%v", err)
			}
		})
	})
	if !ok {
		rr.Failed = true
		if last != nil {
			e.violation(sub, last.c, last.err)
		} else {
			e.OracleFail("rapid campaign " + sub + " failed without a failing case (generator rejected too many draws?)")
		}
	}
	e.mu.Lock()
	e.out.Rapid = append(e.out.Rapid, rr)
	e.mu.Unlock()
}

// Enum registers and runs an enumeration. enum must call yield for the cases
// belonging to this shard (use e.Mine) and stop when yield returns false.
// The first failing case is reported; the enumeration then stops.
func Enum[C any](e *Env, sub string, enum func(yield func(C) bool), run func(C) error) {
	e.register(sub, func(raw []byte) error {
		var c C
		if err := json.Unmarshal(raw, &c); err != nil {
			return fmt.Errorf("bad replay case: %v", err)
		}
		return safeRun(run, c)
	})
	if e.Replaying() {
		return
	}
	enum(func(c C) bool {
		e.cur.Store(&curCase{sub: sub, c: c, start: time.Now()})
		err := e.judge(safeRun(run, c))
		e.cur.Store(nil)
		if err != nil {
			e.violation(sub, c, err)
			e.t.Errorf("%s: %v", sub, err)
			return false
		}
		return true
	})
}

// Only registers a replayer without a generator (used for regression-only
// sub-checks).
func Only[C any](e *Env, sub string, run func(C) error) {
	Enum(e, sub, func(func(C) bool) {}, run)
}

type replayFile struct {
	Property string          `json:"property"`
	Sub      string          `json:"sub"`
	Case     json.RawMessage `json:"case"`
	Msg      string          `json:"msg"`
}

func (e *Env) runFile(path string) (error, bool) {
	data, err := os.ReadFile(path)
	if err != nil {
		return err, false
	}
	var rf replayFile
	if err := json.Unmarshal(data, &rf); err != nil {
		return fmt.Errorf("%s: %v", path, err), false
	}
	f, ok := e.replayers[rf.Sub]
	if !ok {
		return fmt.Errorf("%s: unknown sub-check %q", path, rf.Sub), false
	}
	return f(rf.Case), true
}

// Finish runs the regression tier (shard 0) or the requested replay, writes
// the shard output. Call it after all sub-checks were registered/run.
func (e *Env) Finish() {
	if e.Replaying() {
		err, ok := e.runFile(e.Replay)
		if !ok {
			e.OracleFail(fmt.Sprintf("cannot replay: %v", err))
			e.t.Errorf("cannot replay: %v", err)
		} else if jerr := e.judge(err); jerr != nil {
			e.mu.Lock()
			e.out.Violations = append(e.out.Violations, Violation{Sub: "replay", Replay: e.Replay, Msg: jerr.Error()})
			e.mu.Unlock()
			e.t.Errorf("replay fails: %v", jerr)
		} else if err != nil {
			fmt.Printf("replay reproduces a listed known finding: %v\n", err)
		}
		e.out.Done = true
		e.flush()
		return
	}
	if e.Shard == 0 {
		e.regression()
	}
	e.out.Done = true
	e.flush()
}

// regression replays every committed file of regression/<ID>/ and confirms
// the examples of known findings.
func (e *Env) regression() {
	dir := filepath.Join(e.Root, "regression", e.ID)
	knownExamples := map[string]KnownLine{}
	for _, k := range e.known {
		knownExamples[filepath.Clean(filepath.Join(e.Root, k.Example))] = k
	}
	files, _ := filepath.Glob(filepath.Join(dir, "*.json"))
	sort.Strings(files)
	for _, f := range files {
		err, ok := e.runFile(f)
		if !ok {
			e.OracleFail(fmt.Sprintf("regression file unusable: %v", err))
			continue
		}
		e.Rec.Eval()
		e.Rec.Class("regression-replay")
		if k, isKnown := knownExamples[filepath.Clean(f)]; isKnown {
			var ke *KnownErr
			if err != nil && errors.As(err, &ke) && ke.Classifier == k.Classifier {
				e.mu.Lock()
				e.out.KnownConfirmed = append(e.out.KnownConfirmed, fmt.Sprintf("%s %s", k.ID, k.What))
				e.mu.Unlock()
				continue
			}
			if err == nil {
				continue // finding no longer reproduces on this tree: nothing to report
			}
		}
		if jerr := e.judge(err); jerr != nil {
			msg := jerr.Error()
			if len(msg) > 1500 {
				msg = msg[:1500]
			}
			e.mu.Lock()
			e.out.Violations = append(e.out.Violations, Violation{Sub: "regression", Replay: f, Msg: msg})
			e.mu.Unlock()
			e.t.Errorf("regression %s fails: %v", f, jerr)
		}
	}
}

func (e *Env) flush() {
	if e.OutPath == "" {
		return
	}
	e.mu.Lock()
	defer e.mu.Unlock()
	sh, err := e.Rec.Dump(e.OutPath + ".fps")
	if err != nil {
		return
	}
	e.out.Cov = sh
	data, _ := json.Marshal(e.out)
	tmp := e.OutPath + ".tmp"
	if os.WriteFile(tmp, data, 0o644) == nil {
		os.Rename(tmp, e.OutPath)
	}
}

// watchdog stops the process with status 3 when a single case runs for more
// than the limit; the case is saved as a suspect for a confirmation replay.
func (e *Env) watchdog() {
	limit := time.Duration(envInt("VERIF_CASE_TIMEOUT_S", 90)) * time.Second
	for {
		time.Sleep(2 * time.Second)
		c := e.cur.Load()
		if c == nil || time.Since(c.start) < limit {
			continue
		}
		raw, _ := json.Marshal(c.c)
		file := map[string]any{"property": e.ID, "sub": c.sub, "case": json.RawMessage(raw), "msg": "suspected hang (watchdog)"}
		data, _ := json.MarshalIndent(file, "", " ")
		dir := filepath.Join(e.Root, "replays")
		os.MkdirAll(dir, 0o755)
		path := filepath.Join(dir, fmt.Sprintf("%s-%s-suspect-%016x.json", e.ID, c.sub, cov.FP(raw)))
		os.WriteFile(path, data, 0o644)
		if e.OutPath != "" {
			os.WriteFile(e.OutPath+".suspect", []byte(path), 0o644)
		}
		e.flush()
		fmt.Fprintf(os.Stderr, "watchdog: case of %s/%s exceeded %v; suspect saved to %s\n", e.ID, c.sub, limit, path)
		os.Exit(3)
	}
}

// FuzzJudge is used by native fuzz targets: it returns silently for passing
// cases and listed known findings, and otherwise saves the case as a replay
// file, prints the line the driver looks for and fails the fuzz run.
func FuzzJudge(t *testing.T, id, sub string, c any, err error) {
	if err == nil {
		return
	}
	root := os.Getenv("VERIF_ROOT")
	if root == "" {
		root = "/verif"
	}
	var k *KnownErr
	if errors.As(err, &k) {
		for _, kl := range LoadKnown(filepath.Join(root, "known_findings.txt")) {
			if kl.Property == id && kl.Classifier == k.Classifier {
				return
			}
		}
	}
	raw, _ := json.Marshal(c)
	file := map[string]any{"property": id, "sub": sub, "case": json.RawMessage(raw), "msg": err.Error()}
	data, _ := json.MarshalIndent(file, "", " ")
	dir := filepath.Join(root, "replays")
	os.MkdirAll(dir, 0o755)
	path := filepath.Join(dir, fmt.Sprintf("%s-%s-fuzz-%016x.json", id, sub, cov.FP(raw)))
	os.WriteFile(path, data, 0o644)
	fmt.Printf("VERIF-FUZZ-REPLAY %s\n", path)
	t.Fatalf("%v", err)
}

var fuzzStderr sync.Once

// FuzzRapid turns a rapid generator + decider into a native fuzz target: the
// fuzzer's bytes drive rapid's draws (coverage-guided search over the same
// structured generator), the same Run decides, and failures are saved as
// ordinary replay files.
func FuzzRapid[C any](f *testing.F, id, sub string, gen func(*rapid.T) C, run func(C) error) {
	// Warm up lazily built tables (type catalogues, pools) outside the fuzz
	// callback: the fuzz worker gives each input ten seconds and would count
	// the one-time set-up against the first one ("deadlocked!").
	func() {
		defer func() { recover() }()
		g := rapid.Custom(gen)
		for i := 1; i <= 8; i++ {
			_ = safeRun(run, g.Example(i))
		}
	}()
	f.Fuzz(rapid.MakeFuzz(func(t *rapid.T) {
		fuzzStderr.Do(func() {
			// fuzz workers run with stderr discarded: a runtime fatal error would leave no trace
			if dir := os.Getenv("VERIF_FUZZ_STDERR"); dir != "" {
				if fh, err := os.OpenFile(filepath.Join(dir, fmt.Sprintf("fuzz-stderr-%d.log", os.Getpid())), os.O_CREATE|os.O_WRONLY|os.O_APPEND, 0o644); err == nil {
					syscall.Dup3(int(fh.Fd()), 2, 0)
				}
			}
		})
		c := gen(t)
		err := safeRun(run, c)
		if err == nil {
			return
		}
		root := os.Getenv("VERIF_ROOT")
		if root == "" {
			root = "/verif"
		}
		var k *KnownErr
		if errors.As(err, &k) {
			for _, kl := range LoadKnown(filepath.Join(root, "known_findings.txt")) {
				if kl.Property == id && kl.Classifier == k.Classifier {
					return
				}
			}
		}
		raw, _ := json.Marshal(c)
		file := map[string]any{"property": id, "sub": sub, "case": json.RawMessage(raw), "msg": err.Error()}
		data, _ := json.MarshalIndent(file, "", " ")
		dir := filepath.Join(root, "replays")
		os.MkdirAll(dir, 0o755)
		path := filepath.Join(dir, fmt.Sprintf("%s-%s-fuzz-%016x.json", id, sub, cov.FP(raw)))
		os.WriteFile(path, data, 0o644)
		fmt.Printf("VERIF-FUZZ-REPLAY %s\n", path)
		t.Fatalf("%v", err)
	}))
}

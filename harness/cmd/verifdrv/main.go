// verifdrv builds the property's test binary against /repo's current tree,
// runs it in shards, merges the evidence and prints the verdict lines.
//
//	verifdrv <ID> <quick|thorough>
//	verifdrv <ID> --replay <path>
//
// Exit status: 0 held, 1 violation (a VIOLATION line was printed), 2 inconclusive.
package main

import (
	"bytes"
	"context"
	"encoding/binary"
	"encoding/json"
	"fmt"
	"os"
	"os/exec"
	"path/filepath"
	"sort"
	"strconv"
	"strings"
	"sync"
	"syscall"
	"time"
)

type propCfg struct {
	Race           bool
	Shards         int
	QuickTimeout   time.Duration
	ThoroughTimout time.Duration
	Rule           string
	Fuzz           []string // native fuzz targets (thorough tier)
	FuzzTime       time.Duration
	MemKB          int64
}

func cfgFor(id string) propCfg {
	c := propCfg{Shards: 16, QuickTimeout: 15 * time.Minute, ThoroughTimout: 90 * time.Minute, MemKB: 6 << 20}
	switch id {
	case "C18":
		c.Race = true
		c.Shards = 8
	}
	return c
}

var (
	altModfile string // set when VERIF_REPO points the build at a scratch copy
	root       string
	goBin      = "go1.26.8"
	started    = time.Now()
)

func goEnv() []string {
	env := os.Environ()
	env = append(env, "GOFLAGS=-mod=mod", "GOPROXY=off", "GOSUMDB=off", "GOTOOLCHAIN=local", "GONOSUMDB=*", "GONOSUMCHECK=1")
	return env
}

func die2(format string, a ...any) {
	fmt.Fprintf(os.Stderr, "verifdrv: inconclusive: "+format+"\n", a...)
	os.Exit(2)
}

type violation struct {
	Sub    string `json:"sub"`
	Replay string `json:"replay"`
	Msg    string `json:"msg"`
}

type part struct {
	Name     string `json:"name"`
	Size     int64  `json:"size"`
	Complete bool   `json:"complete"`
	Stride   int64  `json:"stride,omitempty"`
}

type shardOut struct {
	Property string `json:"property"`
	Shard    int    `json:"shard"`
	Cov      struct {
		Evals   int64            `json:"evals"`
		Counted int64            `json:"counted"`
		NFP     int              `json:"nfp"`
		FPFile  string           `json:"fp_file"`
		Classes map[string]int64 `json:"classes"`
		Samples []struct {
			FP  uint64
			Val json.RawMessage
		} `json:"samples"`
		Known    map[string]int64 `json:"known"`
		Excluded map[string]int64 `json:"excluded"`
		Parts    []part           `json:"parts"`
	} `json:"cov"`
	Violations     []violation `json:"violations"`
	KnownConfirmed []string    `json:"known_confirmed"`
	Rapid          []struct {
		Sub       string `json:"sub"`
		Requested int    `json:"requested"`
		Failed    bool   `json:"failed"`
	} `json:"rapid"`
	OracleFail []string `json:"oracle_fail"`
	Done       bool     `json:"done"`
}

func main() {
	root = os.Getenv("VERIF_ROOT")
	if root == "" {
		exe, _ := os.Executable()
		root = filepath.Dir(filepath.Dir(exe))
		if _, err := os.Stat(filepath.Join(root, "harness", "go.mod")); err != nil {
			root = "/verif"
		}
	}
	os.Setenv("VERIF_ROOT", root)
	if len(os.Args) < 3 {
		fmt.Fprintln(os.Stderr, "usage: verifdrv <ID> <quick|thorough> | verifdrv <ID> --replay <path>")
		os.Exit(2)
	}
	id := strings.ToUpper(os.Args[1])
	mode := os.Args[2]
	replay := ""
	if mode == "--replay" {
		if len(os.Args) < 4 {
			die2("--replay needs a path")
		}
		replay, _ = filepath.Abs(os.Args[3])
		mode = "quick"
	}
	if mode != "quick" && mode != "thorough" {
		die2("unknown tier %q", mode)
	}
	if t := os.Getenv("VERIF_TIER"); t != "" && replay == "" && len(os.Args) == 3 && os.Args[2] == "" {
		mode = t
	}
	seed := uint64(1)
	if s := os.Getenv("VERIF_SEED"); s != "" {
		if n, err := strconv.ParseUint(s, 10, 64); err == nil {
			seed = n
		} else if n, err := strconv.ParseInt(s, 10, 64); err == nil {
			seed = uint64(n)
		}
	}
	cfg := cfgFor(id)
	pkg := strings.ToLower(id)
	hdir := filepath.Join(root, "harness")
	if _, err := os.Stat(filepath.Join(hdir, pkg)); err != nil {
		die2("no harness package for %s", id)
	}
	bdir := filepath.Join(root, ".build")
	os.MkdirAll(bdir, 0o755)
	os.MkdirAll(filepath.Join(root, "replays"), 0o755)
	os.MkdirAll(filepath.Join(root, "evidence"), 0o755)

	// 1. build against /repo's current working tree
	bin := filepath.Join(bdir, fmt.Sprintf("%s.%d.test", pkg, os.Getpid())) // per-run name: concurrent runs of one property do not collide
	defer os.Remove(bin)
	args := []string{"test", "-c", "-tags", "verif", "-o", bin}
	if cfg.Race {
		args = append(args, "-race")
	}
	if alt := os.Getenv("VERIF_REPO"); alt != "" {
		// mutation testing only: point the replace directive at a scratch copy
		mod, err := os.ReadFile(filepath.Join(hdir, "go.mod"))
		if err != nil {
			die2("%v", err)
		}
		mod = bytes.ReplaceAll(mod, []byte("=> /repo"), []byte("=> "+alt))
		mf := filepath.Join(bdir, fmt.Sprintf("alt-%d.mod", os.Getpid()))
		os.WriteFile(mf, mod, 0o644)
		sum, _ := os.ReadFile(filepath.Join(hdir, "go.sum"))
		os.WriteFile(strings.TrimSuffix(mf, ".mod")+".sum", sum, 0o644)
		defer os.Remove(mf)
		defer os.Remove(strings.TrimSuffix(mf, ".mod") + ".sum")
		args = append(args, "-modfile", mf)
		altModfile = mf
		bin = filepath.Join(bdir, fmt.Sprintf("%s-alt-%d.test", pkg, os.Getpid()))
		args[5] = bin
		defer os.Remove(bin)
	}
	args = append(args, "./"+pkg)
	cmd := exec.Command(goBin, args...)
	cmd.Dir = hdir
	cmd.Env = goEnv()
	if out, err := cmd.CombinedOutput(); err != nil {
		die2("build failed: %v\n%s", err, out)
	}

	// 2. run
	nsh := cfg.Shards
	if replay != "" {
		nsh = 1
	}
	if v := os.Getenv("VERIF_SHARDS"); v != "" {
		if n, err := strconv.Atoi(v); err == nil && n > 0 {
			nsh = n
		}
	}
	timeout := cfg.QuickTimeout
	if mode == "thorough" {
		timeout = cfg.ThoroughTimout
	}
	runID := fmt.Sprintf("%s.%d", pkg, os.Getpid())
	outs := make([]string, nsh)
	codes := make([]int, nsh)
	logs := make([]string, nsh)
	var wg sync.WaitGroup
	for k := 0; k < nsh; k++ {
		outs[k] = filepath.Join(bdir, fmt.Sprintf("%s.shard%d.json", runID, k))
		os.Remove(outs[k])
		wg.Add(1)
		go func(k int) {
			defer wg.Done()
			codes[k], logs[k] = runShard(bin, filepath.Join(hdir, pkg), id, mode, k, nsh, seed, outs[k], replay, timeout, cfg.MemKB)
		}(k)
	}
	wg.Wait()
	defer func() {
		for k := range outs {
			os.Remove(outs[k])
			os.Remove(outs[k] + ".fps")
			os.Remove(outs[k] + ".suspect")
		}
	}()

	// 3. merge
	var (
		evals, counted int64
		fps            = map[uint64]struct{}{}
		classes        = map[string]int64{}
		known          = map[string]int64{}
		excluded       = map[string]int64{}
		parts          = map[string]*part{}
		partShards     = map[string]int{}
		samples        []struct {
			FP  uint64
			Val json.RawMessage
		}
		violations     []violation
		knownConfirmed []string
		oracleFail     []string
		inconclusive   []string
		requested, ran int64

		confirmedSuspects int
	)
	for k := 0; k < nsh; k++ {
		data, err := os.ReadFile(outs[k])
		var so shardOut
		if err != nil || json.Unmarshal(data, &so) != nil {
			inconclusive = append(inconclusive, fmt.Sprintf("shard %d produced no result (exit %d)\n%s", k, codes[k], tail(logs[k], 3000)))
			continue
		}
		if codes[k] == 3 {
			// watchdog: confirm the suspect in a fresh process with a larger budget
			sp, _ := os.ReadFile(outs[k] + ".suspect")
			if len(sp) > 0 && confirmedSuspects > 0 {
				// one confirmed suspect decides the run; the others are listed, not replayed
				inconclusive = append(inconclusive, fmt.Sprintf("shard %d hit the per-case watchdog (suspect %s not replayed: another suspect was already confirmed)", k, strings.TrimSpace(string(sp))))
			} else if len(sp) > 0 {
				switch verdict, detail := confirmHang(bin, filepath.Join(hdir, pkg), id, string(sp), cfg.MemKB); verdict {
				case "hang", "crash", "fails":
					confirmedSuspects++
					violations = append(violations, violation{Sub: verdict, Replay: string(sp), Msg: detail})
				default:
					inconclusive = append(inconclusive, fmt.Sprintf("shard %d hit the per-case watchdog but the case passes when replayed alone", k))
				}
			}
		} else if !so.Done {
			inconclusive = append(inconclusive, fmt.Sprintf("shard %d did not finish (exit %d)\n%s", k, codes[k], tail(logs[k], 3000)))
		} else if codes[k] != 0 && len(so.Violations) == 0 && len(so.OracleFail) == 0 {
			inconclusive = append(inconclusive, fmt.Sprintf("shard %d exited %d without a recorded violation\n%s", k, codes[k], tail(logs[k], 3000)))
		}
		evals += so.Cov.Evals
		counted += so.Cov.Counted
		if so.Cov.FPFile != "" {
			if raw, err := os.ReadFile(so.Cov.FPFile); err == nil {
				for i := 0; i+8 <= len(raw); i += 8 {
					fps[binary.LittleEndian.Uint64(raw[i:])] = struct{}{}
				}
			}
		}
		for c, n := range so.Cov.Classes {
			classes[c] += n
		}
		for c, n := range so.Cov.Known {
			known[c] += n
		}
		for c, n := range so.Cov.Excluded {
			excluded[c] += n
		}
		for _, p := range so.Cov.Parts {
			q := parts[p.Name]
			if q == nil {
				cp := p
				parts[p.Name] = &cp
				partShards[p.Name] = 1
				continue
			}
			q.Size += p.Size
			q.Complete = q.Complete && p.Complete
			partShards[p.Name]++
		}
		samples = append(samples, so.Cov.Samples...)
		violations = append(violations, so.Violations...)
		knownConfirmed = append(knownConfirmed, so.KnownConfirmed...)
		oracleFail = append(oracleFail, so.OracleFail...)
		for _, r := range so.Rapid {
			requested += int64(r.Requested)
			if !r.Failed {
				ran += int64(r.Requested)
			}
		}
	}
	for name, p := range parts {
		if partShards[name] != nsh {
			p.Complete = false
		}
	}
	sort.Slice(samples, func(i, j int) bool { return samples[i].FP < samples[j].FP })
	var sampleVals []json.RawMessage
	seen := map[uint64]bool{}
	for _, s := range samples {
		if !seen[s.FP] && len(sampleVals) < 8 {
			seen[s.FP] = true
			sampleVals = append(sampleVals, s.Val)
		}
	}

	// 4. optional native fuzzing (thorough only), after the deterministic part
	var fuzzInfo []map[string]any
	if mode == "thorough" && replay == "" && len(violations) == 0 {
		for _, target := range fuzzTargets(filepath.Join(hdir, pkg)) {
			info, v := runFuzz(hdir, pkg, id, target)
			fuzzInfo = append(fuzzInfo, info)
			violations = append(violations, v...)
		}
	}

	// 5. verdict
	wall := time.Since(started).Seconds()
	if replay == "" {
		ruleBytes, _ := os.ReadFile(filepath.Join(hdir, pkg, "RULE.txt"))
		rule := strings.TrimSpace(string(ruleBytes))
		var partList []part
		allExh := len(parts) > 0
		for _, p := range parts {
			partList = append(partList, *p)
		}
		sort.Slice(partList, func(i, j int) bool { return partList[i].Name < partList[j].Name })
		_ = allExh
		ev := map[string]any{
			"property_id": id,
			"tier":        mode,
			"seed":        int64(seed & 0x7fffffffffffffff),
			"level":       "exploration",
			"coverage": map[string]any{
				"evaluations":           evals,
				"distinct_nontrivial":   counted + int64(len(fps)),
				"rule":                  rule,
				"samples":               sampleVals,
				"classes":               classes,
				"exhaustive_parts":      partList,
				"exhaustive":            false,
				"known_suppressed":      known,
				"excluded_known":        excluded,
				"rapid_cases_requested": requested,
				"rapid_cases_completed": ran,
				"shards":                nsh,
				"fuzz":                  fuzzInfo,
			},
			"assumptions": []string{
				"reference model harness/ref (written from RFC 8259/7493/8785/6901 and ECMA-262) is correct; it is cross-checked against std encoding/json and strconv where the specifications coincide",
				"Go toolchain go1.26.8, strconv, math/big, unicode/utf16 and pgregory.net/rapid v1.3.0 are correct",
			},
			"wall_s":     wall,
			"violations": len(violations),
		}
		data, _ := json.MarshalIndent(ev, "", " ")
		if len(inconclusive) == 0 || evals > 0 {
			os.WriteFile(filepath.Join(root, "evidence", id+".json"), append(data, '\n'), 0o644)
		}
	}
	// scratch files of this run (test binary, shard outputs, alternative module files)
	if os.Getenv("VERIF_KEEP_BUILD") == "" {
		pid := fmt.Sprint(os.Getpid())
		if ents, err := os.ReadDir(bdir); err == nil {
			for _, e := range ents {
				n := e.Name()
				if strings.Contains(n, "."+pid+".") || strings.Contains(n, "-"+pid+".") {
					os.Remove(filepath.Join(bdir, n))
				}
			}
		}
	}
	for _, k := range dedup(knownConfirmed) {
		fmt.Printf("KNOWN-FINDING: property=%s %s\n", id, k)
	}
	if len(violations) > 0 {
		seenV := map[string]bool{}
		for _, v := range violations {
			if seenV[v.Replay] {
				continue
			}
			seenV[v.Replay] = true
			rel := v.Replay
			if r, err := filepath.Rel(root, v.Replay); err == nil && !strings.HasPrefix(r, "..") {
				rel = r
			}
			fmt.Printf("VIOLATION property=%s replay=%s\n", id, rel)
			fmt.Printf("  [%s] %s\n", v.Sub, clip(firstLines(v.Msg, 8), 700))
		}
		os.Exit(1)
	}
	if len(oracleFail) > 0 {
		die2("oracle self-test / harness problem (not a verdict on the code):\n%s", strings.Join(oracleFail, "\n"))
	}
	if len(inconclusive) > 0 {
		die2("%s", strings.Join(inconclusive, "\n"))
	}
	if replay != "" {
		fmt.Printf("replay of %s: no violation\n", replay)
	} else {
		fmt.Printf("OK property=%s tier=%s seed=%d evaluations=%d distinct_nontrivial=%d wall=%.1fs\n", id, mode, seed, evals, counted+int64(len(fps)), wall)
	}
}

func dedup(in []string) []string {
	seen := map[string]bool{}
	var out []string
	for _, s := range in {
		if !seen[s] {
			seen[s] = true
			out = append(out, s)
		}
	}
	sort.Strings(out)
	return out
}

func firstLines(s string, n int) string {
	lines := strings.Split(s, "\n")
	if len(lines) > n {
		lines = lines[:n]
	}
	return strings.Join(lines, "\n    ")
}

func clip(s string, n int) string {
	if len(s) > n {
		return s[:n] + "..."
	}
	return s
}

func tail(s string, n int) string {
	if len(s) > n {
		return "..." + s[len(s)-n:]
	}
	return s
}

// acquireSlot takes one of a fixed number of machine-wide slots (flock on
// files under /tmp/verif-slots) so that several concurrent ./check runs do
// not oversubscribe the CPUs. It returns a release function.
func acquireSlot() func() {
	if os.Getenv("VERIF_NOSLOTS") != "" {
		return func() {}
	}
	dir := "/tmp/verif-slots"
	if os.MkdirAll(dir, 0o777) != nil {
		return func() {}
	}
	const slots = 20
	start := time.Now()
	for {
		for i := 0; i < slots; i++ {
			f, err := os.OpenFile(filepath.Join(dir, fmt.Sprintf("slot%d", (i+os.Getpid())%slots)), os.O_CREATE|os.O_RDWR, 0o666)
			if err != nil {
				continue
			}
			if syscall.Flock(int(f.Fd()), syscall.LOCK_EX|syscall.LOCK_NB) == nil {
				return func() { syscall.Flock(int(f.Fd()), syscall.LOCK_UN); f.Close() }
			}
			f.Close()
		}
		if time.Since(start) > 45*time.Minute {
			return func() {} // give up waiting rather than stall forever
		}
		time.Sleep(300 * time.Millisecond)
	}
}

func runShard(bin, dir, id, tier string, k, nsh int, seed uint64, out, replay string, timeout time.Duration, memKB int64) (int, string) {
	release := acquireSlot()
	defer release()
	ctx, cancel := context.WithTimeout(context.Background(), timeout+2*time.Minute)
	defer cancel()
	sh := fmt.Sprintf("ulimit -v %d 2>/dev/null; exec %q -test.run '^TestCheck$' -test.timeout %s -test.count 1", memKB, bin, timeout)
	cmd := exec.CommandContext(ctx, "bash", "-c", sh)
	cmd.Dir = dir
	cmd.Env = append(os.Environ(),
		"VERIF_TIER="+tier,
		fmt.Sprintf("VERIF_SHARD=%d", k),
		fmt.Sprintf("VERIF_NSHARDS=%d", nsh),
		fmt.Sprintf("VERIF_SEED=%d", seed),
		"VERIF_OUT="+out,
		"VERIF_REPLAY="+replay,
		"VERIF_ROOT="+root,
		"GOMAXPROCS=2",
	)
	var buf bytes.Buffer
	cmd.Stdout = &buf
	cmd.Stderr = &buf
	err := cmd.Run()
	code := 0
	if err != nil {
		code = -1
		if ee, ok := err.(*exec.ExitError); ok {
			code = ee.ExitCode()
		}
	}
	if os.Getenv("VERIF_VERBOSE") != "" {
		fmt.Fprintf(os.Stderr, "---- shard %d (exit %d)\n%s\n", k, code, tail(buf.String(), 6000))
	}
	return code, buf.String()
}

func confirmHang(bin, dir, id, suspect string, memKB int64) (verdict, detail string) {
	// A case runs for milliseconds; replayed alone it gets four minutes.
	ctx, cancel := context.WithTimeout(context.Background(), 5*time.Minute)
	defer cancel()
	sh := fmt.Sprintf("ulimit -v %d 2>/dev/null; exec %q -test.run '^TestCheck$' -test.timeout 4m -test.count 1", memKB, bin)
	cmd := exec.CommandContext(ctx, "bash", "-c", sh)
	cmd.Dir = dir
	cmd.Env = append(os.Environ(), "VERIF_REPLAY="+suspect, "VERIF_ROOT="+root, "VERIF_NOWATCHDOG=1", "VERIF_OUT=")
	out, err := cmd.CombinedOutput()
	switch {
	case ctx.Err() != nil, err != nil && bytes.Contains(out, []byte("test timed out")):
		return "hang", "case does not terminate within the confirmation budget"
	case err == nil:
		return "passes", ""
	}
	for _, mark := range []string{"fatal error: ", "runtime: out of memory", "cannot allocate memory", "signal: killed", "stack exceeds"} {
		if i := bytes.Index(out, []byte(mark)); i >= 0 {
			return "crash", "replayed alone in a fresh process the case kills the process: " + firstLine(string(out[i:]))
		}
	}
	return "fails", "replayed alone the case fails: " + tail(string(out), 600)
}

func firstLine(s string) string {
	if i := strings.IndexByte(s, '\n'); i >= 0 {
		s = s[:i]
	}
	if len(s) > 300 {
		s = s[:300]
	}
	return s
}

// fuzzTargets lists native fuzz targets declared in FUZZ.txt of the package:
// one "FuzzName duration" per line.
func fuzzTargets(dir string) []string {
	data, err := os.ReadFile(filepath.Join(dir, "FUZZ.txt"))
	if err != nil {
		return nil
	}
	var out []string
	for _, l := range strings.Split(string(data), "\n") {
		l = strings.TrimSpace(l)
		if l != "" && !strings.HasPrefix(l, "#") {
			out = append(out, l)
		}
	}
	return out
}

// runFuzz runs one coverage-guided campaign. The fuzz target carries the
// oracle; on failure it saves the decoded case under replays/ and prints a
// line "VERIF-FUZZ-REPLAY <path>".
func runFuzz(hdir, pkg, id, spec string) (map[string]any, []violation) {
	fields := strings.Fields(spec)
	target := fields[0]
	dur := "60s"
	if len(fields) > 1 {
		dur = fields[1]
	}
	if v := os.Getenv("VERIF_FUZZTIME"); v != "" {
		dur = v
	}
	info := map[string]any{"target": target, "fuzztime": dur}
	d, _ := time.ParseDuration(dur)
	ctx, cancel := context.WithTimeout(context.Background(), d+5*time.Minute)
	defer cancel()
	fargs := []string{"test", "-tags", "verif", "-run", "^$", "-fuzz", "^" + target + "$", "-fuzztime", dur}
	if altModfile != "" {
		fargs = append(fargs, "-modfile", altModfile)
	}
	fargs = append(fargs, "./"+pkg)
	cmd := exec.CommandContext(ctx, goBin, fargs...)
	cmd.Dir = hdir
	cmd.Env = append(goEnv(), "VERIF_ROOT="+root, "VERIF_FUZZING=1")
	out, err := cmd.CombinedOutput()
	text := string(out)
	// parse the last "execs:" line
	for _, l := range strings.Split(text, "\n") {
		if i := strings.Index(l, "execs: "); i >= 0 {
			info["last_progress"] = strings.TrimSpace(l)
		}
	}
	// remove crashers written into the package's testdata (the replay file is the reproducible unit)
	defer os.RemoveAll(filepath.Join(hdir, pkg, "testdata", "fuzz", target))
	if err == nil {
		info["result"] = "no failure"
		return info, nil
	}
	var vs []violation
	for _, l := range strings.Split(text, "\n") {
		if i := strings.Index(l, "VERIF-FUZZ-REPLAY "); i >= 0 {
			p := strings.TrimSpace(l[i+len("VERIF-FUZZ-REPLAY "):])
			vs = append(vs, violation{Sub: target, Replay: p, Msg: "native fuzz campaign found a failing case"})
		}
	}
	if len(vs) == 0 {
		info["result"] = "fuzz run ended abnormally without a recorded case (inconclusive): " + tail(text, 800)
		return info, nil
	}
	info["result"] = "failure"
	return info, vs[:1]
}

package c15

// The rule model: an independent statement of the documented struct rules
// ("JSON Representation of Go structs" in doc.go and the option docs). It
// works on plain type descriptions (tv.Desc) and on Go values built by the
// harness; it never calls the code under test.

import (
	"fmt"
	"reflect"
	"sort"
	"strconv"
	"strings"
	"unicode"
	"unicode/utf8"

	"verif/harness/opt"
	"verif/harness/tv"
)

// ---- options -----------------------------------------------------------------

// flags is the documented meaning of an option list for struct handling.
type flags struct {
	caseInsens    bool // MatchCaseInsensitiveNames
	rejectUnknown bool // RejectUnknownMembers
	omitZero      bool // OmitZeroStructFields
	csDelim       bool // v1.MatchCaseSensitiveDelimiter
	legacyErrors  bool // v1.ReportErrorsWithLegacySemantics
	legacyEmpty   bool // v1.OmitEmptyWithLegacySemantics
	legacyString  bool // v1.StringifyWithLegacySemantics
	nilSliceNull  bool // FormatNilSliceAsNull
	nilMapNull    bool // FormatNilMapAsNull
	allowDup      bool // jsontext.AllowDuplicateNames
	funcMeth      bool // a caller-supplied MarshalFunc for MethStr is in effect (it goes before the type's own method)
}

// flagsOf evaluates the specs in order (later settings win). DefaultOptionsV1
// sets exactly the options its documentation lists.
func flagsOf(specs []opt.Spec) flags {
	var f flags
	for _, s := range specs {
		switch s.Name {
		case "DefaultOptionsV1":
			f.caseInsens, f.csDelim, f.legacyErrors, f.legacyEmpty, f.legacyString = true, true, true, true, true
			f.nilSliceNull, f.nilMapNull, f.allowDup = true, true, true
		case "MatchCaseInsensitiveNames":
			f.caseInsens = s.B
		case "RejectUnknownMembers":
			f.rejectUnknown = s.B
		case "OmitZeroStructFields":
			f.omitZero = s.B
		case "MatchCaseSensitiveDelimiter":
			f.csDelim = s.B
		case "AllowDuplicateNames":
			f.allowDup = s.B
		}
	}
	return f
}

// ---- tags --------------------------------------------------------------------

type tagInfo struct {
	ignored   bool // `json:"-"`
	name      string
	hasName   bool
	omitzero  bool
	omitempty bool
	str       bool
	embed     bool
	casing    int // 0 none, 1 case:ignore, 2 case:strict
}

// parseTag reads the restricted tag grammar the generator emits:
// name[,option]* with options omitzero, omitempty, string, embed,
// case:ignore, case:strict. The JSON name of an untagged (or unnamed) field is
// the Go field name.
func parseTag(f *tv.Field) tagInfo {
	ti := tagInfo{name: f.Name}
	if f.Tag == "-" {
		ti.ignored = true
		return ti
	}
	parts := strings.Split(f.Tag, ",")
	if parts[0] != "" {
		ti.name, ti.hasName = parts[0], true
	}
	for _, p := range parts[1:] {
		switch p {
		case "omitzero":
			ti.omitzero = true
		case "omitempty":
			ti.omitempty = true
		case "string":
			ti.str = true
		case "embed":
			ti.embed = true
		case "case:ignore":
			ti.casing = 1
		case "case:strict":
			ti.casing = 2
		}
	}
	return ti
}

func exportedName(n string) bool {
	r, _ := utf8.DecodeRuneInString(n)
	return unicode.IsUpper(r)
}

type isZeroer interface{ IsZero() bool }

// goIsZero is the documented omitzero condition: the IsZero method if the
// field type has one, otherwise whether the field is the zero Go value.
func goIsZero(v reflect.Value) bool {
	switch v.Kind() {
	case reflect.Interface:
		return v.IsZero()
	case reflect.Pointer:
		if v.IsNil() {
			return true
		}
	}
	if v.CanInterface() {
		if z, ok := v.Interface().(isZeroer); ok {
			return z.IsZero()
		}
	}
	return v.IsZero()
}

func isNumeric(k string) bool { return tv.IsInt(k) || tv.IsUint(k) || tv.IsFloat(k) }

// structOf returns the struct description behind at most one pointer.
func structOf(d *tv.Desc) *tv.Desc {
	if d.K == "ptr" {
		d = d.Elem
	}
	if d.K == "struct" {
		return d
	}
	return nil
}

func isFallbackType(d *tv.Desc) bool {
	if d.K == "ptr" {
		d = d.Elem
	}
	return d.K == "raw" || (d.K == "map" && d.Key.K == "string")
}

// ---- resolution --------------------------------------------------------------

// model caches resolutions per description for the duration of one case.
type model struct {
	res map[*tv.Desc]*resolved
}

func newModel() *model { return &model{res: map[*tv.Desc]*resolved{}} }

func (m *model) resolve(d *tv.Desc) *resolved {
	if r, ok := m.res[d]; ok {
		return r
	}
	r := resolve(d)
	m.res[d] = r
	return r
}

// cand is one Go struct field that is a candidate JSON member.
type cand struct {
	path []int // field indexes from the root description; the last is the field itself
	f    *tv.Field
	ti   tagInfo
}

func (c *cand) depth() int { return len(c.path) - 1 }

func pathKey(p []int) string {
	var sb strings.Builder
	for i, x := range p {
		if i > 0 {
			sb.WriteByte('.')
		}
		sb.WriteString(strconv.Itoa(x))
	}
	return sb.String()
}

func pathLess(a, b []int) bool {
	for i := 0; i < len(a) && i < len(b); i++ {
		if a[i] != b[i] {
			return a[i] < b[i]
		}
	}
	return len(a) < len(b)
}

// resolved is the list of JSON representable fields of a struct type.
type resolved struct {
	fields    []*cand // surviving fields, depth-first declaration order
	all       []*cand // every candidate, breadth-first order
	fallback  *cand   // embedded fallback (at most one is generated per type graph)
	nFallback int
	conflict  bool // some struct of the graph has two non-embedded fields with one JSON name
	// repeatedKids: a struct type that has embedded children is embedded twice
	// at its shallowest depth (DESIGN C15 soundness note 2): the rule model is
	// not applied, only the cross-check with encoding/json.
	repeatedKids bool
	stats        resStats
}

type resStats struct {
	collideDepth   map[int]int // name collisions decided by depth, keyed by the winning depth
	ties           [3]int      // ties at the shallowest depth with 0, 1, >=2 tagged fields
	sameStructDups int
	embedOpt       int
	goEmbed        int
	ptrEmbed       int
	ignored        int
	maxDepth       int
	nfields        int
}

type level struct {
	d    *tv.Desc
	path []int
}

// resolve applies the documented rules to a struct description: breadth-first
// search descending into embedded structs; per JSON name the field at the
// shallowest depth wins; several fields at the shallowest depth are decided by
// "exactly one is explicitly tagged with a JSON name", otherwise none is kept.
func resolve(root *tv.Desc) *resolved {
	r := &resolved{stats: resStats{collideDepth: map[int]int{}}}
	type occ struct{ depths []int }
	occs := map[string]*occ{} // struct signature -> depths at which it is embedded
	hasKids := map[string]bool{}
	cur := []level{{root, nil}}
	for depth := 0; len(cur) > 0; depth++ {
		var next []level
		for _, lv := range cur {
			names := map[string]bool{}
			for i := range lv.d.Fields {
				f := &lv.d.Fields[i]
				ti := parseTag(f)
				if ti.ignored {
					r.stats.ignored++
					continue
				}
				if !exportedName(f.Name) && !(f.Embedded && structOf(f.T) != nil) {
					continue // unexported fields are excluded (an embedded struct may still promote exported fields)
				}
				p := append(append([]int(nil), lv.path...), i)
				c := &cand{path: p, f: f, ti: ti}
				embedded := ti.embed || (f.Embedded && !ti.hasName && structOf(f.T) != nil)
				if embedded {
					if s := structOf(f.T); s != nil {
						if ti.embed {
							r.stats.embedOpt++
						} else {
							r.stats.goEmbed++
						}
						if f.T.K == "ptr" {
							r.stats.ptrEmbed++
						}
						next = append(next, level{s, p})
						sig := s.Sig()
						o := occs[sig]
						if o == nil {
							o = &occ{}
							occs[sig] = o
						}
						o.depths = append(o.depths, depth+1)
						hasKids[lv.d.Sig()] = true
						continue
					}
					if isFallbackType(f.T) {
						r.nFallback++
						if r.fallback == nil {
							r.fallback = c
						}
						continue
					}
				}
				if names[ti.name] {
					r.conflict = true
					r.stats.sameStructDups++
				}
				names[ti.name] = true
				r.all = append(r.all, c)
				if depth > r.stats.maxDepth {
					r.stats.maxDepth = depth
				}
			}
		}
		cur = next
	}
	for sig, o := range occs {
		if len(o.depths) >= 2 && o.depths[0] == o.depths[1] && hasKids[sig] {
			r.repeatedKids = true
		}
	}
	// group by JSON name
	byName := map[string][]*cand{}
	var order []string
	for _, c := range r.all {
		if _, ok := byName[c.ti.name]; !ok {
			order = append(order, c.ti.name)
		}
		byName[c.ti.name] = append(byName[c.ti.name], c)
	}
	for _, n := range order {
		group := byName[n]
		min := group[0].depth()
		for _, c := range group {
			if c.depth() < min {
				min = c.depth()
			}
		}
		var top, tagged []*cand
		for _, c := range group {
			if c.depth() == min {
				top = append(top, c)
				if c.ti.hasName {
					tagged = append(tagged, c)
				}
			}
		}
		switch {
		case len(top) == 1:
			r.fields = append(r.fields, top[0])
			if len(group) > 1 {
				r.stats.collideDepth[min]++
			}
		case len(tagged) == 1:
			r.fields = append(r.fields, tagged[0])
			r.stats.ties[1]++
		default:
			if len(tagged) == 0 {
				r.stats.ties[0]++
			} else {
				r.stats.ties[2]++
			}
		}
	}
	sort.Slice(r.fields, func(i, j int) bool { return pathLess(r.fields[i].path, r.fields[j].path) })
	r.stats.nfields = len(r.fields)
	return r
}

// ---- name matching -----------------------------------------------------------

func stripDelims(s string) string {
	return strings.Map(func(r rune) rune {
		if r == '_' || r == '-' {
			return -1
		}
		return r
	}, s)
}

// foldEq is case-insensitive equality; dashes and underscores are ignored
// unless MatchCaseSensitiveDelimiter is set ("identical to strings.EqualFold").
func foldEq(a, b string, csDelim bool) bool {
	if csDelim {
		return strings.EqualFold(a, b)
	}
	return strings.EqualFold(stripDelims(a), stripDelims(b))
}

type outcome int

const (
	toField outcome = iota
	toFallback
	ignoredName
	errAmbiguous
	errUnknown
)

func (o outcome) String() string {
	return [...]string{"field", "fallback", "ignored", "error(ambiguous)", "error(unknown)"}[o]
}

// lookupRes says where one input member name goes.
type lookupRes struct {
	out    outcome
	target *cand   // toField: the field by the documented rules
	alt    *cand   // legacy mode with several folded candidates: the first candidate in breadth-first order (finding F12) when it differs from target
	folded bool    // matched through case-insensitive matching
	cands  []*cand // folded candidates considered (no exact match)
}

// lookup resolves an input member name: exact match first; then, for fields
// that asked for it (case:ignore, or MatchCaseInsensitiveNames unless
// case:strict), a case-insensitive match; several such candidates are an
// error (or, with legacy error reporting, the first declared field is used).
func (r *resolved) lookup(name string, fl flags) lookupRes {
	for _, c := range r.fields {
		if c.ti.name == name {
			return lookupRes{out: toField, target: c}
		}
	}
	var cs []*cand
	for _, c := range r.fields { // depth-first declaration order
		insens := c.ti.casing == 1 || (fl.caseInsens && c.ti.casing != 2)
		if insens && foldEq(c.ti.name, name, fl.csDelim) {
			cs = append(cs, c)
		}
	}
	switch {
	case len(cs) == 1:
		return lookupRes{out: toField, target: cs[0], folded: true, cands: cs}
	case len(cs) > 1:
		if !fl.legacyErrors {
			return lookupRes{out: errAmbiguous, cands: cs}
		}
		res := lookupRes{out: toField, target: cs[0], folded: true, cands: cs}
		bfs := cs[0]
		for _, c := range cs[1:] {
			if c.depth() < bfs.depth() || (c.depth() == bfs.depth() && pathLess(c.path, bfs.path)) {
				bfs = c
			}
		}
		if bfs != cs[0] {
			res.alt = bfs
		}
		return res
	}
	if r.fallback != nil {
		return lookupRes{out: toFallback}
	}
	if fl.rejectUnknown {
		return lookupRes{out: errUnknown}
	}
	return lookupRes{out: ignoredName}
}

// ---- expected encoding -------------------------------------------------------

func quote(s string) string {
	var sb strings.Builder
	sb.WriteByte('"')
	for _, r := range s {
		switch {
		case r == '"' || r == '\\':
			sb.WriteByte('\\')
			sb.WriteRune(r)
		case r < 0x20:
			fmt.Fprintf(&sb, "\\u%04x", r)
		default:
			sb.WriteRune(r)
		}
	}
	sb.WriteByte('"')
	return sb.String()
}

// member is one expected object member.
type member struct {
	name string
	val  string // compact JSON text
}

type encErr struct{ msg string }

func (e *encErr) Error() string { return e.msg }

// encValue is the documented default encoding of the (small) value universe
// of this check.
func (m *model) encValue(d *tv.Desc, v reflect.Value, fl flags) (string, error) {
	switch {
	case tv.IsInt(d.K):
		return strconv.FormatInt(v.Int(), 10), nil
	case tv.IsUint(d.K):
		return strconv.FormatUint(v.Uint(), 10), nil
	case tv.IsFloat(d.K):
		return strconv.FormatFloat(v.Float(), 'f', -1, 64), nil // only small integers are used
	case d.K == "string":
		return quote(v.String()), nil
	case d.K == "bool":
		return strconv.FormatBool(v.Bool()), nil
	case d.K == "pool:MethStr":
		if fl.funcMeth {
			return quote("f:" + v.String()), nil
		}
		return quote("m:" + v.String()), nil
	case d.K == "pool:PlainStr":
		if fl.funcMeth {
			return quote("f:" + v.String()), nil
		}
		return quote(v.String()), nil
	case d.K == "pool:MethSlice":
		return fmt.Sprintf(`{"n":%d}`, v.Len()), nil
	case d.K == "ptr":
		if v.IsNil() {
			return "null", nil
		}
		return m.encValue(d.Elem, v.Elem(), fl)
	case d.K == "slice":
		if v.IsNil() {
			if fl.nilSliceNull {
				return "null", nil
			}
			return "[]", nil
		}
		var parts []string
		for i := 0; i < v.Len(); i++ {
			s, err := m.encValue(d.Elem, v.Index(i), fl)
			if err != nil {
				return "", err
			}
			parts = append(parts, s)
		}
		return "[" + strings.Join(parts, ",") + "]", nil
	case d.K == "map":
		if v.IsNil() {
			if fl.nilMapNull {
				return "null", nil
			}
			return "{}", nil
		}
		var keys []string
		for _, k := range v.MapKeys() {
			keys = append(keys, k.String())
		}
		sort.Strings(keys) // at most one key is used in field values
		var parts []string
		for _, k := range keys {
			s, err := m.encValue(d.Elem, v.MapIndex(reflect.ValueOf(k).Convert(v.Type().Key())), fl)
			if err != nil {
				return "", err
			}
			parts = append(parts, quote(k)+":"+s)
		}
		return "{" + strings.Join(parts, ",") + "}", nil
	case d.K == "any":
		if v.IsNil() {
			return "null", nil
		}
		e := v.Elem()
		switch e.Kind() {
		case reflect.Int:
			return strconv.FormatInt(e.Int(), 10), nil
		case reflect.String:
			return quote(e.String()), nil
		}
		return "", fmt.Errorf("model: unexpected dynamic type %s", e.Type())
	case d.K == "struct":
		ms, err := m.encStruct(d, v, fl)
		if err != nil {
			return "", err
		}
		var parts []string
		for _, m := range ms {
			parts = append(parts, quote(m.name)+":"+m.val)
		}
		return "{" + strings.Join(parts, ",") + "}", nil
	}
	return "", fmt.Errorf("model: unexpected kind %q", d.K)
}

// fieldAt follows a path through embedded structs; ok is false when an embedded
// pointer on the way is nil.
func fieldAt(v reflect.Value, path []int) (reflect.Value, bool) {
	for i, x := range path {
		if v.Kind() == reflect.Pointer {
			if v.IsNil() {
				return reflect.Value{}, false
			}
			v = v.Elem()
		}
		v = v.Field(x)
		_ = i
	}
	return v, true
}

// legacyEmpty is the v1 definition of empty (OmitEmptyWithLegacySemantics):
// false, 0, a nil pointer, a nil interface value, or any empty array, slice,
// map, or string.
func legacyEmpty(v reflect.Value) bool {
	switch v.Kind() {
	case reflect.Bool:
		return !v.Bool()
	case reflect.Int, reflect.Int8, reflect.Int16, reflect.Int32, reflect.Int64:
		return v.Int() == 0
	case reflect.Uint, reflect.Uint8, reflect.Uint16, reflect.Uint32, reflect.Uint64:
		return v.Uint() == 0
	case reflect.Float32, reflect.Float64:
		return v.Float() == 0
	case reflect.Pointer, reflect.Interface:
		return v.IsNil()
	case reflect.Array, reflect.Slice, reflect.Map, reflect.String:
		return v.Len() == 0
	}
	return false
}

// stringApplies says what the `string` option does to a field of description d:
// quote (the value is a JSON number, or with legacy semantics also a bool or
// string; pointers to such are followed), invalid (runtime error under v2
// semantics) or no effect (legacy semantics on other types).
func stringApplies(d *tv.Desc, fl flags) (quoteIt, invalid bool) {
	depth := 0
	for d.K == "ptr" {
		d = d.Elem
		depth++
	}
	k := d.K
	if depth >= 2 && fl.legacyString {
		// like encoding/json, the legacy rule looks through one pointer only
		return false, false
	}
	if isNumeric(k) {
		return true, false
	}
	if fl.legacyString && (k == "string" || k == "bool") {
		return true, false
	}
	if fl.legacyErrors || fl.legacyString {
		return false, false
	}
	return false, true
}

// encStruct lists the members the documented rules give for struct value v.
func (m *model) encStruct(d *tv.Desc, v reflect.Value, fl flags) ([]member, error) {
	r := m.resolve(d)
	if r.conflict && !fl.legacyErrors {
		return nil, &encErr{"two fields of one struct share a JSON name"}
	}
	var out []member
	for _, c := range r.fields {
		fv, ok := fieldAt(v, c.path)
		if !ok {
			continue // embedded fields from a nil pointer are omitted
		}
		if (c.ti.omitzero || fl.omitZero) && goIsZero(fv) {
			continue
		}
		if c.ti.omitempty && fl.legacyEmpty && legacyEmpty(fv) {
			continue
		}
		txt, err := m.encValue(c.f.T, fv, fl)
		if err != nil {
			return nil, err
		}
		if c.ti.str {
			q, invalid := stringApplies(c.f.T, fl)
			if invalid {
				if fv.Kind() == reflect.Pointer && fv.IsNil() {
					return nil, fmt.Errorf("model: nil pointer under an invalid `string` option is not judged")
				}
				return nil, &encErr{"`string` on a type that is not a JSON number"}
			}
			if q && txt != "null" {
				txt = quote(txt)
			}
		}
		if c.ti.omitempty && !fl.legacyEmpty && (txt == "null" || txt == `""` || txt == "{}" || txt == "[]") {
			continue
		}
		out = append(out, member{c.ti.name, txt})
	}
	if r.fallback != nil {
		fv, ok := fieldAt(v, r.fallback.path)
		if ok {
			ms, err := m.fallbackMembers(r.fallback.f.T, fv, fl)
			if err != nil {
				return nil, err
			}
			if !fl.allowDup {
				for _, fm := range ms {
					for _, dm := range out {
						if fm.name == dm.name {
							return nil, &encErr{fmt.Sprintf("the embedded fallback repeats the member %q that was written for a declared field", fm.name)}
						}
					}
				}
			}
			out = append(out, ms...)
		}
	}
	return out, nil
}

package c15

import (
	"testing"

	"verif/harness/rt"
)

// FuzzStructGraphs lets the native fuzzer drive the "struct-graphs" generator (coverage-guided).
func FuzzStructGraphs(f *testing.F) {
	rt.FuzzRapid(f, "C15", "struct-graphs", genCase, Run)
}

package c15

// A small pool of compiled types for what reflect.StructOf cannot build:
// unexported embedded struct types, unexported plain fields, named embedded
// types and field types with an IsZero method. Each comes with a mirror
// description for the rule model; the mirror is verified against the type.

import (
	"fmt"
	"reflect"

	"verif/harness/cov"
	"verif/harness/opt"
	"verif/harness/rt"
	"verif/harness/tv"
)

// zInt reports itself "zero" when odd: the Go zero value 0 is not IsZero, an
// odd sentinel is.
type zInt int

func (z zInt) IsZero() bool { return z%2 == 1 }

// MethStr and MethSlice have a Go-empty zero value that their own MarshalJSON
// turns into a non-empty JSON value: whether an omitempty member is dropped
// must be decided by what the method writes, not by the length.
type MethStr string

func (m MethStr) MarshalJSON() ([]byte, error) { return []byte(`"m:` + string(m) + `"`), nil }
func (m *MethStr) UnmarshalJSON(b []byte) error {
	if len(b) >= 2 && b[0] == '"' {
		*m = MethStr(b[1 : len(b)-1])
	}
	return nil
}

// PlainStr has no methods: only a caller-supplied function can change how it is written.
type PlainStr string

type MethSlice []int

func (m MethSlice) MarshalJSON() ([]byte, error) { return []byte(fmt.Sprintf(`{"n":%d}`, len(m))), nil }
func (m *MethSlice) UnmarshalJSON(b []byte) error {
	*m = MethSlice{len(b)}
	return nil
}

// otherT never occurs in a value: functions registered for it are unrelated to every field.
type otherT struct{ Z int }

func init() {
	tv.RegisterPool(tv.PoolType{Name: "MethStr", Type: reflect.TypeFor[MethStr](), Under: &tv.Desc{K: "string"}})
	tv.RegisterPool(tv.PoolType{Name: "PlainStr", Type: reflect.TypeFor[PlainStr](), Under: &tv.Desc{K: "string"}})
	tv.RegisterPool(tv.PoolType{Name: "MethSlice", Type: reflect.TypeFor[MethSlice](), Under: &tv.Desc{K: "slice", Elem: &tv.Desc{K: "int"}}})
}

type inner struct {
	Ab int `json:"ab"`
	X  int
	lo int
}

type Named struct {
	Ab int
	Y  zInt `json:"y,omitzero"`
}

type PtrNamed struct {
	X  int `json:"X"`
	Ab int `json:"ab,omitzero"`
	Q  zInt
}

type PoolA struct {
	inner
	Named
	Z  zInt `json:",omitzero"`
	W  zInt
	ab int
	AB int `json:"ab"`
}

type PoolB struct {
	inner
	Named
	*PtrNamed
	V zInt `json:"v,omitzero,string"`
}

type deep struct {
	inner
	K int `json:"k,omitempty"`
}

type PoolC struct {
	deep
	Named `json:"named"`
	Ab    string `json:",omitzero"`
	x     int
	Z     *zInt `json:"z,omitzero"`
}

func (i inner) unused() int { return i.lo }
func (p PoolA) unused() int { return p.ab }
func (p PoolC) unused() int { return p.x }

var (
	dInt   = &tv.Desc{K: "int"}
	dStr   = &tv.Desc{K: "string"}
	mInner = &tv.Desc{K: "struct", Fields: []tv.Field{
		{Name: "Ab", Tag: "ab", HasTag: true, T: dInt}, {Name: "X", T: dInt}, {Name: "lo", T: dInt}}}
	mNamed = &tv.Desc{K: "struct", Fields: []tv.Field{
		{Name: "Ab", T: dInt}, {Name: "Y", Tag: "y,omitzero", HasTag: true, T: dInt}}}
	mPtrNamed = &tv.Desc{K: "struct", Fields: []tv.Field{
		{Name: "X", Tag: "X", HasTag: true, T: dInt}, {Name: "Ab", Tag: "ab,omitzero", HasTag: true, T: dInt}, {Name: "Q", T: dInt}}}
	mDeep = &tv.Desc{K: "struct", Fields: []tv.Field{
		{Name: "inner", Embedded: true, T: mInner}, {Name: "K", Tag: "k,omitempty", HasTag: true, T: dInt}}}
)

type poolType struct {
	typ    reflect.Type
	mirror *tv.Desc
}

var poolTypes = map[string]poolType{
	"PoolA": {reflect.TypeFor[PoolA](), &tv.Desc{K: "struct", Fields: []tv.Field{
		{Name: "inner", Embedded: true, T: mInner}, {Name: "Named", Embedded: true, T: mNamed},
		{Name: "Z", Tag: ",omitzero", HasTag: true, T: dInt}, {Name: "W", T: dInt}, {Name: "ab", T: dInt},
		{Name: "AB", Tag: "ab", HasTag: true, T: dInt}}}},
	"PoolB": {reflect.TypeFor[PoolB](), &tv.Desc{K: "struct", Fields: []tv.Field{
		{Name: "inner", Embedded: true, T: mInner}, {Name: "Named", Embedded: true, T: mNamed},
		{Name: "PtrNamed", Embedded: true, T: &tv.Desc{K: "ptr", Elem: mPtrNamed}},
		{Name: "V", Tag: "v,omitzero,string", HasTag: true, T: dInt}}}},
	"PoolC": {reflect.TypeFor[PoolC](), &tv.Desc{K: "struct", Fields: []tv.Field{
		{Name: "deep", Embedded: true, T: mDeep}, {Name: "Named", Embedded: true, Tag: "named", HasTag: true, T: mNamed},
		{Name: "Ab", Tag: ",omitzero", HasTag: true, T: dStr}, {Name: "x", T: dInt},
		{Name: "Z", Tag: "z,omitzero", HasTag: true, T: &tv.Desc{K: "ptr", Elem: dInt}}}}},
}

var poolOrder = []string{"PoolA", "PoolB", "PoolC"}

// verifyMirror checks that a mirror description says what the compiled type says.
func verifyMirror(d *tv.Desc, t reflect.Type) error {
	switch d.K {
	case "ptr":
		if t.Kind() != reflect.Pointer {
			return fmt.Errorf("%v is not a pointer", t)
		}
		return verifyMirror(d.Elem, t.Elem())
	case "struct":
		if t.Kind() != reflect.Struct || t.NumField() != len(d.Fields) {
			return fmt.Errorf("%v: field count differs from the mirror", t)
		}
		for i := range d.Fields {
			f, sf := &d.Fields[i], t.Field(i)
			tag, has := sf.Tag.Lookup("json")
			if f.Name != sf.Name || f.Embedded != sf.Anonymous || has != (f.HasTag || f.Tag != "") || tag != f.Tag {
				return fmt.Errorf("%v field %d: mirror %+v, type %s %q", t, i, *f, sf.Name, sf.Tag)
			}
			if err := verifyMirror(f.T, sf.Type); err != nil {
				return err
			}
		}
		return nil
	case "int":
		if t.Kind() != reflect.Int {
			return fmt.Errorf("%v is not an int kind", t)
		}
	case "string":
		if t.Kind() != reflect.String {
			return fmt.Errorf("%v is not a string kind", t)
		}
	}
	return nil
}

var poolNames = []string{"ab", "Ab", "AB", "a_b", "X", "x", "y", "Y", "Z", "z", "W", "lo", "Q", "k", "K", "named", "v", "inner", "Named", "zz"}

// enumPool runs every pool type under every option set of the generator with
// a fixed name list (split in two halves) and six value profiles.
func enumPool(e *rt.Env, yield func(Case) bool) {
	for _, n := range poolOrder {
		if err := verifyMirror(poolTypes[n].mirror, poolTypes[n].typ); err != nil {
			e.OracleFail("pool mirror does not match its type: " + err.Error())
			return
		}
	}
	var idx, total int64
	complete := true
	modes := [][]byte{{0}, {1}, {0, 1}, {1, 0}, {0, 0, 1}, {2, 0, 1, 1}}
outer:
	for _, n := range poolOrder {
		for _, o := range optSets {
			for half := 0; half < 2; half++ {
				idx++
				if !e.Mine(idx) {
					continue
				}
				total++
				names := poolNames[:len(poolNames)/2]
				if half == 1 {
					names = poolNames[len(poolNames)/2:]
				}
				c := Case{Pool: n, Modes: modes, Trials: []Trial{{Opts: append([]opt.Spec(nil), o...), Names: names, Dup: true}}}
				if !yield(c) {
					complete = false
					break outer
				}
			}
		}
	}
	e.Rec.AddPart(cov.Part{Name: fmt.Sprintf("%d compiled pool types (unexported embedded structs, unexported fields, IsZero methods, named embedded types) x %d option sets x 2 name lists x %d value profiles", len(poolOrder), len(optSets), len(modes)), Size: total, Complete: complete})
}

package c15

import (
	"fmt"

	"verif/harness/cov"
	"verif/harness/opt"
	"verif/harness/rt"
	"verif/harness/tv"
)

// Bounded-exhaustive catalogue: one JSON name family placed at four positions
// of a fixed embedding graph
//
//	root { [P0]; A {[P1]; C {[P3]; UC}; UA}; B {[P2]; UB}; UR }
//
// where every position is absent, an untagged field Ab, or a field tagged
// "Ab", "ab" or "a_b"; A is embedded by value, by pointer, or through the
// `embed` option. Every type is run under four option sets with a fixed list
// of input names.

var catSpellings = []struct {
	goName, tag string
}{
	{"", ""}, // absent
	{"Ab", ""},
	{"T", "Ab"},
	{"T", "ab"},
	{"T", "a_b"},
}

var catOpts = [][]opt.Spec{
	{},
	{opt.B("MatchCaseInsensitiveNames", true)},
	{opt.B("MatchCaseInsensitiveNames", true), opt.B("MatchCaseSensitiveDelimiter", true), opt.B("RejectUnknownMembers", true)},
	{{Name: "DefaultOptionsV1"}},
}

var catNames = []string{"Ab", "ab", "AB", "a_b", "A-B", "zz"}

func catField(sp int, id int) []tv.Field {
	s := catSpellings[sp]
	if s.goName == "" {
		return nil
	}
	f := tv.Field{Name: s.goName, T: &tv.Desc{K: "int"}}
	if s.tag != "" {
		f.Name = fmt.Sprintf("T%d", id)
		f.Tag, f.HasTag = s.tag, true
	}
	return []tv.Field{f}
}

func catCase(p [4]int, style int) Case {
	u := func(n string) tv.Field { return tv.Field{Name: n, T: &tv.Desc{K: "int"}} }
	c := &tv.Desc{K: "struct", ID: 4, Fields: append(catField(p[3], 3), u("UC"))}
	a := &tv.Desc{K: "struct", ID: 2, Fields: append(append(catField(p[1], 1), tv.Field{Name: "C", Embedded: true, T: c}), u("UA"))}
	b := &tv.Desc{K: "struct", ID: 3, Fields: append(catField(p[2], 2), u("UB"))}
	af := tv.Field{Name: "A", Embedded: true, T: a}
	switch style {
	case 1:
		af.T = &tv.Desc{K: "ptr", Elem: a}
	case 2:
		af = tv.Field{Name: "A", Tag: ",embed", HasTag: true, T: a}
	}
	root := &tv.Desc{K: "struct", ID: 1, Fields: append(append(catField(p[0], 0), af, tv.Field{Name: "B", Embedded: true, T: b}), u("UR"))}
	cs := Case{Desc: root, Modes: [][]byte{{0}, {1}}}
	for _, o := range catOpts {
		cs.Trials = append(cs.Trials, Trial{Opts: o, Names: catNames, Dup: true})
	}
	return cs
}

func enumCatalogue(e *rt.Env, yield func(Case) bool) {
	var idx, total int64
	complete := true
	n := len(catSpellings)
outer:
	for p0 := 0; p0 < n; p0++ {
		for p1 := 0; p1 < n; p1++ {
			for p2 := 0; p2 < n; p2++ {
				for p3 := 0; p3 < n; p3++ {
					for style := 0; style < 3; style++ {
						idx++
						if !e.Mine(idx) {
							continue
						}
						total++
						if !yield(catCase([4]int{p0, p1, p2, p3}, style)) {
							complete = false
							break outer
						}
					}
				}
			}
		}
	}
	e.Rec.AddPart(cov.Part{Name: fmt.Sprintf("name family {Ab untagged, \"Ab\", \"ab\", \"a_b\", absent}^4 positions (root, A, B, A.C) x A embedded by {value, pointer, embed option} x %d option sets x %d input names", len(catOpts), len(catNames)), Size: total, Complete: complete})
}

// Package c15 decides property C15: struct fields map to JSON object members
// by the documented resolution rules.
package c15

import (
	"bytes"
	stdjson "encoding/json"
	"errors"
	"fmt"
	"reflect"
	"strconv"
	"strings"

	"github.com/go-json-experiment/json"
	jsonv1 "github.com/go-json-experiment/json/v1"

	"verif/harness/cov"
	"verif/harness/opt"
	"verif/harness/ref"
	"verif/harness/rt"
	"verif/harness/tv"
)

var rec = cov.New()

// Trial is one option set and one set of input member names for a type.
type Trial struct {
	Opts  []opt.Spec `json:"opts"`
	Names []string   `json:"names"`           // member names (valid UTF-8), tried one per input and all together
	Dup   bool       `json:"dup"`             // the combined input is also run with AllowDuplicateNames(true)
	Funcs bool       `json:"funcs,omitempty"` // caller-supplied functions for a type that occurs nowhere are passed along (they apply to nothing)
	Collide int      `json:"collide,omitempty"` // k > 0: the embedded map fallback also holds the name of the k-th surviving declared member (a member that was written must not be written twice)
	FMeth bool       `json:"fmeth,omitempty"` // a caller-supplied MarshalFunc for MethStr is passed along (it replaces the type's own method; the option value is shared by all value profiles of the trial)
}

// Case is one struct type with value profiles for Marshal and several trials.
type Case struct {
	Desc   *tv.Desc `json:"desc,omitempty"`
	Pool   string   `json:"pool,omitempty"` // name of a compiled pool type (Desc is then its mirror)
	Modes  [][]byte `json:"modes"`          // value profiles, see filler
	Trials []Trial  `json:"trials"`
}

const f12Classifier = "fold-candidates-bfs-vs-index-order"

// v1Expressible reports whether classic encoding/json understands every tag of
// the type: no `embed` option (hence no fallbacks) and no `case:` option.
func v1Expressible(d *tv.Desc) bool {
	ok := true
	d.Walk(func(x *tv.Desc) {
		for i := range x.Fields {
			ti := parseTag(&x.Fields[i])
			if ti.embed || ti.casing != 0 {
				ok = false
			}
		}
	})
	return ok
}

// anyRepeatedKids reports whether the root or a nested (non-embedded) struct
// of the type falls into the "repeated embedded type with embedded children"
// class, and whether one of them has more than one embedded fallback (which
// the documentation does not rank; the generator never builds that).
func (m *model) anyRepeatedKids(d *tv.Desc) (found, multiFallback bool) {
	var visit func(s *tv.Desc)
	visit = func(s *tv.Desc) {
		r := m.resolve(s)
		if r.repeatedKids {
			found = true
		}
		if r.nFallback > 1 {
			multiFallback = true
		}
		for _, c := range r.all {
			if in := structOf(c.f.T); in != nil {
				visit(in)
			}
		}
	}
	visit(d)
	return
}

func optString(specs []opt.Spec) string {
	var parts []string
	for _, s := range specs {
		parts = append(parts, s.String())
	}
	return strings.Join(parts, " ")
}

func membersOf(b []byte) ([]member, error) {
	n, perr := ref.Parse(b, ref.Opt{})
	if perr != nil {
		return nil, perr
	}
	if n.Kind != '{' {
		return nil, fmt.Errorf("not an object")
	}
	var out []member
	for _, mb := range n.Members {
		out = append(out, member{mb.Name.Str, string(b[mb.Value.Start:mb.Value.End])})
	}
	return out, nil
}

func showMembers(ms []member) string {
	var parts []string
	for _, m := range ms {
		parts = append(parts, quote(m.name)+":"+m.val)
	}
	return "{" + strings.Join(parts, ",") + "}"
}

// goPath names the Go field of a candidate, e.g. "E1.E2.Ab".
func goPath(d *tv.Desc, path []int) string {
	var parts []string
	for _, x := range path {
		f := &d.Fields[x]
		parts = append(parts, f.Name)
		d = structOf(f.T)
		if d == nil {
			break
		}
	}
	return strings.Join(parts, ".")
}

// Run decides one case.
func Run(c Case) error {
	var typ reflect.Type
	if c.Pool != "" {
		pt, ok := poolTypes[c.Pool]
		if !ok {
			return fmt.Errorf("unknown pool type %q", c.Pool)
		}
		c.Desc, typ = pt.mirror, pt.typ
		rec.Class("type: compiled pool type " + c.Pool)
	} else {
		if c.Desc == nil || c.Desc.K != "struct" {
			return nil
		}
		var err error
		if typ, err = tv.Build(c.Desc); err != nil {
			rec.Class("unbuildable(not a case)")
			return nil
		}
	}
	m := newModel()
	r := m.resolve(c.Desc)
	special, multiFallback := m.anyRepeatedKids(c.Desc)
	if multiFallback {
		rec.Class("several embedded fallbacks (not judged)")
		return nil
	}
	v1ok := v1Expressible(c.Desc)
	sig := clip(c.Pool+c.Desc.Sig(), 3000)
	fullSig := c.Pool + c.Desc.Sig()
	if special && !v1ok {
		rec.Class("repeated-embedded-with-children: not v1-expressible (not judged)")
		return nil
	}
	var known error

	// Marshal values
	var vals []reflect.Value
	for _, md := range c.Modes {
		v := reflect.New(typ).Elem()
		(&filler{modes: md}).fill(c.Desc, v)
		vals = append(vals, v)
	}
	classifyType(r, special, v1ok)

	// cross-check Marshal with encoding/json (independent of the trial options)
	if v1ok {
		for i, v := range vals {
			if err := crossMarshal(c.Desc, v); err != nil {
				return fmt.Errorf("%v\nvalue profile %d %v\ntype %s", err, i, c.Modes[i], sig)
			}
		}
	}

	for ti := range c.Trials {
		tr := &c.Trials[ti]
		rec.Eval()
		fl := flagsOf(tr.Opts)
		opts, err := opt.Build(tr.Opts)
		if err != nil {
			return err
		}
		optSig := optString(tr.Opts)
		if tr.FMeth {
			opts = append(opts, json.WithMarshalers(json.JoinMarshalers(
				json.MarshalFunc(func(m MethStr) ([]byte, error) { return []byte(`"f:` + string(m) + `"`), nil }),
				json.MarshalFunc(func(m PlainStr) ([]byte, error) { return []byte(`"f:` + string(m) + `"`), nil }))))
			fl.funcMeth = true
			optSig += " +MarshalFunc(MethStr)"
			rec.Class("trial: with a function for a field type")
		} else if tr.Funcs {
			opts = append(opts,
				json.WithMarshalers(json.MarshalFunc(func(otherT) ([]byte, error) { return []byte(`"other"`), nil })),
				json.WithUnmarshalers(json.UnmarshalFunc(func([]byte, *otherT) error { return nil })))
			optSig += " +functions-for-an-unrelated-type"
			rec.Class("trial: with functions for an unrelated type")
		}
		names := cleanNames(r, tr.Names, special)

		// --- Marshal against the rule model
		if !special {
			for i, v := range vals {
				if err := m.checkMarshal(c.Desc, v, fl, opts); err != nil {
					return fmt.Errorf("%v\nvalue profile %d %v\nopts %s\ntype %s", err, i, c.Modes[i], optSig, sig)
				}
			}
		}

		// --- Marshal with an embedded map fallback that repeats the name of a declared member
		if !special && tr.Collide > 0 && !fl.allowDup && r.fallback != nil && r.fallback.f.T.K == "map" && r.fallback.f.T.Key.K == "string" && len(r.fields) > 0 {
			name := r.fields[(tr.Collide-1)%len(r.fields)].ti.name
			for i, v := range vals {
				v2 := reflect.New(v.Type()).Elem()
				v2.Set(v)
				fv, ok := fieldAt(v2, r.fallback.path)
				if !ok || !fv.CanSet() {
					continue
				}
				nm := reflect.MakeMap(fv.Type())
				// (a single entry: the order of several map entries is not specified)
				e := reflect.New(fv.Type().Elem()).Elem()
				if e.Kind() == reflect.Interface {
					e.Set(reflect.ValueOf(7))
				} else {
					setNum(r.fallback.f.T.Elem, e, 7)
				}
				nm.SetMapIndex(reflect.ValueOf(name).Convert(fv.Type().Key()), e)
				old := reflect.New(fv.Type()).Elem()
				old.Set(fv)
				fv.Set(nm)
				rec.Class("marshal: fallback repeats a declared name")
				err := m.checkMarshal(c.Desc, v2, fl, opts)
				fv.Set(old) // (the fallback may sit behind a pointer that the value profiles share with later trials)
				if err != nil {
					return fmt.Errorf("%v\nvalue profile %d %v with %q as the only entry of the embedded fallback\nopts %s\ntype %s", err, i, c.Modes[i], name, optSig, sig)
				}
			}
		}

		// --- Unmarshal: one name per input, then all names in one object
		var st trialStats
		sets := make([][]int, 0, len(names)+1)
		for i := range names {
			sets = append(sets, []int{i})
		}
		if len(names) > 1 {
			all := make([]int, len(names))
			for i := range all {
				all[i] = i
			}
			sets = append(sets, all)
		}
		for _, idx := range sets {
			combined := len(idx) > 1
			variants := [][]opt.Spec{tr.Opts}
			if combined && tr.Dup {
				variants = append(variants, append(append([]opt.Spec(nil), tr.Opts...), opt.B("AllowDuplicateNames", true)))
			}
			for vi, specs := range variants {
				vfl, vopts := fl, opts
				if vi > 0 {
					vfl, vopts = flagsOf(specs), opt.Must(specs)
				}
				if !special {
					p := m.plan(typ, c.Desc, r, names, idx, vfl)
					if vi == 0 {
						st.add(&p, combined)
					}
					err := checkUnmarshal(c.Desc, typ, &p, vopts)
					if err != nil {
						err = fmt.Errorf("%w\ninput %s\nopts %s\ntype %s", err, p.input, optString(specs), sig)
						var ke *rt.KnownErr
						if !errors.As(err, &ke) {
							return err
						}
						known = err
					}
				}
			}
			// cross-check with encoding/json
			if v1ok {
				p := m.plan(typ, c.Desc, r, names, idx, flagsOf(v1Specs))
				if err := crossUnmarshal(c.Desc, typ, &p, special); err != nil {
					err = fmt.Errorf("%w\ninput %s\ntype %s", err, p.input, sig)
					var ke *rt.KnownErr
					if !errors.As(err, &ke) {
						return err
					}
					known = err
				}
			}
		}

		nontrivial := r.stats.collisions() > 0 || st.folded > 0 || st.ambiguous > 0
		st.classes(fl, special)
		if nontrivial {
			fp := cov.FPs(fullSig, optSig, strings.Join(names, "\x00"))
			rec.NonTrivial(fp)
			rec.Sample(fp, func() any {
				var fields []string
				for _, f := range r.fields {
					fields = append(fields, fmt.Sprintf("%s<-%s", f.ti.name, goPath(c.Desc, f.path)))
				}
				return map[string]any{"type": clip(sig, 700), "opts": optSig, "names": names, "resolved": clip(strings.Join(fields, " "), 500)}
			})
		}
	}
	return known
}

func clip(s string, n int) string {
	if len(s) > n {
		return s[:n] + "..."
	}
	return s
}

var v1Specs = []opt.Spec{{Name: "DefaultOptionsV1"}}

// cleanNames removes duplicates; for the repeated-embedded class (judged by the
// cross-check only, without a trusted model) it keeps only names that match a
// candidate exactly or match none case-insensitively, so that finding F12
// cannot occur unclassified.
func cleanNames(r *resolved, in []string, special bool) []string {
	seen := map[string]bool{}
	var out []string
	for _, n := range in {
		if seen[n] {
			continue
		}
		seen[n] = true
		if special {
			exact, fold := false, false
			for _, c := range r.all {
				if c.ti.name == n {
					exact = true
				} else if strings.EqualFold(c.ti.name, n) {
					fold = true
				}
			}
			_ = exact
			if fold {
				continue
			}
		}
		out = append(out, n)
	}
	return out
}

// ---- Marshal -----------------------------------------------------------------

func (m *model) checkMarshal(d *tv.Desc, v reflect.Value, fl flags, opts []json.Options) error {
	want, werr := m.encStruct(d, v, fl)
	var ee *encErr
	if werr != nil && !errors.As(werr, &ee) {
		return nil // value outside the modelled universe
	}
	var got []byte
	var gerr error
	if p := rt.Guard(func() { got, gerr = json.Marshal(v.Interface(), opts...) }); p != nil {
		return fmt.Errorf("Marshal panicked: %v", p)
	}
	if werr != nil {
		rec.Class("marshal: documented runtime error expected")
		if gerr == nil {
			return fmt.Errorf("Marshal succeeded with %s but the documented rules give a runtime error (%v)", clip(string(got), 800), werr)
		}
		return nil
	}
	if gerr != nil {
		return fmt.Errorf("Marshal failed: %v\nthe documented rules give %s", gerr, clip(showMembers(want), 800))
	}
	gm, perr := membersOf(got)
	if perr != nil {
		return fmt.Errorf("Marshal output %s is not a JSON object with unique names: %v", clip(string(got), 800), perr)
	}
	if !sameMembers(gm, want) {
		return fmt.Errorf("Marshal members differ from the documented rules\n got  %s\n want %s", clip(string(got), 1200), clip(showMembers(want), 1200))
	}
	return nil
}

func crossMarshal(d *tv.Desc, v reflect.Value) error {
	var a, b []byte
	var ea, eb error
	if p := rt.Guard(func() { b, eb = json.Marshal(v.Interface(), jsonv1.DefaultOptionsV1()) }); p != nil {
		return fmt.Errorf("Marshal (v1 options) panicked: %v", p)
	}
	a, ea = stdjson.Marshal(v.Interface())
	if (ea == nil) != (eb == nil) {
		return fmt.Errorf("encoding/json Marshal error %v, this package with DefaultOptionsV1 %v", ea, eb)
	}
	if ea == nil && !bytes.Equal(a, b) {
		return fmt.Errorf("Marshal with DefaultOptionsV1 differs from encoding/json\n encoding/json %s\n this package  %s", clip(string(a), 1200), clip(string(b), 1200))
	}
	return nil
}

// ---- Unmarshal ---------------------------------------------------------------

// uplan is an input object and what the documented rules say about it.
type uplan struct {
	input    []byte
	wantErr  string        // non-empty: the documented outcome is an error
	unknown  string        // wantErr because of this unknown name (first error of the input)
	want     reflect.Value // pointer to the expected state
	hasAlt   bool          // some legacy lookup had several folded candidates whose first in breadth-first order is not the first declared (F12)
	altKinds bool          // such a breadth-first-first field has another kind than the first declared one (v1 may then fail instead)
	f12Paths []string      // Go paths of the first declared and the breadth-first-first candidates of those lookups
	notes    []string
	folded   int
	ambig    int
	unknowns int
	toFb     int
	legacy   bool // planned under legacy error reporting (errors are v1-style, not compared)
	variants int  // lookups through a case variant landing on a field also addressed by another member
}

func (m *model) plan(typ reflect.Type, d *tv.Desc, r *resolved, names []string, idx []int, fl flags) uplan {
	p := uplan{want: reflect.New(typ), legacy: fl.legacyErrors}
	var sb strings.Builder
	sb.WriteByte('{')
	seen := map[*cand]bool{}
	if r.conflict && !fl.legacyErrors {
		p.wantErr = "two fields of one struct share a JSON name"
	}
	for k, i := range idx {
		name := names[i]
		lr := r.lookup(name, fl)
		txt := strconv.Itoa(5000 + i)
		switch lr.out {
		case toField:
			var invalid bool
			txt, invalid = m.inputFor(lr.target, i, fl)
			if invalid {
				if p.wantErr == "" {
					p.wantErr = "`string` on a type that is not a JSON number (member " + name + ")"
				}
				break
			}
			if seen[lr.target] {
				p.variants++
				if !fl.allowDup && p.wantErr == "" {
					p.wantErr = "member " + name + " matches a field that an earlier member already matched (duplicate name)"
				}
			}
			seen[lr.target] = true
			m.store(p.want.Elem(), lr.target, i)
			if lr.alt != nil {
				p.hasAlt = true
				if t2, _ := m.inputFor(lr.alt, i, fl); t2 != txt {
					p.altKinds = true
				}
				p.f12Paths = append(p.f12Paths, goPath(d, lr.target.path), goPath(d, lr.alt.path))
			}
			if lr.folded {
				p.folded++
			}
			if len(lr.cands) > 1 {
				p.ambig++
			}
			p.notes = append(p.notes, fmt.Sprintf("%q->%s", name, goPath(d, lr.target.path)))
		case toFallback:
			storeFallback(p.want.Elem(), r.fallback, name, i)
			p.toFb++
			p.notes = append(p.notes, fmt.Sprintf("%q->fallback", name))
		case ignoredName:
			p.unknowns++
			p.notes = append(p.notes, fmt.Sprintf("%q->ignored", name))
		case errAmbiguous:
			p.ambig++
			if p.wantErr == "" {
				p.wantErr = "member " + name + " matches several fields case-insensitively and none exactly"
			}
			p.notes = append(p.notes, fmt.Sprintf("%q->ambiguous", name))
		case errUnknown:
			p.unknowns++
			if p.wantErr == "" {
				p.wantErr = "unknown member " + name + " with RejectUnknownMembers"
				p.unknown = name
			}
			p.notes = append(p.notes, fmt.Sprintf("%q->rejected", name))
		}
		if k > 0 {
			sb.WriteByte(',')
		}
		sb.WriteString(quote(name))
		sb.WriteByte(':')
		sb.WriteString(txt)
	}
	sb.WriteByte('}')
	p.input = []byte(sb.String())
	return p
}

func checkUnmarshal(d *tv.Desc, typ reflect.Type, p *uplan, opts []json.Options) error {
	got := reflect.New(typ)
	var gerr error
	if pe := rt.Guard(func() { gerr = json.Unmarshal(p.input, got.Interface(), opts...) }); pe != nil {
		return fmt.Errorf("Unmarshal panicked: %v", pe)
	}
	if p.wantErr != "" {
		if gerr == nil {
			return fmt.Errorf("Unmarshal succeeded but the documented rules give an error: %s\nstored: %s", p.wantErr, stored(d, got.Elem()))
		}
		if p.unknown != "" && !p.legacy {
			var se *json.SemanticError
			if !errors.Is(gerr, json.ErrUnknownName) || !errors.As(gerr, &se) {
				return fmt.Errorf("Unmarshal error %v does not wrap ErrUnknownName in a SemanticError (%s)", gerr, p.wantErr)
			}
		}
		return nil
	}
	var ds []delta
	if gerr == nil {
		diff(d, got.Elem(), p.want.Elem(), "", &ds)
		if len(ds) == 0 {
			return nil
		}
	}
	desc := fmt.Sprintf("Unmarshal error: %v", gerr)
	if gerr == nil {
		desc = "Unmarshal stored members in other fields than the documented rules say: " + showDeltas(ds)
	}
	err := fmt.Errorf("%s\nrules: %s", desc, strings.Join(p.notes, " "))
	if p.hasAlt && ((gerr == nil && within(ds, p.f12Paths)) || (gerr != nil && p.altKinds)) {
		return rt.Known(f12Classifier, err)
	}
	return err
}

// crossUnmarshal compares this package under DefaultOptionsV1 with
// encoding/json on the same input; p was planned with the v1 flags and is
// used for the input text and for classifying finding F12 only.
func crossUnmarshal(d *tv.Desc, typ reflect.Type, p *uplan, special bool) error {
	a, b := reflect.New(typ), reflect.New(typ)
	var eb error
	if pe := rt.Guard(func() { eb = json.Unmarshal(p.input, b.Interface(), jsonv1.DefaultOptionsV1()) }); pe != nil {
		return fmt.Errorf("Unmarshal (v1 options) panicked: %v", pe)
	}
	ea := stdjson.Unmarshal(p.input, a.Interface())
	var ds []delta
	if (ea == nil) == (eb == nil) {
		if ea != nil {
			return nil
		}
		diff(d, b.Elem(), a.Elem(), "", &ds)
		if len(ds) == 0 {
			return nil
		}
	}
	var err error
	if len(ds) > 0 {
		err = fmt.Errorf("Unmarshal with DefaultOptionsV1 stores members in other fields than encoding/json (got = this package, want = encoding/json): %s", showDeltas(ds))
	} else {
		err = fmt.Errorf("encoding/json Unmarshal error %v, this package with DefaultOptionsV1 %v", ea, eb)
	}
	if p.hasAlt && !special && ea == nil && ((eb == nil && within(ds, p.f12Paths)) || (eb != nil && p.altKinds)) {
		return rt.Known(f12Classifier, err)
	}
	return err
}

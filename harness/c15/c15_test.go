package c15

import (
	"testing"

	"verif/harness/rt"
)

func TestCheck(t *testing.T) {
	e := rt.Setup(t, "C15")
	defer e.Finish()
	rec = e.Rec

	rt.Rapid(e, "struct-graphs", 100_000, 600_000, genCase, Run)
	rt.Enum(e, "pool-types", func(yield func(Case) bool) { enumPool(e, yield) }, Run)
	rt.Enum(e, "catalogue", func(yield func(Case) bool) { enumCatalogue(e, yield) }, Run)
}

package c15

// Generator of struct type graphs with forced JSON name collisions, value
// profiles, option sets and input name sets. Everything drawn is plain data.

import (
	"fmt"
	"strings"
	"unicode"
	"unicode/utf8"

	"pgregory.net/rapid"

	"verif/harness/opt"
	"verif/harness/tv"
)

// family is a set of spellings that collide under case-insensitive matching
// (some only when '_' and '-' are ignored). goNames are the spellings usable as
// exported Go field names (their JSON name when untagged).
type family struct {
	json []string
	goN  []string
}

// The second family contains U+212A KELVIN SIGN (it looks like an ASCII K and
// folds to k), the third U+017F LATIN SMALL LETTER LONG S (folds to s).
var families = []family{
	{[]string{"ab", "Ab", "AB", "aB", "a_b", "a-b", "A_B", "_ab", "ab_", "A-b"}, []string{"Ab", "AB", "A_b", "A_B", "AB_"}},
	{[]string{"k", "K", "K", "_k"}, []string{"K", "K"}},
	{[]string{"s", "S", "ſ", "s-"}, []string{"S", "S_"}},
	{[]string{"ét", "Ét", "ÉT", "é_t"}, []string{"Ét", "ÉT", "É_t"}},
	{[]string{"x", "X", "_x", "x-", "X_"}, []string{"X", "X_"}},
	{[]string{"foo_bar", "fooBar", "FooBar", "foo-bar", "FOOBAR", "foobar", "Foo_Bar"}, []string{"Foo_bar", "FooBar", "FOOBAR", "Foobar", "Foo_Bar"}},
	{[]string{"n1", "N1", "n_1", "N-1"}, []string{"N1", "N_1"}},
	{[]string{"id", "ID", "Id", "i_d"}, []string{"ID", "Id", "I_d"}},
}

var optSets = [][]opt.Spec{
	{},
	{},
	{opt.B("MatchCaseInsensitiveNames", true)},
	{opt.B("MatchCaseInsensitiveNames", true)},
	{opt.B("RejectUnknownMembers", true)},
	{opt.B("OmitZeroStructFields", true)},
	{opt.B("MatchCaseSensitiveDelimiter", true)},
	{opt.B("MatchCaseInsensitiveNames", true), opt.B("RejectUnknownMembers", true)},
	{opt.B("MatchCaseInsensitiveNames", true), opt.B("MatchCaseSensitiveDelimiter", true)},
	{opt.B("MatchCaseInsensitiveNames", true), opt.B("OmitZeroStructFields", true), opt.B("RejectUnknownMembers", true)},
	{opt.B("MatchCaseInsensitiveNames", true), opt.B("MatchCaseSensitiveDelimiter", true), opt.B("RejectUnknownMembers", true)},
	{opt.B("OmitZeroStructFields", true), opt.B("RejectUnknownMembers", true)},
	{{Name: "DefaultOptionsV1"}},
	{{Name: "DefaultOptionsV1"}},
	{{Name: "DefaultOptionsV1"}, opt.B("RejectUnknownMembers", true)},
	{{Name: "DefaultOptionsV1"}, opt.B("OmitZeroStructFields", true)},
	{{Name: "DefaultOptionsV1"}, opt.B("MatchCaseInsensitiveNames", false)},
	{{Name: "DefaultOptionsV1"}, opt.B("MatchCaseSensitiveDelimiter", false)},
	{{Name: "DefaultOptionsV1"}, opt.B("RejectUnknownMembers", true), opt.B("OmitZeroStructFields", true)},
}

type typeGen struct {
	t        *rapid.T
	v1mode   bool // only tags classic encoding/json understands
	dupOK    bool // allow two fields of one struct to share a JSON name
	hot      []string
	pool     []string
	goPool   []string
	nextID   int
	nextF    int
	made     []*tv.Desc // structs generated so far (candidates for a repeat)
	fallback bool       // a fallback is still to be placed
	maxDepth int
}

func (g *typeGen) intn(label string, n int) int { return rapid.IntRange(0, n-1).Draw(g.t, label) }

// pc is true with probability of roughly p percent; rapid favours small draws,
// so 0 (the value shrinking moves to) means "no".
func (g *typeGen) pc(label string, p int) bool {
	return rapid.IntRange(0, 99).Draw(g.t, label) >= 100-p
}

func (g *typeGen) pick(label string, xs []string) string {
	return xs[rapid.IntRange(0, len(xs)-1).Draw(g.t, label)]
}

func contains(xs []string, s string) bool {
	for _, x := range xs {
		if x == s {
			return true
		}
	}
	return false
}

func (g *typeGen) leaf() *tv.Desc {
	switch x := g.intn("leafkind", 100); {
	case x < 50:
		return &tv.Desc{K: "int"}
	case x < 60:
		return &tv.Desc{K: "string"}
	case x < 72:
		return &tv.Desc{K: g.pick("numkind", []string{"int64", "uint16", "float64", "float32", "uint", "int16"})}
	case x < 76:
		return &tv.Desc{K: "ptr", Elem: &tv.Desc{K: "int"}}
	case x < 78:
		// **int: a non-nil pointer to a nil pointer encodes as null without being
		// "empty" up front (omitempty has to take the member back out)
		return &tv.Desc{K: "ptr", Elem: &tv.Desc{K: "ptr", Elem: &tv.Desc{K: "int"}}}
	case x < 80:
		return &tv.Desc{K: "ptr", Elem: &tv.Desc{K: "string"}}
	case x < 85:
		return &tv.Desc{K: "slice", Elem: &tv.Desc{K: "int"}}
	case x < 89:
		return &tv.Desc{K: "map", Key: &tv.Desc{K: "string"}, Elem: &tv.Desc{K: "int"}}
	case x < 91:
		return &tv.Desc{K: "any"}
	case x < 93:
		if g.v1mode {
			return &tv.Desc{K: "any"}
		}
		return &tv.Desc{K: g.pick("methleaf", []string{"pool:MethStr", "pool:MethSlice", "pool:PlainStr", "pool:PlainStr"})}
	default:
		g.nextID++
		s := &tv.Desc{K: "struct", ID: g.nextID, Fields: []tv.Field{
			{Name: "Z", Tag: "z", T: &tv.Desc{K: "int"}},
			{Name: "Y", Tag: ",omitzero", T: &tv.Desc{K: "string"}},
		}}
		if g.pc("nestedptr", 40) {
			return &tv.Desc{K: "ptr", Elem: s}
		}
		return s
	}
}

// field draws one non-embedded field for a struct whose JSON and Go names used
// so far are given.
func (g *typeGen) field(usedJSON, usedGo map[string]bool) tv.Field {
	g.nextF++
	unique := fmt.Sprintf("F%d", g.nextF)
	f := tv.Field{T: g.leaf()}
	var name string
	for try := 0; ; try++ {
		switch x := g.intn("namesrc", 100); {
		case x < 55:
			name = g.pick("hot", g.hot)
		case x < 85:
			name = g.pick("pool", g.pool)
		default:
			name = unique
		}
		if !usedJSON[name] || (g.dupOK && g.pc("dup", 50)) {
			break
		}
		if try >= 4 {
			name = unique
			break
		}
	}
	tagged := true
	if (name == unique || contains(g.goPool, name)) && !usedGo[name] && g.intn("untagged", 10) < 7 {
		tagged = false
		f.Name = name
	} else {
		f.Name = unique
		if contains(g.goPool, name) && !usedGo[name] && g.pc("tagsamename", 35) {
			f.Name = name // explicitly tagged with its own Go name: still "explicitly named"
		} else if g.pc("gonamefrompool", 25) {
			if n := g.pick("goname", g.goPool); !usedGo[n] && !usedJSON[n] {
				f.Name = n
			}
		}
	}
	for usedGo[f.Name] {
		g.nextF++
		f.Name = fmt.Sprintf("F%d", g.nextF)
		if !tagged {
			name = f.Name
		}
	}
	usedGo[f.Name] = true
	usedJSON[name] = true
	var opts []string
	if g.pc("omitzero", 15) {
		opts = append(opts, "omitzero")
	}
	if g.pc("omitempty", 15) {
		opts = append(opts, "omitempty")
	}
	base := f.T
	for base.K == "ptr" {
		base = base.Elem
	}
	if isNumeric(base.K) && g.pc("string", 25) {
		opts = append(opts, "string")
	} else if (f.T.K == "string" || f.T.K == "slice") && !contains(opts, "omitempty") && g.pc("badstring", 4) {
		opts = append(opts, "string") // not a number: a runtime error under v2 semantics
	}
	if !g.v1mode {
		switch x := g.intn("case", 100); {
		case x < 76:
		case x < 91:
			opts = append(opts, "case:ignore")
		default:
			opts = append(opts, "case:strict")
		}
	}
	if g.pc("ignore", 4) {
		f.Tag, f.HasTag = "-", true
		return f
	}
	if tagged || len(opts) > 0 {
		tag := ""
		if tagged {
			tag = name
		}
		for _, o := range opts {
			tag += "," + o
		}
		f.Tag, f.HasTag = tag, true
	}
	return f
}

func copyDesc(d *tv.Desc) *tv.Desc {
	if d == nil {
		return nil
	}
	c := *d
	c.Key, c.Elem = copyDesc(d.Key), copyDesc(d.Elem)
	c.Fields = make([]tv.Field, len(d.Fields))
	for i, f := range d.Fields {
		f.T = copyDesc(f.T)
		c.Fields[i] = f
	}
	return &c
}

func hasFallback(d *tv.Desc) bool {
	found := false
	d.Walk(func(x *tv.Desc) {
		for i := range x.Fields {
			if parseTag(&x.Fields[i]).embed && isFallbackType(x.Fields[i].T) {
				found = true
			}
		}
	})
	return found
}

// strct draws a struct at the given embedding depth.
func (g *typeGen) strct(depth int, big int) *tv.Desc {
	t := g.t
	g.nextID++
	d := &tv.Desc{K: "struct", ID: g.nextID}
	usedJSON, usedGo := map[string]bool{}, map[string]bool{}
	nleaf := rapid.IntRange(1, 4).Draw(t, "nleaf")
	nchild := 0
	if depth < g.maxDepth {
		nchild = rapid.SampledFrom([]int{0, 1, 1, 2, 2, 3}).Draw(t, "nchild")
		if depth >= 2 {
			nchild = rapid.SampledFrom([]int{0, 0, 1, 1, 2}).Draw(t, "nchild2")
		}
	}
	// order of leaves (L) and children (C)
	var plan []byte
	for i := 0; i < nleaf; i++ {
		plan = append(plan, 'L')
	}
	for i := 0; i < nchild; i++ {
		pos := rapid.IntRange(0, len(plan)).Draw(t, "childpos")
		plan = append(plan[:pos], append([]byte{'C'}, plan[pos:]...)...)
	}
	if big > 0 {
		pos := rapid.IntRange(0, len(plan)).Draw(t, "bigpos")
		plan = append(plan[:pos], append([]byte{'B'}, plan[pos:]...)...)
	}
	for _, what := range plan {
		switch what {
		case 'L':
			d.Fields = append(d.Fields, g.field(usedJSON, usedGo))
		case 'B':
			for i := 0; i < big; i++ {
				g.nextF++
				f := tv.Field{Name: fmt.Sprintf("F%d", g.nextF), T: &tv.Desc{K: "int"}}
				if g.pc("bigtag", 6) {
					f = g.field(usedJSON, usedGo)
				}
				usedGo[f.Name] = true
				d.Fields = append(d.Fields, f)
			}
		case 'C':
			g.nextF++
			fno := g.nextF
			var inner *tv.Desc
			if len(g.made) > 0 && g.pc("repeat", 30) {
				cand := g.made[g.intn("repeatwhich", len(g.made))]
				if !hasFallback(cand) && cand.Depth()+depth <= g.maxDepth+2 {
					inner = copyDesc(cand)
				}
			}
			if inner == nil {
				inner = g.strct(depth+1, 0)
			}
			ft := inner
			if g.pc("embedptr", 40) {
				ft = &tv.Desc{K: "ptr", Elem: inner}
			}
			f := tv.Field{T: ft}
			if !g.v1mode && g.pc("embedopt", 40) {
				f.Name = fmt.Sprintf("Q%d", fno)
				f.Tag, f.HasTag = ",embed", true
			} else {
				f.Name = fmt.Sprintf("E%d", fno)
				f.Embedded = true
				if g.pc("embednamed", 8) {
					// an explicit JSON name turns the embedded struct into an ordinary member
					f.Tag, f.HasTag = g.pick("embedname", g.hot), true
					if usedJSON[f.Tag] && !g.dupOK {
						f.Tag = strings.ToLower(f.Name)
					}
					usedJSON[f.Tag] = true
				}
			}
			d.Fields = append(d.Fields, f)
		}
	}
	if g.fallback && (depth == 0 && g.pc("fallbackroot", 60) || depth > 0 && g.pc("fallbackdeep", 30)) {
		g.addFallback(d)
	}
	g.made = append(g.made, d)
	return d
}

func (g *typeGen) addFallback(d *tv.Desc) {
	g.fallback = false
	g.nextF++
	var ft *tv.Desc
	switch g.intn("fallbackkind", 10) {
	case 0, 1, 2:
		ft = &tv.Desc{K: "map", Key: &tv.Desc{K: "string"}, Elem: &tv.Desc{K: "int"}}
	case 3, 4, 5:
		ft = &tv.Desc{K: "map", Key: &tv.Desc{K: "string"}, Elem: &tv.Desc{K: "any"}}
	case 6:
		ft = &tv.Desc{K: "ptr", Elem: &tv.Desc{K: "map", Key: &tv.Desc{K: "string"}, Elem: &tv.Desc{K: "int"}}}
	default:
		ft = &tv.Desc{K: "raw"}
	}
	f := tv.Field{Name: fmt.Sprintf("Fb%d", g.nextF), Tag: ",embed", HasTag: true, T: ft}
	pos := rapid.IntRange(0, len(d.Fields)).Draw(g.t, "fallbackpos")
	d.Fields = append(d.Fields[:pos], append([]tv.Field{f}, d.Fields[pos:]...)...)
}

func genType(t *rapid.T) (*tv.Desc, *typeGen) {
	g := &typeGen{t: t}
	g.v1mode = rapid.Bool().Draw(t, "v1mode")
	g.dupOK = g.pc("dupok", 5)
	g.maxDepth = rapid.SampledFrom([]int{1, 2, 2, 3, 3, 3}).Draw(t, "maxdepth")
	nfam := rapid.IntRange(1, 2).Draw(t, "nfam")
	for i := 0; i < nfam; i++ {
		f := families[g.intn("family", len(families))]
		g.pool = append(g.pool, f.json...)
		g.pool = append(g.pool, f.goN...)
		g.goPool = append(g.goPool, f.goN...)
	}
	nhot := rapid.IntRange(2, 4).Draw(t, "nhot")
	for i := 0; i < nhot; i++ {
		g.hot = append(g.hot, g.pick("hotname", g.pool))
	}
	g.fallback = !g.v1mode && g.pc("fallback", 65)
	big := 0
	if g.pc("big", 5) {
		big = rapid.SampledFrom([]int{62, 65, 128, 130, 200}).Draw(t, "bign")
	}
	d := g.strct(0, big)
	if g.fallback {
		g.addFallback(d)
	}
	return d, g
}

// ---- input names -------------------------------------------------------------

func flipCase(r rune) rune {
	if unicode.IsUpper(r) {
		return unicode.ToLower(r)
	}
	return unicode.ToUpper(r)
}

func (g *typeGen) variant(name string) string {
	rs := []rune(name)
	switch g.intn("variant", 9) {
	case 8:
		// long spelling: delimiters between and around the characters until the
		// name is longer than 32 bytes (and than every declared name)
		delim := g.pick("longdelim", []string{"_", "-", "__"})
		var sb strings.Builder
		for sb.Len() < 34 {
			sb.WriteString(delim)
			if sb.Len() > 40 {
				break
			}
		}
		pad := sb.String()
		parts := make([]string, len(rs))
		for i, r := range rs {
			parts[i] = string(r)
		}
		return pad[:len(pad)/2] + strings.Join(parts, delim) + pad[len(pad)/2:]
	case 0:
		return strings.ToUpper(name)
	case 1:
		return strings.ToLower(name)
	case 2, 3:
		if len(rs) > 0 {
			i := g.intn("flipat", len(rs))
			rs[i] = flipCase(rs[i])
		}
		return string(rs)
	case 4:
		i := rapid.IntRange(0, len(rs)).Draw(g.t, "insat")
		// '_' and '-' are the only characters the folding ignores: other
		// punctuation (and look-alikes of the hyphen) must keep names apart
		delim := g.pick("delim", []string{"_", "-", "_", "-", ".", " ", "/", "+", "\u2010", "\uff3f", "~"})
		return string(rs[:i]) + delim + string(rs[i:])
	case 5:
		return stripDelims(name)
	case 6:
		for i := range rs {
			rs[i] = unicode.SimpleFold(rs[i])
		}
		return string(rs)
	default:
		return g.pick("poolvariant", g.pool)
	}
}

var unknownNames = []string{"zz", "unknown", "", "_", "-", "Zz9", "é", "ab0"}

func (g *typeGen) names(candNames []string) []string {
	n := rapid.IntRange(2, 7).Draw(g.t, "nnames")
	var out []string
	for i := 0; i < n; i++ {
		var s string
		switch x := g.intn("nameclass", 100); {
		case x < 30 && len(candNames) > 0:
			s = g.pick("exact", candNames)
		case x < 75 && len(candNames) > 0:
			s = g.variant(g.pick("varof", candNames))
		case x < 88:
			s = g.variant(g.pick("poolname", g.pool))
		default:
			s = g.pick("unknown", unknownNames)
		}
		if !utf8.ValidString(s) {
			continue
		}
		out = append(out, s)
	}
	return out
}

func genCase(t *rapid.T) Case {
	d, g := genType(t)
	c := Case{Desc: d, Modes: [][]byte{{0}, {1}}}
	nm := rapid.IntRange(1, 2).Draw(t, "nmodes")
	for i := 0; i < nm; i++ {
		c.Modes = append(c.Modes, rapid.SliceOfN(rapid.ByteRange(0, 2), 2, 9).Draw(t, "modes"))
	}
	// names of every candidate field (winners and losers alike)
	var candNames []string
	seen := map[string]bool{}
	for _, cd := range resolve(d).all {
		if !seen[cd.ti.name] {
			seen[cd.ti.name] = true
			candNames = append(candNames, cd.ti.name)
		}
	}
	if len(candNames) > 12 {
		// big structs: keep the interesting names and a few of the filler ones
		var keep []string
		for _, n := range candNames {
			if contains(g.pool, n) || len(keep) < 6 {
				keep = append(keep, n)
			}
		}
		keep = append(keep, candNames[len(candNames)-1], candNames[len(candNames)/2])
		candNames = keep
	}
	nt := rapid.IntRange(3, 5).Draw(t, "ntrials")
	for i := 0; i < nt; i++ {
		var sets [][]opt.Spec
		if g.v1mode && rapid.Bool().Draw(t, "v1opts") {
			sets = optSets[12:]
		} else {
			sets = optSets
		}
		tr := Trial{Opts: sets[g.intn("optset", len(sets))], Names: g.names(candNames), Dup: rapid.Bool().Draw(t, "dup"), Funcs: g.intn("funcs", 4) == 0, FMeth: g.intn("fmeth", 4) == 0, Collide: max(0, g.intn("collide", 12)-5)}
		c.Trials = append(c.Trials, tr)
	}
	return c
}

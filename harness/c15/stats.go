package c15

import "fmt"

func (s *resStats) collisions() int {
	n := s.ties[0] + s.ties[1] + s.ties[2]
	for _, c := range s.collideDepth {
		n += c
	}
	return n
}

// classifyType records the generator-distribution classes of a type.
func classifyType(r *resolved, special, v1ok bool) {
	for d := range r.stats.collideDepth {
		rec.Class(fmt.Sprintf("type: collision won at depth %d", d))
	}
	for i, n := range r.stats.ties {
		if n > 0 {
			rec.Class(fmt.Sprintf("type: tie at shallowest depth with %s tagged", [...]string{"0", "1", "2+"}[i]))
		}
	}
	if r.stats.collisions() == 0 {
		rec.Class("type: no name collision")
	}
	if fb := r.fallback; fb != nil {
		d := fb.f.T
		k := "fallback "
		if d.K == "ptr" {
			k += "*"
			d = d.Elem
		}
		if d.K == "raw" {
			k += "jsontext.Value"
		} else {
			k += "map[string]" + d.Elem.K
		}
		rec.Class("type: " + k)
		if fb.depth() > 0 {
			rec.Class("type: fallback inside an embedded struct")
		}
	}
	n := len(r.all)
	switch {
	case n >= 200:
		rec.Class("type: >=200 candidate fields")
	case n >= 130:
		rec.Class("type: 130..199 candidate fields")
	case n >= 65:
		rec.Class("type: 65..129 candidate fields")
	}
	if special {
		rec.Class("type: repeated embedded type with embedded children (judged by encoding/json only)")
	}
	if r.conflict {
		rec.Class("type: two fields of one struct share a name")
	}
	if r.stats.embedOpt > 0 {
		rec.Class("type: `embed` option on a struct field")
	}
	if r.stats.goEmbed > 0 {
		rec.Class("type: Go embedding")
	}
	if r.stats.ptrEmbed > 0 {
		rec.Class("type: embedded pointer to struct")
	}
	if r.stats.ignored > 0 {
		rec.Class("type: field ignored with `-`")
	}
	seen := map[string]bool{}
	for _, c := range r.all {
		var ks []string
		if c.ti.omitzero {
			ks = append(ks, "type: omitzero tag")
		}
		if c.ti.omitempty {
			ks = append(ks, "type: omitempty tag")
		}
		if c.ti.str {
			if q, _ := stringApplies(c.f.T, flags{}); q {
				ks = append(ks, "type: `string` on a numeric field")
			} else {
				ks = append(ks, "type: `string` on a non-numeric field")
			}
		}
		switch c.ti.casing {
		case 1:
			ks = append(ks, "type: case:ignore tag")
		case 2:
			ks = append(ks, "type: case:strict tag")
		}
		if c.f.Embedded && c.ti.hasName {
			ks = append(ks, "type: embedded struct with an explicit JSON name")
		}
		for _, k := range ks {
			if !seen[k] {
				seen[k] = true
				rec.Class(k)
			}
		}
	}
	if v1ok {
		rec.Class("type: v1-expressible (cross-checked with encoding/json)")
	}
	rec.Class(fmt.Sprintf("type: embedding depth %d", r.stats.maxDepth))
}

type trialStats struct {
	folded, ambiguous, unknown, toFallback, variants, errors, f12 int
}

func (s *trialStats) add(p *uplan, combined bool) {
	if combined {
		s.variants += p.variants
		return
	}
	s.folded += p.folded
	s.ambiguous += p.ambig
	s.unknown += p.unknowns
	s.toFallback += p.toFb
	if p.wantErr != "" {
		s.errors++
	}
	if p.hasAlt {
		s.f12++
	}
}

func (s *trialStats) classes(fl flags, special bool) {
	if special {
		return
	}
	if s.folded > 0 {
		rec.Class("lookup: case-insensitive match")
	}
	if s.ambiguous > 0 {
		rec.Class("lookup: several case-insensitive candidates, no exact match")
	}
	if s.unknown > 0 {
		if fl.rejectUnknown {
			rec.Class("lookup: unknown name rejected")
		} else {
			rec.Class("lookup: unknown name ignored")
		}
	}
	if s.toFallback > 0 {
		rec.Class("lookup: unknown name stored in the fallback")
	}
	if s.variants > 0 {
		rec.Class("lookup: several members reach one field")
	}
	if s.errors > 0 {
		rec.Class("lookup: documented error expected")
	}
	if s.f12 > 0 {
		rec.Class("lookup: legacy first-declared differs from breadth-first-first (F12 shape)")
	}
	switch {
	case fl.legacyErrors:
		rec.Class("opts: DefaultOptionsV1")
	case fl.caseInsens:
		rec.Class("opts: MatchCaseInsensitiveNames")
	default:
		rec.Class("opts: case-sensitive")
	}
	if fl.csDelim && fl.caseInsens {
		rec.Class("opts: case-insensitive with MatchCaseSensitiveDelimiter")
	}
	if fl.rejectUnknown {
		rec.Class("opts: RejectUnknownMembers")
	}
	if fl.omitZero {
		rec.Class("opts: OmitZeroStructFields")
	}
}

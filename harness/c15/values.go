package c15

// Harness-side construction and inspection of Go values: sentinel values for
// Marshal (every leaf occurrence k of the type tree holds 1000+k / "v<k>"),
// expected states for Unmarshal (member i of the input carries 5000+i /
// "w<i>"), and a leaf-by-leaf comparison that names the Go fields involved.

import (
	"fmt"
	"reflect"
	"strconv"
	"strings"

	"github.com/go-json-experiment/json/jsontext"

	"verif/harness/ref"
	"verif/harness/tv"
)

// ---- marshal values ----------------------------------------------------------

// filler builds a value from a mode string: the k-th value position (preorder)
// uses modes[k mod len]: 0 sentinel, 1 zero Go value, 2 empty but not zero
// (non-nil empty slice / map, pointer to a zero value, interface holding "").
type filler struct {
	modes    []byte
	n        int
	fallback bool // filling an embedded fallback: member names must not meet field names
}

func (b *filler) next() (k int, mode byte) {
	k = b.n
	if len(b.modes) > 0 {
		mode = b.modes[b.n%len(b.modes)] % 3
	}
	b.n++
	return
}

func setNum(d *tv.Desc, v reflect.Value, x int) {
	switch {
	case tv.IsInt(d.K):
		v.SetInt(int64(x))
	case tv.IsUint(d.K):
		v.SetUint(uint64(x))
	case tv.IsFloat(d.K):
		v.SetFloat(float64(x))
	}
}

func (b *filler) fill(d *tv.Desc, v reflect.Value) {
	k, mode := b.next()
	switch {
	case isNumeric(d.K):
		if mode == 0 {
			setNum(d, v, 1000+k)
		}
	case d.K == "string", d.K == "pool:MethStr", d.K == "pool:PlainStr":
		if mode == 0 {
			v.SetString("v" + strconv.Itoa(k))
		}
	case d.K == "pool:MethSlice":
		switch mode {
		case 0:
			v.Set(reflect.ValueOf(MethSlice{1000 + k}))
		case 2:
			v.Set(reflect.ValueOf(MethSlice{}))
		}
	case d.K == "bool":
		v.SetBool(mode == 0)
	case d.K == "ptr":
		if mode == 1 {
			return
		}
		p := reflect.New(v.Type().Elem())
		switch {
		case isNumeric(d.Elem.K):
			if mode == 0 {
				setNum(d.Elem, p.Elem(), 1000+k)
			}
		case d.Elem.K == "string":
			if mode == 0 {
				p.Elem().SetString("v" + strconv.Itoa(k))
			}
		default:
			b.fill(d.Elem, p.Elem())
		}
		v.Set(p)
	case d.K == "slice":
		switch mode {
		case 0:
			s := reflect.MakeSlice(v.Type(), 1, 1)
			setNum(d.Elem, s.Index(0), 1000+k)
			v.Set(s)
		case 2:
			v.Set(reflect.MakeSlice(v.Type(), 0, 0))
		}
	case d.K == "map":
		if mode == 1 {
			return
		}
		m := reflect.MakeMap(v.Type())
		if mode == 0 {
			key := "m"
			if b.fallback {
				key = "zq" + strconv.Itoa(k)
			}
			e := reflect.New(v.Type().Elem()).Elem()
			if d.Elem.K == "any" {
				e.Set(reflect.ValueOf(1000 + k))
			} else {
				setNum(d.Elem, e, 1000+k)
			}
			m.SetMapIndex(reflect.ValueOf(key).Convert(v.Type().Key()), e)
		}
		v.Set(m)
	case d.K == "raw":
		switch mode {
		case 0:
			v.SetBytes([]byte(fmt.Sprintf(`{"zq%d":%d,"zr%d":[%d]}`, k, 1000+k, k, 1000+k)))
		case 2:
			v.SetBytes([]byte(`{}`))
		}
	case d.K == "any":
		switch mode {
		case 0:
			v.Set(reflect.ValueOf(1000 + k))
		case 2:
			v.Set(reflect.ValueOf(""))
		}
	case d.K == "struct":
		for i := range d.Fields {
			f := &d.Fields[i]
			ti := parseTag(f)
			if !exportedName(f.Name) && !(f.Embedded && f.T.K == "struct") {
				continue // not settable through reflect
			}
			if ti.embed && isFallbackType(f.T) {
				fb := &filler{modes: b.modes, n: b.n, fallback: true}
				fb.fill(f.T, v.Field(i))
				b.n = fb.n
				continue
			}
			b.fill(f.T, v.Field(i))
		}
	}
}

// ---- unmarshal inputs and expected states ------------------------------------

// innerTarget picks, for a field of struct kind, an inner member the input
// can address: the first surviving int field without the `string` option.
func (m *model) innerTarget(s *tv.Desc) *cand {
	r := m.resolve(s)
	if r.conflict {
		return nil
	}
	for _, c := range r.fields {
		if c.f.T.K == "int" && !c.ti.str {
			return c
		}
	}
	return nil
}

// inputFor is the JSON text member i carries when the model sends it to field
// c. invalid is set when the documented outcome is a runtime error (`string`
// on a type that is not a number, v2 semantics).
func (m *model) inputFor(c *cand, i int, fl flags) (txt string, invalid bool) {
	d := c.f.T
	base := d
	for base.K == "ptr" {
		base = base.Elem
	}
	num := strconv.Itoa(5000 + i)
	switch {
	case isNumeric(base.K):
		txt = num
	case base.K == "string", base.K == "pool:MethStr", base.K == "pool:PlainStr":
		txt = quote("w" + strconv.Itoa(i))
	case base.K == "pool:MethSlice":
		txt = "[" + num + "]"
	case base.K == "bool":
		txt = "true"
	case base.K == "slice":
		txt = "[" + num + "]"
	case base.K == "map":
		txt = `{"m":` + num + `}`
	case base.K == "any":
		txt = num
	case base.K == "struct":
		txt = "{}"
		if m.resolve(base).conflict && !fl.legacyErrors {
			return txt, true // decoding an object into a struct with conflicting names is a runtime error
		}
		if in := m.innerTarget(base); in != nil {
			txt = "{" + quote(in.ti.name) + ":" + num + "}"
		}
	}
	if c.ti.str {
		q, inv := stringApplies(d, fl)
		if inv {
			return txt, true
		}
		if q {
			txt = quote(txt)
		}
	}
	return txt, false
}

// walkTo follows path from the root value, allocating nil embedded pointers.
func walkTo(v reflect.Value, path []int) reflect.Value {
	for _, x := range path {
		if v.Kind() == reflect.Pointer {
			if v.IsNil() {
				v.Set(reflect.New(v.Type().Elem()))
			}
			v = v.Elem()
		}
		v = v.Field(x)
	}
	return v
}

// store puts the sentinel of member i into field c of the expected state.
func (m *model) store(root reflect.Value, c *cand, i int) {
	m.setLeaf(c.f.T, walkTo(root, c.path), i)
}

func (m *model) setLeaf(d *tv.Desc, v reflect.Value, i int) {
	switch {
	case isNumeric(d.K):
		setNum(d, v, 5000+i)
	case d.K == "string", d.K == "pool:MethStr", d.K == "pool:PlainStr":
		v.SetString("w" + strconv.Itoa(i))
	case d.K == "pool:MethSlice":
		v.Set(reflect.ValueOf(MethSlice{len("[" + strconv.Itoa(5000+i) + "]")}))
	case d.K == "bool":
		v.SetBool(true)
	case d.K == "ptr":
		if v.IsNil() {
			v.Set(reflect.New(v.Type().Elem()))
		}
		m.setLeaf(d.Elem, v.Elem(), i)
	case d.K == "slice":
		s := reflect.MakeSlice(v.Type(), 1, 1)
		setNum(d.Elem, s.Index(0), 5000+i)
		v.Set(s)
	case d.K == "map":
		if v.IsNil() {
			v.Set(reflect.MakeMap(v.Type()))
		}
		e := reflect.New(v.Type().Elem()).Elem()
		setNum(d.Elem, e, 5000+i)
		v.SetMapIndex(reflect.ValueOf("m").Convert(v.Type().Key()), e)
	case d.K == "any":
		v.Set(reflect.ValueOf(float64(5000 + i)))
	case d.K == "struct":
		if in := m.innerTarget(d); in != nil {
			m.store(v, in, i)
		}
	}
}

// storeFallback records an unknown member in the expected fallback.
func storeFallback(root reflect.Value, c *cand, name string, i int) {
	v := walkTo(root, c.path)
	d := c.f.T
	if d.K == "ptr" {
		if v.IsNil() {
			v.Set(reflect.New(v.Type().Elem()))
		}
		v, d = v.Elem(), d.Elem
	}
	switch d.K {
	case "map":
		if v.IsNil() {
			v.Set(reflect.MakeMap(v.Type()))
		}
		e := reflect.New(v.Type().Elem()).Elem()
		if d.Elem.K == "any" {
			e.Set(reflect.ValueOf(float64(5000 + i)))
		} else {
			setNum(d.Elem, e, 5000+i)
		}
		v.SetMapIndex(reflect.ValueOf(name).Convert(v.Type().Key()), e)
	case "raw":
		b := v.Bytes()
		mem := quote(name) + ":" + strconv.Itoa(5000+i)
		if len(b) == 0 {
			b = []byte("{" + mem + "}")
		} else {
			b = append(b[:len(b)-1:len(b)-1], []byte(","+mem+"}")...)
		}
		v.SetBytes(b)
	}
}

// ---- comparison --------------------------------------------------------------

func rawMembers(b []byte) ([]member, bool) {
	if len(b) == 0 {
		return nil, true
	}
	n, err := ref.Parse(b, ref.Opt{AllowDup: true})
	if err != nil || n.Kind != '{' {
		return nil, false
	}
	var out []member
	for _, mb := range n.Members {
		out = append(out, member{mb.Name.Str, string(b[mb.Value.Start:mb.Value.End])})
	}
	return out, true
}

func sameMembers(a, b []member) bool {
	if len(a) != len(b) {
		return false
	}
	for i := range a {
		if a[i] != b[i] {
			return false
		}
	}
	return true
}

// diff compares got and want (same type) leaf by leaf and lists the Go fields
// that differ, e.g. "E1.Ab: got 0 want 5000".
func diff(d *tv.Desc, got, want reflect.Value, path string, out *[]delta) {
	switch d.K {
	case "struct":
		for i := range d.Fields {
			if !exportedName(d.Fields[i].Name) && !(d.Fields[i].Embedded && d.Fields[i].T.K == "struct") {
				continue
			}
			p := d.Fields[i].Name
			if path != "" {
				p = path + "." + p
			}
			diff(d.Fields[i].T, got.Field(i), want.Field(i), p, out)
		}
	case "ptr":
		if got.IsNil() != want.IsNil() {
			g, w := show(got), show(want)
			if d.Elem.K == "struct" {
				g, w = allocWord(got), allocWord(want)
			}
			*out = append(*out, delta{path, fmt.Sprintf("%s: got %s want %s", path, g, w)})
			return
		}
		if !got.IsNil() {
			diff(d.Elem, got.Elem(), want.Elem(), path, out)
		}
	case "raw":
		a, ok1 := rawMembers(got.Bytes())
		b, ok2 := rawMembers(want.Bytes())
		if !ok1 || !ok2 || !sameMembers(a, b) {
			*out = append(*out, delta{path, fmt.Sprintf("%s: got %s want %s", path, got.Bytes(), want.Bytes())})
		}
	default:
		if !reflect.DeepEqual(got.Interface(), want.Interface()) {
			*out = append(*out, delta{path, fmt.Sprintf("%s: got %s want %s", path, show(got), show(want))})
		}
	}
}

// delta is one differing leaf (or embedded pointer) of two states.
type delta struct {
	path string // Go field path, e.g. "E1.E2.Ab"
	msg  string
}

func showDeltas(ds []delta) string {
	var parts []string
	for i, d := range ds {
		if i == 6 {
			parts = append(parts, fmt.Sprintf("... (%d differences)", len(ds)))
			break
		}
		parts = append(parts, d.msg)
	}
	return strings.Join(parts, "; ")
}

// within reports whether every difference lies on the way to, at, or below one
// of the given Go field paths.
func within(ds []delta, paths []string) bool {
	for _, d := range ds {
		ok := false
		for _, p := range paths {
			if p == d.path || strings.HasPrefix(p, d.path+".") || strings.HasPrefix(d.path, p+".") {
				ok = true
			}
		}
		if !ok {
			return false
		}
	}
	return true
}

func allocWord(v reflect.Value) string {
	if v.IsNil() {
		return "nil"
	}
	return "allocated"
}

func show(v reflect.Value) string {
	switch v.Kind() {
	case reflect.Pointer:
		if v.IsNil() {
			return "nil"
		}
		return "&" + show(v.Elem())
	case reflect.Interface:
		if v.IsNil() {
			return "nil"
		}
		return fmt.Sprintf("%T(%v)", v.Elem().Interface(), v.Elem().Interface())
	case reflect.Slice:
		if v.Type() == reflect.TypeFor[jsontext.Value]() {
			return string(v.Bytes())
		}
		if v.IsNil() {
			return "nil"
		}
	case reflect.Map:
		if v.IsNil() {
			return "nil"
		}
	}
	return strings.TrimSpace(fmt.Sprintf("%#v", v.Interface()))
}

// fallbackMembers lists the members an embedded fallback value contributes.
func (m *model) fallbackMembers(d *tv.Desc, v reflect.Value, fl flags) ([]member, error) {
	if d.K == "ptr" {
		if v.IsNil() {
			return nil, nil
		}
		d, v = d.Elem, v.Elem()
	}
	switch d.K {
	case "raw":
		ms, ok := rawMembers(v.Bytes())
		if !ok {
			return nil, fmt.Errorf("model: fallback raw value is not an object: %s", v.Bytes())
		}
		return ms, nil
	case "map":
		var out []member
		for _, k := range v.MapKeys() { // at most one key is generated
			s, err := m.encValue(d.Elem, v.MapIndex(k), fl)
			if err != nil {
				return nil, err
			}
			out = append(out, member{k.String(), s})
		}
		return out, nil
	}
	return nil, fmt.Errorf("model: bad fallback kind %q", d.K)
}

// stored lists the non-zero leaves of a state, e.g. "E1.Ab=5000 F3=\"w1\"".
func stored(d *tv.Desc, v reflect.Value) string {
	var ds []delta
	diff(d, v, reflect.Zero(v.Type()), "", &ds)
	var parts []string
	for i, x := range ds {
		if i == 8 {
			parts = append(parts, "...")
			break
		}
		parts = append(parts, strings.TrimSuffix(strings.Replace(x.msg, ": got ", "=", 1), " want "+x.msg[strings.LastIndex(x.msg, " want ")+6:]))
	}
	if len(parts) == 0 {
		return "(nothing stored)"
	}
	return strings.Join(parts, " ")
}

// Package cov records what a check run actually covered: evaluations,
// distinct non-trivial cases (by fingerprint), generator class histogram and
// a deterministic sample of cases.
package cov

import (
	"encoding/binary"
	"encoding/json"
	"hash/fnv"
	"os"
	"sort"
	"sync"
)

const maxSamples = 6

type sample struct {
	FP  uint64
	Val json.RawMessage
}

// Part describes a bounded-exhaustive enumeration.
type Part struct {
	Name     string `json:"name"`
	Size     int64  `json:"size"`     // cases enumerated by this shard
	Complete bool   `json:"complete"` // the whole finite space (this shard's slice of it) was enumerated
	Stride   int64  `json:"stride,omitempty"`
}

// Recorder accumulates coverage for one shard.
type Recorder struct {
	mu       sync.Mutex
	evals    int64
	counted  int64 // non-trivial cases known distinct by construction
	fps      map[uint64]struct{}
	classes  map[string]int64
	samples  []sample
	known    map[string]int64
	excluded map[string]int64
	parts    []Part
}

// New returns an empty recorder.
func New() *Recorder {
	return &Recorder{fps: map[uint64]struct{}{}, classes: map[string]int64{}, known: map[string]int64{}, excluded: map[string]int64{}}
}

// Eval counts one executed case.
func (r *Recorder) Eval() { r.mu.Lock(); r.evals++; r.mu.Unlock() }

// EvalN counts n executed cases.
func (r *Recorder) EvalN(n int64) { r.mu.Lock(); r.evals += n; r.mu.Unlock() }

// FP computes the FNV-1a fingerprint of the parts (length-prefixed).
func FP(parts ...[]byte) uint64 {
	h := fnv.New64a()
	var l [4]byte
	for _, p := range parts {
		binary.LittleEndian.PutUint32(l[:], uint32(len(p)))
		h.Write(l[:])
		h.Write(p)
	}
	return h.Sum64()
}

// FPs is FP over strings.
func FPs(parts ...string) uint64 {
	h := fnv.New64a()
	var l [4]byte
	for _, p := range parts {
		binary.LittleEndian.PutUint32(l[:], uint32(len(p)))
		h.Write(l[:])
		h.Write([]byte(p))
	}
	return h.Sum64()
}

// NonTrivial records a non-trivial case by fingerprint.
func (r *Recorder) NonTrivial(fp uint64) {
	r.mu.Lock()
	r.fps[fp] = struct{}{}
	r.mu.Unlock()
}

// NonTrivialDistinct counts n non-trivial cases that are distinct by
// construction (items of a duplicate-free enumeration).
func (r *Recorder) NonTrivialDistinct(n int64) { r.mu.Lock(); r.counted += n; r.mu.Unlock() }

// Class increments a generator-distribution class.
func (r *Recorder) Class(name string) { r.mu.Lock(); r.classes[name]++; r.mu.Unlock() }

// ClassN adds n to a class.
func (r *Recorder) ClassN(name string, n int64) { r.mu.Lock(); r.classes[name] += n; r.mu.Unlock() }

// Known counts a case suppressed by a listed known-finding classifier.
func (r *Recorder) Known(classifier string) { r.mu.Lock(); r.known[classifier]++; r.mu.Unlock() }

// Excluded counts a case that the generator avoided / skipped by construction
// because it would hit a listed known finding.
func (r *Recorder) Excluded(classifier string) { r.mu.Lock(); r.excluded[classifier]++; r.mu.Unlock() }

// AddPart records an enumeration.
func (r *Recorder) AddPart(p Part) { r.mu.Lock(); r.parts = append(r.parts, p); r.mu.Unlock() }

// Sample offers a case for the deterministic sample (the cases with the
// smallest fingerprints are kept). mk is only called if the case is kept.
func (r *Recorder) Sample(fp uint64, mk func() any) {
	r.mu.Lock()
	defer r.mu.Unlock()
	if len(r.samples) >= maxSamples && fp >= r.samples[len(r.samples)-1].FP {
		return
	}
	for _, s := range r.samples {
		if s.FP == fp {
			return
		}
	}
	raw, err := json.Marshal(mk())
	if err != nil {
		return
	}
	if len(raw) > 2000 {
		raw, _ = json.Marshal(map[string]any{"truncated_case_prefix": string(raw[:1500]), "len": len(raw)})
	}
	r.samples = append(r.samples, sample{fp, raw})
	sort.Slice(r.samples, func(i, j int) bool { return r.samples[i].FP < r.samples[j].FP })
	if len(r.samples) > maxSamples {
		r.samples = r.samples[:maxSamples]
	}
}

// Shard is the serialised form of one shard's coverage.
type Shard struct {
	Evals    int64            `json:"evals"`
	Counted  int64            `json:"counted"`
	NFP      int              `json:"nfp"`
	FPFile   string           `json:"fp_file"`
	Classes  map[string]int64 `json:"classes"`
	Samples  []sample         `json:"samples"`
	Known    map[string]int64 `json:"known"`
	Excluded map[string]int64 `json:"excluded"`
	Parts    []Part           `json:"parts"`
}

// Dump writes fingerprints to fpFile (binary, little-endian uint64s) and
// returns the JSON-able summary.
func (r *Recorder) Dump(fpFile string) (Shard, error) {
	r.mu.Lock()
	defer r.mu.Unlock()
	buf := make([]byte, 0, 8*len(r.fps))
	for fp := range r.fps {
		buf = binary.LittleEndian.AppendUint64(buf, fp)
	}
	if err := os.WriteFile(fpFile, buf, 0o644); err != nil {
		return Shard{}, err
	}
	return Shard{Evals: r.evals, Counted: r.counted, NFP: len(r.fps), FPFile: fpFile, Classes: r.classes,
		Samples: r.samples, Known: r.known, Excluded: r.excluded, Parts: r.parts}, nil
}

package c18

import (
	"bytes"
	"crypto/sha256"
	"encoding/hex"
	"errors"
	"fmt"
	"hash"
	"io"
	"reflect"
	"sort"
	"strconv"
	"strings"
	"time"

	"github.com/go-json-experiment/json"
	"github.com/go-json-experiment/json/jsontext"

	"verif/harness/ref"
)

// ---------------------------------------------------------------------------
// Deterministic deep rendering of Go values. The rendering reads every byte of
// every string / []byte / map key reachable from the value, so it doubles as
// the "deep copy" used by the aliasing sub-check.

type renderer struct {
	sb    sink
	depth int
}

// sink collects a rendering. Up to sinkKeep bytes are kept verbatim; longer
// renderings are summarised as prefix + SHA-256 + length so that no large
// buffers are allocated (large allocations are very slow under the race
// detector).
type sink struct {
	buf   []byte
	h     hash.Hash
	total int
	one   [1]byte
}

const sinkKeep = 24 << 10

func (s *sink) WriteString(x string) {
	s.total += len(x)
	if s.h != nil {
		io.WriteString(s.h, x)
		return
	}
	s.buf = append(s.buf, x...)
	s.spill()
}

func (s *sink) Write(x []byte) (int, error) {
	s.total += len(x)
	if s.h != nil {
		s.h.Write(x)
		return len(x), nil
	}
	s.buf = append(s.buf, x...)
	s.spill()
	return len(x), nil
}

func (s *sink) WriteByte(c byte) error {
	s.total++
	if s.h != nil {
		s.one[0] = c
		s.h.Write(s.one[:])
		return nil
	}
	s.buf = append(s.buf, c)
	s.spill()
	return nil
}

func (s *sink) spill() {
	if len(s.buf) > sinkKeep {
		s.h = sha256.New()
		s.h.Write(s.buf)
		s.buf = s.buf[:512:512]
	}
}

func (s *sink) String() string {
	if s.h == nil {
		return string(s.buf)
	}
	return string(s.buf) + "...#sha256:" + hex.EncodeToString(s.h.Sum(nil)[:16]) + ":" + strconv.Itoa(s.total)
}

// summarize is the sink summary of a byte string.
func summarize(b []byte) []byte {
	if len(b) <= sinkKeep {
		return bytes.Clone(b)
	}
	sum := sha256.Sum256(b)
	out := append([]byte(nil), b[:512]...)
	out = append(out, "...#sha256:"...)
	out = append(out, hex.EncodeToString(sum[:16])...)
	out = append(out, ':')
	return strconv.AppendInt(out, int64(len(b)), 10)
}

func (r *renderer) quoted(x string) {
	if len(x) > 1024 {
		sum := sha256.Sum256([]byte(x))
		r.sb.WriteString("long" + strconv.Quote(x[:64]) + "#" + hex.EncodeToString(sum[:16]) + ":" + strconv.Itoa(len(x)))
		return
	}
	r.sb.WriteString(strconv.Quote(x))
}

func (r *renderer) quotedBytes(x []byte) {
	if len(x) > 1024 {
		sum := sha256.Sum256(x)
		r.sb.WriteString("long" + strconv.Quote(string(x[:64])) + "#" + hex.EncodeToString(sum[:16]) + ":" + strconv.Itoa(len(x)))
		return
	}
	r.sb.WriteString(strconv.Quote(string(x)))
}

func renderValue(v any) string {
	var r renderer
	r.value(reflect.ValueOf(v))
	return r.sb.String()
}

var (
	timeType = reflect.TypeFor[time.Time]()
)

func (r *renderer) value(v reflect.Value) {
	if !v.IsValid() {
		r.sb.WriteString("<nil>")
		return
	}
	r.depth++
	defer func() { r.depth-- }()
	if r.depth > 20000 {
		r.sb.WriteString("<too deep>")
		return
	}
	t := v.Type()
	if t == timeType && v.CanInterface() {
		r.sb.WriteString("time(" + v.Interface().(time.Time).UTC().Format(time.RFC3339Nano) + ")")
		return
	}
	switch v.Kind() {
	case reflect.Bool:
		r.sb.WriteString(strconv.FormatBool(v.Bool()))
	case reflect.Int, reflect.Int8, reflect.Int16, reflect.Int32, reflect.Int64:
		r.sb.WriteString(strconv.FormatInt(v.Int(), 10))
	case reflect.Uint, reflect.Uint8, reflect.Uint16, reflect.Uint32, reflect.Uint64, reflect.Uintptr:
		r.sb.WriteString(strconv.FormatUint(v.Uint(), 10))
		r.sb.WriteByte('u')
	case reflect.Float32:
		r.sb.WriteString(strconv.FormatFloat(v.Float(), 'g', -1, 32))
		r.sb.WriteString("f32")
	case reflect.Float64:
		r.sb.WriteString(strconv.FormatFloat(v.Float(), 'g', -1, 64))
		r.sb.WriteString("f")
	case reflect.String:
		r.quoted(v.String())
	case reflect.Slice:
		if v.IsNil() {
			r.sb.WriteString("nil-" + shortType(t))
			return
		}
		if t.Elem().Kind() == reflect.Uint8 {
			r.sb.WriteString(shortType(t))
			r.quotedBytes(v.Bytes())
			return
		}
		r.sb.WriteByte('[')
		for i := 0; i < v.Len(); i++ {
			if i > 0 {
				r.sb.WriteByte(',')
			}
			r.value(v.Index(i))
		}
		r.sb.WriteByte(']')
	case reflect.Array:
		r.sb.WriteString("arr[")
		for i := 0; i < v.Len(); i++ {
			if i > 0 {
				r.sb.WriteByte(',')
			}
			r.value(v.Index(i))
		}
		r.sb.WriteByte(']')
	case reflect.Map:
		if v.IsNil() {
			r.sb.WriteString("nil-map")
			return
		}
		ents := make([]string, 0, v.Len())
		for it := v.MapRange(); it.Next(); {
			var e renderer
			e.depth = r.depth
			e.value(it.Key())
			e.sb.WriteString("=>")
			e.value(it.Value())
			ents = append(ents, e.sb.String())
		}
		sort.Strings(ents)
		r.sb.WriteString("map{")
		for i, e := range ents {
			if i > 0 {
				r.sb.WriteByte(';')
			}
			r.sb.WriteString(e)
		}
		r.sb.WriteByte('}')
	case reflect.Pointer:
		if v.IsNil() {
			r.sb.WriteString("nil-ptr")
			return
		}
		r.sb.WriteByte('&')
		r.value(v.Elem())
	case reflect.Interface:
		if v.IsNil() {
			r.sb.WriteString("nil-iface")
			return
		}
		if v.CanInterface() && r.fastAny(v.Interface()) {
			return
		}
		r.sb.WriteString("(" + shortType(v.Elem().Type()) + ")")
		r.value(v.Elem())
	case reflect.Struct:
		r.sb.WriteString(shortType(t))
		r.sb.WriteByte('{')
		for i := 0; i < v.NumField(); i++ {
			if i > 0 {
				r.sb.WriteByte(',')
			}
			r.sb.WriteString(t.Field(i).Name)
			r.sb.WriteByte(':')
			r.value(v.Field(i))
		}
		r.sb.WriteByte('}')
	default:
		r.sb.WriteString("<" + v.Kind().String() + ">")
	}
}

// fastAny renders the value trees produced by unmarshaling into any without
// reflection (same information as the reflective path: dynamic types, every
// string byte, sorted map members).
func (r *renderer) fastAny(x any) bool {
	switch x := x.(type) {
	case string:
		r.sb.WriteString("(string)")
		r.quoted(x)
	case float64:
		r.sb.WriteString("(float64)")
		r.sb.WriteString(strconv.FormatFloat(x, 'g', -1, 64))
	case bool:
		r.sb.WriteString("(bool)")
		r.sb.WriteString(strconv.FormatBool(x))
	case []any:
		if x == nil {
			return false
		}
		r.depth++
		r.sb.WriteString("([]any)[")
		for i, e := range x {
			if i > 0 {
				r.sb.WriteByte(',')
			}
			if e == nil {
				r.sb.WriteString("nil-iface")
			} else if !r.fastAny(e) {
				r.value(reflect.ValueOf(&e).Elem())
			}
		}
		r.sb.WriteByte(']')
		r.depth--
	case map[string]any:
		if x == nil {
			return false
		}
		r.depth++
		keys := make([]string, 0, len(x))
		for k := range x {
			keys = append(keys, k)
		}
		sort.Strings(keys)
		r.sb.WriteString("(map[string]any)map{")
		for i, k := range keys {
			if i > 0 {
				r.sb.WriteByte(';')
			}
			r.quoted(k)
			r.sb.WriteString("=>")
			if e := x[k]; e == nil {
				r.sb.WriteString("nil-iface")
			} else if !r.fastAny(e) {
				r.value(reflect.ValueOf(&e).Elem())
			}
		}
		r.sb.WriteByte('}')
		r.depth--
	default:
		return false
	}
	return true
}

func shortType(t reflect.Type) string {
	s := t.String()
	s = strings.ReplaceAll(s, "interface {}", "any")
	return s
}

// ---------------------------------------------------------------------------
// Structural rendering of errors: type, sentinel membership, ByteOffset,
// JSONPointer, JSONKind, JSONValue, GoType — never the message text (it
// contains a per-process random phrase).

var (
	errUser   = errors.New("c18: user error")
	errWriter = errors.New("c18: writer error")
	errReader = errors.New("c18: reader error")
)

var sentinels = []struct {
	name string
	err  error
}{
	{"io.EOF", io.EOF},
	{"io.ErrUnexpectedEOF", io.ErrUnexpectedEOF},
	{"jsontext.ErrDuplicateName", jsontext.ErrDuplicateName},
	{"jsontext.ErrNonStringName", jsontext.ErrNonStringName},
	{"json.ErrUnknownName", json.ErrUnknownName},
	{"errors.ErrUnsupported", errors.ErrUnsupported},
	{"strconv.ErrRange", strconv.ErrRange},
	{"strconv.ErrSyntax", strconv.ErrSyntax},
	{"user", errUser},
	{"writer", errWriter},
	{"reader", errReader},
}

func renderErr(err error) string {
	if err == nil {
		return "nil"
	}
	var sb strings.Builder
	renderErrTo(&sb, err, 0)
	return sb.String()
}

func renderErrTo(sb *strings.Builder, err error, depth int) {
	if err == nil {
		sb.WriteString("nil")
		return
	}
	if depth > 8 {
		sb.WriteString("...")
		return
	}
	for _, s := range sentinels {
		if err == s.err {
			sb.WriteString(s.name)
			return
		}
	}
	fmt.Fprintf(sb, "%T", err)
	switch e := err.(type) {
	case *json.SemanticError:
		fmt.Fprintf(sb, "{off=%d ptr=%q kind=%q val=%q type=", e.ByteOffset, string(e.JSONPointer), e.JSONKind.String(), string(e.JSONValue))
		if e.GoType != nil {
			sb.WriteString(shortType(e.GoType))
		} else {
			sb.WriteString("-")
		}
		sb.WriteString(" err=")
		renderErrTo(sb, e.Err, depth+1)
		sb.WriteString("}")
		return
	case *jsontext.SyntacticError:
		fmt.Fprintf(sb, "{off=%d ptr=%q err=", e.ByteOffset, string(e.JSONPointer))
		renderErrTo(sb, e.Err, depth+1)
		sb.WriteString("}")
		return
	}
	var is []string
	for _, s := range sentinels {
		if errors.Is(err, s.err) {
			is = append(is, s.name)
		}
	}
	if len(is) > 0 {
		sb.WriteString("{is=" + strings.Join(is, "+") + "}")
	}
	if u, ok := err.(interface{ Unwrap() error }); ok {
		sb.WriteString("{unwrap=")
		renderErrTo(sb, u.Unwrap(), depth+1)
		sb.WriteString("}")
	}
}

// ---------------------------------------------------------------------------
// Comparison of JSON texts up to object member order (for map-typed data
// marshaled without Deterministic). The text is parsed by the reference
// parser and re-rendered with the members of every object sorted by their raw
// text, all insignificant whitespace dropped.

func normUnordered(out []byte) []byte {
	n, perr := ref.Parse(out, ref.Opt{AllowInvalidUTF8: true, AllowDup: true})
	if perr != nil {
		return append([]byte("!unparsable:"), out...)
	}
	return normNode(nil, out, n)
}

func normNode(dst, in []byte, n *ref.Node) []byte {
	switch n.Kind {
	case '{':
		ms := make([][]byte, len(n.Members))
		for i, m := range n.Members {
			b := append([]byte(nil), in[m.Name.Start:m.Name.End]...)
			b = append(b, ':')
			ms[i] = normNode(b, in, m.Value)
		}
		sort.Slice(ms, func(i, j int) bool { return bytes.Compare(ms[i], ms[j]) < 0 })
		dst = append(dst, '{')
		for i, m := range ms {
			if i > 0 {
				dst = append(dst, ',')
			}
			dst = append(dst, m...)
		}
		return append(dst, '}')
	case '[':
		dst = append(dst, '[')
		for i, e := range n.Elems {
			if i > 0 {
				dst = append(dst, ',')
			}
			dst = normNode(dst, in, e)
		}
		return append(dst, ']')
	}
	return append(dst, in[n.Start:n.End]...)
}

// memberNames returns the member-name sequence of every object of the text in
// document order (used by the narrow F3 classifier).
func memberNames(out []byte) ([]string, bool) {
	n, perr := ref.Parse(out, ref.Opt{AllowInvalidUTF8: true, AllowDup: true})
	if perr != nil {
		return nil, false
	}
	var names []string
	var walk func(n *ref.Node)
	walk = func(n *ref.Node) {
		switch n.Kind {
		case '{':
			names = append(names, "{")
			for _, m := range n.Members {
				names = append(names, m.Name.Str)
				walk(m.Value)
			}
			names = append(names, "}")
		case '[':
			for _, e := range n.Elems {
				walk(e)
			}
		}
	}
	walk(n)
	return names, true
}

func firstDiff(a, b []byte) int {
	n := min(len(a), len(b))
	for i := 0; i < n; i++ {
		if a[i] != b[i] {
			return i
		}
	}
	return n
}

func clipAround(b []byte, at int) string {
	lo := max(0, at-40)
	hi := min(len(b), at+40)
	return fmt.Sprintf("%q", b[lo:hi])
}

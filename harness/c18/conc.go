package c18

import (
	"errors"
	"fmt"

	"pgregory.net/rapid"

	"verif/harness/cov"
)

// oracleFail reports a harness-side problem (never a verdict on the code).
var oracleFail = func(msg string) {}

// replayMode is set when a single saved case is replayed: scheduling-dependent
// sub-checks then repeat the case.
var replayMode bool

func harnessProblem(err error) bool {
	if errors.Is(err, errWorker) {
		oracleFail(err.Error())
		return true
	}
	return false
}

// RunConc runs one concurrent history in a worker process under the race
// detector and compares every result with the sequential baseline.
func RunConc(c ConcCase) error {
	ensureBaseline()
	for _, s := range c.Seqs {
		if err := (Case{Seq: s}).valid(); err != nil {
			return err
		}
	}
	rec.Eval()
	rec.Class(fmt.Sprintf("conc-goroutines:%d", len(c.Seqs)))
	if c.Fresh {
		rec.Class("conc-fresh-process")
	}
	reps := 1
	if replayMode {
		reps = 10
	}
	for rep := 0; rep < reps; rep++ {
		var r wresp
		var err error
		if c.Fresh {
			r, err = withFresh(wreq{Op: "conc", Conc: &c})
		} else {
			r, err = withPersistent(wreq{Op: "conc", Conc: &c})
		}
		if err != nil {
			if harnessProblem(err) {
				return nil
			}
			return err
		}
		for _, p := range r.Overlaps {
			rec.Class("conc-overlap-observed")
			rec.NonTrivial(cov.FPs("conc", pool[p[0]].name, pool[p[1]].name))
		}
		if r.Err != "" {
			return errors.New(r.Err)
		}
	}
	return nil
}

// genSeq draws a history; heavy calls are drawn less often than light ones.
func genSeq(t *rapid.T, lo, hi int, heavyPct int, allowHuge bool, label string) []int {
	ensurePool()
	var light, heavy []int
	for i := range pool {
		if pool[i].huge && !allowHuge {
			continue
		}
		if pool[i].heavy {
			heavy = append(heavy, i)
		} else {
			light = append(light, i)
		}
	}
	n := rapid.IntRange(lo, hi).Draw(t, label+"-len")
	seq := make([]int, n)
	for k := range seq {
		if rapid.IntRange(0, 99).Draw(t, label+"-class") < heavyPct {
			seq[k] = rapid.SampledFrom(heavy).Draw(t, label)
		} else {
			seq[k] = rapid.SampledFrom(light).Draw(t, label)
		}
	}
	return seq
}

func genConc(fresh bool, maxLen int, allowHuge bool) func(t *rapid.T) ConcCase {
	return func(t *rapid.T) ConcCase {
		g := rapid.IntRange(8, 16).Draw(t, "goroutines")
		c := ConcCase{Fresh: fresh}
		for i := 0; i < g; i++ {
			c.Seqs = append(c.Seqs, genSeq(t, 5, maxLen, 5, allowHuge, fmt.Sprintf("g%d", i)))
		}
		return c
	}
}

// RunXproc executes the calls of the history in a brand-new process (whose
// own history is therefore c.Seq, not the parent's index order) and compares
// each digest with the parent's baseline.
func RunXproc(c Case) error {
	ensureBaseline()
	if err := c.valid(); err != nil {
		return err
	}
	recordSeq("history run by a second process", c.Seq)
	r, err := withFresh(wreq{Op: "digests", Seq: c.Seq})
	if err != nil {
		if harnessProblem(err) {
			return nil
		}
		return err
	}
	if len(r.Digests) != len(c.Seq) {
		oracleFail("worker returned a wrong number of digests")
		return nil
	}
	for k, i := range c.Seq {
		if r.Names[k] != pool[i].name {
			oracleFail("worker pool differs from parent pool")
			return nil
		}
		if r.Digests[k] != baseline[i].digest() {
			return fmt.Errorf("call #%d %q executed in a second process (position %d of its history) gives a result whose digest %s differs from this process's baseline digest %s (baseline error %s, output prefix %q)",
				i, pool[i].name, k, r.Digests[k], baseline[i].digest(), clipS(baseline[i].Err, 200), clipS(string(baseline[i].Out), 80))
		}
	}
	return nil
}

package c18

import (
	"bytes"
	"fmt"

	"verif/harness/rt"
)

// selfTest checks the harness's own tools (renderer, normaliser) and that the
// pool reaches what it claims to reach. Failures are harness problems.
func selfTest(e *rt.Env) {
	fail := func(f string, a ...any) { e.OracleFail("c18 self-test: " + fmt.Sprintf(f, a...)) }
	if a, b := normUnordered([]byte(`{"b":[1,{"y":1,"x":2}],"a":null}`)), normUnordered([]byte(` {"a":null, "b":[1,{"x":2,"y":1}]}`)); !bytes.Equal(a, b) {
		fail("normUnordered: %s vs %s", a, b)
	}
	if a, b := normUnordered([]byte(`{"a":1,"b":2}`)), normUnordered([]byte(`{"a":2,"b":1}`)); bytes.Equal(a, b) {
		fail("normUnordered conflates different documents")
	}
	type T struct {
		S string
		B []byte
		M map[string][]int
		P *int
		I any
	}
	one := 1
	v1 := T{"s", []byte("b"), map[string][]int{"k": {1}, "j": nil}, &one, map[string]any{"x": 1.5}}
	two := 1
	v2 := T{"s", []byte("b"), map[string][]int{"j": nil, "k": {1}}, &two, map[string]any{"x": 1.5}}
	if renderValue(&v1) != renderValue(&v2) {
		fail("renderValue not deterministic: %s vs %s", renderValue(&v1), renderValue(&v2))
	}
	v2.B[0] = 'c'
	if renderValue(&v1) == renderValue(&v2) {
		fail("renderValue does not see byte changes")
	}
	// the pool has what the design asks for
	want := map[string]bool{"ok": false, "user-panic": false}
	kinds := map[string]bool{}
	heavy := 0
	for i := range pool {
		want[outcomeClasses[i]] = true
		kinds[pool[i].kind] = true
		if pool[i].heavy {
			heavy++
		}
		if baseline[i].Panic != "" && baseline[i].Panic[:5] != "user:" {
			fail("call %q panics inside the library in its baseline: %s", pool[i].name, baseline[i].Panic)
		}
	}
	for k, ok := range want {
		if !ok {
			fail("no call with outcome %s", k)
		}
	}
	if len(pool) < 60 || heavy < 8 || len(kinds) < 10 {
		fail("pool too small: %d calls, %d heavy, %d kinds", len(pool), heavy, len(kinds))
	}
	// the covering walk really covers every ordered pair once
	for _, n := range []int{1, 2, 5, 17} {
		w := deBruijn2(n)
		seen := map[[2]int]bool{}
		for i := range w {
			seen[[2]int{w[i], w[(i+1)%len(w)]}] = true
		}
		if len(w) != n*n || len(seen) != n*n {
			fail("deBruijn2(%d) covers %d pairs with %d elements", n, len(seen), len(w))
		}
	}
	names := map[string]bool{}
	for i := range pool {
		if names[pool[i].name] {
			fail("duplicate call name %q", pool[i].name)
		}
		names[pool[i].name] = true
	}
}

package c18

import (
	"fmt"
	"os"
	"strings"
	"syscall"
	"testing"
	"time"

	"pgregory.net/rapid"

	"verif/harness/cov"
	"verif/harness/rt"
)

// TestMain (a) diverts to the worker loop when the binary was re-executed by a
// sub-check that needs a second process (see worker.go) and (b) re-executes the
// shard once with a race-detector setting that keeps large allocations from
// being pathologically slow (the shadow of every range above 64 KiB is
// otherwise re-mapped and page-faulted on each allocation).
func TestMain(m *testing.M) {
	if os.Getenv("VERIF_C18_WORKER") != "" {
		WorkerMain()
		os.Exit(0)
	}
	if !strings.Contains(os.Getenv("GORACE"), "clear_shadow_mmap_threshold") && os.Getenv("VERIF_C18_NOREEXEC") == "" {
		if exe, err := os.Executable(); err == nil {
			env := append(os.Environ(), "VERIF_C18_NOREEXEC=1", "GORACE="+strings.TrimSpace(os.Getenv("GORACE")+" "+raceTuning))
			syscall.Exec(exe, os.Args, env) // only returns on failure; then just run untuned
		}
	}
	os.Exit(m.Run())
}

func TestCheck(t *testing.T) {
	e := rt.Setup(t, "C18")
	defer CloseWorkers() // after Finish (which replays regression files and may need a worker)
	defer e.Finish()
	rec = e.Rec
	oracleFail = e.OracleFail
	replayMode = e.Replaying()

	t0, c0 := time.Now(), cpuTime()
	phase := func(name string) {
		if os.Getenv("VERIF_C18_TIMING") != "" {
			fmt.Printf("c18 timing shard %d: %-12s done at wall %6.1fs cpu %6.1fs\n", e.Shard, name, time.Since(t0).Seconds(), (cpuTime() - c0).Seconds())
		}
	}
	// development aid: VERIF_C18_ONLY=pairs,alias runs only those sub-checks
	want := func(sub string) bool {
		only := os.Getenv("VERIF_C18_ONLY")
		return only == "" || e.Replaying() || strings.Contains(","+only+",", ","+sub+",")
	}
	ensureBaseline() // first thing in the process: every call once, in index order
	selfTest(e)
	phase("baseline")
	n := len(pool)
	if !e.Replaying() {
		rec.Excluded("deterministic-colliding-names") // the F3 call is kept out of the pool by construction
	}
	var normal []int // calls below 1 MiB
	for i := range pool {
		if !pool[i].huge {
			normal = append(normal, i)
		}
	}

	// (0) the whole pool again in index order and in reverse order
	if want("whole-pool") {
		rt.Enum(e, "whole-pool", func(yield func(Case) bool) {
			fwd, rev := make([]int, n), make([]int, n)
			for i := range fwd {
				fwd[i], rev[i] = i, n-1-i
			}
			if e.Mine(0) && !yield(Case{Seq: fwd}) {
				return
			}
			if e.Mine(1) {
				yield(Case{Seq: rev})
			}
		}, RunSeq)
	}
	phase("whole-pool")

	if want("expect") {
		rt.Enum(e, "expect", func(yield func(Case) bool) {
			for i := range pool {
				if _, ok := expectVal[pool[i].name]; ok && e.Mine(int64(i)) && !yield(Case{Seq: []int{i}}) {
					return
				}
			}
		}, RunExpect)
	}
	phase("expect")

	// (1) bounded-exhaustive: every ordered pair (a,b), b compared with its baseline.
	// Quick: one walk in which every ordered pair of the calls below 1 MiB occurs
	// exactly once as (predecessor, call), cut into chunks; the 1 MiB calls are
	// paired with every call in the thorough tier, where each pair is also run as
	// its own history a,b,a,b.
	if want("pairs") {
		rt.Enum(e, "pairs", func(yield func(Case) bool) {
			var cnt int64
			if !e.Thorough() {
				walk := deBruijn2(len(normal))
				const chunk = 12
				for k, at := 0, 0; at < len(walk); k, at = k+1, at+chunk {
					if !e.Mine(int64(k)) {
						continue
					}
					var seq []int
					for j := at; j <= at+chunk && j <= len(walk); j++ {
						seq = append(seq, normal[walk[j%len(walk)]])
					}
					if !yield(Case{Seq: seq}) {
						return
					}
					cnt += int64(len(seq) - 1)
				}
				rec.AddPart(cov.Part{Name: "all ordered pairs (predecessor, call) of the pool calls below 1 MiB, as one covering walk", Size: cnt, Complete: true})
				// a strided sample of the pairs that involve a 1 MiB call
				off := e.Offset("pairs-huge", 7)
				var hc int64
				hi := 0
				for i := 0; i < n*n; i++ {
					a, b := i/n, i%n
					if !(pool[a].huge || pool[b].huge) {
						continue
					}
					hi++
					if (hi+off)%7 != 0 || !e.Mine(int64(hi/7)) {
						continue
					}
					if !yield(Case{Seq: []int{a, b}}) {
						return
					}
					hc++
				}
				rec.AddPart(cov.Part{Name: "ordered pairs involving a 1 MiB call (strided sample in quick)", Size: hc, Complete: false, Stride: 7})
				return
			}
			for i := 0; i < n*n; i++ {
				if !e.Mine(int64(i)) {
					continue
				}
				a, b := i/n, i%n
				if !yield(Case{Seq: []int{a, b, a, b}}) {
					return
				}
				cnt++
			}
			rec.AddPart(cov.Part{Name: "all ordered pairs (a,b) of the whole pool, each as its own history a,b,a,b", Size: cnt, Complete: true})
		}, RunSeq)
	}
	phase("pairs")

	// (2) random histories
	if want("seq") {
		rt.Rapid(e, "seq", 200, 3000, func(t *rapid.T) Case { return Case{Seq: genSeq(t, 5, 40, 5, true, "call")} }, RunSeq)
	}
	phase("seq")

	// (2b) generated victim / poison histories outside the fixed pool
	if want("poison") {
		rt.Rapid(e, "poison", 24000, 400000, genPCase, RunPoison)
	}
	phase("poison")

	// (4) aliasing: every call followed by others, then random histories
	if want("alias-each") {
		rt.Enum(e, "alias-each", func(yield func(Case) bool) {
			for i := 0; i < n; i++ {
				if e.Mine(int64(i)) && !yield(Case{Seq: []int{i, (i + 1) % n, (i + n/2) % n, i}}) {
					return
				}
			}
		}, RunAlias)
	}
	phase("alias-each")
	if want("alias") {
		rt.Rapid(e, "alias", 160, 2400, func(t *rapid.T) Case { return Case{Seq: genSeq(t, 2, 14, 5, true, "call")} }, RunAlias)
	}
	phase("alias")

	// (5) determinism across insertion orders, repetitions and processes
	if want("determinism") {
		rt.Rapid(e, "determinism", 4000, 80000, genDet, RunDet)
	}
	phase("determinism")

	// cross-process: the pool executed in another order by a brand-new process
	if want("xproc") {
		rt.Enum(e, "xproc", func(yield func(Case) bool) {
			orders := 1
			if e.Thorough() {
				orders = 2
			}
			for k := 0; k < orders; k++ {
				m := len(normal) // quick: the calls below 1 MiB; thorough: the whole pool
				if e.Thorough() {
					m = n
				}
				seq := make([]int, m)
				step := []int{m - 1, 7, 11, 13}[k]
				for gcd(step, m) != 1 {
					step++
				}
				for i := range seq {
					seq[i] = (e.Shard*13 + k + i*step) % m
					if !e.Thorough() {
						seq[i] = normal[seq[i]]
					}
				}
				// each child executes a quarter of the order (short cases: a child process
				// start under the race detector is slow on a loaded machine)
				for h := 0; h < 4; h++ {
					var part []int
					for i, c := range seq {
						if i%4 == h {
							part = append(part, c)
						}
					}
					if !yield(Case{Seq: part}) {
						return
					}
				}
			}
		}, RunXproc)
	}
	phase("xproc")

	// (3) concurrency under the race detector
	if want("conc") {
		if !e.Replaying() {
			if e.Thorough() {
				all := make([]int, n)
				for i := range all {
					all[i] = i
				}
				WarmWorker(all)
			} else {
				WarmWorker(normal)
			}
		}
		rt.Rapid(e, "conc", 64, 480, genConc(false, map[bool]int{false: 20, true: 30}[e.Thorough()], e.Thorough()), RunConc)
	}
	phase("conc")
	if want("conc-fresh") {
		rt.Rapid(e, "conc-fresh", 16, 64, genConc(true, 12, false), RunConc)
	}
	phase("conc-fresh")
}

func cpuTime() time.Duration {
	var ru syscall.Rusage
	syscall.Getrusage(syscall.RUSAGE_SELF, &ru)
	return time.Duration(ru.Utime.Nano() + ru.Stime.Nano())
}

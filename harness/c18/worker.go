package c18

import (
	"bufio"
	stdjson "encoding/json"
	"fmt"
	"io"
	"os"
	"os/exec"
	"path/filepath"
	"regexp"
	"runtime"
	"sort"
	"strings"
	"sync"
	"time"
)

// The concurrency, cross-process and determinism sub-checks need a second
// process: the test binary re-executes itself with VERIF_C18_WORKER set
// (TestMain diverts to WorkerMain). The worker runs under
// GORACE="halt_on_error=1 exitcode=66 log_path=..." so that a data race ends
// it at once; the parent turns that into an ordinary error of the case in
// flight (hence a VIOLATION with a replay file).

// ConcCase is a concurrent history: one call sequence per goroutine.
type ConcCase struct {
	Seqs  [][]int `json:"seqs"`
	Fresh bool    `json:"fresh"` // run in a brand-new process, before anything else (first-use initialisation races)
}

type wreq struct {
	Op   string    `json:"op"` // conc | det | digests | warm | quit
	Conc *ConcCase `json:"conc,omitempty"`
	Det  *DetCase  `json:"det,omitempty"`
	Seq  []int     `json:"seq,omitempty"`
}

type wresp struct {
	Err      string   `json:"err,omitempty"`      // property violation observed by the worker
	Bad      string   `json:"bad,omitempty"`      // malformed request
	Overlaps [][2]int `json:"overlaps,omitempty"` // call pairs that overlapped in time on different goroutines
	Det      []detOut `json:"det,omitempty"`
	Digests  []string `json:"digests,omitempty"`
	Names    []string `json:"names,omitempty"`
}

const raceExit = 66

// raceTuning: reset shadow memory by clearing it instead of re-mapping it
// (otherwise every allocation above 64 KiB costs hundreds of page faults).
// atexit_sleep_ms=0: do not sleep one second at every process exit.
const raceTuning = "clear_shadow_mmap_threshold=1073741824 atexit_sleep_ms=0"

// WorkerMain serves requests from stdin until EOF.
func WorkerMain() {
	runtime.GOMAXPROCS(8)
	mode := os.Getenv("VERIF_C18_WORKER")
	ensurePool()
	in := stdjson.NewDecoder(bufio.NewReaderSize(os.Stdin, 1<<16))
	out := bufio.NewWriter(os.Stdout)
	enc := stdjson.NewEncoder(out)
	for {
		var q wreq
		if err := in.Decode(&q); err != nil {
			return
		}
		var r wresp
		switch q.Op {
		case "quit":
			return
		case "conc":
			if q.Conc == nil {
				r.Bad = "no case"
				break
			}
			r = runConc(*q.Conc, mode == "fresh")
		case "warm":
			// compute baselines ahead of the concurrent cases (outside any case's time budget)
			ok := true
			for _, i := range q.Seq {
				if i < 0 || i >= len(pool) {
					r.Bad, ok = "index outside pool", false
					break
				}
			}
			if ok {
				ensureBaselineFor(q.Seq)
			}
		case "det":
			if q.Det == nil {
				r.Bad = "no case"
				break
			}
			r.Det = q.Det.marshalDet(1)
		case "digests":
			// execute the calls in the requested order (in a fresh worker this is a
			// history different from the parent's index order) and report digests
			for k, i := range q.Seq {
				if i < 0 || i >= len(pool) {
					r.Bad = "index outside pool"
					break
				}
				res, _ := seqCtx.exec(i, 1000+k)
				r.Digests = append(r.Digests, res.digest())
				r.Names = append(r.Names, pool[i].name)
			}
		default:
			r.Bad = "unknown op"
		}
		if err := enc.Encode(&r); err != nil {
			return
		}
		out.Flush()
	}
}

type concSlot struct {
	idx        int
	start, end time.Time
	mismatch   string
	digest     string
	small      *Result
}

// runConc runs the goroutines. The only synchronisation the harness adds is
// goroutine start and the final join; timing is read from the monotonic clock.
func runConc(c ConcCase, fresh bool) (resp wresp) {
	for _, s := range c.Seqs {
		for _, i := range s {
			if i < 0 || i >= len(pool) {
				resp.Bad = "index outside pool"
				return
			}
		}
	}
	var used []int
	for _, s := range c.Seqs {
		used = append(used, s...)
	}
	if !fresh {
		ensureBaselineFor(used) // sequentially, before the goroutines start
	}
	slots := make([][]concSlot, len(c.Seqs))
	var wg sync.WaitGroup
	start := make(chan struct{})
	for g := range c.Seqs {
		slots[g] = make([]concSlot, len(c.Seqs[g]))
		wg.Add(1)
		go func(g int) {
			defer wg.Done()
			<-start
			gc := &ctx{}
			for k, i := range c.Seqs[g] {
				s := &slots[g][k]
				s.idx = i
				s.start = time.Now()
				r, _ := gc.exec(i, g*1000+k)
				s.end = time.Now()
				if fresh {
					s.digest = r.digest()
					if len(r.Out)+len(r.Val) < 4096 {
						s.small = &r
					}
				} else if !r.equal(baseline[i]) {
					s.mismatch = r.diff(baseline[i])
				}
			}
		}(g)
	}
	close(start)
	wg.Wait()
	if fresh {
		ensureBaselineFor(used) // computed after the concurrent phase, sequentially
	}
	for g := range slots {
		for k := range slots[g] {
			s := &slots[g][k]
			if fresh && s.digest != baseline[s.idx].digest() {
				s.mismatch = "result digest differs from the sequential execution made afterwards"
				if s.small != nil {
					s.mismatch = s.small.diff(baseline[s.idx])
				}
			}
			if s.mismatch != "" && resp.Err == "" {
				resp.Err = fmt.Sprintf("goroutine %d of %d, position %d: call #%d %q run concurrently with other calls differs from its sequential baseline: %s", g, len(slots), k, s.idx, pool[s.idx].name, s.mismatch)
			}
		}
	}
	// overlapping pairs
	seen := map[[2]int]bool{}
	for g := range slots {
		for h := g + 1; h < len(slots); h++ {
			for _, a := range slots[g] {
				for _, b := range slots[h] {
					if a.start.Before(b.end) && b.start.Before(a.end) {
						p := [2]int{min(a.idx, b.idx), max(a.idx, b.idx)}
						seen[p] = true
					}
				}
			}
		}
	}
	for p := range seen {
		resp.Overlaps = append(resp.Overlaps, p)
	}
	sort.Slice(resp.Overlaps, func(i, j int) bool {
		if resp.Overlaps[i][0] != resp.Overlaps[j][0] {
			return resp.Overlaps[i][0] < resp.Overlaps[j][0]
		}
		return resp.Overlaps[i][1] < resp.Overlaps[j][1]
	})
	return resp
}

// ---------------------------------------------------------------------------
// Parent side.

type worker struct {
	cmd    *exec.Cmd
	stdin  io.WriteCloser
	enc    *stdjson.Encoder
	dec    *stdjson.Decoder
	dir    string
	stderr string
}

var (
	persistent *worker
	workerMu   sync.Mutex
)

func startWorker(mode string) (*worker, error) {
	exe, err := os.Executable()
	if err != nil {
		return nil, fmt.Errorf("%w: %v", errWorker, err)
	}
	dir, err := os.MkdirTemp("", "c18-worker-")
	if err != nil {
		return nil, fmt.Errorf("%w: %v", errWorker, err)
	}
	w := &worker{dir: dir, stderr: filepath.Join(dir, "stderr")}
	cmd := exec.Command(exe)
	var env []string
	for _, kv := range os.Environ() {
		if strings.HasPrefix(kv, "GORACE=") || strings.HasPrefix(kv, "VERIF_C18_WORKER=") || strings.HasPrefix(kv, "VERIF_OUT=") || strings.HasPrefix(kv, "VERIF_REPLAY=") {
			continue
		}
		env = append(env, kv)
	}
	env = append(env, "VERIF_C18_WORKER="+mode,
		fmt.Sprintf("GORACE=halt_on_error=1 exitcode=%d log_path=%s %s", raceExit, filepath.Join(dir, "race"), raceTuning))
	cmd.Env = env
	ef, err := os.Create(w.stderr)
	if err != nil {
		os.RemoveAll(dir)
		return nil, fmt.Errorf("%w: %v", errWorker, err)
	}
	defer ef.Close()
	cmd.Stderr = ef
	w.stdin, _ = cmd.StdinPipe()
	so, _ := cmd.StdoutPipe()
	if err := cmd.Start(); err != nil {
		os.RemoveAll(dir)
		return nil, fmt.Errorf("%w: cannot start: %v", errWorker, err)
	}
	w.cmd = cmd
	w.enc = stdjson.NewEncoder(w.stdin)
	w.dec = stdjson.NewDecoder(bufio.NewReaderSize(so, 1<<16))
	return w, nil
}

func (w *worker) close() {
	if w == nil {
		return
	}
	w.stdin.Close()
	done := make(chan struct{})
	go func() { w.cmd.Wait(); close(done) }()
	select {
	case <-done:
	case <-time.After(20 * time.Second):
		w.cmd.Process.Kill()
		<-done
	}
	os.RemoveAll(w.dir)
}

// workerDeath is returned when the worker ended instead of answering.
type workerDeath struct {
	race   bool
	code   int
	report string
}

func (d *workerDeath) Error() string {
	if d.race {
		return "DATA RACE reported by the race detector while the case ran:\n" + d.report
	}
	return fmt.Sprintf("worker process died (exit %d) while the case ran:\n%s", d.code, d.report)
}

// do sends one request. If the worker dies, the cause is returned as *workerDeath.
func (w *worker) do(q wreq) (wresp, error) {
	var r wresp
	if err := w.enc.Encode(&q); err == nil {
		if err := w.dec.Decode(&r); err == nil {
			if r.Bad != "" {
				return r, fmt.Errorf("%w: %s", errWorker, r.Bad)
			}
			return r, nil
		}
	}
	w.stdin.Close()
	werr := w.cmd.Wait()
	code := -1
	if ee, ok := werr.(*exec.ExitError); ok {
		code = ee.ExitCode()
	} else if werr == nil {
		code = 0
	}
	d := &workerDeath{code: code}
	logs, _ := filepath.Glob(filepath.Join(w.dir, "race.*"))
	var sb strings.Builder
	for _, l := range logs {
		data, _ := os.ReadFile(l)
		sb.Write(data)
	}
	if code == raceExit || strings.Contains(sb.String(), "DATA RACE") {
		d.race = true
		d.report = normRace(sb.String())
	} else {
		data, _ := os.ReadFile(w.stderr)
		d.report = clipLines(string(data), 30)
	}
	os.RemoveAll(w.dir)
	return r, d
}

var (
	reHex  = regexp.MustCompile(`0x[0-9a-f]+`)
	reGo   = regexp.MustCompile(`goroutine \d+`)
	reTmp  = regexp.MustCompile(`/tmp/[A-Za-z0-9._-]+/`)
	reOff  = regexp.MustCompile(` \+0x[0-9a-f]+$`)
	rePid  = regexp.MustCompile(`pid=\d+`)
	reGoID = regexp.MustCompile(`Goroutine \d+`)
)

// normRace keeps the first report's access stacks (function and file:line of
// up to 8 frames each) without addresses, goroutine numbers and scratch paths,
// so that the same race gives the same text in every run.
func normRace(report string) string {
	var out []string
	frames := 0
	for _, l := range strings.Split(report, "\n") {
		t := strings.TrimRight(l, " ")
		switch {
		case strings.HasPrefix(t, "Goroutine ") || strings.HasPrefix(t, "Found "):
			// creation stacks and the summary line are dropped
			return strings.Join(out, "\n")
		case strings.HasPrefix(t, "WARNING: DATA RACE") || strings.HasPrefix(t, "====="):
			if len(out) > 2 && strings.HasPrefix(t, "=====") {
				return strings.Join(out, "\n")
			}
			out = append(out, t)
		case !strings.HasPrefix(t, " ") && t != "":
			frames = 0
			t = reHex.ReplaceAllString(t, "ADDR")
			t = reGo.ReplaceAllString(t, "goroutine N")
			t = rePid.ReplaceAllString(t, "pid=P")
			out = append(out, t)
		case t != "":
			if frames >= 16 {
				continue
			}
			frames++
			t = reOff.ReplaceAllString(t, "")
			t = reTmp.ReplaceAllString(t, "/tmp/X/")
			out = append(out, t)
		}
	}
	return strings.Join(out, "\n")
}

func clipLines(s string, n int) string {
	lines := strings.Split(s, "\n")
	if len(lines) > n {
		lines = lines[:n]
	}
	return strings.Join(lines, "\n")
}

// withPersistent runs q on the shared long-lived worker (restarted if it died).
func withPersistent(q wreq) (wresp, error) {
	workerMu.Lock()
	defer workerMu.Unlock()
	if persistent == nil {
		w, err := startWorker("persistent")
		if err != nil {
			return wresp{}, err
		}
		persistent = w
	}
	r, err := persistent.do(q)
	if err != nil {
		if _, dead := err.(*workerDeath); dead {
			persistent = nil
		}
	}
	return r, err
}

// withFresh runs q on a brand-new worker that is discarded afterwards.
func withFresh(q wreq) (wresp, error) {
	w, err := startWorker("fresh")
	if err != nil {
		return wresp{}, err
	}
	r, err := w.do(q)
	if _, dead := err.(*workerDeath); !dead {
		w.close()
	}
	return r, err
}

// WarmWorker makes the long-lived worker compute the baselines of the listed
// calls now, in small requests, so that the first concurrent case does not
// have to pay for all of them.
func WarmWorker(idxs []int) {
	for len(idxs) > 0 {
		n := min(len(idxs), 16)
		if _, err := withPersistent(wreq{Op: "warm", Seq: idxs[:n]}); err != nil {
			return // the first real case will report whatever is wrong
		}
		idxs = idxs[n:]
	}
}

// CloseWorkers stops the long-lived worker.
func CloseWorkers() {
	workerMu.Lock()
	defer workerMu.Unlock()
	persistent.close()
	persistent = nil
}

func workerDet(c DetCase) ([]detOut, error) {
	r, err := withPersistent(wreq{Op: "det", Det: &c})
	if err != nil {
		return nil, err
	}
	return r.Det, nil
}

package c18

import (
	"bytes"
	"errors"
	"fmt"
	"os"
	"strconv"

	"github.com/go-json-experiment/json"
	"github.com/go-json-experiment/json/jsontext"
	"pgregory.net/rapid"

	"verif/harness/cov"
	"verif/harness/rt"
)

// DetKey is one map key: T selects the Go type of the key.
type DetKey struct {
	T string `json:"t"` // s string | i int | i8 int8 | u uint | f float64
	S []byte `json:"s,omitempty"`
	N int64  `json:"n,omitempty"`
}

// DetCase is one determinism case: a map value described by its keys, built
// in two insertion orders (index order and Perm) with Churn extra keys
// inserted and deleted again, marshaled with Deterministic(true).
type DetCase struct {
	Kind  string   `json:"kind"` // string | int | any | nested
	Keys  []DetKey `json:"keys"`
	Perm  []int    `json:"perm"`
	Churn int      `json:"churn"`
	Dup   bool     `json:"allow_duplicate_names"`
}

func (k DetKey) goKey(kind string) any {
	switch kind {
	case "string", "nested":
		return string(k.S)
	case "int":
		return k.N
	}
	switch k.T {
	case "i":
		return int(k.N)
	case "i8":
		return int8(k.N)
	case "u":
		return uint(k.N & 0xffff)
	case "f":
		return float64(k.N) / 2
	}
	return string(k.S)
}

// jsonName is the object name the key marshals to.
func (k DetKey) jsonName(kind string) string {
	switch v := k.goKey(kind).(type) {
	case string:
		return v
	case int64:
		return strconv.FormatInt(v, 10)
	case int:
		return strconv.Itoa(v)
	case int8:
		return strconv.Itoa(int(v))
	case uint:
		return strconv.FormatUint(uint64(v), 10)
	case float64:
		return string(jsontext.AppendFloat(nil, v, 64))
	}
	return "?"
}

// colliding reports whether two distinct Go keys marshal to the same name.
func (c DetCase) colliding() bool {
	seen := map[string]any{}
	for _, k := range c.Keys {
		g, n := k.goKey(c.Kind), k.jsonName(c.Kind)
		if prev, ok := seen[n]; ok && prev != g {
			return true
		}
		seen[n] = g
	}
	return false
}

func (c DetCase) order(second bool) []int {
	idx := make([]int, len(c.Keys))
	for i := range idx {
		idx[i] = i
	}
	if second && len(c.Perm) == len(c.Keys) {
		ok := true
		seen := make([]bool, len(idx))
		for _, p := range c.Perm {
			if p < 0 || p >= len(idx) || seen[p] {
				ok = false
				break
			}
			seen[p] = true
		}
		if ok {
			return c.Perm
		}
	}
	return idx
}

// build constructs the map value; the value of key number i is i (its first
// occurrence among equal Go keys wins so that both orders give the same map).
func (c DetCase) build(second bool) any {
	first := map[any]int{}
	for i, k := range c.Keys {
		g := k.goKey(c.Kind)
		if _, ok := first[g]; !ok {
			first[g] = i
		}
	}
	churn := c.Churn
	if !second {
		churn = 0
	}
	switch c.Kind {
	case "string":
		m := map[string]int{}
		for j := 0; j < churn; j++ {
			m["\x00churn"+strconv.Itoa(j)] = j
		}
		for _, i := range c.order(second) {
			g := c.Keys[i].goKey(c.Kind)
			m[g.(string)] = first[g]
		}
		for j := 0; j < churn; j++ {
			delete(m, "\x00churn"+strconv.Itoa(j))
		}
		return m
	case "int":
		m := map[int64]string{}
		for j := 0; j < churn; j++ {
			m[1<<40+int64(j)] = ""
		}
		for _, i := range c.order(second) {
			g := c.Keys[i].goKey(c.Kind)
			m[g.(int64)] = "v" + strconv.Itoa(first[g])
		}
		for j := 0; j < churn; j++ {
			delete(m, 1<<40+int64(j))
		}
		return m
	case "nested":
		m := map[string]any{}
		for _, i := range c.order(second) {
			g := c.Keys[i].goKey(c.Kind)
			inner := map[string]any{}
			for _, j := range c.order(!second) {
				g2 := c.Keys[j].goKey(c.Kind)
				inner[g2.(string)] = float64(first[g2])
			}
			m[g.(string)] = []any{inner, float64(first[g])}
		}
		return m
	}
	m := map[any]int{}
	for j := 0; j < churn; j++ {
		m[[2]int{j, j}] = j
	}
	for _, i := range c.order(second) {
		g := c.Keys[i].goKey(c.Kind)
		m[g] = first[g]
	}
	for j := 0; j < churn; j++ {
		delete(m, [2]int{j, j})
	}
	return m
}

type detOut struct {
	Out []byte `json:"out"`
	Err string `json:"err"`
}

// marshalDet marshals both builds reps times each.
func (c DetCase) marshalDet(reps int) []detOut {
	var outs []detOut
	for r := 0; r < reps; r++ {
		for _, second := range []bool{false, true} {
			v := c.build(second)
			var out []byte
			var err error
			p := guard(func() {
				out, err = json.Marshal(v, json.Deterministic(true), jsontext.AllowDuplicateNames(c.Dup))
			})
			o := detOut{Out: out, Err: renderErr(err)}
			if p != "" {
				o.Err = "panic:" + p
			}
			if err != nil {
				o.Out = nil
			}
			outs = append(outs, o)
		}
	}
	return outs
}

// f3Shape reports whether a and b differ only in the relative order of
// members that carry equal names (the narrow shape of known finding F3).
func f3Shape(a, b detOut) bool {
	if a.Err != "nil" || b.Err != "nil" {
		return false
	}
	na, ok1 := memberNames(a.Out)
	nb, ok2 := memberNames(b.Out)
	if !ok1 || !ok2 || len(na) != len(nb) {
		return false
	}
	for i := range na {
		if na[i] != nb[i] {
			return false
		}
	}
	return bytes.Equal(normUnordered(a.Out), normUnordered(b.Out))
}

var f3Mode = os.Getenv("VERIF_C18_F3") != ""

// RunDet decides one determinism case (in-process repetitions and insertion
// orders, and a second process).
func RunDet(c DetCase) error {
	rec.Eval()
	switch c.Kind {
	case "string", "int", "any", "nested":
	default:
		return fmt.Errorf("bad case kind %q", c.Kind)
	}
	coll := c.colliding()
	rec.Class("det-kind:" + c.Kind)
	if coll {
		rec.Class("det-colliding-names")
	}
	if len(c.Keys) >= 2 {
		raw, _ := json.Marshal(c)
		fp := cov.FP([]byte("det"), raw)
		rec.NonTrivial(fp)
		rec.Sample(fp, func() any { return map[string]any{"sub": "determinism", "case": c} })
	}
	reps := 2
	if coll {
		reps = 40
	}
	outs := c.marshalDet(reps)
	verdict := func(a, b detOut, what string) error {
		if coll && !c.Dup {
			// without AllowDuplicateNames the call fails with a duplicate-name error; which of the
			// colliding members is reported first follows the same unstable order: compare the class only
			if (a.Err == "nil") == (b.Err == "nil") {
				return nil
			}
		}
		err := fmt.Errorf("Deterministic(true) output differs %s: %q (err %s) vs %q (err %s) for %d keys of a %s-keyed map", what, clipS(string(a.Out), 300), a.Err, clipS(string(b.Out), 300), b.Err, len(c.Keys), c.Kind)
		if coll && c.Dup && f3Shape(a, b) {
			return rt.Known("deterministic-colliding-names", err)
		}
		return err
	}
	// Compare everything with the smallest output seen so that the message of a
	// scheduling-independent but order-dependent failure is stable across runs
	// (rapid only shrinks failures whose message repeats).
	minOf := func(os []detOut) detOut {
		m := os[0]
		for _, o := range os[1:] {
			if c := bytes.Compare(o.Out, m.Out); c < 0 || c == 0 && o.Err < m.Err {
				m = o
			}
		}
		return m
	}
	maxOf := func(os []detOut) detOut {
		m := os[0]
		for _, o := range os[1:] {
			if c := bytes.Compare(o.Out, m.Out); c > 0 || c == 0 && o.Err > m.Err {
				m = o
			}
		}
		return m
	}
	if lo, hi := minOf(outs), maxOf(outs); !bytes.Equal(lo.Out, hi.Out) || lo.Err != hi.Err {
		return verdict(lo, hi, "between repetitions / insertion orders within one process")
	}
	// second process
	other, err := workerDet(c)
	if err != nil {
		if harnessProblem(err) {
			return nil
		}
		return err
	}
	all := append(append([]detOut(nil), outs...), other...)
	if lo, hi := minOf(all), maxOf(all); !bytes.Equal(lo.Out, hi.Out) || lo.Err != hi.Err {
		return verdict(lo, hi, "between two processes")
	}
	return nil
}

func genDet(t *rapid.T) DetCase {
	c := DetCase{Kind: rapid.SampledFrom([]string{"string", "int", "any", "any", "nested"}).Draw(t, "kind")}
	n := rapid.IntRange(1, 24).Draw(t, "nkeys")
	strs := []string{"0", "1", "2", "3", "10", "-1", "1.5", "a", "b", "A", "aa", "ab", "é", "é", "\U0001F600", "￿", "", " ", "~", "key", "Key", "k/1", "zz", "0.5", "1e3"}
	for i := 0; i < n; i++ {
		var k DetKey
		switch c.Kind {
		case "string", "nested":
			k.T = "s"
			k.S = []byte(rapid.SampledFrom(strs).Draw(t, "s"))
			if rapid.IntRange(0, 3).Draw(t, "long") == 0 {
				k.S = append(k.S, []byte(rapid.StringOfN(rapid.RuneFrom([]rune("ab01_é")), 1, 12, -1).Draw(t, "suffix"))...)
			}
		case "int":
			k.T = "i"
			k.N = rapid.Int64Range(-1200, 1200).Draw(t, "n")
		default:
			k.T = rapid.SampledFrom([]string{"s", "i", "i8", "u", "f"}).Draw(t, "t")
			if k.T == "s" {
				k.S = []byte(rapid.SampledFrom(strs).Draw(t, "s"))
			} else {
				k.N = rapid.Int64Range(-3, 12).Draw(t, "n")
			}
		}
		c.Keys = append(c.Keys, k)
	}
	c.Dup = rapid.Bool().Draw(t, "allowdup")
	if !f3Mode {
		// known finding F3: keep colliding names out of the campaign (counted)
		seen := map[string]any{}
		kept := c.Keys[:0]
		dropped := false
		for _, k := range c.Keys {
			g, nm := k.goKey(c.Kind), k.jsonName(c.Kind)
			if prev, ok := seen[nm]; ok && prev != g {
				dropped = true
				continue
			}
			seen[nm] = g
			kept = append(kept, k)
		}
		c.Keys = kept
		if dropped {
			rec.Excluded("deterministic-colliding-names")
		}
	}
	c.Perm = rapid.Permutation(seqInts(len(c.Keys))).Draw(t, "perm")
	c.Churn = rapid.SampledFrom([]int{0, 0, 3, 20, 200}).Draw(t, "churn")
	return c
}

func seqInts(n int) []int {
	s := make([]int, n)
	for i := range s {
		s[i] = i
	}
	return s
}

var errWorker = errors.New("c18: worker process problem")

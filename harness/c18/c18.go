// Package c18 decides property C18: calls are isolated from one another (no
// history dependence, no concurrency dependence, no aliasing of results,
// Deterministic output stable across insertion orders and processes).
package c18

import (
	"bytes"
	"crypto/sha256"
	"encoding/hex"
	"fmt"
	"reflect"
	"strings"
	"sync"

	"verif/harness/cov"
)

var rec = cov.New()

// Result is the canonical record of one executed call.
type Result struct {
	Out   []byte // bytes handed back / written (normalised up to member order for unordered calls)
	Val   string // deterministic rendering of the decoded value(s) and other observations
	Err   string // structural rendering of the error
	Panic string // tag of the recovered user panic ("" if none); "LIBRARY:..." for any other panic
}

func (r Result) equal(o Result) bool {
	return r.Err == o.Err && r.Panic == o.Panic && r.Val == o.Val && bytes.Equal(r.Out, o.Out)
}

func (r Result) digest() string {
	h := sha256.New()
	fmt.Fprintf(h, "%d:", len(r.Out))
	h.Write(r.Out)
	fmt.Fprintf(h, "|%d:%s|%s|%s", len(r.Val), r.Val, r.Err, r.Panic)
	return hex.EncodeToString(h.Sum(nil)[:12])
}

func clipS(s string, n int) string {
	if len(s) > n {
		return s[:n] + fmt.Sprintf("...(%d bytes)", len(s))
	}
	return s
}

// diff describes how got differs from want.
func (r Result) diff(want Result) string {
	var parts []string
	if r.Err != want.Err {
		parts = append(parts, fmt.Sprintf("error: got %s, baseline %s", clipS(r.Err, 300), clipS(want.Err, 300)))
	}
	if r.Panic != want.Panic {
		parts = append(parts, fmt.Sprintf("panic: got %q, baseline %q", clipS(r.Panic, 300), clipS(want.Panic, 300)))
	}
	if !bytes.Equal(r.Out, want.Out) {
		at := firstDiff(r.Out, want.Out)
		parts = append(parts, fmt.Sprintf("output bytes differ at %d (len got %d, baseline %d): got %s, baseline %s", at, len(r.Out), len(want.Out), clipAround(r.Out, at), clipAround(want.Out, at)))
	}
	if r.Val != want.Val {
		at := firstDiff([]byte(r.Val), []byte(want.Val))
		parts = append(parts, fmt.Sprintf("decoded value differs at rendering offset %d: got %s, baseline %s", at, clipAround([]byte(r.Val), at), clipAround([]byte(want.Val), at)))
	}
	return strings.Join(parts, "; ")
}

// Live holds what a call handed to and got back from the library, for the
// aliasing sub-check.
type Live struct {
	Ins  [][]byte // input buffers passed to the library which the caller may overwrite afterwards
	Outs [][]byte // byte slices handed back by Marshal / Format / AppendFormat
	Vals []any    // pointers to values filled by Unmarshal*
	Errs []error  // errors handed back (a SemanticError carries the JSON value that could not be converted)
}

// snapshot reads every byte reachable from the retained results.
func (l *Live) snapshot() string {
	var sb sink
	for i, o := range l.Outs {
		fmt.Fprintf(&sb, "out%d:%d:", i, len(o))
		sb.Write(o)
		sb.WriteByte('|')
	}
	for i, v := range l.Vals {
		fmt.Fprintf(&sb, "val%d:", i)
		r := renderer{}
		r.value(reflect.ValueOf(v))
		sb.WriteString(r.sb.String())
		sb.WriteByte('|')
	}
	for i, e := range l.Errs {
		fmt.Fprintf(&sb, "err%d:%s|", i, renderErr(e))
	}
	return sb.String()
}

// ctx is a per-goroutine execution context (no state is shared between
// goroutines, so the harness adds no synchronisation between concurrent calls).
type ctx struct {
	retain  bool   // aliasing mode: every input is a private copy that is kept and later overwritten
	scratch []byte // reusable buffer for in-place formatting when results are not retained
}

// X is the execution context of one call.
type X struct {
	c       *ctx
	n       int // execution counter (varies map insertion orders; never part of the call's arguments)
	live    Live
	masters [][]byte
}

// in returns the input buffer to hand to a library function that only reads
// it. When results are retained it is a private copy (overwritten later by the
// harness); otherwise it is the immutable master itself, whose integrity is
// verified after the call.
func (x *X) in(master []byte) []byte {
	if x.c.retain {
		b := bytes.Clone(master)
		if b == nil {
			b = []byte{}
		}
		x.live.Ins = append(x.live.Ins, b)
		return b
	}
	x.masters = append(x.masters, master)
	return master
}

// private returns a private copy of master that the library may take over
// (bytes.Buffer); it counts as an overwritable input when results are retained.
func (x *X) private(master []byte) []byte {
	b := bytes.Clone(master)
	if x.c.retain {
		x.live.Ins = append(x.live.Ins, b)
	}
	return b
}

// mutable returns a private mutable copy of master (for in-place formatting).
func (x *X) mutable(master []byte) []byte {
	if x.c.retain {
		return bytes.Clone(master)
	}
	x.c.scratch = append(x.c.scratch[:0], master...)
	return x.c.scratch
}

func (x *X) keepOut(b []byte) {
	if x.c.retain {
		x.live.Outs = append(x.live.Outs, b)
	}
}
func (x *X) keepVal(p any) {
	if x.c.retain {
		x.live.Vals = append(x.live.Vals, p)
	}
}
func (x *X) keepErr(err error) {
	if x.c.retain && err != nil {
		x.live.Errs = append(x.live.Errs, err)
	}
}

// guard runs f, recovering a panic: a userPanic yields its tag, anything else
// is recorded as a library panic.
func guard(f func()) (tag string) {
	defer func() {
		if r := recover(); r != nil {
			if up, ok := r.(userPanic); ok {
				tag = "user:" + up.tag
				return
			}
			tag = fmt.Sprintf("LIBRARY:%T", r)
			if s, ok := r.(string); ok {
				tag += ":" + s
			}
		}
	}()
	f()
	return ""
}

type call struct {
	name      string
	kind      string // API family
	opts      string // option-set label
	unordered bool   // output compared up to object member order
	heavy     bool   // >= 64 KiB of data or > 1000 levels
	huge      bool   // ~1 MiB of data (very slow under the race detector)
	run       func(x *X) Result
}

var (
	pool       []call
	baseline   []Result
	poolOnce   sync.Once
	baseOnce   sync.Once
	masterSums = map[*byte][32]byte{}
	seqCtx     = &ctx{} // sequential sub-checks
	aliasCtx   = &ctx{retain: true}
)

// ensurePool builds the pool (and its master inputs) once.
func ensurePool() { poolOnce.Do(buildPool) }

func regMaster(bs ...[]byte) {
	for _, b := range bs {
		if len(b) > 0 {
			masterSums[&b[0]] = sha256.Sum256(b)
		}
	}
}

// exec executes pool call i.
func (c *ctx) exec(i, n int) (Result, *Live) {
	x := &X{c: c, n: n}
	cl := &pool[i]
	r := cl.run(x)
	if cl.unordered {
		if r.Err == "nil" {
			r.Out = normUnordered(r.Out)
		} else {
			r.Out = nil // partial output of an unordered map before an error is order-dependent
		}
	}
	for _, m := range x.masters {
		if len(m) == 0 {
			continue
		}
		want, ok := masterSums[&m[0]]
		if cl.huge && &m[0] == hugeDocAddr { // (only calls that ran ensureHuge may read these)
			want, ok = hugeDocSum, true
		}
		if !ok {
			panic("c18 harness: unregistered master input in call " + cl.name)
		}
		if sha256.Sum256(m) != want {
			r.Panic += "|LIBRARY-WROTE-INTO-READ-ONLY-INPUT"
		}
	}
	return r, &x.live
}

// ensureBaseline computes every call's result once, first, in index order.
func ensureBaseline() {
	ensurePool()
	baseOnce.Do(func() {
		all := make([]int, len(pool))
		for i := range all {
			all[i] = i
		}
		ensureBaselineFor(all)
	})
}

// ensureBaselineFor computes the baseline of the listed calls that have none
// yet, in index order (worker processes only compute what a request needs).
// Not safe for concurrent use: call it before or after the goroutines run.
func ensureBaselineFor(idxs []int) {
	ensurePool()
	if baseline == nil {
		baseline = make([]Result, len(pool))
		haveBase = make([]bool, len(pool))
		outcomeClasses = make([]string, len(pool))
	}
	need := make([]bool, len(pool))
	for _, i := range idxs {
		need[i] = true
	}
	for i := range pool {
		if !need[i] || haveBase[i] {
			continue
		}
		baseline[i], _ = seqCtx.exec(i, 0)
		haveBase[i] = true
		switch b := baseline[i]; {
		case b.Panic != "":
			outcomeClasses[i] = "user-panic"
		case b.Err == "nil":
			outcomeClasses[i] = "ok"
		default:
			outcomeClasses[i] = "error:" + strings.SplitN(b.Err, "{", 2)[0]
		}
	}
}

var haveBase []bool

var execCounter int // sequential sub-checks only

// Case is a history: a list of pool indexes executed in order.
type Case struct {
	Seq []int `json:"seq"`
}

func (c Case) valid() error {
	for _, i := range c.Seq {
		if i < 0 || i >= len(pool) {
			return fmt.Errorf("case refers to call %d outside the pool of %d", i, len(pool))
		}
	}
	return nil
}

// recordSeq feeds the evidence recorder for a sequential history.
func recordSeq(sub string, seq []int) {
	rec.Eval()
	for k, i := range seq {
		c := &pool[i]
		rec.Class("call-kind:" + c.kind)
		if c.heavy {
			rec.Class("call-heavy")
		}
		if k == 0 {
			continue
		}
		p := &pool[seq[k-1]]
		po, co := outcomeClass(seq[k-1]), outcomeClass(i)
		rec.Class("pred-outcome:" + po)
		if p.heavy {
			rec.Class("pred-heavy")
		}
		if p.kind != c.kind || p.opts != c.opts || po != co {
			fp := cov.FPs("pair", p.name, c.name)
			rec.NonTrivial(fp)
			rec.Sample(fp, func() any {
				return map[string]any{"sub": sub, "predecessor": p.name, "predecessor_outcome": po, "call": c.name, "call_outcome": co,
					"call_baseline_error": clipS(baseline[i].Err, 200), "call_baseline_output_prefix": clipS(string(baseline[i].Out), 120)}
			})
		}
	}
}

var outcomeClasses []string

func outcomeClass(i int) string { return outcomeClasses[i] }

// RunSeq executes the history and compares every call with its baseline.
func RunSeq(c Case) error {
	ensureBaseline()
	if err := c.valid(); err != nil {
		return err
	}
	recordSeq("sequential history", c.Seq)
	for k, i := range c.Seq {
		execCounter++
		r, _ := seqCtx.exec(i, execCounter)
		if !r.equal(baseline[i]) {
			prev := "(start of history)"
			if k > 0 {
				prev = pool[c.Seq[k-1]].name
			}
			return fmt.Errorf("call #%d %q (position %d, immediately after %q) differs from its baseline: %s", i, pool[i].name, k, prev, r.diff(baseline[i]))
		}
	}
	return nil
}

// RunAlias executes the history, retains everything handed back, overwrites
// the inputs it passed, and verifies that no retained result ever changes.
func RunAlias(c Case) error {
	ensureBaseline()
	if err := c.valid(); err != nil {
		return err
	}
	recordSeq("aliasing history", c.Seq)
	type kept struct {
		idx  int
		live *Live
		snap string
	}
	var keep []kept
	check := func(upto int, when string) error {
		for _, k := range keep {
			if s := k.live.snapshot(); s != k.snap {
				at := firstDiff([]byte(s), []byte(k.snap))
				return fmt.Errorf("result retained from call #%d %q changed %s: at snapshot offset %d now %s, was %s",
					k.idx, pool[k.idx].name, when, at, clipAround([]byte(s), at), clipAround([]byte(k.snap), at))
			}
		}
		return nil
	}
	for k, i := range c.Seq {
		execCounter++
		r, live := aliasCtx.exec(i, execCounter)
		if !r.equal(baseline[i]) {
			return fmt.Errorf("call #%d %q (position %d) differs from its baseline: %s", i, pool[i].name, k, r.diff(baseline[i]))
		}
		snap := live.snapshot()
		nb := 0
		for _, in := range live.Ins {
			for j := range in {
				in[j] = "#overwritten-by-caller# "[j%24]
			}
			nb += len(in)
		}
		if len(live.Outs)+len(live.Vals) > 0 {
			rec.Class("alias-retained-result")
		}
		if nb > 0 {
			rec.Class("alias-input-overwritten")
		}
		keep = append(keep, kept{i, live, snap})
		// Cheap checks after every call for the most recent results; full check at the end.
		if len(keep) >= 2 {
			last := keep[len(keep)-2:]
			for _, kk := range last {
				if len(kk.snap) < 1<<16 {
					if s := kk.live.snapshot(); s != kk.snap {
						at := firstDiff([]byte(s), []byte(kk.snap))
						return fmt.Errorf("result retained from call #%d %q changed after call #%d %q ran and inputs were overwritten: at snapshot offset %d now %s, was %s",
							kk.idx, pool[kk.idx].name, i, pool[i].name, at, clipAround([]byte(s), at), clipAround([]byte(kk.snap), at))
					}
				}
			}
		} else if s := live.snapshot(); s != snap {
			at := firstDiff([]byte(s), []byte(snap))
			return fmt.Errorf("result of call #%d %q changed when the caller overwrote the input buffer it had passed: at snapshot offset %d now %s, was %s",
				i, pool[i].name, at, clipAround([]byte(s), at), clipAround([]byte(snap), at))
		}
	}
	return check(len(c.Seq), "after the later calls of the history ran and the caller overwrote its input buffers")
}

// RunExpect executes the (single-call) history and compares the decoded value
// with the harness's own expectation, where it has one: a baseline that is
// itself wrong (e.g. poisoned by an earlier call of the baseline pass) would
// otherwise only be noticed through its disagreement with other histories.
func RunExpect(c Case) error {
	ensureBaseline()
	if err := c.valid(); err != nil {
		return err
	}
	rec.Eval()
	for _, i := range c.Seq {
		want, ok := expectVal[pool[i].name]
		if !ok {
			continue
		}
		rec.Class("expectation-checked")
		execCounter++
		r, _ := seqCtx.exec(i, execCounter)
		for _, got := range []Result{baseline[i], r} {
			if got.Val != want || got.Err != "nil" {
				at := firstDiff([]byte(got.Val), []byte(want))
				return fmt.Errorf("call #%d %q: decoded value is not what the document says (error %s): at rendering offset %d got %s, expected %s", i, pool[i].name, got.Err, at, clipAround([]byte(got.Val), at), clipAround([]byte(want), at))
			}
		}
	}
	return nil
}

package c18

import (
	"bytes"
	"crypto/sha256"
	"fmt"
	"io"
	"strconv"
	"strings"
	"sync"

	"github.com/go-json-experiment/json"
	"github.com/go-json-experiment/json/jsontext"
	jsonv1 "github.com/go-json-experiment/json/v1"
)

// ---------------------------------------------------------------------------
// Master inputs and shared immutable values (built once, never mutated: every
// execution clones what it hands to the library as a mutable buffer).

var (
	docSmall     = []byte(`{"id":7,"name":"prefix00-SM0-suffix00","tags":["a","b\u00e9","\ud83d\ude00"],"raw":{"x":[1,2.50,"s"]},"bin":"AAEC","m":{"one":1,"two":2},"p":{"id":8,"name":"eight"},"f":0.1,"any":[null,true,{"k":"v"}],"score":65535}`)
	docWS        = []byte(" {\n  \"b\" : [ 1 , 2.0 , 1e2 ] ,\r\n\t\"a\" : \"\\u00e9\\/<>&\\u2028\" , \"c\":{ } , \"d\":[ ] , \"n\": -0.0 , \"big\": 123456789012345678901234567890 }  ")
	docDup       = []byte(`{"a":1,"b":{"x":1,"y":2},"c":[{"q":1}],"a":3}`)
	docDupNested = []byte(`{"k0":{"k1":{"dup":1,"other":2,"dup":3}}}`)
	docBadUTF8   = []byte("{\"s\":\"a\xffb\",\"t\":\"\\ud800\"}")
	docSyntaxE   = []byte(`{"a" 1}`)
	docSemantic  = []byte(`{"id":"not-a-number","name":"x"}`)
	docSemVal    = []byte(`{"n":"not-a-number-at-all","m":[1,2,3]}`)
	docSemRange  = []byte(`[1, 2, 3, 4, 5, 6, 7, 8, 9, 10, 11, 12, 300, 14, 15, 16, 17, 18, 19, 20, 21, 22, 23, 24, 25]`)
	docUnknown   = []byte(`{"id":1,"mystery":[1,2,3],"name":"prefix00-UN1-suffix00"}`)
	docFold      = []byte(`{"FIRSTNAME":"prefix01-FO0-suffix01","Last_Name":"L","age":36,"firstname":"B"}`)
	docInline    = []byte(`{"known":1,"u1":[1,2],"u2":{"a":null},"u3":"s"}`)
	docRaw       = []byte(`{"a": {"z" : [1, 2]} ,"b":[1,"two",{"3":3}],"c":{"k1":"v1","k2":[ ]},"d": [ true ] ,"s":"plain \u00e9 string","k":{"alpha":"A","beta":"B"},"y":"aGVsbG8gd29ybGQ="}`)
	docStream    = []byte("{\"a\":1} [1,2,3]\n\"str\" 4.5 null {\"b\":{\"c\":[]}}")
	docStreamBad = []byte(`{"a":1} [1,2,,3] "never"`)
	docFuncInt   = []byte(`{"id":"four","score":9,"m":{"a":"xx","b":3}}`)
	docUserU     = []byte(`{"A":{"first":1,"second":[2,3]},"B":{"x":{}},"C":[{"y":1}]}`)

	doc100Names  []byte // object with 100 distinct names (> 64: namespace switches to a map)
	doc100Dup    []byte // same with the last name duplicating the first
	docMid       []byte // ~6 KiB array of items (above the 4 KiB always-recycle bound)
	docBigItems  []byte // ~1 MiB array of items
	doc100Items  []byte // ~100 KiB array of items
	docBigWS     []byte // ~200 KiB document with whitespace and escapes
	docBigTrunc  []byte // ~100 KiB, truncated in its last bytes
	docBigSemErr []byte // ~90 KiB array of items, a kind mismatch near the end
	docBigObject []byte // object with 1100 unsorted names (more than the 1<<10 members a pooled member list may keep)
	docDeep      []byte // 1100 nested arrays
	docIntern1   []byte
	docIntern2   []byte
	docInternMap []byte

	valItem      item
	valItems     []item // ~1 MiB when marshaled
	valMidItems  []item
	val100Items  []item // ~100 KiB when marshaled
	valDeep      any
	valDeepDeep  any
	valCyc       *cyc
	valLateErr   []any
	valBadUTF8   = map[string]string{"k": "a\xffb"}
	valUnordered map[string]int
	valAnyMixed  map[string]any
)

// The 1 MiB value and document are built on first use: most worker processes
// never need them and large allocations are slow under the race detector.
var (
	hugeOnce    sync.Once
	hugeDocSum  [32]byte
	hugeDocAddr *byte
)

func ensureHuge() {
	hugeOnce.Do(func() {
		for i := 0; i < 5200; i++ {
			valItems = append(valItems, mkItem(i))
		}
		var err error
		if docBigItems, err = json.Marshal(valItems, json.Deterministic(true)); err != nil {
			panic(err)
		}
		hugeDocSum = sha256.Sum256(docBigItems)
		hugeDocAddr = &docBigItems[0]
	})
}

func mkItem(i int) item {
	it := item{
		ID:    i,
		Name:  "item-" + strconv.Itoa(i) + "-\u00e9<&>",
		Tags:  []string{"t" + strconv.Itoa(i%7), "common", "x\ty"},
		Raw:   jsontext.Value(`{"r":[` + strconv.Itoa(i) + `,"q"]}`),
		Bin:   []byte{byte(i), byte(i >> 8), 0xff, 0},
		F:     float64(i) / 8,
		Score: uint16(i * 31),
	}
	if i%3 == 0 {
		it.M = map[string]int{"only": i}
	}
	if i%5 == 0 {
		it.P = &item{ID: -i, Name: "child"}
	}
	if i%4 == 0 {
		it.Any = []any{float64(i), "s", nil, true}
	}
	return it
}

func nestAny(depth int, inner any) any {
	v := inner
	for i := 0; i < depth; i++ {
		v = []any{v}
	}
	return v
}

func internStrings(variant byte) ([]byte, []string) {
	var sb strings.Builder
	var list []string
	sb.WriteByte('[')
	first := true
	emit := func(s string) {
		if !first {
			sb.WriteByte(',')
		}
		first = false
		sb.WriteString(strconv.Quote(s))
		list = append(list, s)
	}
	for rep := 0; rep < 2; rep++ {
		for i := 0; i < 400; i++ {
			emit(string(variant) + strconv.Itoa(i)) // short, repeated
		}
		for i := 0; i < 60; i++ {
			// same length, same first 8 and last 8 bytes: same cache slot by construction
			emit(fmt.Sprintf("prefix%02d-%c%c%d-suffix%02d", i, variant, 'a'+byte(rep), i%10, i))
			emit(fmt.Sprintf("prefix%02d-%c%c%d-suffix%02d", i, variant, 'x'+byte(rep), i%10, i))
		}
	}
	sb.WriteByte(']')
	return []byte(sb.String()), list
}

func buildPool() {
	// ----- master inputs
	{
		var a, b bytes.Buffer
		a.WriteByte('{')
		for i := 0; i < 100; i++ {
			if i > 0 {
				a.WriteByte(',')
			}
			fmt.Fprintf(&a, "%q:%d", nameN(i*37%100), i)
		}
		b.Write(a.Bytes())
		a.WriteByte('}')
		fmt.Fprintf(&b, ",%q:%d}", nameN(0), -1)
		doc100Names, doc100Dup = a.Bytes(), b.Bytes()
	}
	valItem = mkItem(15)
	for i := 0; i < 400; i++ {
		val100Items = append(val100Items, mkItem(i))
	}
	valMidItems = val100Items[:40]
	var err error
	if doc100Items, err = json.Marshal(val100Items, json.Deterministic(true)); err != nil {
		panic(err)
	}
	if docMid, err = json.Marshal(valMidItems, json.Deterministic(true)); err != nil {
		panic(err)
	}
	{
		var sb bytes.Buffer
		sb.WriteString("[\n")
		for i := 0; sb.Len() < 160<<10; i++ {
			if i > 0 {
				sb.WriteString(" ,\n")
			}
			fmt.Fprintf(&sb, "  { \"n\" : %d.0 , \"s\" : \"\\u0041\\/%d\\n\" ,\t\"arr\" : [ 1 , 2 , { } ] , \"e\" : 1E%d }", i, i, i%30)
		}
		sb.WriteString("\n]\n")
		docBigWS = sb.Bytes()
	}
	docBigTrunc = bytes.Clone(doc100Items[:len(doc100Items)-300])
	{
		semItems := bytes.Clone(doc100Items[:len(doc100Items)-2000])
		// cut at an element boundary and close the array
		cut := bytes.LastIndex(semItems, []byte(`},{"id":`))
		semItems = append(semItems[:cut+1], `,{"id":1,"name":12345,"tags":[]},{"id":2}]`...)
		docBigSemErr = semItems
	}
	{
		var sb bytes.Buffer
		sb.WriteByte('{')
		for i := 0; i < 1100; i++ {
			if i > 0 {
				sb.WriteByte(',')
			}
			fmt.Fprintf(&sb, "%q:{\"z\":%d,\"a\":[%d.50,\"\\u00e9\"]}", nameN((i*7919)%1100)+"-key", i, i)
		}
		sb.WriteByte('}')
		docBigObject = sb.Bytes()
	}
	docDeep = []byte(strings.Repeat("[", 1100) + `{"leaf":[1,"x"]}` + strings.Repeat("]", 1100))
	var list1, list2 []string
	var listMap []map[string]string
	docIntern1, list1 = internStrings('k')
	docIntern2, list2 = internStrings('j')
	{
		var sb bytes.Buffer
		sb.WriteByte('[')
		for r := 0; r < 30; r++ {
			if r > 0 {
				sb.WriteByte(',')
			}
			sb.WriteByte('{')
			m := map[string]string{}
			for i := 0; i < 40; i++ {
				if i > 0 {
					sb.WriteByte(',')
				}
				k, v := "key"+strconv.Itoa(i), "val"+strconv.Itoa((i+r)%45)
				if i%8 == 0 {
					k = fmt.Sprintf("prefix%02d-K%d%d-suffix%02d", i, r%2, i%10, i)
					v = fmt.Sprintf("prefix%02d-V%d%d-suffix%02d", i, r%3, i%10, i)
				}
				fmt.Fprintf(&sb, "%q:%q", k, v)
				m[k] = v
			}
			sb.WriteByte('}')
			listMap = append(listMap, m)
		}
		sb.WriteByte(']')
		docInternMap = sb.Bytes()
	}
	{
		any2 := make([]any, len(list2))
		for i, s := range list2 {
			any2[i] = s
		}
		var a2 any = any2
		expectVal = map[string]string{
			"unmarshal/intern/strings-1":     renderValue(&list1),
			"unmarshal/intern/strings-2-any": renderValue(&a2),
			"unmarshal/intern/map-keys":      renderValue(&listMap),
		}
	}
	node := &deepNode{
		M: map[string]*deepLeaf{"z": {V: 7}},
		S: []*deepLeaf{{V: 1}, {V: 2}},
		P: &deepLeaf{V: 3},
		A: map[string]any{"x": []any{1.0, "s"}},
	}
	// S and P come first in marshal order? No: struct order M,S,P,A. The failing
	// leaf sits in M, so M, the node pointer and the enclosing []any levels are
	// all registered in SeenPointers when the error/panic unwinds.
	valDeep = nestAny(1005, node)
	valDeepDeep = nestAny(1005, []any{node, []*deepLeaf{{V: 1}}, map[string]any{"k": []any{}}})
	valCyc = &cyc{}
	valCyc.Next = valCyc
	for i := 0; i < 700; i++ {
		valLateErr = append(valLateErr, "element-"+strconv.Itoa(i))
	}
	valLateErr = append(valLateErr, make(chan int))
	valUnordered = map[string]int{}
	for i := 0; i < 24; i++ {
		valUnordered["u"+strconv.Itoa(i*i)] = i
	}
	valAnyMixed = map[string]any{
		"b": map[string]any{"y": 1.5, "x": []any{"s", nil}},
		"a": []any{map[string]any{"q": true, "p": false}},
		"c": "str", "e": 1e21, "d": map[string]any{},
	}

	regMaster(docSmall, docWS, docDup, docDupNested, docBadUTF8, docSyntaxE, docSemantic, docUnknown, docFold, docInline, docRaw, docStream, docStreamBad, docUserU,
		doc100Names, doc100Dup, docMid, doc100Items, docBigWS, docBigTrunc, docBigSemErr, docBigObject, docDeep, docIntern1, docIntern2, docInternMap, docFuncInt)

	// ----- the pool
	add := func(c call) {
		c.huge = strings.Contains(c.name, "1MiB")
		c.heavy = c.heavy || c.huge
		pool = append(pool, c)
	}

	marshal := func(name, optl string, flags string, mk func(n int) any, opts ...json.Options) {
		add(call{name: name, kind: "Marshal", opts: optl, unordered: strings.Contains(flags, "u"), heavy: strings.Contains(flags, "h"), run: func(x *X) Result {
			var out []byte
			var err error
			v := mk(x.n)
			p := guard(func() { out, err = json.Marshal(v, opts...) })
			x.keepOut(out)
			return Result{Out: summarize(out), Err: renderErr(err), Panic: p}
		}})
	}
	unmarshal := func(name, optl string, flags string, master []byte, mk func() any, opts ...json.Options) {
		add(call{name: name, kind: "Unmarshal", opts: optl, heavy: strings.Contains(flags, "h"), run: func(x *X) Result {
			in := x.in(master)
			t := mk()
			var err error
			p := guard(func() { err = json.Unmarshal(in, t, opts...) })
			x.keepVal(t)
			x.keepErr(err)
			return Result{Val: renderValue(t), Err: renderErr(err), Panic: p}
		}})
	}
	unmarshalRead := func(name, optl string, flags string, masterIn []byte, chunk, failAt int, useBuffer bool, mk func() any, opts ...json.Options) {
		add(call{name: name, kind: "UnmarshalRead", opts: optl, heavy: strings.Contains(flags, "h"), run: func(x *X) Result {
			master := masterIn
			if master == nil {
				ensureHuge()
				master = docBigItems
			}
			var rd io.Reader
			if useBuffer {
				rd = bytes.NewBuffer(x.private(master))
			} else {
				rd = &chunkReader{data: x.in(master), n: chunk, failAt: failAt}
			}
			t := mk()
			var err error
			p := guard(func() { err = json.UnmarshalRead(rd, t, opts...) })
			x.keepVal(t)
			x.keepErr(err)
			return Result{Val: renderValue(t), Err: renderErr(err), Panic: p}
		}})
	}
	marshalWrite := func(name, optl string, flags string, failAt int, useBuffer bool, mk func(n int) any, opts ...json.Options) {
		add(call{name: name, kind: "MarshalWrite", opts: optl, heavy: strings.Contains(flags, "h"), run: func(x *X) Result {
			v := mk(x.n)
			var err error
			if useBuffer {
				bb := new(bytes.Buffer)
				bb.WriteString("prefix:")
				p := guard(func() { err = json.MarshalWrite(bb, v, opts...) })
				x.keepOut(bb.Bytes())
				return Result{Out: summarize(bb.Bytes()), Err: renderErr(err), Panic: p}
			}
			w := &recWriter{failAt: failAt}
			p := guard(func() { err = json.MarshalWrite(w, v, opts...) })
			x.keepOut(w.buf)
			return Result{Out: summarize(w.buf), Err: renderErr(err), Panic: p}
		}})
	}
	format := func(name, method, optl string, flags string, master []byte, opts ...jsontext.Options) {
		add(call{name: name, kind: "Value." + method, opts: optl, heavy: strings.Contains(flags, "h"), run: func(x *X) Result {
			v := jsontext.Value(x.mutable(master)) // formatted in place: the buffer is the result, not an overwritable input
			var err error
			var valid string
			p := guard(func() {
				switch method {
				case "Format":
					err = v.Format(opts...)
				case "Compact":
					err = v.Compact(opts...)
				case "Indent":
					err = v.Indent(opts...)
				case "Canonicalize":
					err = v.Canonicalize(opts...)
				case "IsValid":
					valid = strconv.FormatBool(v.IsValid(opts...))
				}
			})
			x.keepOut(v)
			return Result{Out: summarize(v), Val: valid, Err: renderErr(err), Panic: p}
		}})
	}
	appendFormat := func(name, optl string, flags string, master []byte, asString bool, opts ...jsontext.Options) {
		add(call{name: name, kind: "AppendFormat", opts: optl, heavy: strings.Contains(flags, "h"), run: func(x *X) Result {
			dst := append(make([]byte, 0, 16), "dst>"...)
			var out []byte
			var err error
			p := guard(func() {
				if asString {
					out, err = jsontext.AppendFormat(dst, string(master), opts...)
				} else {
					out, err = jsontext.AppendFormat(dst, x.in(master), opts...)
				}
			})
			x.keepOut(out)
			return Result{Out: summarize(out), Err: renderErr(err), Panic: p}
		}})
	}

	fixed := func(v any) func(int) any { return func(int) any { return v } }
	newAny := func() any { return new(any) }

	// --- Marshal
	marshal("marshal/struct/default", "default", "", fixed(&valItem))
	marshal("marshal/struct/multiline", "multiline+indent", "", fixed(&valItem), jsontext.Multiline(true), jsontext.WithIndent("  "), jsontext.WithIndentPrefix("\t"))
	marshal("marshal/struct/omitzero-stringify-html", "omitzero+stringify+html+nilnull", "", fixed(&item{ID: 3, Name: "<b>&\u2028", Tags: nil}),
		json.OmitZeroStructFields(true), json.StringifyNumbers(true), jsontext.EscapeForHTML(true), jsontext.EscapeForJS(true), json.FormatNilSliceAsNull(true), json.FormatNilMapAsNull(true))
	marshal("marshal/struct/v1", "v1-defaults", "", fixed(&item{ID: 3, Name: "<b>&", Bin: []byte{1, 2}}), jsonv1.DefaultOptionsV1())
	marshal("marshal/embed-map/deterministic", "deterministic", "", fixed(&embedMapTarget{1, map[string]any{"z": 1.0, "y": "s", "x": nil}}), json.Deterministic(true))
	marshal("marshal/nested-maps/deterministic", "deterministic", "", fixed(map[string]any{
		"k1": map[string]any{"a": 1.0, "b": 2.0, "c": 3.0},
		"k2": map[string]any{"d": 4.0, "e": map[string]any{"g": 1.0, "h": 2.0}, "f": 6.0},
		"k3": map[string]any{"i": 7.0, "j": 8.0},
	}), json.Deterministic(true))
	marshal("marshal/nested-typed-maps/deterministic", "deterministic", "", fixed(map[string]map[string]int{
		"m1": {"a": 1, "b": 2, "c": 3}, "m2": {"d": 4, "e": 5}, "m3": {"f": 6, "g": 7, "h": 8},
	}), json.Deterministic(true))
	unmarshal("unmarshal/embed-fallback", "default", "", docUnknown, func() any { return new(embedMapTarget) })
	marshal("marshal/escnames/default", "default", "", fixed(&escNames{1, 2, 3, 4, 5}))
	marshal("marshal/escnames/js", "js", "", fixed(&escNames{1, 2, 3, 4, 5}), jsontext.EscapeForJS(true))
	marshal("marshal/escnames/html", "html", "", fixed(&escNames{1, 2, 3, 4, 5}), jsontext.EscapeForHTML(true))
	marshal("marshal/escnames/html+js", "html+js", "", fixed(&escNames{1, 2, 3, 4, 5}), jsontext.EscapeForHTML(true), jsontext.EscapeForJS(true))
	marshal("marshal/any/deterministic", "deterministic", "", func(n int) any { return rebuildAny(valAnyMixed, n) }, json.Deterministic(true))
	marshal("marshal/map-int/deterministic", "deterministic", "", func(n int) any {
		m := map[int]string{}
		for _, i := range rotation(30, n) {
			m[i*i-200] = "v" + strconv.Itoa(i)
		}
		return m
	}, json.Deterministic(true))
	marshal("marshal/map-string/deterministic-100", "deterministic", "", func(n int) any {
		m := map[string]int{}
		for _, i := range rotation(100, n) {
			m[nameN(i)] = i
		}
		return m
	}, json.Deterministic(true), jsontext.SpaceAfterComma(true))
	marshal("marshal/map-string/unordered", "default", "u", fixed(valUnordered))
	marshal("marshal/any/unordered-multiline", "multiline", "u", fixed(valAnyMixed), jsontext.Multiline(true))
	marshal("marshal/items/mid-6KiB", "default", "", fixed(valMidItems), json.Deterministic(true))
	marshal("marshal/items/big-1MiB", "deterministic", "h", func(int) any { ensureHuge(); return valItems }, json.Deterministic(true))
	marshal("marshal/deep/leaf-ok", "marshalers", "h", fixed(valDeep), leafOK)
	marshal("marshal/deep/leaf-error", "marshalers", "h", fixed(valDeep), leafErr)
	marshal("marshal/deep/leaf-panic", "marshalers", "h", fixed(valDeep), leafPanic)
	marshal("marshal/deep/leaf-ok-2", "marshalers+deterministic", "h", fixed(valDeepDeep), leafOK, json.Deterministic(true))
	marshal("marshal/deep-leaf/plain", "default", "", fixed([]*deepLeaf{{V: 7}, {V: 1}}))
	marshal("marshal/cycle", "default", "h", fixed(valCyc))
	marshal("marshal/semantic-error/early", "default", "", fixed(map[string]any{"c": make(chan int)}))
	marshal("marshal/semantic-error/late-8KiB", "default", "", fixed(valLateErr))
	marshal("marshal/user/ok", "default", "", fixed([]any{scriptM{Mode: "ok"}, 1.5}))
	marshal("marshal/user/error-mid-object", "default", "", fixed([]any{"before", scriptM{Mode: "err"}, "after"}))
	marshal("marshal/user/panic-mid-object", "default", "", fixed(map[string]any{"outer": []any{1.0, scriptM{Mode: "panic"}}}))
	marshal("marshal/user/panic-MarshalJSON", "multiline", "", fixed([]any{panicBytes{1}}), jsontext.Multiline(true))
	marshal("marshal/user/dup-names", "default", "", fixed(scriptM{Mode: "dup"}))
	marshal("marshal/user/dup-names-allowed", "allowdup", "", fixed(scriptM{Mode: "dup"}), jsontext.AllowDuplicateNames(true))
	marshal("marshal/user/100-names", "default", "", fixed([]any{scriptM{Mode: "bignames", Names: 100}, scriptM{Mode: "ok"}}))
	marshal("marshal/invalid-utf8/rejected", "default", "", fixed(valBadUTF8))
	marshal("marshal/invalid-utf8/allowed", "allowinvalidutf8", "", fixed(valBadUTF8), jsontext.AllowInvalidUTF8(true))

	// --- MarshalWrite
	marshalWrite("marshalwrite/bytes.Buffer", "default", "", -1, true, fixed(&valItem))
	marshalWrite("marshalwrite/writer/mid", "canonical-ish", "", -1, false, fixed(valMidItems), json.Deterministic(true), jsontext.SpaceAfterColon(true))
	marshalWrite("marshalwrite/writer/big-70KiB", "deterministic", "h", -1, false, fixed(val100Items), json.Deterministic(true))
	marshalWrite("marshalwrite/writer-error/early", "default", "", 0, false, fixed(valMidItems), json.Deterministic(true))
	marshalWrite("marshalwrite/writer-error/late-66KiB", "deterministic", "h", 66<<10, false, fixed(val100Items), json.Deterministic(true))
	marshalWrite("marshalwrite/bytes.Buffer/semantic-error", "default", "", -1, true, fixed(valLateErr))

	// --- Unmarshal
	unmarshal("unmarshal/any/small", "default", "", docSmall, newAny)
	unmarshal("unmarshal/struct/small", "default", "", docSmall, func() any { return new(item) })
	unmarshal("unmarshal/struct/v1", "v1-defaults", "", docFold, func() any { return new(foldTarget) }, jsonv1.DefaultOptionsV1())
	unmarshal("unmarshal/struct/casefold", "matchcaseinsensitive+allowdup", "", docFold, func() any { return new(foldTarget) }, json.MatchCaseInsensitiveNames(true), jsontext.AllowDuplicateNames(true))
	unmarshal("unmarshal/struct/casesensitive", "default", "", docFold, func() any { return new(foldTarget) })
	unmarshal("unmarshal/raw-values", "default", "", docRaw, func() any { return new(rawHolder) })
	unmarshal("unmarshal/inline-fallback", "default", "", docInline, func() any { return new(inlineTarget) })
	unmarshal("unmarshal/any/big-70KiB", "default", "h", doc100Items, newAny)
	unmarshal("unmarshal/struct/big-70KiB", "default", "h", doc100Items, func() any { return new([]item) })
	unmarshal("unmarshal/syntax-error/early", "default", "", docSyntaxE, newAny)
	unmarshal("unmarshal/syntax-error/late-70KiB", "default", "h", docBigTrunc, func() any { return new([]item) })
	unmarshal("unmarshal/semantic-error/early", "default", "", docSemantic, func() any { return new(item) })
	unmarshal("unmarshal/semantic-error/late-70KiB", "default", "h", docBigSemErr, func() any { return new([]item) })
	unmarshal("unmarshal/dup-names/rejected", "default", "", docDup, newAny)
	unmarshal("unmarshal/dup-names/allowed", "allowdup", "", docDup, newAny, jsontext.AllowDuplicateNames(true))
	unmarshal("unmarshal/dup-names/nested-rejected", "default", "", docDupNested, func() any { return new(map[string]map[string]map[string]int) })
	unmarshal("unmarshal/100-names/any", "default", "", doc100Names, newAny)
	unmarshal("unmarshal/100-names/dup-last", "default", "", doc100Dup, newAny)
	unmarshal("unmarshal/unknown/rejected", "rejectunknown", "", docUnknown, func() any { return new(item) }, json.RejectUnknownMembers(true))
	unmarshal("unmarshal/unknown/ignored", "default", "", docUnknown, func() any { return new(item) })
	unmarshal("unmarshal/invalid-utf8/rejected", "default", "", docBadUTF8, newAny)
	unmarshal("unmarshal/invalid-utf8/allowed", "allowinvalidutf8", "", docBadUTF8, newAny, jsontext.AllowInvalidUTF8(true))
	unmarshal("unmarshal/intern/strings-1", "default", "", docIntern1, func() any { return new([]string) })
	unmarshal("unmarshal/intern/strings-2-any", "default", "", docIntern2, newAny)
	unmarshal("unmarshal/intern/map-keys", "default", "", docInternMap, func() any { return new([]map[string]string) })
	unmarshal("unmarshal/user/ok", "default", "", docUserU, func() any { return &userTarget{A: &scriptU{Mode: "ok"}, B: &scriptU{Mode: "ok"}} })
	unmarshal("unmarshal/user/error-mid-object", "default", "", docUserU, func() any { return &userTarget{A: &scriptU{Mode: "ok"}, B: &scriptU{Mode: "err"}} })
	unmarshal("unmarshal/user/panic-mid-object", "default", "", docUserU, func() any { return &userTarget{A: &scriptU{Mode: "panic"}, B: &scriptU{Mode: "ok"}} })
	unmarshal("unmarshal/user/panic-UnmarshalJSON", "allowdup", "", docMid, func() any { return new([]panicUnm) }, jsontext.AllowDuplicateNames(true))
	unmarshal("unmarshal/user/func-int", "unmarshalers", "", docFuncInt, func() any { return new(item) }, intAsString)
	unmarshal("unmarshal/deep-1100/any", "default", "h", docDeep, newAny)

	// --- UnmarshalRead
	unmarshalRead("unmarshalread/chunks-7", "default", "", docSmall, 7, -1, false, func() any { return new(item) })
	unmarshalRead("unmarshalread/bytes.Buffer", "default", "", docRaw, 0, -1, true, func() any { return new(rawHolder) })
	unmarshalRead("unmarshalread/big-1MiB", "default", "h", nil, 8192, -1, false, func() any { return new([]thinItem) })
	unmarshalRead("unmarshalread/reader-error/early", "default", "", docMid, 512, 10, false, newAny)
	unmarshalRead("unmarshalread/reader-error/late-66KiB", "default", "h", doc100Items, 4096, 66<<10, false, func() any { return new([]item) })
	unmarshalRead("unmarshalread/syntax-error/mid", "allowdup", "", docStreamBad, 3, -1, false, newAny, jsontext.AllowDuplicateNames(true))

	// --- Value methods, AppendFormat
	format("format/default", "Format", "default", "", docWS)
	format("format/options", "Format", "multiline+canonnum+html+reorder", "", docWS, jsontext.Multiline(true), jsontext.WithIndent(" "), jsontext.CanonicalizeRawFloats(true), jsontext.CanonicalizeRawInts(true), jsontext.EscapeForHTML(true), jsontext.ReorderRawObjects(true), jsontext.SpaceAfterComma(true))
	format("format/dup-error", "Format", "default", "", docDup)
	format("format/dup-nested-error", "Format", "default", "", docDupNested)
	format("format/dup-allowed", "Format", "allowdup", "", docDup, jsontext.AllowDuplicateNames(true))
	format("format/100-names", "Format", "default", "", doc100Names)
	format("format/100-names-dup-last", "Format", "default", "", doc100Dup)
	format("format/invalid-utf8-error", "Format", "default", "", docBadUTF8)
	format("format/big-160KiB", "Format", "default", "h", docBigWS)
	format("format/syntax-error-late-70KiB", "Format", "default", "h", docBigTrunc)
	format("format/deep-1100", "Format", "multiline", "h", docDeep, jsontext.Multiline(true), jsontext.WithIndent(""))
	format("compact/ws", "Compact", "default", "", docWS)
	format("compact/dup-and-badutf8", "Compact", "default", "", docBadUTF8)
	format("indent/ws", "Indent", "indent", "", docWS, jsontext.WithIndent("    "))
	format("indent/mid-6KiB", "Indent", "default", "", docMid)
	format("canonicalize/ws", "Canonicalize", "default", "", docWS)
	format("canonicalize/100-names", "Canonicalize", "default", "", doc100Names)
	format("canonicalize/big-object-1100-names", "Canonicalize", "default", "h", docBigObject)
	format("canonicalize/dup-error", "Canonicalize", "default", "", docDup)
	format("isvalid/true", "IsValid", "default", "", docSmall)
	format("isvalid/false-dup", "IsValid", "default", "", docDup)
	format("isvalid/true-dup-allowed", "IsValid", "allowdup", "", docDup, jsontext.AllowDuplicateNames(true))
	appendFormat("appendformat/bytes", "default", "", docWS, false)
	appendFormat("appendformat/string-indent", "multiline", "", docRaw, true, jsontext.Multiline(true))
	appendFormat("appendformat/error-returns-src", "default", "", docDup, false)
	appendFormat("appendformat/mid-6KiB", "spaces", "", docMid, false, jsontext.SpaceAfterColon(true), jsontext.SpaceAfterComma(true))

	// --- Encoder / Decoder sessions, MarshalEncode / UnmarshalDecode
	add(call{name: "encoder/tokens-with-rejected-calls", kind: "Encoder", opts: "multiline", run: func(x *X) Result {
		w := &recWriter{failAt: -1}
		var sb strings.Builder
		p := guard(func() {
			enc := jsontext.NewEncoder(w, jsontext.Multiline(true))
			step := func(err error) { sb.WriteString(renderErr(err) + ";") }
			step(enc.WriteToken(jsontext.BeginObject))
			step(enc.WriteToken(jsontext.String("a")))
			step(enc.WriteToken(jsontext.BeginArray))
			step(enc.WriteToken(jsontext.Float(1.5)))
			step(enc.WriteToken(jsontext.EndObject)) // rejected: mismatched delimiter
			step(enc.WriteToken(jsontext.EndArray))
			step(enc.WriteToken(jsontext.Int(5)))      // rejected: name must be a string
			step(enc.WriteToken(jsontext.String("a"))) // rejected: duplicate
			step(enc.WriteToken(jsontext.String("b")))
			step(enc.WriteValue(jsontext.Value(` {"x" : [ ] } `)))
			step(enc.WriteToken(jsontext.EndObject))
			step(enc.WriteValue(jsontext.Value(`[1,2`))) // rejected: truncated
			step(enc.WriteToken(jsontext.Null))
			fmt.Fprintf(&sb, "offset=%d depth=%d", enc.OutputOffset(), enc.StackDepth())
		})
		return Result{Out: summarize(w.buf), Val: sb.String(), Err: "nil", Panic: p}
	}})
	add(call{name: "encoder/writer-error", kind: "Encoder", opts: "default", run: func(x *X) Result {
		w := &recWriter{failAt: 5}
		var sb strings.Builder
		p := guard(func() {
			enc := jsontext.NewEncoder(w)
			for i := 0; i < 4; i++ {
				sb.WriteString(renderErr(enc.WriteValue(jsontext.Value(`["value",`+strconv.Itoa(i)+`]`))) + ";")
			}
		})
		return Result{Out: summarize(w.buf), Val: sb.String(), Err: "nil", Panic: p}
	}})
	add(call{name: "marshalencode/session", kind: "MarshalEncode", opts: "deterministic+per-call-options", run: func(x *X) Result {
		bb := new(bytes.Buffer)
		var sb strings.Builder
		p := guard(func() {
			enc := jsontext.NewEncoder(bb, json.Deterministic(true))
			step := func(err error) { sb.WriteString(renderErr(err) + ";") }
			step(json.MarshalEncode(enc, &valItem))
			step(enc.WriteToken(jsontext.BeginArray))
			step(json.MarshalEncode(enc, valAnyMixed))
			step(json.MarshalEncode(enc, map[string]any{"c": make(chan int)}))
			step(json.MarshalEncode(enc, scriptM{Mode: "err"}))
			step(json.MarshalEncode(enc, []int{1, 2}, json.StringifyNumbers(true)))
			step(json.MarshalEncode(enc, []int{3}))
			step(enc.WriteToken(jsontext.EndArray))
		})
		x.keepOut(bb.Bytes())
		return Result{Out: summarize(bb.Bytes()), Val: sb.String(), Err: "nil", Panic: p}
	}})
	decodeTokens := func(name string, master []byte, chunk int, opts ...jsontext.Options) {
		add(call{name: name, kind: "Decoder", opts: fmt.Sprint(len(opts), "-opts"), run: func(x *X) Result {
			in := x.in(master)
			var sb strings.Builder
			var ferr error
			p := guard(func() {
				dec := jsontext.NewDecoder(&chunkReader{data: in, n: chunk, failAt: -1}, opts...)
				for i := 0; i < 100000; i++ {
					if k := dec.PeekKind(); i%5 == 4 && k != '}' && k != ']' && k != 0 {
						v, err := dec.ReadValue()
						if err != nil {
							ferr = err
							break
						}
						fmt.Fprintf(&sb, "V%s@%s ", v, dec.StackPointer())
						continue
					}
					tok, err := dec.ReadToken()
					if err != nil {
						ferr = err
						break
					}
					switch tok.Kind() {
					case '"':
						fmt.Fprintf(&sb, "%q ", tok.String())
					case '0':
						f, ferr := tok.Float()
						fmt.Fprintf(&sb, "%v/%s ", f, renderErr(ferr))
					default:
						sb.WriteString(tok.Kind().String() + " ")
					}
				}
				fmt.Fprintf(&sb, "offset=%d depth=%d ptr=%s", dec.InputOffset(), dec.StackDepth(), dec.StackPointer())
			})
			return Result{Val: sb.String(), Err: renderErr(ferr), Panic: p}
		}})
	}
	decodeTokens("decoder/tokens/stream", docStream, 5)
	decodeTokens("decoder/tokens/syntax-error", docStreamBad, 4)
	decodeTokens("decoder/tokens/dup-error", docDup, 64)
	decodeTokens("decoder/tokens/dup-allowed-badutf8", docBadUTF8, 2, jsontext.AllowDuplicateNames(true), jsontext.AllowInvalidUTF8(true))
	add(call{name: "unmarshaldecode/session", kind: "UnmarshalDecode", opts: "per-call-options", run: func(x *X) Result {
		in := x.private(docStream)
		var sb strings.Builder
		var vals []any
		p := guard(func() {
			dec := jsontext.NewDecoder(bytes.NewBuffer(in))
			var m map[string]int
			var a []float64
			var s string
			var f any
			var pi *int
			var last rawHolder
			for _, t := range []any{&m, &a, &s, &f, &pi} {
				sb.WriteString(renderErr(json.UnmarshalDecode(dec, t)) + ";")
				vals = append(vals, t)
			}
			sb.WriteString(renderErr(json.UnmarshalDecode(dec, &last, json.RejectUnknownMembers(true))) + ";")
			sb.WriteString(renderErr(json.UnmarshalDecode(dec, &f)) + ";")
			vals = append(vals, &last)
		})
		for _, v := range vals {
			x.keepVal(v)
			sb.WriteString(renderValue(v) + "|")
		}
		return Result{Val: sb.String(), Err: "nil", Panic: p}
	}})

	// F3: Deterministic + AllowDuplicateNames with distinct keys that marshal to the
	// same name is a listed known finding; it is kept out of the pool (see det.go).
	// (appended last so that the indexes of the calls above stay what the saved histories refer to)
	// errors that carry the JSON value that could not be converted: the value must be the error's own copy
	regMaster(docSemVal, docSemRange)
	unmarshal("unmarshal/semantic-error/value-in-error", "default", "", docSemVal, func() any {
		return new(struct {
			N int `json:"n,string"`
		})
	})
	unmarshalRead("unmarshalread/semantic-error/value-in-error", "default", "", docSemRange, 5, -1, false, func() any { return new([]int8) })
	unmarshalRead("unmarshalread/semantic-error/value-in-error/bytes.Buffer", "default", "", docSemRange, 0, -1, true, func() any { return new([]int8) })
}

// rotation returns 0..n-1 in an order that depends on k (insertion orders of
// maps vary between executions; the map value is the same).
func rotation(n, k int) []int {
	out := make([]int, n)
	if n <= 1 {
		return out
	}
	step := []int{1, 7, 11, 13, 17, 19, 23, 29}[k%8]
	for gcd(step, n) != 1 {
		step++
	}
	for i := range out {
		out[i] = (k + i*step) % n
	}
	return out
}

func gcd(a, b int) int {
	for b != 0 {
		a, b = b, a%b
	}
	return a
}

// rebuildAny deep-copies a map[string]any / []any tree, inserting map members
// in an order that depends on k.
func rebuildAny(v any, k int) any {
	switch v := v.(type) {
	case map[string]any:
		keys := make([]string, 0, len(v))
		for key := range v {
			keys = append(keys, key)
		}
		sortStrings(keys)
		m := make(map[string]any, (k%3)*8)
		for _, i := range rotation(len(keys), k) {
			m[keys[i]] = rebuildAny(v[keys[i]], k+1)
		}
		return m
	case []any:
		s := make([]any, len(v))
		for i := range v {
			s[i] = rebuildAny(v[i], k+i)
		}
		return s
	}
	return v
}

func sortStrings(s []string) {
	for i := 1; i < len(s); i++ {
		for j := i; j > 0 && s[j] < s[j-1]; j-- {
			s[j], s[j-1] = s[j-1], s[j]
		}
	}
}

// expectVal gives, for a few calls, the rendering of the decoded value computed
// without the library (the strings the harness itself put into the document).
var expectVal map[string]string

// deBruijn2 returns a cyclic sequence over 0..n-1 of length n*n in which every
// ordered pair (including (a,a)) occurs exactly once as two consecutive
// elements (concatenation of the Lyndon words of length 1 and 2).
func deBruijn2(n int) []int {
	seq := make([]int, 0, n*n)
	for a := 0; a < n; a++ {
		seq = append(seq, a)
		for b := a + 1; b < n; b++ {
			seq = append(seq, a, b)
		}
	}
	return seq
}

package c18

import (
	"io"

	"github.com/go-json-experiment/json"
	"github.com/go-json-experiment/json/jsontext"
)

// userPanic is the value thrown by generated user code; the harness recovers
// it around the library call and does not attribute it to the library.
type userPanic struct{ tag string }

// ---------------------------------------------------------------------------
// Plain data types.

// escNames has member names that the escape options rewrite: the same type
// is marshaled under different escape settings (anything remembered per type
// must be remembered per option set).
type escNames struct {
	A int `json:"a<b"`
	B int `json:"x&y"`
	C int "json:\"l\u2028s\""
	D int "json:\"p\u2029s\""
	E int `json:"plain"`
}

type item struct {
	ID    int            `json:"id"`
	Name  string         `json:"name"`
	Tags  []string       `json:"tags"`
	Raw   jsontext.Value `json:"raw"`
	Bin   []byte         `json:"bin"`
	M     map[string]int `json:"m"`
	P     *item          `json:"p"`
	F     float64        `json:"f"`
	Any   any            `json:"any"`
	Score uint16         `json:"score"`
}

type rawHolder struct {
	A jsontext.Value            `json:"a"`
	B []jsontext.Value          `json:"b"`
	C map[string]jsontext.Value `json:"c"`
	D *jsontext.Value           `json:"d"`
	S string                    `json:"s"`
	K map[string]string         `json:"k"`
	Y []byte                    `json:"y"`
}

// thinItem picks two members of an item (the decoder still scans everything).
type thinItem struct {
	Name string         `json:"name"`
	Raw  jsontext.Value `json:"raw"`
}

type userTarget struct {
	A *scriptU
	B *scriptU
	C []panicFree
}

type panicFree struct {
	Y int `json:"y"`
}

type foldTarget struct {
	FirstName string `json:"firstName"`
	LastName  string `json:"last_name"`
	Age       int    `json:"AGE"`
}

// embedMapTarget keeps unknown members in an embedded fallback map.
type embedMapTarget struct {
	Known int            `json:"known"`
	Rest  map[string]any `json:",embed"`
}

type inlineTarget struct {
	Known int                       `json:"known"`
	Rest  map[string]jsontext.Value `json:",inline"`
}

// ---------------------------------------------------------------------------
// User marshalers that write tokens, fail or panic at a chosen point.

// scriptM's MarshalJSONTo writes `{"a":1,"b":` and then acts per Mode.
type scriptM struct {
	Mode  string // ok | err | panic | dup | bignames
	Names int
}

func (s scriptM) MarshalJSONTo(enc *jsontext.Encoder) error {
	if err := enc.WriteToken(jsontext.BeginObject); err != nil {
		return err
	}
	switch s.Mode {
	case "bignames":
		for i := 0; i < s.Names; i++ {
			if err := enc.WriteToken(jsontext.String(nameN(i))); err != nil {
				return err
			}
			if err := enc.WriteToken(jsontext.Int(int64(i))); err != nil {
				return err
			}
		}
		return enc.WriteToken(jsontext.EndObject)
	}
	if err := enc.WriteToken(jsontext.String("a")); err != nil {
		return err
	}
	if err := enc.WriteToken(jsontext.Int(1)); err != nil {
		return err
	}
	if err := enc.WriteToken(jsontext.String("b")); err != nil {
		return err
	}
	switch s.Mode {
	case "err":
		return errUser
	case "panic":
		panic(userPanic{"marshal-mid-object"})
	case "dup":
		if err := enc.WriteToken(jsontext.Int(2)); err != nil {
			return err
		}
		if err := enc.WriteToken(jsontext.String("a")); err != nil {
			return err
		}
		if err := enc.WriteToken(jsontext.Int(3)); err != nil {
			return err
		}
		return enc.WriteToken(jsontext.EndObject)
	}
	if err := enc.WriteToken(jsontext.Int(2)); err != nil {
		return err
	}
	return enc.WriteToken(jsontext.EndObject)
}

// scriptU's UnmarshalJSONFrom reads `{`, a name, then acts per Mode.
type scriptU struct {
	Mode string // ok | err | panic
	Got  []string
}

func (s *scriptU) UnmarshalJSONFrom(dec *jsontext.Decoder) error {
	tok, err := dec.ReadToken()
	if err != nil {
		return err
	}
	s.Got = append(s.Got, tok.Kind().String())
	if tok.Kind() != '{' {
		return nil
	}
	tok, err = dec.ReadToken()
	if err != nil {
		return err
	}
	if tok.Kind() == '"' {
		s.Got = append(s.Got, tok.String())
	}
	switch s.Mode {
	case "err":
		return errUser
	case "panic":
		panic(userPanic{"unmarshal-mid-object"})
	}
	for dec.PeekKind() != '}' && dec.PeekKind() != 0 {
		v, err := dec.ReadValue()
		if err != nil {
			return err
		}
		s.Got = append(s.Got, string(v))
	}
	_, err = dec.ReadToken()
	return err
}

// panicText panics inside MarshalJSON (the []byte-returning method).
type panicBytes struct{ X int }

func (p panicBytes) MarshalJSON() ([]byte, error) { panic(userPanic{"MarshalJSON"}) }

type panicUnm struct{ X int }

func (p *panicUnm) UnmarshalJSON(b []byte) error { panic(userPanic{"UnmarshalJSON"}) }

// deep value shared by several calls: leaf and node types live below more than
// 1000 levels of []any so cycle tracking (SeenPointers) is active for them.
type deepLeaf struct {
	V int `json:"v"`
}

type deepNode struct {
	M map[string]*deepLeaf `json:"m"`
	S []*deepLeaf          `json:"s"`
	P *deepLeaf            `json:"p"`
	A any                  `json:"a"`
}

type cyc struct {
	Next *cyc `json:"next"`
}

// ---------------------------------------------------------------------------
// Readers and writers.

// chunkReader returns the data in chunks of n bytes and fails with errReader
// after failAt bytes (failAt < 0: never).
type chunkReader struct {
	data   []byte
	n      int
	failAt int
	pos    int
}

func (r *chunkReader) Read(p []byte) (int, error) {
	if r.failAt >= 0 && r.pos >= r.failAt {
		return 0, errReader
	}
	if r.pos >= len(r.data) {
		return 0, io.EOF
	}
	n := min(len(p), r.n, len(r.data)-r.pos)
	if r.failAt >= 0 {
		n = min(n, r.failAt-r.pos)
	}
	copy(p, r.data[r.pos:r.pos+n])
	r.pos += n
	return n, nil
}

// recWriter records what is written and fails with errWriter once failAt
// bytes were accepted (failAt < 0: never).
type recWriter struct {
	buf    []byte
	failAt int
	writes int
}

func (w *recWriter) Write(p []byte) (int, error) {
	w.writes++
	if w.failAt >= 0 && len(w.buf)+len(p) > w.failAt {
		n := max(0, w.failAt-len(w.buf))
		w.buf = append(w.buf, p[:n]...)
		return n, errWriter
	}
	w.buf = append(w.buf, p...)
	return len(p), nil
}

// shared (package-level, immutable after init) marshalers/unmarshalers so
// that their internal per-type caches are shared by all goroutines.
var (
	leafOK = json.WithMarshalers(json.MarshalFunc(func(l *deepLeaf) ([]byte, error) {
		return []byte(`"leaf"`), nil
	}))
	leafErr = json.WithMarshalers(json.MarshalFunc(func(l *deepLeaf) ([]byte, error) {
		if l.V == 7 {
			return nil, errUser
		}
		return []byte(`"leaf"`), nil
	}))
	leafPanic = json.WithMarshalers(json.MarshalToFunc(func(enc *jsontext.Encoder, l *deepLeaf) error {
		if l.V == 7 {
			panic(userPanic{"deep-leaf"})
		}
		return enc.WriteToken(jsontext.String("leaf"))
	}))
	intAsString = json.WithUnmarshalers(json.UnmarshalFromFunc(func(dec *jsontext.Decoder, p *int) error {
		tok, err := dec.ReadToken()
		if err != nil {
			return err
		}
		if tok.Kind() == '"' {
			*p = len(tok.String())
			return nil
		}
		if tok.Kind() == '0' {
			n, err := tok.Int()
			*p = int(n)
			return err
		}
		return errUser
	}))
)

func nameN(i int) string {
	const digits = "0123456789abcdefghijklmnopqrstuvwxyz"
	s := "n"
	for {
		s += string(digits[i%36])
		i /= 36
		if i == 0 {
			break
		}
	}
	return s
}

package c18

// Sub-check "poison": generated victim / poison histories that do not come
// from the fixed pool. A victim call (valid input fitted to a generated type,
// decoded through one of five routes; or a generated value marshaled; or a
// valid text reformatted) runs first, then one to three poison calls that fail
// half way (the victim's own text cut short, texts cut short into types that
// cannot be decoded, failing marshal calls, reformatting of invalid text,
// coders left with open containers), then the victim again; and once more
// after further poison calls. Every execution of the victim must give the same
// rendering of value and error, and - where the reference model of Unmarshal
// covers the case - the value the text prescribes (so that a state that is
// already dirty when the case starts is noticed as well).

import (
	"bytes"
	"fmt"
	"reflect"
	"time"

	json "github.com/go-json-experiment/json"
	"github.com/go-json-experiment/json/jsontext"
	"pgregory.net/rapid"

	"verif/harness/cov"
	"verif/harness/ref"
	"verif/harness/tv"
)

// Poison is one failing call.
type Poison struct {
	Kind  int    `json:"kind"`  // 0 victim type + cut victim text; 1 catalogue type + cut template; 2 reformat cut text; 3 failing marshal
	Cat   int    `json:"cat"`   // catalogue index (kinds 1, 3), template index (kind 1: Cat / len(types))
	Cut   int    `json:"cut"`   // cut position (clamped)
	Tail  []byte `json:"tail"`  // bytes appended after the cut
	Route int    `json:"route"` // how the call is made (see runPoison)
}

// PCase is one poison history.
type PCase struct {
	Desc    *tv.Desc `json:"desc"`
	Text    []byte   `json:"text"`
	MVal    *tv.Val  `json:"mval,omitempty"` // if set the victim also marshals this value of Desc
	Route   int      `json:"route"`          // 0 Unmarshal; 1 UnmarshalRead 7 bytes per read; 2 UnmarshalRead *bytes.Buffer; 3 UnmarshalDecode fresh Decoder; 4 UnmarshalDecode on the case's Decoder after Reset
	Poisons []Poison `json:"poisons"`
	More    []Poison `json:"more"`
}

var poisonTemplates = [][]byte{
	[]byte(`{"a":{"b":{"c":1,"a":2},"c":2,"a":[1]},"c":3,"C":4,"A":{"B":{"C":1}},"b":{"a":{"b":1}}}`),
	[]byte(`[{"a":{"b":1,"c":{"a":1}}},{"a":{"b":2}},{"C":`),
	[]byte(`{"C": 1, "c" :2}`),
	[]byte(` {"name":{"id":{"value":1,"key":2},"x":1},"id":2,"value":{"name":{"id":3}}}`),
	[]byte(`{"k":{"v":{"data":{"n":1}}},"data":[{"n":{"k":1}}]}`),
}

type pErrU struct{ N int }

func (p *pErrU) UnmarshalJSONFrom(dec *jsontext.Decoder) error {
	if _, err := dec.ReadToken(); err != nil {
		return err
	}
	return errUser
}

type pPanicU struct{ N int }

func (p *pPanicU) UnmarshalJSONFrom(dec *jsontext.Decoder) error {
	if _, err := dec.ReadToken(); err != nil {
		return err
	}
	panic(userPanic{"poison-unmarshal"})
}

type pErrM struct{ N int }

func (p pErrM) MarshalJSONTo(enc *jsontext.Encoder) error {
	enc.WriteToken(jsontext.BeginObject)
	enc.WriteToken(jsontext.String("a"))
	return errUser
}

type pPanicM struct{ N int }

func (p pPanicM) MarshalJSONTo(enc *jsontext.Encoder) error {
	enc.WriteToken(jsontext.BeginObject)
	enc.WriteToken(jsontext.String("a"))
	enc.WriteToken(jsontext.BeginObject)
	enc.WriteToken(jsontext.String("b"))
	panic(userPanic{"poison-marshal"})
}

// poisonTargets cannot be decoded (or fail in user code) somewhere below the top.
var poisonTargets = []func() any{
	func() any { return new(struct{ C chan int }) },
	func() any {
		return new(struct {
			A struct {
				B struct {
					C chan int `json:"c"`
				} `json:"b"`
				C func() `json:"c"`
			} `json:"a"`
			C chan int `json:"C"`
		})
	},
	func() any { return new(map[string]chan int) },
	func() any { return new([]map[string]chan int) },
	func() any {
		return new(struct {
			A map[string]struct {
				B int      `json:"b"`
				C chan int `json:"c"`
			} `json:"a"`
			Name map[string]map[string]chan int `json:"name"`
			K    map[string]map[string]map[string]chan int `json:"k"`
		})
	},
	func() any {
		return new(struct {
			A struct {
				B pErrU `json:"b"`
				C pErrU `json:"c"`
			} `json:"a"`
			Name map[string]*pErrU `json:"name"`
		})
	},
	func() any {
		return new(struct {
			A struct {
				B pPanicU `json:"b"`
			} `json:"a"`
			K map[string]map[string]pPanicU `json:"k"`
		})
	},
	func() any { return new(any) },
	func() any { return new(map[string]map[string]any) },
	func() any { return new([]struct{ A map[string]int `json:"a"`; C chan int }) },
	func() any { return new(int) },
	func() any { return new(jsontext.Value) },
}

var poisonValues = []func() any{
	func() any { return map[string]any{"a": map[string]any{"b": make(chan int)}} },
	func() any { return []any{1.0, struct{ A, B any }{1, func() {}}} },
	func() any { return map[string]any{"a": []any{pErrM{}}} },
	func() any { return []any{map[string]any{"a": pPanicM{}}} },
	func() any { return map[string]any{"name": map[string]any{"id": "bad\xffutf8"}} },
	func() any { return map[string]any{"a\xff": 1} },
	func() any { c := &cyc{}; c.Next = c; return []any{c} },
	func() any { return struct{ A map[string]any `json:"a"` }{map[string]any{"b": pErrM{}}} },
}

func genPoison(t *rapid.T, label string) Poison {
	p := Poison{
		Kind:  rapid.SampledFrom([]int{0, 0, 0, 1, 1, 1, 2, 3}).Draw(t, label+"kind"),
		Cat:   rapid.IntRange(0, 199).Draw(t, label+"cat"),
		Cut:   rapid.IntRange(0, 400).Draw(t, label+"cut"),
		Route: rapid.IntRange(0, 5).Draw(t, label+"route"),
	}
	p.Tail = []byte(rapid.SampledFrom([]string{"", "", "", "]", "}", "x", ",", ":", "\"", "{\"a\":", "nul"}).Draw(t, label+"tail"))
	return p
}

func genPCase(t *rapid.T) PCase {
	cfg := tv.Cfg{MaxDepth: rapid.IntRange(0, 5).Draw(t, "maxdepth"), Embedding: true, Raw: true, TimeKinds: true, Fallbacks: rapid.Bool().Draw(t, "fallbacks"),
		Leaves:  []string{"bool", "int", "int8", "int16", "int32", "int64", "uint", "uint16", "uint32", "uint64", "float32", "float64", "string", "string", "bytes", "bytearr"}, // no uint8: a slice of it is a byte string, which the text generator does not know
		MapKeys: []string{"string", "string", "int", "uint8"}, TopStruct: rapid.IntRange(0, 2).Draw(t, "topstruct") == 0, MaxFields: 4}
	if cfg.MaxDepth > 3 {
		cfg.MaxFields = 2
		cfg.Containers = []string{"slice", "map", "ptr", "struct", "struct", "struct", "any", "array", "map"}
	}
	c := PCase{Desc: tv.GenDesc(t, cfg), Route: rapid.IntRange(0, 4).Draw(t, "route")}
	c.Text = tv.GenJSON(t, c.Desc, tv.JSONCfg{Extra: true, PresentPc: rapid.SampledFrom([]int{60, 90, 100}).Draw(t, "present")})
	if rapid.IntRange(0, 2).Draw(t, "marshal") == 0 {
		v := tv.GenVal(t, c.Desc, tv.ValCfg{AnyCanonical: true})
		c.MVal = &v
	}
	for i, n := 0, rapid.IntRange(1, 3).Draw(t, "npoison"); i < n; i++ {
		c.Poisons = append(c.Poisons, genPoison(t, fmt.Sprint("p", i)))
	}
	for i, n := 0, rapid.IntRange(1, 2).Draw(t, "nmore"); i < n; i++ {
		c.More = append(c.More, genPoison(t, fmt.Sprint("m", i)))
	}
	return c
}

// pSession holds the caller-owned coders of one case (route 4 and the
// reused-encoder victim).
type pSession struct {
	dec *jsontext.Decoder
	enc *jsontext.Encoder
	buf bytes.Buffer
}

func cutText(src []byte, p Poison) []byte {
	cut := p.Cut
	if len(src) > 0 {
		cut %= len(src) + 1
	} else {
		cut = 0
	}
	return append(bytes.Clone(src[:cut]), p.Tail...)
}

func runPoison(c *PCase, typ reflect.Type, p Poison, s *pSession) (class string) {
	guard := func(f func()) {
		if tag := guard(f); tag != "" {
			// a panic unwound through the caller-owned coders: the library makes
			// no promise about a coder in that state, so the caller discards them
			s.dec = jsontext.NewDecoder(bytes.NewReader(nil))
			s.enc = jsontext.NewEncoder(&s.buf)
		}
	}
	switch p.Kind {
	case 0, 1:
		var txt []byte
		var mk func() any
		if p.Kind == 0 {
			txt = cutText(c.Text, p)
			mk = func() any { return reflect.New(typ).Interface() }
			class = "poison:victim-text-cut"
		} else {
			txt = cutText(poisonTemplates[(p.Cat/len(poisonTargets))%len(poisonTemplates)], p)
			mk = poisonTargets[p.Cat%len(poisonTargets)]
			class = "poison:undecodable-target"
		}
		guard(func() {
			switch p.Route {
			case 0, 5:
				json.Unmarshal(txt, mk())
			case 1:
				json.UnmarshalRead(&chunkReader{data: txt, n: 5, failAt: -1}, mk())
			case 2:
				json.UnmarshalRead(bytes.NewBuffer(txt), mk())
			case 3:
				// a caller-owned decoder: tokens until it fails or a few were read, then abandoned
				s.dec.Reset(&chunkReader{data: txt, n: 3, failAt: -1})
				for i := 0; i < 3+p.Cat%9; i++ {
					if _, err := s.dec.ReadToken(); err != nil {
						break
					}
				}
				class += "+owned-decoder-abandoned"
			case 4:
				s.dec.Reset(bytes.NewReader(txt))
				json.UnmarshalDecode(s.dec, mk())
				s.dec.PeekKind()
				class += "+owned-decoder-failed"
			}
		})
	case 2:
		txt := cutText(c.Text, p)
		class = "poison:reformat-invalid"
		guard(func() {
			v := jsontext.Value(txt)
			switch p.Route {
			case 0:
				v.Compact()
			case 1:
				v.Indent()
			case 2:
				v.Canonicalize()
			case 3:
				v.IsValid()
			case 4:
				jsontext.AppendFormat(nil, txt, jsontext.ReorderRawObjects(true))
			case 5:
				v.Format(jsontext.Multiline(true), jsontext.CanonicalizeRawFloats(true))
			}
		})
	case 3:
		val := poisonValues[p.Cat%len(poisonValues)]()
		class = "poison:failing-marshal"
		guard(func() {
			switch p.Route {
			case 0:
				json.Marshal(val)
			case 1:
				json.Marshal(val, json.Deterministic(true), jsontext.Multiline(true))
			case 2:
				json.MarshalWrite(&recWriter{failAt: p.Cut % 40}, val, json.Deterministic(true))
			case 3:
				json.MarshalWrite(&bytes.Buffer{}, val, jsontext.AllowInvalidUTF8(p.Cut%2 == 0))
			case 4, 5:
				s.buf.Reset()
				s.enc.Reset(&s.buf)
				s.enc.WriteToken(jsontext.BeginObject)
				s.enc.WriteToken(jsontext.String("a"))
				s.enc.WriteToken(jsontext.BeginArray)
				json.MarshalEncode(s.enc, val)
				class += "+owned-encoder-abandoned"
			}
		})
	}
	return class
}

type pResult struct {
	val, err, panicTag string
	rv                 reflect.Value
	out                []byte
}

func (r pResult) same(o pResult) bool {
	return r.val == o.val && r.err == o.err && r.panicTag == o.panicTag && bytes.Equal(r.out, o.out)
}

func runVictim(c *PCase, typ reflect.Type, mval any, s *pSession, route int) pResult {
	var r pResult
	dst := reflect.New(typ)
	var err error
	r.panicTag = guard(func() {
		switch route {
		case 0:
			err = json.Unmarshal(c.Text, dst.Interface())
		case 1:
			err = json.UnmarshalRead(&chunkReader{data: c.Text, n: 7, failAt: -1}, dst.Interface())
		case 2:
			err = json.UnmarshalRead(bytes.NewBuffer(bytes.Clone(c.Text)), dst.Interface())
		case 3:
			err = json.UnmarshalDecode(jsontext.NewDecoder(bytes.NewReader(c.Text)), dst.Interface())
		case 4:
			s.dec.Reset(bytes.NewReader(c.Text))
			err = json.UnmarshalDecode(s.dec, dst.Interface())
			if err == nil {
				if _, e2 := s.dec.ReadToken(); e2 == nil {
					err = fmt.Errorf("harness: a token follows the only value")
				}
			}
		}
	})
	r.rv = dst.Elem()
	r.val = renderValue(dst.Interface())
	r.err = renderErr(err)
	if mval != nil {
		var out, out2, out3 []byte
		var e1, e2, e3 error
		p := guard(func() {
			out, e1 = json.Marshal(mval, json.Deterministic(true))
			var bb bytes.Buffer
			e2 = json.MarshalWrite(&bb, mval, json.Deterministic(true))
			out2 = bb.Bytes()
			s.buf.Reset()
			s.enc.Reset(&s.buf)
			e3 = json.MarshalEncode(s.enc, mval, json.Deterministic(true))
			out3 = bytes.Clone(s.buf.Bytes())
		})
		r.panicTag += p
		// what a failed call leaves behind (partial bytes) is not constrained
		if e1 != nil {
			out = nil
		}
		if e2 != nil {
			out2 = nil
		}
		if e3 != nil {
			out3 = nil
			s.enc = jsontext.NewEncoder(&s.buf)
		}
		r.out = bytes.Join([][]byte{out, out2, out3}, []byte("|"))
		r.err += "|" + renderErr(e1) + "|" + renderErr(e2) + "|" + renderErr(e3)
		if e1 == nil && e2 == nil && e3 == nil && p == "" && (!bytes.Equal(out, out2) || !bytes.Equal(append(bytes.Clone(out), '\n'), out3)) {
			r.err += "|routes-differ"
		}
	}
	// reformatting the victim text
	var f1, f2 jsontext.Value
	var fe1, fe2 error
	p := guard(func() {
		f1 = jsontext.Value(bytes.Clone(c.Text))
		fe1 = f1.Canonicalize()
		f2 = jsontext.Value(bytes.Clone(c.Text))
		fe2 = f2.Indent()
	})
	r.panicTag += p
	r.out = append(append(append(r.out, '|'), f1...), f2...)
	r.err += "|" + renderErr(fe1) + "|" + renderErr(fe2)
	return r
}

func RunPoison(c PCase) error {
	if c.Desc == nil {
		return nil
	}
	typ, err := tv.Build(c.Desc)
	if err != nil {
		return nil
	}
	rec.Eval()
	var mval any
	if c.MVal != nil {
		if rv, err := tv.Make(c.Desc, c.MVal); err == nil && rv.IsValid() {
			p := reflect.New(typ)
			p.Elem().Set(rv)
			mval = p.Interface()
		}
	}
	s := &pSession{dec: jsontext.NewDecoder(bytes.NewReader(nil))}
	s.enc = jsontext.NewEncoder(&s.buf)
	sig := c.Desc.Sig()
	describe := func() string {
		return fmt.Sprintf("victim: text %q into %s through route %d (marshal victim: %v); poison calls %+v then %+v", c.Text, sig, c.Route, mval != nil, c.Poisons, c.More)
	}
	route0 := c.Route
	if route0 == 4 {
		route0 = 3 // the first execution uses a fresh decoder
	}
	r0 := runVictim(&c, typ, mval, s, route0)
	if len(r0.panicTag) >= 7 && r0.panicTag[:7] == "LIBRARY" {
		return fmt.Errorf("victim call panicked: %s\n%s", r0.panicTag, describe())
	}
	// absolute anchor
	anchored := false
	if n, perr := ref.Parse(c.Text, ref.Opt{}); perr == nil {
		if want, ok := tv.RefDecode(c.Desc, c.Text, n, tv.DecodeOpt{}); ok && !hasUint8Seq(c.Desc) {
			anchored = true
			if r0.err[:3] != "nil" {
				return fmt.Errorf("first execution of the victim failed (%s) although the reference model decodes the text\n%s", r0.err, describe())
			}
			if d := tv.Equal(r0.rv, want, tv.EqOpt{}); d != "" {
				return fmt.Errorf("first execution of the victim differs from the reference decoding at %s\n%s", d, describe())
			}
		}
	}
	classes := map[string]bool{}
	for _, p := range c.Poisons {
		classes[runPoison(&c, typ, p, s)] = true
	}
	r1 := runVictim(&c, typ, mval, s, c.Route)
	for _, p := range c.More {
		classes[runPoison(&c, typ, p, s)] = true
	}
	for _, p := range c.Poisons {
		classes[runPoison(&c, typ, p, s)] = true
	}
	r2 := runVictim(&c, typ, mval, s, c.Route)
	for k := range classes {
		rec.Class(k)
	}
	if anchored {
		rec.Class("victim-anchored-by-reference-decode")
	}
	rec.Class(fmt.Sprintf("victim-route-%d", c.Route))
	if mval != nil {
		rec.Class("victim-marshals")
	}
	if r0.err[:3] == "nil" {
		fp := cov.FPs("poison", sig, string(c.Text), fmt.Sprint(c.Route, c.Poisons, c.More))
		rec.NonTrivial(fp)
		rec.Sample(fp, func() any {
			return map[string]any{"sub": "poison", "type": sig, "text": string(c.Text), "route": c.Route, "poisons": fmt.Sprintf("%+v", c.Poisons)}
		})
	}
	for i, r := range []pResult{r1, r2} {
		if !r.same(r0) {
			what := "after the poison calls"
			if i == 1 {
				what = "after the second round of poison calls"
			}
			return fmt.Errorf("the victim call gives a different result %s: value %s / error %s / panic %q / output %q; first execution: value %s / error %s / panic %q / output %q\n%s",
				what, clipS(r.val, 300), r.err, r.panicTag, clipS(string(r.out), 300), clipS(r0.val, 300), r0.err, r0.panicTag, clipS(string(r0.out), 300), describe())
		}
	}
	return nil
}

// hasUint8Seq reports whether the type holds a slice or array of uint8
// spelled as such (a byte string in JSON, which the reference decoder and the
// text generator treat as an array: no claim is made then).
func hasUint8Seq(d *tv.Desc) bool {
	if d == nil {
		return false
	}
	if (d.K == "slice" || d.K == "array") && d.Elem != nil && d.Elem.K == "uint8" {
		return true
	}
	if hasUint8Seq(d.Elem) || hasUint8Seq(d.Key) {
		return true
	}
	for i := range d.Fields {
		if hasUint8Seq(d.Fields[i].T) {
			return true
		}
	}
	return false
}

var _ = time.Now

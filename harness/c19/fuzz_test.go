package c19

import (
	"testing"

	"verif/harness/rt"
)

// FuzzScope lets the native fuzzer drive the "scope" generator (coverage-guided).
func FuzzScope(f *testing.F) {
	rt.FuzzRapid(f, "C19", "scope", genScope, RunScope)
}

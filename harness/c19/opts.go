// Package c19 decides property C19: options compose as last-wins maps and
// apply only where scoped.
package c19

import (
	"fmt"
	"strings"

	"github.com/go-json-experiment/json"
	"github.com/go-json-experiment/json/jsontext"
	v1 "github.com/go-json-experiment/json/v1"

	"verif/harness/cov"
)

var rec = cov.New()

// Opt is one element of an option sequence, as plain data.
//
//	{name:"json.Deterministic", arg:"true"}     a boolean constructor
//	{name:"jsontext.WithIndent", arg:" \t"}     a string constructor
//	{name:"json.WithMarshalers", arg:"m1"}      nil | m1 | m2  (WithUnmarshalers: nil | u1 | u2)
//	{name:"v1.DefaultOptionsV1"} {name:"json.DefaultOptionsV2"} {name:"nil"}
//	{name:"Join", kids:[...]}                   json.JoinOptions(kids...)
type Opt struct {
	Name string `json:"name"`
	Arg  string `json:"arg,omitempty"`
	Kids []Opt  `json:"kids,omitempty"`
}

func (o Opt) String() string {
	if o.Name == "Join" {
		var parts []string
		for _, k := range o.Kids {
			parts = append(parts, k.String())
		}
		return "Join(" + strings.Join(parts, ", ") + ")"
	}
	switch o.Name {
	case "nil", nameV1, nameV2:
		return o.Name
	}
	if strings.HasPrefix(o.Name, "jsontext.WithIndent") {
		return fmt.Sprintf("%s(%q)", o.Name, o.Arg)
	}
	return o.Name + "(" + o.Arg + ")"
}

func seqString(seq []Opt) string {
	var parts []string
	for _, o := range seq {
		parts = append(parts, o.String())
	}
	return "[" + strings.Join(parts, ", ") + "]"
}

const (
	nameV1     = "v1.DefaultOptionsV1"
	nameV2     = "json.DefaultOptionsV2"
	keyIndent  = "jsontext.WithIndent"
	keyPrefix  = "jsontext.WithIndentPrefix"
	keyMulti   = "jsontext.Multiline"
	keyMarsh   = "json.WithMarshalers"
	keyUnmarsh = "json.WithUnmarshalers"
	keyFmtTag  = "json.ExperimentalSupportFormatTag"
)

// boolCtor lists every public boolean option constructor (30 + the
// experimental format-tag switch).
var boolCtor = []struct {
	Name string
	F    func(bool) json.Options
}{
	{"json.StringifyNumbers", json.StringifyNumbers},
	{"json.Deterministic", json.Deterministic},
	{"json.FormatNilSliceAsNull", json.FormatNilSliceAsNull},
	{"json.FormatNilMapAsNull", json.FormatNilMapAsNull},
	{"json.OmitZeroStructFields", json.OmitZeroStructFields},
	{"json.MatchCaseInsensitiveNames", json.MatchCaseInsensitiveNames},
	{"json.RejectUnknownMembers", json.RejectUnknownMembers},
	{keyFmtTag, json.ExperimentalSupportFormatTag},

	{"jsontext.AllowDuplicateNames", jsontext.AllowDuplicateNames},
	{"jsontext.AllowInvalidUTF8", jsontext.AllowInvalidUTF8},
	{"jsontext.EscapeForHTML", jsontext.EscapeForHTML},
	{"jsontext.EscapeForJS", jsontext.EscapeForJS},
	{"jsontext.PreserveRawStrings", jsontext.PreserveRawStrings},
	{"jsontext.CanonicalizeRawInts", jsontext.CanonicalizeRawInts},
	{"jsontext.CanonicalizeRawFloats", jsontext.CanonicalizeRawFloats},
	{"jsontext.ReorderRawObjects", jsontext.ReorderRawObjects},
	{"jsontext.SpaceAfterColon", jsontext.SpaceAfterColon},
	{"jsontext.SpaceAfterComma", jsontext.SpaceAfterComma},
	{keyMulti, jsontext.Multiline},

	{"v1.CallMethodsWithLegacySemantics", v1.CallMethodsWithLegacySemantics},
	{"v1.FormatByteArrayAsArray", v1.FormatByteArrayAsArray},
	{"v1.FormatBytesWithLegacySemantics", v1.FormatBytesWithLegacySemantics},
	{"v1.FormatDurationAsNano", v1.FormatDurationAsNano},
	{"v1.MatchCaseSensitiveDelimiter", v1.MatchCaseSensitiveDelimiter},
	{"v1.MergeWithLegacySemantics", v1.MergeWithLegacySemantics},
	{"v1.OmitEmptyWithLegacySemantics", v1.OmitEmptyWithLegacySemantics},
	{"v1.ParseBytesWithLooseRFC4648", v1.ParseBytesWithLooseRFC4648},
	{"v1.ParseTimeWithLooseRFC3339", v1.ParseTimeWithLooseRFC3339},
	{"v1.ReportErrorsWithLegacySemantics", v1.ReportErrorsWithLegacySemantics},
	{"v1.StringifyWithLegacySemantics", v1.StringifyWithLegacySemantics},
	{"v1.UnmarshalArrayFromAnyLength", v1.UnmarshalArrayFromAnyLength},
}

var boolCtorByName = func() map[string]func(bool) json.Options {
	m := map[string]func(bool) json.Options{}
	for _, c := range boolCtor {
		m[c.Name] = c.F
	}
	return m
}()

// User-defined (un)marshalers used as WithMarshalers/WithUnmarshalers
// arguments. They act on int8 only.
var (
	m1 = json.JoinMarshalers(json.MarshalFunc(func(int8) ([]byte, error) { return []byte(`"m1"`), nil }))
	m2 = json.JoinMarshalers(json.MarshalFunc(func(int8) ([]byte, error) { return []byte(`"m2"`), nil }), json.MarshalFunc(func(int16) ([]byte, error) { return []byte(`"m2-16"`), nil }))
	u1 = json.JoinUnmarshalers(json.UnmarshalFunc(func(b []byte, p *int8) error { *p = 11; return nil }))
	u2 = json.JoinUnmarshalers(json.UnmarshalFunc(func(b []byte, p *int8) error { *p = 22; return nil }), json.UnmarshalFunc(func(b []byte, p *int16) error { *p = 2216; return nil }))
)

func marshalersByName(s string) (*json.Marshalers, error) {
	switch s {
	case "nil":
		return nil, nil
	case "m1":
		return m1, nil
	case "m2":
		return m2, nil
	}
	return nil, fmt.Errorf("harness: unknown marshalers %q", s)
}

func unmarshalersByName(s string) (*json.Unmarshalers, error) {
	switch s {
	case "nil":
		return nil, nil
	case "u1":
		return u1, nil
	case "u2":
		return u2, nil
	}
	return nil, fmt.Errorf("harness: unknown unmarshalers %q", s)
}

func marshalersName(m *json.Marshalers) string {
	switch m {
	case nil:
		return "nil"
	case m1:
		return "m1"
	case m2:
		return "m2"
	}
	return fmt.Sprintf("other(%p)", m)
}

func unmarshalersName(u *json.Unmarshalers) string {
	switch u {
	case nil:
		return "nil"
	case u1:
		return "u1"
	case u2:
		return "u2"
	}
	return fmt.Sprintf("other(%p)", u)
}

func blankOnly(s string) bool { return strings.Trim(s, " \t") == "" }

// build turns the description into a real option value.
func build(o Opt) (json.Options, error) {
	switch o.Name {
	case "nil":
		return nil, nil
	case nameV1:
		return v1.DefaultOptionsV1(), nil
	case nameV2:
		return json.DefaultOptionsV2(), nil
	case "Join":
		kids, err := buildAll(o.Kids)
		if err != nil {
			return nil, err
		}
		return json.JoinOptions(kids...), nil
	case keyIndent:
		if !blankOnly(o.Arg) {
			return nil, fmt.Errorf("harness: indent %q is not blank", o.Arg)
		}
		return jsontext.WithIndent(o.Arg), nil
	case keyPrefix:
		if !blankOnly(o.Arg) {
			return nil, fmt.Errorf("harness: indent prefix %q is not blank", o.Arg)
		}
		return jsontext.WithIndentPrefix(o.Arg), nil
	case keyMarsh:
		m, err := marshalersByName(o.Arg)
		if err != nil {
			return nil, err
		}
		return json.WithMarshalers(m), nil
	case keyUnmarsh:
		u, err := unmarshalersByName(o.Arg)
		if err != nil {
			return nil, err
		}
		return json.WithUnmarshalers(u), nil
	}
	if f, ok := boolCtorByName[o.Name]; ok {
		switch o.Arg {
		case "true":
			return f(true), nil
		case "false":
			return f(false), nil
		}
		return nil, fmt.Errorf("harness: bad boolean argument %q for %s", o.Arg, o.Name)
	}
	return nil, fmt.Errorf("harness: unknown option %q", o.Name)
}

func buildAll(seq []Opt) ([]json.Options, error) {
	out := make([]json.Options, 0, len(seq))
	for _, o := range seq {
		b, err := build(o)
		if err != nil {
			return nil, err
		}
		out = append(out, b)
	}
	return out, nil
}

// flatten returns the leaves of the sequence in order.
func flatten(seq []Opt) []Opt {
	var out []Opt
	var walk func([]Opt)
	walk = func(s []Opt) {
		for _, o := range s {
			if o.Name == "Join" {
				walk(o.Kids)
			} else {
				out = append(out, o)
			}
		}
	}
	walk(seq)
	return out
}

func nestDepth(seq []Opt) int {
	d := 0
	for _, o := range seq {
		if o.Name == "Join" {
			if k := 1 + nestDepth(o.Kids); k > d {
				d = k
			}
		}
	}
	return d
}

// probe reads one option back through the public json.GetOption.
type probe struct {
	Key string
	Get func(json.Options) (mval, bool)
}

var probes = func() []probe {
	var ps []probe
	for _, c := range boolCtor {
		f := c.F
		ps = append(ps, probe{c.Name, func(o json.Options) (mval, bool) {
			v, ok := json.GetOption(o, f)
			return mval{B: v}, ok
		}})
	}
	ps = append(ps,
		probe{keyIndent, func(o json.Options) (mval, bool) {
			v, ok := json.GetOption(o, jsontext.WithIndent)
			return mval{S: v}, ok
		}},
		probe{keyPrefix, func(o json.Options) (mval, bool) {
			v, ok := json.GetOption(o, jsontext.WithIndentPrefix)
			return mval{S: v}, ok
		}},
		probe{keyMarsh, func(o json.Options) (mval, bool) {
			v, ok := json.GetOption(o, json.WithMarshalers)
			return mval{S: marshalersName(v)}, ok
		}},
		probe{keyUnmarsh, func(o json.Options) (mval, bool) {
			v, ok := json.GetOption(o, json.WithUnmarshalers)
			return mval{S: unmarshalersName(v)}, ok
		}},
	)
	return ps
}()

// got is one GetOption outcome.
type got struct {
	V  mval
	OK bool
}

// snapshot reads every option of o.
func snapshot(o json.Options) []got {
	out := make([]got, len(probes))
	for i, p := range probes {
		v, ok := p.Get(o)
		out[i] = got{v, ok}
	}
	return out
}

// expect is the snapshot the model predicts. For an absent option GetOption
// is documented to return the zero value; for (Un)marshalers that is nil.
func (m Model) expect() []got {
	out := make([]got, len(probes))
	for i, p := range probes {
		v, ok := m[p.Key]
		if !ok && (p.Key == keyMarsh || p.Key == keyUnmarsh) {
			v = mval{S: "nil"}
		}
		out[i] = got{v, ok}
	}
	return out
}

func diffSnap(a, b []got) string {
	var sb strings.Builder
	for i := range a {
		if a[i] != b[i] {
			fmt.Fprintf(&sb, " %s: %s vs %s;", probes[i].Key, fmtGot(i, a[i]), fmtGot(i, b[i]))
		}
	}
	return sb.String()
}

func isStringKey(k string) bool {
	return k == keyIndent || k == keyPrefix || k == keyMarsh || k == keyUnmarsh
}

// fmtGot prints the outcome of probe i.
func fmtGot(i int, g got) string {
	var v string
	switch k := probes[i].Key; {
	case k == keyIndent || k == keyPrefix:
		v = fmt.Sprintf("%q", g.V.S)
	case isStringKey(k):
		v = g.V.S
	default:
		v = fmt.Sprint(g.V.B)
	}
	if !g.OK {
		return "(absent, value " + v + ")"
	}
	return v
}

package c19

import (
	"bytes"
	stdjson "encoding/json"
	"errors"
	"fmt"
	"reflect"

	"github.com/go-json-experiment/json"
	"github.com/go-json-experiment/json/jsontext"
	"pgregory.net/rapid"

	"verif/harness/cov"
	"verif/harness/rt"
)

// SCase is one scoping case. A coder is built with Base; three calls follow:
//
//	A: a plain value/text with Extra     -> equals Marshal/Unmarshal with Base++Extra
//	C: a plain value/text without extras -> equals Marshal/Unmarshal with Base
//	B: a value holding user code (Mode) with Extra; the user code may fail,
//	   panic or make a nested call with Inner
//
// After each call every GetOption value of coder.Options() must be what it
// was before the call.
type SCase struct {
	Dir   string `json:"dir"` // marshal | unmarshal
	Base  []Opt  `json:"base"`
	Extra []Opt  `json:"extra"`
	Inner []Opt  `json:"inner"`
	Mode  int    `json:"mode"`
	Where int    `json:"where"`
	Val   Val    `json:"val"`
	TextA []byte `json:"text_a,omitempty"`
	TextC []byte `json:"text_c,omitempty"`
}

const (
	modeOK = iota
	modeErr
	modePanic
	modeErrAfterIO
	modeNestedOK
	modeNestedThenErr
	modeNestedChildErr
	modeNestedChildPanic
	nModes
)

var modeNames = []string{"ok", "error", "panic", "error-after-io", "nested-call", "nested-call-then-error", "nested-call-fails", "nested-call-panics-recovered"}

var errSpy = errors.New("spy error")

type spyPanic struct{}

type spyState struct {
	mode        int
	inner       []json.Options
	called      int
	inside      []got
	joined1     json.Options // JoinOptions(coder.Options()) taken inside the call
	joined2     json.Options // JoinOptions(coder.Options(), JoinOptions()) taken inside the call
	afterNested []got
	nested      bool
	child       *spyState
	nestedErr   error
}

// Spy is a value with user-defined marshal/unmarshal code that reads the
// coder's options.
type Spy struct{ st *spyState }

func (s *Spy) MarshalJSONTo(enc *jsontext.Encoder) error {
	if s == nil || s.st == nil {
		return enc.WriteToken(jsontext.String("blank-spy"))
	}
	st := s.st
	st.called++
	st.inside = snapshot(enc.Options())
	st.joined1 = json.JoinOptions(enc.Options())
	st.joined2 = json.JoinOptions(enc.Options(), json.JoinOptions())
	switch st.mode {
	case modeErr:
		return errSpy
	case modePanic:
		panic(spyPanic{})
	case modeErrAfterIO:
		if err := enc.WriteToken(jsontext.BeginArray); err != nil {
			return err
		}
		return errSpy
	case modeNestedOK, modeNestedThenErr, modeNestedChildErr, modeNestedChildPanic:
		st.nested = true
		st.child = &spyState{mode: modeOK}
		switch st.mode {
		case modeNestedChildErr:
			st.child.mode = modeErr
		case modeNestedChildPanic:
			st.child.mode = modePanic
		}
		var perr *rt.PanicErr
		perr = rt.Guard(func() { st.nestedErr = json.MarshalEncode(enc, &Spy{st.child}, st.inner...) })
		if perr != nil {
			if _, ours := perr.Val.(spyPanic); !ours {
				panic(perr.Val)
			}
			st.nestedErr = errSpy
		}
		st.afterNested = snapshot(enc.Options())
		if st.mode == modeNestedThenErr {
			return errSpy
		}
		if st.nestedErr != nil {
			return errSpy
		}
		return nil
	}
	return enc.WriteToken(jsontext.String("spy"))
}

func (s *Spy) UnmarshalJSONFrom(dec *jsontext.Decoder) error {
	if s == nil || s.st == nil {
		return dec.SkipValue()
	}
	st := s.st
	st.called++
	st.inside = snapshot(dec.Options())
	st.joined1 = json.JoinOptions(dec.Options())
	st.joined2 = json.JoinOptions(dec.Options(), json.JoinOptions())
	switch st.mode {
	case modeErr:
		return errSpy
	case modePanic:
		panic(spyPanic{})
	case modeErrAfterIO:
		if _, err := dec.ReadToken(); err != nil {
			return err
		}
		return errSpy
	case modeNestedOK, modeNestedThenErr, modeNestedChildErr, modeNestedChildPanic:
		st.nested = true
		st.child = &spyState{mode: modeOK}
		switch st.mode {
		case modeNestedChildErr:
			st.child.mode = modeErr
		case modeNestedChildPanic:
			st.child.mode = modePanic
		}
		perr := rt.Guard(func() { st.nestedErr = json.UnmarshalDecode(dec, &Spy{st.child}, st.inner...) })
		if perr != nil {
			if _, ours := perr.Val.(spyPanic); !ours {
				panic(perr.Val)
			}
			st.nestedErr = errSpy
		}
		st.afterNested = snapshot(dec.Options())
		if st.mode == modeNestedThenErr || st.nestedErr != nil {
			return errSpy
		}
		return nil
	}
	return dec.SkipValue()
}

type spyStruct struct {
	A int    `json:"A"`
	S *Spy   `json:"S"`
	B string `json:"B"`
}

// spyTagged puts the user code under a `string` tag: inside it
// GetOption(StringifyNumbers) is documented to report true.
type spyTagged struct {
	Q *Spy `json:"Q,string"`
}

const nWhere = 5

func wrapSpy(s *Spy, where int) any {
	switch where % nWhere {
	case 4:
		return &spyTagged{Q: s}
	case 1:
		return &spyStruct{A: 1, S: s, B: "x"}
	case 2:
		return &[]any{1, s}
	case 3:
		return &map[string]*Spy{"k": s}
	}
	return s
}

var spyTexts = []string{`[1,2]`, `{"A":1,"S":[1,2],"B":"x"}`, `[1,[1,2]]`, `{"k":[1,2]}`, `{"Q":[1,2]}`}

// superset: every key of the model is visible with the model's value.
func checkSuperset(what string, have []got, m Model, c SCase) error {
	want := m.expect()
	for i := range want {
		if probes[i].Key == "json.StringifyNumbers" && c.Where%nWhere == 4 {
			continue // applied by the `string` tag for this field
		}
		if want[i].OK && have[i] != want[i] {
			return fmt.Errorf("%s: GetOption(coder.Options(), %s) = %s inside the call, but coder options %s overridden by call options %s give %s",
				what, probes[i].Key, fmtGot(i, have[i]), seqString(c.Base), seqString(c.Extra), fmtGot(i, want[i]))
		}
	}
	return nil
}

func hasWS(m Model) bool {
	for k := range m {
		if whitespaceSet[k] {
			return true
		}
	}
	return false
}

// RunScope decides one scoping case.
func RunScope(c SCase) error {
	rec.Eval()
	if c.Dir != "marshal" && c.Dir != "unmarshal" {
		return fmt.Errorf("harness: bad dir %q", c.Dir)
	}
	mode := ((c.Mode % nModes) + nModes) % nModes
	both := append(append([]Opt{}, c.Base...), c.Extra...)
	_, over := joinCount(both)
	depth := nestDepth(both)
	raw, _ := stdjson.Marshal([]any{c.Base, c.Extra, c.Inner})
	fp := cov.FP([]byte("scope"), []byte(c.Dir), raw, []byte{byte(mode), byte(c.Where % nWhere)})
	if over > 0 || depth > 0 {
		rec.NonTrivial(fp)
		rec.Sample(fp, func() any {
			return map[string]any{"check": "scoping", "dir": c.Dir, "coder_options": seqString(c.Base), "call_options": seqString(c.Extra), "nested_call_options": seqString(c.Inner), "user_code": modeNames[mode]}
		})
	}
	classify("scope", both, flatten(both), over, depth)
	rec.Class("scope:" + c.Dir + ":user-code=" + modeNames[mode])
	if len(c.Extra) == 0 {
		rec.Class("scope:no-call-options")
	}
	_, crossOver := joinCount([]Opt{{Name: "Join", Kids: c.Base}, {Name: "Join", Kids: c.Extra}})
	_, o1 := joinCount(c.Base)
	_, o2 := joinCount(c.Extra)
	if crossOver > o1+o2 {
		rec.Class("scope:call-option-overrides-coder-option")
	}

	base, err := buildAll(c.Base)
	if err != nil {
		return err
	}
	extra, err := buildAll(c.Extra)
	if err != nil {
		return err
	}
	inner, err := buildAll(c.Inner)
	if err != nil {
		return err
	}
	all := append(append([]json.Options{}, base...), extra...)
	mBase := join(c.Base)
	mExtra := join(c.Extra)
	mAll := join(both)
	mInnerAll := join(append(append([]Opt{}, both...), c.Inner...))

	st := &spyState{mode: mode, inner: inner}
	spy := &Spy{st}

	var options func() json.Options
	var resetEnc func(w *bytes.Buffer, self json.Options, extra []json.Options)
	var callA, callC, callB func() error
	var unwind func() bool // marshal: close what a failed call left open; false if the encoder refuses
	var checkA, checkC func(err error) error
	var buf bytes.Buffer
	var dec *jsontext.Decoder

	if c.Dir == "marshal" {
		var enc *jsontext.Encoder
		if p := rt.Guard(func() { enc = jsontext.NewEncoder(&buf, base...) }); p != nil {
			return fmt.Errorf("NewEncoder panicked: %v", p)
		}
		options = enc.Options
		unwind = func() bool {
			ok := true
			if p := rt.Guard(func() {
				for steps := 0; enc.StackDepth() > 0 && steps < 64; steps++ {
					kind, n := enc.StackIndex(enc.StackDepth())
					var err error
					if kind == '{' {
						if n%2 == 1 {
							if err = enc.WriteToken(jsontext.Null); err != nil {
								ok = false
								return
							}
						}
						err = enc.WriteToken(jsontext.EndObject)
					} else {
						err = enc.WriteToken(jsontext.EndArray)
					}
					if err != nil {
						ok = false
						return
					}
				}
				ok = ok && enc.StackDepth() == 0
			}); p != nil {
				return false
			}
			return ok
		}
		resetEnc = func(w *bytes.Buffer, self json.Options, extra []json.Options) {
			enc.Reset(w, append([]json.Options{self}, extra...)...)
		}
		manyA := mAll["json.Deterministic"].B
		manyC := mBase["json.Deterministic"].B
		mark := 0
		callA = func() error { mark = buf.Len(); return json.MarshalEncode(enc, mkValue(c.Val, manyA), extra...) }
		callC = func() error { mark = buf.Len(); return json.MarshalEncode(enc, mkValue(c.Val, manyC)) }
		callB = func() error { return json.MarshalEncode(enc, wrapSpy(spy, c.Where), extra...) }
		cmp := func(err error, many bool, opts []json.Options, what string) error {
			want, werr := json.Marshal(mkValue(c.Val, many), opts...)
			if (err == nil) != (werr == nil) {
				return fmt.Errorf("MarshalEncode %s returned %v but Marshal with %s returns %v", what, err, what, werr)
			}
			if err == nil && !bytes.Equal(buf.Bytes()[mark:], append(want, '\n')) {
				return fmt.Errorf("MarshalEncode %s wrote %q but Marshal with the same options gives %q", what, buf.Bytes()[mark:], want)
			}
			return nil
		}
		checkA = func(err error) error {
			if hasWS(mExtra) {
				rec.Class("scope:whitespace-call-option(output-not-compared)")
				return nil // the implementation refuses to change whitespace within MarshalEncode
			}
			return cmp(err, manyA, all, "coder options overridden by the call options")
		}
		checkC = func(err error) error {
			return cmp(err, manyC, base, "the coder's own options (after an earlier call with call options)")
		}
	} else {
		stream := append(append(append(append(bytes.Clone(c.TextA), ' '), c.TextC...), ' '), spyTexts[c.Where%nWhere]...)
		if p := rt.Guard(func() { dec = jsontext.NewDecoder(bytes.NewReader(stream), base...) }); p != nil {
			return fmt.Errorf("NewDecoder panicked: %v", p)
		}
		options = dec.Options
		var target any
		callA = func() error { target = mkValue(c.Val, true); return json.UnmarshalDecode(dec, target, extra...) }
		callC = func() error { target = mkValue(c.Val, true); return json.UnmarshalDecode(dec, target) }
		callB = func() error { return json.UnmarshalDecode(dec, wrapSpy(spy, c.Where), extra...) }
		cmp := func(err error, text []byte, opts []json.Options, what string) error {
			want := mkValue(c.Val, true)
			werr := json.Unmarshal(text, want, opts...)
			if (err == nil) != (werr == nil) {
				return fmt.Errorf("UnmarshalDecode of %q with %s returned %v but Unmarshal with the same options returns %v", text, what, err, werr)
			}
			if err == nil && !reflect.DeepEqual(target, want) {
				return fmt.Errorf("UnmarshalDecode of %q with %s stored %s but Unmarshal with the same options gives %s", text, what, dump(target), dump(want))
			}
			return nil
		}
		checkA = func(err error) error { return cmp(err, c.TextA, all, "coder options overridden by the call options") }
		checkC = func(err error) error {
			return cmp(err, c.TextC, base, "the coder's own options (after an earlier call with call options)")
		}
	}

	before := snapshot(options())
	// A joined value is a map of its own: what it reports is what was joined,
	// whatever happens to the coder afterwards.
	joinedBefore := json.JoinOptions(options())
	if err := checkSuperset("fresh coder", before, mBase, SCase{Base: c.Base}); err != nil {
		return err
	}
	same := func(when string) error {
		now := snapshot(options())
		if d := diffSnap(now, before); d != "" {
			return fmt.Errorf("%s coder.Options() changed %s (now vs before:%s); coder options %s, call options %s, nested call options %s, user code %s",
				c.Dir, when, d, seqString(c.Base), seqString(c.Extra), seqString(c.Inner), modeNames[mode])
		}
		return nil
	}
	ctx := func(err error) error {
		return fmt.Errorf("%v; coder options %s, call options %s, val %s text_a %q text_c %q", err, seqString(c.Base), seqString(c.Extra), dump(c.Val), c.TextA, c.TextC)
	}

	// call A
	var errA error
	knownPanic := func(p *rt.PanicErr, m Model, iface bool, what string) error {
		err := fmt.Errorf("%s panicked: %v; coder options %s, call options %s", what, p, seqString(c.Base), seqString(c.Extra))
		if isNilDeref(p) && nilArshalersInEffect(c.Dir, m) && iface {
			return rt.Known(kfNilArshalers, err)
		}
		return err
	}
	if p := rt.Guard(func() { errA = callA() }); p != nil {
		return knownPanic(p, mAll, shapeHasInterface(c.Val.Shape), "call with options")
	}
	if err := same("after a call with call options" + errSuffix(errA)); err != nil {
		return err
	}
	if err := checkA(errA); err != nil {
		return ctx(err)
	}
	if errA == nil {
		rec.Class("scope:plain-call-with-options:ok")
		// call C
		var errC error
		if p := rt.Guard(func() { errC = callC() }); p != nil {
			return knownPanic(p, mBase, shapeHasInterface(c.Val.Shape), "call without options")
		}
		if err := same("after a call without call options" + errSuffix(errC)); err != nil {
			return err
		}
		if err := checkC(errC); err != nil {
			return ctx(err)
		}
	} else {
		// the coder may now be in a failed state: only the options are
		// looked at from here on
		rec.Class("scope:plain-call-with-options:error")
		// ... unless the caller can complete the output by hand (possible
		// where duplicate names are allowed: the failed call leaves the name
		// tracking of the open objects unusable otherwise). The coder then
		// behaves under its own options again, as the statement says.
		if unwind != nil && mBase["jsontext.AllowDuplicateNames"].B && !hasWS(mExtra) && unwind() {
			rec.Class("scope:failed-call-unwound-by-hand")
			if err := same("after a failed call was completed by hand"); err != nil {
				return err
			}
			var errC error
			if p := rt.Guard(func() { errC = callC() }); p != nil {
				return knownPanic(p, mBase, shapeHasInterface(c.Val.Shape), "call without options after a failed call")
			}
			if err := checkC(errC); err != nil {
				return ctx(fmt.Errorf("after a failed call (completed by hand): %v", err))
			}
		}
	}

	// call B: user code
	if len(c.Extra) == 0 && (mode == modePanic || mode == modeNestedChildPanic) {
		// The statement speaks of options passed to the call and of errors;
		// a user panic in a call without options is outside it.
		rec.Class("scope:skipped-panic-without-call-options")
		return nil
	}
	var errB error
	p := rt.Guard(func() { errB = callB() })
	if p != nil {
		if _, ours := p.Val.(spyPanic); !ours {
			return knownPanic(p, mAll, c.Where%nWhere == 2, "call with user code ("+modeNames[mode]+")")
		}
		rec.Class("scope:user-panic-recovered")
	}
	if err := same("after a call whose user code did: " + modeNames[mode] + errSuffix(errB)); err != nil {
		return err
	}
	if st.called > 0 {
		rec.Class("scope:user-code-reached")
		if err := checkSuperset("user code", st.inside, mAll, c); err != nil {
			return err
		}
		for i, j := range []json.Options{st.joined1, st.joined2} {
			if d := diffSnap(snapshot(j), st.inside); d != "" {
				return fmt.Errorf("%s: JoinOptions(coder.Options()%s) taken inside user code reports other values once the call has ended (now vs when joined:%s); coder options %s, call options %s",
					c.Dir, []string{"", ", JoinOptions()"}[i], d, seqString(c.Base), seqString(c.Extra))
			}
		}
		rec.Class("scope:joined-inside-call-is-a-copy")
		if st.nested {
			if c.Where%nWhere == 4 {
				// The `string` tag applies to the top-level value of the
				// field only and is dropped once the coder descends.
				for i := range probes {
					if probes[i].Key == "json.StringifyNumbers" {
						st.afterNested[i] = st.inside[i]
					}
				}
			}
			if d := diffSnap(st.afterNested, st.inside); d != "" {
				return fmt.Errorf("%s: options seen by user code changed across a nested call with options %s (after vs before:%s); coder options %s, call options %s, nested outcome %v",
					c.Dir, seqString(c.Inner), d, seqString(c.Base), seqString(c.Extra), st.nestedErr)
			}
			if st.child.called > 0 {
				rec.Class("scope:nested-user-code-reached")
				if err := checkSuperset("nested user code", st.child.inside, mInnerAll, SCase{Base: both, Extra: c.Inner, Where: c.Where}); err != nil {
					return err
				}
			}
		}
	}
	// The coder's own Options() value is an Options like any other: passed
	// back to Reset in front of further options, these override it.
	var after []got
	if rp := rt.Guard(func() {
		if c.Dir == "marshal" {
			var b2 bytes.Buffer
			resetEnc(&b2, options(), extra)
		} else {
			dec.Reset(bytes.NewReader(nil), append([]json.Options{options()}, extra...)...)
		}
		after = snapshot(options())
	}); rp != nil {
		return fmt.Errorf("Reset(coder.Options(), call options...) panicked: %v", rp)
	}
	if err := checkSuperset("Reset(coder.Options(), call options...)", after, mAll, c); err != nil {
		return err
	}
	if d := diffSnap(snapshot(joinedBefore), before); d != "" {
		return fmt.Errorf("%s: JoinOptions(coder.Options()) taken from the fresh coder reports other values after the coder was Reset with further options (now vs when joined:%s); coder options %s, reset options %s",
			c.Dir, d, seqString(c.Base), seqString(c.Extra))
	}
	if p == nil && errB == nil {
		rec.Class("scope:user-code-call:ok")
	} else {
		rec.Class("scope:user-code-call:error-or-panic")
	}
	return nil
}

func errSuffix(err error) string {
	if err == nil {
		return " (which succeeded)"
	}
	return " (which failed)"
}

func genScope(t *rapid.T) SCase {
	focus := genFocus(t)
	c := SCase{
		Dir:   rapid.SampledFrom([]string{"marshal", "unmarshal"}).Draw(t, "dir"),
		Mode:  rapid.IntRange(0, nModes-1).Draw(t, "mode"),
		Where: rapid.IntRange(0, nWhere-1).Draw(t, "where"),
		Val:   genVal(t),
	}
	c.Base = genSeq(t, rapid.IntRange(0, 5).Draw(t, "nbase"), 1, focus)
	nExtra := rapid.IntRange(0, 5).Draw(t, "nextra")
	c.Extra = genSeq(t, nExtra, 1, focus)
	if c.Mode >= modeNestedOK {
		c.Inner = genSeq(t, rapid.IntRange(0, 3).Draw(t, "ninner"), 1, focus)
	}
	if c.Dir == "marshal" && rapid.IntRange(0, 3).Draw(t, "nows") > 0 {
		// Whitespace options on the call are refused unless they repeat
		// the encoder's; keep most cases free of them so that the call
		// reaches the user code.
		c.Extra = dropWS(c.Extra)
		c.Inner = dropWS(c.Inner)
	}
	if c.Dir == "unmarshal" {
		c.TextA = validOnly(t, c.Val.Shape)
		c.TextC = validOnly(t, c.Val.Shape)
	}
	return c
}

func dropWS(seq []Opt) []Opt {
	var out []Opt
	for _, o := range seq {
		if o.Name == "Join" {
			out = append(out, Opt{Name: "Join", Kids: dropWS(o.Kids)})
			continue
		}
		if whitespaceSet[o.Name] {
			continue
		}
		out = append(out, o)
	}
	return out
}

// validOnly draws a text for the shape that is one syntactically complete
// JSON value (it may still hold duplicate names or invalid UTF-8).
func validOnly(t *rapid.T, shape int) []byte {
	for i := 0; i < 20; i++ {
		b := genText(t, shape)
		if jsontext.Value(b).IsValid(jsontext.AllowDuplicateNames(true), jsontext.AllowInvalidUTF8(true)) {
			return b
		}
	}
	return []byte(`{}`)
}

package c19

import (
	"encoding/json"
	"fmt"

	jsonv2 "github.com/go-json-experiment/json"
	"pgregory.net/rapid"

	"verif/harness/cov"
	"verif/harness/rt"
)

// ACase is one algebra case: an option sequence (a tree; "Join" nodes nest).
type ACase struct {
	Seq   []Opt `json:"seq"`
	Split int   `json:"split"` // where the "two halves" spelling cuts the flat sequence
	Enum  bool  `json:"enum,omitempty"`
}

// atoms is the alphabet of the bounded-exhaustive layer: every public option
// constructor with every argument class.
var atoms = func() []Opt {
	var as []Opt
	for _, c := range boolCtor {
		as = append(as, Opt{Name: c.Name, Arg: "false"}, Opt{Name: c.Name, Arg: "true"})
	}
	for _, s := range []string{"", "\t", " \t  "} { // "" and "\t" take WithIndent's constant fast path, the last one does not
		as = append(as, Opt{Name: keyIndent, Arg: s})
	}
	for _, s := range []string{"", " ", "\t\t "} {
		as = append(as, Opt{Name: keyPrefix, Arg: s})
	}
	for _, s := range []string{"nil", "m1", "m2"} {
		as = append(as, Opt{Name: keyMarsh, Arg: s})
	}
	for _, s := range []string{"nil", "u1", "u2"} {
		as = append(as, Opt{Name: keyUnmarsh, Arg: s})
	}
	as = append(as, Opt{Name: nameV1}, Opt{Name: nameV2}, Opt{Name: "nil"})
	return as
}()

var builtAtoms = func() []jsonv2.Options {
	out, err := buildAll(atoms)
	if err != nil {
		panic(err)
	}
	return out
}()

func checkSnap(what string, o jsonv2.Options, want []got, seq []Opt) error {
	var have []got
	if p := rt.Guard(func() { have = snapshot(o) }); p != nil {
		return fmt.Errorf("GetOption panicked on %s of %s: %v", what, seqString(seq), p)
	}
	for i := range want {
		if have[i] != want[i] {
			return fmt.Errorf("GetOption(%s, %s) = %s, the map model says %s; sequence %s; all differences:%s",
				what, probes[i].Key, fmtGot(i, have[i]), fmtGot(i, want[i]), seqString(seq), diffSnap(have, want))
		}
	}
	return nil
}

// RunAlgebra decides one algebra case.
func RunAlgebra(c ACase) error {
	rec.Eval()
	model, over := joinCount(c.Seq)
	flat := flatten(c.Seq)
	depth := nestDepth(c.Seq)
	if depth > 0 && !model.equal(join(flat)) {
		return fmt.Errorf("harness: model of nested and of flattened sequence differ for %s", seqString(c.Seq))
	}
	want := model.expect()

	// evidence
	nt := over > 0 || depth > 0
	if nt {
		if c.Enum {
			rec.NonTrivialDistinct(1)
		} else {
			raw, _ := json.Marshal(c.Seq)
			fp := cov.FP([]byte("algebra"), raw)
			rec.NonTrivial(fp)
			rec.Sample(fp, func() any {
				return map[string]any{"check": "algebra", "sequence": seqString(c.Seq), "model_as_canonical_sequence": model.String()}
			})
		}
	}
	classify("algebra", c.Seq, flat, over, depth)

	tree, err := buildAll(c.Seq)
	if err != nil {
		return err
	}
	leaves := tree
	if depth > 0 {
		if leaves, err = buildAll(flat); err != nil {
			return err
		}
	}
	var g jsonv2.Options

	// 1. as given (nested where the case nests)
	if p := rt.Guard(func() { g = jsonv2.JoinOptions(tree...) }); p != nil {
		return fmt.Errorf("JoinOptions panicked on %s: %v", seqString(c.Seq), p)
	}
	if err := checkSnap("JoinOptions(seq...)", g, want, c.Seq); err != nil {
		return err
	}
	// 2. flat
	if depth > 0 {
		if err := checkSnap("JoinOptions(flattened seq...)", jsonv2.JoinOptions(leaves...), want, c.Seq); err != nil {
			return err
		}
	}
	// 3. the single option itself, not joined
	if len(tree) == 1 {
		if err := checkSnap("the option itself", tree[0], want, c.Seq); err != nil {
			return err
		}
	}
	if len(leaves) >= 2 {
		// 4. left-nested: Join(Join(Join(a), b), c)
		var l jsonv2.Options
		for i, o := range leaves {
			if i == 0 {
				l = jsonv2.JoinOptions(o)
			} else {
				l = jsonv2.JoinOptions(l, o)
			}
		}
		if err := checkSnap("left-nested JoinOptions", l, want, c.Seq); err != nil {
			return err
		}
		// 5. right-nested: Join(a, Join(b, Join(c)))
		var r jsonv2.Options
		for i := len(leaves) - 1; i >= 0; i-- {
			if i == len(leaves)-1 {
				r = jsonv2.JoinOptions(leaves[i])
			} else {
				r = jsonv2.JoinOptions(leaves[i], r)
			}
		}
		if err := checkSnap("right-nested JoinOptions", r, want, c.Seq); err != nil {
			return err
		}
		// 6. two halves
		k := c.Split
		if k < 0 {
			k = 0
		}
		k %= len(leaves) + 1
		h := jsonv2.JoinOptions(jsonv2.JoinOptions(leaves[:k]...), jsonv2.JoinOptions(leaves[k:]...))
		if err := checkSnap(fmt.Sprintf("JoinOptions(Join(seq[:%d]...), Join(seq[%d:]...))", k, k), h, want, c.Seq); err != nil {
			return err
		}
	}
	// 7. joining again, and with nil around, changes nothing; the earlier
	// result is not disturbed by having been used as a source.
	if !c.Enum || len(leaves) <= 2 {
		again := jsonv2.JoinOptions(nil, g, nil)
		if err := checkSnap("JoinOptions(nil, joined, nil)", again, want, c.Seq); err != nil {
			return err
		}
		_ = jsonv2.JoinOptions(g, jsonv2.DefaultOptionsV2(), nil)
		if err := checkSnap("the joined value after being used as a source of another JoinOptions", g, want, c.Seq); err != nil {
			return err
		}
	}
	return nil
}

// classify feeds the generator-distribution histogram.
func classify(check string, seq, flat []Opt, over, depth int) {
	if len(flat) >= 5 {
		rec.Class(check + ":len>=5")
	} else {
		rec.Class(fmt.Sprintf("%s:len=%d", check, len(flat)))
	}
	if over > 0 {
		rec.Class(check + ":key-set-twice-with-different-values")
	}
	if depth > 0 {
		rec.Class(fmt.Sprintf("%s:nest-depth=%d", check, depth))
	}
	var hasV1, hasV2, hasNil, hasIndent, hasArsh bool
	for _, o := range flat {
		switch o.Name {
		case nameV1:
			hasV1 = true
		case nameV2:
			hasV2 = true
		case "nil":
			hasNil = true
		case keyIndent, keyPrefix:
			hasIndent = true
		case keyMarsh, keyUnmarsh:
			hasArsh = true
		}
	}
	if hasV1 {
		rec.Class(check + ":has-DefaultOptionsV1")
	}
	if hasV2 {
		rec.Class(check + ":has-DefaultOptionsV2")
	}
	if hasV1 && hasV2 {
		rec.Class(check + ":has-V1-and-V2")
	}
	if hasNil {
		rec.Class(check + ":has-nil")
	}
	if hasIndent {
		rec.Class(check + ":has-indent")
	}
	if hasArsh {
		rec.Class(check + ":has-(un)marshalers")
	}
}

// enumAlgebra yields every sequence over atoms up to maxLen (complete), and
// for the next length a strided sample (quick tier).
func enumAlgebra(e *rt.Env, yield func(ACase) bool) {
	maxLen := 3
	if e.Thorough() {
		maxLen = 4
	}
	n := int64(len(atoms))
	var idx, total int64
	complete := true
	seqOf := func(i int64, l int) []Opt {
		s := make([]Opt, l)
		for j := 0; j < l; j++ {
			s[j] = atoms[i%n]
			i /= n
		}
		return s
	}
	for l := 0; l <= maxLen && complete; l++ {
		cnt := int64(1)
		for i := 0; i < l; i++ {
			cnt *= n
		}
		for i := int64(0); i < cnt; i++ {
			idx++
			if !e.Mine(idx) {
				continue
			}
			total++
			if !yield(ACase{Seq: seqOf(i, l), Split: int(i % int64(l+1)), Enum: true}) {
				complete = false
				break
			}
		}
	}
	e.Rec.AddPart(cov.Part{Name: fmt.Sprintf("all option sequences of length <=%d over the %d-atom alphabet (every constructor x every argument class), each as separate/left-nested/right-nested/split JoinOptions", maxLen, len(atoms)), Size: total, Complete: complete})
	if !complete || e.Thorough() {
		return
	}
	// quick: strided sample of length maxLen+1
	l := maxLen + 1
	cnt := int64(1)
	for i := 0; i < l; i++ {
		cnt *= n
	}
	const stride = 97 // coprime to 77
	off := int64(e.Offset("algebra-enum-stride", stride))
	var sampled int64
	for i := off; i < cnt; i += stride {
		idx++
		if !e.Mine(idx) {
			continue
		}
		sampled++
		if !yield(ACase{Seq: seqOf(i, l), Split: int(i % int64(l+1)), Enum: true}) {
			complete = false
			break
		}
	}
	e.Rec.AddPart(cov.Part{Name: fmt.Sprintf("every %dth option sequence of length %d over the %d-atom alphabet", stride, l, len(atoms)), Size: sampled, Complete: false})
}

// ---- random sequences ----

func genBlank(t *rapid.T, label string) string {
	return rapid.StringOfN(rapid.SampledFrom([]rune{' ', '\t'}), 0, 5, -1).Draw(t, label)
}

// genLeaf draws one constructor call; focus (optional) restricts the keys so
// that the same key is likely to be set several times.
func genLeaf(t *rapid.T, focus []Opt) Opt {
	if len(focus) > 0 && rapid.IntRange(0, 9).Draw(t, "focused") < 7 {
		o := rapid.SampledFrom(focus).Draw(t, "focus-atom")
		return o
	}
	if rapid.IntRange(0, 19).Draw(t, "freshindent") == 0 {
		if rapid.Bool().Draw(t, "prefix") {
			return Opt{Name: keyPrefix, Arg: genBlank(t, "blank")}
		}
		return Opt{Name: keyIndent, Arg: genBlank(t, "blank")}
	}
	// the three set-valued / nil atoms get extra weight
	if rapid.IntRange(0, 7).Draw(t, "special") == 0 {
		return atoms[len(atoms)-1-rapid.IntRange(0, 2).Draw(t, "which")]
	}
	return rapid.SampledFrom(atoms).Draw(t, "atom")
}

// genSeq draws a sequence with the given number of leaves and random nesting.
func genSeq(t *rapid.T, leaves int, maxDepth int, focus []Opt) []Opt {
	var seq []Opt
	for leaves > 0 {
		if maxDepth > 0 && rapid.IntRange(0, 4).Draw(t, "nest") == 0 {
			k := rapid.IntRange(0, leaves).Draw(t, "kids")
			seq = append(seq, Opt{Name: "Join", Kids: genSeq(t, k, maxDepth-1, focus)})
			leaves -= k
			if k == 0 && rapid.Bool().Draw(t, "stop-empty") {
				continue
			}
			continue
		}
		seq = append(seq, genLeaf(t, focus))
		leaves--
	}
	return seq
}

func genFocus(t *rapid.T) []Opt {
	if rapid.Bool().Draw(t, "nofocus") {
		return nil
	}
	n := rapid.IntRange(2, 8).Draw(t, "nfocus")
	var f []Opt
	for i := 0; i < n; i++ {
		a := rapid.SampledFrom(atoms).Draw(t, "focus")
		f = append(f, a)
		// add the opposite setting of the same key so that overwrites differ
		switch {
		case a.Arg == "true":
			f = append(f, Opt{Name: a.Name, Arg: "false"})
		case a.Arg == "false":
			f = append(f, Opt{Name: a.Name, Arg: "true"})
		}
	}
	return f
}

func genAlgebra(minLeaves int) func(t *rapid.T) ACase {
	return func(t *rapid.T) ACase {
		focus := genFocus(t)
		depth := rapid.IntRange(0, 3).Draw(t, "maxdepth")
		lo := minLeaves
		if depth > 0 {
			lo = 1
		}
		n := rapid.IntRange(lo, 12).Draw(t, "leaves")
		seq := genSeq(t, n, depth, focus)
		if nestDepth(seq) == 0 && len(seq) < minLeaves {
			// would duplicate the exhaustive layer: nest it
			seq = []Opt{{Name: "Join", Kids: seq}}
		}
		return ACase{Seq: seq, Split: rapid.IntRange(0, 12).Draw(t, "split")}
	}
}

package c19

import (
	"testing"

	"verif/harness/rt"
)

func TestCheck(t *testing.T) {
	e := rt.Setup(t, "C19")
	defer e.Finish()
	rec = e.Rec

	selfTest(e)

	// 1. algebra: JoinOptions/GetOption against the map model
	rt.Enum(e, "algebra-enum", func(yield func(ACase) bool) { enumAlgebra(e, yield) }, RunAlgebra)
	minLeaves := 4
	if e.Thorough() {
		minLeaves = 5
	}
	rt.Rapid(e, "algebra-rand", 500_000, 5_000_000, genAlgebra(minLeaves), RunAlgebra)

	// 2. behaviour: results depend only on the projection of the map onto
	// the options documented as relevant; separate == joined == nested
	rt.Rapid(e, "behave", 400_000, 4_000_000, genBehave, RunBehave)

	// 3. scoping of options passed to MarshalEncode / UnmarshalDecode
	rt.Rapid(e, "scope", 200_000, 2_000_000, genScope, RunScope)

	// 4. v1 == v2 + DefaultOptionsV1; DefaultOptionsV2 cancels v1 options
	rt.Rapid(e, "v1-equals-v2", 60_000, 600_000, genV1, RunBehave)
	rt.Rapid(e, "v2-cancels", 100_000, 1_000_000, genV2Cancel, RunBehave)
}

package c19

import (
	"fmt"

	"verif/harness/rt"
)

// selfTest checks the harness's own tables (never the library): a failure
// makes the run inconclusive, not a violation.
func selfTest(e *rt.Env) {
	if len(boolCtor) != 31 {
		e.OracleFail(fmt.Sprintf("expected 30 boolean constructors + ExperimentalSupportFormatTag, have %d", len(boolCtor)))
	}
	if len(v1Keys) != 21 {
		e.OracleFail(fmt.Sprintf("DefaultOptionsV1 documents 21 options, table has %d", len(v1Keys)))
	}
	keys := map[string]bool{}
	for _, p := range probes {
		if keys[p.Key] {
			e.OracleFail("duplicate probe " + p.Key)
		}
		keys[p.Key] = true
	}
	for _, k := range v1Keys {
		if !keys[k] {
			e.OracleFail("v1 key without probe: " + k)
		}
	}
	for _, ks := range [][]string{decodeKeys, coderKeys, whitespaceKeys, unmarshalOnly, marshalOnly} {
		for _, k := range ks {
			if !keys[k] {
				e.OracleFail("relevance table names an unknown option: " + k)
			}
		}
	}
	for _, a := range atoms {
		m := single(a)
		if !join(m.canonical()).equal(m) {
			e.OracleFail("canonical spelling is not a fixed point for " + a.String())
		}
	}
	// model laws on a small closed set: join is associative
	for _, a := range atoms {
		for _, b := range atoms[:20] {
			l := join([]Opt{{Name: "Join", Kids: []Opt{a, b}}, atoms[len(atoms)-2]})
			r := join([]Opt{a, {Name: "Join", Kids: []Opt{b, atoms[len(atoms)-2]}}})
			if !l.equal(r) {
				e.OracleFail("model join is not associative for " + a.String() + ", " + b.String())
			}
		}
	}
}

package c19

import (
	"fmt"
	"reflect"
	"strings"
	"time"

	"github.com/go-json-experiment/json/jsontext"
	"pgregory.net/rapid"
)

// Val describes a Go value (plain data); mkValue rebuilds it. It is used as
// the Marshal input and as the pre-populated Unmarshal target.
type Val struct {
	Shape    int      `json:"shape"`
	Str      []byte   `json:"str"`
	Int      int64    `json:"int"`
	Flt      float64  `json:"flt"`
	Tiny     int8     `json:"tiny"`
	NilSlice bool     `json:"nil_slice"`
	Slice    []int    `json:"slice"`
	NilMap   bool     `json:"nil_map"`
	MapKeys  []string `json:"map_keys"`
	B        bool     `json:"b"`
	Z        int      `json:"z"`
	Bytes    []byte   `json:"bytes"`
	Dur      int64    `json:"dur"`
	Raw      []byte   `json:"raw"`
	Ptr      bool     `json:"ptr"`
}

const (
	shBasic = iota
	shLegacyString
	shBytes
	shTimes
	shFmt
	shMethods
	shCase
	shBadStruct
	shAnyMap
	shTinySlice
	nShapes
)

var shapeNames = []string{"basic", "legacy-string-tag", "bytes", "times", "format-tag", "methods", "case", "bad-struct", "any-map", "int8-slice"}

type namedByte byte

// Basic is sensitive to most v2 marshal/encode options.
type Basic struct {
	Str   string         `json:"str"`
	Int   int64          `json:"int"`
	Flt   float64        `json:"flt"`
	Tiny  int8           `json:"tiny"`
	QInt  int            `json:"qint,string"`
	Slice []int          `json:"slice"`
	Map   map[string]int `json:"map"`
	B     bool           `json:"b,omitempty"`
	Z     int            `json:"z,omitzero"`
	Raw   jsontext.Value `json:"raw"`
	Any   any            `json:"any"`
	Ptr   *int           `json:"ptr,omitempty"`
}

// LegacyString uses the `string` tag where only v1 honours it.
type LegacyString struct {
	QB bool   `json:"qb,string"`
	QS string `json:"qs,string"`
	QI *int   `json:"qi,string"`
}

// Bytes holds the byte-ish kinds.
type Bytes struct {
	Arr [3]byte     `json:"arr"`
	NB  []namedByte `json:"nb"`
	BS  []byte      `json:"bs"`
}

// Times holds time.Duration / time.Time.
type Times struct {
	D time.Duration `json:"d"`
	T time.Time     `json:"t"`
}

// Fmt uses the experimental `format` tag.
type Fmt struct {
	S []int          `json:"s,format:emitnull"`
	H []byte         `json:"h,format:hex"`
	M map[string]int `json:"m,format:emitnull"`
	F float64        `json:"f,format:nonfinite"`
}

// PtrM has pointer-receiver methods (CallMethodsWithLegacySemantics).
type PtrM struct{ X int }

func (p *PtrM) MarshalJSON() ([]byte, error) { return []byte(`"ptrm"`), nil }
func (p *PtrM) UnmarshalJSON(b []byte) error { p.X = 1000 + len(b); return nil }

// KeyM is a map key type with both JSON and text methods.
type KeyM struct{ K string }

func (k KeyM) MarshalJSON() ([]byte, error) { return []byte(`"json-` + k.K + `"`), nil }
func (k *KeyM) UnmarshalJSON(b []byte) error {
	k.K = "fromjson-" + strings.Trim(string(b), `"`)
	return nil
}
func (k KeyM) MarshalText() ([]byte, error) { return []byte("text-" + k.K), nil }
func (k *KeyM) UnmarshalText(b []byte) error {
	k.K = "fromtext-" + string(b)
	return nil
}

// Methods exercises method-calling rules.
type Methods struct {
	M map[string]PtrM `json:"m"`
	I any             `json:"i"`
	V PtrM            `json:"v"`
	K map[KeyM]int    `json:"k"`
}

// Case exercises name matching and array length rules.
type Case struct {
	FooBar int    `json:"fooBar"`
	Under  int    `json:"foo_bar"`
	X      int    `json:"x,case:ignore"`
	Arr    [2]int `json:"arr"`
}

// badStructType has a structural error (two fields named "a"): a runtime
// error in v2, ignored under ReportErrorsWithLegacySemantics. It is built
// with reflect so that go vet's structtag check does not stop the build of
// the harness: struct { A int `json:"a"`; B int `json:"a"`; C int `json:"c"` }.
var badStructType = reflect.StructOf([]reflect.StructField{
	{Name: "A", Type: reflect.TypeFor[int](), Tag: `json:"a"`},
	{Name: "B", Type: reflect.TypeFor[int](), Tag: `json:"a"`},
	{Name: "C", Type: reflect.TypeFor[int](), Tag: `json:"c"`},
})

// mkValue rebuilds the Go value. If !manyKeys, maps keep at most one entry
// (map order is unspecified without Deterministic).
func mkValue(v Val, manyKeys bool) any {
	keys := v.MapKeys
	if !manyKeys && len(keys) > 1 {
		keys = keys[:1]
	}
	var m map[string]int
	if !v.NilMap {
		m = map[string]int{}
		for i, k := range keys {
			m[k] = i + 1
		}
	}
	var sl []int
	if !v.NilSlice {
		sl = append([]int{}, v.Slice...)
	}
	var ptr *int
	if v.Ptr {
		p := v.Z
		ptr = &p
	}
	var raw jsontext.Value
	if v.Raw != nil {
		raw = append(jsontext.Value{}, v.Raw...)
	}
	switch v.Shape {
	case shBasic:
		var a any
		switch {
		case v.Ptr && v.B:
			a = []any{string(v.Str), v.Flt, nil}
		case v.Ptr && v.NilSlice && v.NilMap:
			// nil containers held in interfaces: the untyped fast paths consult the nil-as-null options themselves
			a = []any{[]any(nil), map[string]any(nil), []any{}, map[string]any{}} // a slice: member order of a multi-entry map is unspecified
		case v.Ptr && v.NilSlice:
			a = []any(nil)
		case v.Ptr && v.NilMap:
			a = map[string]any(nil)
		case v.Ptr:
			a = map[string]any{"k": string(v.Str)}
		case v.B:
			a = v.Tiny
		}
		return &Basic{Str: string(v.Str), Int: v.Int, Flt: v.Flt, Tiny: v.Tiny, QInt: v.Z, Slice: sl, Map: m, B: v.B, Z: v.Z, Raw: raw, Any: a, Ptr: ptr}
	case shLegacyString:
		return &LegacyString{QB: v.B, QS: string(v.Str), QI: ptr}
	case shBytes:
		var arr [3]byte
		copy(arr[:], v.Bytes)
		var nb []namedByte
		if !v.NilSlice {
			nb = []namedByte{}
			for _, b := range v.Bytes {
				nb = append(nb, namedByte(b))
			}
		}
		var bs []byte
		if !v.NilMap {
			bs = append([]byte{}, v.Bytes...)
		}
		return &Bytes{Arr: arr, NB: nb, BS: bs}
	case shTimes:
		return &Times{D: time.Duration(v.Dur), T: time.Unix(v.Int%4102444800, int64(v.Z)).UTC()}
	case shFmt:
		var h []byte
		if !v.NilSlice {
			h = append([]byte{}, v.Bytes...)
		}
		return &Fmt{S: sl, H: h, M: m, F: v.Flt}
	case shMethods:
		var mm map[string]PtrM
		if !v.NilMap {
			mm = map[string]PtrM{}
			for i, k := range keys {
				mm[k] = PtrM{i}
			}
		}
		var km map[KeyM]int
		if len(keys) > 0 {
			km = map[KeyM]int{{keys[0]}: 1}
		}
		var i any
		switch {
		case v.B && v.Ptr:
			i = (*PtrM)(nil)
		case v.B:
			i = PtrM{7}
		case v.Ptr:
			i = &PtrM{8}
		}
		return &Methods{M: mm, I: i, V: PtrM{v.Z}, K: km}
	case shCase:
		return &Case{FooBar: v.Z, Under: int(v.Tiny), X: int(v.Int % 100), Arr: [2]int{v.Z, int(v.Tiny)}}
	case shBadStruct:
		bs := reflect.New(badStructType)
		bs.Elem().Field(0).SetInt(int64(v.Z))
		bs.Elem().Field(1).SetInt(int64(v.Tiny))
		bs.Elem().Field(2).SetInt(3)
		return bs.Interface()
	case shAnyMap:
		out := map[string]any{}
		for i, k := range keys {
			switch i % 3 {
			case 0:
				out[k] = string(v.Str)
			case 1:
				out[k] = sl
			default:
				out[k] = m
			}
		}
		var a any = out
		return &a
	case shTinySlice:
		s := []int8{v.Tiny}
		if v.B {
			s = append(s, 0, -v.Tiny)
		}
		return &s
	}
	panic(fmt.Sprintf("harness: unknown shape %d", v.Shape))
}

// shapeWeights favours the shapes that marshal without error under plain v2.
var shapeWeights = []int{shBasic, shBasic, shBasic, shBasic, shBytes, shBytes, shMethods, shMethods, shCase, shAnyMap, shAnyMap, shTinySlice, shLegacyString, shTimes, shFmt, shBadStruct}

var strMenu = []string{"", "x", "a<b>&c", "a<b>&c", " | ", "q\"\\/", "plain text", "bad\xffutf8", "é😀 ", "\x00\x1f"}

var rawMenu = []string{"", `null`, `1.0`, `-0`, `1e2`, `12345678901234567890`, `"A<\/"`, `"a` + " " + `"`, `{"b":1,"a":2}`, `{"a":1,"a":2}`, ` [1, 2 ]`, `{"x":{"z":[1.50],"y":"é"}}`, "\"\xff\"", `{`, `[1]]`}

func genVal(t *rapid.T) Val {
	v := Val{
		Shape:    rapid.SampledFrom(shapeWeights).Draw(t, "shape"),
		Str:      []byte(rapid.SampledFrom(strMenu).Draw(t, "str")),
		Int:      rapid.SampledFrom([]int64{0, 1, -1, 42, 1 << 53, 9007199254740993, -9223372036854775808, 1577934245}).Draw(t, "int"),
		Flt:      rapid.SampledFrom([]float64{0, 1, -0.5, 1e21, 1e-7, 3.141592653589793, 16777217}).Draw(t, "flt"),
		Tiny:     rapid.SampledFrom([]int8{0, 1, -3, 127}).Draw(t, "tiny"),
		NilSlice: rapid.Bool().Draw(t, "nilslice"),
		Slice:    rapid.SliceOfN(rapid.IntRange(-2, 3), 0, 3).Draw(t, "slice"),
		NilMap:   rapid.Bool().Draw(t, "nilmap"),
		MapKeys:  rapid.SliceOfNDistinct(rapid.SampledFrom([]string{"k", "a", "B", "<", "z9", "", "é"}), 0, 3, rapid.ID[string]).Draw(t, "keys"),
		B:        rapid.Bool().Draw(t, "b"),
		Z:        rapid.SampledFrom([]int{0, 0, 1, -7, 500}).Draw(t, "z"),
		Bytes:    rapid.SliceOfN(rapid.Byte(), 0, 4).Draw(t, "bytes"),
		Dur:      rapid.SampledFrom([]int64{0, 1, 1500000000, -60000000000}).Draw(t, "dur"),
		Ptr:      rapid.Bool().Draw(t, "ptr"),
	}
	if r := rapid.SampledFrom(rawMenu).Draw(t, "raw"); r != "" {
		v.Raw = []byte(r)
	}
	return v
}

// ---- JSON texts for Unmarshal ----

type member struct {
	names []string
	vals  []string
}

var junkVals = []string{`null`, `1`, `"s"`, `true`, `[]`, `{}`, `[1,"x"]`, `{"k":1,"k":2}`, "\"\xff\"", `1e400`}

var shapeMembers = [nShapes][]member{
	shBasic: {
		{[]string{"str", "STR", "Str"}, []string{`"x"`, `"a<b>&c"`, "\"\xff\"", `"\ud800"`, `null`, `1`}},
		{[]string{"int", "Int"}, []string{`1`, `"1"`, `1.5`, `null`, `-0`, `12345678901234567890`}},
		{[]string{"flt"}, []string{`1.5`, `"1.5"`, `1e400`, `null`}},
		{[]string{"tiny", "TINY"}, []string{`3`, `300`, `null`, `"3"`}},
		{[]string{"qint", "QInt"}, []string{`"7"`, `7`, `" 7"`, `"+7"`, `"null"`, `null`, `"0x7"`}},
		{[]string{"slice"}, []string{`[1,2]`, `[]`, `null`, `[1,"x"]`, `{}`, `[4]`}},
		{[]string{"map", "MAP"}, []string{`{"k":1}`, `{"k":1,"k":2}`, `{}`, `null`, `{"a":1,"b":"x"}`, `{"n":7}`}},
		{[]string{"b"}, []string{`true`, `"true"`, `null`, `false`}},
		{[]string{"z"}, []string{`5`, `null`}},
		{[]string{"raw", "Raw"}, []string{`{"a":1,"a":2}`, `[1, 2]`, `"A"`, `null`, ` 1.0 `}},
		{[]string{"any"}, []string{`1`, `"s"`, `{"a":[1]}`, `{"a":1,"a":2}`, `null`, `1e400`, `{"k":null}`, `[null]`}},
		{[]string{"ptr"}, []string{`5`, `null`}},
		{[]string{"unknown", "", "é"}, []string{`1`, `{"x":[1,2]}`}},
	},
	shLegacyString: {
		{[]string{"qb", "QB"}, []string{`"true"`, `true`, `"null"`, `null`, `"x"`, `"false"`}},
		{[]string{"qs"}, []string{`"\"abc\""`, `"abc"`, `"null"`, `null`, `"\"\""`}},
		{[]string{"qi", "Qi"}, []string{`"5"`, `5`, `"null"`, `"0x10"`, `"1e2"`, `null`, `"+5"`}},
	},
	shBytes: {
		{[]string{"arr", "ARR"}, []string{`"AQID"`, `[1,2,3]`, `[1,2]`, `[1,2,3,4]`, `"AQ\nID"`, `"AQI="`, `null`, `"AQIDBA=="`}},
		{[]string{"nb"}, []string{`"AQID"`, `[1,2]`, `null`, `"AQ\r\nID"`}},
		{[]string{"bs", "Bs"}, []string{`"AQID"`, `"AQ\r\nID"`, `[1,2]`, `"A==="`, `null`, `""`}},
	},
	shTimes: {
		{[]string{"d", "D"}, []string{`1000`, `"1s"`, `null`, `1.5`, `-5`}},
		{[]string{"t", "T"}, []string{`"2020-01-02T03:04:05Z"`, `"2020-01-02T3:04:05Z"`, `"2020-01-02T03:04:05,5Z"`, `"2020-01-02T03:04:05+24:00"`, `"2020-01-02t03:04:05z"`, `null`, `"x"`, `"2020-01-02T03:04:05.5+01:00"`}},
	},
	shFmt: {
		{[]string{"s"}, []string{`null`, `[1]`, `[]`}},
		{[]string{"h", "H"}, []string{`"0aff"`, `"AQID"`, `null`, `"0AFF"`}},
		{[]string{"m"}, []string{`null`, `{"k":1}`}},
		{[]string{"f", "F"}, []string{`"Infinity"`, `"-Infinity"`, `1.5`, `"1.5"`, `null`}},
	},
	shMethods: {
		{[]string{"m", "M"}, []string{`{"k":1}`, `{"k":{"X":2}}`, `null`, `{"k":1,"k":22}`}},
		{[]string{"i"}, []string{`1`, `null`, `{"X":3}`}},
		{[]string{"v", "V"}, []string{`1`, `{"X":1}`, `null`}},
		{[]string{"k"}, []string{`{"text":1}`, `{"keym":2}`, `null`, `{"a":1,"a":2}`}},
	},
	shCase: {
		{[]string{"fooBar", "FOOBAR", "foobar", "foo_bar", "FOO-BAR", "Foo_Bar", "fooBar_", "foo-bar"}, []string{`1`, `2`, `null`, `"s"`}},
		{[]string{"x", "X", "_x", "-X-"}, []string{`9`, `8`}},
		{[]string{"arr", "ARR", "a_rr"}, []string{`[1]`, `[1,2]`, `[1,2,3]`, `null`, `[]`}},
	},
	shBadStruct: {
		{[]string{"a", "A"}, []string{`1`, `2`}},
		{[]string{"c", "b", "B"}, []string{`5`}},
	},
	shAnyMap: {
		{[]string{"k", "a", "<"}, []string{`1`, `"s"`, `[1,{"k":2}]`, `{"k":1,"k":2}`, `null`, `1e400`, `"a\ud800"`}},
	},
	shTinySlice: {},
}

// genText draws a JSON text aimed at the shape.
func genText(t *rapid.T, shape int) []byte {
	if shape == shTinySlice {
		return []byte(rapid.SampledFrom([]string{`[1,2]`, `[]`, `null`, `[300]`, `["1"]`, `[1,null]`, `[1 , 2]x`, `{}`}).Draw(t, "tinytext"))
	}
	if rapid.IntRange(0, 24).Draw(t, "nonobject") == 0 {
		return []byte(rapid.SampledFrom(junkVals).Draw(t, "top"))
	}
	ms := shapeMembers[shape]
	n := rapid.IntRange(0, 3).Draw(t, "nmembers")
	var sb strings.Builder
	sb.WriteString(rapid.SampledFrom([]string{"", "", " "}).Draw(t, "lead"))
	sb.WriteByte('{')
	var prev string
	for i := 0; i < n; i++ {
		if i > 0 {
			sb.WriteByte(',')
		}
		m := rapid.SampledFrom(ms).Draw(t, "member")
		name := m.names[0]
		switch rapid.IntRange(0, 9).Draw(t, "namevariant") {
		case 0, 1, 2:
			name = rapid.SampledFrom(m.names).Draw(t, "name")
		case 3:
			if prev != "" {
				name = prev // duplicate name
			}
		}
		prev = name
		val := ""
		if rapid.IntRange(0, 19).Draw(t, "junk") == 0 {
			val = rapid.SampledFrom(junkVals).Draw(t, "junkval")
		} else {
			val = rapid.SampledFrom(m.vals).Draw(t, "val")
		}
		sb.WriteString(`"` + name + `":` + val)
	}
	sb.WriteByte('}')
	sb.WriteString(rapid.SampledFrom([]string{"", "", "", "", "", "", "", "\n", " ", " x", "}"}).Draw(t, "trail"))
	return []byte(sb.String())
}

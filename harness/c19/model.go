package c19

import "sort"

// The reference model: Options "can be functionally thought of as a Go map of
// option properties" (options.go). Keys are constructor names.

// mval is a model value: B for boolean options, S for WithIndent /
// WithIndentPrefix (the string) and With(Un)marshalers (nil|m1|m2|u1|u2).
type mval struct {
	B bool
	S string
}

// Model is the last-wins map.
type Model map[string]mval

// v1Keys is the documented content of v1.DefaultOptionsV1 (v1/options.go):
// these 21 options true, "all other options are not present".
// json.DefaultOptionsV2 is "the set of options in DefaultOptionsV1 all being
// set to false. All other options are not present".
var v1Keys = []string{
	"v1.CallMethodsWithLegacySemantics",
	"v1.FormatByteArrayAsArray",
	"v1.FormatBytesWithLegacySemantics",
	"v1.FormatDurationAsNano",
	"v1.MatchCaseSensitiveDelimiter",
	"v1.MergeWithLegacySemantics",
	"v1.OmitEmptyWithLegacySemantics",
	"v1.ParseBytesWithLooseRFC4648",
	"v1.ParseTimeWithLooseRFC3339",
	"v1.ReportErrorsWithLegacySemantics",
	"v1.StringifyWithLegacySemantics",
	"v1.UnmarshalArrayFromAnyLength",
	"json.Deterministic",
	"json.FormatNilMapAsNull",
	"json.FormatNilSliceAsNull",
	"json.MatchCaseInsensitiveNames",
	"jsontext.AllowDuplicateNames",
	"jsontext.AllowInvalidUTF8",
	"jsontext.EscapeForHTML",
	"jsontext.EscapeForJS",
	"jsontext.PreserveRawStrings",
}

var isV1Key = func() map[string]bool {
	m := map[string]bool{}
	for _, k := range v1Keys {
		m[k] = true
	}
	return m
}()

// single returns the one-option map a constructor call stands for.
func single(o Opt) Model {
	m := Model{}
	switch o.Name {
	case "nil":
	case nameV1:
		for _, k := range v1Keys {
			m[k] = mval{B: true}
		}
	case nameV2:
		for _, k := range v1Keys {
			m[k] = mval{B: false}
		}
	case keyIndent, keyPrefix:
		// "Use of this option implies Multiline being set to true."
		m[o.Name] = mval{S: o.Arg}
		m[keyMulti] = mval{B: true}
	case keyMarsh, keyUnmarsh:
		m[o.Name] = mval{S: o.Arg}
	case "Join":
		return join(o.Kids)
	default:
		m[o.Name] = mval{B: o.Arg == "true"}
	}
	return m
}

// join is the documented JoinOptions: make a new map and copy the options
// over, in order. overwrites (optional) counts keys that were re-set to a
// different value.
func join(seq []Opt) Model {
	m, _ := joinCount(seq)
	return m
}

func joinCount(seq []Opt) (Model, int) {
	out := Model{}
	over := 0
	for _, o := range seq {
		var sub Model
		switch {
		case o.Name == "Join":
			var n int
			sub, n = joinCount(o.Kids)
			over += n
		case o.Name == "nil":
			continue
		default:
			sub = single(o)
		}
		for k, v := range sub {
			if old, ok := out[k]; ok && old != v {
				over++
			}
			out[k] = v
		}
	}
	return out, over
}

// String prints the map in key order.
func (m Model) String() string {
	return seqString(m.canonical()) // canonical() reproduces m exactly (checked by the self-test)
}

func (m Model) keys() []string {
	ks := make([]string, 0, len(m))
	for k := range m {
		ks = append(ks, k)
	}
	sort.Strings(ks)
	return ks
}

// project keeps only the keys for which keep reports true.
func (m Model) project(keep func(string) bool) Model {
	out := Model{}
	for k, v := range m {
		if keep(k) {
			out[k] = v
		}
	}
	return out
}

// canonical spells the model as a flat sequence with one constructor per
// present key, in a fixed order, that the model maps back to m exactly.
// WithIndent/WithIndentPrefix come first (they set Multiline), then
// Multiline with its final value, then everything else.
func (m Model) canonical() []Opt {
	var seq []Opt
	if v, ok := m[keyIndent]; ok {
		seq = append(seq, Opt{Name: keyIndent, Arg: v.S})
	}
	if v, ok := m[keyPrefix]; ok {
		seq = append(seq, Opt{Name: keyPrefix, Arg: v.S})
	}
	for _, k := range m.keys() {
		v := m[k]
		switch k {
		case keyIndent, keyPrefix:
		case keyMarsh, keyUnmarsh:
			seq = append(seq, Opt{Name: k, Arg: v.S})
		default:
			arg := "false"
			if v.B {
				arg = "true"
			}
			seq = append(seq, Opt{Name: k, Arg: arg})
		}
	}
	return seq
}

func (m Model) equal(o Model) bool {
	if len(m) != len(o) {
		return false
	}
	for k, v := range m {
		if w, ok := o[k]; !ok || w != v {
			return false
		}
	}
	return true
}

package c19

import (
	"fmt"
	"strings"

	"verif/harness/rt"
)

// Findings on the unchanged tree (see regression/C19/):
//
// nil-arshalers-interface (fixed in /repo by 752bd5d, no longer excluded by the
// generators; the classifier only labels a reappearance):
// json.WithMarshalers(nil) / json.WithUnmarshalers(nil) in effect made Marshal / Unmarshal of any interface-typed value panic with
// a nil pointer dereference (arshal_default.go: `mo.Marshalers == nil ||
// !mo.Marshalers.(*Marshalers).fromAny` compares an interface holding a typed
// nil pointer with nil).
//
// late-multiline-defaults (fixed in /repo by 2f4bcf9, no longer excluded by the
// generators; the classifier only labels a reappearance): Value.Compact / Canonicalize / Indent are
// documented as Format(initial set, caller's options...), but the caller's
// options are joined after the encoder was reset, so the defaults implied by
// Multiline (SpaceAfterColon true, indent "\t") are computed from the initial
// set only.
const (
	kfNilArshalers   = "nil-arshalers-interface"
	kfLateMultiline  = "late-multiline-defaults"
	nilDerefFragment = "nil pointer dereference"
)

func shapeHasInterface(shape int) bool {
	switch shape % nShapes {
	case shBasic, shMethods, shAnyMap:
		return true
	}
	return false
}

// nilArshalersInEffect: the map holds a present-but-nil Marshalers (marshal)
// or Unmarshalers (unmarshal).
func nilArshalersInEffect(kind string, m Model) bool {
	switch kind {
	case "marshal":
		v, ok := m[keyMarsh]
		return ok && v.S == "nil"
	case "unmarshal":
		v, ok := m[keyUnmarsh]
		return ok && v.S == "nil"
	}
	return false
}

func isNilDeref(p *rt.PanicErr) bool {
	return p != nil && strings.Contains(fmt.Sprint(p.Val), nilDerefFragment)
}

// lateMultiline is the exact condition under which the implementation of
// Compact/Canonicalize/Indent differs from the documented Format call; m is
// the map of the caller's options.
func lateMultiline(op string, m Model) bool {
	multi, hasMulti := m[keyMulti]
	_, hasColon := m["jsontext.SpaceAfterColon"]
	_, hasIndent := m[keyIndent]
	switch op {
	case "compact", "canonicalize":
		return hasMulti && multi.B && (!hasColon || !hasIndent)
	case "indent":
		return hasMulti && !multi.B && !hasColon
	}
	return false
}

package c19

import (
	"bytes"
	stdjson "encoding/json"
	"fmt"
	"reflect"

	"github.com/go-json-experiment/json"
	"github.com/go-json-experiment/json/jsontext"
	v1 "github.com/go-json-experiment/json/v1"
	"pgregory.net/rapid"

	"verif/harness/cov"
	"verif/harness/gen"
	"verif/harness/rt"
)

// BCase is one behavioural case: an operation, its input and an option
// sequence.
type BCase struct {
	Op    string `json:"op"`
	Seq   []Opt  `json:"seq"`
	Text  []byte `json:"text,omitempty"`
	Val   Val    `json:"val"`
	Split int    `json:"split"`
}

// Documented relevance (jsontext/options.go, options.go, v1/options.go,
// Value.IsValid, Value.Format, Marshal, Unmarshal).
var (
	decodeKeys = []string{"jsontext.AllowDuplicateNames", "jsontext.AllowInvalidUTF8"}
	coderKeys  = []string{"jsontext.AllowDuplicateNames", "jsontext.AllowInvalidUTF8", "jsontext.EscapeForHTML", "jsontext.EscapeForJS",
		"jsontext.PreserveRawStrings", "jsontext.CanonicalizeRawInts", "jsontext.CanonicalizeRawFloats", "jsontext.ReorderRawObjects",
		"jsontext.SpaceAfterColon", "jsontext.SpaceAfterComma", keyMulti, keyIndent, keyPrefix}
	whitespaceKeys = []string{"jsontext.SpaceAfterColon", "jsontext.SpaceAfterComma", keyMulti, keyIndent, keyPrefix}
	// "This only affects unmarshaling and is ignored when marshaling."
	unmarshalOnly = []string{"json.RejectUnknownMembers", keyUnmarsh, "v1.MergeWithLegacySemantics", "v1.ParseBytesWithLooseRFC4648",
		"v1.ParseTimeWithLooseRFC3339", "v1.UnmarshalArrayFromAnyLength"}
	// "This only affects marshaling and is ignored when unmarshaling."
	marshalOnly = []string{"json.Deterministic", "json.FormatNilSliceAsNull", "json.FormatNilMapAsNull", "json.OmitZeroStructFields",
		keyMarsh, "v1.OmitEmptyWithLegacySemantics"}
)

func setOf(keys ...[]string) map[string]bool {
	m := map[string]bool{}
	for _, ks := range keys {
		for _, k := range ks {
			m[k] = true
		}
	}
	return m
}

var (
	decodeSet        = setOf(decodeKeys)
	coderSet         = setOf(coderKeys)
	whitespaceSet    = setOf(whitespaceKeys)
	notForMarshal    = setOf(unmarshalOnly)
	notForUnmarshal  = setOf(marshalOnly, coderKeys[2:]) // marshal-only and encode-only options
	relevantByOpKind = map[string]func(string) bool{
		"decode":    func(k string) bool { return decodeSet[k] },
		"encode":    func(k string) bool { return coderSet[k] },
		"marshal":   func(k string) bool { return !notForMarshal[k] },
		"unmarshal": func(k string) bool { return !notForUnmarshal[k] },
	}
)

var opKind = map[string]string{
	"isvalid": "decode", "decoder": "decode",
	"format": "encode", "appendformat": "encode", "compact": "encode", "indent": "encode", "canonicalize": "encode", "encoder": "encode",
	"marshal": "marshal", "marshalwrite": "marshal", "marshalencode": "marshal",
	"unmarshal": "unmarshal", "unmarshalread": "unmarshal", "unmarshaldecode": "unmarshal",
	"v1marshal": "marshal", "v1unmarshal": "unmarshal", "v2cancel-marshal": "marshal", "v2cancel-unmarshal": "unmarshal",
}

var textOps = []string{"isvalid", "decoder", "format", "appendformat", "compact", "indent", "canonicalize", "encoder"}
var marshalOps = []string{"marshal", "marshal", "marshalwrite", "marshalencode"}
var unmarshalOps = []string{"unmarshal", "unmarshal", "unmarshalread", "unmarshaldecode"}

// result of an operation under one spelling of the options.
type result struct {
	Out   []byte // output bytes / token trace
	Value any    // unmarshal target afterwards
	Err   string // "" or the dynamic type of the error
	Flag  bool   // IsValid verdict
}

func errType(err error) string {
	if err == nil {
		return ""
	}
	return fmt.Sprintf("%T", err)
}

func (r result) equal(o result) bool {
	return bytes.Equal(r.Out, o.Out) && r.Err == o.Err && r.Flag == o.Flag && reflect.DeepEqual(r.Value, o.Value)
}

func dump(v any) string {
	if v == nil {
		return ""
	}
	b, err := stdjson.Marshal(v)
	if err != nil {
		return fmt.Sprintf("%+v", v)
	}
	return string(b)
}

func (r result) String() string {
	s := fmt.Sprintf("{out=%q err=%q", r.Out, r.Err)
	if r.Value != nil {
		s += " value=" + dump(r.Value)
	}
	if r.Flag {
		s += " valid"
	}
	return s + "}"
}

// perform runs op with the given options (first[...] go to the coder where the
// operation has one, the rest to the call).
func perform(c BCase, opts []json.Options, split int, manyKeys bool) (res result, perr *rt.PanicErr) {
	perr = rt.Guard(func() {
		switch c.Op {
		case "isvalid":
			res.Flag = jsontext.Value(c.Text).IsValid(opts...)
		case "decoder":
			d := jsontext.NewDecoder(bytes.NewReader(c.Text), opts...)
			for i := 0; i < 4*len(c.Text)+4; i++ {
				tok, err := d.ReadToken()
				if err != nil {
					res.Err = errType(err)
					res.Out = fmt.Appendf(res.Out, "|@%d", d.InputOffset())
					break
				}
				res.Out = append(res.Out, byte(tok.Kind()))
				if tok.Kind() == '"' {
					res.Out = fmt.Appendf(res.Out, "%q", tok.String())
				} else if tok.Kind() == '0' {
					res.Out = append(res.Out, tok.String()...)
				}
			}
		case "format", "compact", "indent", "canonicalize":
			v := jsontext.Value(bytes.Clone(c.Text))
			var err error
			switch c.Op {
			case "format":
				err = v.Format(opts...)
			case "compact":
				err = v.Compact(opts...)
			case "indent":
				err = v.Indent(opts...)
			default:
				err = v.Canonicalize(opts...)
			}
			res.Out, res.Err = v, errType(err)
		case "appendformat":
			out, err := jsontext.AppendFormat([]byte("pre"), c.Text, opts...)
			res.Out, res.Err = out, errType(err)
		case "encoder":
			var buf bytes.Buffer
			e := jsontext.NewEncoder(&buf, opts...)
			err := e.WriteValue(jsontext.Value(c.Text))
			if err == nil {
				err = e.WriteToken(jsontext.String("a< \xff"))
			}
			res.Out, res.Err = buf.Bytes(), errType(err)
		case "marshal", "v1marshal", "v2cancel-marshal":
			out, err := json.Marshal(mkValue(c.Val, manyKeys), opts...)
			res.Out, res.Err = out, errType(err)
		case "marshalwrite":
			var buf bytes.Buffer
			err := json.MarshalWrite(&buf, mkValue(c.Val, manyKeys), opts...)
			res.Out, res.Err = buf.Bytes(), errType(err)
		case "marshalencode":
			var buf bytes.Buffer
			e := jsontext.NewEncoder(&buf, opts[:split]...)
			err := json.MarshalEncode(e, mkValue(c.Val, manyKeys), opts[split:]...)
			res.Out, res.Err = buf.Bytes(), errType(err)
		case "unmarshal", "v1unmarshal", "v2cancel-unmarshal":
			target := mkValue(c.Val, true)
			err := json.Unmarshal(c.Text, target, opts...)
			res.Value, res.Err = target, errType(err)
		case "unmarshalread":
			target := mkValue(c.Val, true)
			err := json.UnmarshalRead(bytes.NewReader(c.Text), target, opts...)
			res.Value, res.Err = target, errType(err)
		case "unmarshaldecode":
			target := mkValue(c.Val, true)
			d := jsontext.NewDecoder(bytes.NewReader(c.Text), opts[:split]...)
			err := json.UnmarshalDecode(d, target, opts[split:]...)
			res.Value, res.Err = target, errType(err)
			res.Out = fmt.Appendf(nil, "@%d", d.InputOffset())
		default:
			panic("harness: unknown op " + c.Op)
		}
	})
	return res, perr
}

// leftNest / rightNest spell a flat list as nested JoinOptions.
func rightNest(leaves []json.Options) json.Options {
	var r json.Options
	for i := len(leaves) - 1; i >= 0; i-- {
		if i == len(leaves)-1 {
			r = json.JoinOptions(leaves[i])
		} else {
			r = json.JoinOptions(leaves[i], r)
		}
	}
	return r
}

// RunBehave decides one behavioural case.
func RunBehave(c BCase) error {
	rec.Eval()
	kind, ok := opKind[c.Op]
	if !ok {
		return fmt.Errorf("harness: unknown op %q", c.Op)
	}
	switch c.Op {
	case "v1marshal", "v1unmarshal":
		return runV1(c)
	case "v2cancel-marshal", "v2cancel-unmarshal":
		return runV2Cancel(c)
	}
	model, over := joinCount(c.Seq)
	flat := flatten(c.Seq)
	depth := nestDepth(c.Seq)
	proj := model.project(relevantByOpKind[kind])
	canon := proj.canonical()
	if !join(canon).equal(proj) {
		return fmt.Errorf("harness: canonical spelling does not reproduce the projected model for %s", seqString(c.Seq))
	}
	manyKeys := proj["json.Deterministic"].B

	raw, _ := stdjson.Marshal(c.Seq)
	fp := cov.FP([]byte(c.Op), raw)
	if over > 0 || depth > 0 {
		rec.NonTrivial(fp)
		rec.Sample(fp, func() any {
			return map[string]any{"check": "behaviour", "op": c.Op, "sequence": seqString(c.Seq), "relevant_projection": seqString(canon), "text": string(c.Text), "shape": shapeNames[c.Val.Shape%nShapes]}
		})
	}
	classify("behave", c.Seq, flat, over, depth)
	rec.Class("behave:op=" + c.Op)
	if len(proj) < len(model) {
		rec.Class("behave:has-irrelevant-options")
	}
	if len(proj) > 0 {
		rec.Class("behave:has-relevant-options")
	}

	given, err := buildAll(c.Seq)
	if err != nil {
		return err
	}
	leaves, err := buildAll(flat)
	if err != nil {
		return err
	}
	canonOpts, err := buildAll(canon)
	if err != nil {
		return err
	}
	split := 0
	if c.Op == "marshalencode" || c.Op == "unmarshaldecode" {
		if c.Split > 0 && len(given) > 0 {
			split = c.Split % (len(given) + 1)
		}
	}

	// reference spelling: the sequence as given, passed separately
	base, p := perform(c, given, split, manyKeys)
	if p != nil {
		err := fmt.Errorf("%s panicked with options %s: %v", c.Op, seqString(c.Seq), p)
		if isNilDeref(p) && nilArshalersInEffect(kind, model) && shapeHasInterface(c.Val.Shape) {
			return rt.Known(kfNilArshalers, err)
		}
		return err
	}
	classifyResult(c, base, proj)

	type spelling struct {
		name  string
		opts  []json.Options
		split int
	}
	joined := json.JoinOptions(given...)
	sp := []spelling{
		{"one JoinOptions(seq...) value", []json.Options{joined}, 0},
		{"right-nested JoinOptions of the flattened sequence", []json.Options{rightNest(leaves)}, 0},
		{"the map projected onto the options documented as relevant (" + seqString(canon) + ")", canonOpts, 0},
	}
	if split > 0 {
		// coder gets the joined prefix, the call gets the joined suffix
		sp = append(sp, spelling{"joined prefix on the coder, joined suffix on the call",
			[]json.Options{json.JoinOptions(given[:split]...), json.JoinOptions(given[split:]...)}, 1})
	}
	// Changing whitespace within MarshalEncode is refused by the
	// implementation (errChangingWhitespace, go.dev/issue/79559): spellings
	// that distribute the options differently between encoder and call are
	// only compared when no whitespace option is involved, and the result
	// is only compared with Marshal when none is passed to the call.
	wsAny := hasWS(model)
	wsCall := c.Op == "marshalencode" && hasWS(join(c.Seq[split:]))
	for _, s := range sp {
		if c.Op == "marshalencode" && split > 0 && s.split == 0 && wsAny {
			continue
		}
		r, p := perform(c, s.opts, s.split, manyKeys)
		if p != nil {
			return fmt.Errorf("%s panicked with options spelled as %s (sequence %s): %v", c.Op, s.name, seqString(c.Seq), p)
		}
		if !r.equal(base) {
			return fmt.Errorf("%s gives different results for equivalent option spellings.\n sequence (passed separately) %s -> %s\n spelled as %s -> %s\n input text=%q shape=%s val=%s",
				c.Op, seqString(c.Seq), base, s.name, r, c.Text, shapeNames[c.Val.Shape%nShapes], dump(c.Val))
		}
	}

	// documented equivalences between operations
	switch c.Op {
	case "compact", "indent", "canonicalize":
		var pre []json.Options
		switch c.Op {
		case "compact":
			pre = []json.Options{jsontext.AllowDuplicateNames(true), jsontext.AllowInvalidUTF8(true), jsontext.PreserveRawStrings(true)}
		case "indent":
			pre = []json.Options{jsontext.AllowDuplicateNames(true), jsontext.AllowInvalidUTF8(true), jsontext.PreserveRawStrings(true), jsontext.Multiline(true)}
		default:
			pre = []json.Options{jsontext.CanonicalizeRawInts(true), jsontext.CanonicalizeRawFloats(true), jsontext.ReorderRawObjects(true)}
		}
		c2 := c
		c2.Op = "format"
		r, p := perform(c2, append(pre, given...), 0, manyKeys)
		if p != nil {
			return fmt.Errorf("Format panicked: %v", p)
		}
		if !r.equal(base) && lateMultiline(c.Op, model) {
			return rt.Known(kfLateMultiline, fmt.Errorf("Value.%s(opts) differs from Value.Format(documented initial set, opts...): %s vs %s; opts %s text %q", c.Op, base, r, seqString(c.Seq), c.Text))
		}
		if !r.equal(base) {
			return fmt.Errorf("Value.%s(opts) differs from Value.Format(documented initial set, opts...): %s vs %s; opts %s text %q", c.Op, base, r, seqString(c.Seq), c.Text)
		}
	case "marshalwrite", "marshalencode":
		if wsCall {
			rec.Class("behave:marshalencode-whitespace-call-option(not-compared-with-Marshal)")
			break
		}
		c2 := c
		c2.Op = "marshal"
		r, p := perform(c2, given, 0, manyKeys)
		if p != nil {
			return fmt.Errorf("Marshal panicked: %v", p)
		}
		want := r
		if c.Op == "marshalencode" && r.Err == "" {
			want.Out = append(bytes.Clone(r.Out), '\n')
		}
		if r.Err == "" && !want.equal(base) {
			return fmt.Errorf("%s (options split at %d between encoder and call) differs from Marshal with the same options: %s vs Marshal %s; opts %s val %s", c.Op, split, base, r, seqString(c.Seq), dump(c.Val))
		}
		if (r.Err == "") != (base.Err == "") {
			return fmt.Errorf("%s and Marshal disagree on failure: %s vs Marshal %s; opts %s val %s", c.Op, base, r, seqString(c.Seq), dump(c.Val))
		}
	case "unmarshalread", "unmarshaldecode":
		c2 := c
		c2.Op = "unmarshal"
		r, p := perform(c2, given, 0, manyKeys)
		if p != nil {
			return fmt.Errorf("Unmarshal panicked: %v", p)
		}
		if r.Err == "" {
			// a text Unmarshal accepts is one value: the other entry points must agree
			if base.Err != "" || !reflect.DeepEqual(r.Value, base.Value) {
				return fmt.Errorf("%s (options split at %d between decoder and call) differs from Unmarshal with the same options: %s vs Unmarshal %s; opts %s text %q", c.Op, split, base, r, seqString(c.Seq), c.Text)
			}
		}
	}
	return nil
}

func classifyResult(c BCase, r result, proj Model) {
	ok := r.Err == ""
	switch c.Op {
	case "isvalid":
		ok = r.Flag
	case "decoder":
		ok = r.Err == "*errors.errorString" // io.EOF after the last token
	}
	if ok {
		rec.Class("behave:" + opKind[c.Op] + ":ok")
	} else {
		rec.Class("behave:" + opKind[c.Op] + ":error")
	}
}

// ---- part 4: v1 == v2 + DefaultOptionsV1; DefaultOptionsV2 cancels ----

func runV1(c BCase) error {
	fp := cov.FP([]byte(c.Op), c.Text, []byte(dump(c.Val)))
	rec.Class("v1:op=" + c.Op)
	var a, b result
	var p *rt.PanicErr
	if c.Op == "v1marshal" {
		p = rt.Guard(func() {
			out, err := v1.Marshal(mkValue(c.Val, true))
			a = result{Out: out, Err: errType(err)}
		})
		if p != nil {
			return fmt.Errorf("v1.Marshal panicked: %v", p)
		}
		b, p = perform(c, []json.Options{v1.DefaultOptionsV1()}, 0, true)
	} else {
		p = rt.Guard(func() {
			target := mkValue(c.Val, true)
			err := v1.Unmarshal(c.Text, target)
			a = result{Value: target, Err: errType(err)}
		})
		if p != nil {
			return fmt.Errorf("v1.Unmarshal panicked: %v", p)
		}
		b, p = perform(c, []json.Options{v1.DefaultOptionsV1()}, 0, true)
	}
	if p != nil {
		return fmt.Errorf("v2 call with DefaultOptionsV1 panicked: %v", p)
	}
	if a.Err == "" {
		rec.Class("v1:ok")
	} else {
		rec.Class("v1:error")
	}
	rec.Sample(fp, func() any {
		return map[string]any{"check": "v1-equals-v2-plus-DefaultOptionsV1", "op": c.Op, "text": string(c.Text), "shape": shapeNames[c.Val.Shape%nShapes], "v1_result": a.String()}
	})
	if !a.equal(b) {
		return fmt.Errorf("%s: the v1 function and the v2 function with DefaultOptionsV1 differ: v1 %s, v2+DefaultOptionsV1 %s; text %q val %s", c.Op, a, b, c.Text, dump(c.Val))
	}
	return nil
}

// runV2Cancel: f(x, seq..., DefaultOptionsV2()) equals f(x, rest...) where
// rest is the sequence's model without the 21 keys of DefaultOptionsV1 (the
// plain v2 call when the sequence only holds v1 options).
func runV2Cancel(c BCase) error {
	model, over := joinCount(c.Seq)
	flat := flatten(c.Seq)
	depth := nestDepth(c.Seq)
	kind := opKind[c.Op]
	rest := model.project(func(k string) bool { return !isV1Key[k] }).project(relevantByOpKind[kind])
	canon := rest.canonical()
	raw, _ := stdjson.Marshal(c.Seq)
	fp := cov.FP([]byte(c.Op), raw)
	if over > 0 || depth > 0 {
		rec.NonTrivial(fp)
	}
	classify("v2cancel", c.Seq, flat, over, depth)
	rec.Class("v2cancel:op=" + c.Op)
	if len(rest) == 0 {
		rec.Class("v2cancel:equals-plain-v2-call")
	}
	v1set := 0
	for k, v := range model {
		if isV1Key[k] && v.B {
			v1set++
		}
	}
	if v1set > 0 {
		rec.Class("v2cancel:cancels-true-v1-options")
	}
	given, err := buildAll(c.Seq)
	if err != nil {
		return err
	}
	canonOpts, err := buildAll(canon)
	if err != nil {
		return err
	}
	manyKeys := rest["json.Deterministic"].B // always false: Deterministic is one of the 21
	a, p := perform(c, append(given, json.DefaultOptionsV2()), 0, manyKeys)
	var b result
	if p == nil {
		b, p = perform(c, canonOpts, 0, manyKeys)
	}
	if p != nil {
		err := fmt.Errorf("%s panicked with %s: %v", c.Op, seqString(c.Seq), p)
		if isNilDeref(p) && nilArshalersInEffect(kind, model) && shapeHasInterface(c.Val.Shape) {
			return rt.Known(kfNilArshalers, err)
		}
		return err
	}
	if a.Err == "" {
		rec.Class("v2cancel:ok")
	} else {
		rec.Class("v2cancel:error")
	}
	rec.Sample(fp, func() any {
		return map[string]any{"check": "DefaultOptionsV2-cancels-v1-options", "op": c.Op, "sequence": seqString(c.Seq), "remaining": seqString(canon), "text": string(c.Text), "shape": shapeNames[c.Val.Shape%nShapes]}
	})
	if !a.equal(b) {
		return fmt.Errorf("%s: appending DefaultOptionsV2 does not cancel the v1 options: with %s + DefaultOptionsV2 -> %s; with only the remaining options %s -> %s; text %q val %s",
			c.Op, seqString(c.Seq), a, seqString(canon), b, c.Text, dump(c.Val))
	}
	return nil
}

// ---- generators ----

func genBehaveSeq(t *rapid.T) []Opt {
	focus := genFocus(t)
	depth := rapid.IntRange(0, 2).Draw(t, "maxdepth")
	n := rapid.IntRange(0, 8).Draw(t, "leaves")
	return genSeq(t, n, depth, focus)
}

func genDocText(t *rapid.T) []byte {
	cfg := gen.DocCfg{WS: true, Dups: rapid.Bool().Draw(t, "dups"), BadUTF8: rapid.IntRange(0, 3).Draw(t, "badutf8") == 0, MaxDepth: 3, MaxWidth: 4}
	if rapid.IntRange(0, 5).Draw(t, "anytext") == 0 {
		return gen.Text(t, cfg)
	}
	return gen.Doc(t, cfg)
}

func genBehave(t *rapid.T) BCase {
	c := BCase{Seq: genBehaveSeq(t), Split: rapid.IntRange(0, 8).Draw(t, "split")}
	switch rapid.IntRange(0, 9).Draw(t, "family") {
	case 0, 1, 2:
		c.Op = rapid.SampledFrom(textOps).Draw(t, "op")
		c.Text = genDocText(t)
	case 3, 4, 5, 6:
		c.Op = rapid.SampledFrom(marshalOps).Draw(t, "op")
		c.Val = genVal(t)
	default:
		c.Op = rapid.SampledFrom(unmarshalOps).Draw(t, "op")
		c.Val = genVal(t)
		c.Text = genText(t, c.Val.Shape)
	}
	return c
}

func genV1(t *rapid.T) BCase {
	c := BCase{Val: genVal(t)}
	if rapid.Bool().Draw(t, "unmarshal") {
		c.Op = "v1unmarshal"
		c.Text = genText(t, c.Val.Shape)
	} else {
		c.Op = "v1marshal"
	}
	return c
}

// v1Atoms are the constructors of the 21 options in DefaultOptionsV1.
var v1Atoms = func() []Opt {
	var as []Opt
	for _, a := range atoms {
		if isV1Key[a.Name] || a.Name == nameV1 {
			as = append(as, a)
		}
	}
	return as
}()

func genV2Cancel(t *rapid.T) BCase {
	c := BCase{Val: genVal(t)}
	if rapid.Bool().Draw(t, "unmarshal") {
		c.Op = "v2cancel-unmarshal"
		c.Text = genText(t, c.Val.Shape)
	} else {
		c.Op = "v2cancel-marshal"
	}
	n := rapid.IntRange(1, 6).Draw(t, "leaves")
	onlyV1 := rapid.IntRange(0, 2).Draw(t, "onlyv1") > 0
	var seq []Opt
	for i := 0; i < n; i++ {
		var o Opt
		if onlyV1 || rapid.Bool().Draw(t, "v1atom") {
			o = rapid.SampledFrom(v1Atoms).Draw(t, "atom")
			if o.Name != nameV1 && rapid.IntRange(0, 3).Draw(t, "settrue") > 0 {
				o.Arg = "true"
			}
		} else {
			o = genLeaf(t, nil)
		}
		seq = append(seq, o)
	}
	if rapid.IntRange(0, 3).Draw(t, "nest") == 0 {
		k := rapid.IntRange(0, len(seq)).Draw(t, "cut")
		seq = append([]Opt{{Name: "Join", Kids: append([]Opt{}, seq[:k]...)}}, seq[k:]...)
	}
	c.Seq = seq
	return c
}

package c20

// The four findings below were established by this package on the pinned tree and have since been
// repaired in /repo (fix: 841429a, 3f98868, 4748d28, 752bd5d). Their shapes are therefore generated
// again and must pass; the classifiers stay in the code only to label a reappearance (they are not
// listed in known_findings.txt, so a reappearance is reported as a violation).
const (
	excludePointerOnlyCycle = false
	excludeEmptyFastPath    = false
	excludeV1IndentHang     = false
	excludeNilMarshalers    = false
)

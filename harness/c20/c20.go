// Package c20 decides property C20: resource use is bounded — the nesting
// limit of 10000 is enforced (10000 accepted, 10001 refused with an error) on
// every path, cyclic Go values make Marshal return an error instead of
// recursing without bound, and no input / value / call sequence makes the
// library panic or hang (documented API misuse aside, which is never performed
// here).
package c20

import (
	"bytes"
	"fmt"
	"strconv"
	"strings"

	"github.com/go-json-experiment/json/jsontext"

	"verif/harness/cov"
)

var rec = cov.New()

// MaxDepth is the documented nesting limit.
const MaxDepth = 10000

// ---------------------------------------------------------------------------
// Tower builder: one source of truth for a deep document as text, as a token
// list and (govals.go) as a Go value.

// lvl describes one nesting level of a tower (level 1 is the outermost).
type lvl struct {
	obj  bool // JSON object (else array)
	strs bool // string-heavy siblings before and after the child
}

// tk is one token of a tower (pointer-free to keep the GC out of the way).
type tk struct {
	k byte  // [ ] { } " 0 ; 'w' = name of the n-th wide member
	s uint8 // index into tkStrings for '"'
	n int32 // value for '0' / index for 'w'
}

const (
	nameChild = "m" // member name of the child container
	nameTwin  = "n" // member name of the second (twin) child
	namePad   = "a" // member name of the leading string sibling
	nameTail  = "z" // member name of the trailing string sibling
	padStr    = "pad-é\"\\\n0123456789" // needs escaping, multi-byte
	tailStr   = "t"
)

const (
	sChild = iota
	sTwin
	sPad
	sTail
	sPadStr
	sTailStr
)

var tkStrings = [...]string{sChild: nameChild, sTwin: nameTwin, sPad: namePad, sTail: nameTail, sPadStr: padStr, sTailStr: tailStr}

var padLit = func() string {
	// JSON literal of padStr in minimal form.
	var sb strings.Builder
	sb.WriteByte('"')
	for _, r := range padStr {
		switch r {
		case '"':
			sb.WriteString(`\"`)
		case '\\':
			sb.WriteString(`\\`)
		case '\n':
			sb.WriteString(`\n`)
		default:
			sb.WriteRune(r)
		}
	}
	sb.WriteByte('"')
	return sb.String()
}()

// tower is a built document, cut into prefix (levels 1..k), value (levels
// k+1..d, a complete JSON value) and suffix (closers of levels k..1).
type tower struct {
	pre, val, post             []tk
	preText, valText, postText []byte
	sepToks                    []tk   // tokens between the twin values (a member name if level k is an object)
	sepText                    []byte // text between the twin values
	all                        []byte
	allToks                    []tk
}

type towerSpec struct {
	levels []lvl
	wide   int    // number of scalar members/elements in the innermost container
	sp     string // whitespace inserted after [ { , : and before ] }

	objPad, objChild, arrPad, objTail, arrTail string // per-level literals (set by build)
}

type towerBuf struct {
	b    []byte
	toks []tk
}

func (s towerSpec) open(w *towerBuf, l lvl) {
	sp := s.sp
	if l.obj {
		w.b = append(w.b, '{')
		w.b = append(w.b, sp...)
		w.toks = append(w.toks, tk{k: '{'})
		if l.strs {
			w.b = append(w.b, s.objPad...)
			w.toks = append(w.toks, tk{k: '"', s: sPad}, tk{k: '"', s: sPadStr})
		}
		w.b = append(w.b, s.objChild...)
		w.toks = append(w.toks, tk{k: '"', s: sChild})
	} else {
		w.b = append(w.b, '[')
		w.b = append(w.b, sp...)
		w.toks = append(w.toks, tk{k: '['})
		if l.strs {
			w.b = append(w.b, s.arrPad...)
			w.toks = append(w.toks, tk{k: '"', s: sPadStr})
		}
	}
}

func (s towerSpec) close(w *towerBuf, l lvl) {
	sp := s.sp
	if l.obj {
		if l.strs {
			w.b = append(w.b, s.objTail...)
			w.toks = append(w.toks, tk{k: '"', s: sTail}, tk{k: '"', s: sTailStr})
		}
		w.b = append(w.b, sp...)
		w.b = append(w.b, '}')
		w.toks = append(w.toks, tk{k: '}'})
	} else {
		if l.strs {
			w.b = append(w.b, s.arrTail...)
			w.toks = append(w.toks, tk{k: '"', s: sTailStr})
		}
		w.b = append(w.b, sp...)
		w.b = append(w.b, ']')
		w.toks = append(w.toks, tk{k: ']'})
	}
}

// innermost writes the innermost container (no child container).
func (s towerSpec) innermost(w *towerBuf, l lvl) {
	sp := s.sp
	first := true
	comma := func() {
		if !first {
			w.b = append(w.b, ',')
			w.b = append(w.b, sp...)
		}
		first = false
	}
	if l.obj {
		w.b = append(w.b, '{')
		w.toks = append(w.toks, tk{k: '{'})
		if l.strs {
			comma()
			w.b = append(w.b, `"`+namePad+`":`+sp+padLit...)
			w.toks = append(w.toks, tk{k: '"', s: sPad}, tk{k: '"', s: sPadStr})
		}
		for i := 0; i < s.wide; i++ {
			comma()
			w.b = append(w.b, `"`+wideName(i)+`":`+sp+strconv.Itoa(i)...)
			w.toks = append(w.toks, tk{k: 'w', n: int32(i)}, tk{k: '0', n: int32(i)})
		}
		if l.strs {
			comma()
			w.b = append(w.b, `"`+nameTail+`":`+sp+`"`+tailStr+`"`...)
			w.toks = append(w.toks, tk{k: '"', s: sTail}, tk{k: '"', s: sTailStr})
		}
		w.b = append(w.b, '}')
		w.toks = append(w.toks, tk{k: '}'})
	} else {
		w.b = append(w.b, '[')
		w.toks = append(w.toks, tk{k: '['})
		if l.strs {
			comma()
			w.b = append(w.b, padLit...)
			w.toks = append(w.toks, tk{k: '"', s: sPadStr})
		}
		for i := 0; i < s.wide; i++ {
			comma()
			w.b = append(w.b, strconv.Itoa(i)...)
			w.toks = append(w.toks, tk{k: '0', n: int32(i)})
		}
		if l.strs {
			comma()
			w.b = append(w.b, `"`+tailStr+`"`...)
			w.toks = append(w.toks, tk{k: '"', s: sTailStr})
		}
		w.b = append(w.b, ']')
		w.toks = append(w.toks, tk{k: ']'})
	}
}

// build cuts the tower after level k (0 <= k < len(levels)). All parts are
// slices of one buffer.
func (s towerSpec) build(k int) *tower {
	d := len(s.levels)
	if k < 0 || k >= d {
		panic("harness: bad cut")
	}
	sp := s.sp
	s.objPad = `"` + namePad + `":` + sp + padLit + `,` + sp
	s.objChild = `"` + nameChild + `":` + sp
	s.arrPad = padLit + `,` + sp
	s.objTail = `,` + sp + `"` + nameTail + `":` + sp + `"` + tailStr + `"`
	s.arrTail = `,` + sp + `"` + tailStr + `"`
	per := 8 + 4*len(sp)
	for _, l := range s.levels {
		if l.strs {
			per = len(s.objPad) + len(s.objTail) + len(s.objChild) + 8 + 4*len(sp)
			break
		}
	}
	w := &towerBuf{b: make([]byte, 0, d*per+s.wide*24+64), toks: make([]tk, 0, d*6+2*s.wide+8)}
	for i := 0; i < k; i++ {
		s.open(w, s.levels[i])
	}
	b0, t0 := len(w.b), len(w.toks)
	for i := k; i < d-1; i++ {
		s.open(w, s.levels[i])
	}
	s.innermost(w, s.levels[d-1])
	for i := d - 2; i >= k; i-- {
		s.close(w, s.levels[i])
	}
	b1, t1 := len(w.b), len(w.toks)
	for i := k - 1; i >= 0; i-- {
		s.close(w, s.levels[i])
	}
	t := &tower{
		pre: w.toks[:t0:t0], val: w.toks[t0:t1:t1], post: w.toks[t1:],
		preText: w.b[:b0:b0], valText: w.b[b0:b1:b1], postText: w.b[b1:],
		all: w.b, allToks: w.toks,
	}
	switch {
	case k == 0:
		t.sepText = []byte("\n")
	case s.levels[k-1].obj:
		t.sepText = []byte(`,` + s.sp + `"` + nameTwin + `":` + s.sp)
		t.sepToks = []tk{{k: '"', s: sTwin}}
	default:
		t.sepText = []byte(`,` + s.sp)
	}
	return t
}

// whole returns the whole document text and token list; if twin, the value
// part appears twice as siblings inside level k.
func (t *tower) whole(twin bool) ([]byte, []tk) {
	if !twin {
		return t.all, t.allToks
	}
	b := make([]byte, 0, len(t.all)+len(t.sepText)+len(t.valText))
	toks := make([]tk, 0, len(t.allToks)+len(t.sepToks)+len(t.val))
	b = append(b, t.preText...)
	toks = append(toks, t.pre...)
	b = append(b, t.valText...)
	toks = append(toks, t.val...)
	b = append(b, t.sepText...)
	toks = append(toks, t.sepToks...)
	b = append(b, t.valText...)
	toks = append(toks, t.val...)
	b = append(b, t.postText...)
	toks = append(toks, t.post...)
	return b, toks
}

// wideName names the i-th scalar member of a wide innermost object (sorted
// order equals numeric order).
func wideName(i int) string { return fmt.Sprintf("k%04d", i) }

func (x tk) token() jsontext.Token {
	switch x.k {
	case '[':
		return jsontext.BeginArray
	case ']':
		return jsontext.EndArray
	case '{':
		return jsontext.BeginObject
	case '}':
		return jsontext.EndObject
	case '"':
		return jsontext.String(tkStrings[x.s])
	case 'w':
		return jsontext.String(wideName(int(x.n)))
	case '0':
		return jsontext.Int(int64(x.n))
	}
	panic("harness: bad tk")
}

// ---------------------------------------------------------------------------
// Option sets (named so that they survive a replay file).

type optSet struct {
	name string
	opts []jsontext.Options
	enc  bool // contains encoder-only options
}

var optSets = []optSet{
	{"default", nil, false},
	{"allowdup+allowutf8", []jsontext.Options{jsontext.AllowDuplicateNames(true), jsontext.AllowInvalidUTF8(true)}, false},
	{"multiline-noindent", []jsontext.Options{jsontext.Multiline(true), jsontext.WithIndent("")}, true},
	{"canonical", []jsontext.Options{jsontext.ReorderRawObjects(true), jsontext.CanonicalizeRawInts(true), jsontext.CanonicalizeRawFloats(true)}, true},
	{"spaces", []jsontext.Options{jsontext.SpaceAfterColon(true), jsontext.SpaceAfterComma(true)}, true},
	{"preserve+html+js", []jsontext.Options{jsontext.PreserveRawStrings(true), jsontext.EscapeForHTML(true), jsontext.EscapeForJS(true)}, true},
	{"reorder+allowdup", []jsontext.Options{jsontext.ReorderRawObjects(true), jsontext.AllowDuplicateNames(true)}, true},
}

func optByName(name string) (optSet, error) {
	for _, o := range optSets {
		if o.name == name {
			return o, nil
		}
	}
	if name == "" {
		return optSets[0], nil
	}
	return optSet{}, fmt.Errorf("harness: unknown option set %q", name)
}

// chunkReader returns at most n bytes per Read.
type chunkReader struct {
	b []byte
	n int
}

func (r *chunkReader) Read(p []byte) (int, error) {
	if len(r.b) == 0 {
		return 0, errEOF
	}
	n := min(r.n, len(p), len(r.b))
	copy(p, r.b[:n])
	r.b = r.b[n:]
	return n, nil
}

func firstDiff(a, b []byte) int {
	n := min(len(a), len(b))
	for i := 0; i < n; i++ {
		if a[i] != b[i] {
			return i
		}
	}
	if len(a) != len(b) {
		return n
	}
	return -1
}

func clip(b []byte, at int) string {
	lo := max(0, at-20)
	hi := min(len(b), at+20)
	return fmt.Sprintf("%q", b[lo:hi])
}

func sameText(what string, got, want []byte) error {
	if bytes.Equal(got, want) {
		return nil
	}
	at := firstDiff(got, want)
	return fmt.Errorf("%s: output differs from the expected text at byte %d (len got %d, want %d): got ...%s..., want ...%s...", what, at, len(got), len(want), clip(got, at), clip(want, at))
}

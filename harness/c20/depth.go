package c20

import (
	"bytes"
	"encoding/json"
	"errors"
	"fmt"
	"io"
	"strings"

	jsonv2 "github.com/go-json-experiment/json"
	"github.com/go-json-experiment/json/jsontext"
	jsonv1 "github.com/go-json-experiment/json/v1"
	"pgregory.net/rapid"

	"verif/harness/cov"
	"verif/harness/rt"
)

var errEOF = io.EOF

// Seg is a run of levels of one kind (shape "mix").
type Seg struct {
	Obj  bool `json:"obj"`
	Strs bool `json:"strs,omitempty"`
	N    int  `json:"n"`
}

// DepthCase is one (tower, path) pair.
type DepthCase struct {
	Shape string `json:"shape"`          // arrays objects alt deepwide strings split mix
	Depth int    `json:"depth"`          // total nesting of the document / value
	Segs  []Seg  `json:"segs,omitempty"` // shape mix: runs, outermost first (sum of N = Depth)
	Cut   int    `json:"cut,omitempty"`  // shape split: levels 1..Cut are objects, the rest arrays
	Wide  int    `json:"wide,omitempty"` // scalars in the innermost container
	WS    bool   `json:"ws,omitempty"`   // insignificant whitespace in the text
	Path  string `json:"path"`
	K     int    `json:"k,omitempty"`    // split paths: levels 1..K are handled as tokens, the rest as one value
	Twin  bool   `json:"twin,omitempty"` // the value part appears twice as siblings (inside level K / TwinAt)
	At    int    `json:"twin_at,omitempty"`
	Opt   string `json:"opt,omitempty"`
	Rd    int    `json:"reader,omitempty"` // 0 *bytes.Buffer, 1 *bytes.Reader, n>=2: chunks of n bytes
	Fam   string `json:"family,omitempty"` // Go type family for typed paths
}

var shapes = []string{"arrays", "objects", "alt", "deepwide", "strings", "split"}

func (c DepthCase) spec() (towerSpec, error) {
	d := c.Depth
	if d < 1 || d > MaxDepth+50 {
		return towerSpec{}, fmt.Errorf("harness: bad depth %d", d)
	}
	s := towerSpec{levels: make([]lvl, d), wide: c.Wide}
	if c.WS {
		s.sp = " "
	}
	switch c.Shape {
	case "arrays":
	case "objects":
		for i := range s.levels {
			s.levels[i].obj = true
		}
	case "alt":
		for i := range s.levels {
			s.levels[i].obj = i%2 == 1
		}
	case "deepwide":
		for i := range s.levels {
			s.levels[i].obj = i%3 == 2
		}
		if s.wide == 0 {
			s.wide = 150
		}
	case "strings":
		for i := range s.levels {
			s.levels[i] = lvl{obj: i%2 == 0, strs: true}
		}
	case "strings-obj":
		for i := range s.levels {
			s.levels[i] = lvl{obj: true, strs: true}
		}
	case "split":
		for i := range s.levels {
			s.levels[i].obj = i < c.Cut
		}
	case "mix":
		i := 0
		for _, g := range c.Segs {
			for j := 0; j < g.N && i < d; j++ {
				s.levels[i] = lvl{obj: g.Obj, strs: g.Strs}
				i++
			}
		}
		if i != d {
			return towerSpec{}, fmt.Errorf("harness: segments cover %d of %d levels", i, d)
		}
	default:
		return towerSpec{}, fmt.Errorf("harness: unknown shape %q", c.Shape)
	}
	return s, nil
}

// pathInfo describes a path.
type pathInfo struct {
	split  bool // uses K
	stream bool // K==0 && Twin allowed (two top-level values)
	enc    bool // encoder-side (encoder option sets apply)
	typed  bool // uses Fam
	goval  bool // marshals a Go value (Fam)
	twin   bool // supports Twin
}

var paths = map[string]pathInfo{
	// whole document, decoder side
	"dec.ReadToken":         {stream: true, twin: true},
	"dec.ReadValue":         {stream: true, twin: true},
	"dec.SkipValue":         {stream: true, twin: true},
	"Value.IsValid":         {twin: true},
	"json.Unmarshal":        {typed: true, twin: true},
	"json.UnmarshalRead":    {typed: true, twin: true},
	"json.UnmarshalDecode":  {typed: true, twin: true},
	"v1.Valid":              {twin: true},
	"v1.Unmarshal":          {typed: true, twin: true},
	"v1.Decoder.Decode":     {typed: true, twin: true},
	"v1.Decoder.Token":      {twin: true},
	"v1.Compact":            {twin: true},
	"v1.Indent":             {twin: true},
	// whole document, encoder side
	"Value.Format":          {enc: true, twin: true},
	"Value.Compact":         {enc: true, twin: true},
	"Value.Indent":          {enc: true, twin: true},
	"Value.Canonicalize":    {enc: true, twin: true},
	"AppendFormat":          {enc: true, twin: true},
	"enc.WriteToken":        {enc: true, stream: true, twin: true},
	"enc.WriteValue":        {enc: true, twin: true},
	"json.Marshal(Value)":   {enc: true, twin: true},
	// Go values
	"json.Marshal":          {enc: true, goval: true, typed: true, twin: true},
	"json.MarshalWrite":     {enc: true, goval: true, typed: true, twin: true},
	"json.MarshalEncode":    {enc: true, goval: true, typed: true, twin: true},
	"v1.Marshal":            {goval: true, typed: true, twin: true},
	"v1.Encoder.Encode":     {goval: true, typed: true, twin: true},
	// split: K levels as tokens, the rest as one value
	"dec.tok+ReadValue":        {split: true, twin: true},
	"dec.tok+SkipValue":        {split: true, twin: true},
	"dec.tok+UnmarshalDecode":  {split: true, typed: true, twin: true},
	"enc.tok+WriteValue":       {split: true, enc: true, twin: true},
	"enc.tok+MarshalEncode":    {split: true, enc: true, goval: true, typed: true, twin: true},
	"enc.tok+MarshalEncode(Value)": {split: true, enc: true, twin: true},
}

var pathNames = func() []string {
	var out []string
	for k := range paths {
		out = append(out, k)
	}
	sortStrings(out)
	return out
}()

func sortStrings(s []string) {
	for i := 1; i < len(s); i++ {
		for j := i; j > 0 && s[j] < s[j-1]; j-- {
			s[j], s[j-1] = s[j-1], s[j]
		}
	}
}

func (c DepthCase) reader(b []byte) io.Reader {
	switch {
	case c.Rd == 0:
		return bytes.NewBuffer(b)
	case c.Rd == 1:
		return bytes.NewReader(b)
	default:
		return &chunkReader{b: b, n: c.Rd}
	}
}

// RunDepth decides one depth case.
func RunDepth(c DepthCase) error {
	rec.Eval()
	pi, ok := paths[c.Path]
	if !ok {
		return fmt.Errorf("harness: unknown path %q", c.Path)
	}
	spec, err := c.spec()
	if err != nil {
		return err
	}
	os, err := optByName(c.Opt)
	if err != nil {
		return err
	}
	d := c.Depth
	k := 0
	if pi.split {
		k = c.K
		if k < 0 || k >= d || k > MaxDepth {
			return fmt.Errorf("harness: bad split K=%d for depth %d", k, d)
		}
	} else if c.Twin {
		k = c.At
		if k < 0 || k >= d {
			return fmt.Errorf("harness: bad twin position %d", k)
		}
		if k == 0 && !pi.stream {
			return fmt.Errorf("harness: top-level twin needs a stream path")
		}
	}
	fam := c.Fam
	if pi.typed && fam == "" {
		fam = "any"
	}
	if pi.typed && !familyOK(fam, spec) {
		return fmt.Errorf("harness: family %s incompatible with the tower", fam)
	}
	tw := spec.build(k)
	accept := d <= MaxDepth

	raw, _ := json.Marshal(c)
	fp := cov.FP(raw)
	if d >= MaxDepth-1 {
		rec.NonTrivial(fp)
	}
	rec.Class("depth:path=" + c.Path)
	rec.Class(fmt.Sprintf("depth:d=%d", d))
	rec.Class("depth:shape=" + c.Shape)
	if pi.split {
		switch {
		case k == 0:
			rec.Class("depth:split-k=0")
		case k == d-1:
			rec.Class("depth:split-k=d-1")
		case k >= MaxDepth-2:
			rec.Class("depth:split-k>=9998")
		case k > 1000:
			rec.Class("depth:split-k>1000")
		default:
			rec.Class("depth:split-k<=1000")
		}
	}
	if c.Twin {
		rec.Class("depth:twin")
	}
	if pi.typed {
		rec.Class("depth:family=" + fam)
	}
	rec.Sample(fp, func() any { return c })

	var res error
	if p := rt.Guard(func() { res = c.run(pi, spec, tw, os, fam, k, accept) }); p != nil {
		return fmt.Errorf("path %s on a %d-deep %s tower panicked: %v", c.Path, d, c.Shape, p)
	}
	var ae *acceptedErr
	if errors.As(res, &ae) && c.hitsEmptyFastPath() {
		return rt.Known(KnownEmptyFastPath, res)
	}
	return res
}

// acceptedErr: a path accepted nesting beyond the limit.
type acceptedErr struct{ msg string }

func (e *acceptedErr) Error() string { return e.msg }

// verdict compares an accept/refuse outcome with the expectation.
func verdict(what string, d int, accept bool, err error) error {
	if accept && err != nil {
		return fmt.Errorf("%s refused nesting depth %d (<= %d must be accepted): %v", what, d, MaxDepth, clipErr(err))
	}
	if !accept && err == nil {
		return &acceptedErr{fmt.Sprintf("%s accepted nesting depth %d (> %d must be refused with an error)", what, d, MaxDepth)}
	}
	return nil
}

// KnownEmptyFastPath is the classifier of a finding on the unchanged tree:
// Marshal writes an empty Go slice or map as "[]" / "{}" through a shortcut
// that skips the depth check (arshal_any.go marshalArrayAny/marshalObjectAny,
// arshal_default.go map and slice arshalers), so a Go value nested exactly
// 10001 deep whose innermost container is an empty slice or map is accepted
// unless a whitespace option (Multiline, SpaceAfterColon, SpaceAfterComma) is set.
const KnownEmptyFastPath = "marshal-empty-container-at-10001"

// hitsEmptyFastPath reports whether the case is such a value.
func (c DepthCase) hitsEmptyFastPath() bool {
	pi := paths[c.Path]
	if !pi.goval || c.Depth != MaxDepth+1 || c.Wide > 0 {
		return false
	}
	spec, err := c.spec()
	if err != nil || spec.wide > 0 {
		return false
	}
	last := spec.levels[len(spec.levels)-1]
	if last.strs {
		return false
	}
	switch c.Opt {
	case "multiline-noindent", "spaces":
		return false
	}
	switch c.Fam {
	case "", "any", "RS", "RM", "PS":
		return true
	case "AltT":
		return !last.obj
	}
	return false // innermost Go value is a struct
}

func clipErr(err error) string {
	s := err.Error()
	if len(s) > 300 {
		s = s[:150] + " ... " + s[len(s)-120:]
	}
	return s
}

func (c DepthCase) run(pi pathInfo, spec towerSpec, tw *tower, os optSet, fam string, k int, accept bool) error {
	d := c.Depth
	text, toks := tw.whole(c.Twin)
	compactSpec := spec
	compactSpec.sp = ""
	var wantCompact []byte // expected compact text of the whole document
	compact := func() []byte {
		if wantCompact == nil {
			if spec.sp == "" {
				wantCompact = text
			} else {
				wantCompact, _ = compactSpec.build(k).whole(c.Twin)
			}
		}
		return wantCompact
	}
	nvals := 1
	if c.Twin && k == 0 {
		nvals = 2
	}
	decOpts := os.opts
	if os.enc {
		decOpts = nil
	}
	what := fmt.Sprintf("%s [%s, opts %s]", c.Path, c.Shape, os.name)

	switch c.Path {
	case "dec.ReadToken":
		dec := jsontext.NewDecoder(c.reader(text), decOpts...)
		n, maxDepth := 0, 0
		var rerr error
		for {
			_, err := dec.ReadToken()
			if err != nil {
				rerr = err
				break
			}
			n++
			if sd := dec.StackDepth(); sd > maxDepth {
				maxDepth = sd
			}
			if n > len(toks)+1 {
				return fmt.Errorf("%s: more tokens (%d) than the document has (%d)", what, n, len(toks))
			}
		}
		if maxDepth > MaxDepth {
			return fmt.Errorf("%s: StackDepth reached %d (> %d)", what, maxDepth, MaxDepth)
		}
		if accept {
			if rerr != io.EOF || n != len(toks) {
				return fmt.Errorf("%s: %d-deep document: read %d of %d tokens, then %v (want all tokens, then io.EOF)", what, d, n, len(toks), clipErr(rerr))
			}
			if maxDepth != d {
				return fmt.Errorf("%s: maximal StackDepth %d, document depth %d", what, maxDepth, d)
			}
			return nil
		}
		if rerr == io.EOF {
			return fmt.Errorf("%s: %d-deep document read to io.EOF without an error", what, d)
		}
		return nil

	case "dec.ReadValue", "dec.SkipValue":
		dec := jsontext.NewDecoder(c.reader(text), decOpts...)
		var rerr error
		n := 0
		for n <= nvals {
			if c.Path == "dec.ReadValue" {
				var v jsontext.Value
				v, rerr = dec.ReadValue()
				if rerr == nil && n == 0 && !c.Twin && !bytes.Equal(v, text) {
					return fmt.Errorf("%s: ReadValue returned %d bytes of a %d-byte document", what, len(v), len(text))
				}
			} else {
				rerr = dec.SkipValue()
			}
			if rerr != nil {
				break
			}
			n++
		}
		if accept {
			if n != nvals || rerr != io.EOF {
				return fmt.Errorf("%s: %d-deep document: %d of %d values, then %v (want io.EOF)", what, d, n, nvals, clipErr(rerr))
			}
			return nil
		}
		if n != 0 || rerr == nil || rerr == io.EOF {
			return fmt.Errorf("%s: %d-deep document: %d values accepted, final error %v (want an error on the first value)", what, d, n, rerr)
		}
		return nil

	case "Value.IsValid":
		ok := jsontext.Value(text).IsValid(decOpts...)
		if ok != accept {
			return fmt.Errorf("%s: IsValid=%v for nesting depth %d", what, ok, d)
		}
		return nil

	case "v1.Valid":
		ok := jsonv1.Valid(text)
		if ok != accept {
			return fmt.Errorf("%s: Valid=%v for nesting depth %d", what, ok, d)
		}
		return nil

	case "json.Unmarshal", "json.UnmarshalRead", "json.UnmarshalDecode", "v1.Unmarshal", "v1.Decoder.Decode":
		target := newTarget(fam, spec, 0)
		var err error
		switch c.Path {
		case "json.Unmarshal":
			err = jsonv2.Unmarshal(text, target, decOpts...)
		case "json.UnmarshalRead":
			err = jsonv2.UnmarshalRead(c.reader(text), target, decOpts...)
		case "json.UnmarshalDecode":
			err = jsonv2.UnmarshalDecode(jsontext.NewDecoder(c.reader(text), decOpts...), target)
		case "v1.Unmarshal":
			err = jsonv1.Unmarshal(text, target)
		case "v1.Decoder.Decode":
			err = jsonv1.NewDecoder(c.reader(text)).Decode(target)
		}
		if e := verdict(what+" into "+fam, d, accept, err); e != nil {
			return e
		}
		if accept && fam == "any" {
			if got := anyDepth(*target.(*any)); got != d {
				return fmt.Errorf("%s: decoded value is %d deep, document %d", what, got, d)
			}
		}
		return nil

	case "v1.Decoder.Token":
		dec := jsonv1.NewDecoder(c.reader(text))
		n := 0
		var rerr error
		for {
			_, err := dec.Token()
			if err != nil {
				rerr = err
				break
			}
			n++
			if n > len(toks)+1 {
				return fmt.Errorf("%s: more tokens than the document has", what)
			}
		}
		if accept {
			if rerr != io.EOF || n != len(toks) {
				return fmt.Errorf("%s: %d-deep document: %d of %d tokens then %v", what, d, n, len(toks), clipErr(rerr))
			}
			return nil
		}
		if rerr == io.EOF {
			return fmt.Errorf("%s: %d-deep document read to io.EOF without an error", what, d)
		}
		return nil

	case "v1.Compact":
		var buf bytes.Buffer
		err := jsonv1.Compact(&buf, text)
		if e := verdict(what, d, accept, err); e != nil {
			return e
		}
		if accept {
			return sameText(what, buf.Bytes(), compact())
		}
		return nil

	case "v1.Indent":
		var buf bytes.Buffer
		err := jsonv1.Indent(&buf, text, "", "")
		return verdict(what, d, accept, err)

	case "Value.Format", "Value.Compact", "Value.Indent", "Value.Canonicalize":
		v := jsontext.Value(bytes.Clone(text))
		var err error
		switch c.Path {
		case "Value.Format":
			err = v.Format(os.opts...)
		case "Value.Compact":
			err = v.Compact(os.opts...)
		case "Value.Indent":
			err = v.Indent(os.opts...)
		case "Value.Canonicalize":
			err = v.Canonicalize(os.opts...)
		}
		if e := verdict(what, d, accept, err); e != nil {
			return e
		}
		if accept && os.name == "default" && c.Path != "Value.Indent" && spec.wide == 0 {
			return sameText(what, v, compact())
		}
		return nil

	case "AppendFormat":
		out, err := jsontext.AppendFormat([]byte("x"), text, os.opts...)
		if e := verdict(what, d, accept, err); e != nil {
			return e
		}
		if accept && os.name == "default" && spec.wide == 0 {
			return sameText(what, out[1:], compact())
		}
		return nil

	case "json.Marshal(Value)":
		out, err := jsonv2.Marshal(jsontext.Value(text), os.opts...)
		if e := verdict(what, d, accept, err); e != nil {
			return e
		}
		if accept && os.name == "default" && spec.wide == 0 {
			return sameText(what, out, compact())
		}
		return nil

	case "enc.WriteToken":
		var buf bytes.Buffer
		enc := jsontext.NewEncoder(&buf, os.opts...)
		// index of the first token that opens level MaxDepth+1
		depth := 0
		for i, x := range toks {
			opening := x.k == '[' || x.k == '{'
			err := enc.WriteToken(x.token())
			if opening && depth == MaxDepth {
				if err == nil {
					return fmt.Errorf("%s: WriteToken accepted the opening of nesting level %d", what, depth+1)
				}
				if enc.StackDepth() != MaxDepth {
					return fmt.Errorf("%s: StackDepth %d after the refused token", what, enc.StackDepth())
				}
				return nil
			}
			if err != nil {
				return fmt.Errorf("%s: token #%d (%q at depth %d) refused: %v", what, i, x.k, depth, clipErr(err))
			}
			switch x.k {
			case '[', '{':
				depth++
			case ']', '}':
				depth--
			}
			if enc.StackDepth() != depth {
				return fmt.Errorf("%s: StackDepth %d after token #%d, expected %d", what, enc.StackDepth(), i, depth)
			}
		}
		if !accept {
			return fmt.Errorf("harness: %d-deep token list ended without reaching level %d", d, MaxDepth+1)
		}
		if os.name == "default" {
			// top-level values are newline-terminated
			return sameText(what, buf.Bytes(), append(append([]byte(nil), compact()...), '\n'))
		}
		return nil

	case "enc.WriteValue":
		var buf bytes.Buffer
		enc := jsontext.NewEncoder(&buf, os.opts...)
		err := enc.WriteValue(text)
		if e := verdict(what, d, accept, err); e != nil {
			return e
		}
		if accept && os.name == "default" && spec.wide == 0 {
			return sameText(what, buf.Bytes(), append(append([]byte(nil), compact()...), '\n'))
		}
		return nil

	case "json.Marshal", "json.MarshalWrite", "json.MarshalEncode", "v1.Marshal", "v1.Encoder.Encode":
		twinAt := 0
		if c.Twin {
			twinAt = k
		}
		val, err := buildValue(fam, spec, 0, twinAt)
		if err != nil {
			return err
		}
		var out []byte
		// Output with several map keys per object is only deterministic
		// under Deterministic(true) (names chosen so that sorted order is
		// the tower's order).
		mopts := append([]jsontext.Options{jsonv2.Deterministic(true)}, os.opts...)
		switch c.Path {
		case "json.Marshal":
			out, err = jsonv2.Marshal(val, mopts...)
		case "json.MarshalWrite":
			var buf bytes.Buffer
			err = jsonv2.MarshalWrite(&buf, val, mopts...)
			out = buf.Bytes()
		case "json.MarshalEncode":
			var buf bytes.Buffer
			err = jsonv2.MarshalEncode(jsontext.NewEncoder(&buf, os.opts...), val, jsonv2.Deterministic(true))
			out = bytes.TrimSuffix(buf.Bytes(), []byte("\n"))
		case "v1.Marshal":
			out, err = jsonv1.Marshal(val)
		case "v1.Encoder.Encode":
			var buf bytes.Buffer
			err = jsonv1.NewEncoder(&buf).Encode(val)
			out = bytes.TrimSuffix(buf.Bytes(), []byte("\n"))
		}
		if e := verdict(what+" of a "+fam+" value", d, accept, err); e != nil {
			return e
		}
		if accept && (os.name == "default" || !os.enc) && !strings.HasPrefix(c.Path, "v1.") {
			return sameText(what+" of a "+fam+" value", out, compact())
		}
		return nil

	case "dec.tok+ReadValue", "dec.tok+SkipValue", "dec.tok+UnmarshalDecode":
		dec := jsontext.NewDecoder(c.reader(text), decOpts...)
		for i := range tw.pre {
			if _, err := dec.ReadToken(); err != nil {
				return fmt.Errorf("%s: prefix token #%d of %d levels refused: %v", what, i, k, clipErr(err))
			}
		}
		if dec.StackDepth() != k {
			return fmt.Errorf("%s: StackDepth %d after %d prefix levels", what, dec.StackDepth(), k)
		}
		readVal := func(i int) error {
			switch c.Path {
			case "dec.tok+ReadValue":
				v, err := dec.ReadValue()
				if err == nil && !bytes.Equal(v, tw.valText) {
					return fmt.Errorf("harness-visible mismatch: ReadValue returned %d bytes, value has %d", len(v), len(tw.valText))
				}
				return err
			case "dec.tok+SkipValue":
				return dec.SkipValue()
			default:
				return jsonv2.UnmarshalDecode(dec, newTarget(fam, spec, k))
			}
		}
		err := readVal(0)
		if e := verdict(fmt.Sprintf("%s: value of depth %d below %d token levels", what, d-k, k), d, accept, err); e != nil {
			return e
		}
		if !accept {
			return nil
		}
		if c.Twin {
			for i := range tw.sepToks {
				if _, err := dec.ReadToken(); err != nil {
					return fmt.Errorf("%s: separator token #%d refused: %v", what, i, clipErr(err))
				}
			}
			if err := readVal(1); err != nil {
				return fmt.Errorf("%s: second sibling value of depth %d below %d token levels refused: %v", what, d-k, k, clipErr(err))
			}
		}
		for i := range tw.post {
			if _, err := dec.ReadToken(); err != nil {
				return fmt.Errorf("%s: closing token #%d refused: %v", what, i, clipErr(err))
			}
		}
		if dec.StackDepth() != 0 {
			return fmt.Errorf("%s: StackDepth %d at the end", what, dec.StackDepth())
		}
		if _, err := dec.ReadToken(); err != io.EOF {
			return fmt.Errorf("%s: expected io.EOF at the end, got %v", what, err)
		}
		return nil

	case "enc.tok+WriteValue", "enc.tok+MarshalEncode", "enc.tok+MarshalEncode(Value)":
		var buf bytes.Buffer
		enc := jsontext.NewEncoder(&buf, os.opts...)
		for i, x := range tw.pre {
			if err := enc.WriteToken(x.token()); err != nil {
				return fmt.Errorf("%s: prefix token #%d of %d levels refused: %v", what, i, k, clipErr(err))
			}
		}
		if enc.StackDepth() != k {
			return fmt.Errorf("%s: StackDepth %d after %d prefix levels", what, enc.StackDepth(), k)
		}
		var val any
		if c.Path == "enc.tok+MarshalEncode" {
			var err error
			if val, err = buildValue(fam, spec, k, 0); err != nil {
				return err
			}
		}
		writeVal := func() error {
			switch c.Path {
			case "enc.tok+WriteValue":
				return enc.WriteValue(tw.valText)
			case "enc.tok+MarshalEncode(Value)":
				return jsonv2.MarshalEncode(enc, jsontext.Value(tw.valText))
			default:
				return jsonv2.MarshalEncode(enc, val, jsonv2.Deterministic(true))
			}
		}
		err := writeVal()
		if e := verdict(fmt.Sprintf("%s: value of depth %d below %d token levels", what, d-k, k), d, accept, err); e != nil {
			return e
		}
		if !accept {
			return nil
		}
		if c.Twin {
			for i, x := range tw.sepToks {
				if err := enc.WriteToken(x.token()); err != nil {
					return fmt.Errorf("%s: separator token #%d refused: %v", what, i, clipErr(err))
				}
			}
			if err := writeVal(); err != nil {
				return fmt.Errorf("%s: second sibling value of depth %d below %d token levels refused: %v", what, d-k, k, clipErr(err))
			}
		}
		for i, x := range tw.post {
			if err := enc.WriteToken(x.token()); err != nil {
				return fmt.Errorf("%s: closing token #%d refused: %v", what, i, clipErr(err))
			}
		}
		if enc.StackDepth() != 0 {
			return fmt.Errorf("%s: StackDepth %d at the end", what, enc.StackDepth())
		}
		if os.name == "default" && spec.wide == 0 {
			want := compact()
			if c.Twin && k == 0 {
				// two top-level values, each newline-terminated
				cv, _ := compactSpec.build(0).whole(false)
				want = append(append(append([]byte(nil), cv...), '\n'), cv...)
			}
			return sameText(what, buf.Bytes(), append(append([]byte(nil), want...), '\n'))
		}
		return nil
	}
	return errors.New("harness: unhandled path " + c.Path)
}

// ---------------------------------------------------------------------------
// Enumeration and generation

// splitKs lists the interesting cut points for a tower of depth d.
func splitKs(d int) []int {
	cand := []int{0, 1, 2, 999, 1000, 1001, 5000, 9997, 9998, 9999, 10000, d - 2, d - 1}
	seen := map[int]bool{}
	var out []int
	for _, k := range cand {
		if k >= 0 && k < d && k <= MaxDepth && !seen[k] {
			seen[k] = true
			out = append(out, k)
		}
	}
	return out
}

// famsFor lists the families that can spell the shape.
func famsFor(shape string) []string {
	switch shape {
	case "arrays":
		return []string{"any", "RS", "PS"}
	case "objects":
		return []string{"any", "RM", "SP", "SI"}
	case "alt":
		return []string{"any", "AltT"}
	case "strings-obj":
		return []string{"any", "SH"}
	}
	return []string{"any"}
}

func encOptNames(thorough bool) []string {
	if thorough {
		return []string{"default", "allowdup+allowutf8", "multiline-noindent", "canonical", "spaces", "preserve+html+js", "reorder+allowdup"}
	}
	return []string{"default", "multiline-noindent", "canonical"}
}

// Multiline output costs O(depth) per line inside the library (AppendIndent
// loops over the depth even for an empty indent), i.e. ~0.2 s per 10000-deep
// tower: the quick tier runs it on a subset.
func multilineInQuick(shape string, d, k int, split bool) bool {
	if d != MaxDepth && d != MaxDepth+1 {
		return false
	}
	if shape != "arrays" && shape != "objects" && shape != "alt" {
		return false
	}
	return !split || k == 0 || k == 5000 || k == d-1
}

// enumDepth enumerates depth x shape x path (x K for split paths, x family
// for typed paths, x option sets for encoder paths).
func enumDepth(e *rt.Env, yield func(DepthCase) bool) {
	var idx, total int64
	complete := true
	emit := func(c DepthCase) bool {
		if excludeEmptyFastPath && c.hitsEmptyFastPath() {
			e.Rec.Excluded(KnownEmptyFastPath)
			return true
		}
		idx++
		if !e.Mine(idx) {
			return true
		}
		total++
		if !yield(c) {
			complete = false
			return false
		}
		return true
	}
	allShapes := append(append([]string(nil), shapes...), "strings-obj")
	func() {
		for _, d := range []int{9998, 9999, 10000, 10001, 10002} {
			for _, shape := range allShapes {
				base := DepthCase{Shape: shape, Depth: d}
				if shape == "split" {
					base.Cut = d / 2
				}
				for _, p := range pathNames {
					pi := paths[p]
					c := base
					c.Path = p
					fams := []string{""}
					if pi.typed {
						fams = famsFor(shape)
					}
					opts := []string{"default"}
					if pi.enc {
						opts = encOptNames(e.Thorough())
					} else if !pi.goval {
						opts = []string{"default", "allowdup+allowutf8"}
					}
					if strings.HasPrefix(p, "v1.") {
						opts = []string{"default"}
					}
					if p == "Value.Indent" {
						opts = []string{"multiline-noindent"} // tab indent is quadratic in depth: see enumIndentTab
					}
					ks := []int{0}
					if pi.split {
						ks = splitKs(d)
					}
					for _, fam := range fams {
						for _, o := range opts {
							for _, k := range ks {
								cc := c
								cc.Fam, cc.Opt, cc.K = fam, o, k
								if pi.split && o != "default" && !(k == 0 || k == 5000 || k == d-1 || k == 10000) {
									continue // option sets only at a few cut points
								}
								if o == "multiline-noindent" && p != "Value.Indent" && !e.Thorough() && !multilineInQuick(shape, d, k, pi.split) {
									continue
								}
								if !emit(cc) {
									return
								}
							}
						}
					}
				}
			}
		}
		// shared sub-values (acyclic DAGs) inside deep Go values, and twin
		// sub-towers in texts: the second sibling re-enters the same depth
		// (and, beyond depth 1000, the same pointers) as the first.
		for _, d := range []int{MaxDepth, MaxDepth + 1} {
			for _, shape := range []string{"arrays", "objects", "alt", "strings-obj"} {
				for _, p := range []string{"json.Marshal", "json.MarshalWrite", "v1.Marshal", "enc.tok+MarshalEncode", "dec.ReadToken", "Value.IsValid", "json.Unmarshal", "enc.WriteValue", "dec.tok+ReadValue"} {
					pi := paths[p]
					fams := []string{""}
					if pi.typed {
						fams = famsFor(shape)
					}
					for _, fam := range fams {
						for _, at := range []int{1, 1001, 5000, d - 1} {
							c := DepthCase{Shape: shape, Depth: d, Path: p, Fam: fam, Opt: "default", Twin: true}
							if pi.split {
								c.K = min(at, MaxDepth)
							} else {
								c.At = at
							}
							if !emit(c) {
								return
							}
						}
					}
				}
			}
		}
	}()
	e.Rec.AddPart(cov.Part{Name: "depth 9998..10002 x 7 shapes x every path (x cut points 0,1,2,999,1000,1001,5000,9997..10000,d-2,d-1 for split paths, x Go type families for typed paths, x option sets; the Multiline option set on a subset in the quick tier), plus twin/shared sub-towers at levels 1, 1001, 5000, d-1 for d in {10000,10001}", Size: total, Complete: complete})
}

// Value.Indent with the default tab indent produces ~100 MB for a 10000-deep
// tower (seconds of memory traffic on a loaded machine); the default indent
// is exercised on moderately deep towers only, the limit itself with an
// empty indent.
func enumIndentTab(e *rt.Env, yield func(DepthCase) bool) {
	var idx int64
	for _, d := range []int{1500, 3000} {
		for _, shape := range []string{"arrays", "alt"} {
			idx++
			if !e.Mine(idx) {
				continue
			}
			if !yield(DepthCase{Shape: shape, Depth: d, Path: "Value.Indent", Opt: "default"}) {
				return
			}
		}
	}
}

var optNamesAll = func() []string {
	var out []string
	for _, o := range optSets {
		out = append(out, o.name)
	}
	return out
}()

// genDepthCase draws a random tower (random mix of arrays/objects/strings
// levels), a random path, cut, twin, options, reader.
func genDepthCase(t *rapid.T) DepthCase {
	d := rapid.SampledFrom([]int{9998, 9999, 10000, 10000, 10001, 10001, 10002, 10005, 5000, 1500, 40}).Draw(t, "depth")
	c := DepthCase{Depth: d}
	c.Path = rapid.SampledFrom(pathNames).Draw(t, "path")
	pi := paths[c.Path]
	if pi.typed && rapid.IntRange(0, 2).Draw(t, "typedfam") > 0 {
		// pick a family first, then a shape it can spell
		c.Fam = rapid.SampledFrom(families).Draw(t, "fam")
		switch c.Fam {
		case "RS", "PS":
			c.Shape = "arrays"
		case "RM", "SP", "SI":
			c.Shape = "objects"
		case "SH":
			c.Shape = "strings-obj"
		case "AltT":
			c.Shape = "alt"
		default:
			c.Shape = ""
		}
	}
	if c.Shape == "" {
		switch rapid.IntRange(0, 9).Draw(t, "shapeclass") {
		case 0, 1, 2, 3, 4, 5:
			c.Shape = "mix"
			left := d
			for left > 0 {
				n := rapid.SampledFrom([]int{1, 1, 2, 3, 7, 64, 500, 1000, 3000, 9000, 20000}).Draw(t, "seglen")
				if n > left {
					n = left
				}
				c.Segs = append(c.Segs, Seg{Obj: rapid.Bool().Draw(t, "segobj"), Strs: rapid.IntRange(0, 3).Draw(t, "segstrs") == 0, N: n})
				left -= n
				if len(c.Segs) >= 12 && left > 0 {
					c.Segs = append(c.Segs, Seg{Obj: rapid.Bool().Draw(t, "lastobj"), N: left})
					left = 0
				}
			}
		case 6:
			c.Shape = "split"
			c.Cut = rapid.IntRange(0, d).Draw(t, "cut")
		default:
			c.Shape = rapid.SampledFrom(shapes[:5]).Draw(t, "shape")
		}
		if rapid.IntRange(0, 3).Draw(t, "wide?") == 0 {
			c.Wide = rapid.SampledFrom([]int{1, 2, 33, 70, 300}).Draw(t, "wide")
		}
	}
	c.WS = rapid.IntRange(0, 3).Draw(t, "ws") == 0
	if pi.split {
		if rapid.Bool().Draw(t, "knear") {
			c.K = rapid.SampledFrom(splitKs(d)).Draw(t, "k")
		} else {
			c.K = rapid.IntRange(0, min(d-1, MaxDepth)).Draw(t, "kany")
		}
	}
	if pi.twin && rapid.IntRange(0, 2).Draw(t, "twin") == 0 {
		c.Twin = true
		if !pi.split {
			lo := 1
			if pi.stream {
				lo = 0
			}
			if d-1 >= lo {
				c.At = rapid.SampledFrom([]int{lo, 1, 2, 1000, 1001, 1500, 9000, 9998, 9999, d - 1}).Filter(func(x int) bool { return x >= lo && x < d }).Draw(t, "at")
			} else {
				c.Twin = false
			}
		}
	}
	switch {
	case strings.HasPrefix(c.Path, "v1."):
		c.Opt = "default"
	case pi.enc:
		c.Opt = rapid.SampledFrom(optNamesAll).Draw(t, "opt")
		if c.Opt == "multiline-noindent" && d > 2000 && rapid.IntRange(0, 4).Draw(t, "keepmultiline") != 0 {
			c.Opt = "spaces" // Multiline is O(depth^2) inside the library; keep it rare on deep towers
		}
	default:
		c.Opt = rapid.SampledFrom(optNamesAll[:2]).Draw(t, "opt")
	}
	c.Rd = rapid.SampledFrom([]int{0, 1, 7, 512, 4096, 100000}).Draw(t, "reader")
	if c.Path == "Value.Indent" && d > 2000 {
		c.Opt = "multiline-noindent" // the default tab indent is quadratic in depth (see enumIndentTab)
	}
	if excludeEmptyFastPath && c.hitsEmptyFastPath() {
		// listed finding: avoid it by construction (counted) by making the innermost container non-empty
		rec.Excluded(KnownEmptyFastPath)
		if c.Fam == "" || c.Fam == "any" {
			c.Wide = 1
		} else {
			c.Depth = MaxDepth + 2
		}
	}
	return c
}

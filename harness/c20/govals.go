package c20

import "fmt"

// Recursive Go types through every pointer-like kind. Their JSON form, for
// the tower specs they are compatible with, is exactly the tower text.
type (
	RS   []RS
	RM   map[string]RM
	PS   []*PS
	AR   [1]*AR
	P    *P
	AltA []AltO
	AltO struct {
		M AltA `json:"m,omitzero"`
		N AltA `json:"n,omitzero"`
	}
	SP struct {
		M *SP `json:"m,omitzero"`
		N *SP `json:"n,omitzero"`
	}
	SI struct {
		M any `json:"m,omitzero"`
		N any `json:"n,omitzero"`
	}
	SH struct {
		A string `json:"a"`
		M *SH    `json:"m,omitzero"`
		N *SH    `json:"n,omitzero"`
		Z string `json:"z"`
	}
)

var families = []string{"any", "RS", "RM", "PS", "SP", "SI", "SH", "AltT"}

// familyOK reports whether Go values of the family can spell the tower.
func familyOK(fam string, s towerSpec) bool {
	allArr, allObj, plain, allStrs, alt := true, true, true, true, true
	for i, l := range s.levels {
		if l.obj {
			allArr = false
		} else {
			allObj = false
		}
		if l.strs {
			plain = false
		} else {
			allStrs = false
		}
		if l.obj != (i%2 == 1) {
			alt = false
		}
	}
	switch fam {
	case "any":
		return true
	case "RS", "PS":
		return allArr && plain && s.wide == 0
	case "RM", "SP", "SI":
		return allObj && plain && s.wide == 0
	case "SH":
		return allObj && allStrs && s.wide == 0
	case "AltT":
		return alt && plain && s.wide == 0
	}
	return false
}

// buildValue builds the Go value of the family for levels k+1..d of the
// tower (k=0: the whole tower). If twinAt > k, the child of level twinAt
// appears twice (the same Go value is shared: an acyclic DAG).
func buildValue(fam string, s towerSpec, k, twinAt int) (any, error) {
	d := len(s.levels)
	if !familyOK(fam, s) {
		return nil, fmt.Errorf("harness: family %s cannot spell this tower", fam)
	}
	switch fam {
	case "any":
		var cur any
		for i := d - 1; i >= k; i-- {
			l := s.levels[i]
			inner := i == d-1
			twin := !inner && twinAt == i+1
			if l.obj {
				m := map[string]any{}
				if l.strs {
					m[namePad] = padStr
					m[nameTail] = tailStr
				}
				if inner {
					for j := 0; j < s.wide; j++ {
						m[wideName(j)] = j
					}
				} else {
					m[nameChild] = cur
					if twin {
						m[nameTwin] = cur
					}
				}
				cur = m
			} else {
				a := []any{}
				if l.strs {
					a = append(a, padStr)
				}
				if inner {
					for j := 0; j < s.wide; j++ {
						a = append(a, j)
					}
				} else {
					a = append(a, cur)
					if twin {
						a = append(a, cur)
					}
				}
				if l.strs {
					a = append(a, tailStr)
				}
				cur = a
			}
		}
		return cur, nil
	case "RS":
		cur := RS{}
		for i := d - 2; i >= k; i-- {
			if twinAt == i+1 {
				cur = RS{cur, cur}
			} else {
				cur = RS{cur}
			}
		}
		return cur, nil
	case "PS":
		cur := &PS{}
		for i := d - 2; i >= k; i-- {
			if twinAt == i+1 {
				cur = &PS{cur, cur}
			} else {
				cur = &PS{cur}
			}
		}
		return cur, nil
	case "RM":
		cur := RM{}
		for i := d - 2; i >= k; i-- {
			if twinAt == i+1 {
				cur = RM{nameChild: cur, nameTwin: cur}
			} else {
				cur = RM{nameChild: cur}
			}
		}
		return cur, nil
	case "SP":
		cur := &SP{}
		for i := d - 2; i >= k; i-- {
			if twinAt == i+1 {
				cur = &SP{M: cur, N: cur}
			} else {
				cur = &SP{M: cur}
			}
		}
		return cur, nil
	case "SI":
		var cur any = SI{}
		for i := d - 2; i >= k; i-- {
			if twinAt == i+1 {
				cur = SI{M: cur, N: cur}
			} else if i%2 == 0 {
				cur = &SI{M: cur} // pointer and value holders alternate
			} else {
				cur = SI{M: cur}
			}
		}
		return cur, nil
	case "SH":
		cur := &SH{A: padStr, Z: tailStr}
		for i := d - 2; i >= k; i-- {
			if twinAt == i+1 {
				cur = &SH{A: padStr, M: cur, N: cur, Z: tailStr}
			} else {
				cur = &SH{A: padStr, M: cur, Z: tailStr}
			}
		}
		return cur, nil
	case "AltT":
		// levels alternate array (even index) / object (odd index)
		var a AltA
		var o AltO
		lastObj := s.levels[d-1].obj
		if lastObj {
			o = AltO{}
		} else {
			a = AltA{}
		}
		for i := d - 2; i >= k; i-- {
			twin := twinAt == i+1
			if s.levels[i].obj {
				if twin {
					o = AltO{M: a, N: a}
				} else {
					o = AltO{M: a}
				}
			} else {
				if twin {
					a = AltA{o, o}
				} else {
					a = AltA{o}
				}
			}
		}
		if s.levels[k].obj {
			return o, nil
		}
		return a, nil
	}
	return nil, fmt.Errorf("harness: unknown family %q", fam)
}

// newTarget returns a pointer to a zero value of the family's top type for
// the value part starting at level k+1.
func newTarget(fam string, s towerSpec, k int) any {
	switch fam {
	case "any":
		return new(any)
	case "RS":
		return new(RS)
	case "PS":
		return new(PS)
	case "RM":
		return new(RM)
	case "SP":
		return new(SP)
	case "SI":
		return new(SI)
	case "SH":
		return new(SH)
	case "AltT":
		if s.levels[k].obj {
			return new(AltO)
		}
		return new(AltA)
	}
	return nil
}

// anyDepth measures the container nesting of a value decoded into `any`
// following the first container child at each level (iteratively).
func anyDepth(v any) int {
	n := 0
	for {
		switch x := v.(type) {
		case []any:
			n++
			v = nil
			for _, e := range x {
				switch e.(type) {
				case []any, map[string]any:
					v = e
				}
				if v != nil {
					break
				}
			}
			if v == nil {
				return n
			}
		case map[string]any:
			n++
			c, ok := x[nameChild]
			if !ok {
				return n
			}
			v = c
		default:
			return n
		}
	}
}

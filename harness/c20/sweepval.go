package c20

import (
	"bytes"
	"encoding/json"
	"fmt"
	"io"
	"math"
	"reflect"
	"strings"
	"time"
	"unsafe"

	jsonv2 "github.com/go-json-experiment/json"
	"github.com/go-json-experiment/json/jsontext"
	jsonv1 "github.com/go-json-experiment/json/v1"
	"pgregory.net/rapid"

	"verif/harness/gen"
)

// (d) value sweep: random reflect-built types filled with boundary-dense
// values, marshaled through every entry point and unmarshaled back; the
// panic monitor is the only oracle.

// TypeDesc is a small type AST from which the reflect.Type is rebuilt.
type TypeDesc struct {
	K      string      `json:"k"`
	Elem   *TypeDesc   `json:"elem,omitempty"`
	Key    *TypeDesc   `json:"key,omitempty"`
	N      int         `json:"n,omitempty"`
	Fields []FieldDesc `json:"fields,omitempty"`
}

// FieldDesc is one struct field.
type FieldDesc struct {
	Tag   string   `json:"tag,omitempty"`
	Embed bool     `json:"embed,omitempty"`
	T     TypeDesc `json:"t"`
}

// ValCase is a type, fill data, options and an optional foreign input.
type ValCase struct {
	Type  TypeDesc `json:"type"`
	Fill  []uint64 `json:"fill"`
	Opts  []string `json:"opts,omitempty"`
	Input []byte   `json:"input,omitempty"` // also unmarshaled into a fresh value of the type
}

var scalarKinds = []string{"bool", "int", "int8", "int16", "int32", "int64", "uint", "uint8", "uint16", "uint32", "uint64", "uintptr", "float32", "float64", "string",
	"bytes", "time", "duration", "rawvalue", "number", "any", "complex", "chan", "func", "emptystruct", "error", "unsafeptr"}

var scalarTypes = map[string]reflect.Type{
	"bool": reflect.TypeFor[bool](), "int": reflect.TypeFor[int](), "int8": reflect.TypeFor[int8](), "int16": reflect.TypeFor[int16](), "int32": reflect.TypeFor[int32](),
	"int64": reflect.TypeFor[int64](), "uint": reflect.TypeFor[uint](), "uint8": reflect.TypeFor[uint8](), "uint16": reflect.TypeFor[uint16](), "uint32": reflect.TypeFor[uint32](),
	"uint64": reflect.TypeFor[uint64](), "uintptr": reflect.TypeFor[uintptr](), "float32": reflect.TypeFor[float32](), "float64": reflect.TypeFor[float64](),
	"string": reflect.TypeFor[string](), "bytes": reflect.TypeFor[[]byte](), "time": reflect.TypeFor[time.Time](), "duration": reflect.TypeFor[time.Duration](),
	"rawvalue": reflect.TypeFor[jsontext.Value](), "number": reflect.TypeFor[jsonv1.Number](), "any": reflect.TypeFor[any](), "complex": reflect.TypeFor[complex128](),
	"chan": reflect.TypeFor[chan int](), "func": reflect.TypeFor[func()](), "emptystruct": reflect.TypeFor[struct{}](), "error": reflect.TypeFor[error](),
	"unsafeptr": reflect.TypeFor[unsafe.Pointer](),
}

var keyKinds = []string{"string", "string", "string", "int", "int8", "uint64", "float64", "float32", "bool", "any", "time", "bytesarr", "number", "uintptr"}

var tagPool = []string{
	``, ``, ``, `json:"name"`, `json:"-"`, `json:"-,"`, `json:",omitzero"`, `json:",omitempty"`, `json:",string"`, `json:",inline"`, `json:",unknown"`,
	`json:"a,omitzero,omitempty,string"`, `json:",case:ignore"`, `json:",case:strict"`, `json:",format:base64"`, `json:",format:hex"`, `json:",format:array"`,
	`json:",format:emitnull"`, `json:",format:emitempty"`, `json:",format:unix"`, `json:",format:unixnano"`, `json:",format:RFC3339"`, `json:",format:sec"`,
	`json:",format:nano"`, `json:",format:units"`, `json:",format:iso8601"`, `json:",format:'2006-01-02'"`, `json:",format:nonfinite"`, `json:",format:bogus"`,
	`json:"'quoted,name'"`, `json:"'unterminated"`, `json:"a b"`, `json:"é"`, `json:"\"x"`, `json:",,"`, `json:",omitzero,omitzero"`, `json:",inline,omitzero"`,
	`json:",format:"`, `json:",format:'a''b'"`, `json:"name,unknownopt"`, `json:",string,format:base32"`, `json:" , omitzero"`, `json:"same"`, `json:"same"`, `json:"Same"`,
	`json:",inline,unknown"`, `json:"dup,case:ignore"`, `xml:"x" json:"fromxml"`, `json:"\xff"`,
}

func genTypeDesc(t *rapid.T, depth int) TypeDesc {
	k := rapid.IntRange(0, 11).Draw(t, "typeclass")
	if depth <= 0 && k >= 6 {
		k %= 6
	}
	switch k {
	case 0, 1, 2, 3, 4, 5:
		return TypeDesc{K: rapid.SampledFrom(scalarKinds).Draw(t, "scalar")}
	case 6:
		e := genTypeDesc(t, depth-1)
		return TypeDesc{K: "slice", Elem: &e}
	case 7:
		e := genTypeDesc(t, depth-1)
		return TypeDesc{K: "array", Elem: &e, N: rapid.IntRange(0, 3).Draw(t, "arraylen")}
	case 8:
		e := genTypeDesc(t, depth-1)
		kk := TypeDesc{K: rapid.SampledFrom(keyKinds).Draw(t, "key")}
		return TypeDesc{K: "map", Elem: &e, Key: &kk}
	case 9:
		e := genTypeDesc(t, depth-1)
		return TypeDesc{K: "ptr", Elem: &e}
	default:
		n := rapid.IntRange(0, 6).Draw(t, "nfields")
		d := TypeDesc{K: "struct"}
		for i := 0; i < n; i++ {
			f := FieldDesc{Tag: rapid.SampledFrom(tagPool).Draw(t, "tag"), T: genTypeDesc(t, depth-1)}
			if f.T.K == "struct" || (f.T.K == "ptr" && f.T.Elem.K == "struct") {
				f.Embed = rapid.IntRange(0, 2).Draw(t, "embed") == 0
			}
			d.Fields = append(d.Fields, f)
		}
		return d
	}
}

func genValCase(t *rapid.T) ValCase {
	c := ValCase{Type: genTypeDesc(t, rapid.IntRange(1, 4).Draw(t, "typedepth"))}
	if c.Type.Elem == nil && c.Type.Fields == nil && rapid.IntRange(0, 3).Draw(t, "retop") != 0 {
		// prefer composite top-level types
		e := c.Type
		switch rapid.IntRange(0, 2).Draw(t, "wrap") {
		case 0:
			c.Type = TypeDesc{K: "struct", Fields: []FieldDesc{{Tag: rapid.SampledFrom(tagPool).Draw(t, "tag"), T: e}, {Tag: rapid.SampledFrom(tagPool).Draw(t, "tag"), T: genTypeDesc(t, 2)}}}
		case 1:
			c.Type = TypeDesc{K: "map", Key: &TypeDesc{K: rapid.SampledFrom(keyKinds).Draw(t, "key")}, Elem: &e}
		default:
			c.Type = TypeDesc{K: "slice", Elem: &e}
		}
	}
	c.Fill = rapid.SliceOfN(rapid.Uint64(), 1, 24).Draw(t, "fill")
	c.Opts = genOptNames(t, optAtomNames, "opt")
	if rapid.Bool().Draw(t, "formattag") {
		c.Opts = append(c.Opts, "formattag")
	}
	if rapid.Bool().Draw(t, "foreign") {
		c.Input = gen.Text(t, gen.DocCfg{WS: true, BadUTF8: true, Dups: true, LongStr: true})
	}
	return c
}

// buildType rebuilds the reflect.Type; ok is false if package reflect cannot
// build it (a harness limitation, not a finding).
func buildType(d TypeDesc) (typ reflect.Type, ok bool) {
	defer func() {
		if r := recover(); r != nil {
			typ, ok = nil, false
		}
	}()
	return buildType1(d, new(int)), true
}

func buildType1(d TypeDesc, uniq *int) reflect.Type {
	switch d.K {
	case "slice":
		return reflect.SliceOf(buildType1(*d.Elem, uniq))
	case "array":
		return reflect.ArrayOf(d.N, buildType1(*d.Elem, uniq))
	case "ptr":
		return reflect.PointerTo(buildType1(*d.Elem, uniq))
	case "map":
		var kt reflect.Type
		if d.Key.K == "bytesarr" {
			kt = reflect.TypeFor[[2]byte]()
		} else {
			kt = scalarTypes[d.Key.K]
		}
		return reflect.MapOf(kt, buildType1(*d.Elem, uniq))
	case "struct":
		var fs []reflect.StructField
		for i, f := range d.Fields {
			ft := buildType1(f.T, uniq)
			sf := reflect.StructField{Name: fmt.Sprintf("F%d", i), Type: ft, Tag: reflect.StructTag(f.Tag)}
			if f.Embed {
				st := ft
				if st.Kind() == reflect.Pointer {
					st = st.Elem()
				}
				if st.Kind() == reflect.Struct && st.Name() == "" {
					// anonymous (embedded) field of a method-less struct type
					sf.Anonymous = true
					sf.Name = fmt.Sprintf("E%d", i)
				}
			}
			fs = append(fs, sf)
		}
		return reflect.StructOf(fs)
	}
	if t, ok := scalarTypes[d.K]; ok {
		return t
	}
	panic("harness: unknown kind " + d.K)
}

// filler hands out the fill words cyclically.
type filler struct {
	w []uint64
	i int
}

func (f *filler) next() uint64 {
	if len(f.w) == 0 {
		return 0
	}
	x := f.w[f.i%len(f.w)] + uint64(f.i/len(f.w))*0x9e3779b97f4a7c15
	f.i++
	return x
}

var fillStrings = []string{"", "a", "A", "é", "\xff", "a\x00b", "<&>", " ", "null", "1", "-0", "1e400", "true", `"`, `\`, "key", "Key", "KEY", "k_e-y", strings.Repeat("x", 70),
	"2006-01-02T15:04:05Z", "NaN", "Infinity", "😀", "\xed\xa0\x80", "1h30m", "PT1H", "AQID", "0x1p-2", " 1", "+1", "01"}

var fillFloats = []float64{0, math.Copysign(0, -1), 1, -1, 0.1, 1e21, 1e-7, math.MaxFloat64, math.SmallestNonzeroFloat64, math.NaN(), math.Inf(1), math.Inf(-1), 1 << 53, 1<<53 + 2, 3.4028234663852886e38, 1e39}

var fillInts = []int64{0, 1, -1, 127, 128, -128, -129, 255, 256, 32767, -32768, 65535, 1 << 31, -(1 << 31), 1<<53 + 1, math.MaxInt64, math.MinInt64}

var fillRaw = []string{``, `null`, `1`, `"s"`, `{"a":1,"a":2}`, `[1, 2]`, `{"broken`, ` {"k":[{}]} `, `"\ud800"`, "\"\xff\"", `01`, `[]x`, `{"b":1,"a":{"d":1,"c":2}}`}

func fillValue(v reflect.Value, f *filler, depth int) {
	x := f.next()
	switch v.Kind() {
	case reflect.Bool:
		v.SetBool(x&1 == 1)
	case reflect.Int, reflect.Int8, reflect.Int16, reflect.Int32, reflect.Int64:
		if v.Type() == reflect.TypeFor[time.Duration]() && x%3 == 0 {
			v.SetInt(int64(x % 1e12))
			return
		}
		v.SetInt(fillInts[x%uint64(len(fillInts))])
	case reflect.Uint, reflect.Uint8, reflect.Uint16, reflect.Uint32, reflect.Uint64, reflect.Uintptr:
		if x%2 == 0 {
			v.SetUint(math.MaxUint64)
		} else {
			v.SetUint(uint64(fillInts[x%uint64(len(fillInts))]))
		}
	case reflect.Float32, reflect.Float64:
		v.SetFloat(fillFloats[x%uint64(len(fillFloats))])
	case reflect.Complex64, reflect.Complex128:
		v.SetComplex(complex(1, 2))
	case reflect.String:
		v.SetString(fillStrings[x%uint64(len(fillStrings))])
	case reflect.Slice:
		if v.Type() == reflect.TypeFor[jsontext.Value]() {
			if x%5 != 0 {
				v.SetBytes([]byte(fillRaw[x%uint64(len(fillRaw))]))
			}
			return
		}
		n := int(x % 4)
		if x%7 == 0 || depth <= 0 {
			return // nil
		}
		v.Set(reflect.MakeSlice(v.Type(), n, n))
		for i := 0; i < n; i++ {
			fillValue(v.Index(i), f, depth-1)
		}
	case reflect.Array:
		for i := 0; i < v.Len(); i++ {
			fillValue(v.Index(i), f, depth-1)
		}
	case reflect.Map:
		if x%7 == 0 || depth <= 0 {
			return
		}
		n := int(x % 4)
		v.Set(reflect.MakeMap(v.Type()))
		for i := 0; i < n; i++ {
			k := reflect.New(v.Type().Key()).Elem()
			fillValue(k, f, 1)
			e := reflect.New(v.Type().Elem()).Elem()
			fillValue(e, f, depth-1)
			func() {
				defer func() { recover() }() // unhashable dynamic key inside an interface key
				v.SetMapIndex(k, e)
			}()
		}
	case reflect.Pointer:
		if x%4 == 0 || depth <= 0 {
			return
		}
		p := reflect.New(v.Type().Elem())
		fillValue(p.Elem(), f, depth-1)
		v.Set(p)
	case reflect.Interface:
		if v.Type() == reflect.TypeFor[error]() {
			if x%2 == 0 {
				v.Set(reflect.ValueOf(io.EOF))
			}
			return
		}
		if v.NumMethod() != 0 {
			return
		}
		var dyn any
		switch x % 12 {
		case 0:
			dyn = nil
		case 1:
			dyn = fillStrings[(x>>8)%uint64(len(fillStrings))]
		case 2:
			dyn = fillFloats[(x>>8)%uint64(len(fillFloats))]
		case 3:
			dyn = []any{1, "x", nil, map[string]any{"k": 1.5}}
		case 4:
			dyn = map[string]any{"b": 1, "a": []any{}, "\xff": nil}
		case 5:
			dyn = fillInts[(x>>8)%uint64(len(fillInts))]
		case 6:
			dyn = jsontext.Value(fillRaw[(x>>8)%uint64(len(fillRaw))])
		case 7:
			dyn = time.Unix(int64(x>>8)%4e9, 0).UTC()
		case 8:
			dyn = []byte("bytes")
		case 9:
			dyn = struct {
				A int `json:"a"`
				B *int
			}{A: 1}
		case 10:
			dyn = map[any]any{1: 2}
		default:
			dyn = true
		}
		if dyn != nil {
			v.Set(reflect.ValueOf(dyn))
		}
	case reflect.Struct:
		if v.Type() == reflect.TypeFor[time.Time]() {
			switch x % 4 {
			case 0:
			case 1:
				v.Set(reflect.ValueOf(time.Unix(int64(x>>8)%4e9, int64(x%1e9)).UTC()))
			case 2:
				v.Set(reflect.ValueOf(time.Date(10000, 1, 1, 0, 0, 0, 0, time.UTC))) // year out of RFC 3339 range
			default:
				v.Set(reflect.ValueOf(time.Unix(int64(x>>8)%4e9, 0).In(time.FixedZone("odd", 3723))))
			}
			return
		}
		for i := 0; i < v.NumField(); i++ {
			if v.Type().Field(i).IsExported() {
				fillValue(v.Field(i), f, depth-1)
			}
		}
	case reflect.Chan:
		if x%2 == 0 {
			v.Set(reflect.MakeChan(v.Type(), 0))
		}
	case reflect.Func:
		if x%2 == 0 && v.Type() == reflect.TypeFor[func()]() {
			v.Set(reflect.ValueOf(func() {}))
		}
	}
}

// RunVal decides one value-sweep case.
func RunVal(c ValCase) error {
	rec.Eval()
	opts, err := buildOpts(c.Opts)
	if err != nil {
		return err
	}
	typ, ok := buildType(c.Type)
	if !ok {
		rec.Class("sweep:values-type-not-buildable-by-reflect")
		return nil
	}
	cc := &callCounter{}
	raw, _ := json.Marshal(c)
	defer sweepEvidence("values", raw, cc, func() any {
		return map[string]any{"sweep": "values", "go_type": clipString(typ.String(), 300), "opts": c.Opts, "distinct_api_calls": len(cc.seen)}
	})
	rec.Class("sweep:values-top-kind=" + c.Type.K)
	pv := reflect.New(typ)
	if p := recoverHarness(func() { fillValue(pv.Elem(), &filler{w: c.Fill}, 5) }); p != nil {
		rec.Class("sweep:values-fill-rejected")
		return nil
	}
	val := pv.Interface() // pointer to the value
	var out []byte
	fresh := func() any { return reflect.New(typ).Interface() }
	steps := []struct {
		name string
		f    func()
	}{
		{"json.Marshal", func() {
			var err error
			out, err = jsonv2.Marshal(val, opts...)
			if err == nil {
				rec.Class("sweep:values-marshal-ok")
			} else {
				rec.Class("sweep:values-marshal-error")
			}
		}},
		{"json.Marshal(non-pointer)", func() { jsonv2.Marshal(pv.Elem().Interface(), opts...) }},
		{"json.MarshalWrite", func() { jsonv2.MarshalWrite(io.Discard, val, opts...) }},
		{"json.MarshalWrite(failing writer)", func() { jsonv2.MarshalWrite(&failWriter{left: int(c.Fill[0] % 64)}, val, opts...) }},
		{"json.MarshalEncode", func() {
			var buf bytes.Buffer
			e := jsontext.NewEncoder(&buf, opts...)
			e.WriteToken(jsontext.BeginArray)
			jsonv2.MarshalEncode(e, val)
			jsonv2.MarshalEncode(e, val, opts...)
			e.WriteToken(jsontext.EndArray)
		}},
		{"v1.Marshal", func() { jsonv1.Marshal(val) }},
		{"v1.MarshalIndent", func() { jsonv1.MarshalIndent(val, "", "\t") }},
		{"v1.Encoder.Encode", func() {
			e := jsonv1.NewEncoder(io.Discard)
			e.SetEscapeHTML(c.Fill[0]%2 == 0)
			e.SetIndent("", " ")
			e.Encode(val)
		}},
		{"json.Unmarshal(own output)", func() {
			if out != nil {
				jsonv2.Unmarshal(out, fresh(), opts...)
				jsonv2.Unmarshal(out, val, opts...) // merge into the populated value
			}
		}},
		{"v1.Unmarshal(own output)", func() {
			if out != nil {
				jsonv1.Unmarshal(out, fresh())
			}
		}},
		{"json.Unmarshal(foreign input)", func() {
			if c.Input != nil {
				jsonv2.Unmarshal(c.Input, fresh(), opts...)
				jsonv2.Unmarshal(c.Input, val, opts...)
				jsonv2.UnmarshalRead(&chunkReader{b: c.Input, n: 3}, fresh(), opts...)
			}
		}},
		{"v1.Unmarshal(foreign input)", func() {
			if c.Input != nil {
				jsonv1.Unmarshal(c.Input, fresh())
				d := jsonv1.NewDecoder(bytes.NewReader(c.Input))
				d.UseNumber()
				d.Decode(fresh())
			}
		}},
	}
	for _, s := range steps {
		if err := cc.guard(s.name, s.f); err != nil {
			return knownSweepPanic(c.Opts, fmt.Errorf("%v\nGo type %s opts %v input %q", err, clipString(typ.String(), 600), c.Opts, clipBytes(c.Input)))
		}
	}
	return nil
}

func recoverHarness(f func()) (p any) {
	defer func() { p = recover() }()
	f()
	return nil
}

func clipString(s string, n int) string {
	if len(s) > n {
		return s[:n] + "..."
	}
	return s
}

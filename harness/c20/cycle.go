package c20

import (
	"bufio"
	"bytes"
	"encoding/json"
	"fmt"
	"io"
	"os"
	"os/exec"
	"runtime/debug"
	"strings"
	"sync"
	"time"

	jsonv2 "github.com/go-json-experiment/json"
	"github.com/go-json-experiment/json/jsontext"
	jsonv1 "github.com/go-json-experiment/json/v1"
	"pgregory.net/rapid"

	"verif/harness/cov"
	"verif/harness/rt"
)

// Marshaling a cyclic value may, if the library recursed without bound, end
// in a fatal (unrecoverable) stack overflow. The call is therefore made in a
// child process: the test binary re-executes itself with childEnv set to the
// JSON of the case; a child that dies without printing its result line is a
// violation (instead of a dead shard, which the driver could only report as
// inconclusive).
const (
	childEnv    = "VERIF_C20_CHILD"
	childMarker = "C20CHILD-RESULT "
	childStack  = 64 << 20
	// childTimeout is generous: a case normally takes a few milliseconds.
	childTimeout = 150 * time.Second
)

// AliasOuter / AliasInner: &outer and &outer.Base are the same address with different types.
type AliasInner struct {
	V int `json:"v"`
}

type AliasOuter struct {
	Base    AliasInner  `json:"base"`
	Primary *AliasInner `json:"primary"`
}

// Box is a struct reached through a pointer and holding an interface.
type Box struct {
	V any `json:"v"`
}

// CycleCase describes a cyclic (or, for controls, acyclic) Go value and the
// marshal entry point.
type CycleCase struct {
	Family     string   `json:"family"`                // any | RS RM PS SP SI AR P
	Prefix     int      `json:"prefix"`                // acyclic nesting levels above the cycle
	PrefixKind string   `json:"prefix_kind,omitempty"` // any family: slice | map | box
	Nodes      []string `json:"nodes,omitempty"`       // any family: kinds of the nodes on the cycle: slice map box arr pany
	Len        int      `json:"len,omitempty"`         // typed families: number of nodes on the cycle
	Acyclic    bool     `json:"acyclic,omitempty"`     // control: the last node points to nothing
	Entry      string   `json:"entry"`
	Opt        string   `json:"opt,omitempty"` // default | deterministic | multiline | v1
}

type childResult struct {
	Done    bool   `json:"done"`
	Err     bool   `json:"err"`
	ErrType string `json:"err_type,omitempty"`
	ErrMsg  string `json:"err_msg,omitempty"`
	Panic   string `json:"panic,omitempty"`
	Harness string `json:"harness,omitempty"`
	OutLen  int    `json:"out_len"`
}

var cycleEntries = []string{"json.Marshal", "json.MarshalWrite", "json.MarshalEncode", "v1.Marshal", "v1.Encoder.Encode", "v1.MarshalIndent"}
var cycleOpts = []string{"default", "deterministic", "multiline", "v1"}
var anyNodeKinds = []string{"slice", "map", "box", "arr", "pany"}
var typedCycleFamilies = []string{"RS", "RM", "PS", "SP", "SI", "AR", "P"}

// growsDepth reports whether one lap around the cycle adds JSON nesting.
func (c CycleCase) growsDepth() bool {
	if c.Family == "any" {
		for _, n := range c.Nodes {
			if n != "pany" {
				return true
			}
		}
		return false
	}
	return c.Family != "P"
}

// KnownPointerOnlyCycle is the classifier of a finding on the unchanged tree:
// cycle detection only starts once the JSON nesting depth exceeds 1000
// (startDetectingCyclesAfter is compared with Tokens.Depth()), but a cycle
// made only of pointers / interfaces holding pointers adds no JSON nesting per
// lap, so below that depth Marshal recurses until the goroutine stack
// overflows (a fatal error that cannot be recovered).
const KnownPointerOnlyCycle = "pointer-only-cycle-below-depth-1000"

// quadraticOutput: an acyclic control marshals completely; with indentation
// its output grows with the square of the depth (100 MB at depth 10000).
func (c CycleCase) quadraticOutput() bool {
	return c.Acyclic && c.Prefix > 2000 && (c.Entry == "v1.MarshalIndent" || c.Opt == "multiline")
}

func (c CycleCase) hitsPointerOnlyCycle() bool {
	return !c.Acyclic && !c.growsDepth() && c.Prefix < 1000
}

// build constructs the value (child process only).
func (c CycleCase) build() (any, error) {
	switch c.Family {
	case "any":
		if len(c.Nodes) == 0 {
			return nil, fmt.Errorf("no nodes")
		}
		type node struct {
			val any
			set func(next any)
		}
		nodes := make([]node, len(c.Nodes))
		for i, k := range c.Nodes {
			switch k {
			case "slice":
				s := make([]any, 1)
				nodes[i] = node{s, func(n any) { s[0] = n }}
			case "map":
				m := map[string]any{}
				nodes[i] = node{m, func(n any) { m["m"] = n }}
			case "box":
				b := &Box{}
				nodes[i] = node{b, func(n any) { b.V = n }}
			case "arr":
				a := &[1]any{}
				nodes[i] = node{a, func(n any) { a[0] = n }}
			case "pany":
				p := new(any)
				nodes[i] = node{p, func(n any) { *p = n }}
			default:
				return nil, fmt.Errorf("unknown node kind %q", k)
			}
		}
		for i := range nodes {
			if i+1 < len(nodes) {
				nodes[i].set(nodes[i+1].val)
			} else if !c.Acyclic {
				nodes[i].set(nodes[0].val)
			}
		}
		cur := nodes[0].val
		for i := 0; i < c.Prefix; i++ {
			switch c.PrefixKind {
			case "", "slice":
				cur = []any{cur}
			case "map":
				cur = map[string]any{"m": cur}
			case "box":
				cur = &Box{V: cur}
			default:
				return nil, fmt.Errorf("unknown prefix kind %q", c.PrefixKind)
			}
		}
		return cur, nil
	case "RS":
		n := max(c.Len, 1)
		nodes := make([]RS, n)
		for i := range nodes {
			nodes[i] = make(RS, 1)
		}
		for i := range nodes {
			if i+1 < n {
				nodes[i][0] = nodes[i+1]
			} else if !c.Acyclic {
				nodes[i][0] = nodes[0]
			}
		}
		cur := nodes[0]
		for i := 0; i < c.Prefix; i++ {
			cur = RS{cur}
		}
		return cur, nil
	case "alias":
		// Acyclic values in which two live pointers of different types hold the
		// same address (a struct and its first field) and in which one pointer
		// is reached twice as a sibling: neither is a cycle.
		if !c.Acyclic {
			return nil, fmt.Errorf("family alias only builds acyclic values")
		}
		x := &AliasOuter{}
		x.Base.V = 7
		x.Primary = &x.Base
		shared := &AliasInner{V: 9}
		var cur any = []any{x, shared, shared, &x.Base}
		for i := 0; i < c.Prefix; i++ {
			cur = []any{cur}
		}
		return cur, nil
	case "RSsub":
		// The classic false-positive trap: a slice that contains a shorter
		// slice of its own backing array (same data pointer, different
		// length). Acyclic by construction.
		if !c.Acyclic {
			return nil, fmt.Errorf("family RSsub only builds acyclic values")
		}
		backing := make(RS, 2)
		backing[0] = RS{}
		x := backing[:2]
		x[1] = backing[:1]
		cur := x
		for i := 0; i < c.Prefix; i++ {
			cur = RS{cur}
		}
		return cur, nil
	case "RM":
		n := max(c.Len, 1)
		nodes := make([]RM, n)
		for i := range nodes {
			nodes[i] = RM{}
		}
		for i := range nodes {
			if i+1 < n {
				nodes[i]["m"] = nodes[i+1]
			} else if !c.Acyclic {
				nodes[i]["m"] = nodes[0]
			}
		}
		cur := nodes[0]
		for i := 0; i < c.Prefix; i++ {
			cur = RM{"m": cur}
		}
		return cur, nil
	case "PS":
		n := max(c.Len, 1)
		nodes := make([]*PS, n)
		for i := range nodes {
			nodes[i] = &PS{nil}
		}
		for i := range nodes {
			if i+1 < n {
				(*nodes[i])[0] = nodes[i+1]
			} else if !c.Acyclic {
				(*nodes[i])[0] = nodes[0]
			}
		}
		cur := nodes[0]
		for i := 0; i < c.Prefix; i++ {
			cur = &PS{cur}
		}
		return cur, nil
	case "SP":
		n := max(c.Len, 1)
		nodes := make([]*SP, n)
		for i := range nodes {
			nodes[i] = &SP{}
		}
		for i := range nodes {
			if i+1 < n {
				nodes[i].M = nodes[i+1]
			} else if !c.Acyclic {
				nodes[i].M = nodes[0]
			}
		}
		cur := nodes[0]
		for i := 0; i < c.Prefix; i++ {
			cur = &SP{M: cur}
		}
		return cur, nil
	case "SI":
		n := max(c.Len, 1)
		nodes := make([]*SI, n)
		for i := range nodes {
			nodes[i] = &SI{}
		}
		for i := range nodes {
			if i+1 < n {
				nodes[i].M = nodes[i+1]
			} else if !c.Acyclic {
				nodes[i].M = nodes[0]
			}
		}
		var cur any = nodes[0]
		for i := 0; i < c.Prefix; i++ {
			cur = SI{M: cur}
		}
		return cur, nil
	case "AR":
		n := max(c.Len, 1)
		nodes := make([]*AR, n)
		for i := range nodes {
			nodes[i] = &AR{}
		}
		for i := range nodes {
			if i+1 < n {
				nodes[i][0] = nodes[i+1]
			} else if !c.Acyclic {
				nodes[i][0] = nodes[0]
			}
		}
		cur := nodes[0]
		for i := 0; i < c.Prefix; i++ {
			cur = &AR{cur}
		}
		return cur, nil
	case "P":
		n := max(c.Len, 1)
		nodes := make([]P, n)
		for i := range nodes {
			nodes[i] = new(P)
		}
		for i := range nodes {
			if i+1 < n {
				*nodes[i] = nodes[i+1]
			} else if !c.Acyclic {
				*nodes[i] = nodes[0]
			}
		}
		var cur any = nodes[0]
		for i := 0; i < c.Prefix; i++ {
			cur = []any{cur}
		}
		return cur, nil
	}
	return nil, fmt.Errorf("unknown family %q", c.Family)
}

func (c CycleCase) call(v any) (int, error) {
	var opts []jsontext.Options
	switch c.Opt {
	case "", "default":
	case "deterministic":
		opts = append(opts, jsonv2.Deterministic(true))
	case "multiline":
		opts = append(opts, jsontext.Multiline(true), jsontext.WithIndent(" "))
	case "v1":
		opts = append(opts, jsonv1.DefaultOptionsV1())
	default:
		return 0, fmt.Errorf("harness: unknown option set %q", c.Opt)
	}
	cw := &countWriter{}
	switch c.Entry {
	case "json.Marshal":
		b, err := jsonv2.Marshal(v, opts...)
		return len(b), err
	case "json.MarshalWrite":
		err := jsonv2.MarshalWrite(cw, v, opts...)
		return cw.n, err
	case "json.MarshalEncode":
		err := jsonv2.MarshalEncode(jsontext.NewEncoder(cw, opts...), v)
		return cw.n, err
	case "v1.Marshal":
		b, err := jsonv1.Marshal(v)
		return len(b), err
	case "v1.MarshalIndent":
		b, err := jsonv1.MarshalIndent(v, "", " ")
		return len(b), err
	case "v1.Encoder.Encode":
		err := jsonv1.NewEncoder(cw).Encode(v)
		return cw.n, err
	}
	return 0, fmt.Errorf("harness: unknown entry %q", c.Entry)
}

type countWriter struct{ n int }

func (w *countWriter) Write(p []byte) (int, error) { w.n += len(p); return len(p), nil }

// childMain runs in the re-executed test binary: it serves cases, one JSON
// line in, one result line out, until stdin is closed.
func childMain() {
	debug.SetMaxStack(childStack)
	in := bufio.NewReaderSize(os.Stdin, 1<<16)
	for {
		line, err := in.ReadBytes('\n')
		if len(bytes.TrimSpace(line)) > 0 {
			res := childRunOne(bytes.TrimSpace(line))
			out, _ := json.Marshal(res)
			fmt.Fprintf(os.Stdout, "%s%s\n", childMarker, out)
		}
		if err != nil {
			os.Exit(0)
		}
	}
}

func childRunOne(raw []byte) (res childResult) {
	if len(raw) > 0 && raw[0] == 'I' {
		return childRunIndent(raw[1:])
	}
	var c CycleCase
	if err := json.Unmarshal(raw, &c); err != nil {
		res.Harness = "bad case: " + err.Error()
		return res
	}
	v, err := c.build()
	if err != nil {
		res.Harness = "cannot build: " + err.Error()
		return res
	}
	defer func() {
		if r := recover(); r != nil {
			res.Panic = fmt.Sprint(r)
			st := string(debug.Stack())
			if len(st) > 1500 {
				st = st[:1500]
			}
			res.Panic += "\n" + st
			res.Done = true
		}
	}()
	n, err := c.call(v)
	res.OutLen = n
	if err != nil {
		res.Err = true
		res.ErrType = fmt.Sprintf("%T", err)
		res.ErrMsg = err.Error()
		if len(res.ErrMsg) > 200 {
			res.ErrMsg = res.ErrMsg[:100] + " ... " + res.ErrMsg[len(res.ErrMsg)-90:]
		}
		if strings.HasPrefix(res.ErrMsg, "harness:") {
			res.Harness = res.ErrMsg
		}
	}
	res.Done = true
	return res
}

// childProc is the running worker process (restarted after a crash). It is
// only a process cache: every verdict depends on the case alone.
type childProc struct {
	cmd    *exec.Cmd
	stdin  io.WriteCloser
	lines  chan []byte // result lines; closed when the child's stdout ends
	stderr *bytes.Buffer
}

var (
	workerMu sync.Mutex
	worker   *childProc
)

func startWorker() (*childProc, error) {
	exe, err := os.Executable()
	if err != nil {
		return nil, fmt.Errorf("harness: os.Executable: %v", err)
	}
	cmd := exec.Command(exe, "-test.run", "^$")
	cmd.Env = append(os.Environ(), childEnv+"=server", "VERIF_OUT=", "VERIF_REPLAY=", "GOMAXPROCS=2", "GOTRACEBACK=none")
	w := &childProc{cmd: cmd, lines: make(chan []byte, 4), stderr: &bytes.Buffer{}}
	cmd.Stderr = &limitWriter{w: w.stderr, left: 4000}
	if w.stdin, err = cmd.StdinPipe(); err != nil {
		return nil, fmt.Errorf("harness: %v", err)
	}
	stdout, err := cmd.StdoutPipe()
	if err != nil {
		return nil, fmt.Errorf("harness: %v", err)
	}
	if err := cmd.Start(); err != nil {
		return nil, fmt.Errorf("harness: cannot start child process: %v", err)
	}
	go func() {
		rd := bufio.NewReaderSize(stdout, 1<<16)
		for {
			line, err := rd.ReadBytes('\n')
			if i := bytes.Index(line, []byte(childMarker)); i >= 0 {
				w.lines <- bytes.TrimSpace(line[i+len(childMarker):])
			}
			if err != nil {
				close(w.lines)
				return
			}
		}
	}()
	return w, nil
}

func (w *childProc) kill() {
	w.stdin.Close()
	w.cmd.Process.Kill()
	w.cmd.Wait()
}

// runChild executes the case in the child process. crashed is non-empty if
// the child died (or hung) without reporting.
func runChild(c CycleCase) (res childResult, crashed string, herr error) {
	raw, _ := json.Marshal(c)
	return runChildRaw(raw, childTimeout)
}

func runChildRaw(raw []byte, timeout time.Duration) (res childResult, crashed string, herr error) {
	workerMu.Lock()
	defer workerMu.Unlock()
	if worker == nil {
		w, err := startWorker()
		if err != nil {
			return res, "", err
		}
		worker = w
	}
	w := worker
	if _, err := w.stdin.Write(append(raw, '\n')); err != nil {
		// the idle worker died between cases: restart once
		w.kill()
		worker = nil
		w2, err2 := startWorker()
		if err2 != nil {
			return res, "", err2
		}
		worker, w = w2, w2
		if _, err := w.stdin.Write(append(raw, '\n')); err != nil {
			return res, "", fmt.Errorf("harness: cannot talk to the child process: %v", err)
		}
	}
	timer := time.NewTimer(timeout)
	defer timer.Stop()
	select {
	case line, ok := <-w.lines:
		if !ok {
			werr := w.cmd.Wait()
			worker = nil
			msg := w.stderr.String()
			if len(msg) > 700 {
				msg = msg[:700]
			}
			return res, fmt.Sprintf("child process died (%v) without a result; stderr: %s", werr, strings.TrimSpace(msg)), nil
		}
		if err := json.Unmarshal(line, &res); err != nil {
			return res, "", fmt.Errorf("harness: bad child result %q: %v", line, err)
		}
		return res, "", nil
	case <-timer.C:
		w.kill()
		worker = nil
		return res, fmt.Sprintf("child process did not finish the call within %v (killed)", timeout), nil
	}
}

type limitWriter struct {
	w    io.Writer
	left int
}

func (l *limitWriter) Write(p []byte) (int, error) {
	if l.left > 0 {
		n := min(l.left, len(p))
		l.w.Write(p[:n])
		l.left -= n
	}
	return len(p), nil
}

func (c CycleCase) describe() string {
	if c.Family == "any" {
		return fmt.Sprintf("cycle through %v below %d %s levels", c.Nodes, c.Prefix, c.PrefixKind)
	}
	return fmt.Sprintf("cycle of %d %s nodes below %d levels", max(c.Len, 1), c.Family, c.Prefix)
}

// RunCycle decides one cycle case.
func RunCycle(c CycleCase) error {
	rec.Eval()
	raw, _ := json.Marshal(c)
	fp := cov.FP(raw)
	if !c.Acyclic {
		rec.NonTrivial(fp)
	}
	rec.Sample(fp, func() any { return c })
	rec.Class("cycle:entry=" + c.Entry)
	if c.Family == "any" {
		for _, n := range c.Nodes {
			rec.Class("cycle:through-" + n)
		}
		if len(c.Nodes) > 1 {
			rec.Class("cycle:len>1")
		} else {
			rec.Class("cycle:self")
		}
	} else if c.Family == "RSsub" {
		rec.Class("cycle:control-slice-of-own-backing-array")
	} else if c.Family == "alias" {
		rec.Class("cycle:control-interior-and-shared-pointers")
	} else {
		rec.Class("cycle:through-" + c.Family)
		if c.Len > 1 {
			rec.Class("cycle:len>1")
		} else {
			rec.Class("cycle:self")
		}
	}
	switch {
	case c.Acyclic:
		rec.Class("cycle:acyclic-control")
	case c.Prefix > 1000:
		rec.Class("cycle:prefix>1000")
	case c.Prefix > 0:
		rec.Class("cycle:prefix1..1000")
	default:
		rec.Class("cycle:prefix0")
	}
	if !c.growsDepth() {
		rec.Class("cycle:pointer-only")
	}

	res, crashed, herr := runChild(c)
	if herr != nil {
		return herr
	}
	var verr error
	switch {
	case crashed != "":
		verr = fmt.Errorf("%s of a Go value with a %s: %s", c.Entry, c.describe(), crashed)
	case res.Harness != "":
		return fmt.Errorf("harness: child: %s", res.Harness)
	case res.Panic != "":
		verr = fmt.Errorf("%s of a Go value with a %s panicked: %s", c.Entry, c.describe(), res.Panic)
	case c.Acyclic && res.Err:
		verr = fmt.Errorf("%s of an ACYCLIC value (%s, last node points to nothing) failed: %s %s", c.Entry, c.describe(), res.ErrType, res.ErrMsg)
	case !c.Acyclic && !res.Err:
		verr = fmt.Errorf("%s of a Go value with a %s returned no error (%d bytes of output)", c.Entry, c.describe(), res.OutLen)
	}
	if verr != nil && crashed != "" && c.hitsPointerOnlyCycle() {
		return rt.Known(KnownPointerOnlyCycle, verr)
	}
	return verr
}

// ---------------------------------------------------------------------------

var cyclePrefixes = []int{0, 1, 2, 500, 998, 999, 1000, 1001, 1002, 1500, 5000, 9000, 9990, 9998, 9999}

// enumCycles: every node kind / typed family x self and 2-cycles x prefixes x entries.
func enumCycles(e *rt.Env, yield func(CycleCase) bool) {
	var idx, total int64
	complete := true
	emit := func(c CycleCase) bool {
		if excludePointerOnlyCycle && c.hitsPointerOnlyCycle() {
			e.Rec.Excluded(KnownPointerOnlyCycle)
			return true
		}
		if c.quadraticOutput() {
			return true // indented output of a deep ACYCLIC value is ~depth^2 bytes: not enumerated
		}
		idx++
		if !e.Mine(idx) {
			return true
		}
		total++
		if !yield(c) {
			complete = false
			return false
		}
		return true
	}
	entries := cycleEntries
	func() {
		for _, pre := range cyclePrefixes {
			for ei, entry := range entries {
				for _, k := range anyNodeKinds {
					for _, pk := range []string{"slice", "map", "box"} {
						if !e.Thorough() && pk != []string{"slice", "map", "box"}[(ei+pre)%3] {
							continue
						}
						if !emit(CycleCase{Family: "any", Prefix: pre, PrefixKind: pk, Nodes: []string{k}, Entry: entry}) {
							return
						}
						for _, k2 := range anyNodeKinds {
							if !e.Thorough() && entry != "json.Marshal" {
								continue
							}
							if !emit(CycleCase{Family: "any", Prefix: pre, PrefixKind: pk, Nodes: []string{k, k2}, Entry: entry}) {
								return
							}
						}
					}
				}
				// acyclic controls: must marshal without error (shared / overlapping
				// storage is not a cycle); prefix + nodes stays within the depth limit
				if pre <= 9990 {
					if !emit(CycleCase{Family: "RSsub", Prefix: pre, Acyclic: true, Entry: entry}) {
						return
					}
					if !emit(CycleCase{Family: "alias", Prefix: pre, Acyclic: true, Entry: entry}) {
						return
					}
					if !emit(CycleCase{Family: "any", Prefix: pre, PrefixKind: "slice", Nodes: anyNodeKinds, Acyclic: true, Entry: entry}) {
						return
					}
					if !emit(CycleCase{Family: typedCycleFamilies[(ei+pre)%len(typedCycleFamilies)], Prefix: pre, Len: 3, Acyclic: true, Entry: entry}) {
						return
					}
				}
				for _, fam := range typedCycleFamilies {
					for _, n := range []int{1, 2, 3} {
						if !e.Thorough() && n == 3 {
							continue
						}
						if !emit(CycleCase{Family: fam, Prefix: pre, Len: n, Entry: entry}) {
							return
						}
					}
				}
			}
		}
	}()
	tier := "quick subset: one prefix kind per (prefix, entry), 2-cycles via json.Marshal only"
	if e.Thorough() {
		tier = "all"
	}
	e.Rec.AddPart(cov.Part{Name: "cycles: node kinds {slice,map,box(struct ptr+iface),array ptr,pointer-to-interface} self and 2-cycles, typed families RS RM PS SP SI AR P with cycle length 1..3, x 15 prefix depths 0..9999 x 6 marshal entry points (" + tier + ")", Size: total, Complete: complete})
}

func genCycleCase(t *rapid.T) CycleCase {
	c := CycleCase{Entry: rapid.SampledFrom(cycleEntries).Draw(t, "entry")}
	if strings.HasPrefix(c.Entry, "json.") {
		c.Opt = rapid.SampledFrom(cycleOpts).Draw(t, "opt")
	}
	if rapid.Bool().Draw(t, "nearprefix") {
		c.Prefix = rapid.SampledFrom(cyclePrefixes).Draw(t, "prefix")
	} else {
		c.Prefix = rapid.IntRange(0, 9999).Draw(t, "prefixany")
	}
	if rapid.IntRange(0, 2).Draw(t, "typed") == 0 {
		c.Family = rapid.SampledFrom(typedCycleFamilies).Draw(t, "family")
		c.Len = rapid.IntRange(1, 6).Draw(t, "len")
	} else {
		c.Family = "any"
		c.PrefixKind = rapid.SampledFrom([]string{"slice", "map", "box"}).Draw(t, "prefixkind")
		c.Nodes = rapid.SliceOfN(rapid.SampledFrom(anyNodeKinds), 1, 6).Draw(t, "nodes")
	}
	if c.Opt == "multiline" && c.Prefix > 3000 {
		c.Prefix = 3000 // indentation output is quadratic in depth
	}
	if rapid.IntRange(0, 9).Draw(t, "acyclic") == 0 {
		c.Acyclic = true // control: same construction, last node points to nothing
		c.Prefix = min(c.Prefix, 9990)
		if rapid.Bool().Draw(t, "rssub") {
			c.Family, c.Nodes, c.Len = "RSsub", nil, 0
		}
		if c.quadraticOutput() {
			c.Prefix = 2000
		}
	}
	if excludePointerOnlyCycle && c.hitsPointerOnlyCycle() {
		// listed finding: avoided by construction (counted): move the cycle below depth 1000
		rec.Excluded(KnownPointerOnlyCycle)
		c.Prefix += 1000
	}
	return c
}

// cycleSelfTest checks the child-process machinery with acyclic controls.
func cycleSelfTest(e *rt.Env) {
	for _, c := range []CycleCase{
		{Family: "any", Prefix: 1500, PrefixKind: "slice", Nodes: []string{"slice", "map", "box", "arr", "pany"}, Acyclic: true, Entry: "json.Marshal"},
		{Family: "SP", Prefix: 1200, Len: 3, Acyclic: true, Entry: "json.MarshalWrite"},
		{Family: "P", Prefix: 10, Len: 3, Acyclic: true, Entry: "v1.Marshal"},
	} {
		res, crashed, herr := runChild(c)
		switch {
		case herr != nil:
			e.OracleFail("cycle self-test: " + herr.Error())
		case crashed != "":
			e.OracleFail("cycle self-test: acyclic control crashed: " + crashed)
		case !res.Done || res.Err || res.Panic != "" || res.Harness != "":
			e.OracleFail(fmt.Sprintf("cycle self-test: acyclic control did not marshal cleanly: %+v", res))
		}
	}
}

// ---------------------------------------------------------------------------
// Hang probe: one v1.Indent call made in the child process under a timeout.
// It exists for the regression file of a finding on the unchanged tree (an
// in-process replay of a non-terminating call could not be stopped).

// IndentCase is one v1.Indent call.
type IndentCase struct {
	Src    []byte `json:"src"`
	Prefix string `json:"prefix"`
	Indent string `json:"indent"`
}

// KnownV1IndentHang: v1.Indent with a prefix that has a non-blank character
// and an EMPTY indent never terminates when src ends in whitespace holding a
// newline followed by more spaces than len(prefix): the deferred fix-up in
// v1/indent.go (appendIndent) takes the copied trailing spaces for
// indentation and loops on `spaces = spaces[copy(spaces, invalidIndent):]`,
// which makes no progress for an empty indent. std encoding/json returns.
const KnownV1IndentHang = "v1-indent-nonblank-prefix-empty-indent-hang"

// hitsV1IndentHang is the (slightly over-approximating) construction-time predicate.
func hitsV1IndentHang(prefix, indent string) bool {
	return indent == "" && strings.Trim(prefix, " \t") != ""
}

// A v1.Indent call takes microseconds. Cases matching the listed finding are
// expected to hang and get a short budget (the regression replay pays it on
// every run); all others get a budget that no machine load can exhaust.
const (
	indentProbeTimeoutKnown = 8 * time.Second
	indentProbeTimeout      = 90 * time.Second
)

func childRunIndent(raw []byte) (res childResult) {
	var c IndentCase
	if err := json.Unmarshal(raw, &c); err != nil {
		res.Harness = "bad case: " + err.Error()
		return res
	}
	defer func() {
		if r := recover(); r != nil {
			res.Panic = fmt.Sprint(r)
			res.Done = true
		}
	}()
	var buf bytes.Buffer
	err := jsonv1.Indent(&buf, c.Src, c.Prefix, c.Indent)
	res.Err = err != nil
	res.OutLen = buf.Len()
	res.Done = true
	return res
}

// RunIndentProbe decides one hang-probe case.
func RunIndentProbe(c IndentCase) error {
	rec.Eval()
	rec.Class("hang-probe:v1.Indent")
	raw, _ := json.Marshal(c)
	timeout := indentProbeTimeout
	if excludeV1IndentHang && hitsV1IndentHang(c.Prefix, c.Indent) {
		timeout = indentProbeTimeoutKnown
	}
	res, crashed, herr := runChildRaw(append([]byte("I"), raw...), timeout)
	if herr != nil {
		return herr
	}
	switch {
	case crashed != "":
		err := fmt.Errorf("v1.Indent(dst, %q, %q, %q): %s", c.Src, c.Prefix, c.Indent, crashed)
		if excludeV1IndentHang && hitsV1IndentHang(c.Prefix, c.Indent) {
			return rt.Known(KnownV1IndentHang, err)
		}
		return err
	case res.Harness != "":
		return fmt.Errorf("harness: child: %s", res.Harness)
	case res.Panic != "":
		return fmt.Errorf("v1.Indent(dst, %q, %q, %q) panicked: %s", c.Src, c.Prefix, c.Indent, res.Panic)
	}
	return nil
}

func genIndentProbe(t *rapid.T) IndentCase {
	c := IndentCase{
		Prefix: rapid.SampledFrom([]string{"", " ", "\t", ">", "//", "é", "> "}).Draw(t, "prefix"),
		Indent: rapid.SampledFrom([]string{"", " ", "\t", "--", "x"}).Draw(t, "indent"),
	}
	c.Src = append([]byte(rapid.SampledFrom([]string{"1", "[1,2]", `{"a":[]}`, " [ ]", "[", "{}x"}).Draw(t, "doc")),
		rapid.SampledFrom([]string{"", " ", "\n", "\n ", "\n  ", "\n   \n     ", "\t\n\t ", " \r\n  "}).Draw(t, "trail")...)
	if excludeV1IndentHang && hitsV1IndentHang(c.Prefix, c.Indent) {
		rec.Excluded(KnownV1IndentHang)
		c.Indent = " "
	}
	return c
}

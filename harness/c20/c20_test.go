package c20

import (
	"os"
	"runtime/debug"
	"strings"
	"testing"

	"verif/harness/rt"
)

func TestMain(m *testing.M) {
	if os.Getenv(childEnv) != "" {
		childMain()
		return
	}
	// A runaway recursion must fail fast instead of eating memory.
	debug.SetMaxStack(512 << 20)
	os.Exit(m.Run())
}

// want reports whether a sub-check group runs. VERIF_C20_SUBS (development
// aid, e.g. "depth,cycle") restricts a run to some groups; the registered
// commands never set it, so they always run everything.
func want(group string) bool {
	f := os.Getenv("VERIF_C20_SUBS")
	if f == "" {
		return true
	}
	for _, g := range strings.Split(f, ",") {
		if g == group {
			return true
		}
	}
	return false
}

func TestCheck(t *testing.T) {
	e := rt.Setup(t, "C20")
	defer e.Finish()
	rec = e.Rec
	skip := func(group string) bool { return !e.Replaying() && !want(group) }

	// 1. depth limit: 10000 accepted, 10001 refused with an error, on every path
	if !skip("depth") {
		rt.Enum(e, "depth-enum", func(yield func(DepthCase) bool) { enumDepth(e, yield) }, RunDepth)
		rt.Enum(e, "depth-indent-tab", func(yield func(DepthCase) bool) { enumIndentTab(e, yield) }, RunDepth)
		rt.Rapid(e, "depth-random", 1600, 24000, genDepthCase, RunDepth)
	} else {
		rt.Only(e, "depth-enum", RunDepth)
		rt.Only(e, "depth-indent-tab", RunDepth)
		rt.Only(e, "depth-random", RunDepth)
	}

	// 2. cyclic Go values (marshaled in a child process: a fatal stack
	// overflow there is a violation, not a dead shard)
	if !skip("cycle") {
		if !e.Replaying() {
			cycleSelfTest(e)
		}
		rt.Enum(e, "cycle-enum", func(yield func(CycleCase) bool) { enumCycles(e, yield) }, RunCycle)
		rt.Rapid(e, "cycle-random", 1600, 24000, genCycleCase, RunCycle)
	} else {
		rt.Only(e, "cycle-enum", RunCycle)
		rt.Only(e, "cycle-random", RunCycle)
	}

	// 3. panic-only sweep
	if !skip("sweep") {
		rt.Rapid(e, "hang-probe", 400, 4000, genIndentProbe, RunIndentProbe)
		rt.Rapid(e, "sweep-text", 24_000, 200_000, genTextCase, RunText)
		rt.Rapid(e, "sweep-decoder-script", 100_000, 1_000_000, genDecScript, RunDecScript)
		rt.Rapid(e, "sweep-encoder-script", 80_000, 800_000, genEncScript, RunEncScript)
		rt.Rapid(e, "sweep-values", 100_000, 1_000_000, genValCase, RunVal)
	} else {
		rt.Only(e, "hang-probe", RunIndentProbe)
		rt.Only(e, "sweep-text", RunText)
		rt.Only(e, "sweep-decoder-script", RunDecScript)
		rt.Only(e, "sweep-encoder-script", RunEncScript)
		rt.Only(e, "sweep-values", RunVal)
	}
}

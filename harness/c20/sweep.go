package c20

import (
	"bytes"
	"encoding/json"
	"errors"
	"fmt"
	"io"
	"math"
	"strings"
	"time"

	jsonv2 "github.com/go-json-experiment/json"
	"github.com/go-json-experiment/json/jsontext"
	jsonv1 "github.com/go-json-experiment/json/v1"
	"pgregory.net/rapid"

	"verif/harness/cov"
	"verif/harness/gen"
	"verif/harness/ref"
	"verif/harness/rt"
)

// The panic-only sweep: the panic / timeout monitor is the ONLY oracle.
// Documented API misuse is never performed, hence every recovered panic is a
// violation.

// ---------------------------------------------------------------------------
// Named options (plain data in the case).

var optAtoms = map[string]func() jsontext.Options{
	"allowdup":        func() jsontext.Options { return jsontext.AllowDuplicateNames(true) },
	"allowutf8":       func() jsontext.Options { return jsontext.AllowInvalidUTF8(true) },
	"html":            func() jsontext.Options { return jsontext.EscapeForHTML(true) },
	"js":              func() jsontext.Options { return jsontext.EscapeForJS(true) },
	"preserve":        func() jsontext.Options { return jsontext.PreserveRawStrings(true) },
	"canonints":       func() jsontext.Options { return jsontext.CanonicalizeRawInts(true) },
	"canonfloats":     func() jsontext.Options { return jsontext.CanonicalizeRawFloats(true) },
	"reorder":         func() jsontext.Options { return jsontext.ReorderRawObjects(true) },
	"spacecolon":      func() jsontext.Options { return jsontext.SpaceAfterColon(true) },
	"spacecomma":      func() jsontext.Options { return jsontext.SpaceAfterComma(true) },
	"nospacecolon":    func() jsontext.Options { return jsontext.SpaceAfterColon(false) },
	"multiline":       func() jsontext.Options { return jsontext.Multiline(true) },
	"nomultiline":     func() jsontext.Options { return jsontext.Multiline(false) },
	"indent-empty":    func() jsontext.Options { return jsontext.WithIndent("") },
	"indent-2sp":      func() jsontext.Options { return jsontext.WithIndent("  ") },
	"indent-tabsp":    func() jsontext.Options { return jsontext.WithIndent("\t ") },
	"prefix-tab":      func() jsontext.Options { return jsontext.WithIndentPrefix("\t") },
	"prefix-3sp":      func() jsontext.Options { return jsontext.WithIndentPrefix("   ") },
	"deterministic":   func() jsontext.Options { return jsonv2.Deterministic(true) },
	"stringify":       func() jsontext.Options { return jsonv2.StringifyNumbers(true) },
	"nilslicenull":    func() jsontext.Options { return jsonv2.FormatNilSliceAsNull(true) },
	"nilmapnull":      func() jsontext.Options { return jsonv2.FormatNilMapAsNull(true) },
	"omitzero":        func() jsontext.Options { return jsonv2.OmitZeroStructFields(true) },
	"caseinsensitive": func() jsontext.Options { return jsonv2.MatchCaseInsensitiveNames(true) },
	"rejectunknown":   func() jsontext.Options { return jsonv2.RejectUnknownMembers(true) },
	"formattag":       func() jsontext.Options { return jsonv2.ExperimentalSupportFormatTag(true) },
	"v2defaults":      func() jsontext.Options { return jsonv2.DefaultOptionsV2() },
	"v1defaults":      func() jsontext.Options { return jsonv1.DefaultOptionsV1() },
	"v1:callmethods":  func() jsontext.Options { return jsonv1.CallMethodsWithLegacySemantics(true) },
	"v1:bytearray":    func() jsontext.Options { return jsonv1.FormatByteArrayAsArray(true) },
	"v1:byteslegacy":  func() jsontext.Options { return jsonv1.FormatBytesWithLegacySemantics(true) },
	"v1:durationnano": func() jsontext.Options { return jsonv1.FormatDurationAsNano(true) },
	"v1:casedelim":    func() jsontext.Options { return jsonv1.MatchCaseSensitiveDelimiter(true) },
	"v1:merge":        func() jsontext.Options { return jsonv1.MergeWithLegacySemantics(true) },
	"v1:omitempty":    func() jsontext.Options { return jsonv1.OmitEmptyWithLegacySemantics(true) },
	"v1:loosebytes":   func() jsontext.Options { return jsonv1.ParseBytesWithLooseRFC4648(true) },
	"v1:loosetime":    func() jsontext.Options { return jsonv1.ParseTimeWithLooseRFC3339(true) },
	"v1:errors":       func() jsontext.Options { return jsonv1.ReportErrorsWithLegacySemantics(true) },
	"v1:stringify":    func() jsontext.Options { return jsonv1.StringifyWithLegacySemantics(true) },
	"v1:arraylen":     func() jsontext.Options { return jsonv1.UnmarshalArrayFromAnyLength(true) },
}

// Well-behaved user functions (legal type parameters, exactly one value
// written / read, or errors.ErrUnsupported to decline).
var sweepMarshalers = jsonv2.JoinMarshalers(
	jsonv2.MarshalFunc(func(v int) ([]byte, error) { return []byte(`"int"`), nil }),
	jsonv2.MarshalToFunc(func(enc *jsontext.Encoder, v string) error {
		if len(v) > 3 {
			return errors.ErrUnsupported
		}
		return enc.WriteToken(jsontext.String("s:" + v))
	}),
	jsonv2.MarshalFunc(func(v bool) ([]byte, error) { return nil, errors.ErrUnsupported }),
	jsonv2.MarshalToFunc(func(enc *jsontext.Encoder, v *float64) error {
		if err := enc.WriteToken(jsontext.BeginArray); err != nil {
			return err
		}
		if err := enc.WriteToken(jsontext.Float(*v)); err != nil {
			return err
		}
		return enc.WriteToken(jsontext.EndArray)
	}),
	jsonv2.MarshalFunc(func(v error) ([]byte, error) { return []byte(`"error"`), nil }),
)

var sweepUnmarshalers = jsonv2.JoinUnmarshalers(
	jsonv2.UnmarshalFunc(func(b []byte, v *int) error { *v = len(b); return nil }),
	jsonv2.UnmarshalFromFunc(func(dec *jsontext.Decoder, v *string) error {
		if dec.PeekKind() != '"' {
			return errors.ErrUnsupported
		}
		val, err := dec.ReadValue()
		*v = string(val)
		return err
	}),
	jsonv2.UnmarshalFunc(func(b []byte, v *bool) error { return errors.ErrUnsupported }),
	jsonv2.UnmarshalFromFunc(func(dec *jsontext.Decoder, v *any) error {
		if dec.PeekKind() != '[' {
			return errors.ErrUnsupported
		}
		*v = "array"
		return dec.SkipValue()
	}),
)

func init() {
	optAtoms["marshalers"] = func() jsontext.Options { return jsonv2.WithMarshalers(sweepMarshalers) }
	optAtoms["unmarshalers"] = func() jsontext.Options { return jsonv2.WithUnmarshalers(sweepUnmarshalers) }
	optAtoms["nil-marshalers"] = func() jsontext.Options { return jsonv2.WithMarshalers(nil) }
	optAtoms["nil-unmarshalers"] = func() jsontext.Options { return jsonv2.WithUnmarshalers(nil) }
	optAtomNames = append(optAtomNames, "marshalers", "unmarshalers", "nil-marshalers", "nil-unmarshalers")
	sortStrings(optAtomNames)
}

var optAtomNames = func() []string {
	var out []string
	for k := range optAtoms {
		out = append(out, k)
	}
	sortStrings(out)
	return out
}()

var textOptAtomNames = func() []string {
	var out []string
	for _, k := range optAtomNames {
		switch k {
		case "allowdup", "allowutf8", "html", "js", "preserve", "canonints", "canonfloats", "reorder", "spacecolon", "spacecomma",
			"nospacecolon", "multiline", "nomultiline", "indent-empty", "indent-2sp", "indent-tabsp", "prefix-tab", "prefix-3sp":
			out = append(out, k)
		}
	}
	return out
}()

func buildOpts(names []string) ([]jsontext.Options, error) {
	var out []jsontext.Options
	for _, n := range names {
		f, ok := optAtoms[n]
		if !ok {
			return nil, fmt.Errorf("harness: unknown option %q", n)
		}
		out = append(out, f())
	}
	return out, nil
}

func genOptNames(t *rapid.T, pool []string, label string) []string {
	n := rapid.SampledFrom([]int{0, 0, 1, 1, 2, 3, 5, 8}).Draw(t, label+"-n")
	out := make([]string, 0, n)
	for i := 0; i < n; i++ {
		a := rapid.SampledFrom(pool).Draw(t, label)
		if excludeNilMarshalers && strings.HasPrefix(a, "nil-") {
			// listed finding KnownNilMarshalers: avoided by construction, counted
			rec.Excluded(KnownNilMarshalers)
			a = strings.TrimPrefix(a, "nil-")
		}
		out = append(out, a)
	}
	return out
}

// KnownNilMarshalers is the classifier of a finding on the unchanged tree:
// json.WithMarshalers(nil) / json.WithUnmarshalers(nil) (documented: "a nil
// *Marshalers is equivalent to an empty list"; JoinMarshalers() without
// arguments returns nil too) store a typed nil pointer in an interface-typed
// option field; the `mo.Marshalers == nil || !mo.Marshalers.(*Marshalers).fromAny`
// tests in makeInterfaceArshaler (arshal_default.go) and marshalValueAny
// (arshal_any.go) then dereference it: any (un)marshal of an interface-typed
// value panics with a nil pointer dereference.
const KnownNilMarshalers = "nil-marshalers-option-with-interface-value"

func hasNilMarshalers(opts []string) bool {
	for _, o := range opts {
		if strings.HasPrefix(o, "nil-") {
			return true
		}
	}
	return false
}

// knownSweepPanic wraps err if it is exactly the listed nil-Marshalers finding.
func knownSweepPanic(opts []string, err error) error {
	if err != nil && hasNilMarshalers(opts) && strings.Contains(err.Error(), "nil pointer dereference") {
		return rt.Known(KnownNilMarshalers, err)
	}
	return err
}

// wide generator configuration of the sweep.
func sweepText(t *rapid.T) []byte {
	cfg := gen.DocCfg{WS: true, Wide: true, LongStr: true, MaxDepth: 6, MaxWidth: 8,
		Dups:    rapid.Bool().Draw(t, "dups"),
		BadUTF8: rapid.Bool().Draw(t, "badutf8")}
	switch rapid.IntRange(0, 10).Draw(t, "sweeptext") {
	case 10:
		// a first value whose length is exactly (or next to) a size of the
		// decoder's buffer, followed by more input: full-buffer refills
		n := rapid.SampledFrom([]int{64, 128, 256, 512, 1024, 2048, 4096, 8192}).Draw(t, "bufsize") + rapid.IntRange(-2, 2).Draw(t, "bufdelta")
		var v []byte
		switch rapid.IntRange(0, 2).Draw(t, "exactkind") {
		case 0:
			v = append(append([]byte{'"'}, bytes.Repeat([]byte("a"), n-2)...), '"')
		case 1:
			v = append(append([]byte{'['}, bytes.Repeat([]byte(" "), n-2)...), ']')
		default:
			v = append(append([]byte(`{"k":"`), bytes.Repeat([]byte("b"), max(n-8, 0))...), '"', '}')
		}
		return append(v, rapid.SampledFrom([]string{"\n", " ", "\n1", "", " x", "\n\n"}).Draw(t, "exacttail")...)
	case 0, 1, 2, 3:
		return gen.Text(t, cfg)
	case 4, 5:
		in := gen.Stream(t, cfg)
		if rapid.Bool().Draw(t, "mutate") {
			in = gen.Mutate(t, in)
		}
		return in
	case 6:
		return gen.LexSeq(t, 24)
	case 7:
		return gen.Mutate(t, gen.Mutate(t, gen.Doc(t, cfg)))
	case 8:
		// a moderately deep tower with a mutation
		d := rapid.SampledFrom([]int{3, 17, 64, 65, 200, 1001}).Draw(t, "towerdepth")
		c := DepthCase{Shape: rapid.SampledFrom(shapes[:5]).Draw(t, "towershape"), Depth: d, Wide: rapid.IntRange(0, 3).Draw(t, "towerwide")}
		spec, _ := c.spec()
		text, _ := spec.build(0).whole(false)
		if rapid.Bool().Draw(t, "mutatetower") {
			text = gen.Mutate(t, text)
		}
		return text
	default:
		return rapid.SliceOfN(rapid.Byte(), 0, 40).Draw(t, "bytes")
	}
}

type callCounter struct {
	seen map[string]bool
	n    int
}

func (cc *callCounter) hit(name string) {
	if cc.seen == nil {
		cc.seen = map[string]bool{}
	}
	cc.seen[name] = true
	cc.n++
}

// guard runs f under the panic monitor; name is the API entry point.
func (cc *callCounter) guard(name string, f func()) error {
	cc.hit(name)
	if p := rt.Guard(f); p != nil {
		return fmt.Errorf("%s panicked: %v", name, p)
	}
	return nil
}

func sweepEvidence(kind string, raw []byte, cc *callCounter, sample func() any) {
	rec.Class("sweep:" + kind)
	if len(cc.seen) >= 3 {
		fp := cov.FP([]byte(kind), raw)
		rec.NonTrivial(fp)
		rec.Sample(fp, sample)
	}
}

// ---------------------------------------------------------------------------
// (a) text sweep: one byte string through every decode-side / formatting entry point.

// TextCase is one input with an option subset, target type and reader schedule.
type TextCase struct {
	Input  []byte   `json:"input"`
	Opts   []string `json:"opts,omitempty"`
	Target int      `json:"target"`
	Chunk  int      `json:"chunk,omitempty"` // 0: whole
	Prefix string   `json:"v1_prefix,omitempty"`
	Indent string   `json:"v1_indent,omitempty"`
}

func genTextCase(t *rapid.T) TextCase {
	c := genTextCase1(t)
	if excludeV1IndentHang && hitsV1IndentHang(c.Prefix, c.Indent) {
		// listed finding (v1.Indent does not terminate): avoided by construction, counted
		rec.Excluded(KnownV1IndentHang)
		c.Indent = " "
	}
	return c
}

func genTextCase1(t *rapid.T) TextCase {
	return TextCase{
		Input:  sweepText(t),
		Opts:   genOptNames(t, optAtomNames, "opt"),
		Target: rapid.IntRange(0, len(targets)-1).Draw(t, "target"),
		Chunk:  rapid.SampledFrom([]int{0, 0, 1, 2, 3, 7, 64, 4096}).Draw(t, "chunk"),
		Prefix: rapid.SampledFrom([]string{"", "", " ", "\t", ">", "//", "é"}).Draw(t, "prefix"),
		Indent: rapid.SampledFrom([]string{"", " ", "\t", "  ", "--", "x\n"}).Draw(t, "indent"),
	}
}

func readerFor(b []byte, chunk int) io.Reader {
	if chunk <= 0 {
		return bytes.NewReader(b)
	}
	return &chunkReader{b: b, n: chunk}
}

// useToken calls every accessor that is legal for the token's kind.
func useToken(tok jsontext.Token) {
	k := tok.Kind()
	_ = k.String()
	_ = tok.String()
	c := tok.Clone()
	_ = c.Kind()
	switch k {
	case 't', 'f':
		_ = tok.Bool()
		_ = c.Bool()
	case '0':
		tok.Float()
		tok.Float32()
		tok.Int()
		tok.Uint()
		c.Float()
		c.Int()
	}
	_ = c.String()
}

// RunText decides one text-sweep case.
func RunText(c TextCase) error {
	rec.Eval()
	opts, err := buildOpts(c.Opts)
	if err != nil {
		return err
	}
	if c.Target < 0 || c.Target >= len(targets) {
		return fmt.Errorf("harness: bad target %d", c.Target)
	}
	in := c.Input
	if excludeV1IndentHang && hitsV1IndentHang(c.Prefix, c.Indent) {
		return fmt.Errorf("harness: the text sweep must not be given the (prefix %q, indent %q) pair of listed finding %s; use the hang-probe sub-check", c.Prefix, c.Indent, KnownV1IndentHang)
	}
	cc := &callCounter{}
	raw, _ := json.Marshal(c)
	defer sweepEvidence("text", raw, cc, func() any {
		return map[string]any{"sweep": "text", "input": string(c.Input), "opts": c.Opts, "target": targets[c.Target].name, "distinct_api_calls": len(cc.seen)}
	})
	if p := rt.Guard(func() {
		if jsontext.Value(in).IsValid() {
			rec.Class("sweep:text-input-valid")
		} else if jsontext.Value(in).IsValid(jsontext.AllowDuplicateNames(true), jsontext.AllowInvalidUTF8(true)) {
			rec.Class("sweep:text-input-valid-only-with-allow-options")
		} else {
			rec.Class("sweep:text-input-invalid")
		}
	}); p != nil {
		return fmt.Errorf("Value.IsValid panicked: %v\ninput %q", p, clipBytes(in))
	}
	steps := []struct {
		name string
		f    func()
	}{
		{"Value.Kind/String/Clone", func() { v := jsontext.Value(in); _ = v.Kind(); _ = v.String(); _ = v.Clone(); _ = jsontext.Value(nil).String() }},
		{"Value.IsValid", func() { jsontext.Value(in).IsValid(opts...); jsontext.Value(in).IsValid() }},
		{"Value.Format", func() { v := jsontext.Value(bytes.Clone(in)); v.Format(opts...) }},
		{"Value.Compact", func() { v := jsontext.Value(bytes.Clone(in)); v.Compact(opts...) }},
		{"Value.Indent", func() { v := jsontext.Value(bytes.Clone(in)); v.Indent(opts...) }},
		{"Value.Canonicalize", func() { v := jsontext.Value(bytes.Clone(in)); v.Canonicalize(opts...) }},
		{"Value.MarshalJSON/UnmarshalJSON", func() {
			jsontext.Value(in).MarshalJSON()
			var v jsontext.Value
			v.UnmarshalJSON(in)
		}},
		{"AppendFormat", func() {
			jsontext.AppendFormat([]byte("pre"), in, opts...)
			jsontext.AppendFormat(nil, string(in), opts...)
			cl := bytes.Clone(in)
			jsontext.AppendFormat(cl[:0], cl, opts...) // dst and src may overlap
		}},
		{"AppendQuote", func() {
			q, err := jsontext.AppendQuote(nil, in)
			if err == nil {
				jsontext.AppendUnquote(nil, q)
			}
			jsontext.AppendQuote([]byte("x"), string(in))
		}},
		{"AppendUnquote", func() { jsontext.AppendUnquote(nil, in); jsontext.AppendUnquote([]byte("x"), string(in)) }},
		{"Decoder.ReadToken", func() {
			d := jsontext.NewDecoder(readerFor(in, c.Chunk), opts...)
			for i := 0; i < 2*len(in)+4; i++ {
				_ = d.PeekKind()
				tok, err := d.ReadToken()
				if err != nil {
					// the decoder must stay usable after an error
					_ = d.StackDepth()
					_ = d.StackPointer()
					_ = d.InputOffset()
					_ = d.UnreadBuffer()
					d.ReadToken()
					return
				}
				useToken(tok)
				n := d.StackDepth()
				for j := 0; j <= n; j++ {
					d.StackIndex(j)
				}
				_ = d.StackPointer()
				_ = d.InputOffset()
				_ = d.UnreadBuffer()
				_ = d.Options()
			}
		}},
		{"Decoder.ReadValue", func() {
			d := jsontext.NewDecoder(readerFor(in, c.Chunk), opts...)
			for i := 0; i < len(in)+2; i++ {
				v, err := d.ReadValue()
				if err != nil {
					d.ReadValue()
					_ = d.StackPointer()
					return
				}
				_ = v.Kind()
			}
		}},
		{"Decoder.SkipValue", func() {
			d := jsontext.NewDecoder(readerFor(in, c.Chunk), opts...)
			for i := 0; i < len(in)+2; i++ {
				if i%2 == 1 {
					d.ReadToken() // step into containers now and then
				}
				if err := d.SkipValue(); err != nil {
					d.SkipValue()
					return
				}
			}
		}},
		{"json.Unmarshal", func() {
			p := targets[c.Target].mk()
			if err := jsonv2.Unmarshal(in, p, opts...); err == nil {
				jsonv2.Marshal(p, opts...)
			}
			jsonv2.Unmarshal(in, p, opts...) // second call merges into the existing value
		}},
		{"json.UnmarshalRead", func() { jsonv2.UnmarshalRead(readerFor(in, c.Chunk), targets[c.Target].mk(), opts...) }},
		{"json.UnmarshalDecode", func() {
			d := jsontext.NewDecoder(readerFor(in, c.Chunk), opts...)
			for i := 0; i < 4; i++ {
				if err := jsonv2.UnmarshalDecode(d, targets[c.Target].mk(), opts...); err != nil {
					return
				}
			}
		}},
		{"json.Unmarshal(any)+Marshal", func() {
			var v any
			if err := jsonv2.Unmarshal(in, &v, opts...); err == nil {
				jsonv2.Marshal(v, opts...)
				jsonv2.MarshalWrite(io.Discard, v, opts...)
				jsonv1.Marshal(v)
			}
		}},
		{"v1.Valid", func() { jsonv1.Valid(in) }},
		{"v1.Compact", func() { var b bytes.Buffer; jsonv1.Compact(&b, in) }},
		{"v1.Indent", func() { var b bytes.Buffer; jsonv1.Indent(&b, in, c.Prefix, c.Indent) }},
		{"v1.HTMLEscape", func() { var b bytes.Buffer; jsonv1.HTMLEscape(&b, in) }},
		{"v1.Unmarshal", func() {
			p := targets[c.Target].mk()
			if err := jsonv1.Unmarshal(in, p); err == nil {
				jsonv1.Marshal(p)
				jsonv1.MarshalIndent(p, c.Prefix, c.Indent)
			}
		}},
		{"v1.Decoder.Decode", func() {
			d := jsonv1.NewDecoder(readerFor(in, c.Chunk))
			if c.Chunk%2 == 1 {
				d.UseNumber()
				d.DisallowUnknownFields()
			}
			for i := 0; i < 4; i++ {
				_ = d.More()
				if err := d.Decode(targets[c.Target].mk()); err != nil {
					break
				}
				_ = d.InputOffset()
			}
			io.Copy(io.Discard, d.Buffered())
		}},
		{"v1.Decoder.Token", func() {
			d := jsonv1.NewDecoder(readerFor(in, c.Chunk))
			for i := 0; i < 2*len(in)+4; i++ {
				_ = d.More()
				if _, err := d.Token(); err != nil {
					break
				}
				if i == 3 {
					var v any
					d.Decode(&v) // mixing Token and Decode is allowed
				}
			}
			_ = d.InputOffset()
		}},
	}
	for _, s := range steps {
		if err := cc.guard(s.name, s.f); err != nil {
			return knownSweepPanic(c.Opts, fmt.Errorf("%v\ninput %q opts %v target %s", err, clipBytes(in), c.Opts, targets[c.Target].name))
		}
	}
	return nil
}

func clipBytes(b []byte) []byte {
	if len(b) > 300 {
		return append(append([]byte(nil), b[:300]...), "..."...)
	}
	return b
}

// Unmarshal targets.
type tgtStruct struct {
	A  int               `json:"a"`
	B  string            `json:"b,omitzero"`
	C  []int             `json:"c"`
	D  map[string]any    `json:"d"`
	E  *tgtStruct        `json:"e"`
	F  float64           `json:"f,string"`
	G  any               `json:"g"`
	H  [2]bool           `json:"h"`
	I  []byte            `json:"i"`
	K  jsontext.Value    `json:"k"`
	T  time.Time         `json:"t"`
	X  map[string]string `json:",inline"`
	Lo int8              `json:"lo,omitempty"`
	u  int
}

type tgtInline struct {
	Name string         `json:"name"`
	Rest jsontext.Value `json:",inline"`
}

type tgtUnknown struct {
	A    int            `json:"a"`
	Rest map[string]any `json:",unknown"`
}

type tgtEmbed struct {
	tgtInner
	*tgtPtrInner
	Z int
}
type tgtInner struct{ A, B int }
type tgtPtrInner struct{ C string }

type tgtNamedIface interface{ M() }

var targets = []struct {
	name string
	mk   func() any
}{
	{"any", func() any { return new(any) }},
	{"map[string]any", func() any { return new(map[string]any) }},
	{"[]any", func() any { return new([]any) }},
	{"struct", func() any { return new(tgtStruct) }},
	{"struct-prefilled", func() any {
		return &tgtStruct{A: 1, C: []int{1, 2, 3}, D: map[string]any{"x": []any{1.0}}, E: &tgtStruct{}, G: map[string]any{"k": 1.0}, X: map[string]string{"q": "r"}}
	}},
	{"inline-value", func() any { return new(tgtInline) }},
	{"unknown-map", func() any { return new(tgtUnknown) }},
	{"embedded", func() any { return new(tgtEmbed) }},
	{"[]int", func() any { return new([]int) }},
	{"[3]string", func() any { return new([3]string) }},
	{"[][]float32", func() any { return new([][]float32) }},
	{"map[int]bool", func() any { return new(map[int]bool) }},
	{"map[string][]map[string]*int", func() any { return new(map[string][]map[string]*int) }},
	{"map[float64]string", func() any { return new(map[float64]string) }},
	{"*int", func() any { return new(*int) }},
	{"***string", func() any { return new(***string) }},
	{"int8", func() any { return new(int8) }},
	{"uint64", func() any { return new(uint64) }},
	{"float32", func() any { return new(float32) }},
	{"string", func() any { return new(string) }},
	{"bool", func() any { return new(bool) }},
	{"[]byte", func() any { return new([]byte) }},
	{"[4]byte", func() any { return new([4]byte) }},
	{"time.Time", func() any { return new(time.Time) }},
	{"time.Duration", func() any { return new(time.Duration) }},
	{"jsontext.Value", func() any { return new(jsontext.Value) }},
	{"v1.Number", func() any { return new(jsonv1.Number) }},
	{"named-interface", func() any { return new(tgtNamedIface) }},
	{"io.Reader", func() any { return new(io.Reader) }},
	{"error", func() any { return new(error) }},
	{"chan", func() any { return new(chan int) }},
	{"func", func() any { return new(func()) }},
	{"complex", func() any { return new(complex128) }},
	{"nil", func() any { return nil }},
	{"non-pointer", func() any { return 5 }},
	{"nil-pointer", func() any { return (*int)(nil) }},
	{"RS", func() any { return new(RS) }},
	{"SP", func() any { return new(SP) }},
	{"any-prefilled-map", func() any { var v any = map[string]any{"a": []any{1.0}}; return &v }},
	{"any-prefilled-ptr", func() any { x := 1; var v any = &x; return &v }},
}

// ---------------------------------------------------------------------------
// (b) decoder scripts: random interleavings of Decoder calls.

// DecOp is one call on a Decoder.
type DecOp struct {
	Op  string `json:"op"`
	Arg int    `json:"arg,omitempty"`
}

// DecScriptCase is an input, options, a read schedule and a call sequence.
type DecScriptCase struct {
	Input []byte   `json:"input"`
	Opts  []string `json:"opts,omitempty"`
	Chunk int      `json:"chunk,omitempty"`
	Ops   []DecOp  `json:"ops"`
}

// KnownDecodeAllowDup is the classifier of a finding on the unchanged tree:
// json.UnmarshalDecode(dec, &v, jsontext.AllowDuplicateNames(true)) on a
// Decoder that itself rejects duplicate names, when the call fails inside an
// object it has opened (e.g. a member name that cannot be converted to the map
// key type), leaves the Decoder inside that object with no name-tracking entry
// on its namespace stack; once the call-scoped option is gone, reading the
// next member name panics with "index out of range [-1]"
// (objectNamespaceStack.Last, jsontext/state.go) in ReadToken / ReadValue.
// The sweep never passes call options that change AllowDuplicateNames.
const KnownDecodeAllowDup = "unmarshaldecode-allowdup-override-then-read-name"

// callScopedOpts are option sets passed to UnmarshalDecode / MarshalEncode
// only for the call (they never touch AllowDuplicateNames).
var callScopedOpts = [][]jsontext.Options{
	{jsonv2.RejectUnknownMembers(true)},
	{jsonv2.MatchCaseInsensitiveNames(true), jsonv2.StringifyNumbers(true)},
	{jsonv1.MergeWithLegacySemantics(true), jsonv1.UnmarshalArrayFromAnyLength(true)},
	{jsonv2.Deterministic(true), jsonv2.FormatNilSliceAsNull(true), jsonv2.FormatNilMapAsNull(true)},
	{jsonv1.ReportErrorsWithLegacySemantics(true), jsonv1.StringifyWithLegacySemantics(true)},
	{jsonv2.OmitZeroStructFields(true), jsonv1.FormatByteArrayAsArray(true)},
	{jsontext.AllowInvalidUTF8(true)},
}

var decOpNames = []string{"ReadToken", "ReadToken", "ReadToken", "ReadValue", "ReadValue", "SkipValue", "PeekKind", "StackDepth", "StackIndex", "StackPointer",
	"InputOffset", "UnreadBuffer", "Options", "Reset", "ResetRest", "UnmarshalDecode", "UnmarshalDecodeOpts", "UseKept", "PointerMethods"}

func genDecScript(t *rapid.T) DecScriptCase {
	c := DecScriptCase{Opts: genOptNames(t, optAtomNames, "opt"), Chunk: rapid.SampledFrom([]int{0, 1, 2, 5, 16, 64, 4096}).Draw(t, "chunk")}
	if rapid.IntRange(0, 9).Draw(t, "validdoc") < 6 {
		// mostly well-formed, larger documents so that scripts get deep into them
		cfg := gen.DocCfg{WS: true, Wide: true, LongStr: true, MaxDepth: 6, MaxWidth: 8, BadUTF8: rapid.IntRange(0, 5).Draw(t, "badutf8") == 0, Dups: rapid.IntRange(0, 5).Draw(t, "dups") == 0}
		if rapid.Bool().Draw(t, "stream") {
			c.Input = gen.Stream(t, cfg)
		} else {
			c.Input = append([]byte("["), append(gen.Doc(t, cfg), append([]byte(","), append(gen.Doc(t, cfg), ']')...)...)...)
		}
	} else {
		c.Input = sweepText(t)
	}
	n := rapid.IntRange(1, 60).Draw(t, "nops")
	tokenHeavy := rapid.IntRange(0, 3).Draw(t, "tokenheavy") != 0
	for i := 0; i < n; i++ {
		name := rapid.SampledFrom(decOpNames).Draw(t, "op")
		if tokenHeavy && rapid.IntRange(0, 2).Draw(t, "tok") != 0 {
			name = "ReadToken"
		}
		c.Ops = append(c.Ops, DecOp{Op: name, Arg: rapid.IntRange(0, 40).Draw(t, "arg")})
	}
	return c
}

// RunDecScript decides one decoder-script case.
func RunDecScript(c DecScriptCase) error {
	rec.Eval()
	opts, err := buildOpts(c.Opts)
	if err != nil {
		return err
	}
	cc := &callCounter{}
	raw, _ := json.Marshal(c)
	defer sweepEvidence("decoder-script", raw, cc, func() any {
		return map[string]any{"sweep": "decoder-script", "input": string(clipBytes(c.Input)), "opts": c.Opts, "ops": c.Ops, "distinct_api_calls": len(cc.seen)}
	})
	var d *jsontext.Decoder
	if err := cc.guard("NewDecoder", func() { d = jsontext.NewDecoder(readerFor(c.Input, c.Chunk), opts...) }); err != nil {
		return err
	}
	var kept []jsontext.Token // clones stay valid for ever
	// Options passed to UnmarshalDecode are always the ones the Decoder
	// currently has (see KnownDecodeAllowDup for why they must not differ in
	// AllowDuplicateNames).
	curOpts := opts
	usedAllowDupOverride := false
	okReads, maxDepth := 0, 0
	defer func() {
		switch {
		case okReads >= 10:
			rec.Class("sweep:dec-script-successful-reads>=10")
		case okReads >= 3:
			rec.Class("sweep:dec-script-successful-reads3..9")
		default:
			rec.Class("sweep:dec-script-successful-reads<3")
		}
		if maxDepth >= 2 {
			rec.Class("sweep:dec-script-reached-depth>=2")
		}
	}()
	for i, op := range c.Ops {
		var f func()
		switch op.Op {
		case "ReadToken":
			f = func() {
				tok, err := d.ReadToken()
				if err == nil {
					okReads++
					maxDepth = max(maxDepth, d.StackDepth())
					useToken(tok)
					if len(kept) < 8 {
						kept = append(kept, tok.Clone())
					}
				}
			}
		case "ReadValue":
			f = func() {
				v, err := d.ReadValue()
				if err == nil {
					okReads++
					_ = v.Kind()
					cl := v.Clone()
					cl.Canonicalize()
				}
			}
		case "SkipValue":
			f = func() {
				if d.SkipValue() == nil {
					okReads++
				}
			}
		case "PeekKind":
			f = func() { _ = d.PeekKind().String() }
		case "StackDepth":
			f = func() { _ = d.StackDepth() }
		case "StackIndex":
			f = func() { d.StackIndex(op.Arg % (d.StackDepth() + 1)) }
		case "StackPointer":
			f = func() { _ = d.StackPointer() }
		case "PointerMethods":
			f = func() {
				p := d.StackPointer()
				_ = p.IsValid()
				_ = p.LastToken()
				_ = p.Parent()
				_ = p.Contains(p.Parent())
				_ = p.AppendToken("a/b~c")
				for range p.Tokens() {
				}
				q := jsontext.Pointer(c.Input)
				_ = q.IsValid()
				_ = q.LastToken()
				_ = q.Parent()
				_ = q.Contains(p)
				for range q.Tokens() {
				}
			}
		case "InputOffset":
			f = func() { _ = d.InputOffset() }
		case "UnreadBuffer":
			f = func() { _ = len(d.UnreadBuffer()) }
		case "Options":
			f = func() {
				o := d.Options()
				jsonv2.GetOption(o, jsontext.AllowDuplicateNames)
				jsonv2.GetOption(o, jsontext.WithIndent)
				jsonv2.GetOption(o, jsonv2.Deterministic)
				jsonv2.GetOption(o, jsonv2.WithMarshalers)
				_ = jsonv2.JoinOptions(o, jsontext.Multiline(true))
			}
		case "Reset":
			f = func() { d.Reset(readerFor(c.Input, c.Chunk), opts...); curOpts = opts }
		case "ResetRest":
			f = func() {
				off := int(d.InputOffset())
				if off >= 0 && off <= len(c.Input) {
					d.Reset(bytes.NewReader(c.Input[off:]))
					curOpts = nil
				}
			}
		case "UnmarshalDecode":
			f = func() { jsonv2.UnmarshalDecode(d, targets[op.Arg%len(targets)].mk(), curOpts...) }
		case "UnmarshalDecodeOpts":
			// call-scoped options that differ from the Decoder's (never AllowDuplicateNames)
			f = func() {
				jsonv2.UnmarshalDecode(d, targets[op.Arg%len(targets)].mk(), callScopedOpts[op.Arg%len(callScopedOpts)]...)
			}
		case "UnmarshalDecode+allowdup":
			// regression only (never generated): listed finding KnownDecodeAllowDup
			usedAllowDupOverride = true
			f = func() {
				jsonv2.UnmarshalDecode(d, targets[op.Arg%len(targets)].mk(), jsontext.AllowDuplicateNames(true))
			}
		case "UseKept":
			f = func() {
				for _, tok := range kept {
					useToken(tok)
				}
			}
		default:
			return fmt.Errorf("harness: unknown decoder op %q", op.Op)
		}
		if err := cc.guard("Decoder."+op.Op, f); err != nil {
			err = fmt.Errorf("op #%d: %v\ninput %q opts %v chunk %d ops %v", i, err, clipBytes(c.Input), c.Opts, c.Chunk, c.Ops[:i+1])
			if usedAllowDupOverride && strings.Contains(err.Error(), "index out of range [-1]") && strings.Contains(err.Error(), "objectNamespaceStack") {
				return rt.Known(KnownDecodeAllowDup, err)
			}
			return knownSweepPanic(c.Opts, err)
		}
	}
	return nil
}

// ---------------------------------------------------------------------------
// (c) encoder scripts: random token / value write sequences.

// EncOp is one call on an Encoder.
type EncOp struct {
	Op   string  `json:"op"`
	Str  []byte  `json:"str,omitempty"`
	Num  float64 `json:"num,omitempty"`
	Int  int64   `json:"int,omitempty"`
	Bits uint64  `json:"bits,omitempty"` // raw float bits (NaN, Inf, subnormals)
}

// EncScriptCase is an option set, a writer and a call sequence.
type EncScriptCase struct {
	Opts      []string `json:"opts,omitempty"`
	FailAfter int      `json:"fail_after,omitempty"` // >0: the writer fails after that many bytes
	Ops       []EncOp  `json:"ops"`
}

var encOpNames = []string{"Null", "True", "False", "String", "String", "Name", "Int", "Uint", "Float", "Float32", "FloatBits", "BeginObject", "EndObject", "BeginArray", "EndArray",
	"WriteValue", "WriteValue", "WriteValueAvail", "RawToken", "StackDepth", "StackIndex", "StackPointer", "OutputOffset", "Options", "Reset", "MarshalEncode", "AppendFloat"}

// genEncScript: half of the scripts are purely random (mostly exercising the
// refusal paths), half follow the token sequence of a valid document (reaching
// deep encoder states) with random extra calls in between.
func genEncScript(t *rapid.T) EncScriptCase {
	if rapid.Bool().Draw(t, "guided") {
		return genEncScriptGuided(t)
	}
	return genEncScriptRandom(t)
}

func genEncScriptGuided(t *rapid.T) EncScriptCase {
	c := EncScriptCase{Opts: genOptNames(t, optAtomNames, "opt")}
	if rapid.IntRange(0, 5).Draw(t, "failing") == 0 {
		c.FailAfter = rapid.SampledFrom([]int{1, 7, 30, 100, 4096, 5000}).Draw(t, "failafter")
	}
	cfg := gen.DocCfg{MaxDepth: 5, MaxWidth: 6, LongStr: true, Wide: rapid.IntRange(0, 9).Draw(t, "wide") == 0, Dups: rapid.IntRange(0, 5).Draw(t, "dups") == 0}
	doc := gen.Stream(t, cfg)
	toks, err := ref.TokensLite(doc, ref.Opt{AllowInvalidUTF8: true, AllowDup: true})
	if err != nil {
		return genEncScriptRandom(t)
	}
	misc := []string{"StackDepth", "StackIndex", "StackPointer", "OutputOffset", "Options", "MarshalEncode", "AppendFloat", "EndObject", "EndArray", "Name", "Null", "WriteValueAvail"}
	for _, tok := range toks {
		if len(c.Ops) > 400 {
			break
		}
		if rapid.IntRange(0, 5).Draw(t, "extra") == 0 {
			op := EncOp{Op: rapid.SampledFrom(misc).Draw(t, "misc"), Int: int64(rapid.IntRange(0, 40).Draw(t, "arg")), Str: []byte("1")}
			if op.Op == "Name" {
				op.Str = []byte("x")
			}
			c.Ops = append(c.Ops, op)
		}
		lit := doc[tok.Start:tok.End]
		switch tok.Kind {
		case '{':
			c.Ops = append(c.Ops, EncOp{Op: "BeginObject"})
		case '}':
			c.Ops = append(c.Ops, EncOp{Op: "EndObject"})
		case '[':
			c.Ops = append(c.Ops, EncOp{Op: "BeginArray"})
		case ']':
			c.Ops = append(c.Ops, EncOp{Op: "EndArray"})
		case '"':
			if rapid.Bool().Draw(t, "strastoken") {
				c.Ops = append(c.Ops, EncOp{Op: "String", Str: []byte(tok.Str)})
			} else {
				c.Ops = append(c.Ops, EncOp{Op: "WriteValue", Str: append([]byte(nil), lit...)})
			}
		default:
			c.Ops = append(c.Ops, EncOp{Op: "WriteValue", Str: append([]byte(nil), lit...)})
		}
	}
	return c
}

func genEncScriptRandom(t *rapid.T) EncScriptCase {
	c := EncScriptCase{Opts: genOptNames(t, optAtomNames, "opt")}
	if rapid.IntRange(0, 4).Draw(t, "failing") == 0 {
		c.FailAfter = rapid.SampledFrom([]int{1, 2, 7, 30, 100, 4096, 5000}).Draw(t, "failafter")
	}
	n := rapid.IntRange(1, 40).Draw(t, "nops")
	cfg := gen.DocCfg{WS: true, BadUTF8: true, Dups: true, LongStr: true}
	for i := 0; i < n; i++ {
		op := EncOp{Op: rapid.SampledFrom(encOpNames).Draw(t, "op")}
		switch op.Op {
		case "String":
			if rapid.Bool().Draw(t, "strclass") {
				op.Str = []byte(gen.DecodeBodyLoose(gen.StrBody(t, cfg)))
			} else {
				op.Str = rapid.SliceOfN(rapid.Byte(), 0, 12).Draw(t, "strbytes")
			}
		case "Name":
			op.Str = []byte(rapid.SampledFrom([]string{"a", "b", "a", "", "k1", "é", "\xff", "a\x00"}).Draw(t, "name"))
		case "Int":
			op.Int = rapid.Int64().Draw(t, "int")
		case "Uint":
			op.Bits = rapid.Uint64().Draw(t, "uint")
		case "Float", "Float32":
			op.Num = rapid.Float64().Draw(t, "num")
		case "FloatBits", "AppendFloat":
			op.Bits = rapid.SampledFrom([]uint64{0x7ff8000000000001, 0x7ff0000000000000, 0xfff0000000000000, 0x8000000000000000, 1, 0x7fefffffffffffff, 0x0010000000000000, 0x3ff0000000000000}).Draw(t, "bits")
		case "WriteValue", "WriteValueAvail", "RawToken":
			if rapid.IntRange(0, 3).Draw(t, "valclass") == 0 {
				op.Str = gen.Text(t, cfg)
			} else {
				op.Str = gen.Doc(t, cfg)
			}
		case "StackIndex", "MarshalEncode", "Reset":
			op.Int = int64(rapid.IntRange(0, 40).Draw(t, "arg"))
		}
		c.Ops = append(c.Ops, op)
	}
	return c
}

type failWriter struct {
	left int
	buf  bytes.Buffer
}

var errSink = errors.New("sink full")

func (w *failWriter) Write(p []byte) (int, error) {
	if w.left <= 0 {
		return 0, errSink
	}
	if len(p) > w.left {
		n := w.left
		w.buf.Write(p[:n])
		w.left = 0
		return n, errSink
	}
	w.left -= len(p)
	return w.buf.Write(p)
}

var marshalSamples = []func() any{
	func() any { return nil },
	func() any { return 1 },
	func() any { return "s\xff<" },
	func() any { return []any{1, "a", nil, map[string]any{"k": []int{1}}} },
	func() any { return map[string]int{"b": 1, "a": 2} },
	func() any { return tgtStruct{A: 1, D: map[string]any{"x": 1}, X: map[string]string{"in": "line"}} },
	func() any { return &tgtInline{Name: "n", Rest: jsontext.Value(`{"a":1,"a":2}`)} },
	func() any { return math.NaN() },
	func() any { return []float32{1.5, float32(math.Inf(1))} },
	func() any { return map[float64]string{math.NaN(): "x", 1: "y"} },
	func() any { return jsontext.Value(`{"broken`) },
	func() any { return time.Unix(0, 0).UTC() },
	func() any { return time.Duration(5) },
	func() any { return make(chan int) },
	func() any { return [2]*int{} },
	func() any { return struct{ F func() }{} },
}

// RunEncScript decides one encoder-script case.
func RunEncScript(c EncScriptCase) error {
	rec.Eval()
	opts, err := buildOpts(c.Opts)
	if err != nil {
		return err
	}
	cc := &callCounter{}
	raw, _ := json.Marshal(c)
	defer sweepEvidence("encoder-script", raw, cc, func() any {
		return map[string]any{"sweep": "encoder-script", "opts": c.Opts, "fail_after": c.FailAfter, "ops": c.Ops, "distinct_api_calls": len(cc.seen)}
	})
	newWriter := func() io.Writer {
		if c.FailAfter > 0 {
			return &failWriter{left: c.FailAfter}
		}
		return &bytes.Buffer{}
	}
	var e *jsontext.Encoder
	if err := cc.guard("NewEncoder", func() { e = jsontext.NewEncoder(newWriter(), opts...) }); err != nil {
		return err
	}
	curOpts := opts // the options the Encoder currently has
	encMaxDepth := 0
	defer func() {
		if encMaxDepth >= 2 {
			rec.Class("sweep:enc-script-reached-depth>=2")
		}
		if c.FailAfter > 0 {
			rec.Class("sweep:enc-script-failing-writer")
		}
	}()
	for i, op := range c.Ops {
		var f func()
		name := "Encoder.WriteToken(" + op.Op + ")"
		switch op.Op {
		case "Null":
			f = func() { e.WriteToken(jsontext.Null) }
		case "True":
			f = func() { e.WriteToken(jsontext.True) }
		case "False":
			f = func() { e.WriteToken(jsontext.Bool(false)) }
		case "String", "Name":
			f = func() { e.WriteToken(jsontext.String(string(op.Str))) }
		case "Int":
			f = func() { e.WriteToken(jsontext.Int(op.Int)) }
		case "Uint":
			f = func() { e.WriteToken(jsontext.Uint(op.Bits)) }
		case "Float":
			f = func() { e.WriteToken(jsontext.Float(op.Num)) }
		case "Float32":
			f = func() { e.WriteToken(jsontext.Float32(float32(op.Num))) }
		case "FloatBits":
			f = func() {
				tok := jsontext.Float(math.Float64frombits(op.Bits))
				_ = tok.Kind()
				_ = tok.String()
				e.WriteToken(tok)
				e.WriteToken(jsontext.Float32(math.Float32frombits(uint32(op.Bits))))
			}
		case "BeginObject":
			f = func() { e.WriteToken(jsontext.BeginObject) }
		case "EndObject":
			f = func() { e.WriteToken(jsontext.EndObject) }
		case "BeginArray":
			f = func() { e.WriteToken(jsontext.BeginArray) }
		case "EndArray":
			f = func() { e.WriteToken(jsontext.EndArray) }
		case "WriteValue":
			name = "Encoder.WriteValue"
			f = func() { e.WriteValue(op.Str) }
		case "WriteValueAvail":
			name = "Encoder.AvailableBuffer+WriteValue"
			f = func() {
				b := e.AvailableBuffer()
				b = append(b, op.Str...)
				e.WriteValue(b)
			}
		case "RawToken":
			name = "Encoder.WriteToken(token read by a Decoder)"
			f = func() {
				d := jsontext.NewDecoder(bytes.NewReader(op.Str), jsontext.AllowInvalidUTF8(true), jsontext.AllowDuplicateNames(true))
				for j := 0; j < 6; j++ {
					tok, err := d.ReadToken()
					if err != nil {
						return
					}
					e.WriteToken(tok) // a token is valid until the next Read call
				}
			}
		case "StackDepth":
			name = "Encoder.StackDepth"
			f = func() { _ = e.StackDepth() }
		case "StackIndex":
			name = "Encoder.StackIndex"
			f = func() { e.StackIndex(int(op.Int) % (e.StackDepth() + 1)) }
		case "StackPointer":
			name = "Encoder.StackPointer"
			f = func() { p := e.StackPointer(); _ = p.IsValid(); _ = p.LastToken() }
		case "OutputOffset":
			name = "Encoder.OutputOffset"
			f = func() { _ = e.OutputOffset() }
		case "Options":
			name = "Encoder.Options"
			f = func() {
				o := e.Options()
				jsonv2.GetOption(o, jsontext.WithIndent)
				jsonv2.GetOption(o, jsontext.WithIndentPrefix)
				jsonv2.GetOption(o, jsontext.Multiline)
				jsonv2.GetOption(o, jsonv2.WithUnmarshalers)
			}
		case "Reset":
			name = "Encoder.Reset"
			f = func() {
				if op.Int%2 == 0 {
					e.Reset(newWriter(), opts...)
					curOpts = opts
				} else {
					e.Reset(newWriter())
					curOpts = nil
				}
			}
		case "MarshalEncode":
			name = "json.MarshalEncode"
			f = func() {
				v := marshalSamples[int(op.Int)%len(marshalSamples)]()
				switch op.Int % 3 {
				case 0:
					jsonv2.MarshalEncode(e, v, curOpts...)
				case 1:
					// call-scoped options never change AllowDuplicateNames (cf. KnownDecodeAllowDup)
					// nor the whitespace options (documented to be refused)
					jsonv2.MarshalEncode(e, v, callScopedOpts[int(op.Int/3)%len(callScopedOpts)]...)
				default:
					jsonv2.MarshalEncode(e, v)
				}
			}
		case "AppendFloat":
			name = "jsontext.AppendFloat"
			f = func() {
				jsontext.AppendFloat(nil, math.Float64frombits(op.Bits), 64)
				jsontext.AppendFloat([]byte("x"), math.Float64frombits(op.Bits), 32)
			}
		default:
			return fmt.Errorf("harness: unknown encoder op %q", op.Op)
		}
		if err := cc.guard(name, f); err != nil {
			return knownSweepPanic(c.Opts, fmt.Errorf("op #%d: %v\nopts %v fail_after %d ops %+v", i, err, c.Opts, c.FailAfter, c.Ops[:i+1]))
		}
		if p := rt.Guard(func() { encMaxDepth = max(encMaxDepth, e.StackDepth()) }); p != nil {
			return fmt.Errorf("op #%d: Encoder.StackDepth panicked: %v", i, p)
		}
	}
	return nil
}


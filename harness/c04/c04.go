// Package c04 decides property C04: Marshal then Unmarshal restores the value.
package c04

import (
	"bytes"
	"fmt"
	"math"
	"reflect"
	"strings"

	"github.com/go-json-experiment/json"
	"github.com/go-json-experiment/json/jsontext"
	"pgregory.net/rapid"

	"verif/harness/cov"
	"verif/harness/opt"
	"verif/harness/ref"
	"verif/harness/rt"
	"verif/harness/tv"
)

var rec = cov.New()

// Case is one type with several values under one option set.
type Case struct {
	Desc *tv.Desc   `json:"desc"`
	Vals []tv.Val   `json:"vals"`
	Opts []opt.Spec `json:"opts"`
}

var optSets = [][]opt.Spec{
	{},
	{opt.B("StringifyNumbers", true)},
	{{Name: "DefaultOptionsV1"}},
	{opt.B("FormatNilSliceAsNull", true), opt.B("FormatNilMapAsNull", true)},
	{opt.B("OmitZeroStructFields", true)},
	{opt.B("MatchCaseInsensitiveNames", true)},
	{opt.B("RejectUnknownMembers", true)},
	{opt.B("FormatByteArrayAsArray", true)},
	{opt.B("FormatBytesWithLegacySemantics", true)},
	{opt.B("OmitEmptyWithLegacySemantics", true)},
	{opt.B("StringifyWithLegacySemantics", true)},
	{opt.B("MergeWithLegacySemantics", true)},
	{opt.B("UnmarshalArrayFromAnyLength", true)},
	{opt.B("MatchCaseSensitiveDelimiter", true)},
	{opt.B("ParseBytesWithLooseRFC4648", true)},
	{opt.B("ParseTimeWithLooseRFC3339", true)},
	{opt.B("CallMethodsWithLegacySemantics", true)},
	{opt.B("ReportErrorsWithLegacySemantics", true)},
	{opt.B("FormatDurationAsNano", true)},
	{opt.B("EscapeForHTML", true), opt.B("EscapeForJS", true)},
	{opt.B("Multiline", true)},
	{opt.B("SpaceAfterComma", true)},
	{opt.B("SpaceAfterColon", true), opt.B("SpaceAfterComma", true)},
	{opt.B("SpaceAfterComma", true), opt.B("OmitZeroStructFields", true)},
	{{Name: "WithIndentPrefix", S: " "}, opt.B("SpaceAfterComma", true)},
	{opt.B("StringifyNumbers", true), {Name: "DefaultOptionsV1"}},
}

// falseOpts are added with the value false (the v2 default of each).
var falseOpts = []string{"StringifyNumbers", "Deterministic", "FormatNilSliceAsNull", "FormatNilMapAsNull", "OmitZeroStructFields", "MatchCaseInsensitiveNames",
	"RejectUnknownMembers", "FormatByteArrayAsArray", "FormatBytesWithLegacySemantics", "OmitEmptyWithLegacySemantics", "StringifyWithLegacySemantics",
	"MergeWithLegacySemantics", "UnmarshalArrayFromAnyLength", "ParseBytesWithLooseRFC4648", "ParseTimeWithLooseRFC3339", "CallMethodsWithLegacySemantics",
	"ReportErrorsWithLegacySemantics", "FormatDurationAsNano", "EscapeForHTML", "EscapeForJS", "Multiline", "SpaceAfterComma", "SpaceAfterColon",
	"AllowDuplicateNames", "AllowInvalidUTF8", "PreserveRawStrings", "CanonicalizeRawInts", "CanonicalizeRawFloats", "ReorderRawObjects"}

func genCase(formats bool) func(t *rapid.T) Case {
	return func(t *rapid.T) Case {
		c := Case{Opts: append([]opt.Spec(nil), rapid.SampledFrom(optSets).Draw(t, "optset")...)}
		durNoFormat, legacy := false, false
		if len(c.Opts) <= 1 && (len(c.Opts) == 0 || c.Opts[0].Name != "DefaultOptionsV1") && rapid.IntRange(0, 2).Draw(t, "explicit-false") == 0 {
			// options that are present but false: they must behave like absent ones
			n := rapid.IntRange(1, 3).Draw(t, "nfalse")
			for i := 0; i < n; i++ {
				name := rapid.SampledFrom(falseOpts).Draw(t, "falseopt")
				dup := false
				for _, o := range c.Opts {
					dup = dup || o.Name == name
				}
				if !dup {
					c.Opts = append(c.Opts, opt.B(name, false))
				}
			}
		}
		for _, o := range c.Opts {
			if o.Name == "DefaultOptionsV1" || (o.Name == "FormatDurationAsNano" && o.B) {
				durNoFormat = true
			}
			if o.Name == "DefaultOptionsV1" {
				legacy = true
			}
		}
		cfg := tv.Cfg{MaxDepth: rapid.IntRange(1, 4).Draw(t, "maxdepth"), Tags: true, Embedding: true, BigStructs: true, EscapeNames: true,
			MapKeys:   []string{"string", "string", "int", "int8", "int64", "uint", "uint8", "uint64", "float64", "int16", "uint32"},
			TopStruct: rapid.IntRange(0, 3).Draw(t, "topstruct") != 0, LegacyString: legacy,
			EmbedPc: rapid.SampledFrom([]int{14, 14, 50, 80}).Draw(t, "embedpc")}
		if cfg.EmbedPc >= 50 {
			cfg.MaxDepth = rapid.IntRange(3, 6).Draw(t, "embeddepth")
			cfg.MaxFields = 3
		}
		cfg.TimeKinds = true
		if formats {
			cfg.Formats = true
			cfg.DurNoFormat = durNoFormat
			c.Opts = append(c.Opts, opt.B("ExperimentalSupportFormatTag", true))
		}
		c.Desc = tv.GenDesc(t, cfg)
		n := rapid.IntRange(1, 6).Draw(t, "nvals")
		for i := 0; i < n; i++ {
			c.Vals = append(c.Vals, tv.GenVal(t, c.Desc, tv.ValCfg{AnyCanonical: true, ZoneMinutes: !formats}))
		}
		return c
	}
}

// features of a description that weaken what may be demanded
type feat struct {
	omit      bool // omitzero / omitempty somewhere (or the global omit options)
	lossyTime bool // a time layout that does not keep the full instant
	tagged    bool
	hasAny    bool
}

var losslessTime = map[string]bool{"unix": true, "unixmilli": true, "unixmicro": true, "unixnano": true, "RFC3339Nano": true}

func features(d *tv.Desc) feat {
	var f feat
	d.Walk(func(x *tv.Desc) {
		if x.K == "any" {
			f.hasAny = true
		}
		for _, fl := range x.Fields {
			if fl.Tag != "" {
				f.tagged = true
			}
			for _, o := range strings.Split(fl.Tag, ",")[1:] {
				if o == "omitzero" || o == "omitempty" {
					f.omit = true
				}
				if strings.HasPrefix(o, "format:") {
					u := fl.T
					for u.K == "ptr" {
						u = u.Elem
					}
					if u.K == "time" && !losslessTime[strings.TrimPrefix(o, "format:")] {
						f.lossyTime = true
					}
				}
			}
		}
	})
	return f
}

func nonZero(v *tv.Val) bool {
	if v.B || v.I != 0 || v.U != 0 || v.N != 0 || len(v.S) > 0 || v.Dyn != nil {
		return true
	}
	for i := range v.Elems {
		if nonZero(&v.Elems[i]) {
			return true
		}
	}
	return len(v.Keys) > 0
}

// Run decides one case.
func Run(c Case) error {
	typ, err := tv.Build(c.Desc)
	if err != nil {
		return nil // reflect cannot build the type: not a case
	}
	opts, err := opt.Build(c.Opts)
	if err != nil {
		return err
	}
	opts = append(opts, json.Deterministic(true))
	ft := features(c.Desc)
	for _, o := range c.Opts {
		if (o.Name == "OmitZeroStructFields" || o.Name == "OmitEmptyWithLegacySemantics" || o.Name == "DefaultOptionsV1") && (o.B || o.Name == "DefaultOptionsV1") {
			ft.omit = ft.omit || o.Name == "OmitZeroStructFields" || ft.tagged
		}
	}
	sig := c.Desc.Sig()
	optSig := fmt.Sprint(c.Opts)
	for i := range c.Vals {
		rec.Eval()
		v, err := tv.Make(c.Desc, &c.Vals[i])
		if err != nil {
			continue
		}
		var b1 []byte
		if p := rt.Guard(func() { b1, err = json.Marshal(v.Interface(), opts...) }); p != nil {
			return fmt.Errorf("Marshal panicked: %v\ntype %s", p, sig)
		}
		if err != nil {
			rec.Class("marshal-error")
			return fmt.Errorf("Marshal of an in-domain value failed: %v\ntype %s\nopts %v", err, sig, c.Opts)
		}
		if c.Desc.Depth() >= 2 || ft.tagged {
			if nonZero(&c.Vals[i]) {
				fp := cov.FPs(sig, optSig, string(b1))
				rec.NonTrivial(fp)
				rec.Sample(fp, func() any { return map[string]any{"type": sig, "opts": optSig, "marshaled": string(b1)} })
			}
		}
		classify(c.Desc, ft)

		v2 := reflect.New(typ)
		if p := rt.Guard(func() { err = json.Unmarshal(b1, v2.Interface(), opts...) }); p != nil {
			return fmt.Errorf("Unmarshal panicked: %v\ninput %s\ntype %s", p, b1, sig)
		}
		if err != nil {
			return fmt.Errorf("Unmarshal rejects Marshal output: %v\noutput %s\ntype %s\nopts %v", err, b1, sig, c.Opts)
		}
		var b2 []byte
		if p := rt.Guard(func() { b2, err = json.Marshal(v2.Elem().Interface(), opts...) }); p != nil {
			return fmt.Errorf("second Marshal panicked: %v", p)
		}
		if err != nil {
			return fmt.Errorf("Marshal of the decoded value failed: %v\nfirst output %s\ntype %s\nopts %v", err, b1, sig, c.Opts)
		}
		if ft.omit || ft.lossyTime {
			// fixed point required from the second round
			v3 := reflect.New(typ)
			if err := json.Unmarshal(b2, v3.Interface(), opts...); err != nil {
				return fmt.Errorf("Unmarshal rejects second-round Marshal output: %v\noutput %s\ntype %s\nopts %v", err, b2, sig, c.Opts)
			}
			b3, err := json.Marshal(v3.Elem().Interface(), opts...)
			if err != nil {
				return fmt.Errorf("third Marshal failed: %v", err)
			}
			if !bytes.Equal(b2, b3) {
				err := fmt.Errorf("no fixed point after one round:\n b1 %s\n b2 %s\n b3 %s\ntype %s\nopts %v", b1, b2, b3, sig, c.Opts)
				if peelsToFixedPoint(typ, b2, b3, opts) {
					return rt.Known(clsOmitPeels, err)
				}
				return err
			}
			rec.Class("fixed-point-second-round")
			continue
		}
		if !bytes.Equal(b1, b2) {
			return fmt.Errorf("Marshal(Unmarshal(Marshal(v))) differs:\n b1 %s\n b2 %s\ntype %s\nopts %v", b1, b2, sig, c.Opts)
		}
		if sn, _ := opt.Has(c.Opts, "StringifyNumbers"); sn && ft.hasAny {
			rec.Class("any-under-stringify-numbers(no equality demanded)")
			continue
		}
		if d := tv.Equal(v, v2.Elem(), tv.EqOpt{NilEqualsEmpty: true, NilEqualsZeroish: true}); d != "" {
			return fmt.Errorf("decoded value differs from the original at %s\n marshaled %s\ntype %s\nopts %v", d, b1, sig, c.Opts)
		}
		rec.Class("equal-and-fixed-point")
	}
	return nil
}

func classify(d *tv.Desc, ft feat) {
	if ft.omit {
		rec.Class("has-omit-option")
	}
	if ft.lossyTime {
		rec.Class("lossy-time-layout")
	}
	if ft.hasAny {
		rec.Class("has-any")
	}
	big := false
	formats := false
	embed := false
	d.Walk(func(x *tv.Desc) {
		if len(x.Fields) > 64 {
			big = true
		}
		for _, f := range x.Fields {
			if strings.Contains(f.Tag, "format:") {
				formats = true
			}
			if f.Embedded {
				embed = true
			}
		}
	})
	if big {
		rec.Class("struct>64-fields")
	}
	if formats {
		rec.Class("format-tag")
	}
	if embed {
		rec.Class("embedding")
	}
}

// F32Case is a block of float32 bit patterns [Start, Start+Count*Stride) stepping by Stride.
type F32Case struct {
	Start  uint32 `json:"start"`
	Count  uint32 `json:"count"`
	Stride uint32 `json:"stride"`
}

type f32s struct {
	F float32 `json:",string"`
}

// RunF32 checks AppendFloat(.,32) -> Unmarshal into float32 -> identical bits
// for every pattern of the block, and full Marshal/Unmarshal (plain and
// `,string`) for every 256th of them.
func RunF32(c F32Case) error {
	var buf []byte
	bits := c.Start
	for i := uint32(0); i < c.Count; i++ {
		f := math.Float32frombits(bits)
		cur := bits
		bits += c.Stride
		if f != f || math.IsInf(float64(f), 0) {
			rec.Class("f32-nan-inf-skipped")
			continue
		}
		rec.Eval()
		buf = jsontext.AppendFloat(buf[:0], float64(f), 32)
		var g float32
		if err := json.Unmarshal(buf, &g); err != nil {
			return fmt.Errorf("float32 bits %#08x formatted as %s: Unmarshal error %v", cur, buf, err)
		}
		if math.Float32bits(g) != cur {
			return fmt.Errorf("float32 bits %#08x formatted as %s decodes to bits %#08x", cur, buf, math.Float32bits(g))
		}
		if i%256 == 0 {
			b, err := json.Marshal(f)
			if err != nil || !bytes.Equal(b, buf) {
				return fmt.Errorf("Marshal(float32 %#08x) = %s, %v; AppendFloat gives %s", cur, b, err, buf)
			}
			s := f32s{F: f}
			b, err = json.Marshal(s)
			if err != nil {
				return fmt.Errorf("Marshal of `,string` float32 %#08x: %v", cur, err)
			}
			var s2 f32s
			if err := json.Unmarshal(b, &s2); err != nil || math.Float32bits(s2.F) != cur {
				return fmt.Errorf("`,string` float32 %#08x: %s decodes to %#08x, err %v", cur, b, math.Float32bits(s2.F), err)
			}
		}
	}
	rec.NonTrivialDistinct(int64(c.Count))
	return nil
}

func enumFloat32(e *rt.Env, yield func(F32Case) bool) {
	// The 2^32 patterns are cut into 4096 blocks of 2^20. Thorough: every
	// pattern. Quick: every 509th pattern starting at a seed-dependent offset.
	const blocks = 4096
	const per = 1 << 20
	stride := uint32(1)
	off := uint32(0)
	if !e.Thorough() {
		stride = 509
		off = uint32(e.Offset("float32-sweep", 509))
	}
	var total int64
	complete := true
	for b := 0; b < blocks; b++ {
		if !e.Mine(int64(b)) {
			continue
		}
		start := uint32(b)*per + off
		count := uint32(per)
		if stride != 1 {
			count = (per - off + stride - 1) / stride
		}
		total += int64(count)
		if !yield(F32Case{Start: start, Count: count, Stride: stride}) {
			complete = false
			break
		}
	}
	name := "all 2^32 float32 bit patterns: AppendFloat(.,32) -> Unmarshal -> identical bits"
	if stride != 1 {
		name = fmt.Sprintf("float32 bit patterns, every %dth (seed-dependent offset): AppendFloat(.,32) -> Unmarshal -> identical bits", stride)
	}
	e.Rec.AddPart(cov.Part{Name: name, Size: total, Complete: complete && stride == 1, Stride: int64(stride)})
}

// clsOmitPeels classifies the finding that, under omitzero / omitempty /
// OmitZeroStructFields, a round of Unmarshal+Marshal can remove one more level
// of members that were only written because a pointer had been allocated for
// a member that is itself omitted in the next round: {"b":{"X":{}}} ->
// {"b":{}} -> {}. The fixed point is reached after as many rounds as there are
// such levels, not after one.
const clsOmitPeels = "omit-peels-one-allocated-level-per-round"

// peelsToFixedPoint reports whether the rounds that follow b2 -> b3 reach a
// fixed point within eight rounds and every step only deletes members whose
// value is an empty object.
func peelsToFixedPoint(typ reflect.Type, prev, cur []byte, opts []json.Options) bool {
	for round := 0; round < 8; round++ {
		if !peelStep(prev, cur) {
			return false
		}
		v := reflect.New(typ)
		if json.Unmarshal(cur, v.Interface(), opts...) != nil {
			return false
		}
		next, err := json.Marshal(v.Elem().Interface(), opts...)
		if err != nil {
			return false
		}
		if bytes.Equal(next, cur) {
			return true
		}
		prev, cur = cur, next
	}
	return false
}

// peelStep: b equals a with some members removed whose value in a is {}.
func peelStep(a, b []byte) bool {
	po := ref.Opt{AllowInvalidUTF8: true, AllowDup: true}
	x, err1 := ref.Parse(a, po)
	y, err2 := ref.Parse(b, po)
	if err1 != nil || err2 != nil {
		return false
	}
	removed := 0
	var same func(x, y *ref.Node) bool
	same = func(x, y *ref.Node) bool {
		if x.Kind != y.Kind {
			return false
		}
		switch x.Kind {
		case '[':
			if len(x.Elems) != len(y.Elems) {
				return false
			}
			for i := range x.Elems {
				if !same(x.Elems[i], y.Elems[i]) {
					return false
				}
			}
			return true
		case '{':
			j := 0
			for _, m := range x.Members {
				if j < len(y.Members) && bytes.Equal(a[m.Name.Start:m.Name.End], b[y.Members[j].Name.Start:y.Members[j].Name.End]) && same(m.Value, y.Members[j].Value) {
					j++
					continue
				}
				if m.Value.Kind == '{' && len(m.Value.Members) == 0 {
					removed++
					continue
				}
				return false
			}
			return j == len(y.Members)
		}
		return bytes.Equal(a[x.Start:x.End], b[y.Start:y.End])
	}
	return same(x, y) && removed > 0
}

package c04

import (
	"testing"

	"verif/harness/rt"
)

func TestCheck(t *testing.T) {
	e := rt.Setup(t, "C04")
	defer e.Finish()
	rec = e.Rec

	rt.Rapid(e, "roundtrip", 120_000, 480_000, genCase(false), Run)
	rt.Rapid(e, "roundtrip-formats", 80_000, 320_000, genCase(true), Run)
	rt.Rapid(e, "repr", 80_000, 480_000, genRepr, RunRepr)
	rt.Enum(e, "float32-sweep", func(yield func(F32Case) bool) { enumFloat32(e, yield) }, RunF32)
}

package c04

import (
	"testing"

	"verif/harness/rt"
)

// FuzzRoundTrip lets the native fuzzer drive the "roundtrip" generator (coverage-guided).
func FuzzRoundTrip(f *testing.F) {
	rt.FuzzRapid(f, "C04", "roundtrip", genCase(false), Run)
}

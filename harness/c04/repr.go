package c04

// Sub-check "repr": the documented alternative representations, judged against what the documentation of
// the format flags says they denote - not only against the library's own decoder. A round trip alone cannot
// see a slip that the encoder and the decoder share (the same wrong carry when a time before 1970 is negated,
// the two base32 alphabets swapped in both directions); here the emitted member is compared with a
// reference computed with math/big, package time and the encoding/* packages of the standard library, and the
// reference spelling is fed back through Unmarshal.

import (
	"encoding/base32"
	"encoding/base64"
	"encoding/hex"
	"fmt"
	"math"
	"math/big"
	"reflect"
	"regexp"
	"strconv"
	"strings"
	"time"

	"github.com/go-json-experiment/json"
	"pgregory.net/rapid"

	"verif/harness/cov"
	"verif/harness/opt"
	"verif/harness/ref"
	"verif/harness/rt"
)

// ReprCase is one value of one type under one format flag.
type ReprCase struct {
	Kind   string     `json:"kind"`   // time, dur, bytes, bytearr, f32, f64, int, uint
	Format string     `json:"format"` // format flag; "" = none; for int/uint the tag option is `string`
	Ptr    bool       `json:"ptr,omitempty"`
	Sec    int64      `json:"sec,omitempty"`
	Nsec   int64      `json:"nsec,omitempty"`
	Off    int        `json:"off,omitempty"` // zone offset in seconds (whole minutes)
	I      int64      `json:"i,omitempty"`
	U      uint64     `json:"u,omitempty"` // uint value / float bits
	Bytes  []byte     `json:"bytes,omitempty"`
	Opts   []opt.Spec `json:"opts,omitempty"`
}

var timeLayouts = map[string]string{
	"ANSIC": time.ANSIC, "UnixDate": time.UnixDate, "RubyDate": time.RubyDate, "RFC822": time.RFC822, "RFC822Z": time.RFC822Z,
	"RFC850": time.RFC850, "RFC1123": time.RFC1123, "RFC1123Z": time.RFC1123Z, "RFC3339": time.RFC3339, "RFC3339Nano": time.RFC3339Nano,
	"Kitchen": time.Kitchen, "Stamp": time.Stamp, "StampMilli": time.StampMilli, "StampMicro": time.StampMicro, "StampNano": time.StampNano,
	"DateTime": time.DateTime, "DateOnly": time.DateOnly, "TimeOnly": time.TimeOnly,
	"'2006-01-02T15:04:05.000Z07:00'": "2006-01-02T15:04:05.000Z07:00", "'02 Jan 06 15:04:05.999999999 -0700'": "02 Jan 06 15:04:05.999999999 -0700",
	"": time.RFC3339Nano,
}
var timeUnits = map[string]int64{"unix": 1e9, "unixmilli": 1e6, "unixmicro": 1e3, "unixnano": 1}
var durUnits = map[string]int64{"sec": 1e9, "milli": 1e6, "micro": 1e3, "nano": 1}
var bytesFormats = []string{"", "base64", "base64url", "base32", "base32hex", "base16", "hex", "array"}

func sortedKeys[V any](m map[string]V) []string {
	var ks []string
	for k := range m {
		ks = append(ks, k)
	}
	// insertion sort (tiny maps); map order must not reach a draw
	for i := 1; i < len(ks); i++ {
		for j := i; j > 0 && ks[j] < ks[j-1]; j-- {
			ks[j], ks[j-1] = ks[j-1], ks[j]
		}
	}
	return ks
}

var timeFormatNames = append(sortedKeys(timeLayouts), sortedKeys(timeUnits)...)
var durFormatNames = append(sortedKeys(durUnits), "units", "iso8601")

func genRepr(t *rapid.T) ReprCase {
	c := ReprCase{Kind: rapid.SampledFrom([]string{"time", "time", "time", "dur", "dur", "dur", "bytes", "bytearr", "f32", "f64", "int", "uint"}).Draw(t, "kind")}
	c.Ptr = rapid.IntRange(0, 3).Draw(t, "ptr") == 0
	stringify := rapid.IntRange(0, 3).Draw(t, "stringify") == 0
	switch c.Kind {
	case "time":
		c.Format = rapid.SampledFrom(timeFormatNames).Draw(t, "tformat")
		if rapid.Bool().Draw(t, "numeric") {
			c.Format = rapid.SampledFrom(sortedKeys(timeUnits)).Draw(t, "tunit")
		}
		switch rapid.IntRange(0, 3).Draw(t, "timeclass") {
		case 0:
			c.Sec = rapid.Int64Range(-62135596800+86400, 253402300799-86400).Draw(t, "sec") // years 1..9999 whatever the zone
		case 1:
			c.Sec = rapid.SampledFrom([]int64{0, 1, -1, -2, 59, 60, 86399, 86400, -86400, 946684800, 1e9 - 1, 1e9, 1e9 + 1, -1e9, -1e9 - 1, 1e10, 18446744073, 18446744074, 1e11,
				-18446744074, 253402300799 - 86400, -62135596800 + 86400, 1700000000, 2147483647, 2147483648, -2147483649, 9223372036, 9223372037, -9223372037}).Draw(t, "secedge")
		default:
			c.Sec = int64(rapid.IntRange(-100000, 100000).Draw(t, "secsmall"))
		}
		switch rapid.IntRange(0, 2).Draw(t, "nsclass") {
		case 0:
			c.Nsec = rapid.SampledFrom([]int64{0, 0, 0, 1, 999, 1000, 999999, 1000000, 999999999, 500000000, 123456789, 100000000, 120000000, 990000000, 999000000, 10, 999999990}).Draw(t, "nsec")
		case 1:
			c.Nsec = rapid.Int64Range(0, 999999999).Draw(t, "nsany")
		default:
			c.Nsec = 0
		}
		if rapid.IntRange(0, 1).Draw(t, "zone?") == 0 {
			c.Off = rapid.SampledFrom([]int{0, 3600, -25200, 5400, 20700, 43200, -43200, 82800, -82800, 86340, -86340, 50400, 60, -60}).Draw(t, "off")
		}
	case "dur":
		c.Format = rapid.SampledFrom(durFormatNames).Draw(t, "dformat")
		switch rapid.IntRange(0, 3).Draw(t, "durclass") {
		case 0:
			c.I = rapid.Int64().Draw(t, "d")
		case 1:
			c.I = rapid.SampledFrom([]int64{0, 1, -1, 999, 1000, -1000, 999999, 1e6, 1e9, -1e9, 1e9 - 1, 1e9 + 1, 60e9, 3600e9, -3600e9, 3600e9 + 1, 3600e9 + 5e8, 60e9 + 5e8, 59e9 + 999999999,
				math.MaxInt64, math.MinInt64, math.MinInt64 + 1, math.MaxInt64 - 1, 9223372036e9, -9223372036e9, 1e18, -1e18, 86400e9, 100 * 3600e9}).Draw(t, "dedge")
		default:
			// composed of parts that may be absent: hours, minutes, seconds, fraction
			h := int64(rapid.SampledFrom([]int{0, 0, 1, 23, 24, 100, 2562047}).Draw(t, "h"))
			m := int64(rapid.SampledFrom([]int{0, 0, 1, 59}).Draw(t, "m"))
			s := int64(rapid.SampledFrom([]int{0, 0, 1, 59}).Draw(t, "s"))
			f := rapid.SampledFrom([]int64{0, 0, 1, 1000, 1e6, 5e8, 999999999, 123456789, 120000000, 990000000}).Draw(t, "f")
			c.I = h*3600e9 + m*60e9 + s*1e9 + f
			if rapid.Bool().Draw(t, "neg") {
				c.I = -c.I
			}
		}
	case "bytes", "bytearr":
		c.Format = rapid.SampledFrom(bytesFormats).Draw(t, "bformat")
		n := rapid.IntRange(0, 12).Draw(t, "blen")
		if c.Kind == "bytearr" {
			n = rapid.IntRange(1, 9).Draw(t, "alen")
		}
		c.Bytes = rapid.SliceOfN(rapid.Byte(), n, n).Draw(t, "bytes")
		if rapid.IntRange(0, 3).Draw(t, "hi") == 0 {
			// bytes that select the characters in which the alphabets differ (+ / - _ and the two base32 alphabets)
			for i := range c.Bytes {
				c.Bytes[i] = rapid.SampledFrom([]byte{0xfb, 0xff, 0xfe, 0x3e, 0x3f, 0xf8, 0x00, 0x94, 0xd3}).Draw(t, "hib")
			}
		}
		stringify = false
	case "f32":
		c.Format = "nonfinite"
		c.U = uint64(rapid.SampledFrom([]uint32{0x7f800000, 0xff800000, 0x7fc00000, 0xffc00001, 0x7f800001, 0, 0x80000000, 0x3f800000, 0x7f7fffff, 0xff7fffff, 1}).Draw(t, "f32"))
		if rapid.IntRange(0, 2).Draw(t, "anyf") == 0 {
			c.U = uint64(rapid.Uint32().Draw(t, "f32any"))
		}
	case "f64":
		c.Format = "nonfinite"
		c.U = rapid.SampledFrom([]uint64{0x7ff0000000000000, 0xfff0000000000000, 0x7ff8000000000000, 0xfff8000000000001, 0x7ff0000000000001, 0, 1 << 63, 0x3ff0000000000000, 0x7fefffffffffffff, 0xffefffffffffffff, 1}).Draw(t, "f64")
		if rapid.IntRange(0, 2).Draw(t, "anyf") == 0 {
			c.U = rapid.Uint64().Draw(t, "f64any")
		}
	case "int":
		c.Format = "string"
		c.I = rapid.OneOf(rapid.Int64(), rapid.SampledFrom([]int64{0, -1, 1, math.MaxInt64, math.MinInt64, 1 << 53, -(1 << 53) - 1})).Draw(t, "i")
		stringify = false
	case "uint":
		c.Format = "string"
		c.U = rapid.OneOf(rapid.Uint64(), rapid.SampledFrom([]uint64{0, 1, math.MaxUint64, 1 << 63, 1<<53 + 1})).Draw(t, "u")
		stringify = false
	}
	if stringify {
		c.Opts = []opt.Spec{opt.B("StringifyNumbers", true)}
	}
	return c
}

func decimalOf(n *big.Int, scale int64) string {
	neg := n.Sign() < 0
	abs := new(big.Int).Abs(n)
	q, r := new(big.Int).QuoRem(abs, big.NewInt(scale), new(big.Int))
	s := q.String()
	if r.Sign() != 0 {
		width := len(strconv.FormatInt(scale, 10)) - 1
		f := r.String()
		f = strings.Repeat("0", width-len(f)) + f
		s += "." + strings.TrimRight(f, "0")
	}
	if neg {
		s = "-" + s
	}
	return s
}

var isoRE = regexp.MustCompile(`^(-?)PT(?:([0-9]+)H)?(?:([0-9]+)M)?(?:([0-9]+)(?:\.([0-9]{1,9}))?S)?$`)

// isoNanos parses the restricted ISO 8601 duration grammar (hours, minutes, seconds only).
func isoNanos(s string) (*big.Int, bool) {
	m := isoRE.FindStringSubmatch(s)
	if m == nil || (m[2] == "" && m[3] == "" && m[4] == "") {
		return nil, false
	}
	total := new(big.Int)
	add := func(digits string, unit int64) {
		if digits == "" {
			return
		}
		v, _ := new(big.Int).SetString(digits, 10)
		total.Add(total, v.Mul(v, big.NewInt(unit)))
	}
	add(m[2], 3600e9)
	add(m[3], 60e9)
	add(m[4], 1e9)
	if m[5] != "" {
		add(m[5]+strings.Repeat("0", 9-len(m[5])), 1)
	}
	if m[1] == "-" {
		total.Neg(total)
	}
	return total, true
}

func isoOf(d int64) string {
	if d == 0 {
		return "PT0S"
	}
	n := big.NewInt(d)
	s := "PT"
	if d < 0 {
		s = "-PT"
		n.Neg(n)
	}
	rest := new(big.Int)
	h, rest := new(big.Int).QuoRem(n, big.NewInt(3600e9), rest)
	if h.Sign() > 0 {
		s += h.String() + "H"
	}
	m, rest2 := new(big.Int).QuoRem(rest, big.NewInt(60e9), new(big.Int))
	if m.Sign() > 0 {
		s += m.String() + "M"
	}
	if rest2.Sign() > 0 {
		s += decimalOf(rest2, 1e9) + "S"
	}
	return s
}

func reprType(c ReprCase) (reflect.Type, error) {
	var ft reflect.Type
	switch c.Kind {
	case "time":
		ft = reflect.TypeFor[time.Time]()
	case "dur":
		ft = reflect.TypeFor[time.Duration]()
	case "bytes":
		ft = reflect.TypeFor[[]byte]()
	case "bytearr":
		ft = reflect.ArrayOf(len(c.Bytes), reflect.TypeFor[byte]())
	case "f32":
		ft = reflect.TypeFor[float32]()
	case "f64":
		ft = reflect.TypeFor[float64]()
	case "int":
		ft = reflect.TypeFor[int64]()
	case "uint":
		ft = reflect.TypeFor[uint64]()
	default:
		return nil, fmt.Errorf("unknown kind %q", c.Kind)
	}
	if c.Ptr {
		ft = reflect.PointerTo(ft)
	}
	tag := `json:"t"`
	switch {
	case c.Format == "string":
		tag = `json:"t,string"`
	case c.Format != "":
		tag = `json:"t,format:` + c.Format + `"`
	}
	return reflect.StructOf([]reflect.StructField{{Name: "T", Type: ft, Tag: reflect.StructTag(tag)}}), nil
}

// RunRepr decides one case.
func RunRepr(c ReprCase) error {
	rec.Eval()
	st, err := reprType(c)
	if err != nil {
		return nil
	}
	opts, err := opt.Build(c.Opts)
	if err != nil {
		return err
	}
	opts = append(opts, json.ExperimentalSupportFormatTag(true))
	stringify := len(c.Opts) > 0

	// the Go value, the reference spelling of the member and the way an emitted member is judged
	var val reflect.Value
	var refText string           // reference spelling (JSON text of the member value)
	var judge func(string) error // nil: the emitted text must equal refText
	var same func(got reflect.Value) error
	exact := func(n *big.Int, scale int64) {
		lit := decimalOf(n, scale)
		want := new(big.Rat).SetFrac(n, big.NewInt(scale))
		refText = lit
		if stringify {
			refText = `"` + lit + `"`
		}
		judge = func(v string) error {
			if stringify != strings.HasPrefix(v, `"`) {
				return fmt.Errorf("quoting of the number does not follow StringifyNumbers=%v", stringify)
			}
			v = strings.Trim(v, `"`)
			if _, e := ref.Parse([]byte(v), ref.Opt{}); e != nil || v == "" || !(v[0] == '-' || (v[0] >= '0' && v[0] <= '9')) {
				return fmt.Errorf("not a JSON number")
			}
			if got := ref.RatOf(v); got == nil || got.Cmp(want) != 0 {
				return fmt.Errorf("denotes %v, the value is exactly %s (%s / %d)", got, lit, n, scale)
			}
			return nil
		}
	}
	switch c.Kind {
	case "time":
		tm := time.Unix(c.Sec, c.Nsec).UTC()
		if c.Off != 0 {
			tm = tm.In(time.FixedZone("", c.Off))
		}
		val = reflect.ValueOf(tm)
		if scale, ok := timeUnits[c.Format]; ok {
			n := new(big.Int).Mul(big.NewInt(c.Sec), big.NewInt(1e9))
			n.Add(n, big.NewInt(c.Nsec))
			exact(n, scale)
			same = func(got reflect.Value) error {
				g := got.Interface().(time.Time)
				if g.Unix() != c.Sec || int64(g.Nanosecond()) != c.Nsec {
					return fmt.Errorf("got %d s %d ns", g.Unix(), g.Nanosecond())
				}
				return nil
			}
		} else {
			layout := timeLayouts[c.Format]
			text := tm.Format(layout)
			refText = `"` + text + `"`
			wantT, perr := time.Parse(layout, text)
			same = func(got reflect.Value) error {
				g := got.Interface().(time.Time)
				if perr != nil {
					return nil
				}
				if !g.Equal(wantT) { // (the layout may be lossy: two-digit years, no date; package time is the reference for what the text denotes)
					return fmt.Errorf("got %s, time.Parse gives %s", g.Format(time.RFC3339Nano), wantT.Format(time.RFC3339Nano))
				}
				return nil
			}
			if perr != nil {
				same = nil // the layout cannot be parsed back by package time either (ambiguous zone abbreviations etc.)
			}
		}
	case "dur":
		val = reflect.ValueOf(time.Duration(c.I))
		same = func(got reflect.Value) error {
			if g := got.Interface().(time.Duration); int64(g) != c.I {
				return fmt.Errorf("got %d ns", int64(g))
			}
			return nil
		}
		switch {
		case durUnits[c.Format] != 0:
			exact(big.NewInt(c.I), durUnits[c.Format])
		case c.Format == "units":
			refText = `"` + time.Duration(c.I).String() + `"`
		default:
			refText = `"` + isoOf(c.I) + `"`
			judge = func(v string) error {
				if len(v) < 2 || v[0] != '"' || v[len(v)-1] != '"' {
					return fmt.Errorf("not a JSON string")
				}
				n, ok := isoNanos(v[1 : len(v)-1])
				if !ok {
					return fmt.Errorf("not an ISO 8601 duration of hours, minutes and seconds")
				}
				if n.Cmp(big.NewInt(c.I)) != 0 {
					return fmt.Errorf("denotes %s ns, the value is %d ns (%s)", n, c.I, isoOf(c.I))
				}
				return nil
			}
		}
	case "bytes", "bytearr":
		if c.Kind == "bytes" {
			val = reflect.ValueOf(append([]byte{}, c.Bytes...))
		} else {
			val = reflect.New(reflect.ArrayOf(len(c.Bytes), reflect.TypeFor[byte]())).Elem()
			reflect.Copy(val, reflect.ValueOf(c.Bytes))
		}
		same = func(got reflect.Value) error {
			g := make([]byte, got.Len())
			reflect.Copy(reflect.ValueOf(g), got)
			if string(g) != string(c.Bytes) {
				return fmt.Errorf("got % x", g)
			}
			return nil
		}
		switch c.Format {
		case "", "base64":
			refText = `"` + base64.StdEncoding.EncodeToString(c.Bytes) + `"`
		case "base64url":
			refText = `"` + base64.URLEncoding.EncodeToString(c.Bytes) + `"`
		case "base32":
			refText = `"` + base32.StdEncoding.EncodeToString(c.Bytes) + `"`
		case "base32hex":
			refText = `"` + base32.HexEncoding.EncodeToString(c.Bytes) + `"`
		case "base16", "hex":
			refText = `"` + hex.EncodeToString(c.Bytes) + `"`
			judge = func(v string) error { // RFC 4648 section 8 is case-insensitive in practice; the bytes denoted are what counts
				if len(v) < 2 || v[0] != '"' || v[len(v)-1] != '"' {
					return fmt.Errorf("not a JSON string")
				}
				b, err := hex.DecodeString(v[1 : len(v)-1])
				if err != nil || string(b) != string(c.Bytes) {
					return fmt.Errorf("denotes % x (%v)", b, err)
				}
				return nil
			}
		case "array":
			parts := make([]string, len(c.Bytes))
			for i, b := range c.Bytes {
				parts[i] = strconv.Itoa(int(b))
			}
			refText = "[" + strings.Join(parts, ",") + "]"
		}
	case "f32", "f64":
		bits := 64
		f := math.Float64frombits(c.U)
		if c.Kind == "f32" {
			bits = 32
			f = float64(math.Float32frombits(uint32(c.U)))
			val = reflect.ValueOf(math.Float32frombits(uint32(c.U)))
		} else {
			val = reflect.ValueOf(f)
		}
		switch {
		case math.IsNaN(f):
			refText = `"NaN"`
		case math.IsInf(f, 1):
			refText = `"Infinity"`
		case math.IsInf(f, -1):
			refText = `"-Infinity"`
		default:
			refText = ref.ES6(f, bits)
			if stringify {
				refText = `"` + refText + `"`
			}
		}
		same = func(got reflect.Value) error {
			g := got.Float()
			if math.IsNaN(f) {
				if !math.IsNaN(g) {
					return fmt.Errorf("got %v, want NaN", g)
				}
				return nil
			}
			if math.Float64bits(g) != math.Float64bits(f) {
				return fmt.Errorf("got %v (bits %x), want %v (bits %x)", g, math.Float64bits(g), f, math.Float64bits(f))
			}
			return nil
		}
	case "int":
		val = reflect.ValueOf(c.I)
		refText = `"` + big.NewInt(c.I).String() + `"`
		same = func(got reflect.Value) error {
			if got.Int() != c.I {
				return fmt.Errorf("got %d", got.Int())
			}
			return nil
		}
	case "uint":
		val = reflect.ValueOf(c.U)
		refText = `"` + new(big.Int).SetUint64(c.U).String() + `"`
		same = func(got reflect.Value) error {
			if got.Uint() != c.U {
				return fmt.Errorf("got %d", got.Uint())
			}
			return nil
		}
	}
	rec.Class("repr-" + c.Kind + "-" + c.Format)

	in := reflect.New(st).Elem()
	if c.Ptr {
		p := reflect.New(val.Type())
		p.Elem().Set(val)
		in.Field(0).Set(p)
	} else {
		in.Field(0).Set(val)
	}
	describe := func() string {
		return fmt.Sprintf("%s field tagged %q (pointer=%v), options %v, value %s", c.Kind, st.Field(0).Tag, c.Ptr, c.Opts, describeVal(c))
	}
	var out []byte
	if p := rt.Guard(func() { out, err = json.Marshal(in.Interface(), opts...) }); p != nil {
		return fmt.Errorf("Marshal panicked: %v\n%s", p, describe())
	}
	if err != nil {
		return fmt.Errorf("Marshal of an in-domain value failed: %v\n%s", err, describe())
	}
	s := string(out)
	if !strings.HasPrefix(s, `{"t":`) || !strings.HasSuffix(s, "}") {
		return fmt.Errorf("Marshal = %s: not an object with the single member t\n%s", s, describe())
	}
	member := s[len(`{"t":`) : len(s)-1]
	if judge != nil {
		if err := judge(member); err != nil {
			return fmt.Errorf("Marshal = %s: the member %v; reference spelling %s\n%s", s, err, refText, describe())
		}
	} else if member != refText {
		return fmt.Errorf("Marshal = %s: the documented representation is %s\n%s", s, refText, describe())
	}
	if c.Sec != 0 || c.Nsec != 0 || c.I != 0 || c.U != 0 || len(c.Bytes) > 0 {
		rec.NonTrivial(cov.FPs("repr", c.Kind, c.Format, describeVal(c), fmt.Sprint(c.Ptr, c.Opts)))
	}
	rec.Sample(cov.FPs("repr", c.Kind, c.Format), func() any { return map[string]any{"sub": "repr", "case": c, "marshal": s, "reference": refText} })

	// the reference spelling, and the emitted one, decode to the value
	if same == nil {
		return nil
	}
	for _, text := range []string{`{"t":` + refText + `}`, s} {
		outp := reflect.New(st)
		if p := rt.Guard(func() { err = json.Unmarshal([]byte(text), outp.Interface(), opts...) }); p != nil {
			return fmt.Errorf("Unmarshal(%s) panicked: %v\n%s", text, p, describe())
		}
		if err != nil {
			return fmt.Errorf("Unmarshal(%s) failed: %v\n%s", text, err, describe())
		}
		got := outp.Elem().Field(0)
		if c.Ptr {
			if got.IsNil() {
				return fmt.Errorf("Unmarshal(%s) left the pointer nil\n%s", text, describe())
			}
			got = got.Elem()
		}
		if err := same(got); err != nil {
			return fmt.Errorf("Unmarshal(%s): %v\n%s", text, err, describe())
		}
	}
	return nil
}

func describeVal(c ReprCase) string {
	switch c.Kind {
	case "time":
		return fmt.Sprintf("time.Unix(%d, %d) in zone offset %d s", c.Sec, c.Nsec, c.Off)
	case "dur":
		return fmt.Sprintf("time.Duration(%d)", c.I)
	case "bytes", "bytearr":
		return fmt.Sprintf("% x", c.Bytes)
	case "f32", "f64":
		return fmt.Sprintf("float bits %#x", c.U)
	case "int":
		return fmt.Sprint(c.I)
	}
	return fmt.Sprint(c.U)
}

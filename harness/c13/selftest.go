package c13

import (
	"fmt"
	"math"
	"sort"

	"verif/harness/ref"
)

// selfTest checks the oracle (never the library): the RFC 8785 example
// (section 3.2.3 sorting example and Appendix B number vectors) and the two
// independent UTF-16 comparators against each other.
func selfTest() []string {
	var out []string

	// RFC 8785 section 3.2.3: expected order of the example's names.
	names := []string{string(rune(0x20ac)), "\r", string(rune(0xfb33)), "1", string(rune(0x1f600)), string(rune(0x80)), string(rune(0xf6))}
	want := []string{"\r", "1", string(rune(0x80)), string(rune(0xf6)), string(rune(0x20ac)), string(rune(0x1f600)), string(rune(0xfb33))}
	got := append([]string(nil), names...)
	sort.Slice(got, func(i, j int) bool { return utf16Cmp(got[i], got[j]) < 0 })
	for i := range want {
		if got[i] != want[i] {
			out = append(out, fmt.Sprintf("self-test: utf16Cmp sorts the RFC 8785 example as %q, want %q", got, want))
			break
		}
	}
	for _, a := range critNames {
		for _, b := range critNames {
			if utf16Cmp(a, b) != ref.UTF16Cmp(a, b) {
				out = append(out, fmt.Sprintf("self-test: utf16Cmp(%q,%q)=%d but ref.UTF16Cmp=%d", a, b, utf16Cmp(a, b), ref.UTF16Cmp(a, b)))
			}
		}
	}

	// RFC 8785 Appendix B (IEEE-754 bits -> text).
	vec := []struct {
		bits uint64
		text string
	}{
		{0x0000000000000000, "0"}, {0x8000000000000000, "0"}, {0x0000000000000001, "5e-324"}, {0x8000000000000001, "-5e-324"},
		{0x7fefffffffffffff, "1.7976931348623157e+308"}, {0xffefffffffffffff, "-1.7976931348623157e+308"},
		{0x4340000000000000, "9007199254740992"}, {0xc340000000000000, "-9007199254740992"}, {0x4430000000000000, "295147905179352830000"},
		{0x44b52d02c7e14af5, "9.999999999999997e+22"}, {0x44b52d02c7e14af6, "1e+23"}, {0x44b52d02c7e14af7, "1.0000000000000001e+23"},
		{0x444b1ae4d6e2ef4e, "999999999999999700000"}, {0x444b1ae4d6e2ef4f, "999999999999999900000"}, {0x444b1ae4d6e2ef50, "1e+21"},
		{0x3eb0c6f7a0b5ed8c, "9.999999999999997e-7"}, {0x3eb0c6f7a0b5ed8d, "0.000001"},
		{0x41b3de4355555553, "333333333.3333332"}, {0x41b3de4355555554, "333333333.33333325"}, {0x41b3de4355555555, "333333333.3333333"},
		{0x41b3de4355555556, "333333333.3333334"}, {0x41b3de4355555557, "333333333.33333343"},
		{0xbecbf647612f3696, "-0.0000033333333333333333"}, {0x43143ff3c1cb0959, "1424953923781206.2"},
	}
	for _, v := range vec {
		f := math.Float64frombits(v.bits)
		g := ref.ES6(f, 64)
		if f == 0 {
			g = "0"
		}
		if g != v.text {
			out = append(out, fmt.Sprintf("self-test: ref.ES6(%#x)=%s, RFC 8785 Appendix B says %s", v.bits, g, v.text))
		}
		if !es6Shape.MatchString(v.text) {
			out = append(out, fmt.Sprintf("self-test: es6Shape rejects the RFC 8785 vector %s", v.text))
		}
		if c := ref.CanonNumber(v.text); c != v.text {
			out = append(out, fmt.Sprintf("self-test: ref.CanonNumber(%s)=%s", v.text, c))
		}
	}
	for lit, w := range map[string]string{"-0": "0", "-0.0": "0", "1e400": "1.7976931348623157e+308", "-1e400": "-1.7976931348623157e+308", "1E+2": "100", "0.000001": "0.000001", "1e-7": "1e-7", "9007199254740993": "9007199254740992", "1e21": "1e+21", "123456789012345678901": "123456789012345680000"} {
		if c := ref.CanonNumber(lit); c != w {
			out = append(out, fmt.Sprintf("self-test: ref.CanonNumber(%s)=%s, want %s", lit, c, w))
		}
	}

	// RFC 8785 section 3.2.2 / 3.2.3 style document.
	in := []byte("{\n  \"numbers\": [333333333.33333329, 1E30, 4.50, 2e-3, 0.000000000000000000000000001],\n  \"string\": \"" + bs + "u20ac$" + bs + "u000F" + bs + "u000aA'" + bs + "u0042" + bs + "u0022" + bs + "u005c" + bs + bs + bs + "\"" + bs + "/\",\n  \"literals\": [null, true, false]\n}")
	wantDoc := "{\"literals\":[null,true,false],\"numbers\":[333333333.3333333,1e+30,4.5,0.002,1e-27],\"string\":\"\xe2\x82\xac$" + bs + "u000f" + bs + "nA'B" + bs + "\"" + bs + bs + bs + bs + bs + "\"/\"}"
	n, err := ref.Parse(in, ref.Opt{})
	if err != nil {
		out = append(out, fmt.Sprintf("self-test: reference rejects the RFC 8785 example: %v", err))
	} else if g := ref.Canon(in, n).Out; g != wantDoc {
		out = append(out, fmt.Sprintf("self-test: ref.Canon of the RFC 8785 example gives %q, want %q", g, wantDoc))
	}
	return out
}

package c13

import (
	"encoding/json"
	"fmt"
	"os"
	"path/filepath"
	"strings"
	"testing"

	"verif/harness/cov"
	"verif/harness/ref"
)

func saveFuzzCase(c Case, err error) string {
	root := os.Getenv("VERIF_ROOT")
	if root == "" {
		root = "/verif"
	}
	raw, _ := json.Marshal(c)
	data, _ := json.MarshalIndent(map[string]any{"property": "C13", "sub": "fuzz", "case": json.RawMessage(raw), "msg": err.Error()}, "", " ")
	dir := filepath.Join(root, "replays")
	os.MkdirAll(dir, 0o755)
	path := filepath.Join(dir, fmt.Sprintf("C13-fuzz-%016x.json", cov.FP(raw)))
	os.WriteFile(path, data, 0o644)
	fmt.Printf("VERIF-FUZZ-REPLAY %s\n", path)
	return path
}

// respellTree writes the parsed text again with every object's members
// rotated by rot (and reversed when rot is odd), whitespace around every
// token, every character of every string as a \uXXXX escape (hex case chosen
// by rot) and numbers verbatim.
func respellTree(in []byte, n *ref.Node, rot int, sb *strings.Builder) {
	str := func(s string) {
		sb.WriteByte('"')
		for _, r := range s {
			one := func(v rune) {
				if rot&2 != 0 {
					fmt.Fprintf(sb, "%su%04X", bs, v)
				} else {
					fmt.Fprintf(sb, "%su%04x", bs, v)
				}
			}
			if r >= 0x10000 {
				v := r - 0x10000
				one(0xd800 + (v >> 10))
				one(0xdc00 + (v & 0x3ff))
			} else {
				one(r)
			}
		}
		sb.WriteByte('"')
	}
	switch n.Kind {
	case '"':
		str(n.Str)
	case '[':
		sb.WriteString("[ ")
		for i, e := range n.Elems {
			if i > 0 {
				sb.WriteString("\t,\n")
			}
			respellTree(in, e, rot, sb)
		}
		sb.WriteString(" ]")
	case '{':
		sb.WriteString("{\r\n")
		k := len(n.Members)
		for i := 0; i < k; i++ {
			j := (i + rot) % k
			if rot&1 != 0 {
				j = k - 1 - j
			}
			if i > 0 {
				sb.WriteString(" , ")
			}
			str(n.Members[j].Name.Str)
			sb.WriteString(" :\t")
			respellTree(in, n.Members[j].Value, rot, sb)
		}
		sb.WriteString("\n}")
	default:
		sb.Write(in[n.Start:n.End])
	}
}

// FuzzCanonicalize is the coverage-guided campaign of the thorough tier.
func FuzzCanonicalize(f *testing.F) {
	f.Add([]byte(`{"b":1,"a":[1.0,-0,1e400,9007199254740993],"":{"`+bs+`ud83d`+bs+`ude00":1,"`+bs+`uffff":2}}`), uint8(1))
	f.Add([]byte("{\"\xf0\x90\x80\x80\":1,\"\xee\x80\x80\":2,\"a\":3,\"\":4}"), uint8(2))
	f.Add([]byte(" [ 1E2 , 0.000001 , 1e-7 , 1e21 , \"\\/\\n\" ] "), uint8(3))
	f.Add([]byte(`{"k1":{"z":1,"y":2},"k0":{"b":[{"d":1,"c":2}],"a":0}}`), uint8(0))
	f.Fuzz(func(t *testing.T, data []byte, rot uint8) {
		if len(data) > 1<<16 {
			return
		}
		c := Case{Text: data}
		if n, err := ref.Parse(data, ref.Opt{}); err == nil {
			var sb strings.Builder
			respellTree(data, n, int(rot), &sb)
			c.Respell = []byte(sb.String())
		}
		if err := Run(c); err != nil {
			path := saveFuzzCase(c, err)
			t.Fatalf("%v (case saved to %s)", err, path)
		}
	})
}

// Package c13 decides property C13: Value.Canonicalize produces the RFC 8785
// (JCS) form of every I-JSON text, and texts that differ only in whitespace,
// member order, escape spelling or number spelling canonicalize to identical
// bytes.
package c13

import (
	"bytes"
	"fmt"
	"math"
	"regexp"
	"strconv"

	"github.com/go-json-experiment/json/jsontext"

	"verif/harness/cov"
	"verif/harness/ref"
	"verif/harness/rt"
)

var rec = cov.New()

// Case is a text and (optionally) a re-spelling of it.
type Case struct {
	Text    []byte `json:"text"`
	Respell []byte `json:"respell,omitempty"`
}

func q(b []byte) string {
	if len(b) > 600 {
		return fmt.Sprintf("%q...(%d bytes)", b[:600], len(b))
	}
	return fmt.Sprintf("%q", b)
}

func canonicalize(in []byte) (out []byte, err error, perr *rt.PanicErr) {
	v := jsontext.Value(append([]byte(nil), in...))
	perr = rt.Guard(func() { err = v.Canonicalize() })
	return []byte(v), err, perr
}

// es6Shape is the lexical shape of ECMAScript Number::toString output for
// finite non-zero values and zero, without a sign of zero.
var es6Shape = regexp.MustCompile(`^(0|-?(0\.[0-9]*[1-9]|[1-9][0-9]*(\.[0-9]*[1-9])?)(e[+-][1-9][0-9]*)?)$`)

// Run decides one case.
func Run(c Case) error {
	rec.Eval()
	in := c.Text
	node, rerr := ref.Parse(in, ref.Opt{})
	if rerr != nil {
		rec.Class("text-not-i-json")
		return nil // the property speaks about valid RFC 7493 texts only
	}
	classify(in, node)

	out, err, perr := canonicalize(in)
	if perr != nil {
		return fmt.Errorf("Canonicalize panicked on %s: %v", q(in), perr)
	}
	if err != nil {
		return fmt.Errorf("Canonicalize rejected the valid I-JSON text %s: %v", q(in), err)
	}

	// ---- valid, no whitespace
	onode, oerr := ref.Parse(out, ref.Opt{})
	if oerr != nil {
		return fmt.Errorf("Canonicalize turned %s into %s, which is not valid I-JSON: %v", q(in), q(out), oerr)
	}
	if i := whitespaceOutsideStrings(out); i >= 0 {
		return fmt.Errorf("Canonicalize(%s) = %s contains whitespace at offset %d", q(in), q(out), i)
	}

	// ---- canonical spelling everywhere, members sorted, same value
	if msg := checkCanonical(out, onode, ""); msg != "" {
		return fmt.Errorf("Canonicalize(%s) = %s is not canonical: %s", q(in), q(out), msg)
	}
	if msg := sameValue(in, node, out, onode, ""); msg != "" {
		return fmt.Errorf("Canonicalize(%s) = %s does not denote the same value: %s", q(in), q(out), msg)
	}

	// ---- byte equality with the reference canonicalizer
	want := ref.Canon(in, node)
	if want.TieAmbiguous {
		return fmt.Errorf("harness: reference reports equal names in an I-JSON text %s", q(in))
	}
	if string(out) != want.Out {
		return fmt.Errorf("Canonicalize(%s) = %s; the RFC 8785 form is %s", q(in), q(out), q([]byte(want.Out)))
	}

	// ---- idempotent
	out2, err2, perr2 := canonicalize(out)
	if perr2 != nil {
		return fmt.Errorf("Canonicalize panicked on its own output %s: %v", q(out), perr2)
	}
	if err2 != nil {
		return fmt.Errorf("Canonicalize rejects its own output %s: %v", q(out), err2)
	}
	if !bytes.Equal(out2, out) {
		return fmt.Errorf("Canonicalize is not idempotent: %s -> %s -> %s", q(in), q(out), q(out2))
	}

	// ---- class invariance
	if c.Respell != nil {
		rnode, e2 := ref.Parse(c.Respell, ref.Opt{})
		if e2 != nil || !ref.DecodedEqual(in, node, c.Respell, rnode, ref.NumFloat64Eq, true) {
			rec.Class("pair-not-equivalent(skipped)")
			return nil
		}
		if bytes.Equal(c.Respell, in) {
			rec.Class("pair-identical")
		} else {
			rec.Class("pair-equivalent-and-different")
		}
		rout, rerr, rperr := canonicalize(c.Respell)
		if rperr != nil {
			return fmt.Errorf("Canonicalize panicked on %s: %v", q(c.Respell), rperr)
		}
		if rerr != nil {
			return fmt.Errorf("Canonicalize rejected the valid I-JSON text %s: %v", q(c.Respell), rerr)
		}
		if !bytes.Equal(rout, out) {
			return fmt.Errorf("two spellings of one value canonicalize differently: %s -> %s but %s -> %s", q(in), q(out), q(c.Respell), q(rout))
		}
	}
	return nil
}

// whitespaceOutsideStrings scans a valid JSON text.
func whitespaceOutsideStrings(b []byte) int {
	inStr := false
	for i := 0; i < len(b); i++ {
		c := b[i]
		switch {
		case inStr && c == '\\':
			i++
		case c == '"':
			inStr = !inStr
		case !inStr && (c == ' ' || c == '\t' || c == '\n' || c == '\r'):
			return i
		}
	}
	return -1
}

// checkCanonical checks the canonical-form properties that can be read off
// the output alone.
func checkCanonical(b []byte, n *ref.Node, path string) string {
	switch n.Kind {
	case '"':
		return canonicalString(b, n, path)
	case '0':
		lit := string(b[n.Start:n.End])
		if !es6Shape.MatchString(lit) {
			return fmt.Sprintf("at %q: number %s does not have the ECMAScript Number-to-string shape", path, lit)
		}
		f, err := strconv.ParseFloat(lit, 64)
		if err != nil || math.IsInf(f, 0) {
			return fmt.Sprintf("at %q: number %s is not a finite double", path, lit)
		}
		if want := ref.ES6(f, 64); want != lit {
			return fmt.Sprintf("at %q: number %s is not the shortest ECMAScript spelling %s of its double value", path, lit, want)
		}
		// exponent notation exactly outside [1e-6, 1e21)
		if a := math.Abs(f); a != 0 {
			hasExp := bytes.IndexByte(b[n.Start:n.End], 'e') >= 0
			if hasExp != (a < 1e-6 || a >= 1e21) {
				return fmt.Sprintf("at %q: number %s uses the wrong notation for its magnitude", path, lit)
			}
		}
	case '[':
		for i, e := range n.Elems {
			if msg := checkCanonical(b, e, fmt.Sprintf("%s/%d", path, i)); msg != "" {
				return msg
			}
		}
	case '{':
		for i, m := range n.Members {
			p := path + "/" + ref.EscapePtr(m.Name.Str)
			if msg := canonicalString(b, m.Name, p+" (name)"); msg != "" {
				return msg
			}
			if i > 0 && utf16Cmp(n.Members[i-1].Name.Str, m.Name.Str) >= 0 {
				return fmt.Sprintf("at %q: member %q precedes %q, which is not ascending UTF-16 code unit order", path, n.Members[i-1].Name.Str, m.Name.Str)
			}
			if msg := checkCanonical(b, m.Value, p); msg != "" {
				return msg
			}
		}
	}
	return ""
}

func canonicalString(b []byte, n *ref.Node, path string) string {
	want, ok := ref.Quote(n.Str, false, false)
	if !ok {
		return fmt.Sprintf("at %q: string is not well-formed UTF-8", path)
	}
	if got := string(b[n.Start:n.End]); got != want {
		return fmt.Sprintf("at %q: string literal %s is not the minimal spelling %s", path, got, want)
	}
	return ""
}

// utf16Cmp compares two well-formed UTF-8 strings by UTF-16 code units,
// written independently of ref.UTF16Cmp (which is cross-checked against it in
// the self-test): a code point above U+FFFF is represented by a high surrogate
// in 0xD800..0xDBFF first.
func utf16Cmp(a, b string) int {
	ra, rb := []rune(a), []rune(b)
	units := func(rs []rune) []uint16 {
		var out []uint16
		for _, r := range rs {
			if r >= 0x10000 {
				r -= 0x10000
				out = append(out, uint16(0xD800+(r>>10)), uint16(0xDC00+(r&0x3FF)))
			} else {
				out = append(out, uint16(r))
			}
		}
		return out
	}
	x, y := units(ra), units(rb)
	for i := 0; i < len(x) && i < len(y); i++ {
		if x[i] != y[i] {
			if x[i] < y[i] {
				return -1
			}
			return 1
		}
	}
	switch {
	case len(x) < len(y):
		return -1
	case len(x) > len(y):
		return 1
	}
	return 0
}

// canonFloat is the double a JSON number literal denotes for RFC 8785:
// nearest double, overflow saturated, negative zero as zero.
func canonFloat(lit string) float64 {
	f, over := ref.RoundFloat(lit, 64)
	if over {
		if f < 0 {
			return -math.MaxFloat64
		}
		return math.MaxFloat64
	}
	if f == 0 {
		return 0
	}
	return f
}

// sameValue compares the input tree with the output tree: equal strings,
// numbers equal as doubles, arrays elementwise, objects as name->value maps.
func sameValue(a []byte, x *ref.Node, b []byte, y *ref.Node, path string) string {
	if x.Kind != y.Kind {
		return fmt.Sprintf("at %q: kind %c became %c", path, x.Kind, y.Kind)
	}
	switch x.Kind {
	case '"':
		if x.Str != y.Str {
			return fmt.Sprintf("at %q: string %q became %q", path, x.Str, y.Str)
		}
	case '0':
		l1, l2 := string(a[x.Start:x.End]), string(b[y.Start:y.End])
		want := canonFloat(l1)
		got, err := strconv.ParseFloat(l2, 64)
		if err != nil || math.Float64bits(got) != math.Float64bits(want) {
			return fmt.Sprintf("at %q: number %s (double %v) became %s", path, l1, want, l2)
		}
	case '[':
		if len(x.Elems) != len(y.Elems) {
			return fmt.Sprintf("at %q: array of %d elements became one of %d", path, len(x.Elems), len(y.Elems))
		}
		for i := range x.Elems {
			if msg := sameValue(a, x.Elems[i], b, y.Elems[i], fmt.Sprintf("%s/%d", path, i)); msg != "" {
				return msg
			}
		}
	case '{':
		if len(x.Members) != len(y.Members) {
			return fmt.Sprintf("at %q: object of %d members became one of %d", path, len(x.Members), len(y.Members))
		}
		idx := make(map[string]*ref.Node, len(y.Members))
		for _, m := range y.Members {
			idx[m.Name.Str] = m.Value
		}
		for _, m := range x.Members {
			v, ok := idx[m.Name.Str]
			if !ok {
				return fmt.Sprintf("at %q: member %q is missing from the output", path, m.Name.Str)
			}
			if msg := sameValue(a, m.Value, b, v, path+"/"+ref.EscapePtr(m.Name.Str)); msg != "" {
				return msg
			}
		}
	}
	return ""
}

// ---------------------------------------------------------------- evidence

type shape struct {
	unsorted, utf16Differs, prefixNames, emptyName, supplementary, highBMP bool
	nonCanonStr, nonCanonNum, surrogateEscape, overflow, negZero, bigInt   bool
	expForm, ws, nestedUnsorted                                            bool
	deepUnsorted                                                           bool
}

func (s *shape) walk(in []byte, n *ref.Node, depth int) {
	switch n.Kind {
	case '"':
		s.str(in, n)
	case '0':
		lit := string(in[n.Start:n.End])
		f, over := ref.RoundFloat(lit, 64)
		c := lit
		switch {
		case over:
			s.overflow = true
			c = "1.7976931348623157e+308"
		case f == 0:
			c = "0"
			if lit[0] == '-' {
				s.negZero = true
			}
		default:
			c = ref.ES6(f, 64)
		}
		if c != lit {
			s.nonCanonNum = true
		}
		if ref.IsIntLit(lit) && len(lit) >= 16 {
			s.bigInt = true
		}
		if bytes.IndexByte([]byte(c), 'e') >= 0 {
			s.expForm = true
		}
	case '[':
		for _, e := range n.Elems {
			s.walk(in, e, depth+1)
		}
	case '{':
		for i, m := range n.Members {
			s.str(in, m.Name)
			if m.Name.Str == "" {
				s.emptyName = true
			}
			if i > 0 {
				p := n.Members[i-1].Name.Str
				if utf16Cmp(p, m.Name.Str) > 0 {
					s.unsorted = true
					if depth >= 1 {
						s.nestedUnsorted = true
					}
					if depth >= 4 {
						s.deepUnsorted = true
					}
				}
			}
			s.walk(in, m.Value, depth+1)
		}
		if len(n.Members) <= 40 {
			for i := range n.Members {
				for j := i + 1; j < len(n.Members); j++ {
					a, b := n.Members[i].Name.Str, n.Members[j].Name.Str
					if (utf16Cmp(a, b) < 0) != (a < b) {
						s.utf16Differs = true
					}
					if len(a) > 0 && len(b) > 0 && (len(a) < len(b) && b[:len(a)] == a || len(b) < len(a) && a[:len(b)] == b) {
						s.prefixNames = true
					}
				}
			}
		}
	}
}

func (s *shape) str(in []byte, n *ref.Node) {
	raw := in[n.Start:n.End]
	if lit, _ := ref.Quote(n.Str, false, false); lit != string(raw) {
		s.nonCanonStr = true
	}
	for _, r := range n.Str {
		if r >= 0x10000 {
			s.supplementary = true
		} else if r >= 0xE000 {
			s.highBMP = true
		}
	}
	if bytes.Contains(raw, []byte("\\ud")) || bytes.Contains(raw, []byte("\\uD")) {
		s.surrogateEscape = true
	}
}

func classify(in []byte, node *ref.Node) {
	var s shape
	s.walk(in, node, 0)
	s.ws = whitespaceOutsideStrings(in) >= 0
	if s.unsorted || s.nonCanonStr || s.nonCanonNum {
		fp := cov.FP(in)
		rec.NonTrivial(fp)
		rec.Sample(fp, func() any { return map[string]any{"text": string(in)} })
	}
	for _, kv := range []struct {
		on   bool
		name string
	}{
		{s.unsorted, "object-members-not-in-utf16-order"},
		{s.nestedUnsorted, "nested-object-not-in-utf16-order"},
		{s.deepUnsorted, "object-at-depth>=4-not-in-utf16-order"},
		{s.utf16Differs, "names-whose-utf16-order-differs-from-utf8-order"},
		{s.prefixNames, "name-is-prefix-of-another"},
		{s.emptyName, "empty-name"},
		{s.supplementary, "supplementary-plane-char"},
		{s.highBMP, "char-in-U+E000..U+FFFF"},
		{s.nonCanonStr, "string-not-minimal"},
		{s.surrogateEscape, "surrogate-pair-escape"},
		{s.nonCanonNum, "number-not-canonical"},
		{s.overflow, "number-overflows-double"},
		{s.negZero, "negative-zero"},
		{s.bigInt, "integer-of->=16-digits"},
		{s.expForm, "number-with-exponent-canonical-form"},
		{s.ws, "has-whitespace"},
	} {
		if kv.on {
			rec.Class(kv.name)
		}
	}
}

package c13

import (
	"flag"
	"runtime"
	"runtime/debug"
	"testing"

	"verif/harness/rt"
)

func TestCheck(t *testing.T) {
	// One shard is one single-threaded campaign; 16 of them run side by side.
	runtime.GOMAXPROCS(2)
	debug.SetGCPercent(400)
	flag.Set("rapid.shrinktime", "8s")

	e := rt.Setup(t, "C13")
	defer e.Finish()
	rec = e.Rec

	for _, msg := range selfTest() {
		e.OracleFail(msg)
	}

	// (a) bounded-exhaustive: all ordered pairs/triples of boundary names
	rt.Enum(e, "names", func(yield func(Case) bool) { enumNames(e, yield) }, Run)

	// (b) random texts paired with re-spellings of themselves
	rt.Rapid(e, "pairs", 600_000, 6_000_000, genPairs, Run)
	rt.Rapid(e, "objects", 400_000, 4_000_000, genObjects, Run)
	rt.Rapid(e, "numbers", 250_000, 3_000_000, genNumbers, Run)
	rt.Rapid(e, "texts", 150_000, 1_200_000, genTexts, Run)

	// replayer for cases saved by the native fuzz target FuzzCanonicalize
	rt.Only(e, "fuzz", Run)
}

package c13

import (
	"fmt"
	"math"
	"math/big"
	"strconv"
	"strings"

	"pgregory.net/rapid"

	"verif/harness/cov"
	"verif/harness/gen"
	"verif/harness/ref"
	"verif/harness/rt"
)

const bs = "\\"

// nameRunes: small alphabet chosen so that names share prefixes, are prefixes
// of one another, and so that UTF-16 code unit order (supplementary planes
// sort as 0xD800.. surrogates, i.e. before U+E000..U+FFFF) differs from
// code point / UTF-8 byte order.
var nameRunes = []rune{'a', 'a', 'b', 'A', '1', 0x00, 0x7f, 0x80, 0xe9, 0x7ff, 0x800, 0xd7ff, 0xe000, 0xf8ff, 0xfffd, 0xffff, 0x10000, 0x10001, 0x1f600, 0x10ffff, '"', '\\', '/', '\n', 0x2028}

// strRunes: the alphabet of string values.
var strRunes = []rune{'a', 'b', 'z', 'A', '0', ' ', '/', '"', '\\', '\n', '\t', '\b', '\f', '\r', 0x00, 0x1f, 0x7f, 0x80, 0xe9, 0x7ff, 0x800, 0x2028, 0x2029, 0xd7ff, 0xe000, 0xfffd, 0xfffe, 0xffff, 0x10000, 0x1f600, 0x10ffff, '<', '>', '&', 0x65e5}

const hexL = "0123456789abcdef"
const hexU = "0123456789ABCDEF"

func hex4(t *rapid.T, v rune) string {
	mode := rapid.IntRange(0, 2).Draw(t, "hexcase")
	out := make([]byte, 4)
	for i := 0; i < 4; i++ {
		d := (v >> (12 - 4*i)) & 15
		switch {
		case mode == 0, mode == 2 && i%2 == 0:
			out[i] = hexL[d]
		default:
			out[i] = hexU[d]
		}
	}
	return bs + "u" + string(out)
}

// spellRune draws one spelling of r inside a JSON string literal. plain makes
// the minimal spelling much more likely.
func spellRune(t *rapid.T, r rune, plain bool) string {
	mustEscape := r < 0x20 || r == '"' || r == '\\'
	mode := 0
	if plain {
		if rapid.IntRange(0, 7).Draw(t, "esc?") == 0 {
			mode = rapid.IntRange(0, 2).Draw(t, "spell")
		}
	} else {
		mode = rapid.IntRange(0, 2).Draw(t, "spell")
	}
	short := ""
	switch r {
	case '"':
		short = bs + `"`
	case '\\':
		short = bs + bs
	case '/':
		short = bs + "/"
	case '\b':
		short = bs + "b"
	case '\f':
		short = bs + "f"
	case '\n':
		short = bs + "n"
	case '\r':
		short = bs + "r"
	case '\t':
		short = bs + "t"
	}
	switch {
	case mode == 0 && !mustEscape:
		return string(r)
	case mode <= 1 && short != "":
		return short
	}
	if r >= 0x10000 {
		v := r - 0x10000
		return hex4(t, 0xd800+(v>>10)) + hex4(t, 0xdc00+(v&0x3ff))
	}
	return hex4(t, r)
}

func spellString(t *rapid.T, rs []rune, plain bool) string {
	var sb strings.Builder
	sb.WriteByte('"')
	for _, r := range rs {
		sb.WriteString(spellRune(t, r, plain))
	}
	sb.WriteByte('"')
	return sb.String()
}

func wsp(t *rapid.T, on bool) string {
	if !on || rapid.IntRange(0, 2).Draw(t, "ws?") != 0 {
		return ""
	}
	return rapid.SampledFrom([]string{" ", "\n", "\t", "\r", "  ", "\r\n\t", " \n "}).Draw(t, "ws")
}

// splitNumber splits a JSON number literal.
func splitNumber(lit string) (neg bool, ip, fp string, exp int64, ok bool) {
	if strings.HasPrefix(lit, "-") {
		neg = true
		lit = lit[1:]
	}
	mant, e := lit, ""
	if i := strings.IndexAny(lit, "eE"); i >= 0 {
		mant, e = lit[:i], lit[i+1:]
	}
	ip, fp, _ = strings.Cut(mant, ".")
	if e != "" {
		v, err := strconv.ParseInt(e, 10, 32)
		if err != nil {
			return neg, ip, fp, 0, false
		}
		exp = v
	}
	return neg, ip, fp, exp, true
}

// respellNumber draws another literal for the same number: an exact
// re-spelling (decimal point moved with the exponent adjusted, zeros added,
// exponent marker variants), or another decimal that rounds to the same
// double. Falls back to lit whenever the result would not be equivalent.
func respellNumber(t *rapid.T, lit string) string {
	mode := rapid.IntRange(0, 5).Draw(t, "numspell")
	if mode == 0 {
		return lit
	}
	cand := lit
	_, over := ref.RoundFloat(lit, 64)
	if mode <= 3 || over {
		neg, ip, fp, exp, ok := splitNumber(lit)
		if !ok {
			return lit
		}
		digits := ip + fp
		point := len(ip) // position of the decimal point within digits
		shift := rapid.IntRange(-4, 4).Draw(t, "shift")
		point += shift
		exp -= int64(shift)
		for point < 1 {
			digits = "0" + digits
			point++
		}
		for point > len(digits) {
			digits += "0"
		}
		ipart := strings.TrimLeft(digits[:point], "0")
		if ipart == "" {
			ipart = "0"
		}
		fpart := digits[point:]
		fpart += strings.Repeat("0", rapid.IntRange(0, 2).Draw(t, "tz"))
		var sb strings.Builder
		if neg {
			sb.WriteByte('-')
		}
		sb.WriteString(ipart)
		if fpart != "" {
			sb.WriteString("." + fpart)
		}
		if exp != 0 || rapid.Bool().Draw(t, "e0") {
			sb.WriteString(rapid.SampledFrom([]string{"e", "E"}).Draw(t, "e"))
			switch {
			case exp < 0:
				sb.WriteByte('-')
			case rapid.Bool().Draw(t, "plus"):
				sb.WriteByte('+')
			}
			sb.WriteString(strings.Repeat("0", rapid.IntRange(0, 2).Draw(t, "ez")))
			a := exp
			if a < 0 {
				a = -a
			}
			sb.WriteString(strconv.FormatInt(a, 10))
		}
		cand = sb.String()
	} else {
		f, _ := ref.RoundFloat(lit, 64)
		switch rapid.IntRange(0, 3).Draw(t, "fmt") {
		case 0:
			cand = strconv.FormatFloat(f, 'e', -1, 64)
		case 1:
			cand = strconv.FormatFloat(f, 'e', 17, 64)
		case 2:
			if a := math.Abs(f); a == 0 || (a > 1e-30 && a < 1e30) {
				cand = strconv.FormatFloat(f, 'f', -1, 64)
			}
		default:
			if a := math.Abs(f); a > 1e-25 && a < 1e40 {
				// the exact decimal expansion of the double
				r := new(big.Rat).SetFloat64(f)
				cand = strings.TrimRight(r.FloatString(140), "0")
				cand = strings.TrimSuffix(cand, ".")
			}
		}
	}
	if cand == lit {
		return lit
	}
	if _, err := ref.Parse([]byte(cand), ref.Opt{}); err != nil {
		return lit
	}
	// Cheap screening with strconv (the verdict re-verifies the pair with the
	// reference model): same double; beyond the double range only exact
	// re-spellings are used.
	f1, _ := strconv.ParseFloat(lit, 64)
	f2, _ := strconv.ParseFloat(cand, 64)
	if math.Float64bits(f1) != math.Float64bits(f2) {
		return lit
	}
	if over && !ref.NumExactEq(lit, cand) {
		return lit
	}
	// keep the sign of a zero
	if (lit[0] == '-') != (cand[0] == '-') {
		return lit
	}
	return cand
}

type pairCfg struct {
	ws       bool
	wide     bool
	nameLen  int
	maxWidth int
}

func genName(t *rapid.T, cfg pairCfg) []rune {
	n := rapid.IntRange(0, cfg.nameLen).Draw(t, "namelen")
	rs := make([]rune, n)
	for i := range rs {
		rs[i] = rapid.SampledFrom(nameRunes).Draw(t, "namerune")
	}
	return rs
}

// genValue appends two spellings of one random value to a and b.
func genValue(t *rapid.T, cfg pairCfg, a, b *strings.Builder, depth int) {
	k := rapid.IntRange(0, 11).Draw(t, "kind")
	if depth > 4 && k < 6 && rapid.Bool().Draw(t, "nest") {
		k += 6 // deep mode: prefer containers until the ordinary depths are reached
	}
	if depth <= 0 && k >= 6 {
		k -= 6
	}
	switch {
	case k == 0:
		lit := rapid.SampledFrom([]string{"null", "true", "false"}).Draw(t, "lit")
		a.WriteString(lit)
		b.WriteString(lit)
	case k <= 3:
		lit := gen.Number(t)
		a.WriteString(lit)
		b.WriteString(respellNumber(t, lit))
	case k <= 5:
		n := rapid.IntRange(0, 5).Draw(t, "strlen")
		rs := make([]rune, n)
		for i := range rs {
			rs[i] = rapid.SampledFrom(strRunes).Draw(t, "rune")
		}
		a.WriteString(spellString(t, rs, true))
		b.WriteString(spellString(t, rs, false))
	case k <= 7:
		n := rapid.IntRange(0, min(4, cfg.maxWidth)).Draw(t, "nelem")
		a.WriteByte('[')
		b.WriteByte('[')
		for i := 0; i < n; i++ {
			if i > 0 {
				a.WriteByte(',')
				b.WriteByte(',')
			}
			a.WriteString(wsp(t, cfg.ws))
			b.WriteString(wsp(t, true))
			genValue(t, cfg, a, b, depth-1)
			a.WriteString(wsp(t, cfg.ws))
			b.WriteString(wsp(t, true))
		}
		if n == 0 {
			b.WriteString(wsp(t, true))
		}
		a.WriteByte(']')
		b.WriteByte(']')
	default:
		n := rapid.IntRange(0, cfg.maxWidth).Draw(t, "nmemb")
		if cfg.wide && rapid.IntRange(0, 30).Draw(t, "wide") == 0 {
			n = rapid.SampledFrom([]int{16, 33, 65, 130}).Draw(t, "widen")
		}
		type member struct{ a, b string }
		ms := make([]member, 0, n)
		seen := map[string]bool{}
		for i := 0; i < n; i++ {
			name := genName(t, cfg)
			for seen[string(name)] {
				name = append(name, rapid.SampledFrom(nameRunes).Draw(t, "uniq"))
			}
			seen[string(name)] = true
			var ma, mb strings.Builder
			ma.WriteString(wsp(t, cfg.ws))
			mb.WriteString(wsp(t, true))
			ma.WriteString(spellString(t, name, true))
			mb.WriteString(spellString(t, name, false))
			ma.WriteString(wsp(t, cfg.ws))
			mb.WriteString(wsp(t, true))
			ma.WriteByte(':')
			mb.WriteByte(':')
			ma.WriteString(wsp(t, cfg.ws))
			mb.WriteString(wsp(t, true))
			genValue(t, cfg, &ma, &mb, depth-1)
			ma.WriteString(wsp(t, cfg.ws))
			mb.WriteString(wsp(t, true))
			ms = append(ms, member{ma.String(), mb.String()})
		}
		a.WriteByte('{')
		for i, m := range ms {
			if i > 0 {
				a.WriteByte(',')
			}
			a.WriteString(m.a)
		}
		a.WriteByte('}')
		// member permutation for the re-spelling
		perm := make([]int, n)
		for i := range perm {
			perm[i] = i
		}
		if n > 1 {
			switch rapid.IntRange(0, 3).Draw(t, "perm") {
			case 0: // keep
			case 1: // reverse
				for i, j := 0, n-1; i < j; i, j = i+1, j-1 {
					perm[i], perm[j] = perm[j], perm[i]
				}
			default: // Fisher-Yates with drawn indexes
				for i := n - 1; i > 0; i-- {
					j := rapid.IntRange(0, i).Draw(t, "swap")
					perm[i], perm[j] = perm[j], perm[i]
				}
			}
		}
		b.WriteByte('{')
		if n == 0 {
			b.WriteString(wsp(t, true))
		}
		for i, p := range perm {
			if i > 0 {
				b.WriteByte(',')
			}
			b.WriteString(ms[p].b)
		}
		b.WriteByte('}')
	}
}

// genPairs: general documents.
func genPairs(t *rapid.T) Case {
	cfg := pairCfg{ws: rapid.Bool().Draw(t, "ws"), wide: true, nameLen: 3, maxWidth: 5}
	var a, b strings.Builder
	a.WriteString(wsp(t, cfg.ws))
	b.WriteString(wsp(t, true))
	depth := rapid.IntRange(0, 4).Draw(t, "depth")
	if rapid.IntRange(0, 3).Draw(t, "deep") == 0 {
		// deeper but narrower: unsorted objects below several arrays/objects
		depth = rapid.IntRange(5, 9).Draw(t, "deepdepth")
		cfg.maxWidth = 3
		cfg.wide = false
	}
	genValue(t, cfg, &a, &b, depth)
	a.WriteString(wsp(t, cfg.ws))
	b.WriteString(wsp(t, true))
	return Case{Text: []byte(a.String()), Respell: []byte(b.String())}
}

// genObjects: the top-level value is an object with short names, so that
// ordering collisions are dense.
func genObjects(t *rapid.T) Case {
	cfg := pairCfg{ws: rapid.Bool().Draw(t, "ws"), nameLen: 2, maxWidth: 8}
	var a, b strings.Builder
	// force an object at the top: draw until kind is object by construction
	n := rapid.IntRange(2, 8).Draw(t, "n")
	type member struct{ a, b string }
	ms := make([]member, 0, n)
	seen := map[string]bool{}
	for i := 0; i < n; i++ {
		name := genName(t, cfg)
		for seen[string(name)] {
			name = append(name, rapid.SampledFrom(nameRunes).Draw(t, "uniq"))
		}
		seen[string(name)] = true
		var ma, mb strings.Builder
		ma.WriteString(spellString(t, name, true) + wsp(t, cfg.ws) + ":")
		mb.WriteString(wsp(t, true) + spellString(t, name, false) + wsp(t, true) + ":" + wsp(t, true))
		genValue(t, cfg, &ma, &mb, rapid.IntRange(0, 2).Draw(t, "depth"))
		ms = append(ms, member{ma.String(), mb.String()})
	}
	a.WriteByte('{')
	b.WriteByte('{')
	for i := range ms {
		if i > 0 {
			a.WriteByte(',')
			b.WriteByte(',')
		}
		a.WriteString(ms[i].a)
		b.WriteString(ms[n-1-i].b)
	}
	a.WriteByte('}')
	b.WriteByte('}')
	return Case{Text: []byte(a.String()), Respell: []byte(b.String())}
}

// genNumbers: arrays of numbers and their re-spellings.
func genNumbers(t *rapid.T) Case {
	n := rapid.IntRange(1, 6).Draw(t, "n")
	var a, b strings.Builder
	a.WriteByte('[')
	b.WriteByte('[')
	for i := 0; i < n; i++ {
		if i > 0 {
			a.WriteByte(',')
			b.WriteString(" ,")
		}
		lit := gen.Number(t)
		a.WriteString(lit)
		r := respellNumber(t, lit)
		for r == lit && rapid.IntRange(0, 2).Draw(t, "again") != 0 {
			r = respellNumber(t, lit)
		}
		b.WriteString(r)
	}
	a.WriteByte(']')
	b.WriteByte(']')
	return Case{Text: []byte(a.String()), Respell: []byte(b.String())}
}

// genTexts: single texts from the shared generator (valid I-JSON or not;
// the latter are counted and skipped), without a partner.
func genTexts(t *rapid.T) Case {
	cfg := gen.DocCfg{WS: rapid.Bool().Draw(t, "ws"), Wide: true, LongStr: true}
	return Case{Text: gen.Doc(t, cfg)}
}

// ------------------------------------------------------------- enumeration

// critNames: decoded names around every boundary of the two orders.
var critNames = mkNames([][]rune{
	{}, {'a'}, {'a', 'a'}, {'a', 'b'}, {'b'}, {'A'}, {'1'}, {'1', '0'}, {'2'}, {'a', 0}, {0x7f}, {0x80}, {0xe9},
	{0xd7ff}, {0xe000}, {0xfffd}, {0xffff}, {0x10000}, {0x1f600}, {0x10ffff},
	{'a', 0xe000}, {'a', 0x10000}, {0xe000, 0x10000}, {0x10000, 0xe000}, {0xffff, 'a'}, {0x10000, 'a'},
})

func mkNames(rs [][]rune) []string {
	out := make([]string, len(rs))
	for i, r := range rs {
		out[i] = string(r)
	}
	return out
}

func escName(s string, mode int) string {
	var sb strings.Builder
	sb.WriteByte('"')
	for _, r := range s {
		must := r < 0x20 || r == '"' || r == '\\'
		if mode == 0 && !must {
			sb.WriteRune(r)
			continue
		}
		hex := func(v rune) {
			if mode == 2 {
				fmt.Fprintf(&sb, "%su%04X", bs, v)
			} else {
				fmt.Fprintf(&sb, "%su%04x", bs, v)
			}
		}
		if r >= 0x10000 {
			v := r - 0x10000
			hex(0xd800 + (v >> 10))
			hex(0xdc00 + (v & 0x3ff))
		} else {
			hex(r)
		}
	}
	sb.WriteByte('"')
	return sb.String()
}

// enumNames yields every ordered pair and triple of distinct critical names
// as an object; the partner lists the members in reverse with escaped names.
func enumNames(e *rt.Env, yield func(Case) bool) {
	var idx, total int64
	complete := true
	k := len(critNames)
	emit := func(names []string) bool {
		idx++
		if !e.Mine(idx) {
			return true
		}
		var a, b strings.Builder
		a.WriteByte('{')
		b.WriteString("{ ")
		for i := range names {
			if i > 0 {
				a.WriteByte(',')
				b.WriteString(" ,\n")
			}
			fmt.Fprintf(&a, "%s:%d", escName(names[i], 0), i)
			j := len(names) - 1 - i
			fmt.Fprintf(&b, "%s : %d.0", escName(names[j], 1+int(idx)%2), j)
		}
		a.WriteByte('}')
		b.WriteString(" }")
		total++
		return yield(Case{Text: []byte(a.String()), Respell: []byte(b.String())})
	}
loop:
	for i := 0; i < k; i++ {
		for j := 0; j < k; j++ {
			if i == j {
				continue
			}
			if !emit([]string{critNames[i], critNames[j]}) {
				complete = false
				break loop
			}
			for l := 0; l < k; l++ {
				if l == i || l == j {
					continue
				}
				if !emit([]string{critNames[i], critNames[j], critNames[l]}) {
					complete = false
					break loop
				}
			}
		}
	}
	e.Rec.AddPart(cov.Part{Name: fmt.Sprintf("objects over all ordered pairs and triples of distinct names from %d boundary names (this shard's slice)", k), Size: total, Complete: complete})
}

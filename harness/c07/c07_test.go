package c07

import (
	"os"
	"runtime"
	"runtime/debug"
	"testing"

	"verif/harness/rt"
)

func TestCheck(t *testing.T) {
	// a shard is one core's worth of work
	runtime.GOMAXPROCS(2)
	debug.SetGCPercent(400)
	e := rt.Setup(t, "C07")
	defer e.Finish()
	rec = e.Rec

	only := os.Getenv("C07_ONLY")
	if only == "" || only == "sweep" {
		rt.Enum(e, "sweep", func(yield func(VCase) bool) { EnumSweep(e, yield) }, RunValue)
	}
	if only == "" || only == "values" {
		rt.Rapid(e, "values", 150_000, 1_200_000, GenValue, RunValue)
	}
	if only == "" || only == "streams" {
		rt.Rapid(e, "streams", 220_000, 1_800_000, GenStream, RunStream)
	}
}

package c07

import (
	"testing"

	"verif/harness/rt"
)

// FuzzStreams lets the native fuzzer drive the "streams" generator (coverage-guided).
func FuzzStreams(f *testing.F) {
	rt.FuzzRapid(f, "C07", "streams", GenStream, RunStream)
}

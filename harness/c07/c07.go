// Package c07 decides property C07: the bytes an encoder delivers do not
// depend on buffering, flushing or the kind of writer.
package c07

import (
	"bytes"
	stdjson "encoding/json"
	"errors"
	"fmt"
	"strings"
	"time"

	"github.com/go-json-experiment/json"
	"github.com/go-json-experiment/json/jsontext"

	"verif/harness/c06"
	"verif/harness/cov"
	"verif/harness/rt"
)

var rec = cov.New()

// ErrInjected is the error returned by a faulting writer.
var ErrInjected = errors.New("c07: injected write fault")

// Fault makes Write call number Call (0-based) accept min(N, len(p)) bytes and
// return ErrInjected. n < len(p) never comes without an error (io.Writer contract).
type Fault struct {
	Call int `json:"call"`
	N    int `json:"n"`
}

// FaultW is an io.Writer with a fault schedule. It keeps a consistent state:
// the bytes it reports as accepted are exactly the bytes it keeps.
type FaultW struct {
	Buf        []byte
	Calls      int
	Sched      map[int]int
	FaultedNow bool
	Fired      int
	Short      int
}

func newFaultW(fs []Fault) *FaultW {
	w := &FaultW{Sched: map[int]int{}}
	for _, f := range fs {
		if _, dup := w.Sched[f.Call]; !dup && f.Call >= 0 {
			w.Sched[f.Call] = max(f.N, 0)
		}
	}
	return w
}

func (w *FaultW) Write(p []byte) (int, error) {
	k := w.Calls
	w.Calls++
	if n, ok := w.Sched[k]; ok {
		n = min(n, len(p))
		w.Buf = append(w.Buf, p[:n]...)
		w.FaultedNow = true
		w.Fired++
		if n > 0 && n < len(p) {
			w.Short++
		}
		return n, ErrInjected
	}
	w.Buf = append(w.Buf, p...)
	return len(p), nil
}

// VCase is one Go value (described as plain data) marshaled under one option
// set through every writer path.
type VCase struct {
	Lean    bool     `json:"lean,omitempty"`
	Top     string   `json:"top,omitempty"` // "" struct | "ptr" | "recs" (its Arr as top-level slice) | "map" (its Map) | a top-level leaf: bytes, time, text, int, float, str (sized by Val.Pad)
	Val     RecD     `json:"val"`
	Opts    c06.Opts `json:"opts"`
	Repeat  int      `json:"repeat,omitempty"`  // top-level values written through one Encoder (default 1)
	Prefill int      `json:"prefill,omitempty"` // bytes already held by the *bytes.Buffer
	Faults  []Fault  `json:"faults,omitempty"`  // schedule for MarshalWrite over a faulting writer
}

// scribbleWriter appends to another buffer before it copies what it is handed.
type scribbleWriter struct {
	first *bytes.Buffer
	buf   []byte
}

func (w *scribbleWriter) Write(p []byte) (int, error) {
	w.first.Write(bytes.Repeat([]byte("#"), len(p)+32))
	w.buf = append(w.buf, p...)
	return len(p), nil
}

// leafText is a top-level value written through MarshalText.
type leafText string

func (l leafText) MarshalText() ([]byte, error) { return []byte(l), nil }

func leafTop(top string) bool {
	switch top {
	case "bytes", "time", "text", "int", "float", "str":
		return true
	}
	return false
}

// nestHook is a top-level value whose MarshalJSONTo hands its content back to
// the library with options of its own (a nested call at depth 0).
type nestHook struct{ V any }

func (h nestHook) MarshalJSONTo(enc *jsontext.Encoder) error {
	return json.MarshalEncode(enc, h.V, json.Deterministic(true), json.FormatNilSliceAsNull(false))
}

func (c VCase) value(st *stats) any {
	// top-level leaves: their completion is the only event that can trigger the flush
	switch n := max(c.Val.Pad, 0); c.Top {
	case "bytes":
		return bytes.Repeat([]byte{0xAB}, n%3000+1)
	case "time":
		return time.Unix(1700000000+int64(n), 5).UTC()
	case "text":
		return leafText("t" + strings.Repeat("x", n%50))
	case "int":
		return int64(n) - 7
	case "float":
		return float64(n) + 0.5
	case "str":
		return strings.Repeat("s", n%200)
	}
	if c.Top == "hook" {
		return nestHook{c.Val.rec(st, 1)}
	}
	if c.Top == "hookptr" {
		v := c.Val.rec(st, 1)
		return &nestHook{&v}
	}
	if c.Lean {
		v := c.Val.lean(st, 1)
		switch c.Top {
		case "ptr":
			return &v
		case "recs":
			return v.Arr
		case "map":
			return v.Map
		}
		return v
	}
	v := c.Val.rec(st, 1)
	switch c.Top {
	case "ptr":
		return &v
	case "recs":
		return v.Arr
	case "map":
		return v.Map
	}
	return v
}

func clip(b []byte) string {
	if len(b) > 240 {
		return fmt.Sprintf("%q...(%d bytes)", b[:240], len(b))
	}
	return fmt.Sprintf("%q", b)
}

// around shows a and b near their first difference.
func around(a, b []byte) string {
	i := 0
	for i < len(a) && i < len(b) && a[i] == b[i] {
		i++
	}
	lo := max(0, i-48)
	return fmt.Sprintf("first difference at byte %d (lengths %d vs %d): got ...%s want ...%s", i, len(a), len(b), clip(a[lo:min(len(a), i+64)]), clip(b[lo:min(len(b), i+64)]))
}

func chunkEnds(r *c06.Recorder, lens []int) string {
	if len(lens) > 12 {
		return fmt.Sprintf("%v...(%d writes)", lens[:12], len(lens))
	}
	return fmt.Sprint(lens)
}

// lenRecorder is a plain io.Writer that also remembers the size of each Write.
type lenRecorder struct {
	c06.Recorder
	Lens []int
}

func (r *lenRecorder) Write(p []byte) (int, error) {
	r.Lens = append(r.Lens, len(p))
	return r.Recorder.Write(p)
}

// RunValue decides one value case.
func RunValue(c VCase) error {
	rec.Eval()
	st := &stats{}
	v := c.value(st)
	opts := append(c.Opts.Options(), json.Deterministic(true))
	defer func() { cur = nil }()
	repeat := min(max(c.Repeat, 1), 8)

	// the reference of the statement: what Marshal returns
	var want []byte
	var err error
	cur = &probe{}
	if p := rt.Guard(func() { want, err = json.Marshal(v, opts...) }); p != nil {
		return fmt.Errorf("Marshal panicked: %v", p)
	}
	if err != nil {
		return fmt.Errorf("harness: Marshal of the generated value failed: %v", err)
	}

	// MarshalWrite into a *bytes.Buffer (possibly already holding data)
	{
		var bb bytes.Buffer
		pre := bytes.Repeat([]byte("#"), min(max(c.Prefill, 0), 300))
		bb.Write(pre)
		cur = &probe{}
		if p := rt.Guard(func() { err = json.MarshalWrite(&bb, v, opts...) }); p != nil {
			return fmt.Errorf("MarshalWrite(*bytes.Buffer) panicked: %v", p)
		}
		if err != nil {
			return fmt.Errorf("MarshalWrite(*bytes.Buffer) failed: %v", err)
		}
		got := bb.Bytes()
		if !bytes.HasPrefix(got, pre) || !bytes.Equal(got[len(pre):], want) {
			return fmt.Errorf("MarshalWrite into a *bytes.Buffer holding %d bytes differs from Marshal: %s", len(pre), around(got, append(pre, want...)))
		}
	}

	// MarshalWrite into a plain writer
	r3 := &lenRecorder{}
	p3 := &probe{writes: func() int { return r3.Calls }}
	{
		cur = p3
		if p := rt.Guard(func() { err = json.MarshalWrite(r3, v, opts...) }); p != nil {
			return fmt.Errorf("MarshalWrite(plain writer) panicked: %v", p)
		}
		if err != nil {
			return fmt.Errorf("MarshalWrite(plain writer) failed: %v", err)
		}
		if !bytes.Equal(r3.Buf, want) {
			return fmt.Errorf("MarshalWrite into a plain writer (write sizes %s) differs from Marshal: %s", chunkEnds(&r3.Recorder, r3.Lens), around(r3.Buf, want))
		}
	}

	// A *bytes.Buffer that received one call keeps spare capacity; a later call
	// to another writer must not work in that memory (the writer below appends
	// to the first buffer before it looks at the bytes it is handed).
	{
		var first bytes.Buffer
		first.Grow(len(want) + 8192)
		cur = &probe{}
		if p := rt.Guard(func() { err = json.MarshalWrite(&first, v, opts...) }); p != nil || err != nil {
			return fmt.Errorf("MarshalWrite(pre-grown *bytes.Buffer) failed: %v %v", p, err)
		}
		sw := &scribbleWriter{first: &first}
		cur = &probe{}
		if p := rt.Guard(func() { err = json.MarshalWrite(sw, v, opts...) }); p != nil {
			return fmt.Errorf("MarshalWrite(plain writer after a *bytes.Buffer call) panicked: %v", p)
		}
		if err != nil {
			return fmt.Errorf("MarshalWrite(plain writer after a *bytes.Buffer call) failed: %v", err)
		}
		if !bytes.Equal(sw.buf, want) {
			return fmt.Errorf("MarshalWrite into a plain writer differs from Marshal when an earlier call wrote to a *bytes.Buffer that is appended to meanwhile (the encoder works in the spare capacity of that buffer): %s", around(sw.buf, want))
		}
		if !bytes.HasPrefix(first.Bytes(), want) {
			return fmt.Errorf("the *bytes.Buffer of an earlier MarshalWrite was altered by a later call to another writer: %s", around(first.Bytes(), want))
		}
	}

	// token-level Encoder + MarshalEncode: the documented newline after each top-level value
	wantN := make([]byte, 0, (len(want)+1)*repeat)
	for i := 0; i < repeat; i++ {
		wantN = append(append(wantN, want...), '\n')
	}
	{
		var bb bytes.Buffer
		pre := bytes.Repeat([]byte("#"), min(max(c.Prefill, 0), 300))
		bb.Write(pre)
		cur = &probe{}
		if p := rt.Guard(func() {
			enc := jsontext.NewEncoder(&bb, c.Opts.Options()...)
			for i := 0; i < repeat && err == nil; i++ {
				err = json.MarshalEncode(enc, v, json.Deterministic(true))
			}
		}); p != nil {
			return fmt.Errorf("MarshalEncode(Encoder over *bytes.Buffer) panicked: %v", p)
		}
		if err != nil {
			return fmt.Errorf("MarshalEncode(Encoder over *bytes.Buffer) failed: %v", err)
		}
		got := bb.Bytes()
		if !bytes.HasPrefix(got, pre) || !bytes.Equal(got[len(pre):], wantN) {
			return fmt.Errorf("%d x MarshalEncode through an Encoder over a *bytes.Buffer holding %d bytes differs from Marshal+newline: %s", repeat, len(pre), around(got, append(pre, wantN...)))
		}
	}
	r5 := &lenRecorder{}
	p5 := &probe{writes: func() int { return r5.Calls }}
	{
		cur = p5
		if p := rt.Guard(func() {
			enc := jsontext.NewEncoder(r5, c.Opts.Options()...)
			for i := 0; i < repeat && err == nil; i++ {
				err = json.MarshalEncode(enc, v, json.Deterministic(true))
			}
		}); p != nil {
			return fmt.Errorf("MarshalEncode(Encoder over plain writer) panicked: %v", p)
		}
		if err != nil {
			return fmt.Errorf("MarshalEncode(Encoder over plain writer) failed: %v", err)
		}
		if !bytes.Equal(r5.Buf, wantN) {
			return fmt.Errorf("%d x MarshalEncode through an Encoder over a plain writer (write sizes %s) differs from Marshal+newline: %s", repeat, chunkEnds(&r5.Recorder, r5.Lens), around(r5.Buf, wantN))
		}
	}

	// MarshalWrite over a faulting writer
	var fw *FaultW
	if len(c.Faults) > 0 {
		fw = newFaultW(c.Faults)
		cur = &probe{writes: func() int { return fw.Calls }}
		if p := rt.Guard(func() { err = json.MarshalWrite(fw, v, opts...) }); p != nil {
			return fmt.Errorf("MarshalWrite(faulting writer) panicked: %v", p)
		}
		switch {
		case fw.Fired == 0:
			if err != nil || !bytes.Equal(fw.Buf, want) {
				return fmt.Errorf("MarshalWrite over a writer whose faults never fired: err=%v, %s", err, around(fw.Buf, want))
			}
		default:
			if err == nil {
				return fmt.Errorf("MarshalWrite returned nil although the writer failed (write #%d schedule %v)", fw.Calls, c.Faults)
			}
			if !errors.Is(err, ErrInjected) {
				return fmt.Errorf("MarshalWrite returned %v, which does not wrap the writer's error", err)
			}
			if !bytes.HasPrefix(want, fw.Buf) {
				return fmt.Errorf("after a failed write the writer does not hold a prefix of the fault-free output: %s", around(fw.Buf, want))
			}
		}
	}

	// evidence
	internal := r3.Calls >= 2 || r5.Calls > repeat
	fired := fw != nil && fw.Fired > 0
	if fw != nil && fw.Calls >= 2 {
		internal = true
	}
	if internal {
		rec.Class("internal-flush")
	} else {
		rec.Class("no-internal-flush")
	}
	if r3.Calls >= 4 || r5.Calls >= 4*repeat {
		rec.Class("writes>=4")
	}
	if p3.userEmptyFlush > 0 || p5.userEmptyFlush > 0 {
		rec.Class("retract-after-flush")
	}
	if p3.ptrAfterFlush > 0 || p5.ptrAfterFlush > 0 {
		rec.Class("name-across-flush")
	}
	if st.big > 0 {
		rec.Class("value>buffer")
	}
	if st.intKeys > 0 {
		rec.Class("name-written-then-unwritten(map[int])")
	}
	if st.slowEmpty > 0 {
		rec.Class("retraction")
		if c.Lean {
			rec.Class("retraction-default-marshalers-only")
		}
	}
	if fired {
		rec.Class("fault-fired")
		if fw.Short > 0 {
			rec.Class("short-write")
		}
	}
	if c.Opts.Multi() {
		rec.Class("opts:multiline")
	}
	if internal && (st.slowEmpty > 0 || fired) {
		raw, _ := stdjson.Marshal(c)
		fp := cov.FP([]byte("value"), raw)
		rec.NonTrivial(fp)
		rec.Sample(fp, func() any {
			return map[string]any{"case": c, "marshal_len": len(want), "write_sizes_marshalwrite": r3.Lens, "write_sizes_encoder": r5.Lens,
				"retractions_by_construction": st.slowEmpty, "faults_fired": fired}
		})
	}
	return nil
}

// SCase is a token/value stream (C06's call alphabet) with a fault schedule.
type SCase struct {
	Opts   c06.Opts `json:"opts"`
	Ops    []c06.Op `json:"ops"`
	Faults []Fault  `json:"faults,omitempty"`
}

type senc struct {
	name string
	e    *jsontext.Encoder
	got  func() []byte
	fw   *FaultW
}

func (x *senc) call(op c06.Op) (err error, herr error) {
	if op.K == c06.KVal || op.K == c06.KNest {
		v := op.Value()
		if p := rt.Guard(func() { err = x.e.WriteValue(jsontext.Value(v)) }); p != nil {
			return nil, fmt.Errorf("%s: WriteValue(%s) panicked: %v", x.name, op, p)
		}
		return err, nil
	}
	tok, terr := op.Token()
	if terr != nil {
		return nil, terr
	}
	if p := rt.Guard(func() { err = x.e.WriteToken(tok) }); p != nil {
		return nil, fmt.Errorf("%s: WriteToken(%s) panicked: %v", x.name, op, p)
	}
	return err, nil
}

// RunStream decides one stream case.
func RunStream(c SCase) error {
	rec.Eval()
	m := c06.NewModel(c.Opts)
	var bb bytes.Buffer
	pl := &lenRecorder{}
	encs := []*senc{
		{name: "Encoder over *bytes.Buffer", got: func() []byte { return bb.Bytes() }},
		{name: "Encoder over plain writer", got: func() []byte { return pl.Buf }},
	}
	var fw *FaultW
	if p := rt.Guard(func() {
		encs[0].e = jsontext.NewEncoder(&bb, c.Opts.Options()...)
		encs[1].e = jsontext.NewEncoder(pl, c.Opts.Options()...)
		if len(c.Faults) > 0 {
			fw = newFaultW(c.Faults)
			encs = append(encs, &senc{name: "Encoder over faulting writer", e: jsontext.NewEncoder(fw, c.Opts.Options()...), got: func() []byte { return fw.Buf }, fw: fw})
		}
	}); p != nil {
		return fmt.Errorf("NewEncoder panicked: %v", p)
	}
	calls, rejected, ioErrs := 0, 0, 0
	step := func(op c06.Op) error {
		calls++
		if calls > 60000 {
			return nil
		}
		in := m.Classify(op)
		if len(in.Bad) > 7 && in.Bad[:7] == "harness" {
			return fmt.Errorf("harness: cannot interpret op %s: %s", op, in.Bad)
		}
		legal, why := m.Legal(in)
		for _, x := range encs {
			if x.fw != nil {
				x.fw.FaultedNow = false
			}
			err, herr := x.call(op)
			if herr != nil {
				return herr
			}
			switch {
			case !legal && err == nil:
				return fmt.Errorf("%s: call #%d %s is illegal (%s) but was accepted", x.name, calls, op, why)
			case legal && err != nil && (x.fw == nil || !x.fw.FaultedNow):
				return fmt.Errorf("%s: legal call #%d %s failed although the writer did not fail: %v", x.name, calls, op, err)
			case legal && err != nil && !errors.Is(err, ErrInjected):
				return fmt.Errorf("%s: legal call #%d %s failed with %v, which does not wrap the writer's error", x.name, calls, op, err)
			case legal && err != nil:
				ioErrs++ // the token still counts as accepted
			}
		}
		if legal {
			m.Apply(in)
		} else {
			rejected++
		}
		// OutputOffset counts the bytes produced, flushed or not, so it cannot
		// depend on the writer kind, on flush positions or on write errors.
		var o0 int64
		for i, x := range encs {
			var o int64
			if p := rt.Guard(func() { o = x.e.OutputOffset() }); p != nil {
				return fmt.Errorf("%s: OutputOffset panicked after call #%d: %v", x.name, calls, p)
			}
			if i == 0 {
				o0 = o
			} else if o != o0 {
				return fmt.Errorf("%s: OutputOffset is %d after call #%d %s, but %d for the Encoder over *bytes.Buffer given the same calls (faults fired so far: %d)", x.name, o, calls, op, o0, firedSoFar(x.fw))
			}
		}
		return nil
	}
	for _, op := range c.Ops {
		if err := c06.Expand(m, op, step); err != nil {
			return err
		}
	}
	// close what is open, so that everything fault-free writers hold is final
	if err := c06.Expand(m, c06.Op{K: c06.KUnwind, N: c06.MaxMacro}, step); err != nil {
		return err
	}
	// extra top-level nulls until the faulting writer has been handed everything
	if fw != nil {
		for i := 0; i < 80 && len(fw.Buf) < len(m.Exp); i++ {
			if err := step(c06.Op{K: c06.KNull}); err != nil {
				return err
			}
		}
	}
	a, b := encs[0].got(), encs[1].got()
	if !bytes.Equal(a, b) {
		return fmt.Errorf("Encoder over *bytes.Buffer and Encoder over a plain writer (write sizes %s) delivered different bytes: %s", chunkEnds(&pl.Recorder, pl.Lens), around(b, a))
	}
	exp := m.Exp
	if m.Amb {
		exp = a // member order of equal names is not defined; the writers must still agree
		rec.Class("reorder-tie-writers-compared-only")
	} else if !bytes.Equal(a, exp) {
		return fmt.Errorf("fault-free Encoder output differs from the serialization of the accepted calls: %s", around(a, exp))
	}
	if fw != nil && !bytes.Equal(fw.Buf, exp) {
		return fmt.Errorf("faulting writer (schedule %v, %d faults fired, %d calls returned the write error): what it accepted plus what later calls delivered differs from the fault-free output: %s", c.Faults, fw.Fired, ioErrs, around(fw.Buf, exp))
	}

	// evidence
	fired := fw != nil && fw.Fired > 0
	internal := pl.Calls > int(mTop(m)) || (fw != nil && fw.Calls >= 2)
	if internal {
		rec.Class("stream:internal-flush")
	}
	if fired {
		rec.Class("stream:fault-fired")
		if fw.Short > 0 {
			rec.Class("short-write")
		}
		if ioErrs > 0 {
			rec.Class("stream:accepted-call-returned-write-error")
		}
	}
	if rejected > 0 {
		rec.Class("stream:has-rejected-calls")
	}
	if len(exp) > 4096 {
		rec.Class("stream:output>4096")
	}
	if fired && fw.Calls >= 2 {
		raw, _ := stdjson.Marshal(c)
		fp := cov.FP([]byte("stream"), raw)
		rec.NonTrivial(fp)
		rec.Sample(fp, func() any {
			return map[string]any{"case": c, "output_len": len(exp), "write_sizes_plain": pl.Lens, "faults_fired": fw.Fired, "calls_returning_write_error": ioErrs}
		})
	}
	return nil
}

// mTop is the number of completed top-level values (each ends with one flush).
func mTop(m *c06.Model) int64 { _, n := m.Level(0); return n }

func firedSoFar(fw *FaultW) int {
	if fw == nil {
		return 0
	}
	return fw.Fired
}

package c07

import (
	"strings"

	"github.com/go-json-experiment/json/jsontext"
)

// probe is the side channel through which the user-defined marshalers of the
// value under test see how many Write calls had reached the writer when they
// ran (evidence only; it never influences what they write).
type probe struct {
	writes          func() int
	userEmpty       int // empty values produced by user marshalers (retracted under omitempty)
	userEmptyFlush  int // ... after at least one internal flush
	ptrAfterFlush   int // StackPointer-writing marshaler ran at depth >= 2 after a flush
	ptrCalls        int
}

var cur *probe

func noteEmpty() {
	if cur != nil {
		cur.userEmpty++
		if cur.writes != nil && cur.writes() > 0 {
			cur.userEmptyFlush++
		}
	}
}

// RawM marshals to the given raw JSON (null when unset).
type RawM struct{ Out []byte }

var emptyTexts = map[string]bool{"null": true, `""`: true, "{}": true, "[]": true}

func (r RawM) MarshalJSON() ([]byte, error) {
	if len(r.Out) == 0 {
		noteEmpty()
		return []byte("null"), nil
	}
	if emptyTexts[strings.Join(strings.Fields(string(r.Out)), "")] {
		noteEmpty()
	}
	return r.Out, nil
}

// ToM writes its value through the encoder, as scripted.
type ToM struct {
	Script int
	S      string
}

// ToM scripts.
const (
	toNull = iota
	toEmptyObjTokens
	toEmptyArrTokens
	toEmptyStrToken
	toEmptyObjValue
	toEmptyArrValue
	toStr
	toObjTokens
	toQuoteStr // the string `"`, spelled "\"" : its last two bytes are "" although it is not empty
	toNumScripts
)

func (m ToM) MarshalJSONTo(enc *jsontext.Encoder) error {
	if m.Script <= toEmptyArrValue {
		noteEmpty()
	}
	wt := func(ts ...jsontext.Token) error {
		for _, t := range ts {
			if err := enc.WriteToken(t); err != nil {
				return err
			}
		}
		return nil
	}
	switch m.Script {
	case toEmptyObjTokens:
		return wt(jsontext.BeginObject, jsontext.EndObject)
	case toEmptyArrTokens:
		return wt(jsontext.BeginArray, jsontext.EndArray)
	case toEmptyStrToken:
		return wt(jsontext.String(""))
	case toEmptyObjValue:
		return enc.WriteValue(jsontext.Value(" { } "))
	case toEmptyArrValue:
		return enc.WriteValue(jsontext.Value("[\n]"))
	case toStr:
		return wt(jsontext.String(m.S))
	case toObjTokens:
		return wt(jsontext.BeginObject, jsontext.String("k"), jsontext.BeginArray, jsontext.EndArray, jsontext.String(m.S), jsontext.Null, jsontext.EndObject)
	case toQuoteStr:
		return wt(jsontext.String(`"`))
	}
	return wt(jsontext.Null)
}

// PtrM writes Encoder.StackPointer (the pointer of the member it is the value
// of) as a JSON string, which makes the remembered member names part of the
// output bytes.
type PtrM struct{ On bool }

func (p PtrM) MarshalJSONTo(enc *jsontext.Encoder) error {
	if !p.On {
		noteEmpty()
		return enc.WriteToken(jsontext.Null)
	}
	if cur != nil {
		cur.ptrCalls++
		if enc.StackDepth() >= 2 && cur.writes != nil && cur.writes() > 0 {
			cur.ptrAfterFlush++
		}
	}
	return enc.WriteToken(jsontext.String(string(enc.StackPointer())))
}

// TextM marshals as a JSON string through MarshalText.
type TextM string

func (t TextM) MarshalText() ([]byte, error) {
	if t == "" {
		noteEmpty()
	}
	return []byte(t), nil
}

// Inner encodes as {} when V is nil.
type Inner struct {
	V *int `json:"v,omitempty"`
}

// Rec is the value shape with every kind of omitempty member, including
// members whose emptiness is only known after they were written.
type Rec struct {
	Pad  string         `json:"pad,omitempty"`
	E1   any            `json:"e1,omitempty"`
	Q    *string        `json:"q<\t\u2028é,omitempty"`
	E2   RawM           `json:"e2,omitempty"`
	Kid  *Rec           `json:"kid,omitempty"`
	E3   ToM            `json:"e3,omitempty"`
	Arr  []Rec          `json:"arr,omitempty"`
	E4   Inner          `json:"e4,omitempty"`
	Map  map[string]Rec `json:"map,omitempty"`
	IM   map[int]Inner  `json:"im,omitempty"` // non-string keys: each name is written, read back and unwritten (Deterministic)
	E5   *[]int         `json:"e5,omitempty"`
	Ptr  PtrM           `json:"ptr,omitempty"`
	Tail string         `json:"tail,omitempty"`
	E6   TextM          `json:"e6,omitempty"`
}

// Lean is Rec without user-defined marshalers (only the default marshalers retract).
type Lean struct {
	Pad  string          `json:"pad,omitempty"`
	E1   any             `json:"e1,omitempty"`
	Q    *string         `json:"q<\t\u2028é,omitempty"`
	Kid  *Lean           `json:"kid,omitempty"`
	Arr  []Lean          `json:"arr,omitempty"`
	E4   Inner           `json:"e4,omitempty"`
	Map  map[string]Lean `json:"map,omitempty"`
	IM   map[int]Inner   `json:"im,omitempty"`
	E5   *[]int          `json:"e5,omitempty"`
	Tail string          `json:"tail,omitempty"`
	E7   *Inner          `json:"e7,omitempty"`
}

// MapEnt is one map entry of a description.
type MapEnt struct {
	K string `json:"k"`
	V RecD   `json:"v"`
}

// RecD describes a Rec / Lean value as plain data.
type RecD struct {
	Pad  int      `json:"pad,omitempty"`  // length of the pad string
	PadK int      `json:"padk,omitempty"` // 0 'a', 1 'é', 2 '"' (escaped), 3 '<'
	E1   int      `json:"e1,omitempty"`   // see e1Value
	Q    int      `json:"q,omitempty"`    // 0 nil, 1 pointer to "", 2 pointer to "v"
	E2   int      `json:"e2,omitempty"`   // index into rawOuts
	Kid  *RecD    `json:"kid,omitempty"`
	E3   int      `json:"e3,omitempty"` // ToM script
	Arr  []RecD   `json:"arr,omitempty"`
	E4   bool     `json:"e4,omitempty"` // Inner has a value
	Map  []MapEnt `json:"map,omitempty"`
	E5   int      `json:"e5,omitempty"` // 0 nil, 1 pointer to empty slice, 2 pointer to [1,2]
	Ptr  bool     `json:"ptr,omitempty"`
	Tail int      `json:"tail,omitempty"`
	E6   bool     `json:"e6,omitempty"` // TextM non-empty
	E7   int      `json:"e7,omitempty"` // Lean only: 0 nil, 1 pointer to empty Inner, 2 pointer to Inner with value
	IM   []int    `json:"im,omitempty"` // keys of the map[int]Inner member (odd keys get a non-empty value)
}

func imMap(keys []int) map[int]Inner {
	if len(keys) == 0 {
		return nil
	}
	one := 1
	m := map[int]Inner{}
	for _, k := range keys {
		if k%2 != 0 {
			m[k] = Inner{V: &one}
		} else {
			m[k] = Inner{}
		}
	}
	return m
}

var rawOuts = []string{"", "null", `""`, "{}", "[]", " [ ] ", "{\n}", `"x"`, `{"k":[]}`, `[null]`, `"\""`, "0"}

var padChars = []string{"a", "é", `"`, "<"}

func padStr(n, k int) string {
	if n <= 0 {
		return ""
	}
	c := padChars[k&3]
	return strings.Repeat(c, (n+len(c)-1)/len(c))
}

const numE1 = 11

// e1Value builds the `any` member; slow reports a value that is written and
// then found to be empty.
func e1Value(k int) (v any, slow bool) {
	one := 1
	switch k {
	case 1:
		return "", true
	case 2:
		return map[string]int{}, true
	case 3:
		return []int{}, true
	case 4:
		return (*int)(nil), true
	case 5:
		return Inner{}, true
	case 6:
		return &Inner{}, true
	case 7:
		return "x", false
	case 8:
		return []int{0}, false
	case 9:
		return RawM{Out: []byte("[]")}, true
	case 10:
		return Inner{V: &one}, false
	}
	return nil, false
}

// stats counts what a description contains (by construction).
type stats struct {
	slowEmpty int // members written and then retracted (as far as known by construction)
	big       int // strings of 4096 bytes or more
	ptrs      int
	objDepth  int
	intKeys   int // map[int] members: names written and unwritten again
}

func strp(s string) *string { return &s }

func (d RecD) rec(st *stats, depth int) Rec {
	one := 1
	if depth > st.objDepth {
		st.objDepth = depth
	}
	r := Rec{Pad: padStr(d.Pad, d.PadK), Tail: padStr(d.Tail, 0)}
	if d.Pad >= 4096 || d.Tail >= 4096 {
		st.big++
	}
	var slow bool
	if r.E1, slow = e1Value(d.E1 % numE1); slow {
		st.slowEmpty++
	}
	switch d.Q % 3 {
	case 1:
		r.Q = strp("")
		st.slowEmpty++
	case 2:
		r.Q = strp("v")
	}
	out := rawOuts[d.E2%len(rawOuts)]
	r.E2 = RawM{Out: []byte(out)}
	if out == "" || emptyTexts[strings.Join(strings.Fields(out), "")] {
		st.slowEmpty++
	}
	if d.Kid != nil {
		k := d.Kid.rec(st, depth+1)
		r.Kid = &k
	}
	r.E3 = ToM{Script: d.E3 % toNumScripts, S: "s" + padStr(d.Tail%7, 1)}
	if r.E3.Script <= toEmptyArrValue {
		st.slowEmpty++
	}
	for _, a := range d.Arr {
		r.Arr = append(r.Arr, a.rec(st, depth+1))
	}
	if d.E4 {
		r.E4.V = &one
	} else {
		st.slowEmpty++
	}
	if len(d.Map) > 0 {
		r.Map = map[string]Rec{}
		for _, e := range d.Map {
			r.Map[e.K] = e.V.rec(st, depth+1)
		}
	}
	r.IM = imMap(d.IM)
	st.intKeys += len(d.IM)
	switch d.E5 % 3 {
	case 1:
		r.E5 = &[]int{}
		st.slowEmpty++
	case 2:
		r.E5 = &[]int{1, 2}
	}
	if d.Ptr {
		r.Ptr.On = true
		st.ptrs++
	} else {
		st.slowEmpty++
	}
	if d.E6 {
		r.E6 = "t"
	} else {
		st.slowEmpty++
	}
	return r
}

func (d RecD) lean(st *stats, depth int) Lean {
	one := 1
	if depth > st.objDepth {
		st.objDepth = depth
	}
	r := Lean{Pad: padStr(d.Pad, d.PadK), Tail: padStr(d.Tail, 0)}
	if d.Pad >= 4096 || d.Tail >= 4096 {
		st.big++
	}
	k1 := d.E1 % numE1
	if k1 == 9 {
		k1 = 3 // no user marshalers in Lean
	}
	var slow bool
	if r.E1, slow = e1Value(k1); slow {
		st.slowEmpty++
	}
	switch d.Q % 3 {
	case 1:
		r.Q = strp("")
		st.slowEmpty++
	case 2:
		r.Q = strp("v")
	}
	if d.Kid != nil {
		k := d.Kid.lean(st, depth+1)
		r.Kid = &k
	}
	for _, a := range d.Arr {
		r.Arr = append(r.Arr, a.lean(st, depth+1))
	}
	if d.E4 {
		r.E4.V = &one
	} else {
		st.slowEmpty++
	}
	if len(d.Map) > 0 {
		r.Map = map[string]Lean{}
		for _, e := range d.Map {
			r.Map[e.K] = e.V.lean(st, depth+1)
		}
	}
	r.IM = imMap(d.IM)
	st.intKeys += len(d.IM)
	switch d.E5 % 3 {
	case 1:
		r.E5 = &[]int{}
		st.slowEmpty++
	case 2:
		r.E5 = &[]int{1, 2}
	}
	switch d.E7 % 3 {
	case 1:
		r.E7 = &Inner{}
		st.slowEmpty++
	case 2:
		r.E7 = &Inner{V: &one}
	}
	return r
}

package c07

import (
	"fmt"

	"pgregory.net/rapid"

	"verif/harness/c06"
	"verif/harness/cov"
	"verif/harness/rt"
)

func sp(s string) *string { return &s }

var mapKeys = []string{"k", "k2", `a"b`, "<&>", "é", "", "\u2028", `\`, "z/~", "kk"}

var padSizes = []int{1, 2, 3, 5, 8, 13, 16, 17, 24, 31, 32, 33, 40, 47, 48, 49, 63, 64, 65, 96, 100, 127, 128, 129, 190, 192, 193, 255, 256, 257, 383, 384, 385, 511, 512, 513, 700, 767, 768, 769, 1000, 1535, 1536, 1537, 2047, 2048, 2049, 3071, 3072, 3073, 4095, 4096, 4097, 5000, 9000}

func genPad(t *rapid.T, budget *int, label string) int {
	var n int
	switch rapid.IntRange(0, 9).Draw(t, label+"class") {
	case 0, 1, 2, 3:
		return 0
	case 4, 5, 6:
		n = rapid.IntRange(1, 60).Draw(t, label+"small")
	case 7, 8:
		n = rapid.IntRange(1, 400).Draw(t, label+"mid")
	default:
		n = rapid.SampledFrom(padSizes).Draw(t, label+"edge") + rapid.IntRange(-2, 2).Draw(t, label+"delta")
	}
	n = max(0, min(n, *budget))
	*budget -= n
	return n
}

func genRecD(t *rapid.T, depth int, budget *int) RecD {
	var d RecD
	d.Pad = genPad(t, budget, "pad")
	d.PadK = rapid.IntRange(0, 3).Draw(t, "padk")
	pick := func(label string, n int) int {
		// half of the optional members stay unset
		if rapid.Bool().Draw(t, label+"?") {
			return 0
		}
		return rapid.IntRange(0, n-1).Draw(t, label)
	}
	d.E1 = pick("e1", numE1)
	d.Q = pick("q", 3)
	d.E2 = pick("e2", len(rawOuts))
	d.E3 = pick("e3", toNumScripts)
	d.E4 = rapid.IntRange(0, 3).Draw(t, "e4") == 0
	d.E5 = pick("e5", 3)
	d.E7 = pick("e7", 3)
	d.Ptr = rapid.IntRange(0, 2).Draw(t, "ptr") == 0
	d.E6 = rapid.IntRange(0, 3).Draw(t, "e6") == 0
	if rapid.IntRange(0, 2).Draw(t, "tail?") == 0 {
		d.Tail = genPad(t, budget, "tail")
	}
	if depth < 4 {
		if rapid.IntRange(0, 2).Draw(t, "kid?") == 0 {
			k := genRecD(t, depth+1, budget)
			d.Kid = &k
		}
		if rapid.IntRange(0, 2).Draw(t, "arr?") == 0 {
			n := rapid.IntRange(1, 6).Draw(t, "arrlen")
			for i := 0; i < n; i++ {
				d.Arr = append(d.Arr, genRecD(t, depth+1, budget))
			}
		}
		if rapid.IntRange(0, 4).Draw(t, "im?") == 0 {
			n := rapid.IntRange(1, 4).Draw(t, "imlen")
			for i := 0; i < n; i++ {
				d.IM = append(d.IM, rapid.SampledFrom([]int{0, 1, 2, 3, -5, 10, 1000000, -1234567}).Draw(t, "imkey"))
			}
		}
		if rapid.IntRange(0, 4).Draw(t, "map?") == 0 {
			n := rapid.IntRange(1, 3).Draw(t, "maplen")
			for i := 0; i < n; i++ {
				d.Map = append(d.Map, MapEnt{K: rapid.SampledFrom(mapKeys).Draw(t, "key"), V: genRecD(t, depth+1, budget)})
			}
		}
	}
	return d
}

func genFaults(t *rapid.T, maxCall int) []Fault {
	n := rapid.IntRange(1, 4).Draw(t, "nfaults")
	var fs []Fault
	for i := 0; i < n; i++ {
		fs = append(fs, Fault{
			Call: rapid.IntRange(0, maxCall).Draw(t, "faultcall"),
			N:    rapid.SampledFrom([]int{0, 0, 1, 2, 3, 7, 30, 63, 64, 1000, 1 << 20}).Draw(t, "faultn"),
		})
	}
	return fs
}

// wsOpts keeps the options that matter to Marshal output layout and escaping.
func genMOpts(t *rapid.T) c06.Opts {
	o := c06.GenOpts(t)
	o.AllowDup, o.AllowUTF8 = false, false
	return o
}

// GenValue draws a value case.
func GenValue(t *rapid.T) VCase {
	c := VCase{Lean: rapid.IntRange(0, 3).Draw(t, "lean") == 0, Opts: genMOpts(t)}
	c.Top = rapid.SampledFrom([]string{"", "", "", "", "", "", "ptr", "ptr", "recs", "recs", "map", "map", "bytes", "time", "text", "int", "float", "str", "hook", "hookptr"}).Draw(t, "top")
	budget := rapid.SampledFrom([]int{200, 1000, 6000, 6000, 16000}).Draw(t, "budget")
	if leafTop(c.Top) {
		c.Val = RecD{Pad: rapid.IntRange(0, 5000).Draw(t, "leafsize")}
	} else {
		c.Val = genRecD(t, 1, &budget)
	}
	if rapid.IntRange(0, 5).Draw(t, "bigfirst") == 5 {
		// a first member larger than the buffer, then everything else
		c.Val.Pad = rapid.SampledFrom([]int{4097, 5000, 6000, 9000, 12000}).Draw(t, "bigpad") + rapid.IntRange(0, 40).Draw(t, "bigdelta")
	}
	c.Repeat = rapid.IntRange(1, 3).Draw(t, "repeat")
	if rapid.IntRange(0, 3).Draw(t, "prefill?") == 0 {
		c.Prefill = rapid.SampledFrom([]int{1, 7, 63, 64, 65, 200}).Draw(t, "prefill")
	}
	if rapid.IntRange(0, 1).Draw(t, "faults?") == 0 {
		c.Faults = genFaults(t, 5)
	}
	return c
}

// follower structures placed behind a prefix of swept length: every kind of
// retracted member in first / middle / last position, escaped names, nested
// objects whose names must survive a flush.
func followers(which int) []RecD {
	switch which {
	case 0:
		var out []RecD
		for e1 := 1; e1 <= 6; e1++ {
			out = append(out, RecD{E1: e1}, RecD{Pad: 3, E1: e1, Tail: 2})
		}
		for e2 := 1; e2 <= 6; e2++ {
			out = append(out, RecD{E2: e2, Q: 2}, RecD{Q: 1, E2: e2, E6: true})
		}
		for e3 := 1; e3 <= toEmptyArrValue; e3++ {
			out = append(out, RecD{E3: e3, Tail: 1}, RecD{Pad: 1, E3: e3})
		}
		out = append(out, RecD{IM: []int{1}}, RecD{Pad: 2, IM: []int{0, -5, 3, 1000000}, Tail: 1}, RecD{IM: []int{2}, E6: true},
			RecD{E5: 1}, RecD{E5: 1, E6: true}, RecD{E4: true, E5: 2, Ptr: true}, RecD{E3: toQuoteStr}, RecD{E2: 10}, RecD{E7: 1}, RecD{Pad: 2, E7: 1, Tail: 2})
		return out
	case 1:
		leaf := RecD{Ptr: true, E1: 2, Q: 1}
		mid := RecD{Pad: 5, Kid: &leaf, Ptr: true, Map: []MapEnt{{K: `a"b`, V: leaf}, {K: "<&>", V: RecD{}}}, E3: toEmptyObjTokens}
		top := RecD{Kid: &mid, Ptr: true, E5: 1, Arr: []RecD{{}, leaf, {Kid: &RecD{}}}}
		return []RecD{top, {Kid: &RecD{Kid: &RecD{Kid: &RecD{}}}}, {Ptr: true, Kid: &mid}, mid}
	default:
		var out []RecD
		for i := 0; i < 24; i++ {
			var im []int
			if i%3 == 1 {
				im = []int{i, -i, 100 * i}
			}
			out = append(out, RecD{IM: im, Pad: i % 5, PadK: i % 4, E1: 1 + i%6, Q: i % 3, E2: i % len(rawOuts), E3: i % toNumScripts, E4: i%4 == 0, E5: i % 3, E6: i%5 == 0, Ptr: i%3 == 0, Tail: i % 3, E7: i % 3})
		}
		return out
	}
}

// sweepSizes lists the prefix lengths of the sweep: every size in the thorough
// tier; in the quick tier every size up to 400, every size within 24 of
// 0.75*2^k (k = 6..12) and of 2^k, and every 7th size elsewhere.
func sweepSizes(thorough bool, off int) []int {
	var out []int
	near := func(p int) bool {
		for k := 64; k <= 8192; k *= 2 {
			for _, c := range []int{k, 3 * k / 4} {
				if p >= c-24 && p <= c+24 {
					return true
				}
			}
		}
		return false
	}
	for p := 0; p <= 5000; p++ {
		if thorough || p <= 400 || near(p) || p%7 == off%7 {
			out = append(out, p)
		}
	}
	return out
}

// SweepCase builds the case whose prefix (top-level pad plus 48-byte array
// items) is p bytes longer than the empty prefix.
func SweepCase(p, which int, lean bool, o c06.Opts, big int) VCase {
	// big > 0: a first string larger than the buffer enlarges it, so that the
	// later flush thresholds are 75% of a non-power-of-two capacity
	d := RecD{Pad: big + p%48}
	for i := 0; i < p/48; i++ {
		d.Arr = append(d.Arr, RecD{Pad: 37, E4: true}) // {"pad":"<37>","e4":{"v":1}}, = 48 bytes in compact form
	}
	d.Arr = append(d.Arr, followers(which)...)
	d.Tail = 1
	return VCase{Lean: lean, Val: d, Opts: o, Repeat: 2}
}

var sweepOpts = []c06.Opts{
	{},
	{Multiline: 1, Indent: sp(" "), Prefix: sp("\t"), SpaceComma: 1},
	{SpaceColon: 1, HTML: true, JS: true},
}

// BigFirst is the length of the first string in the "value larger than the
// buffer first" half of the sweep.
const BigFirst = 6000

// EnumSweep enumerates the size sweep.
func EnumSweep(e *rt.Env, yield func(VCase) bool) {
	sizes := sweepSizes(e.Thorough(), e.Offset("sweep", 7))
	type pb struct{ p, big int }
	var pbs []pb
	for _, p := range sizes {
		pbs = append(pbs, pb{p, 0})
	}
	// after a first string of BigFirst bytes the buffer holds 6144 bytes and is
	// flushed when more than 4608 are pending: sweep the prefix so that this
	// point moves through the whole follower structure
	for p := 0; p <= 5000; p++ {
		if e.Thorough() || (p >= 2600 && p <= 4700) {
			pbs = append(pbs, pb{p, BigFirst})
		}
	}
	var idx, total int64
	complete := true
outer:
	for _, x := range pbs {
		p := x.p
		for which := 0; which < 3; which++ {
			for oi, o := range sweepOpts {
				for _, lean := range []bool{false, true} {
					idx++
					if !e.Mine(idx) {
						continue
					}
					c := SweepCase(p, which, lean, o, x.big)
					if (p+which+oi)%5 == 0 {
						c.Prefill = 1 + p%70
					}
					if (p+which)%3 == 0 {
						c.Faults = []Fault{{Call: p % 3, N: p % 11}, {Call: 3 + p%2, N: 1 << 20}}
					}
					total++
					if !yield(c) {
						complete = false
						break outer
					}
				}
			}
		}
	}
	e.Rec.AddPart(cov.Part{Name: fmt.Sprintf("size sweep: %d (prefix length in 0..5000, first string 0 or %d bytes) pairs x 3 follower structures x %d option sets x {Rec, Lean}", len(pbs), BigFirst, len(sweepOpts)), Size: total, Complete: complete && e.Thorough()})
}

var bigStr = []int{50, 100, 200, 700, 3000, 3073, 4097, 5000}

// GenStream draws a token/value stream with C06's generator, enlarged by long
// strings and member runs so that internal flushes happen, plus a fault schedule.
func GenStream(t *rapid.T) SCase {
	o := c06.GenOpts(t)
	m := c06.NewModel(o)
	n := rapid.IntRange(1, 40).Draw(t, "len")
	var ops []c06.Op
	for i := 0; i < n; i++ {
		switch rapid.IntRange(0, 11).Draw(t, "kind") {
		case 0:
			op := c06.Op{K: c06.KStr, S: []byte(padStr(rapid.SampledFrom(bigStr).Draw(t, "big"), rapid.IntRange(0, 3).Draw(t, "bigk")))}
			ops = append(ops, op)
			c06.Simulate(m, op)
		case 1:
			op := c06.Op{K: c06.KFill, N: uint64(rapid.SampledFrom([]int{3, 10, 40, 100}).Draw(t, "fill"))}
			ops = append(ops, op)
			c06.Simulate(m, op)
		default:
			ops = c06.GenSteps(t, m, ops, 1, false)
		}
	}
	c := SCase{Opts: o, Ops: ops}
	if rapid.IntRange(0, 4).Draw(t, "faults?") != 0 {
		c.Faults = genFaults(t, 12)
	}
	return c
}

package c09

import (
	stdjson "encoding/json"
	"fmt"
	"reflect"
	"sort"
	"strings"
	"sync"
	"time"
	"unicode"
	"unicode/utf8"

	v1 "github.com/go-json-experiment/json/v1"
	"pgregory.net/rapid"
)

// TD is a plain-data type description that is realised twice (once with the
// encoding/json leaf types, once with the v1 leaf types).
type TD struct {
	K   string `json:"k"`             // kind, see scalarKinds / "any" "number" "raw" "bytes" "time" "duration" "slice" "array" "ptr" "map" "struct" "pool:<Name>"
	N   int    `json:"n,omitempty"`   // array length
	E   *TD    `json:"e,omitempty"`   // element (slice, array, ptr, map value)
	Key *TD    `json:"key,omitempty"` // map key
	F   []FD   `json:"f,omitempty"`   // struct fields
}

// FD is one struct field.
type FD struct {
	Name  string  `json:"name"`            // Go field name
	Tag   *string `json:"tag,omitempty"`   // value of the json tag; nil = no json tag
	Embed bool    `json:"embed,omitempty"` // Go embedding (Anonymous)
	Unexp bool    `json:"unexp,omitempty"` // unexported (never embedded)
	T     TD      `json:"t"`
}

const (
	sideStd = 0
	sideV1  = 1
)

var (
	stdNumberT = reflect.TypeFor[stdjson.Number]()
	v1NumberT  = reflect.TypeFor[v1.Number]()
	stdRawT    = reflect.TypeFor[stdjson.RawMessage]()
	v1RawT     = reflect.TypeFor[v1.RawMessage]()
	anyT       = reflect.TypeFor[any]()
	bytesT     = reflect.TypeFor[[]byte]()
	timeT      = reflect.TypeFor[time.Time]()
	durT       = reflect.TypeFor[time.Duration]()
)

var scalarTypes = map[string]reflect.Type{
	"bool": reflect.TypeFor[bool](), "int": reflect.TypeFor[int](), "int8": reflect.TypeFor[int8](), "int16": reflect.TypeFor[int16](),
	"int32": reflect.TypeFor[int32](), "int64": reflect.TypeFor[int64](), "uint": reflect.TypeFor[uint](), "uint8": reflect.TypeFor[uint8](),
	"uint16": reflect.TypeFor[uint16](), "uint32": reflect.TypeFor[uint32](), "uint64": reflect.TypeFor[uint64](), "uintptr": reflect.TypeFor[uintptr](),
	"float32": reflect.TypeFor[float32](), "float64": reflect.TypeFor[float64](), "string": reflect.TypeFor[string](),
}

var scalarKinds = []string{"bool", "int", "int8", "int16", "int32", "int64", "uint", "uint8", "uint16", "uint32", "uint64", "uintptr", "float32", "float64", "string"}

const pkgPath = "verif/harness/c09"

// realise builds the reflect.Type of td for one side.
func realise(td *TD, side int) (t reflect.Type, err error) {
	defer func() {
		if r := recover(); r != nil {
			t, err = nil, fmt.Errorf("unrealisable type: %v", r)
		}
	}()
	return realise1(td, side, 0)
}

func realise1(td *TD, side int, depth int) (reflect.Type, error) {
	if td == nil {
		return nil, fmt.Errorf("missing type")
	}
	if depth > 12 {
		return nil, fmt.Errorf("type too deep")
	}
	if t, ok := scalarTypes[td.K]; ok {
		return t, nil
	}
	if name, ok := strings.CutPrefix(td.K, "pool:"); ok {
		t, ok := poolTypes[name]
		if !ok {
			return nil, fmt.Errorf("unknown pool type %q", name)
		}
		return t, nil
	}
	switch td.K {
	case "any":
		return anyT, nil
	case "number":
		if side == sideStd {
			return stdNumberT, nil
		}
		return v1NumberT, nil
	case "raw":
		if side == sideStd {
			return stdRawT, nil
		}
		return v1RawT, nil
	case "bytes":
		return bytesT, nil
	case "time":
		return timeT, nil
	case "duration":
		return durT, nil
	case "slice", "ptr":
		e, err := realise1(td.E, side, depth+1)
		if err != nil {
			return nil, err
		}
		if td.K == "slice" {
			return reflect.SliceOf(e), nil
		}
		return reflect.PointerTo(e), nil
	case "array":
		e, err := realise1(td.E, side, depth+1)
		if err != nil {
			return nil, err
		}
		if td.N < 0 || td.N > 8 {
			return nil, fmt.Errorf("array length %d", td.N)
		}
		return reflect.ArrayOf(td.N, e), nil
	case "map":
		k, err := realise1(td.Key, side, depth+1)
		if err != nil {
			return nil, err
		}
		if !k.Comparable() {
			return nil, fmt.Errorf("map key not comparable")
		}
		e, err := realise1(td.E, side, depth+1)
		if err != nil {
			return nil, err
		}
		return reflect.MapOf(k, e), nil
	case "struct":
		if len(td.F) > 40 {
			return nil, fmt.Errorf("too many fields")
		}
		fs := make([]reflect.StructField, 0, len(td.F))
		for i := range td.F {
			f := &td.F[i]
			ft, err := realise1(&f.T, side, depth+1)
			if err != nil {
				return nil, err
			}
			sf := reflect.StructField{Name: f.Name, Type: ft}
			if f.Tag != nil {
				sf.Tag = reflect.StructTag("json:" + quoteTag(*f.Tag))
			}
			if f.Embed {
				st := ft
				if st.Kind() == reflect.Pointer {
					st = st.Elem()
				}
				if st.Kind() != reflect.Struct || st.NumMethod() > 0 || reflect.PointerTo(st).NumMethod() > 0 {
					return nil, fmt.Errorf("cannot embed %v", ft)
				}
				sf.Anonymous = true
			}
			if f.Unexp {
				if f.Embed {
					return nil, fmt.Errorf("unexported embedded field")
				}
				sf.PkgPath = pkgPath
			}
			fs = append(fs, sf)
		}
		return reflect.StructOf(fs), nil
	}
	return nil, fmt.Errorf("unknown kind %q", td.K)
}

// quoteTag quotes a tag value the way the reflect.StructTag convention wants it.
func quoteTag(s string) string {
	var sb strings.Builder
	sb.WriteByte('"')
	for i := 0; i < len(s); i++ {
		c := s[i]
		if c == '"' || c == '\\' {
			sb.WriteByte('\\')
		}
		sb.WriteByte(c)
	}
	sb.WriteByte('"')
	return sb.String()
}

// hasFeature reports whether the type uses a tag, a method (pool type with
// methods, time.Time) or embedding: the encode-side non-triviality rule.
func (td *TD) hasFeature() bool {
	if td == nil {
		return false
	}
	if strings.HasPrefix(td.K, "pool:") || td.K == "time" || td.K == "number" || td.K == "raw" {
		return true
	}
	for i := range td.F {
		f := &td.F[i]
		if f.Tag != nil || f.Embed || f.T.hasFeature() {
			return true
		}
	}
	return td.E.hasFeature() || td.Key.hasFeature()
}

func (td *TD) String() string {
	if td == nil {
		return "<nil>"
	}
	switch td.K {
	case "slice":
		return "[]" + td.E.String()
	case "array":
		return fmt.Sprintf("[%d]%s", td.N, td.E.String())
	case "ptr":
		return "*" + td.E.String()
	case "map":
		return "map[" + td.Key.String() + "]" + td.E.String()
	case "struct":
		var sb strings.Builder
		sb.WriteString("struct{")
		for i, f := range td.F {
			if i > 0 {
				sb.WriteString("; ")
			}
			if !f.Embed {
				sb.WriteString(f.Name + " ")
			} else {
				sb.WriteString("/*embedded " + f.Name + "*/ ")
			}
			sb.WriteString(f.T.String())
			if f.Tag != nil {
				sb.WriteString(" `json:" + quoteTag(*f.Tag) + "`")
			}
		}
		sb.WriteString("}")
		return sb.String()
	}
	return td.K
}

// ---------------------------------------------------------------------------
// Type generator.

var goNames = []string{"A", "B", "C", "Ab", "AB", "Name", "X1", "A_b", "Élan", "K", "Z", "Ba", "Q", "Abc", "NAME", "Xx"}
var unexpNames = []string{"a", "b", "name", "x"}

// Tag names: all acceptable to encoding/json's isValidTag (letters, digits and
// the punctuation it lists), so both packages take them as the JSON name.
var tagNames = []string{"a", "A", "ab", "Ab", "aB", "AB", "a_b", "a-b", "name", "Name", "NAME", "é", "É", "k", "K", "K", "x1", "b", "c", "<a>", "a&b", "a b", "ſ", "s", "-", "a.b", "0", "日本", "$ref", "z"}

func ptr[T any](v T) *T { return &v }

func genTag(t *rapid.T) *string {
	switch rapid.IntRange(0, 9).Draw(t, "tagkind") {
	case 0, 1, 2, 3:
		return nil
	case 4:
		if rapid.IntRange(0, 3).Draw(t, "dash") == 0 {
			return ptr("-")
		}
	}
	var sb strings.Builder
	if rapid.IntRange(0, 3).Draw(t, "named") != 0 {
		sb.WriteString(rapid.SampledFrom(tagNames).Draw(t, "tagname"))
	}
	if rapid.IntRange(0, 3).Draw(t, "oe") == 0 {
		sb.WriteString(",omitempty")
	}
	if rapid.IntRange(0, 4).Draw(t, "oz") == 0 {
		sb.WriteString(",omitzero")
	}
	if rapid.IntRange(0, 3).Draw(t, "str") == 0 {
		sb.WriteString(",string")
	}
	if rapid.IntRange(0, 30).Draw(t, "unk") == 0 {
		sb.WriteString(",whatever")
	}
	return ptr(sb.String())
}

type typeCfg struct {
	depth int
}

func genLeaf(t *rapid.T) TD {
	switch k := rapid.IntRange(0, 19).Draw(t, "leaf"); {
	case k < 9:
		return TD{K: rapid.SampledFrom(scalarKinds).Draw(t, "scalar")}
	case k < 11:
		return TD{K: "string"}
	case k < 13:
		return TD{K: "any"}
	case k == 13:
		return TD{K: "number"}
	case k == 14:
		return TD{K: "raw"}
	case k == 15:
		return TD{K: "bytes"}
	case k == 16:
		if rapid.IntRange(0, 3).Draw(t, "timeish") == 0 {
			return TD{K: rapid.SampledFrom([]string{"time", "duration"}).Draw(t, "timek")}
		}
		return TD{K: "int"}
	default:
		return TD{K: "pool:" + rapid.SampledFrom(poolNames).Draw(t, "pool")}
	}
}

func genKey(t *rapid.T) TD {
	switch k := rapid.IntRange(0, 9).Draw(t, "keykind"); {
	case k < 4:
		return TD{K: "string"}
	case k < 7:
		return TD{K: rapid.SampledFrom(scalarKinds[1:12]).Draw(t, "intkey")}
	case k == 7:
		return TD{K: "number"}
	default:
		return TD{K: "pool:" + rapid.SampledFrom(poolKeyNames).Draw(t, "poolkey")}
	}
}

func genTD(t *rapid.T, depth int) TD {
	k := rapid.IntRange(0, 19).Draw(t, "tkind")
	if depth <= 0 || k < 9 {
		return genLeaf(t)
	}
	switch {
	case k < 11:
		return TD{K: "slice", E: ptr(genTD(t, depth-1))}
	case k == 11:
		return TD{K: "array", N: rapid.IntRange(0, 3).Draw(t, "alen"), E: ptr(genTD(t, depth-1))}
	case k < 14:
		return TD{K: "ptr", E: ptr(genTD(t, depth-1))}
	case k < 16:
		return TD{K: "map", Key: ptr(genKey(t)), E: ptr(genTD(t, depth-1))}
	default:
		return genStruct(t, depth)
	}
}

func genStruct(t *rapid.T, depth int) TD {
	n := rapid.IntRange(0, 6).Draw(t, "nfields")
	td := TD{K: "struct"}
	used := map[string]bool{}
	for i := 0; i < n; i++ {
		var f FD
		embed := depth > 0 && rapid.IntRange(0, 4).Draw(t, "embed") == 0
		if embed {
			var st TD
			if rapid.IntRange(0, 3).Draw(t, "embpool") == 0 {
				st = TD{K: "pool:" + rapid.SampledFrom(poolEmbeddable).Draw(t, "embpoolname")}
			} else {
				st = genStruct(t, depth-1)
			}
			if rapid.IntRange(0, 2).Draw(t, "embptr") == 0 {
				st = TD{K: "ptr", E: ptr(st)}
			}
			f = FD{Embed: true, T: st}
			if rapid.IntRange(0, 5).Draw(t, "embtag") == 0 {
				f.Tag = genTag(t)
			}
		} else {
			f = FD{T: genTD(t, depth-1), Tag: genTag(t)}
			if rapid.IntRange(0, 15).Draw(t, "unexp") == 0 {
				f.Unexp = true
			}
		}
		pool := goNames
		if f.Unexp {
			pool = unexpNames
		}
		name := rapid.SampledFrom(pool).Draw(t, "goname")
		for used[name] {
			name += "x"
		}
		used[name] = true
		f.Name = name
		td.F = append(td.F, f)
	}
	return td
}

// The type catalogue: a fixed list of generated types (rapid's deterministic
// Example stream, seeds 1..N, no other randomness), ordered by size. Most
// cases draw their type from it, the rest draw a fresh type. Every distinct
// struct type costs memory for the lifetime of the process (reflect.StructOf
// types and the per-type caches of both packages are never freed), so the
// catalogue bounds memory and speeds cases up; the fresh share keeps the type
// space open-ended.
const catalogueSize = 3000

var (
	catalogueOnce sync.Once
	catalogue     []TD
)

func typeCatalogue() []TD {
	catalogueOnce.Do(func() {
		g := rapid.Custom(genTopType)
		for i := 1; i <= catalogueSize; i++ {
			catalogue = append(catalogue, g.Example(i))
		}
		sort.SliceStable(catalogue, func(i, j int) bool { return len(catalogue[i].String()) < len(catalogue[j].String()) })
	})
	return catalogue
}

// drawType draws the root type of a case.
func drawType(t *rapid.T) TD {
	if rapid.IntRange(0, 9).Draw(t, "freshtype") < 2 {
		return genTopType(t)
	}
	cat := typeCatalogue()
	return *cloneTD(&cat[rapid.IntRange(0, len(cat)-1).Draw(t, "cattype")])
}

// genTopType draws the root type of an (un)marshal case: mostly structs.
func genTopType(t *rapid.T) TD {
	if rapid.IntRange(0, 9).Draw(t, "top") < 6 {
		return genStruct(t, 3)
	}
	return genTD(t, 3)
}

// ---------------------------------------------------------------------------
// Field view used by the fitted-document generator and the classifiers: an
// approximation (a superset) of the members a struct type answers to.

type fieldView struct {
	name   string       // JSON name
	typ    reflect.Type // field type
	quoted bool         // `,string` option present
	depth  int          // embedding depth
}

func isValidStdTag(s string) bool {
	if s == "" {
		return false
	}
	for _, c := range s {
		switch {
		case strings.ContainsRune("!#$%&()*+-./:;<=>?@[]^_{|}~ ", c):
		case !unicode.IsLetter(c) && !unicode.IsDigit(c):
			return false
		}
	}
	return true
}

// fieldsOf lists candidate (name, type) pairs reachable in a struct type,
// through embedding, without applying the dominance rules.
func fieldsOf(t reflect.Type, depth int, seen map[reflect.Type]bool, out *[]fieldView) {
	if seen[t] || depth > 6 {
		return
	}
	seen[t] = true
	defer delete(seen, t)
	for i := 0; i < t.NumField(); i++ {
		sf := t.Field(i)
		tag, _ := sf.Tag.Lookup("json")
		if tag == "-" {
			continue
		}
		name, opts, _ := strings.Cut(tag, ",")
		if !isValidStdTag(name) {
			name = ""
		}
		if sf.Anonymous {
			ft := sf.Type
			if ft.Kind() == reflect.Pointer {
				ft = ft.Elem()
			}
			if !sf.IsExported() && ft.Kind() != reflect.Struct {
				continue
			}
			if name == "" && ft.Kind() == reflect.Struct {
				fieldsOf(ft, depth+1, seen, out)
				continue
			}
		} else if !sf.IsExported() {
			continue
		}
		if name == "" {
			name = sf.Name
		}
		quoted := false
		for _, o := range strings.Split(opts, ",") {
			if o == "string" {
				quoted = true
			}
		}
		*out = append(*out, fieldView{name: name, typ: sf.Type, quoted: quoted, depth: depth})
	}
}

func structFields(t reflect.Type) []fieldView {
	var out []fieldView
	fieldsOf(t, 0, map[reflect.Type]bool{}, &out)
	return out
}

func validUTF8(s string) bool { return utf8.ValidString(s) }

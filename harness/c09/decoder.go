package c09

import (
	"bytes"
	stdjson "encoding/json"
	"fmt"
	"io"
	"reflect"
	"strings"

	v1 "github.com/go-json-experiment/json/v1"
	"pgregory.net/rapid"

	"verif/harness/cov"
	"verif/harness/gen"
	"verif/harness/rt"
)

// DOp is one call on a Decoder.
type DOp struct {
	Op   string `json:"op"`             // decode | token | more | offset | buffered | usenumber | disallow
	Type *TD    `json:"type,omitempty"` // target type of decode
}

// DCase is a call sequence on one Decoder reading Input through a reader that
// delivers it in chunks of Chunk bytes (0 = everything at once).
type DCase struct {
	Input []byte `json:"input"`
	Chunk int    `json:"chunk"`
	Ops   []DOp  `json:"ops"`
	Edits int    `json:"edits"`
}

type chunkReader struct {
	b []byte
	n int
}

func (r *chunkReader) Read(p []byte) (int, error) {
	if len(r.b) == 0 {
		return 0, io.EOF
	}
	n := len(p)
	if r.n > 0 && n > r.n {
		n = r.n
	}
	n = copy(p[:n], r.b)
	r.b = r.b[n:]
	return n, nil
}

var decTypes = []TD{
	{K: "any"}, {K: "any"}, {K: "any"},
	{K: "struct", F: []FD{{Name: "A", T: TD{K: "int"}}, {Name: "B", T: TD{K: "string"}, Tag: ptr("b,omitempty")}, {Name: "C", T: TD{K: "any"}}}},
	{K: "slice", E: &TD{K: "any"}},
	{K: "map", Key: &TD{K: "string"}, E: &TD{K: "any"}},
	{K: "number"}, {K: "raw"}, {K: "float64"}, {K: "string"}, {K: "pool:Rec"}, {K: "pool:PJ"}, {K: "slice", E: &TD{K: "int"}},
}

func genDCase(t *rapid.T) DCase {
	var c DCase
	// Input: a stream whose documents are fitted to the types of the Decode
	// calls, or generic streams / mutated texts.
	ntypes := rapid.IntRange(0, 3).Draw(t, "ntypes")
	var types []TD
	for i := 0; i < ntypes; i++ {
		types = append(types, rapid.SampledFrom(decTypes).Draw(t, "dtype"))
	}
	cfg := gen.DocCfg{WS: true, Dups: true, BadUTF8: rapid.Bool().Draw(t, "badutf8"), MaxDepth: 3}
	switch k := rapid.IntRange(0, 9).Draw(t, "insrc"); {
	case k < 5 && ntypes > 0:
		for i := range types {
			st, _ := realise(&types[i], sideStd)
			d, _ := fitDoc(t, st)
			c.Input = append(c.Input, d...)
			c.Input = append(c.Input, rapid.SampledFrom([]string{"", " ", "\n", " \n", "\t"}).Draw(t, "sep")...)
		}
	case k < 8:
		c.Input = gen.Stream(t, cfg)
	default:
		c.Input = gen.Text(t, cfg)
		c.Edits = -1
	}
	if c.Edits == 0 && rapid.IntRange(0, 3).Draw(t, "mutate") == 0 {
		c.Input = mutate1(t, c.Input)
		c.Edits = 1
	}
	c.Chunk = rapid.SampledFrom([]int{0, 0, 0, 1, 2, 3, 7, 64}).Draw(t, "chunk")
	n := rapid.IntRange(1, 14).Draw(t, "nops")
	di := 0
	for i := 0; i < n; i++ {
		switch k := rapid.IntRange(0, 19).Draw(t, "op"); {
		case k < 5:
			td := TD{K: "any"}
			if di < len(types) {
				td = types[di]
				di++
			} else if rapid.IntRange(0, 2).Draw(t, "othertype") == 0 {
				td = rapid.SampledFrom(decTypes).Draw(t, "dtype2")
			}
			c.Ops = append(c.Ops, DOp{Op: "decode", Type: &td})
		case k < 11:
			c.Ops = append(c.Ops, DOp{Op: "token"})
		case k < 14:
			c.Ops = append(c.Ops, DOp{Op: "more"})
		case k < 17:
			c.Ops = append(c.Ops, DOp{Op: "offset"})
		case k < 18:
			c.Ops = append(c.Ops, DOp{Op: "buffered"})
		case k < 19:
			c.Ops = append(c.Ops, DOp{Op: "usenumber"})
		default:
			c.Ops = append(c.Ops, DOp{Op: "disallow"})
		}
	}
	c.Ops = avoidKnownDecoderShapes(c, func(cls string) { rec.Excluded(cls) })
	return c
}

// nameTracker follows the tokens returned by encoding/json's Decoder to know
// the nesting depth and whether an object name is expected next.
type nameTracker struct {
	stack   []byte // '{' or '['
	wantKey bool   // innermost container is an object and a name (or '}') is next
}

func (s *nameTracker) afterValue() {
	if n := len(s.stack); n > 0 && s.stack[n-1] == '{' {
		s.wantKey = !s.wantKey
	}
}

func (s *nameTracker) token(tok any) {
	if d, ok := tok.(stdjson.Delim); ok {
		switch d {
		case '{':
			s.stack = append(s.stack, '{')
			s.wantKey = true
			return
		case '[':
			s.stack = append(s.stack, '[')
			s.wantKey = false
			return
		default:
			if len(s.stack) > 0 {
				s.stack = s.stack[:len(s.stack)-1]
			}
			s.wantKey = false
			if n := len(s.stack); n > 0 && s.stack[n-1] == '{' {
				s.wantKey = true // a value of the enclosing object was completed
			}
			return
		}
	}
	// scalar token: a name or a value
	if n := len(s.stack); n > 0 && s.stack[n-1] == '{' {
		s.wantKey = !s.wantKey
	}
}

func restIsBlank(in []byte, off int64) bool {
	if off < 0 || off > int64(len(in)) {
		return false
	}
	return len(bytes.TrimLeft(in[off:], " \t\r\n")) == 0
}

// restIsBlankSep: only whitespace and at most one ',' or ':' is left.
func restIsBlankSep(in []byte, off int64) bool {
	if off < 0 || off > int64(len(in)) {
		return false
	}
	r := bytes.TrimLeft(in[off:], " \t\r\n")
	if len(r) > 0 && (r[0] == ',' || r[0] == ':') {
		r = bytes.TrimLeft(r[1:], " \t\r\n")
	}
	return len(r) == 0
}

// legitClose reports whether the next non-blank byte after off closes the
// innermost container at a position where the grammar allows it.
func (s *nameTracker) legitClose(in []byte, off int64, afterOpenOrValue bool) bool {
	if off < 0 || off > int64(len(in)) || len(s.stack) == 0 {
		return false
	}
	r := bytes.TrimLeft(in[off:], " \t\r\n")
	if len(r) == 0 {
		return false
	}
	top := s.stack[len(s.stack)-1]
	switch r[0] {
	case ']':
		return top == '['
	case '}':
		return top == '{' && s.wantKey
	}
	return false
}

// avoidKnownDecoderShapes drives encoding/json's Decoder alone (never the
// code under test) through the sequence and drops the calls that construct
// known findings F8 (More at end of input inside a container) and F9 (Decode
// where an object name is next).
func avoidKnownDecoderShapes(c DCase, excluded func(string)) []DOp {
	if !avoidF8 && !avoidF9 {
		return c.Ops
	}
	dec := stdjson.NewDecoder(&chunkReader{b: append([]byte(nil), c.Input...), n: c.Chunk})
	var st nameTracker
	var out []DOp
	dead := false
	for _, op := range c.Ops {
		if dead {
			out = append(out, op)
			continue
		}
		switch op.Op {
		case "more":
			// encoding/json's More looks at one byte; v1 peeks a whole token
			// and answers true whenever that fails (F8). Keep More only where
			// the next token is readable or legitimately closes the container.
			if avoidF8 && (moreAtUnreadable(c.Input, dec.InputOffset(), &st) || nextTokenFails(c, out)) {
				excluded(clsF8)
				continue
			}
			dec.More()
		case "decode":
			if avoidF9 && st.wantKey {
				excluded(clsF9)
				continue
			}
			if avoidF15 && len(st.stack) > 0 && restIsBlankSep(c.Input, dec.InputOffset()) {
				excluded(clsF15)
				continue
			}
			var v any
			if op.Type != nil {
				if t, err := realise(op.Type, sideStd); err == nil {
					v = reflect.New(t).Interface()
				}
			}
			if v == nil {
				v = new(any)
			}
			var err error
			if p := rt.Guard(func() { err = dec.Decode(v) }); p != nil || err != nil {
				dead = true
			} else {
				st.afterValue()
			}
		case "token":
			tok, err := dec.Token()
			if err != nil {
				dead = true
			} else {
				st.token(tok)
			}
		case "usenumber":
			dec.UseNumber()
		case "disallow":
			dec.DisallowUnknownFields()
		}
		out = append(out, op)
	}
	return out
}

// moreAtUnreadable reports whether a More call at offset off would look at
// end of input or at a closing bracket that the grammar does not allow here:
// the positions where encoding/json answers false and v1 true.
func moreAtUnreadable(in []byte, off int64, st *nameTracker) bool {
	if off < 0 || off > int64(len(in)) {
		return false
	}
	r := bytes.TrimLeft(in[off:], " \t\r\n")
	if len(r) == 0 {
		return len(st.stack) > 0 // F8 proper: end of input inside a container (at top level both say false)
	}
	if r[0] != ']' && r[0] != '}' {
		return false
	}
	return !st.legitClose(in, off, false)
}

// nextTokenFails replays the calls kept so far on a fresh encoding/json
// Decoder and reports whether a Token call would fail next (the input ahead
// is truncated or invalid).
func nextTokenFails(c DCase, kept []DOp) bool {
	dec := stdjson.NewDecoder(&chunkReader{b: append([]byte(nil), c.Input...), n: c.Chunk})
	for _, op := range kept {
		switch op.Op {
		case "more":
			dec.More()
		case "token":
			if _, err := dec.Token(); err != nil {
				return true
			}
		case "decode":
			var v any = new(any)
			if op.Type != nil {
				if t, err := realise(op.Type, sideStd); err == nil {
					v = reflect.New(t).Interface()
				}
			}
			var err error
			if p := rt.Guard(func() { err = dec.Decode(v) }); p != nil || err != nil {
				return true
			}
		case "usenumber":
			dec.UseNumber()
		case "disallow":
			dec.DisallowUnknownFields()
		}
	}
	_, err := dec.Token()
	return err != nil
}

func errClass(err error) string {
	switch {
	case err == nil:
		return "nil"
	case err == io.EOF:
		return "io.EOF"
	}
	return "error"
}

func showTok(tok any) string {
	switch x := tok.(type) {
	case stdjson.Delim:
		return "Delim(" + string(rune(x)) + ")"
	case v1.Delim:
		return "Delim(" + string(rune(x)) + ")"
	case stdjson.Number:
		return "Number(" + string(x) + ")"
	case v1.Number:
		return "Number(" + string(x) + ")"
	case string:
		return fmt.Sprintf("%q", x)
	}
	return fmt.Sprintf("%T(%v)", tok, tok)
}

// RunDecoder decides one Decoder call sequence.
func RunDecoder(c DCase) error {
	rec.Eval()
	in := c.Input
	ds := stdjson.NewDecoder(&chunkReader{b: append([]byte(nil), in...), n: c.Chunk})
	dv := v1.NewDecoder(&chunkReader{b: append([]byte(nil), in...), n: c.Chunk})
	var st nameTracker
	var trace []string
	fpParts := [][]byte{[]byte("decoder"), in, {byte(c.Chunk)}}
	nt := c.Edits == 1 || validStream(in)
	defer func() {
		if nt {
			fp := cov.FP(fpParts...)
			rec.NonTrivial(fp)
			rec.Sample(fp, func() any {
				return map[string]any{"api": "Decoder", "input": string(in), "chunk": c.Chunk, "calls": trace}
			})
		}
	}()
	if c.Chunk > 0 {
		rec.Class("d:chunked-reader")
	}
	lastWasMore := false
	for i, op := range c.Ops {
		fpParts = append(fpParts, []byte(op.Op))
		where := func() string {
			return fmt.Sprintf("Decoder on %q (chunk %d), calls %v, call #%d %s", in, c.Chunk, trace, i, op.Op)
		}
		switch op.Op {
		case "usenumber":
			ds.UseNumber()
			dv.UseNumber()
			trace = append(trace, "UseNumber")
			rec.Class("d:usenumber")
		case "disallow":
			ds.DisallowUnknownFields()
			dv.DisallowUnknownFields()
			trace = append(trace, "DisallowUnknownFields")
			rec.Class("d:disallow")
		case "more":
			var ms, mv bool
			ms = ds.More()
			if p := rt.Guard(func() { mv = dv.More() }); p != nil {
				return fmt.Errorf("%s: v1 panicked: %v", where(), p)
			}
			rec.Class("d:more")
			if ms != mv {
				full := fmt.Errorf("%s: More() encoding/json %v, v1 %v", where(), ms, mv)
				// F8: encoding/json's More looks at one byte, v1 peeks the next
				// token. They may differ (either way) only when no valid token
				// follows; confirm that on both decoders.
				var terrS, terrV error
				_, terrS = ds.Token()
				if rt.Guard(func() { _, terrV = dv.Token() }) == nil && terrS != nil && terrV != nil {
					return rt.Known(clsF8, full)
				}
				return full
			}
			trace = append(trace, fmt.Sprintf("More=%v", ms))
			lastWasMore = true
		case "offset":
			os := ds.InputOffset()
			var ov int64
			if p := rt.Guard(func() { ov = dv.InputOffset() }); p != nil {
				return fmt.Errorf("%s: v1 panicked: %v", where(), p)
			}
			rec.Class("d:offset")
			if os != ov {
				return fmt.Errorf("%s: InputOffset() encoding/json %d, v1 %d", where(), os, ov)
			}
			trace = append(trace, fmt.Sprintf("InputOffset=%d", os))
		case "buffered":
			// Buffered exposes how far each implementation has read ahead,
			// which is only comparable when the reader hands over the whole
			// (small) input in one piece.
			// After More the two differ in whether the skipped whitespace
			// still counts as buffered, so only the state after a Decode /
			// Token call is compared (Buffered is not named by the property
			// statement; this is the one regime where it is well defined).
			if c.Chunk != 0 || len(in) >= 64 || lastWasMore {
				continue
			}
			bs, _ := io.ReadAll(ds.Buffered())
			var bv []byte
			if p := rt.Guard(func() { bv, _ = io.ReadAll(dv.Buffered()) }); p != nil {
				return fmt.Errorf("%s: v1 panicked: %v", where(), p)
			}
			rec.Class("d:buffered")
			if !bytes.Equal(bs, bv) {
				return fmt.Errorf("%s: Buffered() encoding/json %q, v1 %q", where(), bs, bv)
			}
			trace = append(trace, fmt.Sprintf("Buffered=%q", bs))
		case "token":
			ts, errS := ds.Token()
			var tv any
			var errV error
			if p := rt.Guard(func() { tv, errV = dv.Token() }); p != nil {
				return fmt.Errorf("%s: v1 panicked: %v", where(), p)
			}
			rec.Class("d:token")
			if errClass(errS) != errClass(errV) {
				full := fmt.Errorf("%s: Token() encoding/json (%v, %v), v1 (%v, %v)", where(), showTok(ts), errS, showTok(tv), errV)
				if lastWasMore && errS == io.EOF && errV != nil {
					// F8, second symptom: the failed peek inside More latched an
					// error that Token now reports instead of io.EOF.
					return rt.Known(clsF8, full)
				}
				return full
			}
			if errS != nil {
				rec.Class("d:stopped-at-error:" + errClass(errS))
				return nil
			}
			if showTok(ts) != showTok(tv) {
				return fmt.Errorf("%s: Token() encoding/json %s, v1 %s", where(), showTok(ts), showTok(tv))
			}
			st.token(ts)
			lastWasMore = false
			trace = append(trace, "Token="+showTok(ts))
		case "decode":
			td := op.Type
			if td == nil {
				td = &TD{K: "any"}
			}
			tS, err := realise(td, sideStd)
			if err != nil {
				return nil
			}
			tV, err := realise(td, sideV1)
			if err != nil {
				return nil
			}
			fpParts = append(fpParts, []byte(td.String()))
			atName := st.wantKey
			atEnd := len(st.stack) > 0 && restIsBlankSep(in, ds.InputOffset())
			pS, pV := reflect.New(tS), reflect.New(tV)
			var errS, errV error
			panS := rt.Guard(func() { errS = ds.Decode(pS.Interface()) })
			panV := rt.Guard(func() { errV = dv.Decode(pV.Interface()) })
			rec.Class("d:decode")
			if panV != nil && panS == nil {
				return fmt.Errorf("%s: v1 panicked: %v", where(), panV)
			}
			if panS != nil {
				return nil // user-method panic on both sides; nothing to compare
			}
			if errClass(errS) != errClass(errV) {
				full := fmt.Errorf("%s: Decode(*%s) encoding/json err=%v, v1 err=%v (v1 value %s)", where(), td.String(), errS, errV, show(pV.Elem()))
				if atName && errS != nil && errV == nil {
					return rt.Known(clsF9, full)
				}
				if atEnd && errS == io.EOF && errV != nil {
					return rt.Known(clsF15, full)
				}
				return full
			}
			if errS != nil {
				rec.Class("d:stopped-at-error:" + errClass(errS))
				return nil
			}
			if d := eqValue(pS.Elem(), pV.Elem(), "$", 0); d != "" {
				return fmt.Errorf("%s: Decode(*%s) values differ at %s", where(), td.String(), d)
			}
			st.afterValue()
			lastWasMore = false
			trace = append(trace, fmt.Sprintf("Decode(*%s)=%s", td.String(), show(pS.Elem())))
		}
	}
	rec.Class("d:sequence-completed-without-error")
	return nil
}

// validStream reports whether in is a (possibly empty) sequence of valid JSON
// values according to encoding/json.
func validStream(in []byte) bool {
	dec := stdjson.NewDecoder(bytes.NewReader(in))
	for {
		var v stdjson.RawMessage
		err := dec.Decode(&v)
		if err == io.EOF {
			return true
		}
		if err != nil {
			return false
		}
	}
}

var _ = strings.Contains

package c09

import (
	"encoding/base64"
	"reflect"
	"strconv"
	"strings"
	"unicode"

	"pgregory.net/rapid"

	"verif/harness/gen"
)

// fitter generates a JSON document fitted to a Go type: most of the document
// has the kind the type expects, so that Unmarshal gets deep into the
// per-type logic, with occasional perturbations (wrong kind, null, unknown or
// case-variant member names, duplicates, out-of-range numbers, ...).
type fitter struct {
	t        *rapid.T
	sb       strings.Builder
	ws       bool
	excluded []string // classifiers of constructions avoided (known findings)
}

var docCfgSmall = gen.DocCfg{MaxDepth: 2, MaxWidth: 3, WS: true, Dups: true, BadUTF8: true}

func (f *fitter) space() {
	if f.ws && rapid.IntRange(0, 5).Draw(f.t, "ws?") == 0 {
		f.sb.WriteString(rapid.SampledFrom([]string{" ", "\n", "\t", "\r\n", "  "}).Draw(f.t, "ws"))
	}
}

func (f *fitter) wrongKind() {
	switch rapid.IntRange(0, 7).Draw(f.t, "wrong") {
	case 0:
		f.sb.WriteString("null")
	case 1:
		f.sb.WriteString(rapid.SampledFrom([]string{"true", "false"}).Draw(f.t, "b"))
	case 2:
		f.sb.WriteString(gen.Number(f.t))
	case 3:
		f.sb.WriteString(`"` + gen.StrBody(f.t, docCfgSmall) + `"`)
	case 4:
		f.sb.WriteString(rapid.SampledFrom([]string{"[]", "[1]", `["a",null]`, "[[]]", "[1,2,3,4,5]"}).Draw(f.t, "arr"))
	case 5:
		f.sb.WriteString(rapid.SampledFrom([]string{"{}", `{"a":1}`, `{"A":{"a":null}}`, `{"1":1}`, `{"":[]}`}).Draw(f.t, "obj"))
	default:
		f.sb.Write(gen.Doc(f.t, docCfgSmall))
	}
}

func intLit(t *rapid.T, kind reflect.Kind) string {
	switch rapid.IntRange(0, 11).Draw(t, "intclass") {
	case 0, 1, 2, 3:
		return strconv.Itoa(rapid.IntRange(-3, 300).Draw(t, "small"))
	case 4, 5:
		// boundaries of the kind
		var lits []string
		switch kind {
		case reflect.Int8:
			lits = []string{"127", "128", "-128", "-129"}
		case reflect.Int16:
			lits = []string{"32767", "32768", "-32768", "-32769"}
		case reflect.Int32:
			lits = []string{"2147483647", "2147483648", "-2147483648", "-2147483649"}
		case reflect.Int, reflect.Int64:
			lits = []string{"9223372036854775807", "9223372036854775808", "-9223372036854775808", "-9223372036854775809"}
		case reflect.Uint8:
			lits = []string{"255", "256", "-1", "-0"}
		case reflect.Uint16:
			lits = []string{"65535", "65536", "-1", "0"}
		case reflect.Uint32:
			lits = []string{"4294967295", "4294967296", "-1", "-0"}
		default:
			lits = []string{"18446744073709551615", "18446744073709551616", "-1", "-0"}
		}
		return rapid.SampledFrom(lits).Draw(t, "bound")
	case 6:
		return rapid.SampledFrom([]string{"1.0", "1e2", "1E+2", "-0", "0.0", "1.5", "100e-2", "1e-1", "12e0", "0e5", "1.0e1"}).Draw(t, "fracint")
	case 7, 8:
		return strconv.FormatInt(rapid.Int64().Draw(t, "i64"), 10)
	default:
		return gen.Number(t)
	}
}

// quotedLits are contents placed inside a JSON string for `,string` fields
// (besides the properly fitted literal).
var quotedOdd = []string{"", " 1", "1 ", "01", "1.", ".5", "1e5", "0x10", "1_0", "-", "--1", "null", "true", "false", "True", "\\\"a\\\"", "\\\"\\\"", "\\\"null\\\"", "abc", "+1", "Infinity", "-Infinity", "inf", "NaN", "+Inf", "-0", "1.0", "1e2", "0x1p-2", "\\u0031", "1\\n", "\\\"a", "nul", "\\\"a\\\" ", " \\\"a\\\"", "[]", "{}"}

func (f *fitter) quoted(ft reflect.Type) {
	t := f.t
	base := ft
	if base.Kind() == reflect.Pointer {
		base = base.Elem()
	}
	if rapid.IntRange(0, 3).Draw(t, "qodd") == 0 {
		s := rapid.SampledFrom(quotedOdd).Draw(t, "qoddlit")
		dec := strings.NewReplacer(`\"`, `"`, `\n`, "\n", "\\u0031", "1").Replace(s)
		if avoidF5 && base.Kind() == reflect.String && f5Content(dec) {
			f.excluded = append(f.excluded, clsF5)
			s = "x"
		}
		if avoidF19 && isNumberType(base) && f19Content(dec) {
			f.excluded = append(f.excluded, clsF19)
			s = "1e3"
		}
		if avoidF7 && isNumericKind(base.Kind()) && f7Content(dec) {
			f.excluded = append(f.excluded, clsF7)
			s = "1"
		}
		f.sb.WriteString(`"` + s + `"`)
		return
	}
	switch base.Kind() {
	case reflect.Bool:
		f.sb.WriteString(rapid.SampledFrom([]string{`"true"`, `"false"`}).Draw(t, "qb"))
	case reflect.Int, reflect.Int8, reflect.Int16, reflect.Int32, reflect.Int64, reflect.Uint, reflect.Uint8, reflect.Uint16, reflect.Uint32, reflect.Uint64, reflect.Uintptr:
		f.sb.WriteString(`"` + intLit(t, base.Kind()) + `"`)
	case reflect.Float32, reflect.Float64:
		f.sb.WriteString(`"` + gen.Number(t) + `"`)
	case reflect.String:
		if isNumberType(base) {
			lit := gen.Number(t)
			if rapid.IntRange(0, 5).Draw(t, "numodd") == 0 {
				lit = rapid.SampledFrom([]string{"1 ", "-", "1e", "01", "1.", "abc", "+1", " 1", "\\\"1\\\"", "1,2"}).Draw(t, "oddnum")
				if avoidF19 && f19Content(strings.ReplaceAll(lit, "\\\"", "\"")) {
					f.excluded = append(f.excluded, clsF19)
					lit = "-1.5e+3"
				}
			}
			f.sb.WriteString(`"` + lit + `"`)
			return
		}
		body := gen.StrBody(t, gen.DocCfg{AsciiOnly: rapid.Bool().Draw(t, "ascii")})
		// the content is itself a JSON string literal: escape it once more
		inner := `"` + body + `"`
		if avoidF5 && (body == "null") {
			f.excluded = append(f.excluded, clsF5)
			inner = `"nul"`
		}
		var sb strings.Builder
		for i := 0; i < len(inner); i++ {
			if inner[i] == '"' || inner[i] == '\\' {
				sb.WriteByte('\\')
			}
			sb.WriteByte(inner[i])
		}
		f.sb.WriteString(`"` + sb.String() + `"`)
	default:
		f.value(ft, 1, false)
	}
}

func caseVariant(t *rapid.T, name string) string {
	rs := []rune(name)
	if len(rs) == 0 {
		return name
	}
	switch rapid.IntRange(0, 5).Draw(t, "cv") {
	case 0:
		return strings.ToUpper(name)
	case 1:
		return strings.ToLower(name)
	case 2:
		i := rapid.IntRange(0, len(rs)-1).Draw(t, "cvi")
		if unicode.IsUpper(rs[i]) {
			rs[i] = unicode.ToLower(rs[i])
		} else {
			rs[i] = unicode.ToUpper(rs[i])
		}
		return string(rs)
	case 3:
		// special folds: k/K/Kelvin, s/long s
		return strings.NewReplacer("k", "K", "K", "K", "s", "ſ", "S", "ſ").Replace(name)
	case 4:
		// delimiter variants (v2 ignores - and _, v1 must not)
		if strings.ContainsAny(name, "_-") {
			return strings.NewReplacer("_", "", "-", "").Replace(name)
		}
		return name[:len(name)/2] + "_" + name[len(name)/2:]
	default:
		return strings.NewReplacer("_", "-", "-", "_").Replace(name)
	}
}

// escapeName spells a member name as a JSON string literal, occasionally with
// escapes.
func escapeName(t *rapid.T, name string) string {
	var sb strings.Builder
	sb.WriteByte('"')
	esc := rapid.IntRange(0, 7).Draw(t, "escname") == 0
	for i, r := range name {
		switch {
		case r == '"' || r == '\\':
			sb.WriteByte('\\')
			sb.WriteRune(r)
		case r < 0x20:
			sb.WriteString(`\u00` + strconv.FormatInt(int64(r)+0x100, 16)[1:])
		case esc && i == 0 && r < 0x10000:
			sb.WriteString(`\u` + strconv.FormatInt(int64(r)+0x10000, 16)[1:])
		default:
			sb.WriteRune(r)
		}
	}
	sb.WriteByte('"')
	return sb.String()
}

func (f *fitter) keyFor(kt reflect.Type) string {
	t := f.t
	if name := kt.Name(); kt.PkgPath() == pkgPath {
		switch name {
		case "KI":
			return rapid.SampledFrom([]string{"ki1", "ki-5", "3", "kix", "ki", "ki9999999999999999999"}).Draw(t, "kikey")
		case "KT":
			return rapid.SampledFrom([]string{"1:2", "-3:4", "1", "200:1", "a:b", "0:0", ":"}).Draw(t, "ktkey")
		case "KS", "PT":
			return rapid.SampledFrom([]string{"a", "", "fail", "x y", "é"}).Draw(t, "kskey")
		}
	}
	switch kt.Kind() {
	case reflect.String:
		if kt == stdNumberT || kt == v1NumberT {
			return rapid.SampledFrom([]string{"1", "-1.5", "abc", "", "1e2", "01"}).Draw(t, "numkey")
		}
		return gen.DecodeBodyLoose(gen.StrBody(t, gen.DocCfg{AsciiOnly: true}))
	case reflect.Int, reflect.Int8, reflect.Int16, reflect.Int32, reflect.Int64, reflect.Uint, reflect.Uint8, reflect.Uint16, reflect.Uint32, reflect.Uint64, reflect.Uintptr:
		if rapid.IntRange(0, 5).Draw(t, "oddkey") == 0 {
			return rapid.SampledFrom([]string{"", "+1", "01", " 1", "1 ", "1.0", "1e1", "-0", "0x1", "a", "-", "1_0"}).Draw(t, "oddintkey")
		}
		return intLit(t, kt.Kind())
	}
	return "k"
}

func (f *fitter) value(ft reflect.Type, depth int, top bool) {
	t := f.t
	if !top && rapid.IntRange(0, 13).Draw(t, "perturb") == 0 {
		f.wrongKind()
		return
	}
	switch ft {
	case stdNumberT, v1NumberT:
		switch rapid.IntRange(0, 5).Draw(t, "numform") {
		case 0:
			f.sb.WriteString(`"` + rapid.SampledFrom([]string{"1", "-1.5e3", "abc", "", "01", "+1", " 1", "1e999"}).Draw(t, "qnum") + `"`)
		default:
			f.sb.WriteString(gen.Number(t))
		}
		return
	case stdRawT, v1RawT:
		f.sb.Write(gen.Doc(t, docCfgSmall))
		return
	case timeT:
		f.sb.WriteString(rapid.SampledFrom([]string{`"2006-01-02T15:04:05Z"`, `"2006-01-02T15:04:05.999999999+07:00"`, `"2006-01-02t15:04:05z"`, `"2006-01-02T15:04:05,5Z"`, `"2006-01-02T24:00:00Z"`,
			`"2006-01-02T15:04:05+24:00"`, `"0000-01-01T00:00:00Z"`, `"2006-01-02"`, `""`, `"2006-01-02T15:04:05.Z"`, `"2006-01-02T15:04:60Z"`, `"2006-02-30T15:04:05Z"`, `"2006-01-02T5:04:05Z"`, `"10000-01-01T00:00:00Z"`,
			`"2006-01-02T15:04:05-00:00"`, `"2006-01-02T15:04:05+23:59"`, `"2006-01-02 15:04:05Z"`, `"2006-01-02T15:04:05Z "`, `"2006-01-02T15:04:05Z"`}).Draw(t, "time"))
		return
	}
	if ft.PkgPath() == pkgPath {
		switch ft.Name() {
		case "PJ", "PJp", "PJT", "PUo", "SJ", "EmbJ":
			if rapid.IntRange(0, 9).Draw(t, "ufail") == 0 {
				f.sb.WriteString(`"fail"`)
			} else {
				f.sb.Write(gen.Doc(t, docCfgSmall))
			}
			return
		case "PT", "PTp", "KS", "KI", "KT", "EmbT":
			f.sb.WriteString(escapeName(t, f.keyFor(ft)))
			return
		}
	}
	switch ft.Kind() {
	case reflect.Bool:
		f.sb.WriteString(rapid.SampledFrom([]string{"true", "false"}).Draw(t, "bool"))
	case reflect.Int, reflect.Int8, reflect.Int16, reflect.Int32, reflect.Int64, reflect.Uint, reflect.Uint8, reflect.Uint16, reflect.Uint32, reflect.Uint64, reflect.Uintptr:
		f.sb.WriteString(intLit(t, ft.Kind()))
	case reflect.Float32, reflect.Float64:
		f.sb.WriteString(gen.Number(t))
	case reflect.String:
		f.sb.WriteString(`"` + gen.StrBody(t, gen.DocCfg{BadUTF8: rapid.IntRange(0, 3).Draw(t, "badutf8") == 0}) + `"`)
	case reflect.Interface:
		f.sb.Write(gen.Doc(t, docCfgSmall))
	case reflect.Pointer:
		if rapid.IntRange(0, 7).Draw(t, "nullptr") == 0 {
			f.sb.WriteString("null")
			return
		}
		f.value(ft.Elem(), depth, false)
	case reflect.Slice, reflect.Array:
		if ft.Elem().Kind() == reflect.Uint8 && ft.Kind() == reflect.Slice && rapid.IntRange(0, 4).Draw(t, "b64") != 0 {
			raw := rapid.SliceOfN(rapid.Byte(), 0, 7).Draw(t, "rawbytes")
			var s string
			switch rapid.IntRange(0, 6).Draw(t, "b64form") {
			case 0:
				s = base64.RawStdEncoding.EncodeToString(raw)
			case 1:
				s = base64.URLEncoding.EncodeToString(raw)
			case 2:
				s = base64.StdEncoding.EncodeToString(raw)
				if len(s) > 2 {
					s = s[:2] + `\n` + s[2:]
				}
			case 3:
				s = base64.StdEncoding.EncodeToString(raw) + rapid.SampledFrom([]string{"=", "A", "\\r\\n", " ", "!", "=="}).Draw(t, "b64tail")
			case 4:
				s = rapid.SampledFrom([]string{"A", "AA", "AAA", "A===", "AA=", "AB==", "AAB=", "=", "\\u0041QID"}).Draw(t, "b64odd")
			default:
				s = base64.StdEncoding.EncodeToString(raw)
			}
			f.sb.WriteString(`"` + s + `"`)
			return
		}
		n := rapid.IntRange(0, 4).Draw(t, "nelem")
		if ft.Kind() == reflect.Array && rapid.IntRange(0, 2).Draw(t, "exactlen") != 0 {
			n = ft.Len()
		}
		if depth > 4 {
			n = 0
		}
		f.sb.WriteByte('[')
		for i := 0; i < n; i++ {
			if i > 0 {
				f.sb.WriteByte(',')
			}
			f.space()
			f.value(ft.Elem(), depth+1, false)
			f.space()
		}
		f.sb.WriteByte(']')
	case reflect.Map:
		n := rapid.IntRange(0, 3).Draw(t, "nkeys")
		if depth > 4 {
			n = 0
		}
		f.sb.WriteByte('{')
		var prev string
		for i := 0; i < n; i++ {
			if i > 0 {
				f.sb.WriteByte(',')
			}
			f.space()
			k := f.keyFor(ft.Key())
			if i > 0 && rapid.IntRange(0, 7).Draw(t, "dupkey") == 0 {
				k = prev
			}
			prev = k
			f.sb.WriteString(escapeName(t, k))
			f.space()
			f.sb.WriteByte(':')
			f.space()
			f.value(ft.Elem(), depth+1, false)
		}
		f.sb.WriteByte('}')
	case reflect.Struct:
		f.object(ft, depth)
	default:
		f.sb.Write(gen.Doc(t, docCfgSmall))
	}
}

func (f *fitter) object(st reflect.Type, depth int) {
	t := f.t
	fields := structFields(st)
	dom := stdFields(st)
	n := 0
	if len(fields) > 0 {
		n = rapid.IntRange(0, min(len(fields)+1, 6)).Draw(t, "nmemb")
	} else {
		n = rapid.IntRange(0, 1).Draw(t, "nmemb0")
	}
	if depth > 4 {
		n = min(n, 1)
	}
	f.sb.WriteByte('{')
	for i := 0; i < n; i++ {
		if i > 0 {
			f.sb.WriteByte(',')
		}
		f.space()
		if len(fields) == 0 || rapid.IntRange(0, 11).Draw(t, "unknown") == 0 {
			unk := rapid.SampledFrom([]string{"unknown", "", "zz", "a", "A", "Name", "-"}).Draw(t, "unkname")
			if avoidF12 && f12Name(dom, unk) {
				f.excluded = append(f.excluded, clsF12)
				unk = "unknown"
			}
			f.sb.WriteString(escapeName(t, unk))
			f.sb.WriteByte(':')
			f.wrongKind()
			continue
		}
		fv := fields[rapid.IntRange(0, len(fields)-1).Draw(t, "field")]
		name := fv.name
		if rapid.IntRange(0, 5).Draw(t, "variant") == 0 {
			name = caseVariant(t, name)
		}
		if avoidF12 && f12Name(dom, name) {
			// (also reachable with the exact name of a dominated field)
			f.excluded = append(f.excluded, clsF12)
			name = "unknown"
		}
		f.sb.WriteString(escapeName(t, name))
		f.space()
		f.sb.WriteByte(':')
		f.space()
		if fv.quoted && rapid.IntRange(0, 9).Draw(t, "unquoted") != 0 {
			f.quoted(fv.typ)
		} else {
			f.value(fv.typ, depth+1, false)
		}
		f.space()
	}
	f.sb.WriteByte('}')
}

// fitDoc returns a document fitted to t.
func fitDoc(t *rapid.T, ft reflect.Type) ([]byte, []string) {
	f := &fitter{t: t, ws: rapid.IntRange(0, 2).Draw(t, "fitws") == 0}
	f.space()
	f.value(ft, 0, true)
	f.space()
	return []byte(f.sb.String()), f.excluded
}

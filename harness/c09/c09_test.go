package c09

import (
	"os"
	"strings"
	"testing"

	"verif/harness/rt"
)

func TestCheck(t *testing.T) {
	e := rt.Setup(t, "C09")
	defer e.Finish()
	rec = e.Rec
	devSwitches()

	rt.Rapid(e, "bytes", 400_000, 2_400_000, genBCase, RunBytes)
	rt.Rapid(e, "unmarshal", 400_000, 2_400_000, genUCase, RunUnmarshal)
	rt.Rapid(e, "marshal", 300_000, 1_800_000, genMCase, RunMarshal)
	rt.Rapid(e, "encoder", 60_000, 360_000, genECase, RunEncoder)
	rt.Rapid(e, "decoder", 300_000, 1_800_000, genDCase, RunDecoder)
}

// devSwitches: C09_NOAVOID=F8,F9 (or "all") turns off the generator avoidance
// of the named known findings. Development aid for re-establishing a finding
// with a shrunk example; it never changes what Run decides.
func devSwitches() {
	v := os.Getenv("C09_NOAVOID")
	if v == "" {
		return
	}
	sw := map[string]*bool{"F4": &avoidF4, "F5": &avoidF5, "F7": &avoidF7, "F8": &avoidF8, "F9": &avoidF9, "F12": &avoidF12, "F13": &avoidF13, "F14": &avoidF14,
		"F15": &avoidF15, "F16": &avoidF16, "F17": &avoidF17, "F18": &avoidF18, "F19": &avoidF19, "F20": &avoidF20, "F21": &avoidF21}
	for _, name := range strings.Split(v, ",") {
		if name == "all" {
			for _, p := range sw {
				*p = false
			}
		} else if p, ok := sw[name]; ok {
			*p = false
		}
	}
}

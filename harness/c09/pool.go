package c09

import (
	"errors"
	"reflect"
	"strconv"
	"strings"
)

// The hand-written pool: named types with marshal/unmarshal methods on value
// and pointer receivers. Each type is defined once; its methods satisfy the
// interfaces of both encoding/json and the v1 package (v1.Marshaler is
// `MarshalJSON() ([]byte, error)`, v1.Unmarshaler is `UnmarshalJSON([]byte) error`,
// text methods come from package encoding), so one definition serves both
// sides. The behaviour of every method is a pure function of the receiver's
// exported fields, which the value filler sets from case data.

var errUser = errors.New("user error")

func userOut(s string) ([]byte, error) {
	if s == "fail" {
		return nil, errUser
	}
	if s == "nilout" {
		return nil, nil
	}
	return []byte(s), nil
}

// userText: text output is the string itself (distinct strings give distinct
// texts, so that map keys never collide).
func userText(s string) ([]byte, error) {
	if s == "fail" {
		return nil, errUser
	}
	return []byte(s), nil
}

var errNilRecv = errors.New("nil receiver")

// PJ: value-receiver MarshalJSON, pointer-receiver UnmarshalJSON.
type PJ struct{ S string }

func (p PJ) MarshalJSON() ([]byte, error) { return userOut(p.S) }
func (p *PJ) UnmarshalJSON(b []byte) error {
	if p == nil {
		return errNilRecv
	}
	if string(b) == `"fail"` {
		return errUser
	}
	p.S += "|" + string(b)
	return nil
}

// PJp: pointer-receiver MarshalJSON and UnmarshalJSON.
type PJp struct{ S string }

func (p *PJp) MarshalJSON() ([]byte, error) { return userOut(p.S) }
func (p *PJp) UnmarshalJSON(b []byte) error {
	if p == nil {
		return errNilRecv
	}
	if string(b) == `"fail"` {
		return errUser
	}
	p.S += "|" + string(b)
	return nil
}

// PT: value-receiver MarshalText, pointer-receiver UnmarshalText.
type PT struct{ S string }

func (p PT) MarshalText() ([]byte, error) { return userText(p.S) }
func (p *PT) UnmarshalText(b []byte) error {
	if p == nil {
		return errNilRecv
	}
	if string(b) == "fail" {
		return errUser
	}
	p.S += "|" + string(b)
	return nil
}

// PTp: pointer-receiver MarshalText and UnmarshalText.
type PTp struct{ S string }

func (p *PTp) MarshalText() ([]byte, error) { return userText(p.S) }
func (p *PTp) UnmarshalText(b []byte) error {
	if p == nil {
		return errNilRecv
	}
	if string(b) == "fail" {
		return errUser
	}
	p.S += "|" + string(b)
	return nil
}

// PJT: all four methods (JSON methods must win).
type PJT struct{ S string }

func (p PJT) MarshalJSON() ([]byte, error) { return userOut(p.S) }
func (p *PJT) UnmarshalJSON(b []byte) error {
	if p == nil {
		return errNilRecv
	}
	p.S += "|J" + string(b)
	return nil
}
func (p PJT) MarshalText() ([]byte, error) { return []byte("text:" + p.S), nil }
func (p *PJT) UnmarshalText(b []byte) error {
	if p == nil {
		return errNilRecv
	}
	p.S += "|T" + string(b)
	return nil
}

// PMo: only a value-receiver MarshalJSON (no unmarshal method).
type PMo struct{ S string }

func (p PMo) MarshalJSON() ([]byte, error) { return userOut(p.S) }

// PUo: only a pointer-receiver UnmarshalJSON (default marshalling).
type PUo struct{ S string }

func (p *PUo) UnmarshalJSON(b []byte) error {
	if p == nil {
		return errNilRecv
	}
	if string(b) == `"fail"` {
		return errUser
	}
	p.S += "|" + string(b)
	return nil
}

// KS: string kind with text methods (value / pointer).
type KS string

func (k KS) MarshalText() ([]byte, error) { return []byte("ks:" + string(k)), nil }
func (k *KS) UnmarshalText(b []byte) error {
	if string(b) == "fail" {
		return errUser
	}
	*k = KS("got:" + string(b))
	return nil
}

// KI: int kind with text methods.
type KI int

func (k KI) MarshalText() ([]byte, error) { return []byte("ki" + strconv.Itoa(int(k))), nil }
func (k *KI) UnmarshalText(b []byte) error {
	n, err := strconv.Atoi(strings.TrimPrefix(string(b), "ki"))
	if err != nil {
		return err
	}
	*k = KI(n)
	return nil
}

// KT: struct kind with value-receiver MarshalText and pointer UnmarshalText.
type KT struct{ A, B int8 }

func (k KT) MarshalText() ([]byte, error) {
	return []byte(strconv.Itoa(int(k.A)) + ":" + strconv.Itoa(int(k.B))), nil
}
func (k *KT) UnmarshalText(b []byte) error {
	x, y, ok := strings.Cut(string(b), ":")
	if !ok {
		return errUser
	}
	a, err := strconv.ParseInt(x, 10, 8)
	if err != nil {
		return err
	}
	c, err := strconv.ParseInt(y, 10, 8)
	if err != nil {
		return err
	}
	k.A, k.B = int8(a), int8(c)
	return nil
}

// KTm: struct kind, marshal-only text key.
type KTm struct{ A int8 }

func (k KTm) MarshalText() ([]byte, error) {
	if k.A == 13 {
		return nil, errUser
	}
	return []byte("m" + strconv.Itoa(int(k.A))), nil
}

// Named kinds without methods.
type NStr string
type NInt int16
type NBool bool
type NFloat float64
type NSlice []int
type NMap map[string]int
type NBytes []byte
type NByte uint8
type NPtr *int

// SJ: slice kind with value-receiver MarshalJSON and pointer UnmarshalJSON.
type SJ []int

func (s SJ) MarshalJSON() ([]byte, error) {
	return []byte(`{"len":` + strconv.Itoa(len(s)) + `,"nil":` + strconv.FormatBool(s == nil) + `}`), nil
}
func (s *SJ) UnmarshalJSON(b []byte) error {
	*s = append(*s, len(b))
	return nil
}

// MJ: map kind with value-receiver MarshalJSON.
type MJ map[string]int

func (m MJ) MarshalJSON() ([]byte, error) {
	return []byte(`[` + strconv.Itoa(len(m)) + `,` + strconv.FormatBool(m == nil) + `]`), nil
}

// Plain structs used for embedding and recursion.
type Plain struct {
	A  int    `json:"a"`
	B  string `json:"b,omitempty"`
	Ab bool
}

type plainU struct {
	U  int
	Ab string `json:"ab"`
}

// EmbU embeds an unexported struct type by value.
type EmbU struct {
	plainU
	C int `json:"c"`
}

// EmbUp embeds an unexported struct type by pointer.
type EmbUp struct {
	*plainU
	C int `json:"c"`
}

// EmbP embeds exported structs by value and pointer with a colliding name.
type EmbP struct {
	Plain
	*Deep
	A2 int `json:"a2,string"`
}

type Deep struct {
	A int `json:"a"` // collides with Plain.A at the same depth: both dropped
	D float64
}

// EmbJ embeds a type with methods: the methods are promoted.
type EmbJ struct {
	PJ
	X int
}

// EmbT embeds a text type by pointer.
type EmbT struct {
	*PT
	X int
}

// EmbNS embeds non-struct named types.
type EmbNS struct {
	NInt
	NStr `json:"ns"`
	NMap
	X int
}

// Rec is a recursive type.
type Rec struct {
	V    int             `json:"v,omitempty"`
	Next *Rec            `json:"next,omitempty"`
	Kids []Rec           `json:"kids"`
	M    map[string]*Rec `json:"m,omitempty"`
	I    any             `json:"i"`
}

// Tagged exercises all shared tag options on fixed kinds.
type Tagged struct {
	I   int      `json:"i,string"`
	U   uint8    `json:"u,string,omitempty"`
	F   float32  `json:"f,string"`
	B   bool     `json:"b,string"`
	S   string   `json:"s,string"`
	PI  *int     `json:"pi,string"`
	PS  *string  `json:"ps,string,omitempty"`
	Z   [2]int   `json:"z,omitzero"`
	E   struct{} `json:"e,omitempty"`
	O   []int    `json:"o,omitempty"`
	M   NMap     `json:"m,omitempty"`
	N   any      `json:"n,omitempty"`
	Sk  int      `json:"-"`
	Dsh int      `json:"-,"`
	un  int
}

// ZV / ZP: IsZero methods (value / pointer receiver) for omitzero.
type ZV struct{ N int8 }

func (z ZV) IsZero() bool { return z.N == 7 }

type ZP struct{ N int8 }

func (z *ZP) IsZero() bool { return z.N == 7 }

// ZHolder uses them with omitzero.
type ZHolder struct {
	A ZV  `json:"a,omitzero"`
	B ZP  `json:"b,omitzero"`
	C *ZV `json:"c,omitzero"`
	D *ZP `json:"d,omitzero"`
	E any `json:"e,omitzero"`
}

// IfaceM is a non-empty interface.
type IfaceM interface{ MarshalJSON() ([]byte, error) }

// HasIface holds non-empty interface fields.
type HasIface struct {
	M IfaceM
	A any
}

var poolTypes = map[string]reflect.Type{
	"PJ":       reflect.TypeFor[PJ](),
	"PJp":      reflect.TypeFor[PJp](),
	"PT":       reflect.TypeFor[PT](),
	"PTp":      reflect.TypeFor[PTp](),
	"PJT":      reflect.TypeFor[PJT](),
	"PMo":      reflect.TypeFor[PMo](),
	"PUo":      reflect.TypeFor[PUo](),
	"KS":       reflect.TypeFor[KS](),
	"KI":       reflect.TypeFor[KI](),
	"KT":       reflect.TypeFor[KT](),
	"KTm":      reflect.TypeFor[KTm](),
	"NStr":     reflect.TypeFor[NStr](),
	"NInt":     reflect.TypeFor[NInt](),
	"NBool":    reflect.TypeFor[NBool](),
	"NFloat":   reflect.TypeFor[NFloat](),
	"NSlice":   reflect.TypeFor[NSlice](),
	"NMap":     reflect.TypeFor[NMap](),
	"NBytes":   reflect.TypeFor[NBytes](),
	"NByte":    reflect.TypeFor[NByte](),
	"NPtr":     reflect.TypeFor[NPtr](),
	"SJ":       reflect.TypeFor[SJ](),
	"MJ":       reflect.TypeFor[MJ](),
	"Plain":    reflect.TypeFor[Plain](),
	"EmbU":     reflect.TypeFor[EmbU](),
	"EmbUp":    reflect.TypeFor[EmbUp](),
	"EmbP":     reflect.TypeFor[EmbP](),
	"Deep":     reflect.TypeFor[Deep](),
	"EmbJ":     reflect.TypeFor[EmbJ](),
	"EmbT":     reflect.TypeFor[EmbT](),
	"EmbNS":    reflect.TypeFor[EmbNS](),
	"Rec":      reflect.TypeFor[Rec](),
	"Tagged":   reflect.TypeFor[Tagged](),
	"HasIface": reflect.TypeFor[HasIface](),
	"ZV":       reflect.TypeFor[ZV](),
	"ZP":       reflect.TypeFor[ZP](),
	"ZHolder":  reflect.TypeFor[ZHolder](),
}

// Names in a fixed order (generators must not depend on map order).
var poolNames = []string{"PJ", "PJp", "PT", "PTp", "PJT", "PMo", "PUo", "KS", "KI", "KT", "KTm", "NStr", "NInt", "NBool", "NFloat", "NSlice", "NMap", "NBytes", "NByte", "NPtr",
	"SJ", "MJ", "Plain", "EmbU", "EmbUp", "EmbP", "Deep", "EmbJ", "EmbT", "EmbNS", "Rec", "Tagged", "HasIface", "ZV", "ZP", "ZHolder"}

// Pool types usable as map keys (string / integer kind or text marshalers).
var poolKeyNames = []string{"KS", "KI", "KT", "KTm", "NStr", "NInt", "NByte", "PT"}

// Pool struct types that reflect.StructOf can embed (no methods).
var poolEmbeddable = []string{"Plain", "Deep", "Tagged", "Rec"}

package c09

import (
	"reflect"
	"slices"
	"sort"
	"strings"
	"unicode"
)

// domField is one field of encoding/json's resolved field list for a struct.
type domField struct {
	name   string
	tagged bool
	index  []int
	typ    reflect.Type // field type with one unnamed pointer level removed
	ftyp   reflect.Type // declared field type
	quoted bool         // encoding/json honours `,string` for this field
	strOpt bool         // the tag carries the `string` option
}

func stdValidTag(s string) bool {
	if s == "" {
		return false
	}
	for _, c := range s {
		switch {
		case strings.ContainsRune("!#$%&()*+-./:;<=>?@[]^_{|}~ ", c):
		case !unicode.IsLetter(c) && !unicode.IsDigit(c):
			return false
		}
	}
	return true
}

// stdFields is a transcription of encoding/json's typeFields (field
// discovery through embedding, Go's dominance rules with the json-tag
// tie-break, final order by index sequence). It is used only to classify
// failures and to steer generators, never for a verdict.
func stdFields(t reflect.Type) []domField {
	type qent struct {
		typ   reflect.Type
		index []int
	}
	var current []qent
	next := []qent{{typ: t}}
	var count, nextCount map[reflect.Type]int
	visited := map[reflect.Type]bool{}
	var fields []domField
	for len(next) > 0 {
		current, next = next, current[:0]
		count, nextCount = nextCount, map[reflect.Type]int{}
		for _, f := range current {
			if visited[f.typ] {
				continue
			}
			visited[f.typ] = true
			for i := 0; i < f.typ.NumField(); i++ {
				sf := f.typ.Field(i)
				if sf.Anonymous {
					et := sf.Type
					if et.Kind() == reflect.Pointer {
						et = et.Elem()
					}
					if !sf.IsExported() && et.Kind() != reflect.Struct {
						continue
					}
				} else if !sf.IsExported() {
					continue
				}
				tag := sf.Tag.Get("json")
				if tag == "-" {
					continue
				}
				name, opts, _ := strings.Cut(tag, ",")
				if !stdValidTag(name) {
					name = ""
				}
				index := make([]int, len(f.index)+1)
				copy(index, f.index)
				index[len(f.index)] = i
				ft := sf.Type
				if ft.Name() == "" && ft.Kind() == reflect.Pointer {
					ft = ft.Elem()
				}
				quoted := false
				strOpt := slices.Contains(strings.Split(opts, ","), "string")
				if strOpt {
					switch ft.Kind() {
					case reflect.Bool, reflect.Int, reflect.Int8, reflect.Int16, reflect.Int32, reflect.Int64,
						reflect.Uint, reflect.Uint8, reflect.Uint16, reflect.Uint32, reflect.Uint64, reflect.Uintptr,
						reflect.Float32, reflect.Float64, reflect.String:
						quoted = true
					}
				}
				if name != "" || !sf.Anonymous || ft.Kind() != reflect.Struct {
					tagged := name != ""
					if name == "" {
						name = sf.Name
					}
					fld := domField{name: name, tagged: tagged, index: index, typ: ft, ftyp: sf.Type, quoted: quoted, strOpt: strOpt}
					fields = append(fields, fld)
					if count[f.typ] > 1 {
						fields = append(fields, fld)
					}
					continue
				}
				nextCount[ft]++
				if nextCount[ft] == 1 {
					next = append(next, qent{typ: ft, index: index})
				}
			}
		}
	}
	sort.SliceStable(fields, func(i, j int) bool {
		a, b := fields[i], fields[j]
		if a.name != b.name {
			return a.name < b.name
		}
		if len(a.index) != len(b.index) {
			return len(a.index) < len(b.index)
		}
		if a.tagged != b.tagged {
			return a.tagged
		}
		return slices.Compare(a.index, b.index) < 0
	})
	out := fields[:0:0]
	for advance, i := 0, 0; i < len(fields); i += advance {
		fi := fields[i]
		for advance = 1; i+advance < len(fields); advance++ {
			if fields[i+advance].name != fi.name {
				break
			}
		}
		if advance == 1 {
			out = append(out, fi)
			continue
		}
		g := fields[i : i+advance]
		if len(g[0].index) == len(g[1].index) && g[0].tagged == g[1].tagged {
			continue // no dominant field
		}
		out = append(out, g[0])
	}
	sort.SliceStable(out, func(i, j int) bool { return slices.Compare(out[i].index, out[j].index) < 0 })
	return out
}

// f12Name reports whether a member called name, decoded into struct type t,
// has the shape of known finding F12: no resolved field has exactly that
// name, at least two resolved fields match it case-insensitively, and the
// first of them in index order (encoding/json's choice) is not the first in
// breadth-first order (v1's choice).
func f12Name(dom []domField, name string) bool {
	var cands []domField
	for _, f := range dom {
		if f.name == name {
			return false
		}
		if strings.EqualFold(f.name, name) {
			cands = append(cands, f)
		}
	}
	if len(cands) < 2 {
		return false
	}
	bfs := cands[0]
	for _, c := range cands[1:] {
		if len(c.index) < len(bfs.index) || (len(c.index) == len(bfs.index) && slices.Compare(c.index, bfs.index) < 0) {
			bfs = c
		}
	}
	return slices.Compare(bfs.index, cands[0].index) != 0
}

// resolveMember returns the resolved field encoding/json stores a member
// called name into (exact match first, then case-insensitive in index order).
func resolveMember(dom []domField, name string) (domField, bool) {
	for _, f := range dom {
		if f.name == name {
			return f, true
		}
	}
	for _, f := range dom {
		if strings.EqualFold(f.name, name) {
			return f, true
		}
	}
	return domField{}, false
}

package c09

import (
	stdjson "encoding/json"
	"fmt"
	"reflect"
	"sort"
	"strings"

	v1 "github.com/go-json-experiment/json/v1"
	"pgregory.net/rapid"

	"verif/harness/cov"
	"verif/harness/gen"
	"verif/harness/ref"
	"verif/harness/rt"
)

// UCase is one Unmarshal comparison.
type UCase struct {
	Type   TD     `json:"type"`
	Input  []byte `json:"input"`
	PreSet bool   `json:"preset"`         // pre-populate the target from Seed
	Seed   []byte `json:"seed,omitempty"` // entropy for the pre-populated target
	Edits  int    `json:"edits"`          // provenance: number of byte edits applied to a valid text (-1 unrelated)
	Src    string `json:"src,omitempty"`  // provenance: fitted / doc / text
}

func genUCase(t *rapid.T) UCase {
	c := UCase{Type: drawType(t)}
	if avoidF17 && rewriteUndecodableKeys(&c.Type) {
		rec.Excluded(clsF17)
	}
	if avoidF18 && stripStringOption(&c.Type) {
		rec.Excluded(clsF18)
	}
	if avoidF20 && stripStringNamedPtr(&c.Type) {
		rec.Excluded(clsF20)
	}
	st, err := realise(&c.Type, sideStd)
	if err != nil {
		t.Fatalf("generator built an unrealisable type: %v", err)
	}
	switch k := rapid.IntRange(0, 19).Draw(t, "insrc"); {
	case k < 15:
		var ex []string
		c.Input, ex = fitDoc(t, st)
		for _, x := range ex {
			rec.Excluded(x)
		}
		c.Src = "fitted"
	case k < 17:
		c.Input = gen.Doc(t, gen.DocCfg{WS: true, Dups: true, BadUTF8: true, MaxDepth: 3})
		c.Src = "doc"
	default:
		c.Input = gen.Text(t, gen.DocCfg{WS: true, Dups: true, BadUTF8: true, MaxDepth: 3})
		c.Src = "text"
		c.Edits = -1
	}
	unmutated := c.Input
	if c.Src != "text" && rapid.IntRange(0, 5).Draw(t, "mutate") == 0 {
		if rapid.Bool().Draw(t, "oneedit") {
			c.Input = mutate1(t, c.Input)
			c.Edits = 1
		} else {
			c.Input = gen.Mutate(t, c.Input)
			c.Edits = 2
		}
	}
	// Inputs not built by the fitter (or mutated afterwards) can still have
	// the shape of a value-level known finding: fall back to the unmutated
	// text, then to a trivial one.
	for _, fallback := range [][]byte{unmutated, []byte("null")} {
		shapes := docShapes(c.Input, st)
		avoided := false
		for _, sh := range shapes {
			if avoidShape(sh) {
				rec.Excluded(sh)
				avoided = true
			}
		}
		if !avoided {
			break
		}
		c.Input, c.Edits = fallback, 0
	}
	if rapid.IntRange(0, 2).Draw(t, "preset") == 0 {
		c.PreSet = true
		c.Seed = rapid.SliceOfN(rapid.Byte(), 0, 40).Draw(t, "seed")
	}
	return c
}

type uOutcome struct {
	errS, errV error
	panS, panV *rt.PanicErr
	tS, tV     reflect.Value // pointers to the targets
	prS, prV   reflect.Value // pristine copies
	diff       string
}

func (o *uOutcome) failS() bool { return o.errS != nil || o.panS != nil }
func (o *uOutcome) failV() bool { return o.errV != nil || o.panV != nil }

func runUnmarshalOnce(st, vt reflect.Type, in []byte, preset bool, seed []byte) *uOutcome {
	o := &uOutcome{}
	o.tS = newFilled(st, seed, preset, sideStd)
	o.tV = newFilled(vt, seed, preset, sideV1)
	o.prS = newFilled(st, seed, preset, sideStd)
	o.prV = newFilled(vt, seed, preset, sideV1)
	inS := append([]byte(nil), in...)
	inV := append([]byte(nil), in...)
	o.panS = rt.Guard(func() { o.errS = stdjson.Unmarshal(inS, o.tS.Interface()) })
	o.panV = rt.Guard(func() { o.errV = v1.Unmarshal(inV, o.tV.Interface()) })
	if !o.failS() && !o.failV() {
		o.diff = eqValue(o.tS.Elem(), o.tV.Elem(), "$", 0)
	}
	return o
}

func (o *uOutcome) mismatch() string {
	switch {
	case o.panV != nil && o.panS == nil:
		return fmt.Sprintf("v1.Unmarshal panicked (%v), encoding/json returned err=%v", o.panV.Val, o.errS)
	case o.failS() != o.failV():
		return fmt.Sprintf("encoding/json error: %v; v1 error: %v", errOrPanic(o.errS, o.panS), errOrPanic(o.errV, o.panV))
	case o.diff != "":
		return "both succeed, values differ at " + o.diff
	}
	return ""
}

func errOrPanic(err error, p *rt.PanicErr) any {
	if p != nil {
		return fmt.Sprintf("panic: %v", p.Val)
	}
	if err == nil {
		return "<nil>"
	}
	return fmt.Sprintf("%T: %v", err, err)
}

// RunUnmarshal decides one Unmarshal case.
func RunUnmarshal(c UCase) error {
	rec.Eval()
	st, err := realise(&c.Type, sideStd)
	if err != nil {
		rec.Class("u:unrealisable")
		return nil
	}
	vt, err := realise(&c.Type, sideV1)
	if err != nil {
		rec.Class("u:unrealisable")
		return nil
	}
	in := c.Input
	valid := stdjson.Valid(in)
	o := runUnmarshalOnce(st, vt, in, c.PreSet, c.Seed)

	// evidence
	fp := cov.FP([]byte("unmarshal"), []byte(c.Type.String()), in, c.Seed, []byte{b2(c.PreSet)})
	if valid || c.Edits == 1 {
		rec.NonTrivial(fp)
		rec.Sample(fp, func() any {
			return map[string]any{"api": "Unmarshal", "type": c.Type.String(), "input": string(in), "preset": c.PreSet, "std_err": fmt.Sprint(o.errS), "v1_err": fmt.Sprint(o.errV)}
		})
	}
	switch {
	case !valid:
		rec.Class("u:syntax-invalid")
	case o.failS():
		rec.Class("u:valid-semantic-error")
	default:
		rec.Class("u:valid-success")
		if len(in) > 2 && c.Src == "fitted" {
			rec.Class("u:fitted-success")
		}
	}
	if c.PreSet {
		rec.Class("u:preset-target")
	}
	if c.Type.hasFeature() {
		rec.Class("u:type-has-tag-method-embedding")
	}
	if o.errS != nil && o.errV != nil {
		if errName(o.errS) == errName(o.errV) {
			rec.Class("u:same-error-type")
		} else {
			rec.Class("u:different-error-type(not compared)")
		}
	}

	msg := o.mismatch()
	if msg == "" && !valid {
		// syntactically invalid input: v1 target must be untouched
		if d := eqValue(o.prV.Elem(), o.tV.Elem(), "$", 0); d != "" {
			msg = "syntactically invalid input, but v1.Unmarshal modified the target: (pristine vs after) " + d
		}
		if d := eqValue(o.prS.Elem(), o.tS.Elem(), "$", 0); d != "" {
			return fmt.Errorf("harness: encoding/json modified the target on invalid input: %s", d)
		}
	}
	if msg == "" {
		return nil
	}
	full := fmt.Errorf("Unmarshal(%q) into %s (preset=%v): %s", in, c.Type.String(), c.PreSet, msg)
	if valid {
		if cls := classifyUnmarshal(c, st, vt, o); cls != "" {
			return rt.Known(cls, full)
		}
	}
	return full
}

func avoidShape(cls string) bool {
	switch cls {
	case clsF5:
		return avoidF5
	case clsF7:
		return avoidF7
	case clsF12:
		return avoidF12
	case clsF19:
		return avoidF19
	case clsF21:
		return avoidF21
	}
	return false
}

func errName(err error) string {
	s := fmt.Sprintf("%T", err)
	if i := strings.LastIndexByte(s, '.'); i >= 0 {
		s = s[i+1:]
	}
	return s
}

// classifyUnmarshal attributes a disagreement on valid input to a known
// finding. The input/type must have the finding's shape AND the disagreement
// must vanish under a minimal counterfactual: the offending token replaced by
// a harmless one (value-level findings), the member re-spelled with the exact
// name of the field encoding/json picks (F12), or the `,string` option removed
// from the offending field (type-level findings F18, F20).
func classifyUnmarshal(c UCase, st, vt reflect.Type, o *uOutcome) string {
	in := c.Input
	root := parseLoose(in)
	if root == nil {
		return ""
	}
	// type-level findings
	if hasUndecodableKey(&c.Type) && o.errS != nil && !o.failV() {
		if ute, ok := o.errS.(*stdjson.UnmarshalTypeError); ok && ute.Value == "object" && ute.Type.Kind() == reflect.Map {
			return clsF17
		}
	}
	retype := func(strip func(*TD) bool) bool {
		td := cloneTD(&c.Type)
		if !strip(td) {
			return false
		}
		st2, err1 := realise(td, sideStd)
		vt2, err2 := realise(td, sideV1)
		if err1 != nil || err2 != nil {
			return false
		}
		return runUnmarshalOnce(st2, vt2, in, c.PreSet, c.Seed).mismatch() == ""
	}
	if retype(stripStringOption) {
		return clsF18
	}
	if retype(stripStringNamedPtr) {
		return clsF20
	}
	// value-level findings
	var sites []docSite
	docSites(root, st, 0, &sites)
	type edit struct {
		start, end int
		repl       string
	}
	for _, cls := range []string{clsF5, clsF26, clsF7, clsF19, clsF21, clsF12} {
		var edits []edit
		for _, s := range sites {
			if siteShape(s) != cls {
				continue
			}
			switch cls {
			case clsF5, clsF26:
				edits = append(edits, edit{s.val.Start, s.val.End, `"\"x\""`})
			case clsF21:
				edits = append(edits, edit{s.val.Start, s.val.End, `"nul"`})
			case clsF7, clsF19:
				edits = append(edits, edit{s.val.Start, s.val.End, `"1"`})
			case clsF12:
				q, _ := ref.Quote(s.fld.name, false, false)
				edits = append(edits, edit{s.name.Start, s.name.End, q})
			}
		}
		if len(edits) == 0 {
			continue
		}
		sort.Slice(edits, func(i, j int) bool { return edits[i].start > edits[j].start })
		out := append([]byte(nil), in...)
		last := len(in) + 1
		for _, e := range edits {
			if e.end > last {
				continue
			}
			out = append(out[:e.start], append([]byte(e.repl), out[e.end:]...)...)
			last = e.start
		}
		if runUnmarshalOnce(st, vt, out, c.PreSet, c.Seed).mismatch() == "" {
			return cls
		}
	}
	return ""
}

func b2(b bool) byte {
	if b {
		return 1
	}
	return 0
}

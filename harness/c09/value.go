package c09

import (
	stdjson "encoding/json"
	"fmt"
	"math"
	"reflect"
	"strings"
	"time"
	"unicode/utf8"

	v1 "github.com/go-json-experiment/json/v1"
)

// ent is the deterministic "entropy" stream from which values are built. It
// is plain case data ([]byte); missing bytes read as zero so that shrinking
// the slice shrinks the value towards the zero value.
type ent struct {
	b []byte
	i int
	// noBadUTF8 replaces ill-formed UTF-8 in Go strings that the encoder
	// would quote (known finding F13); rawCtx is set while filling a pool
	// type whose string is emitted verbatim by MarshalJSON.
	noBadUTF8  bool
	rawCtx     bool
	sawBadUTF8 bool
}

func (e *ent) next() int {
	if e.i < len(e.b) {
		v := e.b[e.i]
		e.i++
		return int(v)
	}
	return 0
}

func (e *ent) n(k int) int { return e.next() % k }

// str draws a Go string from strPool.
func (e *ent) str() string {
	s := strPool[e.n(len(strPool))]
	if !e.rawCtx && !utf8.ValidString(s) {
		e.sawBadUTF8 = true
		if e.noBadUTF8 {
			return strings.ToValidUTF8(s, "?")
		}
	}
	return s
}

var intPool = []int64{0, 1, -1, 2, 7, 10, 42, 100, 127, 128, -128, -129, 255, 256, 32767, 32768, -32768, 65535, 65536, 2147483647, 2147483648, -2147483648,
	4294967295, 4294967296, 9007199254740991, 9007199254740993, math.MaxInt64, math.MinInt64, 1000000, 123456789}

var floatPool = []float64{0, 1, -1, 0.5, 1.5, 100, 1e6, 1e20, 1e21, 1e-6, 1e-7, 0.1, 5e-324, math.MaxFloat64, math.MaxFloat32, 3.4028235677973366e38, 9007199254740993,
	math.Copysign(0, -1), 123456789, 1e-5, 0.000001, 1e22, 16777217, 3.141592653589793, math.NaN(), math.Inf(1), math.Inf(-1), -1e-7, 1e300, 2.5}

var strPool = []string{"", "a", "b", "ab", "Ab", "<&>", "\u2028\u2029", "\u2029", "a\u2029b", "\u2028", "\u00e9", "\xff", "a\xc0b", "\"\\", "\x00\x1f", "\x7f", "\u65e5\u672c", "\U0001f600", "null", "true", "1", "\xed\xa0\x80",
	"-1.5", "fail", "nilout", `{"a":1}`, ` [1, 2] `, `"<"`, `{"a":1,"a":2}`, "[", `"x"`, "{\n \"k\" : [ ] }", "\"\xff\"", "1 2", `"\u003c\u2028"`, "key", "\u212a", "a b", "\t\n\r\b\f", "0", "12", "-0", "+1", "1e2", "tru",
	"2006-01-02T15:04:05Z", "Zm9v", "ki3", "3:4", "\"a\\u00e9\\ud83d\\ude00\"", "\"\\ud800\"", "{\"\\u0061\":1,\"a\":2}", " 1 ", "\"a\"\n", "\uff5e", "\uff5e\U0001f600", "\ue000", "Z", "z", "_", "a_b", "A-B"}

var numStrs = []string{"", "0", "1", "-1", "1.5", "1e2", "abc", "1 ", "0x1", "-", "01", "1.0", "9007199254740993", "-0", "1E+2", "Infinity", "123456789012345678901234567890", "1e999", ".5", "1.", "+1", "\"1\"", "NaN"}

var rawStrs = []string{"\x00nil", "", "null", "1", " 1 ", `{"a":1}`, `{ "a" : [1, 2] }`, `"<>&"`, "\"\u2028\"", "[", `{"a":1,"a":2}`, "\"\xff\"", "tru", `"\u003c"`, "1 2", "\n{\n}\n", "\"\\ud800\"", `"x"`, "true", "[ ]", "-0", "1.0e+1",
	"\"\\u00e9\\/\"", "{\"b\":1,\"a\":2}", "[1,[2,{\"x\":null}]]", "nul", "\"a\tb\"", "\"\x7f\""}

// numberValue builds the side's Number.
func numberValue(side int, s string) reflect.Value {
	if side == sideStd {
		return reflect.ValueOf(stdjson.Number(s))
	}
	return reflect.ValueOf(v1.Number(s))
}

func rawValue(side int, s string) reflect.Value {
	if s == "\x00nil" {
		if side == sideStd {
			return reflect.ValueOf(stdjson.RawMessage(nil))
		}
		return reflect.ValueOf(v1.RawMessage(nil))
	}
	if side == sideStd {
		return reflect.ValueOf(stdjson.RawMessage([]byte(s)))
	}
	return reflect.ValueOf(v1.RawMessage([]byte(s)))
}

var timePool = []time.Time{
	{},
	time.Date(2006, 1, 2, 15, 4, 5, 0, time.UTC),
	time.Date(2006, 1, 2, 15, 4, 5, 123456789, time.FixedZone("", 3600)),
	time.Date(10000, 1, 1, 0, 0, 0, 0, time.UTC),
	time.Date(-1, 1, 1, 0, 0, 0, 0, time.UTC),
	time.Date(1999, 12, 31, 23, 59, 59, 999000000, time.FixedZone("x", -7*3600-30*60)),
	time.Date(2020, 2, 29, 0, 0, 0, 0, time.FixedZone("odd", 3601)),
}

// fill sets v (settable) from the entropy stream. The structure of the walk
// depends only on the type's shape, which is the same on both sides, so the
// same stream yields corresponding values.
func fill(v reflect.Value, e *ent, side int, depth int) {
	t := v.Type()
	switch t {
	case stdNumberT, v1NumberT:
		v.SetString(numStrs[e.n(len(numStrs))])
		return
	case stdRawT, v1RawT:
		v.Set(rawValue(side, rawStrs[e.n(len(rawStrs))]))
		return
	case timeT:
		v.Set(reflect.ValueOf(timePool[e.n(len(timePool))]))
		return
	}
	switch t.Kind() {
	case reflect.Bool:
		v.SetBool(e.n(2) == 1)
	case reflect.Int, reflect.Int8, reflect.Int16, reflect.Int32, reflect.Int64:
		v.SetInt(intPool[e.n(len(intPool))])
	case reflect.Uint, reflect.Uint8, reflect.Uint16, reflect.Uint32, reflect.Uint64, reflect.Uintptr:
		v.SetUint(uint64(intPool[e.n(len(intPool))]))
	case reflect.Float32, reflect.Float64:
		v.SetFloat(floatPool[e.n(len(floatPool))])
	case reflect.String:
		v.SetString(e.str())
	case reflect.Interface:
		if t.NumMethod() == 0 {
			if x := fillAny(e, side, depth); x.IsValid() {
				v.Set(x)
			}
		} else {
			// non-empty interface (IfaceM): nil, PJ value or *PJp
			switch e.n(3) {
			case 1:
				x := reflect.New(poolTypes["PJ"]).Elem()
				fill(x, e, side, depth+1)
				if x.Type().Implements(t) {
					v.Set(x)
				}
			case 2:
				x := reflect.New(poolTypes["PJp"])
				fill(x.Elem(), e, side, depth+1)
				if x.Type().Implements(t) {
					v.Set(x)
				}
			}
		}
	case reflect.Pointer:
		if depth > 5 || e.n(3) == 0 {
			return
		}
		p := reflect.New(t.Elem())
		fill(p.Elem(), e, side, depth+1)
		v.Set(p)
	case reflect.Slice:
		n := e.n(5) // 0 nil, 1 empty, 2..4 -> 1..3 elements
		if depth > 5 && n > 1 {
			n = 1
		}
		switch n {
		case 0:
		case 1:
			v.Set(reflect.MakeSlice(t, 0, 0))
		default:
			s := reflect.MakeSlice(t, n-1, n-1+e.n(2)) // sometimes spare capacity
			for i := 0; i < n-1; i++ {
				fill(s.Index(i), e, side, depth+1)
			}
			v.Set(s)
		}
	case reflect.Array:
		for i := 0; i < t.Len(); i++ {
			fill(v.Index(i), e, side, depth+1)
		}
	case reflect.Map:
		n := e.n(5)
		if depth > 5 && n > 1 {
			n = 1
		}
		switch n {
		case 0:
		case 1:
			v.Set(reflect.MakeMap(t))
		default:
			m := reflect.MakeMap(t)
			for i := 0; i < n-1; i++ {
				k := reflect.New(t.Key()).Elem()
				fill(k, e, side, depth+1)
				x := reflect.New(t.Elem()).Elem()
				fill(x, e, side, depth+1)
				m.SetMapIndex(k, x)
			}
			v.Set(m)
		}
	case reflect.Struct:
		if t.PkgPath() == pkgPath {
			switch t.Name() {
			case "PJ", "PJT", "PMo": // value receivers: the method is always used
				// S is emitted verbatim by MarshalJSON
				old := e.rawCtx
				e.rawCtx = true
				defer func() { e.rawCtx = old }()
			}
		}
		for i := 0; i < t.NumField(); i++ {
			f := v.Field(i)
			if !f.CanSet() {
				continue
			}
			sf := t.Field(i)
			if sf.Anonymous && sf.Type.Kind() == reflect.Pointer && !sf.IsExported() {
				continue
			}
			fill(f, e, side, depth+1)
		}
	}
}

// fillAny picks a dynamic value for an empty interface.
func fillAny(e *ent, side int, depth int) reflect.Value {
	k := e.n(20)
	if depth > 4 && k >= 5 {
		k %= 5
	}
	mk := func(t reflect.Type, ptr bool) reflect.Value {
		p := reflect.New(t)
		fill(p.Elem(), e, side, depth+1)
		if ptr {
			return p
		}
		return p.Elem()
	}
	switch k {
	case 0:
		return reflect.Value{} // nil
	case 1:
		return reflect.ValueOf(e.n(2) == 1)
	case 2:
		return reflect.ValueOf(floatPool[e.n(len(floatPool))])
	case 3:
		return reflect.ValueOf(e.str())
	case 4:
		return reflect.ValueOf(int(intPool[e.n(len(intPool))]))
	case 5:
		return mk(reflect.TypeFor[[]any](), false)
	case 6:
		return mk(reflect.TypeFor[map[string]any](), false)
	case 7:
		return numberValue(side, numStrs[e.n(len(numStrs))])
	case 8:
		return rawValue(side, rawStrs[e.n(len(rawStrs))])
	case 9:
		return mk(reflect.TypeFor[int](), true)
	case 10:
		return mk(poolTypes["Plain"], true)
	case 11:
		return mk(poolTypes["Plain"], false)
	case 12:
		return mk(poolTypes["PJ"], e.n(2) == 1)
	case 13:
		return mk(poolTypes["PJp"], e.n(2) == 1)
	case 14:
		return mk(poolTypes["PT"], e.n(2) == 1)
	case 15:
		return reflect.Zero(reflect.TypeFor[*int]()) // typed nil pointer
	case 16:
		return mk(reflect.TypeFor[[]byte](), false)
	case 17:
		return mk(reflect.TypeFor[map[string]any](), true)
	case 18:
		return mk(reflect.TypeFor[*any](), false)
	default:
		return mk(reflect.TypeFor[[2]uint8](), false)
	}
}

// newFilled returns a pointer to a fresh value of type t; if fillIt, the
// value is pre-populated from seed.
func newFilled(t reflect.Type, seed []byte, fillIt bool, side int) reflect.Value {
	p := reflect.New(t)
	if fillIt {
		fill(p.Elem(), &ent{b: seed}, side, 0)
	}
	return p
}

// newFilledOpt is newFilled with the F13 avoidance switch; it also reports
// whether an ill-formed string was drawn for a quoted position.
func newFilledOpt(t reflect.Type, seed []byte, side int, noBadUTF8 bool) (reflect.Value, bool) {
	p := reflect.New(t)
	e := &ent{b: seed, noBadUTF8: noBadUTF8}
	fill(p.Elem(), e, side, 0)
	return p, e.sawBadUTF8
}

// ---------------------------------------------------------------------------
// Parallel comparison of a std-side value with a v1-side value.

func correspondingTypes(a, b reflect.Type) bool {
	if a == b {
		return true
	}
	if (a == stdNumberT && b == v1NumberT) || (a == v1NumberT && b == stdNumberT) {
		return true
	}
	if (a == stdRawT && b == v1RawT) || (a == v1RawT && b == stdRawT) {
		return true
	}
	if a.Kind() != b.Kind() || a.Name() != "" || b.Name() != "" {
		return false
	}
	switch a.Kind() {
	case reflect.Pointer, reflect.Slice:
		return correspondingTypes(a.Elem(), b.Elem())
	case reflect.Array:
		return a.Len() == b.Len() && correspondingTypes(a.Elem(), b.Elem())
	case reflect.Map:
		return correspondingTypes(a.Key(), b.Key()) && correspondingTypes(a.Elem(), b.Elem())
	case reflect.Struct:
		if a.NumField() != b.NumField() {
			return false
		}
		for i := 0; i < a.NumField(); i++ {
			fa, fb := a.Field(i), b.Field(i)
			if fa.Name != fb.Name || fa.Tag != fb.Tag || fa.Anonymous != fb.Anonymous || !correspondingTypes(fa.Type, fb.Type) {
				return false
			}
		}
		return true
	}
	return false
}

// eqValue walks a and b in parallel and reports the first difference ("" if
// deeply equal). Semantics follow reflect.DeepEqual (nil vs empty slices/maps
// differ) except that NaN equals NaN (pre-populated values may hold NaN) and
// Number/RawMessage of the two packages are compared by content.
func eqValue(a, b reflect.Value, path string, depth int) string {
	if depth > 60 {
		return path + ": too deep"
	}
	if a.IsValid() != b.IsValid() {
		return fmt.Sprintf("%s: validity differs", path)
	}
	if !a.IsValid() {
		return ""
	}
	if !correspondingTypes(a.Type(), b.Type()) {
		return fmt.Sprintf("%s: std has type %v, v1 has type %v", path, a.Type(), b.Type())
	}
	switch a.Kind() {
	case reflect.Bool:
		if a.Bool() != b.Bool() {
			return fmt.Sprintf("%s: std %v, v1 %v", path, a.Bool(), b.Bool())
		}
	case reflect.Int, reflect.Int8, reflect.Int16, reflect.Int32, reflect.Int64:
		if a.Int() != b.Int() {
			return fmt.Sprintf("%s: std %v, v1 %v", path, a.Int(), b.Int())
		}
	case reflect.Uint, reflect.Uint8, reflect.Uint16, reflect.Uint32, reflect.Uint64, reflect.Uintptr:
		if a.Uint() != b.Uint() {
			return fmt.Sprintf("%s: std %v, v1 %v", path, a.Uint(), b.Uint())
		}
	case reflect.Float32, reflect.Float64:
		x, y := a.Float(), b.Float()
		if x != y && !(math.IsNaN(x) && math.IsNaN(y)) {
			return fmt.Sprintf("%s: std %v, v1 %v", path, x, y)
		}
	case reflect.String:
		if a.String() != b.String() {
			return fmt.Sprintf("%s: std %q, v1 %q", path, a.String(), b.String())
		}
	case reflect.Interface:
		if a.IsNil() != b.IsNil() {
			return fmt.Sprintf("%s: std nil=%v, v1 nil=%v (std %v, v1 %v)", path, a.IsNil(), b.IsNil(), show(a), show(b))
		}
		if a.IsNil() {
			return ""
		}
		return eqValue(a.Elem(), b.Elem(), path+".(iface)", depth+1)
	case reflect.Pointer:
		if a.IsNil() != b.IsNil() {
			return fmt.Sprintf("%s: std nil=%v, v1 nil=%v", path, a.IsNil(), b.IsNil())
		}
		if a.IsNil() {
			return ""
		}
		return eqValue(a.Elem(), b.Elem(), path+".*", depth+1)
	case reflect.Slice:
		if a.IsNil() != b.IsNil() {
			return fmt.Sprintf("%s: std nil-slice=%v, v1 nil-slice=%v (len %d vs %d)", path, a.IsNil(), b.IsNil(), a.Len(), b.Len())
		}
		if a.Len() != b.Len() {
			return fmt.Sprintf("%s: std len %d, v1 len %d (std %v, v1 %v)", path, a.Len(), b.Len(), show(a), show(b))
		}
		if a.Type().Elem().Kind() == reflect.Uint8 {
			if string(a.Bytes()) != string(b.Bytes()) {
				return fmt.Sprintf("%s: std %q, v1 %q", path, a.Bytes(), b.Bytes())
			}
			return ""
		}
		for i := 0; i < a.Len(); i++ {
			if d := eqValue(a.Index(i), b.Index(i), fmt.Sprintf("%s[%d]", path, i), depth+1); d != "" {
				return d
			}
		}
	case reflect.Array:
		for i := 0; i < a.Len(); i++ {
			if d := eqValue(a.Index(i), b.Index(i), fmt.Sprintf("%s[%d]", path, i), depth+1); d != "" {
				return d
			}
		}
	case reflect.Map:
		if a.IsNil() != b.IsNil() {
			return fmt.Sprintf("%s: std nil-map=%v, v1 nil-map=%v", path, a.IsNil(), b.IsNil())
		}
		if a.Len() != b.Len() {
			return fmt.Sprintf("%s: std map len %d, v1 map len %d (std %v, v1 %v)", path, a.Len(), b.Len(), show(a), show(b))
		}
		it := a.MapRange()
		for it.Next() {
			k := it.Key()
			kb := k
			if k.Type() != b.Type().Key() {
				if !k.CanConvert(b.Type().Key()) {
					return fmt.Sprintf("%s: key types %v / %v", path, k.Type(), b.Type().Key())
				}
				kb = k.Convert(b.Type().Key())
			}
			vb := b.MapIndex(kb)
			if !vb.IsValid() {
				// NaN-like keys cannot be looked up; none of our key types has them.
				return fmt.Sprintf("%s: key %v present in std only (std %v, v1 %v)", path, show(k), show(a), show(b))
			}
			if d := eqValue(it.Value(), vb, fmt.Sprintf("%s[%v]", path, show(k)), depth+1); d != "" {
				return d
			}
		}
	case reflect.Struct:
		if a.Type() == timeT && a.CanInterface() && b.CanInterface() {
			x := a.Interface().(time.Time)
			y := b.Interface().(time.Time)
			_, xo := x.Zone()
			_, yo := y.Zone()
			if !x.Equal(y) || xo != yo {
				return fmt.Sprintf("%s: std %v, v1 %v", path, x, y)
			}
			return ""
		}
		for i := 0; i < a.NumField(); i++ {
			if d := eqValue(a.Field(i), b.Field(i), path+"."+a.Type().Field(i).Name, depth+1); d != "" {
				return d
			}
		}
	default:
		return fmt.Sprintf("%s: unsupported kind %v", path, a.Kind())
	}
	return ""
}

// show renders a value for messages without calling any user method.
func show(v reflect.Value) string {
	s := showDepth(v, 0)
	if len(s) > 300 {
		s = s[:300] + "..."
	}
	return s
}

func showDepth(v reflect.Value, depth int) string {
	if !v.IsValid() {
		return "<invalid>"
	}
	if depth > 6 {
		return "..."
	}
	switch v.Kind() {
	case reflect.Bool:
		return fmt.Sprint(v.Bool())
	case reflect.Int, reflect.Int8, reflect.Int16, reflect.Int32, reflect.Int64:
		return fmt.Sprint(v.Int())
	case reflect.Uint, reflect.Uint8, reflect.Uint16, reflect.Uint32, reflect.Uint64, reflect.Uintptr:
		return fmt.Sprint(v.Uint())
	case reflect.Float32, reflect.Float64:
		return fmt.Sprint(v.Float())
	case reflect.String:
		return fmt.Sprintf("%q", v.String())
	case reflect.Interface:
		if v.IsNil() {
			return "nil"
		}
		return fmt.Sprintf("(%v)%s", v.Elem().Type(), showDepth(v.Elem(), depth+1))
	case reflect.Pointer:
		if v.IsNil() {
			return "nil"
		}
		return "&" + showDepth(v.Elem(), depth+1)
	case reflect.Slice:
		if v.IsNil() {
			return "nil"
		}
		if v.Type().Elem().Kind() == reflect.Uint8 {
			return fmt.Sprintf("%q", v.Bytes())
		}
		fallthrough
	case reflect.Array:
		s := "["
		for i := 0; i < v.Len(); i++ {
			if i > 0 {
				s += " "
			}
			s += showDepth(v.Index(i), depth+1)
		}
		return s + "]"
	case reflect.Map:
		if v.IsNil() {
			return "nil"
		}
		// order-insensitive rendering is not needed for a verdict; sort by rendered key
		keys := v.MapKeys()
		strs := make([]string, len(keys))
		for i, k := range keys {
			strs[i] = showDepth(k, depth+1) + ":" + showDepth(v.MapIndex(k), depth+1)
		}
		sortStrings(strs)
		s := "map["
		for i, x := range strs {
			if i > 0 {
				s += " "
			}
			s += x
		}
		return s + "]"
	case reflect.Struct:
		s := "{"
		for i := 0; i < v.NumField(); i++ {
			if i > 0 {
				s += " "
			}
			s += v.Type().Field(i).Name + ":" + showDepth(v.Field(i), depth+1)
		}
		return s + "}"
	}
	return "?"
}

func sortStrings(s []string) {
	for i := 1; i < len(s); i++ {
		for j := i; j > 0 && s[j] < s[j-1]; j-- {
			s[j], s[j-1] = s[j-1], s[j]
		}
	}
}

package c09

import (
	"testing"

	"verif/harness/rt"
)

// FuzzUnmarshal lets the native fuzzer drive the "unmarshal" generator (coverage-guided).
func FuzzUnmarshal(f *testing.F) {
	rt.FuzzRapid(f, "C09", "unmarshal", genUCase, RunUnmarshal)
}

// Package c09 decides property C09: package v1 behaves like the classic
// encoding/json. The oracle is the Go standard library's encoding/json of the
// installed toolchain, run in the same process on the same inputs.
package c09

import (
	"bytes"
	stdjson "encoding/json"
	"fmt"
	"time"

	v1 "github.com/go-json-experiment/json/v1"
	"pgregory.net/rapid"

	"verif/harness/cov"
	"verif/harness/gen"
	"verif/harness/rt"
)

var rec = cov.New()

// critBytes / mutate1: one byte-level edit (same edit repertoire as gen.Mutate).
var critBytes = []byte{'"', '\\', '{', '}', '[', ']', ',', ':', ' ', '\n', '\t', '\r', 0x00, 0x1f, 0x7f, 0x80, 0xbf, 0xc0, 0xc2, 0xe0, 0xed, 0xa0, 0xf0, 0xf4, 0x90, 0xff,
	'0', '1', '9', '-', '+', '.', 'e', 'E', 'u', 'n', 't', 'f', 'a', '/', 'd', 'D', 'c', '8', '\f', '\v'}

func mutate1(t *rapid.T, in []byte) []byte {
	b := append([]byte(nil), in...)
	if len(b) == 0 {
		return []byte{rapid.SampledFrom(critBytes).Draw(t, "ins0")}
	}
	pos := rapid.IntRange(0, len(b)-1).Draw(t, "pos")
	switch rapid.IntRange(0, 6).Draw(t, "edit") {
	case 0:
		b[pos] = rapid.SampledFrom(critBytes).Draw(t, "rep")
	case 1:
		c := rapid.SampledFrom(critBytes).Draw(t, "ins")
		b = append(b[:pos], append([]byte{c}, b[pos:]...)...)
	case 2:
		b = append(b[:pos], b[pos+1:]...)
	case 3:
		b = b[:pos]
	case 4:
		b[pos] ^= 1 << uint(rapid.IntRange(0, 7).Draw(t, "bit"))
	case 5:
		b[pos] = rapid.Byte().Draw(t, "byte")
	default:
		b = append(b, rapid.SampledFrom(critBytes).Draw(t, "app"))
	}
	return b
}

// ---------------------------------------------------------------------------
// Byte-level functions: Valid, Compact, Indent, HTMLEscape.

// BCase is one call of a byte-level function.
type BCase struct {
	API    string `json:"api"` // valid | compact | indent | htmlescape
	Input  []byte `json:"input"`
	Prefix string `json:"prefix,omitempty"`
	Indent string `json:"indent,omitempty"`
	Dst    []byte `json:"dst,omitempty"` // initial content of the destination buffer
	Edits  int    `json:"edits"`
}

var indentStrs = []string{"", " ", "\t", "  ", " \t", "    ", ">", "--", "x", "\n", "a b", "é", "\"", "\\", ">\t", " >", "\r", "[", ",", "\x00", "\xff", "//"}

func genBCase(t *rapid.T) BCase {
	c := BCase{API: rapid.SampledFrom([]string{"valid", "compact", "compact", "indent", "indent", "indent", "htmlescape"}).Draw(t, "api")}
	cfg := gen.DocCfg{WS: true, Dups: rapid.Bool().Draw(t, "dups"), BadUTF8: rapid.Bool().Draw(t, "badutf8"), Wide: true, LongStr: true}
	switch k := rapid.IntRange(0, 9).Draw(t, "insrc"); {
	case k < 5:
		c.Input = gen.Doc(t, cfg)
	case k < 7:
		c.Input = mutate1(t, gen.Doc(t, cfg))
		c.Edits = 1
	case k < 8:
		c.Input = gen.Mutate(t, gen.Doc(t, cfg))
		c.Edits = 2
	case k < 9:
		c.Input = gen.Stream(t, cfg)
		c.Edits = -1
	default:
		c.Input = gen.Text(t, cfg)
		c.Edits = -1
	}
	// extra leading/trailing whitespace (Indent preserves trailing whitespace)
	if rapid.IntRange(0, 2).Draw(t, "tail") == 0 {
		c.Input = append(c.Input, rapid.SampledFrom([]string{"\n", " ", "\t", "\r\n", "\n ", " \n", "\n  \n", "\n\t", "\n \t ", "  "}).Draw(t, "tailws")...)
	}
	if c.API == "indent" {
		c.Prefix = rapid.SampledFrom(indentStrs).Draw(t, "prefix")
		c.Indent = rapid.SampledFrom(indentStrs).Draw(t, "indent")
		if avoidF4 && f4HangShape(c.Input, c.Prefix, c.Indent) {
			rec.Excluded(clsF4Hang)
			c.Prefix = blankOf(c.Prefix)
		}
		if avoidF4 && f4Shape(c.Input, c.Prefix, c.Indent) {
			rec.Excluded(clsF4)
			// keep the source, fall back to blank strings of the same length
			c.Prefix = blankOf(c.Prefix)
			c.Indent = blankOf(c.Indent)
		}
	}
	if rapid.IntRange(0, 3).Draw(t, "dst") == 0 {
		c.Dst = []byte(rapid.SampledFrom([]string{"x", "[1,", "\n ", "prefix \n  "}).Draw(t, "dstinit"))
	}
	return c
}

func blankOf(s string) string {
	b := make([]byte, len(s))
	for i := range b {
		b[i] = ' '
	}
	return string(b)
}

// RunBytes decides one byte-level case.
func RunBytes(c BCase) error {
	rec.Eval()
	in := c.Input
	valid := stdjson.Valid(in)
	fp := cov.FP([]byte(c.API), in, []byte(c.Prefix), []byte{0}, []byte(c.Indent), c.Dst)
	if valid || c.Edits == 1 {
		rec.NonTrivial(fp)
		rec.Sample(fp, func() any {
			return map[string]any{"api": c.API, "input": string(in), "prefix": c.Prefix, "indent": c.Indent, "std_valid": valid}
		})
	}
	rec.Class("b:" + c.API)
	if valid {
		rec.Class("b:valid-input")
	} else {
		rec.Class("b:invalid-input")
	}
	inS := append([]byte(nil), in...)
	inV := append([]byte(nil), in...)
	switch c.API {
	case "valid":
		var got bool
		if p := rt.Guard(func() { got = v1.Valid(inV) }); p != nil {
			return fmt.Errorf("v1.Valid(%q) panicked: %v", in, p)
		}
		if got != valid {
			return fmt.Errorf("Valid(%q): encoding/json %v, v1 %v", in, valid, got)
		}
		return nil
	case "htmlescape":
		var bs, bv bytes.Buffer
		bs.Write(c.Dst)
		bv.Write(c.Dst)
		stdjson.HTMLEscape(&bs, inS)
		if p := rt.Guard(func() { v1.HTMLEscape(&bv, inV) }); p != nil {
			return fmt.Errorf("v1.HTMLEscape(%q) panicked: %v", in, p)
		}
		if !bytes.Equal(bs.Bytes(), bv.Bytes()) {
			return fmt.Errorf("HTMLEscape(%q): encoding/json %q, v1 %q", in, bs.Bytes(), bv.Bytes())
		}
		return nil
	case "compact", "indent":
		var bs, bv bytes.Buffer
		bs.Write(c.Dst)
		bv.Write(c.Dst)
		var errS, errV error
		if c.API == "compact" {
			errS = stdjson.Compact(&bs, inS)
			if p := rt.Guard(func() { errV = v1.Compact(&bv, inV) }); p != nil {
				return fmt.Errorf("v1.Compact(%q) panicked: %v", in, p)
			}
		} else {
			if !isBlank(c.Prefix) || !isBlank(c.Indent) {
				rec.Class("b:indent-nonblank")
			}
			errS = stdjson.Indent(&bs, inS, c.Prefix, c.Indent)
			var p *rt.PanicErr
			call := func() { p = rt.Guard(func() { errV = v1.Indent(&bv, inV, c.Prefix, c.Indent) }) }
			if f4HangShape(in, c.Prefix, c.Indent) { // DROP WHEN FIXED (plain call)
				// Known finding F4 (hang variant): the call may never return.
				// Run it on a goroutine that is abandoned after 5 s.
				done := make(chan struct{})
				go func() { call(); close(done) }()
				select {
				case <-done:
				case <-time.After(5 * time.Second):
					return rt.Known(clsF4Hang, fmt.Errorf("v1.Indent(%q, prefix %q, indent %q) does not return within 5s; encoding/json returns (%q, %v)", in, c.Prefix, c.Indent, bs.Bytes(), errS))
				}
			} else {
				call()
			}
			if p != nil {
				return fmt.Errorf("v1.Indent(%q,%q,%q) panicked: %v", in, c.Prefix, c.Indent, p)
			}
		}
		what := fmt.Sprintf("%s(%q, prefix %q, indent %q, dst %q)", c.API, in, c.Prefix, c.Indent, c.Dst)
		if (errS == nil) != (errV == nil) {
			return fmt.Errorf("%s: encoding/json err=%v, v1 err=%v", what, errS, errV)
		}
		if (errS == nil) != valid {
			return fmt.Errorf("harness: %s: encoding/json err=%v but Valid=%v", what, errS, valid)
		}
		// Only the bytes of a successful call are promised to be identical.
		if errS != nil {
			if !bytes.Equal(bs.Bytes(), bv.Bytes()) {
				rec.Class("b:dst-differs-after-failed-call(not compared)")
			}
			return nil
		}
		if !bytes.Equal(bs.Bytes(), bv.Bytes()) {
			full := fmt.Errorf("%s: encoding/json wrote %q, v1 wrote %q", what, bs.Bytes(), bv.Bytes())
			if c.API == "indent" && f4Shape(in, c.Prefix, c.Indent) && f4Outcome(in, bs.Bytes(), bv.Bytes()) { // DROP WHEN FIXED
				return rt.Known(clsF4, full)
			}
			return full
		}
		if !bytes.Equal(in, inV) {
			return fmt.Errorf("%s: v1 modified its source argument: %q", what, inV)
		}
		return nil
	}
	return fmt.Errorf("harness: unknown api %q", c.API)
}

package c09

import (
	"bytes"
	"encoding"
	stdjson "encoding/json"
	"reflect"
	"strconv"
	"strings"

	"verif/harness/ref"
)

// Known-finding classifiers of C09. Each finding has
//   - a classifier name (goes into the `known:` line),
//   - an avoid switch used by the generators (counted with rec.Excluded),
//   - a predicate over the failing case + observed outcome.
//
// F4, F5 and F7 are planned to be fixed in /repo: when that happens set the
// avoid switch to false and delete the classifier call (marked "DROP WHEN
// FIXED"); the regression files then act as plain regression cases.
const (
	clsF4     = "v1-indent-nonblank-rewrites-trailing-ws"         // DROP WHEN FIXED
	clsF4Hang = "v1-indent-nonblank-empty-indent-hangs"           // DROP WHEN FIXED (same root cause as F4)
	clsF5     = "v1-string-option-quoted-null"                    // DROP WHEN FIXED
	clsF7     = "v1-string-option-non-json-number"                // DROP WHEN FIXED
	clsF8     = "more-before-unreadable-token"                    // Decoder.More where the next token is missing (truncated input) or invalid
	clsF9     = "decode-at-object-name"                           // Decoder.Decode where a name is next
	clsF12    = "fold-candidates-bfs-vs-index-order"              // several folded candidates at different depths
	clsF13    = "marshal-invalid-utf8-raw-fffd"                   // Marshal writes U+FFFD raw, encoding/json writes the escape
	clsF14    = "marshal-string-kind-key-calls-marshaltext"       // map key of string kind with MarshalText
	clsF15    = "decode-at-truncated-input-in-container"          // Decoder.Decode at end of input inside a container opened by Token: io.EOF vs io.ErrUnexpectedEOF
	clsF16    = "encoder-escapehtml-off-escapes-js-in-raw-output" // SetEscapeHTML(false): U+2028/9 in RawMessage / MarshalJSON output still escaped
	clsF18    = "string-option-on-unmarshaler-type"               // `,string` on a basic-kind field type with UnmarshalJSON/UnmarshalText: encoding/json strips the quotes first
	clsF19    = "string-option-number-lenient-content"            // `,string` Number field: encoding/json stores unvalidated / doubly quoted / "null" content, v1 validates
	clsF17    = "undecodable-map-key-empty-object"                // Unmarshal {} into a map whose key type cannot be decoded
	clsF21    = "string-option-pointer-quoted-null-non-basic"     // `,string` on a pointer to a non-basic type: v1 nils the pointer for the JSON string "null"
	clsF26    = "string-option-string-lenient-inner-literal"      // `,string` string field whose quoted content is not a strict JSON string (unpaired surrogate escape, ill-formed UTF-8): encoding/json replaces, v1 rejects
	clsF20    = "string-option-on-named-pointer"                  // `,string` on a field of a named pointer type (type P *int): encoding/json ignores the option
)

var (
	avoidF4  = false // repaired in /repo (fix: 4748d28): the shape is generated and must pass
	avoidF5  = false // repaired in /repo (fix: b826759)
	avoidF7  = false // repaired in /repo (fix: 29dbd78)
	avoidF8  = true
	avoidF9  = false // repaired in /repo (fix: c34e777)
	avoidF12 = true
	avoidF13 = true
	avoidF14 = true
	avoidF15 = false // repaired in /repo (fix: af73727)
	avoidF16 = true
	avoidF17 = true
	avoidF18 = true
	avoidF19 = true
	avoidF20 = true
	avoidF21 = true
)

// ---------------------------------------------------------------------------
// Type-level shapes and rewrites (plain TD data).

// mapTD applies f to every node of the description.
func mapTD(td *TD, f func(*TD)) {
	if td == nil {
		return
	}
	f(td)
	mapTD(td.E, f)
	mapTD(td.Key, f)
	for i := range td.F {
		mapTD(&td.F[i].T, f)
	}
}

func cloneTD(td *TD) *TD {
	if td == nil {
		return nil
	}
	c := *td
	c.E = cloneTD(td.E)
	c.Key = cloneTD(td.Key)
	if td.F != nil {
		c.F = make([]FD, len(td.F))
		for i, f := range td.F {
			c.F[i] = f
			c.F[i].T = *cloneTD(&f.T)
			if f.Tag != nil {
				c.F[i].Tag = ptr(*f.Tag)
			}
		}
	}
	return &c
}

// rewriteKeys replaces map keys of string kind that implement
// encoding.TextMarshaler (pool type KS) by the struct-kind text key KT and
// reports whether it changed anything (F14 avoidance, encode side only).
func rewriteKeys(td *TD) bool {
	changed := false
	mapTD(td, func(n *TD) {
		if n.K == "map" && n.Key != nil && n.Key.K == "pool:KS" {
			n.Key.K = "pool:KT"
			changed = true
		}
	})
	return changed
}

func hasStringKindTextKey(td *TD) bool {
	found := false
	mapTD(td, func(n *TD) {
		if n.K == "map" && n.Key != nil && n.Key.K == "pool:KS" {
			found = true
		}
	})
	return found
}

// rewriteUndecodableKeys replaces marshal-only text keys (pool type KTm) by
// KT and reports whether it changed anything (F17 avoidance, decode side).
func rewriteUndecodableKeys(td *TD) bool {
	changed := false
	mapTD(td, func(n *TD) {
		if n.K == "map" && n.Key != nil && n.Key.K == "pool:KTm" {
			n.Key.K = "pool:KT"
			changed = true
		}
	})
	return changed
}

func hasUndecodableKey(td *TD) bool {
	found := false
	mapTD(td, func(n *TD) {
		if n.K == "map" && n.Key != nil && n.Key.K == "pool:KTm" {
			found = true
		}
	})
	return found
}

// stripStringWhere removes the `,string` option from the struct fields whose
// type description satisfies pred (one unnamed pointer level is looked
// through, as both packages do).
func stripStringWhere(td *TD, pred func(k string) bool) bool {
	changed := false
	mapTD(td, func(n *TD) {
		for i := range n.F {
			f := &n.F[i]
			ft := &f.T
			if ft.K == "ptr" && ft.E != nil {
				ft = ft.E
			}
			if f.Tag != nil && pred(ft.K) && hasStringOpt(*f.Tag) {
				f.Tag = ptr(dropStringOpt(*f.Tag))
				changed = true
			}
		}
	})
	return changed
}

func hasStringOpt(tag string) bool {
	_, opts, _ := strings.Cut(tag, ",")
	for _, o := range strings.Split(opts, ",") {
		if o == "string" {
			return true
		}
	}
	return false
}

func dropStringOpt(tag string) string {
	name, opts, _ := strings.Cut(tag, ",")
	var keep []string
	for _, o := range strings.Split(opts, ",") {
		if o != "string" && o != "" {
			keep = append(keep, o)
		}
	}
	if len(keep) == 0 {
		return name
	}
	return name + "," + strings.Join(keep, ",")
}

// F18: `,string` on a basic-kind pool type with unmarshal methods.
func isF18Kind(k string) bool { return k == "pool:KS" || k == "pool:KI" }

// F20: `,string` on the named pointer pool type.
func isF20Kind(k string) bool { return k == "pool:NPtr" }

func stripStringOption(td *TD) bool   { return stripStringWhere(td, isF18Kind) }
func stripStringNamedPtr(td *TD) bool { return stripStringWhere(td, isF20Kind) }

// ---------------------------------------------------------------------------
// F4

func isBlank(s string) bool { return strings.Trim(s, " \t") == "" }

func trailingWS(b []byte) []byte {
	i := len(b)
	for i > 0 && (b[i-1] == ' ' || b[i-1] == '\n' || b[i-1] == '\r' || b[i-1] == '\t') {
		i--
	}
	return b[i:]
}

// f4Shape: Indent with a non-blank prefix or indent on a source whose
// trailing whitespace holds a newline followed by a space.
func f4Shape(src []byte, prefix, indent string) bool {
	if isBlank(prefix) && isBlank(indent) {
		return false
	}
	return strings.Contains(string(trailingWS(src)), "\n ")
}

// f4HangShape: Indent with a non-blank prefix and an empty indent on a source
// (valid or not) in which some newline is followed by more spaces than the
// prefix is long: the fix-up loop of v1.Indent may spin forever (a superset
// of the inputs that actually hang).
func f4HangShape(src []byte, prefix, indent string) bool {
	if indent != "" || isBlank(prefix) {
		return false
	}
	for i := 0; i < len(src); i++ {
		if src[i] != '\n' {
			continue
		}
		n := 0
		for j := i + 1; j < len(src) && src[j] == ' '; j++ {
			n++
		}
		if n > len(prefix) {
			return true
		}
	}
	return false
}

// f4Outcome: outputs agree except inside the copied trailing whitespace.
func f4Outcome(src, want, got []byte) bool {
	n := len(trailingWS(src))
	if len(want) != len(got) || len(want) < n {
		return false
	}
	return string(want[:len(want)-n]) == string(got[:len(got)-n])
}

// ---------------------------------------------------------------------------
// Document/type walk shared by the decode-side classifiers. It follows
// encoding/json's field resolution (stdFields / resolveMember).

// docSite is a place where an object member meets a struct.
type docSite struct {
	name *ref.Node  // member name
	val  *ref.Node  // member value
	dom  []domField // resolved fields of the struct
	fld  domField   // field the member is stored into (if ok)
	ok   bool
}

func docSites(n *ref.Node, t reflect.Type, depth int, out *[]docSite) {
	if n == nil || depth > 40 {
		return
	}
	for t.Kind() == reflect.Pointer {
		t = t.Elem()
	}
	switch t.Kind() {
	case reflect.Struct:
		if n.Kind != '{' || t == timeT {
			return
		}
		pt := reflect.PointerTo(t)
		if pt.Implements(jsonUnmarshalerT) || pt.Implements(textUnmarshalerT) {
			return
		}
		dom := stdFields(t)
		for _, m := range n.Members {
			fld, ok := resolveMember(dom, m.Name.Str)
			*out = append(*out, docSite{name: m.Name, val: m.Value, dom: dom, fld: fld, ok: ok})
			if ok {
				docSites(m.Value, fld.ftyp, depth+1, out)
			}
		}
	case reflect.Map:
		if n.Kind != '{' {
			return
		}
		for _, m := range n.Members {
			docSites(m.Value, t.Elem(), depth+1, out)
		}
	case reflect.Slice, reflect.Array:
		if n.Kind != '[' {
			return
		}
		for _, e := range n.Elems {
			docSites(e, t.Elem(), depth+1, out)
		}
	}
}

func parseLoose(in []byte) *ref.Node {
	n, err := ref.Parse(in, ref.Opt{AllowInvalidUTF8: true, AllowDup: true})
	if err != nil {
		return nil
	}
	return n
}

var (
	textUnmarshalerT = reflect.TypeFor[encoding.TextUnmarshaler]()
	jsonUnmarshalerT = reflect.TypeFor[stdjson.Unmarshaler]()
)

func hasUnmarshalMethod(t reflect.Type) bool {
	if t.Kind() != reflect.Pointer {
		t = reflect.PointerTo(t)
	}
	return t.Implements(textUnmarshalerT) || t.Implements(jsonUnmarshalerT)
}

func isNumberType(t reflect.Type) bool {
	if t.Kind() == reflect.Pointer && t.Name() == "" {
		t = t.Elem()
	}
	return t == stdNumberT || t == v1NumberT
}

func isNumericKind(k reflect.Kind) bool {
	switch k {
	case reflect.Int, reflect.Int8, reflect.Int16, reflect.Int32, reflect.Int64, reflect.Uint, reflect.Uint8, reflect.Uint16, reflect.Uint32, reflect.Uint64, reflect.Uintptr, reflect.Float32, reflect.Float64:
		return true
	}
	return false
}

// f5Content: quoted contents that trigger F5.
func f5Content(decoded string) bool { return decoded == "null" || decoded == `"null"` }

// f7Content: quoted contents that encoding/json rejects by their first byte
// although strconv parses them (+1, .5, Infinity, inf, NaN, ...).
func f7Content(decoded string) bool {
	if decoded == "" {
		return false
	}
	c := decoded[0]
	if c == '-' || (c >= '0' && c <= '9') {
		return false
	}
	_, err := strconv.ParseFloat(decoded, 64)
	if err == nil {
		return true
	}
	if ne, ok := err.(*strconv.NumError); ok && ne.Err == strconv.ErrRange {
		return true
	}
	return false
}

// isJSONNumber reports whether s matches the JSON number grammar.
func isJSONNumber(s string) bool {
	i := 0
	if i < len(s) && s[i] == '-' {
		i++
	}
	switch {
	case i < len(s) && s[i] == '0':
		i++
	case i < len(s) && s[i] >= '1' && s[i] <= '9':
		for i < len(s) && s[i] >= '0' && s[i] <= '9' {
			i++
		}
	default:
		return false
	}
	if i < len(s) && s[i] == '.' {
		i++
		j := i
		for i < len(s) && s[i] >= '0' && s[i] <= '9' {
			i++
		}
		if i == j {
			return false
		}
	}
	if i < len(s) && (s[i] == 'e' || s[i] == 'E') {
		i++
		if i < len(s) && (s[i] == '+' || s[i] == '-') {
			i++
		}
		j := i
		for i < len(s) && s[i] >= '0' && s[i] <= '9' {
			i++
		}
		if i == j {
			return false
		}
	}
	return i == len(s)
}

// f19Content: content of a JSON string that encoding/json stores into (or
// ignores for) a `,string` Number field although it is not a JSON number.
func f19Content(decoded string) bool {
	if decoded == "" || isJSONNumber(decoded) {
		return false
	}
	c := decoded[0]
	return c == '-' || (c >= '0' && c <= '9') || c == '"' || decoded == "null"
}

// f26Content: content of a JSON string that looks like a quoted literal but is
// not a strict JSON string (reference recognizer, default options): the
// lenient unquote of encoding/json may still accept it.
func f26Content(decoded string) bool {
	if len(decoded) < 2 || decoded[0] != '"' {
		return false
	}
	_, err := ref.Parse([]byte(decoded), ref.Opt{})
	return err != nil
}

// siteShape names the value-level known-finding shape of one site ("" if none).
func siteShape(s docSite) string {
	if f12Name(s.dom, s.name.Str) {
		return clsF12
	}
	if s.ok && s.fld.strOpt && !s.fld.quoted && s.val.Kind == '"' && s.val.End-s.val.Start == 6 && s.val.Str == "null" &&
		s.fld.ftyp.Kind() == reflect.Pointer && s.fld.ftyp.Name() == "" {
		return clsF21
	}
	if !s.ok || !s.fld.quoted || s.val.Kind != '"' || hasUnmarshalMethod(s.fld.typ) {
		return ""
	}
	switch {
	case isNumberType(s.fld.typ):
		if f19Content(s.val.Str) {
			return clsF19
		}
	case s.fld.typ.Kind() == reflect.String:
		if f5Content(s.val.Str) {
			return clsF5
		}
		if f26Content(s.val.Str) {
			return clsF26
		}
	case isNumericKind(s.fld.typ.Kind()):
		if f7Content(s.val.Str) {
			return clsF7
		}
	}
	return ""
}

// docShapes lists the value-level known-finding shapes present when in is
// unmarshalled into t.
func docShapes(in []byte, t reflect.Type) []string {
	root := parseLoose(in)
	if root == nil {
		return nil
	}
	var sites []docSite
	docSites(root, t, 0, &sites)
	var out []string
	for _, s := range sites {
		if sh := siteShape(s); sh != "" && !contains(out, sh) {
			out = append(out, sh)
		}
	}
	return out
}

func contains(l []string, s string) bool {
	for _, x := range l {
		if x == s {
			return true
		}
	}
	return false
}

// ---------------------------------------------------------------------------
// F13 / F16 output normalisations.

var (
	rawLS, rawPS = []byte("\xe2\x80\xa8"), []byte("\xe2\x80\xa9")
	escLS, escPS = []byte{'\\', 'u', '2', '0', '2', '8'}, []byte{'\\', 'u', '2', '0', '2', '9'}
	rawFFFD      = []byte("\xef\xbf\xbd")
	escFFFD      = []byte{'\\', 'u', 'f', 'f', 'f', 'd'}
)

// escapeJS rewrites raw U+2028 / U+2029 into their escapes.
func escapeJS(b []byte) []byte {
	return bytes.ReplaceAll(bytes.ReplaceAll(b, rawLS, escLS), rawPS, escPS)
}

func hasRawJS(b []byte) bool { return bytes.Contains(b, rawLS) || bytes.Contains(b, rawPS) }

// unescapeFFFD rewrites the six-byte escape of U+FFFD into the raw character.
func unescapeFFFD(b []byte) []byte { return bytes.ReplaceAll(b, escFFFD, rawFFFD) }

// stripKS removes the "ks:" prefix that KS.MarshalText adds (F14: v1 calls
// MarshalText for map keys of string kind, encoding/json does not).
func stripKS(b []byte) []byte { return bytes.ReplaceAll(b, []byte(`"ks:`), []byte(`"`)) }

package c09

import (
	"bytes"
	stdjson "encoding/json"
	"errors"
	"fmt"
	"reflect"

	v1 "github.com/go-json-experiment/json/v1"
	"pgregory.net/rapid"

	"verif/harness/cov"
	"verif/harness/rt"
)

// MCase is one Marshal / MarshalIndent comparison.
type MCase struct {
	API    string `json:"api"` // marshal | marshalindent
	Type   TD     `json:"type"`
	Seed   []byte `json:"seed"`  // entropy from which the value is built
	ByPtr  bool   `json:"byptr"` // pass &v (addressable) instead of v
	Prefix string `json:"prefix,omitempty"`
	Indent string `json:"indent,omitempty"`
	// NoBadUTF8: ill-formed UTF-8 in quoted Go strings is replaced when the
	// value is built (generator avoidance of known finding F13).
	NoBadUTF8 bool `json:"no_bad_utf8,omitempty"`
}

func genSeed(t *rapid.T) []byte {
	switch rapid.IntRange(0, 9).Draw(t, "seedkind") {
	case 0:
		return nil // zero value
	case 1:
		return rapid.SliceOfN(rapid.Byte(), 0, 8).Draw(t, "seed")
	default:
		return rapid.SliceOfN(rapid.Byte(), 8, 64).Draw(t, "seed")
	}
}

// genEncodeTriple draws (type, seed, noBadUTF8) for the encode side and
// applies the generator avoidance of the encode-side known findings.
func genEncodeTriple(t *rapid.T) (TD, []byte, bool) {
	td := drawType(t)
	seed := genSeed(t)
	if avoidF14 && rewriteKeys(&td) {
		rec.Excluded(clsF14)
	}
	if avoidF20 && stripStringNamedPtr(&td) {
		rec.Excluded(clsF20)
	}
	st, err := realise(&td, sideStd)
	if err != nil {
		t.Fatalf("generator built an unrealisable type: %v", err)
	}
	noBad := false
	if avoidF13 {
		if _, bad := newFilledOpt(st, seed, sideStd, false); bad {
			rec.Excluded(clsF13)
			noBad = true
		}
	}
	return td, seed, noBad
}

func genMCase(t *rapid.T) MCase {
	c := MCase{API: "marshal", ByPtr: rapid.Bool().Draw(t, "byptr")}
	c.Type, c.Seed, c.NoBadUTF8 = genEncodeTriple(t)
	if rapid.IntRange(0, 3).Draw(t, "indent") == 0 {
		c.API = "marshalindent"
		c.Prefix = rapid.SampledFrom(indentStrs).Draw(t, "prefix")
		c.Indent = rapid.SampledFrom(indentStrs).Draw(t, "indentstr")
	}
	return c
}

// buildValue realises the type for one side and builds the value to marshal.
func buildValue(td *TD, seed []byte, byPtr bool, side int, noBadUTF8 bool) (any, error) {
	v, _, err := buildValue2(td, seed, byPtr, side, noBadUTF8)
	return v, err
}

// buildValue2 also reports whether an ill-formed string was drawn for a
// position where the encoder quotes it.
func buildValue2(td *TD, seed []byte, byPtr bool, side int, noBadUTF8 bool) (any, bool, error) {
	t, err := realise(td, side)
	if err != nil {
		return nil, false, err
	}
	p, bad := newFilledOpt(t, seed, side, noBadUTF8)
	if byPtr {
		return p.Interface(), bad, nil
	}
	return p.Elem().Interface(), bad, nil
}

// classifyEncode attributes differing outputs of a successful encode call to
// an encode-side known finding: the value/type must have the finding's shape
// and the outputs must coincide once the finding's effect is normalised away
// (F13, F14) or the `,string` option is removed from the offending field (F20).
func classifyEncode(td *TD, seed []byte, byPtr, noBad bool, bs, bv []byte, marshal func(vs, vv any) ([]byte, []byte, bool)) string {
	_, bad, _ := buildValue2(td, seed, byPtr, sideStd, noBad)
	ks := hasStringKindTextKey(td)
	if bad && !noBad && bytes.Equal(unescapeFFFD(bs), unescapeFFFD(bv)) {
		return clsF13
	}
	if ks && bytes.Equal(stripKS(bs), stripKS(bv)) {
		return clsF14
	}
	if ks && bad && !noBad && bytes.Equal(stripKS(unescapeFFFD(bs)), stripKS(unescapeFFFD(bv))) {
		return clsF14
	}
	td2 := cloneTD(td)
	if stripStringNamedPtr(td2) {
		vs, err1 := buildValue(td2, seed, byPtr, sideStd, noBad)
		vv, err2 := buildValue(td2, seed, byPtr, sideV1, noBad)
		if err1 == nil && err2 == nil {
			if a, b, ok := marshal(vs, vv); ok && bytes.Equal(a, b) {
				return clsF20
			}
		}
	}
	return ""
}

// RunMarshal decides one Marshal case.
func RunMarshal(c MCase) error {
	rec.Eval()
	vs, err := buildValue(&c.Type, c.Seed, c.ByPtr, sideStd, c.NoBadUTF8)
	if err != nil {
		rec.Class("m:unrealisable")
		return nil
	}
	vv, err := buildValue(&c.Type, c.Seed, c.ByPtr, sideV1, c.NoBadUTF8)
	if err != nil {
		rec.Class("m:unrealisable")
		return nil
	}
	var bs, bv []byte
	var errS, errV error
	var panS, panV *rt.PanicErr
	if c.API == "marshalindent" {
		panS = rt.Guard(func() { bs, errS = stdjson.MarshalIndent(vs, c.Prefix, c.Indent) })
		panV = rt.Guard(func() { bv, errV = v1.MarshalIndent(vv, c.Prefix, c.Indent) })
	} else {
		panS = rt.Guard(func() { bs, errS = stdjson.Marshal(vs) })
		panV = rt.Guard(func() { bv, errV = v1.Marshal(vv) })
	}
	fp := cov.FP([]byte(c.API), []byte(c.Type.String()), c.Seed, []byte{b2(c.ByPtr)}, []byte(c.Prefix), []byte{0}, []byte(c.Indent))
	if c.Type.hasFeature() {
		rec.NonTrivial(fp)
		rec.Sample(fp, func() any {
			return map[string]any{"api": c.API, "type": c.Type.String(), "value": show(reflect.ValueOf(vs)), "std_out": string(bs), "std_err": fmt.Sprint(errS)}
		})
	}
	rec.Class("m:" + c.API)
	switch {
	case panS != nil:
		rec.Class("m:std-panics")
	case errS != nil:
		rec.Class("m:std-error")
	default:
		rec.Class("m:std-success")
		if len(bs) > 20 {
			rec.Class("m:std-success-output>20B")
		}
	}
	what := fmt.Sprintf("%s(%s = %s, byptr=%v, prefix %q, indent %q)", c.API, c.Type.String(), show(reflect.ValueOf(vs)), c.ByPtr, c.Prefix, c.Indent)
	if panV != nil && panS == nil {
		return fmt.Errorf("%s: v1 panicked: %v; encoding/json returned %q, %v", what, panV, bs, errS)
	}
	failS, failV := errS != nil || panS != nil, errV != nil || panV != nil
	if failS != failV {
		return fmt.Errorf("%s: encoding/json: %q, %v; v1: %q, %v", what, bs, errOrPanic(errS, panS), bv, errOrPanic(errV, panV))
	}
	if !failS && !bytes.Equal(bs, bv) {
		full := fmt.Errorf("%s:\n encoding/json: %q\n v1:            %q", what, bs, bv)
		cls := classifyEncode(&c.Type, c.Seed, c.ByPtr, c.NoBadUTF8, bs, bv, func(vs, vv any) (a, b []byte, ok bool) {
			var e1, e2 error
			if rt.Guard(func() {
				if c.API == "marshalindent" {
					a, e1 = stdjson.MarshalIndent(vs, c.Prefix, c.Indent)
					b, e2 = v1.MarshalIndent(vv, c.Prefix, c.Indent)
				} else {
					a, e1 = stdjson.Marshal(vs)
					b, e2 = v1.Marshal(vv)
				}
			}) != nil {
				return nil, nil, false
			}
			return a, b, e1 == nil && e2 == nil
		})
		if cls != "" {
			return rt.Known(cls, full)
		}
		return full
	}
	return nil
}

// ---------------------------------------------------------------------------
// Encoder call sequences.

// EOp is one call on an Encoder.
type EOp struct {
	Op        string `json:"op"` // encode | setindent | escapehtml
	Prefix    string `json:"prefix,omitempty"`
	Indent    string `json:"indent,omitempty"`
	On        bool   `json:"on,omitempty"`
	Type      *TD    `json:"type,omitempty"`
	Seed      []byte `json:"seed,omitempty"`
	ByPtr     bool   `json:"byptr,omitempty"`
	NoBadUTF8 bool   `json:"no_bad_utf8,omitempty"`
}

// ECase is a call sequence on one Encoder.
type ECase struct {
	Ops    []EOp `json:"ops"`
	FailAt int   `json:"fail_at,omitempty"` // k >= 1: the k-th Write of each encoder's writer fails once (0 bytes, error)
}

// flakyW is a buffer whose k-th Write fails.
type flakyW struct {
	bytes.Buffer
	calls, failAt int
	fired         bool
}

var errFlaky = errors.New("c09: writer failed")

func (w *flakyW) Write(p []byte) (int, error) {
	w.calls++
	if w.calls == w.failAt {
		w.fired = true
		return 0, errFlaky
	}
	return w.Buffer.Write(p)
}

func genECase(t *rapid.T) ECase {
	n := rapid.IntRange(1, 6).Draw(t, "nops")
	var c ECase
	if rapid.IntRange(0, 3).Draw(t, "flaky") == 0 {
		c.FailAt = rapid.IntRange(1, 4).Draw(t, "failat")
	}
	// encoding/json's Encoder alone is driven alongside to steer around F16.
	var sim bytes.Buffer
	simEnc := stdjson.NewEncoder(&sim)
	html := true
	for i := 0; i < n; i++ {
		switch rapid.IntRange(0, 5).Draw(t, "op") {
		case 0:
			c.Ops = append(c.Ops, EOp{Op: "setindent", Prefix: rapid.SampledFrom(indentStrs).Draw(t, "prefix"), Indent: rapid.SampledFrom(indentStrs).Draw(t, "indent")})
		case 1:
			on := rapid.Bool().Draw(t, "on")
			html = on
			simEnc.SetEscapeHTML(on)
			c.Ops = append(c.Ops, EOp{Op: "escapehtml", On: on})
		default:
			td, seed, noBad := genEncodeTriple(t)
			byPtr := rapid.Bool().Draw(t, "byptr")
			if avoidF16 && !html {
				sim.Reset()
				if v, err := buildValue(&td, seed, byPtr, sideStd, noBad); err == nil {
					rt.Guard(func() { simEnc.Encode(v) })
				}
				if hasRawJS(sim.Bytes()) {
					rec.Excluded(clsF16)
					continue
				}
			}
			c.Ops = append(c.Ops, EOp{Op: "encode", Type: &td, Seed: seed, NoBadUTF8: noBad, ByPtr: byPtr})
		}
	}
	return c
}

// RunEncoder decides one Encoder call sequence.
func RunEncoder(c ECase) error {
	rec.Eval()
	ws, wv := &flakyW{failAt: c.FailAt}, &flakyW{failAt: c.FailAt}
	es := stdjson.NewEncoder(ws)
	ev := v1.NewEncoder(wv)
	feature := false
	html := true
	curPrefix, curIndent := "", ""
	fpParts := [][]byte{[]byte("encoder")}
	var trace []string
	for i, op := range c.Ops {
		switch op.Op {
		case "setindent":
			es.SetIndent(op.Prefix, op.Indent)
			ev.SetIndent(op.Prefix, op.Indent)
			curPrefix, curIndent = op.Prefix, op.Indent
			fpParts = append(fpParts, []byte("I"), []byte(op.Prefix), []byte(op.Indent))
			trace = append(trace, fmt.Sprintf("SetIndent(%q,%q)", op.Prefix, op.Indent))
			rec.Class("e:setindent")
		case "escapehtml":
			es.SetEscapeHTML(op.On)
			ev.SetEscapeHTML(op.On)
			html = op.On
			fpParts = append(fpParts, []byte{'H', b2(op.On)})
			trace = append(trace, fmt.Sprintf("SetEscapeHTML(%v)", op.On))
			rec.Class("e:escapehtml")
		case "encode":
			if op.Type == nil {
				continue
			}
			vs, err := buildValue(op.Type, op.Seed, op.ByPtr, sideStd, op.NoBadUTF8)
			if err != nil {
				rec.Class("e:unrealisable")
				return nil
			}
			vv, err := buildValue(op.Type, op.Seed, op.ByPtr, sideV1, op.NoBadUTF8)
			if err != nil {
				return nil
			}
			feature = feature || op.Type.hasFeature()
			fpParts = append(fpParts, []byte("E"), []byte(op.Type.String()), op.Seed, []byte{b2(op.ByPtr)})
			trace = append(trace, fmt.Sprintf("Encode(%s = %s, byptr=%v)", op.Type.String(), show(reflect.ValueOf(vs)), op.ByPtr))
			var errS, errV error
			lenS, lenV := ws.Len(), wv.Len()
			panS := rt.Guard(func() { errS = es.Encode(vs) })
			panV := rt.Guard(func() { errV = ev.Encode(vv) })
			rec.Class("e:encode")
			what := fmt.Sprintf("Encoder sequence %v, call #%d", trace, i)
			if panV != nil && panS == nil {
				return fmt.Errorf("%s: v1 panicked: %v", what, panV)
			}
			failS, failV := errS != nil || panS != nil, errV != nil || panV != nil
			if failS != failV {
				return fmt.Errorf("%s: encoding/json: %v; v1: %v (written so far %q / %q)", what, errOrPanic(errS, panS), errOrPanic(errV, panV), ws.Bytes(), wv.Bytes())
			}
			if failS && ws.fired && wv.fired {
				// a failed write: both encoders stay failed (or both recover); go on and compare
				rec.Class("e:encode-after-writer-failure")
				if !bytes.Equal(ws.Bytes(), wv.Bytes()) {
					return fmt.Errorf("%s: after a failed write the writers hold different bytes:\n encoding/json: %q\n v1:            %q", what, ws.Bytes(), wv.Bytes())
				}
				continue
			}
			if failS {
				rec.Class("e:encode-error(sequence stops)")
				goto done
			}
			if !bytes.Equal(ws.Bytes(), wv.Bytes()) {
				full := fmt.Errorf("%s: written bytes differ:\n encoding/json: %q\n v1:            %q", what, ws.Bytes(), wv.Bytes())
				if !html && hasRawJS(ws.Bytes()[lenS:]) && bytes.Equal(escapeJS(ws.Bytes()), wv.Bytes()) {
					return rt.Known(clsF16, full)
				}
				// the bytes written before this call were equal: compare the new parts
				cls := classifyEncode(op.Type, op.Seed, op.ByPtr, op.NoBadUTF8, ws.Bytes()[lenS:], wv.Bytes()[lenV:], func(vs, vv any) (a, b []byte, ok bool) {
					// re-run the whole sequence prefix is not needed: encode with fresh
					// encoders carrying the same settings
					var b1, b2 bytes.Buffer
					e1, e2 := stdjson.NewEncoder(&b1), v1.NewEncoder(&b2)
					e1.SetEscapeHTML(html)
					e2.SetEscapeHTML(html)
					e1.SetIndent(curPrefix, curIndent)
					e2.SetIndent(curPrefix, curIndent)
					var r1, r2 error
					if rt.Guard(func() { r1 = e1.Encode(vs); r2 = e2.Encode(vv) }) != nil {
						return nil, nil, false
					}
					return b1.Bytes(), b2.Bytes(), r1 == nil && r2 == nil
				})
				if cls != "" {
					return rt.Known(cls, full)
				}
				return full
			}
		}
	}
done:
	if feature {
		fp := cov.FP(fpParts...)
		rec.NonTrivial(fp)
		rec.Sample(fp, func() any { return map[string]any{"api": "Encoder", "calls": trace, "std_out": ws.String()} })
	}
	return nil
}

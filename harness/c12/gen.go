package c12

import (
	"fmt"
	"math/bits"
	"strings"

	"pgregory.net/rapid"

	"verif/harness/cov"
	"verif/harness/gen"
	"verif/harness/rt"
)

// ------------------------------------------------------------ seed documents

const bsu = "\\" + "u" // backslash-u, spelled so that no tool rewrites it

// seedDocs are the documents of the bounded-exhaustive part: every one of the
// 8192 option subsets is applied to every document through every API.
var seedDocs = [][]byte{
	// 0: unsorted nested objects, empty containers, empty name
	[]byte(`{"b":1,"a":[1,2,{"d":null,"c":true}],"":{},"aa":[]}`),
	// 1: the same kind of text with whitespace everywhere
	[]byte(" { \"k\" : \"v\" ,\n\t\"a\" : [ ] , \"z\" : { } ,\r\n \"c\" : [ 1 , [ 2 ] , { \"y\" : 0 , \"x\" : 1 } ] } "),
	// 2: strings: escapes that are (not) minimal, html and js characters raw and escaped
	[]byte("[\"" + bsu + "003c<>&" + bsu + "0026\", \"\xe2\x80\xa8" + bsu + "2029\", \"\\/" + bsu + "00e9\xc3\xa9\", \"" + bsu + "d83d" + bsu + "DE00\", \"\\t" + bsu + "0009" + bsu + "001F\", \"plain\", \"\x7f\"]"),
	// 3: numbers
	[]byte(`[-0, 0.0, -0.0, 1e0, 1E+2, 999999999999999, 1234567890123456, 9007199254740993, -9007199254740993, 123456789012345678901234, 1e400, -1e400, 0.000001, 1e-7, 1e21, 100, 1.50, 5e-324, 1e-400]`),
	// 4: duplicate names, also duplicates that are identical members and duplicates that differ only in value
	[]byte(`{"a":2,"a":1,"b":0,"a":1,"":[],"":{}}`),
	// 5: names that are duplicates only after decoding; nested unsorted objects with duplicates
	[]byte("{\"" + bsu + "0061\":{\"z\":1,\"y\":2,\"z\":0},\"a\":{\"q\":[{\"b\":1,\"a\":2}]},\"A\":-0}"),
	// 6: ill-formed UTF-8 and lone surrogates in names and values
	[]byte("[\"\xff\", {\"\xffb\":1,\"\xfec\":2,\"" + bsu + "d800\":3}, \"" + bsu + "dc00x\", \"\xed\xa0\x80\"]"),
	// 7: names whose UTF-16 order differs from their UTF-8 order
	[]byte("{\"\xf0\x9f\x98\x80\":1,\"\xef\xbf\xbf\":2,\"\":3,\"a" + bsu + "0000\":4,\"a\":5,\"\xee\x80\x80\":6,\"a\xf0\x90\x80\x80\":7,\"a\xef\xbf\xbd\":8}"),
	// 8: a text that is already in the default Multiline layout
	[]byte("{\n\t\"a\": 1,\n\t\"b\": [\n\t\t2,\n\t\t{}\n\t]\n}"),
	// 9..11: scalars and a literal surrounded by whitespace
	[]byte(`"x<y"`),
	[]byte("  null\n"),
	[]byte(`-0`),
	// 12: deep-ish nesting with unsorted objects on several levels
	[]byte(`[[[{"b":{"d":[{"f":1,"e":{}}],"c":2},"a":[]}]],{"2":2,"10":10,"1":1}]`),
	// 13: canonical text with html characters in names
	[]byte(`{"&":"<","<":">"}`),
	// 14: wide object in descending order (more than 64 members)
	wideSeed(),
}

func wideSeed() []byte {
	var sb strings.Builder
	sb.WriteByte('{')
	for i := 69; i >= 0; i-- {
		fmt.Fprintf(&sb, "\"k%02d\": %d", i, i)
		if i > 0 {
			sb.WriteString(", ")
		}
	}
	sb.WriteByte('}')
	return []byte(sb.String())
}

// subsetOpts turns a 13-bit mask into an option list for an API. Bit i set
// means "option i is passed"; boolean options are passed as true, except
// those the API presets to true, which are passed as false (so that every
// API meets all 8192 effective configurations). The strings of WithIndent and
// WithIndentPrefix rotate deterministically through the four domain strings.
func subsetOpts(api string, mask int, rot int) []Opt {
	preset := map[string]bool{}
	for _, p := range presets(api) {
		preset[p.Name] = p.On
	}
	var out []Opt
	for i, name := range optNames {
		if mask&(1<<i) == 0 {
			continue
		}
		switch name {
		case "WithIndent":
			out = append(out, Opt{Name: name, Str: wsStrings[(rot+bits.OnesCount(uint(mask)))%4]})
		case "WithIndentPrefix":
			out = append(out, Opt{Name: name, Str: wsStrings[(rot+mask/7)%4]})
		default:
			out = append(out, Opt{Name: name, On: !preset[name]})
		}
	}
	return out
}

func enumSubsets(e *rt.Env, yield func(Case) bool) {
	var idx, total int64
	complete := true
loop:
	for di, doc := range seedDocs {
		for ai, api := range apiNames {
			for mask := 0; mask < 1<<13; mask++ {
				idx++
				if !e.Mine(idx) {
					continue
				}
				c := Case{Input: doc, API: api, Opts: subsetOpts(api, mask, di+ai), Spare: (mask % 3) * 40}
				if api == "AppendFormat" {
					c.Alias = (mask + di) % 4
					c.Dst = []byte("[0] ")[:(mask/4)%5]
					c.SrcOff = (mask / 16) % 9
					c.DstLen = (mask / 5) % (c.SrcOff + len(doc) + 1)
				}
				total++
				if !yield(c) {
					complete = false
					break loop
				}
			}
		}
	}
	e.Rec.AddPart(cov.Part{Name: fmt.Sprintf("all 8192 subsets of the 13 formatting options x %d seed documents x %d APIs (this shard's slice)", len(seedDocs), len(apiNames)), Size: total, Complete: complete})
}

// --------------------------------------------------------------- random part

func genOpt(t *rapid.T) Opt {
	name := rapid.SampledFrom(optNames).Draw(t, "opt")
	switch name {
	case "WithIndent", "WithIndentPrefix":
		return Opt{Name: name, Str: rapid.SampledFrom(wsStrings).Draw(t, "ws")}
	}
	return Opt{Name: name, On: rapid.IntRange(0, 3).Draw(t, "on") != 0}
}

func genOpts(t *rapid.T) []Opt {
	switch rapid.IntRange(0, 5).Draw(t, "optshape") {
	case 0:
		return nil
	case 1:
		// a random subset in documentation order
		mask := rapid.IntRange(0, 1<<13-1).Draw(t, "mask")
		return subsetOpts("Format", mask, rapid.IntRange(0, 3).Draw(t, "rot"))
	default:
		return rapid.SliceOfN(rapid.Custom(genOpt), 0, 7).Draw(t, "opts")
	}
}

func genCall(t *rapid.T, in []byte) Case {
	c := Case{Input: in, API: rapid.SampledFrom(apiNames).Draw(t, "api"), Opts: genOpts(t)}
	c.Spare = rapid.SampledFrom([]int{0, 0, 1, 16, 200}).Draw(t, "spare")
	if c.API == "AppendFormat" {
		c.Alias = rapid.IntRange(0, 3).Draw(t, "alias")
		switch c.Alias {
		case 0, 3:
			c.Dst = []byte(rapid.SampledFrom([]string{"", "x", "[1, 2]", "{\"a\":", "\xff\n"}).Draw(t, "dst"))
		case 2:
			c.SrcOff = rapid.IntRange(0, 12).Draw(t, "srcoff")
			c.DstLen = rapid.IntRange(0, c.SrcOff+len(in)).Draw(t, "dstlen")
		}
	}
	return c
}

func genTexts(t *rapid.T) Case {
	cfg := gen.DocCfg{WS: rapid.Bool().Draw(t, "ws"), Wide: true, LongStr: true,
		Dups:    rapid.Bool().Draw(t, "dups"),
		BadUTF8: rapid.IntRange(0, 2).Draw(t, "badutf8") == 0}
	var in []byte
	if rapid.IntRange(0, 2).Draw(t, "valid") == 0 {
		in = gen.Text(t, cfg) // valid, mutated, lexeme soup or bytes
	} else {
		in = gen.Doc(t, cfg)
	}
	return genCall(t, in)
}

// Names for the reorder-focused documents: small alphabet so that duplicates,
// prefixes and UTF-16/UTF-8 order inversions are frequent. Each entry is a
// string-literal body.
var reorderNames = []string{
	"", "a", "b", "aa", "ab", "a" + bsu + "0000", "A", "1", "10", "2",
	bsu + "0061", bsu + "0041", "a\\/", "\\n",
	"\xee\x80\x80", "\xef\xbf\xbf", "\xef\xbf\xbd", "\xf0\x90\x80\x80", "\xf0\x9f\x98\x80", bsu + "d83d" + bsu + "de00", bsu + "ffff", bsu + "E000",
	"a\xee\x80\x80", "a\xf0\x90\x80\x80", "\xed\x9f\xbf", "\xc3\xa9", bsu + "00e9", "<", bsu + "003c", "\xe2\x80\xa8",
}

var reorderBadNames = []string{"\xff", "\xfe", "\xffb", "\xfec", bsu + "d800", bsu + "dc00", "\xed\xa0\x80", "a\xff", "\xc3"}

var reorderScalars = []string{"0", "1", "-0", "1.0", "1e0", "9007199254740993", "null", "true", `""`, `"a"`, `"<"`, "\"" + bsu + "0061\"", "[]", "{}", "[1]", "0.10", "1E2"}

func rws(t *rapid.T, on bool) string {
	if !on || rapid.IntRange(0, 2).Draw(t, "ws?") != 0 {
		return ""
	}
	return rapid.SampledFrom([]string{" ", "\n", "\t", "\r\n", "  ", "\n\t\t", " \n"}).Draw(t, "wsv")
}

func genReorderValue(t *rapid.T, sb *strings.Builder, depth int, ws, bad bool) {
	k := rapid.IntRange(0, 9).Draw(t, "kind")
	if depth <= 0 && k >= 4 {
		k = k % 4
	}
	switch {
	case k < 4:
		sb.WriteString(rapid.SampledFrom(reorderScalars).Draw(t, "scalar"))
	case k < 6:
		sb.WriteByte('[')
		n := rapid.IntRange(0, 3).Draw(t, "nelem")
		for i := 0; i < n; i++ {
			if i > 0 {
				sb.WriteByte(',')
			}
			sb.WriteString(rws(t, ws))
			genReorderValue(t, sb, depth-1, ws, bad)
			sb.WriteString(rws(t, ws))
		}
		if n == 0 {
			sb.WriteString(rws(t, ws))
		}
		sb.WriteByte(']')
	default:
		sb.WriteByte('{')
		n := rapid.IntRange(0, 6).Draw(t, "nmemb")
		var prev []string
		for i := 0; i < n; i++ {
			if i > 0 {
				sb.WriteByte(',')
			}
			sb.WriteString(rws(t, ws))
			var name string
			switch {
			case len(prev) > 0 && rapid.IntRange(0, 5).Draw(t, "dupname") == 0:
				name = rapid.SampledFrom(prev).Draw(t, "prevname") // duplicate name
			case bad && rapid.IntRange(0, 3).Draw(t, "badname") == 0:
				name = rapid.SampledFrom(reorderBadNames).Draw(t, "badnamev")
			default:
				name = rapid.SampledFrom(reorderNames).Draw(t, "name")
			}
			prev = append(prev, name)
			sb.WriteString("\"" + name + "\"")
			sb.WriteString(rws(t, ws))
			sb.WriteByte(':')
			sb.WriteString(rws(t, ws))
			genReorderValue(t, sb, depth-1, ws, bad)
			sb.WriteString(rws(t, ws))
		}
		if n == 0 {
			sb.WriteString(rws(t, ws))
		}
		sb.WriteByte('}')
	}
}

// genReorder draws documents dense in objects whose members have to move:
// duplicate names (also with identical or value-only-different members),
// names in UTF-16-critical order, ill-formed names, nested unsorted objects.
func genReorder(t *rapid.T) Case {
	ws := rapid.Bool().Draw(t, "ws")
	bad := rapid.IntRange(0, 3).Draw(t, "bad") == 0
	var sb strings.Builder
	sb.WriteString(rws(t, ws))
	// force a container at the top
	depth := rapid.IntRange(1, 4).Draw(t, "depth")
	if rapid.Bool().Draw(t, "toparray") {
		sb.WriteByte('[')
		n := rapid.IntRange(1, 3).Draw(t, "ntop")
		for i := 0; i < n; i++ {
			if i > 0 {
				sb.WriteByte(',')
			}
			genReorderValue(t, &sb, depth, ws, bad)
		}
		sb.WriteByte(']')
	} else {
		genReorderValue(t, &sb, depth, ws, bad)
	}
	sb.WriteString(rws(t, ws))
	in := []byte(sb.String())
	if rapid.IntRange(0, 9).Draw(t, "mutate") == 0 {
		in = gen.Mutate(t, in)
	}
	c := genCall(t, in)
	// bias towards the reordering configurations
	switch rapid.IntRange(0, 3).Draw(t, "bias") {
	case 0:
		c.Opts = append(c.Opts, Opt{Name: "ReorderRawObjects", On: true})
	case 1:
		c.Opts = append(c.Opts, Opt{Name: "ReorderRawObjects", On: true}, Opt{Name: "AllowDuplicateNames", On: true}, Opt{Name: "AllowInvalidUTF8", On: true})
	case 2:
		if c.API == "Format" || c.API == "AppendFormat" {
			c.Opts = append(c.Opts, Opt{Name: "AllowDuplicateNames", On: true})
		}
	}
	return c
}

// genLarge draws texts of several KiB (beyond the 4 KiB pooled buffer
// threshold and the 64-byte initial buffer) with many unsorted objects.
func genLarge(t *rapid.T) Case {
	n := rapid.IntRange(20, 400).Draw(t, "n")
	ws := rapid.Bool().Draw(t, "ws")
	var sb strings.Builder
	sb.WriteByte('[')
	for i := 0; i < n; i++ {
		if i > 0 {
			sb.WriteByte(',')
		}
		genReorderValue(t, &sb, 2, ws, false)
	}
	sb.WriteByte(']')
	return genCall(t, []byte(sb.String()))
}

// genDepth draws towers of containers around the documented nesting limit of
// 10000 (the reformatting code has its own depth check, separate from the
// decoder's). Only single-line layouts are used: an indented tower of that
// depth would be tens of megabytes.
func genDepth(t *rapid.T) Case {
	d := rapid.SampledFrom([]int{9999, 10000, 10000, 10001, 10001, 10002}).Draw(t, "depth")
	shape := rapid.IntRange(0, 2).Draw(t, "shape")
	var open, closing strings.Builder
	for i := 0; i < d; i++ {
		obj := shape == 1 || shape == 2 && i%2 == 1
		last := i == d-1
		switch {
		case obj && !last:
			open.WriteString(rapid.SampledFrom([]string{`{"a":`, `{"b":0,"a":`, `{ "":`}).Draw(t, "obj"))
			closing.WriteString("}")
		case obj:
			open.WriteString("{")
			closing.WriteString("}")
		default:
			open.WriteString("[")
			closing.WriteString("]")
		}
	}
	cl := []byte(closing.String())
	for i, j := 0, len(cl)-1; i < j; i, j = i+1, j-1 {
		cl[i], cl[j] = cl[j], cl[i]
	}
	in := append([]byte(open.String()), cl...)
	c := Case{Input: in, API: rapid.SampledFrom([]string{"Format", "Compact", "Canonicalize", "AppendFormat"}).Draw(t, "api")}
	for _, name := range optNames[:10] { // everything but Multiline, WithIndent, WithIndentPrefix
		if rapid.IntRange(0, 3).Draw(t, "has") == 0 {
			c.Opts = append(c.Opts, Opt{Name: name, On: rapid.IntRange(0, 3).Draw(t, "on") != 0})
		}
	}
	if c.API == "AppendFormat" {
		c.Alias = rapid.IntRange(0, 3).Draw(t, "alias")
	}
	return c
}

package c12

import (
	"fmt"

	"verif/harness/ref"
)

// selfTest checks the harness' own machinery (never the library): the
// read-only page, the option model and the reference formatter on layouts
// written by hand from the option documentation.
func selfTest() []string {
	var out []string
	if msg := roSelfTest(); msg != "" {
		out = append(out, msg)
	}
	type tc struct {
		in   string
		api  string
		opts []Opt
		want string
	}
	tests := []tc{
		{` { "a" : [ 1 , 2 ] , "b" : { } } `, "Format", nil, `{"a":[1,2],"b":{}}`},
		{`{"a":[1,2],"b":{}}`, "Indent", nil, "{\n\t\"a\": [\n\t\t1,\n\t\t2\n\t],\n\t\"b\": {}\n}"},
		{`{"a":[1,2]}`, "Format", []Opt{{Name: "WithIndentPrefix", Str: " "}, {Name: "WithIndent", Str: "  "}, {Name: "SpaceAfterComma", On: true}, {Name: "SpaceAfterColon", On: false}},
			"{\n   \"a\":[\n     1, \n     2\n   ]\n }"},
		{`{"a":[1,2]}`, "Format", []Opt{{Name: "WithIndent", Str: " "}, {Name: "Multiline", On: false}, {Name: "SpaceAfterComma", On: true}}, `{"a":[1, 2]}`},
		{`{"b":1,"a":1.0,"c":12345678901234567890}`, "Canonicalize", nil, `{"a":1,"b":1,"c":12345678901234567000}`},
		{`{"b":1,"a":1.0,"c":12345678901234567890}`, "Canonicalize", []Opt{{Name: "CanonicalizeRawInts", On: false}}, `{"a":1,"b":1,"c":12345678901234567890}`},
		{`["` + bsu + `003c<` + bsu + `00e9"]`, "Compact", []Opt{{Name: "EscapeForHTML", On: true}}, `["` + bsu + `003c` + bsu + `003c` + bsu + `00e9"]`},
		{`["` + bsu + `003c<` + bsu + `00e9"]`, "Format", []Opt{{Name: "EscapeForHTML", On: true}}, `["` + bsu + `003c` + bsu + "003c\xc3\xa9\"]"},
	}
	for _, tt := range tests {
		eff := effective(tt.api, tt.opts)
		n, err := ref.Parse([]byte(tt.in), eff.ParseOpt())
		if err != nil {
			out = append(out, fmt.Sprintf("self-test: reference rejects %q: %v", tt.in, err))
			continue
		}
		if got := expected([]byte(tt.in), n, eff).Out; got != tt.want {
			out = append(out, fmt.Sprintf("self-test: reference formatter gives %q for %s on %q, hand-derived expectation %q", got, describe(Case{API: tt.api, Opts: tt.opts}), tt.in, tt.want))
		}
	}
	// the tower oracle against the reference formatter on all small towers
	tr, fa := true, false
	for _, o := range []ref.FmtOpt{{}, {Reorder: true}, {Reorder: true, SpaceAfterColon: &tr, SpaceAfterComma: &tr}, {SpaceAfterComma: &tr, SpaceAfterColon: &fa, CanonInts: true}} {
		for n := 0; n < 4*4*4*2; n++ {
			var in []byte
			x := n / 2
			depth := 1 + n%4
			var closers []byte
			for i := 0; i < depth-1; i++ {
				op := towerOpeners[x%4]
				x /= 4
				in = append(in, op...)
				if op == "[" {
					closers = append(closers, ']')
				} else {
					closers = append(closers, '}')
				}
			}
			if n%2 == 0 {
				in = append(in, "[]"...)
			} else {
				in = append(in, "{}"...)
			}
			for i := len(closers) - 1; i >= 0; i-- {
				in = append(in, closers[i])
			}
			levels, ok := parseTower(in)
			node, err := ref.Parse(in, ref.Opt{})
			if !ok || err != nil || len(levels) != depth {
				out = append(out, fmt.Sprintf("self-test: tower %q: recognised=%v levels=%d want %d, reference error %v", in, ok, len(levels), depth, err))
				continue
			}
			if got, want := string(towerExpected(levels, o)), ref.Format(in, node, o).Out; got != want {
				out = append(out, fmt.Sprintf("self-test: tower oracle gives %q for %q, reference formatter %q", got, in, want))
			}
		}
	}
	return out
}

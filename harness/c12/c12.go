// Package c12 decides property C12: reformatting a raw JSON value
// (Value.Format, Compact, Indent, Canonicalize, AppendFormat) under any subset
// of the 13 formatting options succeeds exactly on the valid inputs, never
// changes what the value means, yields the documented layout, is a fixed
// point of itself, leaves its input alone on error and does not write to an
// already formatted value.
package c12

import (
	"bytes"
	"fmt"
	"strings"

	"github.com/go-json-experiment/json/jsontext"

	"verif/harness/cov"
	"verif/harness/ref"
	"verif/harness/rt"
)

var rec = cov.New()

// Option names, in the order of the jsontext documentation.
var optNames = []string{
	"AllowDuplicateNames", "AllowInvalidUTF8", "EscapeForHTML", "EscapeForJS", "PreserveRawStrings",
	"CanonicalizeRawInts", "CanonicalizeRawFloats", "ReorderRawObjects",
	"SpaceAfterColon", "SpaceAfterComma", "Multiline", "WithIndent", "WithIndentPrefix",
}

// wsStrings are the indent / prefix strings of the domain.
var wsStrings = []string{"", " ", "\t", "  \t"}

// APIs of the domain.
var apiNames = []string{"Format", "Compact", "Indent", "Canonicalize", "AppendFormat"}

// Opt is one option constructor call (plain data).
type Opt struct {
	Name string `json:"name"`
	On   bool   `json:"on,omitempty"`  // argument of the boolean options
	Str  string `json:"str,omitempty"` // argument of WithIndent / WithIndentPrefix
}

// Case is one call.
type Case struct {
	Input []byte `json:"input"`
	API   string `json:"api"`
	Opts  []Opt  `json:"opts"` // in call order (later wins)
	// Extra spare capacity of the Value / dst buffer.
	Spare int `json:"spare,omitempty"`
	// AppendFormat only. Alias: 0 dst and src disjoint, 1 dst = src[:0],
	// 2 dst and src are overlapping windows of one buffer, 3 src is a string.
	Alias  int    `json:"alias,omitempty"`
	Dst    []byte `json:"dst,omitempty"`     // initial content of dst (Alias 0 and 3)
	SrcOff int    `json:"src_off,omitempty"` // Alias 2: src = buf[SrcOff:SrcOff+len(Input)]
	DstLen int    `json:"dst_len,omitempty"` // Alias 2: dst = buf[:DstLen]
}

// cleanWS keeps only the characters an indent string may contain (so that a
// replayed or fuzz-decoded case never triggers the documented panic).
func cleanWS(s string) string {
	if strings.Trim(s, " \t") == "" {
		return s
	}
	var sb strings.Builder
	for i := 0; i < len(s); i++ {
		if s[i] == ' ' || s[i] == '\t' {
			sb.WriteByte(s[i])
		}
	}
	return sb.String()
}

func (o Opt) build() jsontext.Options {
	switch o.Name {
	case "AllowDuplicateNames":
		return jsontext.AllowDuplicateNames(o.On)
	case "AllowInvalidUTF8":
		return jsontext.AllowInvalidUTF8(o.On)
	case "EscapeForHTML":
		return jsontext.EscapeForHTML(o.On)
	case "EscapeForJS":
		return jsontext.EscapeForJS(o.On)
	case "PreserveRawStrings":
		return jsontext.PreserveRawStrings(o.On)
	case "CanonicalizeRawInts":
		return jsontext.CanonicalizeRawInts(o.On)
	case "CanonicalizeRawFloats":
		return jsontext.CanonicalizeRawFloats(o.On)
	case "ReorderRawObjects":
		return jsontext.ReorderRawObjects(o.On)
	case "SpaceAfterColon":
		return jsontext.SpaceAfterColon(o.On)
	case "SpaceAfterComma":
		return jsontext.SpaceAfterComma(o.On)
	case "Multiline":
		return jsontext.Multiline(o.On)
	case "WithIndent":
		return jsontext.WithIndent(cleanWS(o.Str))
	case "WithIndentPrefix":
		return jsontext.WithIndentPrefix(cleanWS(o.Str))
	}
	return nil // unknown names are ignored (nil Options are skipped by the library)
}

func buildOpts(os []Opt) []jsontext.Options {
	out := make([]jsontext.Options, 0, len(os))
	for _, o := range os {
		if b := o.build(); b != nil {
			out = append(out, b)
		}
	}
	return out
}

// presets returns the options the documentation says an API applies before
// the caller's.
func presets(api string) []Opt {
	switch api {
	case "Compact":
		return []Opt{{Name: "AllowDuplicateNames", On: true}, {Name: "AllowInvalidUTF8", On: true}, {Name: "PreserveRawStrings", On: true}}
	case "Indent":
		return []Opt{{Name: "AllowDuplicateNames", On: true}, {Name: "AllowInvalidUTF8", On: true}, {Name: "PreserveRawStrings", On: true}, {Name: "Multiline", On: true}}
	case "Canonicalize":
		return []Opt{{Name: "CanonicalizeRawInts", On: true}, {Name: "CanonicalizeRawFloats", On: true}, {Name: "ReorderRawObjects", On: true}}
	}
	return nil
}

// apply folds one option into o with the documented last-wins rule;
// WithIndent and WithIndentPrefix imply Multiline(true) at their position.
func apply(o *ref.FmtOpt, p Opt) {
	on := p.On
	switch p.Name {
	case "AllowDuplicateNames":
		o.AllowDup = on
	case "AllowInvalidUTF8":
		o.AllowInvalidUTF8 = on
	case "EscapeForHTML":
		o.EscapeHTML = on
	case "EscapeForJS":
		o.EscapeJS = on
	case "PreserveRawStrings":
		o.PreserveRaw = on
	case "CanonicalizeRawInts":
		o.CanonInts = on
	case "CanonicalizeRawFloats":
		o.CanonFloats = on
	case "ReorderRawObjects":
		o.Reorder = on
	case "SpaceAfterColon":
		o.SpaceAfterColon = &on
	case "SpaceAfterComma":
		o.SpaceAfterComma = &on
	case "Multiline":
		o.Multiline = on
	case "WithIndent":
		s := cleanWS(p.Str)
		o.Indent = &s
		o.Multiline = true
	case "WithIndentPrefix":
		o.Prefix = cleanWS(p.Str)
		o.Multiline = true
	}
}

// effective folds the API's presets and then the caller's options ("Compact
// is equivalent to calling Format with the following options ... Any options
// specified by the caller are applied after the initial set").
func effective(api string, opts []Opt) ref.FmtOpt {
	var o ref.FmtOpt
	for _, p := range presets(api) {
		apply(&o, p)
	}
	for _, p := range opts {
		apply(&o, p)
	}
	return o
}

// layout is the resolved whitespace configuration of o.
func layout(o ref.FmtOpt) (multi, colon, comma bool, indent, prefix string) {
	multi = o.Multiline
	colon = o.Multiline
	if o.SpaceAfterColon != nil {
		colon = *o.SpaceAfterColon
	}
	if o.SpaceAfterComma != nil {
		comma = *o.SpaceAfterComma
	}
	if multi {
		indent = "\t"
		if o.Indent != nil {
			indent = *o.Indent
		}
		prefix = o.Prefix
	}
	return
}

func describe(c Case) string {
	var sb strings.Builder
	sb.WriteString(c.API)
	sb.WriteByte('(')
	for i, o := range c.Opts {
		if i > 0 {
			sb.WriteByte(',')
		}
		switch o.Name {
		case "WithIndent", "WithIndentPrefix":
			fmt.Fprintf(&sb, "%s(%q)", o.Name, cleanWS(o.Str))
		default:
			fmt.Fprintf(&sb, "%s(%v)", o.Name, o.On)
		}
	}
	sb.WriteByte(')')
	if c.API == "AppendFormat" {
		fmt.Fprintf(&sb, " alias=%d", c.Alias)
	}
	return sb.String()
}

func q(b []byte) string {
	if len(b) > 600 {
		return fmt.Sprintf("%q...(%d bytes)", b[:600], len(b))
	}
	return fmt.Sprintf("%q", b)
}

// call performs the API call of the case on private copies of the data.
// before is what the documentation says is returned/left on error; got is
// what the call left in the Value (or returned from AppendFormat); prefixLen
// is the length of the dst part that precedes the formatted value in got.
func call(c Case, opts []jsontext.Options) (got, before []byte, prefixLen int, err error, perr *rt.PanicErr) {
	in := c.Input
	spare := min(max(c.Spare, 0), 256)
	if c.API != "AppendFormat" {
		buf := make([]byte, len(in), len(in)+spare)
		copy(buf, in)
		v := jsontext.Value(buf)
		perr = rt.Guard(func() {
			switch c.API {
			case "Format":
				err = v.Format(opts...)
			case "Compact":
				err = v.Compact(opts...)
			case "Indent":
				err = v.Indent(opts...)
			case "Canonicalize":
				err = v.Canonicalize(opts...)
			default:
				err = v.Format(opts...)
			}
		})
		return []byte(v), in, 0, err, perr
	}
	switch c.Alias {
	case 1: // dst = src[:0]
		buf := make([]byte, len(in), len(in)+spare)
		copy(buf, in)
		var out []byte
		perr = rt.Guard(func() { out, err = jsontext.AppendFormat(buf[:0], buf, opts...) })
		return out, in, 0, err, perr
	case 2: // overlapping windows of one buffer
		off := min(max(c.SrcOff, 0), 64)
		buf := make([]byte, off+len(in), off+len(in)+spare)
		for i := 0; i < off; i++ {
			buf[i] = "[1, 2 ,{} ]\t"[i%12]
		}
		copy(buf[off:], in)
		k := min(max(c.DstLen, 0), len(buf))
		want := append(append([]byte(nil), buf[:k]...), in...)
		var out []byte
		perr = rt.Guard(func() { out, err = jsontext.AppendFormat(buf[:k], buf[off:], opts...) })
		return out, want, k, err, perr
	case 3: // string source
		dst := make([]byte, len(c.Dst), len(c.Dst)+spare)
		copy(dst, c.Dst)
		want := append(append([]byte(nil), c.Dst...), in...)
		s := string(in)
		var out []byte
		perr = rt.Guard(func() { out, err = jsontext.AppendFormat(dst, s, opts...) })
		return out, want, len(c.Dst), err, perr
	default:
		dst := make([]byte, len(c.Dst), len(c.Dst)+spare)
		copy(dst, c.Dst)
		src := append([]byte(nil), in...)
		want := append(append([]byte(nil), c.Dst...), in...)
		var out []byte
		perr = rt.Guard(func() { out, err = jsontext.AppendFormat(dst, src, opts...) })
		return out, want, len(c.Dst), err, perr
	}
}

// Run decides one case.
func Run(c Case) error {
	rec.Eval()
	in := c.Input
	eff := effective(c.API, c.Opts)
	opts := buildOpts(c.Opts)
	desc := describe(c)

	node, rerr := ref.Parse(in, eff.ParseOpt())
	classify(c, eff, node, rerr)

	got, before, k, err, perr := call(c, opts)
	if perr != nil {
		return fmt.Errorf("%s panicked on %s: %v", desc, q(in), perr)
	}

	// ---- success iff valid under the effective options
	if rerr != nil {
		if err == nil {
			return fmt.Errorf("%s accepted %s (result %s) but the input is not valid under the effective options (AllowInvalidUTF8=%v AllowDuplicateNames=%v): %v",
				desc, q(in), q(got), eff.AllowInvalidUTF8, eff.AllowDup, rerr)
		}
		if !bytes.Equal(got, before) {
			if c.API == "AppendFormat" {
				return fmt.Errorf("%s failed (%v) but returned %s instead of dst++src = %s", desc, err, q(got), q(before))
			}
			return fmt.Errorf("%s failed (%v) but changed the value from %s to %s", desc, err, q(in), q(got))
		}
		return nil
	}
	if err != nil {
		return fmt.Errorf("%s rejected %s, which is valid under the effective options (AllowInvalidUTF8=%v AllowDuplicateNames=%v): %v",
			desc, q(in), eff.AllowInvalidUTF8, eff.AllowDup, err)
	}
	if c.API == "AppendFormat" {
		if len(got) < k || !bytes.Equal(got[:k], before[:k]) {
			return fmt.Errorf("%s did not keep the dst prefix %s: result %s (input %s)", desc, q(before[:k]), q(got), q(in))
		}
	}
	out := got[k:]

	// ---- the output is valid under the same options
	onode, oerr := ref.Parse(out, eff.ParseOpt())
	if oerr != nil {
		return fmt.Errorf("%s turned the valid %s into %s, which is not valid under the same options: %v", desc, q(in), q(out), oerr)
	}

	// ---- same meaning, differences only where the options allow them
	rl := &relation{a: in, b: out, o: eff}
	if msg := rl.value(node, onode, nil); msg != "" {
		return fmt.Errorf("%s changed the meaning of %s; output %s: %s", desc, q(in), q(out), msg)
	}

	if err := fixedPoint(c, opts, desc, in, out); err != nil {
		return err
	}

	// ---- exact layout / spelling against the reference formatter
	want := expected(in, node, eff)
	if !want.TieAmbiguous {
		if string(out) != want.Out {
			return fmt.Errorf("%s on %s produced %s; the documented format is %s", desc, q(in), q(out), q([]byte(want.Out)))
		}
	} else {
		// Members with equal names: their relative order is not specified.
		// The output must still be laid out and spelled as documented: it has
		// to be what the reference produces from the output itself without
		// reordering.
		e2 := eff
		e2.Reorder = false
		self := expected(out, onode, e2)
		if string(out) != self.Out {
			return fmt.Errorf("%s on %s produced %s, whose layout/spelling is not the documented one (%s)", desc, q(in), q(out), q([]byte(self.Out)))
		}
	}

	return nil
}

// fixedPoint checks F(F(x)) == F(x) and, for the Value methods, that the
// second call does not store to the (already formatted) value.
func fixedPoint(c Case, opts []jsontext.Options, desc string, in, out []byte) error {
	if c.API == "AppendFormat" {
		var out2 []byte
		var err2 error
		if p := rt.Guard(func() { out2, err2 = jsontext.AppendFormat(nil, append([]byte(nil), out...), opts...) }); p != nil {
			return fmt.Errorf("%s panicked on its own output %s: %v", desc, q(out), p)
		}
		if err2 != nil {
			return fmt.Errorf("%s rejects its own output %s: %v", desc, q(out), err2)
		}
		if !bytes.Equal(out2, out) {
			return fmt.Errorf("%s is not a fixed point: %s -> %s -> %s", desc, q(in), q(out), q(out2))
		}
		return nil
	}
	if len(out) > roSize {
		rec.Class("ro-skipped-too-large")
		return nil
	}
	var err2 error
	var after []byte
	p := withReadOnly(out, func(v []byte) {
		val := jsontext.Value(v)
		switch c.API {
		case "Compact":
			err2 = val.Compact(opts...)
		case "Indent":
			err2 = val.Indent(opts...)
		case "Canonicalize":
			err2 = val.Canonicalize(opts...)
		default:
			err2 = val.Format(opts...)
		}
		after = append([]byte(nil), val...)
	})
	if p != nil {
		if isFault(p) {
			return fmt.Errorf("%s wrote to the already formatted value %s (memory fault on a read-only buffer: %v)", desc, q(out), p.Val)
		}
		return fmt.Errorf("%s panicked on its own output %s: %v", desc, q(out), p)
	}
	if err2 != nil {
		return fmt.Errorf("%s rejects its own output %s: %v", desc, q(out), err2)
	}
	if !bytes.Equal(after, out) {
		return fmt.Errorf("%s is not a fixed point: %s -> %s -> %s", desc, q(in), q(out), q(after))
	}
	return nil
}

// expected is ref.Format, adjusted for one documented-but-ambiguous special
// case: both CanonicalizeRawInts and CanonicalizeRawFloats say "As a special
// case, the number -0 is canonicalized as 0", and the library applies this to
// the literal -0 when either option is set. ref.Format treats -0 as an
// integer literal only. The adjustment rewrites integer literals -0 to 0
// before formatting when only CanonicalizeRawFloats is set.
func expected(in []byte, n *ref.Node, o ref.FmtOpt) ref.FormatResult {
	if o.CanonFloats && !o.CanonInts && bytes.Contains(in, []byte("-0")) {
		var spans [][2]int
		collectNegZero(in, n, &spans)
		if len(spans) > 0 {
			mod := make([]byte, 0, len(in))
			last := 0
			for _, s := range spans {
				mod = append(mod, in[last:s[0]]...)
				mod = append(mod, '0')
				last = s[1]
			}
			mod = append(mod, in[last:]...)
			n2, err := ref.Parse(mod, ref.Opt{AllowInvalidUTF8: true, AllowDup: true})
			if err == nil {
				return ref.Format(mod, n2, o)
			}
		}
	}
	return ref.Format(in, n, o)
}

func collectNegZero(in []byte, n *ref.Node, spans *[][2]int) {
	switch n.Kind {
	case '0':
		if n.End-n.Start == 2 && in[n.Start] == '-' && in[n.Start+1] == '0' {
			*spans = append(*spans, [2]int{n.Start, n.End})
		}
	case '[':
		for _, e := range n.Elems {
			collectNegZero(in, e, spans)
		}
	case '{':
		for _, m := range n.Members {
			collectNegZero(in, m.Value, spans)
		}
	}
}

// relation is the allowed-difference relation between the input tree (over
// a) and the output tree (over b) under options o.
type relation struct {
	a, b []byte
	o    ref.FmtOpt
}

func (r *relation) str(x, y *ref.Node, path *pth) string {
	if x.Str != y.Str {
		return fmt.Sprintf("at %q: string %q became %q", path, x.Str, y.Str)
	}
	if r.o.PreserveRaw && !r.o.EscapeHTML && !r.o.EscapeJS {
		if !bytes.Equal(r.a[x.Start:x.End], r.b[y.Start:y.End]) {
			return fmt.Sprintf("at %q: PreserveRawStrings is set and no escape option applies, but the literal %s was re-spelled as %s", path, r.a[x.Start:x.End], r.b[y.Start:y.End])
		}
	}
	return ""
}

func (r *relation) num(x, y *ref.Node, path *pth) string {
	l1, l2 := string(r.a[x.Start:x.End]), string(r.b[y.Start:y.End])
	if l1 == l2 {
		return ""
	}
	canon := r.o.CanonFloats
	which := "CanonicalizeRawFloats"
	if ref.IsIntLit(l1) {
		canon = r.o.CanonInts
		which = "CanonicalizeRawInts"
		if l1 == "-0" && r.o.CanonFloats {
			canon = true // "the number -0 is canonicalized as 0" (see expected)
		}
	}
	if !canon {
		return fmt.Sprintf("at %q: number %s became %s although %s is not set", path, l1, l2, which)
	}
	if want := ref.CanonNumber(l1); l2 != want {
		return fmt.Sprintf("at %q: number %s became %s; its RFC 8785 form is %s", path, l1, l2, want)
	}
	return ""
}

func (r *relation) value(x, y *ref.Node, path *pth) string {
	if x.Kind != y.Kind {
		return fmt.Sprintf("at %q: kind %c became %c", path, x.Kind, y.Kind)
	}
	switch x.Kind {
	case '"':
		return r.str(x, y, path)
	case '0':
		return r.num(x, y, path)
	case '[':
		if len(x.Elems) != len(y.Elems) {
			return fmt.Sprintf("at %q: array of %d elements became one of %d", path, len(x.Elems), len(y.Elems))
		}
		for i := range x.Elems {
			if msg := r.value(x.Elems[i], y.Elems[i], path.idx(i)); msg != "" {
				return msg
			}
		}
	case '{':
		if len(x.Members) != len(y.Members) {
			return fmt.Sprintf("at %q: object of %d members became one of %d", path, len(x.Members), len(y.Members))
		}
		if !r.o.Reorder {
			for i := range x.Members {
				p := path.name(x.Members[i].Name.Str)
				if msg := r.str(x.Members[i].Name, y.Members[i].Name, p.name("(name)")); msg != "" {
					return msg
				}
				if msg := r.value(x.Members[i].Value, y.Members[i].Value, p); msg != "" {
					return msg
				}
			}
			return ""
		}
		// Reordered: sorted by the UTF-16 code units of the decoded names ...
		for i := 1; i < len(y.Members); i++ {
			if ref.UTF16Cmp(y.Members[i-1].Name.Str, y.Members[i].Name.Str) > 0 {
				return fmt.Sprintf("at %q: ReorderRawObjects is set but member %q precedes %q in the output (UTF-16 code unit order is the opposite)", path, y.Members[i-1].Name.Str, y.Members[i].Name.Str)
			}
		}
		// ... and the same multiset of members.
		used := make([]bool, len(y.Members))
		var firstMsg string
	outer:
		for _, m := range x.Members {
			p := path.name(m.Name.Str)
			for j, m2 := range y.Members {
				if used[j] || m.Name.Str != m2.Name.Str {
					continue
				}
				if msg := r.str(m.Name, m2.Name, p.name("(name)")); msg != "" {
					firstMsg = msg
					continue
				}
				if msg := r.value(m.Value, m2.Value, p); msg != "" {
					if firstMsg == "" {
						firstMsg = msg
					}
					continue
				}
				used[j] = true
				continue outer
			}
			if firstMsg != "" {
				return fmt.Sprintf("at %q: input member %q has no counterpart in the output (%s)", path, m.Name.Str, firstMsg)
			}
			return fmt.Sprintf("at %q: input member %q has no counterpart in the output", path, m.Name.Str)
		}
	}
	return ""
}

// pth is a lazily rendered path (rendering every path eagerly is quadratic
// in the nesting depth).
type pth struct {
	parent *pth
	step   string
	index  int
}

func (p *pth) idx(i int) *pth     { return &pth{parent: p, index: i} }
func (p *pth) name(s string) *pth { return &pth{parent: p, step: s, index: -1} }
func (p *pth) String() string {
	if p == nil {
		return ""
	}
	var steps []string
	for q := p; q != nil; q = q.parent {
		if q.index >= 0 {
			steps = append(steps, fmt.Sprint(q.index))
		} else {
			steps = append(steps, ref.EscapePtr(q.step))
		}
	}
	var sb strings.Builder
	for i := len(steps) - 1; i >= 0; i-- {
		sb.WriteByte('/')
		sb.WriteString(steps[i])
	}
	return sb.String()
}

// ---------------------------------------------------------------- evidence

type shape struct {
	multi       bool // some object has >= 2 members
	unsorted    bool // some object is not in strict RFC 8785 order
	unsortedN   int  // number of such objects
	tie         bool // some object has two members with equal decoded names
	tieSameVal  bool // ... whose raw member texts are identical too
	badStr      bool // some string literal is not well-formed
	nonCanonStr bool
	nonCanonInt bool
	nonCanonFlt bool
	htmlChar    bool
	jsChar      bool
	depth       int
}

func (s *shape) walk(in []byte, n *ref.Node, d int) {
	if d > s.depth {
		s.depth = d
	}
	switch n.Kind {
	case '"':
		s.strNode(in, n)
	case '0':
		lit := string(in[n.Start:n.End])
		if ref.CanonNumber(lit) != lit {
			if ref.IsIntLit(lit) {
				s.nonCanonInt = true
			} else {
				s.nonCanonFlt = true
			}
		}
	case '[':
		for _, e := range n.Elems {
			s.walk(in, e, d+1)
		}
	case '{':
		if len(n.Members) >= 2 {
			s.multi = true
		}
		uns := false
		for i, m := range n.Members {
			s.strNode(in, m.Name)
			if i > 0 {
				c := ref.UTF16Cmp(n.Members[i-1].Name.Str, m.Name.Str)
				if c >= 0 {
					uns = true
				}
			}
			s.walk(in, m.Value, d+1)
		}
		if uns {
			s.unsorted = true
			s.unsortedN++
		}
		if len(n.Members) <= 64 {
			for i := range n.Members {
				for j := i + 1; j < len(n.Members); j++ {
					a, b := n.Members[i], n.Members[j]
					if a.Name.Str == b.Name.Str {
						s.tie = true
						if bytes.Equal(in[a.Name.Start:a.Value.End], in[b.Name.Start:b.Value.End]) {
							s.tieSameVal = true
						}
					}
				}
			}
		}
	}
}

func (s *shape) strNode(in []byte, n *ref.Node) {
	if !n.StrValid {
		s.badStr = true
	}
	if lit, _ := ref.Quote(n.Str, false, false); lit != string(in[n.Start:n.End]) {
		s.nonCanonStr = true
	}
	if strings.ContainsAny(n.Str, "<>&") {
		s.htmlChar = true
	}
	if strings.Contains(n.Str, "\xe2\x80\xa8") || strings.Contains(n.Str, "\xe2\x80\xa9") {
		s.jsChar = true
	}
}

func optMask(c Case) []byte {
	var sb strings.Builder
	for _, o := range c.Opts {
		fmt.Fprintf(&sb, "%s=%v/%q;", o.Name, o.On, o.Str)
	}
	return []byte(sb.String())
}

func fpCase(c Case) uint64 { return cov.FP(c.Input, []byte(c.API), optMask(c)) }

func classify(c Case, eff ref.FmtOpt, node *ref.Node, rerr *ref.Err) {
	in := c.Input
	rec.Class("api-" + c.API)
	if c.API == "AppendFormat" {
		rec.Class(fmt.Sprintf("appendformat-alias-%d", c.Alias))
	}
	if rerr != nil {
		rec.Class("input-invalid")
		if _, perr := ref.Parse(in, ref.Opt{AllowInvalidUTF8: true, AllowDup: true}); perr == nil {
			switch rerr.Kind {
			case ref.ErrDup:
				rec.Class("input-invalid-only-duplicate-name")
			case ref.ErrUTF8:
				rec.Class("input-invalid-only-utf8")
			default:
				rec.Class("input-invalid-only-strictness")
			}
		}
		return
	}
	rec.Class("input-valid")
	var s shape
	s.walk(in, node, 0)
	if s.multi || s.nonCanonStr || s.nonCanonInt || s.nonCanonFlt {
		fp := fpCase(c)
		rec.NonTrivial(fp)
		rec.Sample(fp, func() any {
			return map[string]any{"input": string(in), "call": describe(c)}
		})
	}
	if eff.Reorder {
		rec.Class("reorder-on")
		if s.unsorted {
			rec.Class("reorder-moves-members")
		}
		if s.unsortedN >= 2 {
			rec.Class("reorder-moves-members-in->=2-objects")
		}
		if s.tie {
			rec.Class("reorder-with-equal-names")
		}
		if s.tieSameVal {
			rec.Class("reorder-with-identical-members")
		}
		if s.unsorted && eff.Multiline {
			rec.Class("reorder-moves-members-multiline")
		}
	}
	if s.tie {
		rec.Class("valid-with-duplicate-names")
	}
	if s.badStr {
		rec.Class("valid-with-ill-formed-utf8")
	}
	if s.nonCanonStr {
		if eff.PreserveRaw {
			rec.Class("noncanonical-string-preserved")
		} else {
			rec.Class("noncanonical-string-respelled")
		}
	}
	if s.htmlChar && eff.EscapeHTML {
		rec.Class("html-escape-applies")
	}
	if s.jsChar && eff.EscapeJS {
		rec.Class("js-escape-applies")
	}
	if (s.htmlChar && eff.EscapeHTML || s.jsChar && eff.EscapeJS) && eff.PreserveRaw {
		rec.Class("escape-applies-under-preserve-raw")
	}
	if s.nonCanonInt && eff.CanonInts {
		rec.Class("int-canonicalized")
	}
	if s.nonCanonFlt && eff.CanonFloats {
		rec.Class("float-canonicalized")
	}
	if eff.Multiline {
		rec.Class("multiline")
		if eff.Prefix != "" {
			rec.Class("multiline-with-prefix")
		}
		if eff.Indent != nil && *eff.Indent != "\t" {
			rec.Class("multiline-with-custom-indent")
		}
	}
	if eff.SpaceAfterComma != nil && *eff.SpaceAfterComma {
		rec.Class("space-after-comma")
	}
	if s.depth >= 3 {
		rec.Class("depth>=3")
	}
	if s.depth >= 9998 {
		rec.Class("depth-at-nesting-limit")
	}
	if len(in) > 4096 {
		rec.Class("input>4KiB")
	}
	if want := expected(in, node, eff); want.Out == string(in) {
		rec.Class("input-already-formatted")
	}
	for _, p := range presets(c.API) {
		for _, o := range c.Opts {
			if o.Name == p.Name && !o.On {
				rec.Class("preset-overridden-by-caller")
				return
			}
		}
	}
}

package c12

import (
	"flag"
	"runtime"
	"runtime/debug"
	"testing"

	"verif/harness/rt"
)

func TestCheck(t *testing.T) {
	// One shard is one single-threaded campaign; 16 of them run side by side.
	// Keep the Go runtime from starting 16 GC workers per shard.
	runtime.GOMAXPROCS(2)
	debug.SetGCPercent(400)
	flag.Set("rapid.shrinktime", "8s")

	e := rt.Setup(t, "C12")
	defer e.Finish()
	rec = e.Rec

	for _, msg := range selfTest() {
		e.OracleFail(msg)
	}

	// (a) bounded-exhaustive: every option subset x seed document x API
	rt.Enum(e, "subsets", func(yield func(Case) bool) { enumSubsets(e, yield) }, Run)

	// (b) random option lists on generated texts
	rt.Rapid(e, "texts", 800_000, 20_000_000, genTexts, Run)
	rt.Rapid(e, "reorder", 800_000, 20_000_000, genReorder, Run)
	rt.Rapid(e, "large", 4_000, 80_000, genLarge, Run)

	rt.Rapid(e, "depth", 64, 640, genDepth, RunDepth)

	// replayer for cases saved by the native fuzz target FuzzFormat
	rt.Only(e, "fuzz", Run)
}

package c12

import (
	"fmt"
	"os"
	"runtime"
	"runtime/debug"
	"sync"
	"syscall"
	"unsafe"

	"verif/harness/rt"
)

// One anonymous memory file mapped twice, read-write for the harness and
// read-only for the library. With SetPanicOnFault a store through the
// read-only view becomes a recoverable run-time panic instead of a crash.

const roSize = 1 << 20

var (
	roOnce sync.Once
	roRW   []byte // writable view
	roRO   []byte // read-only view of the same pages
	roErr  error
)

// memfdCreate numbers per architecture (the syscall package has no constant).
func memfdNumber() uintptr {
	switch runtime.GOARCH {
	case "amd64":
		return 319
	case "arm64", "riscv64", "loong64":
		return 279
	}
	return 0
}

// roInit maps one anonymous memory file twice: read-write and read-only.
// The harness stores a value through the first view and hands the second to
// the library, so no system call is needed per case.
func roInit() {
	roOnce.Do(func() {
		fd := -1
		if nr := memfdNumber(); nr != 0 {
			name := []byte("verif-c12\x00")
			r, _, e := syscall.Syscall(nr, uintptr(unsafe.Pointer(&name[0])), 0, 0)
			if e == 0 {
				fd = int(r)
			}
		}
		if fd < 0 {
			f, err := os.CreateTemp("", "verif-c12-ro-*")
			if err != nil {
				roErr = err
				return
			}
			os.Remove(f.Name())
			fd, roErr = syscall.Dup(int(f.Fd()))
			f.Close()
			if roErr != nil {
				return
			}
		}
		defer syscall.Close(fd)
		if roErr = syscall.Ftruncate(fd, roSize); roErr != nil {
			return
		}
		roRW, roErr = syscall.Mmap(fd, 0, roSize, syscall.PROT_READ|syscall.PROT_WRITE, syscall.MAP_SHARED)
		if roErr != nil {
			return
		}
		roRO, roErr = syscall.Mmap(fd, 0, roSize, syscall.PROT_READ, syscall.MAP_SHARED)
	})
}

// withReadOnly stores data in the mapping and calls f with a read-only slice
// (len == cap == len(data)) of it. Any panic of f, including a memory fault,
// is returned.
func withReadOnly(data []byte, f func(v []byte)) (perr *rt.PanicErr) {
	roInit()
	if roErr != nil || len(data) > roSize {
		panic(fmt.Sprintf("harness: read-only page unavailable: %v", roErr))
	}
	copy(roRW, data)
	old := debug.SetPanicOnFault(true)
	defer debug.SetPanicOnFault(old)
	return rt.Guard(func() { f(roRO[:len(data):len(data)]) })
}

// isFault reports whether a recovered panic is a memory fault.
func isFault(p *rt.PanicErr) bool {
	type addrErr interface {
		error
		Addr() uintptr
	}
	if e, ok := p.Val.(addrErr); ok {
		_ = e
		return true
	}
	if e, ok := p.Val.(runtime.Error); ok {
		s := e.Error()
		return len(s) > 0 && (contains(s, "unexpected fault address") || contains(s, "invalid memory address"))
	}
	return false
}

func contains(s, sub string) bool {
	for i := 0; i+len(sub) <= len(s); i++ {
		if s[i:i+len(sub)] == sub {
			return true
		}
	}
	return false
}

// roSelfTest checks that the mechanism works: a store faults recoverably, a
// load does not.
func roSelfTest() string {
	var sum byte
	if p := withReadOnly([]byte("[1,2]"), func(v []byte) {
		for _, c := range v {
			sum += c
		}
	}); p != nil {
		return fmt.Sprintf("read-only page self-test: reading faulted: %v", p.Val)
	}
	p := withReadOnly([]byte("[1,2]"), func(v []byte) { v[0] = '{' })
	if p == nil {
		return "read-only page self-test: a store to the read-only page did not fault"
	}
	if !isFault(p) {
		return fmt.Sprintf("read-only page self-test: store raised %v, not recognised as a fault", p.Val)
	}
	// the value seen through the read-only view is what was stored
	var seen string
	withReadOnly([]byte("[3]"), func(v []byte) { seen = string(v) })
	if seen != "[3]" {
		return fmt.Sprintf("read-only page self-test: view shows %q", seen)
	}
	return ""
}

package c12

import (
	"encoding/json"
	"fmt"
	"os"
	"path/filepath"
	"testing"

	"verif/harness/cov"
)

// saveFuzzCase writes a failing case in the replay format of package rt and
// announces it to the driver.
func saveFuzzCase(c Case, err error) string {
	root := os.Getenv("VERIF_ROOT")
	if root == "" {
		root = "/verif"
	}
	raw, _ := json.Marshal(c)
	data, _ := json.MarshalIndent(map[string]any{"property": "C12", "sub": "fuzz", "case": json.RawMessage(raw), "msg": err.Error()}, "", " ")
	dir := filepath.Join(root, "replays")
	os.MkdirAll(dir, 0o755)
	path := filepath.Join(dir, fmt.Sprintf("C12-fuzz-%016x.json", cov.FP(raw)))
	os.WriteFile(path, data, 0o644)
	fmt.Printf("VERIF-FUZZ-REPLAY %s\n", path)
	return path
}

// decodeFuzz maps the fuzzer's arguments onto a Case: the low 13 bits of
// optmask select the option subset, the high bits rotate the indent strings;
// sel selects API, aliasing arrangement and buffer slack.
func decodeFuzz(data []byte, optmask uint16, sel uint8) Case {
	api := apiNames[int(sel)%len(apiNames)]
	c := Case{Input: data, API: api, Opts: subsetOpts(api, int(optmask)&(1<<13-1), int(optmask>>13)), Spare: int(sel>>5) * 24}
	if api == "AppendFormat" {
		c.Alias = int(sel/5) % 4
		c.Dst = []byte("[0] ")[:int(optmask>>13)%5]
		c.SrcOff = int(optmask>>13) + 1
		c.DstLen = (int(sel) * 7) % (c.SrcOff + len(data) + 1)
	}
	return c
}

// FuzzFormat is the coverage-guided campaign of the thorough tier.
func FuzzFormat(f *testing.F) {
	for i, d := range seedDocs {
		f.Add(d, uint16(0), uint8(i))
		f.Add(d, uint16(0x1fff), uint8(i+5))
		f.Add(d, uint16(0x0080|0x0003), uint8(i)) // reorder + permissive
		f.Add(d, uint16(0x0400|0x0080|0x0010|0x0003), uint8(3))
	}
	f.Add([]byte(`{"a":1,"a":1}`), uint16(0x83), uint8(0))
	f.Add([]byte("{\"\xff\":1,\"\xfe\":2}"), uint16(0x93), uint8(0))
	f.Fuzz(func(t *testing.T, data []byte, optmask uint16, sel uint8) {
		if len(data) > 1<<16 {
			return
		}
		c := decodeFuzz(data, optmask, sel)
		if err := Run(c); err != nil {
			path := saveFuzzCase(c, err)
			t.Fatalf("%v (case saved to %s)", err, path)
		}
	})
}

package c12

import (
	"bytes"
	"fmt"

	"github.com/go-json-experiment/json/jsontext"

	"verif/harness/ref"
)

// Towers: inputs made only of nested container openers and their closers,
// as drawn by genDepth. ref.Parse builds an RFC 6901 pointer per level, which
// is quadratic in the depth (seconds per parse at depth 10000 on a loaded
// machine), so pure towers are judged by this small dedicated oracle; any
// other input of the "depth" sub-check (e.g. a shrunk one) goes through Run.

var towerOpeners = []string{"[", `{"a":`, `{"b":0,"a":`, `{ "":`}

// parseTower recognises a pure tower and returns the opener index per level
// (the innermost container is empty: "[]" or "{}").
func parseTower(in []byte) (levels []byte, ok bool) {
	i := 0
	for i < len(in) {
		matched := false
		// longest openers first
		for _, k := range []int{2, 1, 3, 0} {
			op := towerOpeners[k]
			if bytes.HasPrefix(in[i:], []byte(op)) {
				levels = append(levels, byte(k))
				i += len(op)
				matched = true
				break
			}
		}
		if !matched {
			break
		}
	}
	// innermost object opener "{" followed directly by "}"
	if i < len(in) && in[i] == '{' {
		levels = append(levels, 4) // empty object
		i++
	}
	if len(levels) == 0 {
		return nil, false
	}
	// the innermost container must be empty: its opener is "[" or "{"
	if last := levels[len(levels)-1]; last != 0 && last != 4 {
		return nil, false
	}
	rest := in[i:]
	if len(rest) != len(levels) {
		return nil, false
	}
	for j, c := range rest {
		lv := levels[len(levels)-1-j]
		want := byte('}')
		if lv == 0 {
			want = ']'
		}
		if c != want {
			return nil, false
		}
	}
	return levels, true
}

// towerExpected renders the documented single-line format of a tower.
func towerExpected(levels []byte, o ref.FmtOpt) []byte {
	_, colon, comma, _, _ := layout(o)
	sp, cm := "", ""
	if colon {
		sp = " "
	}
	if comma {
		cm = " "
	}
	var pre, suf []byte
	sufs := make([]string, len(levels))
	for i, lv := range levels {
		switch lv {
		case 0:
			pre = append(pre, '[')
			sufs[i] = "]"
		case 1:
			pre = append(pre, (`{"a":` + sp)...)
			sufs[i] = "}"
		case 2:
			if o.Reorder {
				pre = append(pre, (`{"a":` + sp)...)
				sufs[i] = "," + cm + `"b":` + sp + "0}"
			} else {
				pre = append(pre, (`{"b":` + sp + "0," + cm + `"a":` + sp)...)
				sufs[i] = "}"
			}
		case 3:
			pre = append(pre, (`{"":` + sp)...)
			sufs[i] = "}"
		case 4:
			pre = append(pre, '{')
			sufs[i] = "}"
		}
	}
	for i := len(sufs) - 1; i >= 0; i-- {
		suf = append(suf, sufs[i]...)
	}
	return append(pre, suf...)
}

// RunDepth decides a case of the "depth" sub-check.
func RunDepth(c Case) error {
	eff := effective(c.API, c.Opts)
	levels, ok := parseTower(c.Input)
	if !ok || eff.Multiline {
		return Run(c)
	}
	rec.Eval()
	rec.Class("api-" + c.API)
	in := c.Input
	opts := buildOpts(c.Opts)
	desc := describe(c)
	valid := len(levels) <= 10000
	got, before, k, err, perr := call(c, opts)
	if perr != nil {
		return fmt.Errorf("%s panicked on a tower of %d containers: %v", desc, len(levels), perr)
	}
	if !valid {
		rec.Class("tower-deeper-than-limit")
		if err == nil {
			return fmt.Errorf("%s accepted a tower of %d nested containers %s (the documented limit is 10000)", desc, len(levels), q(in))
		}
		if !bytes.Equal(got, before) {
			return fmt.Errorf("%s failed (%v) on a tower of %d containers but did not leave the value / dst++src unchanged", desc, err, len(levels))
		}
		return nil
	}
	rec.Class("tower-within-limit")
	if len(levels) >= 9998 {
		rec.Class("depth-at-nesting-limit")
	}
	if err != nil {
		return fmt.Errorf("%s rejected a valid tower of %d nested containers %s: %v", desc, len(levels), q(in), err)
	}
	if c.API == "AppendFormat" && (len(got) < k || !bytes.Equal(got[:k], before[:k])) {
		return fmt.Errorf("%s did not keep the dst prefix on a tower of %d containers", desc, len(levels))
	}
	out := got[k:]
	want := towerExpected(levels, eff)
	if !bytes.Equal(out, want) {
		return fmt.Errorf("%s on the tower %s produced %s; the documented format is %s", desc, q(in), q(out), q(want))
	}
	if levels[len(levels)-1] != 4 || len(levels) > 1 {
		rec.NonTrivial(fpCase(c))
	}
	return fixedPoint(c, opts, desc, in, out)
}

var _ = jsontext.Value(nil)

package c16

import (
	"testing"

	"verif/harness/rt"
)

func TestCheck(t *testing.T) {
	e := rt.Setup(t, "C16")
	defer e.Finish()
	rec = e.Rec
	oracleFail = e.OracleFail

	// (a) coder state after every call
	rt.Rapid(e, "dec-state", 150_000, 1_500_000, GenDec, RunDec)
	rt.Rapid(e, "enc-state", 120_000, 1_200_000, GenEnc, RunEnc)

	// (b) syntactic error locations
	rt.Enum(e, "syn-enum", func(yield func(SynCase) bool) { EnumSyn(e, yield) }, RunSyn)
	rt.Rapid(e, "syn", 400_000, 4_000_000, GenSyn, RunSyn)
	rt.Rapid(e, "syn-deep", 3_200, 32_000, GenSynDeep, RunSyn)

	// (c) semantic error locations
	rt.Rapid(e, "sem", 200_000, 1_500_000, GenSem, RunSem)
	rt.Rapid(e, "msem", 60_000, 400_000, GenMSem, RunMSem)
	rt.Rapid(e, "usersem", 60_000, 600_000, GenUSem, RunUSem)

	// (d) Pointer methods
	rt.Rapid(e, "pointer", 120_000, 1_000_000, GenPtr, RunPtr)
}

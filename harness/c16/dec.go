package c16

import (
	"bytes"
	"fmt"
	"io"

	"github.com/go-json-experiment/json/jsontext"
	"pgregory.net/rapid"

	"verif/harness/cov"
	"verif/harness/gen"
	"verif/harness/ref"
	"verif/harness/rt"
)

// Read operations of a DecCase.
const (
	opToken = 0
	opValue = 1
	opSkip  = 2
	opPeek  = 3
)

// DecCase is a valid stream of JSON values, a cyclic list of read operations
// and the chunk size of the reader (0: the whole input in a *bytes.Buffer).
type DecCase struct {
	Input []byte `json:"input"`
	Ops   []byte `json:"ops"`
	Chunk int    `json:"chunk"`
}

type chunkReader struct {
	b []byte
	n int
}

func (r *chunkReader) Read(p []byte) (int, error) {
	if len(r.b) == 0 {
		return 0, io.EOF
	}
	n := min(r.n, len(p), len(r.b))
	copy(p, r.b[:n])
	r.b = r.b[n:]
	return n, nil
}

func opName(op byte) string {
	return [...]string{"ReadToken", "ReadValue", "SkipValue", "PeekKind"}[op&3]
}

// RunDec decides one decoder-state case.
func RunDec(c DecCase) error {
	rec.Eval()
	in := c.Input
	toks, rerr := ref.Tokens(in, defOpt)
	if rerr != nil {
		rec.Class("dec:input-not-valid(skipped)")
		return nil
	}
	var r io.Reader = bytes.NewBuffer(append([]byte(nil), in...))
	if c.Chunk > 0 {
		r = &chunkReader{b: in, n: c.Chunk}
	}
	d := jsontext.NewDecoder(r)

	check := func(what string, n int) error {
		var s snap
		if p := rt.Guard(func() { s = takeSnap(d, d.InputOffset()) }); p != nil {
			return fmt.Errorf("%s: position accessor panicked: %v", what, p)
		}
		m := modelAt(toks, n)
		if s.Off != int64(m.End) {
			return fmt.Errorf("%s: InputOffset=%d, model %d (after %d tokens of %q)", what, s.Off, m.End, n, clip(in))
		}
		if dd := s.diff(m); dd != "" {
			return fmt.Errorf("%s: %s (after %d tokens, offset %d of %q)", what, dd, n, m.End, clip(in))
		}
		return nil
	}

	if err := check("before any call", 0); err != nil {
		return err
	}
	maxDepth := 0
	sawEndErr := false
	n := 0     // tokens consumed so far
	stall := 0 // consecutive calls that did not advance
	for step := 0; n < len(toks); step++ {
		op := byte(opToken)
		if len(c.Ops) > 0 && stall < 3 {
			op = c.Ops[step%len(c.Ops)] & 3
		}
		next := toks[n]
		atEnd := next.Kind == '}' || next.Kind == ']'
		want := n
		var err error
		if p := rt.Guard(func() {
			switch op {
			case opToken:
				_, err = d.ReadToken()
				want = n + 1
			case opValue, opSkip:
				if op == opValue {
					_, err = d.ReadValue()
				} else {
					err = d.SkipValue()
				}
				switch {
				case atEnd: // documented: error, state unchanged
				case next.Kind == '{' || next.Kind == '[':
					j := n + 1
					for toks[j].Depth != next.Depth-1 {
						j++
					}
					want = j + 1
				default:
					want = n + 1
				}
			case opPeek:
				d.PeekKind()
			}
		}); p != nil {
			return fmt.Errorf("%s panicked after %d tokens of %q: %v", opName(op), n, clip(in), p)
		}
		what := fmt.Sprintf("call #%d %s", step, opName(op))
		if (op == opValue || op == opSkip) && atEnd {
			if err == nil {
				return fmt.Errorf("%s at an end token %q succeeded (after %d tokens of %q)", what, rune(next.Kind), n, clip(in))
			}
			sawEndErr = true
		} else if err != nil {
			return fmt.Errorf("%s failed on a valid text after %d tokens of %q: %v", what, n, clip(in), err)
		}
		if want == n {
			stall++
		} else {
			stall = 0
		}
		n = want
		if err := check(what, n); err != nil {
			return err
		}
		if d := modelAt(toks, n).Depth; d > maxDepth {
			maxDepth = d
		}
	}
	// at the end of the stream: PeekKind and ReadToken leave the state alone
	var err error
	if p := rt.Guard(func() { d.PeekKind(); _, err = d.ReadToken() }); p != nil {
		return fmt.Errorf("ReadToken at end of input panicked: %v", p)
	}
	if err != io.EOF {
		return fmt.Errorf("ReadToken after the last token of %q returned %v, want io.EOF", clip(in), err)
	}
	if err := check("after io.EOF", n); err != nil {
		return err
	}

	fp := cov.FP([]byte("dec"), in, c.Ops, []byte{byte(c.Chunk), byte(c.Chunk >> 8)})
	if maxDepth >= 2 {
		rec.NonTrivial(fp)
		rec.Class("dec:depth>=2")
		rec.Sample(fp, func() any {
			return map[string]any{"sub": "dec-state", "input": clip(in), "ops": c.Ops, "chunk": c.Chunk, "tokens": len(toks), "max_depth": maxDepth}
		})
	} else {
		rec.Class("dec:depth<2")
	}
	if sawEndErr {
		rec.Class("dec:value-read-at-end-token")
	}
	if c.Chunk > 0 {
		rec.Class("dec:chunked-reader")
	}
	return nil
}

func clip(b []byte) string {
	if len(b) > 300 {
		return string(b[:300]) + fmt.Sprintf("...(%d bytes)", len(b))
	}
	return string(b)
}

// GenDec draws a valid stream and a read schedule.
func GenDec(t *rapid.T) DecCase {
	cfg := gen.DocCfg{WS: true, Wide: rapid.IntRange(0, 3).Draw(t, "wide") == 0, LongStr: true, MaxDepth: rapid.IntRange(2, 6).Draw(t, "maxdepth")}
	var in []byte
	if rapid.IntRange(0, 3).Draw(t, "stream") == 0 {
		in = validStream(t, cfg)
	} else {
		in = nestedDoc(t, cfg)
	}
	var ops []byte
	switch rapid.IntRange(0, 3).Draw(t, "opclass") {
	case 0: // tokens only
	case 1:
		ops = rapid.SliceOfN(rapid.SampledFrom([]byte{opToken, opToken, opToken, opToken, opValue, opSkip, opPeek}), 1, 24).Draw(t, "ops")
	default:
		ops = rapid.SliceOfN(rapid.SampledFrom([]byte{opToken, opToken, opValue, opSkip, opPeek}), 1, 12).Draw(t, "ops")
	}
	chunk := 0
	if rapid.Bool().Draw(t, "chunked") {
		chunk = rapid.SampledFrom([]int{1, 2, 3, 5, 7, 16, 64, 512}).Draw(t, "chunk")
	}
	return DecCase{Input: in, Ops: ops, Chunk: chunk}
}

// validStream draws 0..4 documents separated by whitespace (gen.Stream may
// glue two numbers together).
func validStream(t *rapid.T, cfg gen.DocCfg) []byte {
	n := rapid.IntRange(0, 4).Draw(t, "nvals")
	var out []byte
	for i := 0; i < n; i++ {
		out = append(out, nestedDoc(t, cfg)...)
		out = append(out, rapid.SampledFrom([]string{" ", "\n", " \n", "\t", "\r\n  "}).Draw(t, "sep")...)
	}
	return out
}

// nestedDoc biases gen.Doc towards nested containers: a document whose root
// is a scalar is wrapped into one or two containers.
func nestedDoc(t *rapid.T, cfg gen.DocCfg) []byte {
	in := gen.Doc(t, cfg)
	w := rapid.IntRange(0, 3).Draw(t, "wrap")
	for i := 0; i < w; i++ {
		switch rapid.IntRange(0, 3).Draw(t, "wrapkind") {
		case 0:
			in = append(append([]byte("["), in...), ']')
		case 1:
			in = append(append([]byte(`[0,`), in...), `,"z"]`...)
		case 2:
			name := rapid.SampledFrom([]string{"a", "b", "", "a/b", "m~n", "~0", "é", `a`, "k\\/", "0"}).Draw(t, "wrapname")
			in = append(append([]byte(`{"`+name+`":`), in...), '}')
		default:
			name := rapid.SampledFrom([]string{"a", "x~1", "/", "~"}).Draw(t, "wrapname2")
			in = append(append([]byte(`{"p":null,"`+name+`" : `), in...), `,"q":[]}`...)
		}
	}
	return in
}

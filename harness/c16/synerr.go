package c16

import (
	"bytes"
	"errors"
	"fmt"
	"io"
	"os"
	"sync"

	"github.com/go-json-experiment/json"
	"github.com/go-json-experiment/json/jsontext"

	"verif/harness/cov"
	"verif/harness/ref"
	"verif/harness/rt"
)

// Classifiers of the two known findings of clause (b).
const (
	kfGrandparent = "tokenpath-pointer-grandparent"    // F1
	kfLexFirst    = "tokenpath-lexical-before-grammar" // F11
)

// SynCase is one (mostly invalid) text. Ops drives the mixed read sequence.
// Skip is a bit mask over synPaths set by generators for inputs whose shape
// hits a known finding (while that defect is present on the tree under test):
// the affected paths are skipped and the exclusion is counted. Regression
// files never set it.
type SynCase struct {
	Input []byte `json:"input"`
	Ops   []byte `json:"ops,omitempty"`
	Skip  uint8  `json:"skip_paths,omitempty"`
}

// synTarget is the struct target of the "struct" path: known members are
// decoded through any / map / slice / raw-value arshalers, unknown members are
// skipped token by token.
type synTarget struct {
	A any            `json:"a"`
	B *synTarget     `json:"b"`
	C []any          `json:"c"`
	D map[string]any `json:"d"`
	E jsontext.Value `json:"e"`
	K []*synTarget   `json:"k"`
}

type synPath struct {
	name      string
	tokenish  bool // goes through Decoder.ReadToken
	nameValue bool // may call Decoder.ReadValue where an object name is expected
	stream    bool // a Decoder accepts a stream of values; Unmarshal exactly one
}

var synPaths = []synPath{
	{"token", true, false, true},
	{"value", false, false, true},
	{"mixed", true, true, true},
	{"any", true, false, false},
	{"struct", true, true, false},
	// the same over a reader that delivers a few bytes per read: the offsets of
	// errors are absolute, whatever was discarded from the buffer on the way
	{"token-chunked", true, false, true},
	{"value-chunked", false, false, true},
}

// errCtx is the reference verdict on an input together with the grammatical
// context right before the offending token.
type errCtx struct {
	err     *ref.Err
	ctx     string
	allowed []string
	rstart  int
}

func viableWith(p []byte, suffix string, stream bool) bool {
	b := make([]byte, 0, len(p)+len(suffix))
	b = append(append(b, p...), suffix...)
	return ref.Viable(b, defOpt, stream)
}

func newErrCtx(in []byte, rerr *ref.Err, stream bool) *errCtx {
	if rerr == nil {
		return nil
	}
	c := &errCtx{err: rerr}
	p := in[:rerr.TokStart]
	switch {
	case viableWith(p, " :", stream):
		c.ctx = "after-name"
	case viableWith(p, " ,", stream):
		if viableWith(p, " }", stream) {
			c.ctx = "after-value-in-object"
		} else {
			c.ctx = "after-value-in-array"
		}
	case viableWith(p, " 0", stream):
		c.ctx = "value-expected"
	case viableWith(p, ` "`, stream):
		c.ctx = "name-expected"
	default:
		c.ctx = "after-top-level-value"
	}
	// Allowed pointers: the innermost open container at q, or the member /
	// element being processed. Where no member is in progress (a name is
	// expected, or a member value is complete) the name remembered by the
	// reference parser is stale and only the container is allowed.
	switch {
	case rerr.Kind == ref.ErrDup:
		c.allowed = []string{rerr.PtrNext}
	case c.ctx == "name-expected" || c.ctx == "after-value-in-object":
		c.allowed = []string{rerr.Ptr}
	case rerr.Ptr == rerr.PtrNext:
		c.allowed = []string{rerr.Ptr}
	default:
		c.allowed = []string{rerr.Ptr, rerr.PtrNext}
	}
	// Offending region: the lexical token containing q; when that token is
	// wrong from its first byte, a preceding ',' or ':' separated from it only
	// by whitespace is dangling and belongs to the region as well.
	c.rstart = rerr.TokStart
	if rerr.Pos == rerr.TokStart {
		j := rerr.TokStart - 1
		for j >= 0 && isWS(in[j]) {
			j--
		}
		if j >= 0 && (in[j] == ',' || in[j] == ':') {
			c.rstart = j
		}
	}
	return c
}

// lexFail scans the first lexical token of b on its own: 0 if it is complete,
// else the offset at which it stops being a prefix of a token.
func lexFail(b []byte) int {
	nodes, err := ref.ParseStream(b, defOpt)
	if len(nodes) > 0 || err == nil {
		return 0
	}
	return err.Pos
}

func isScalarStart(c byte) bool {
	return c == 'n' || c == 't' || c == 'f' || c == '-' || (c >= '0' && c <= '9')
}

// shapeGrandparent: a ']' right after a complete member value of an object
// that is itself nested (F1: the token path then reports the grandparent).
func (c *errCtx) shapeGrandparent(in []byte) bool {
	e := c.err
	return e.Kind == ref.ErrSyntax && e.Pos < len(in) && in[e.Pos] == ']' && e.Pos == e.TokStart &&
		c.ctx == "after-value-in-object" && e.Ptr != ""
}

// shapeLexFirst: where only an object name is legal stands something else
// whose own text is broken (F11: ReadToken lexes a literal/number, and
// ReadValue parses a whole value, before the grammatical position is checked;
// the error is then reported inside that token/value although the prefix up
// to its first byte is already not viable). scalar reports whether the
// offender starts like a literal or number (the only kind that affects
// ReadToken).
func (c *errCtx) shapeLexFirst(in []byte) (shape, scalar bool) {
	e := c.err
	if e.Kind != ref.ErrSyntax || e.Pos >= len(in) || e.Pos != e.TokStart || c.ctx != "name-expected" {
		return false, false
	}
	ch := in[e.Pos]
	scalar = isScalarStart(ch)
	if !scalar && ch != '{' && ch != '[' {
		return false, false
	}
	return lexFail(in[e.Pos:]) > 0, scalar
}

// lexFirstManifestation reports whether (off, ptr) is a truthful location of
// the defect of the text in[q:] taken on its own, shifted by q and prefixed
// with the container at q - which is how F11 shows.
func (c *errCtx) lexFirstManifestation(in []byte, off int64, ptr string) bool {
	q := c.err.Pos
	sub := in[q:]
	_, err2 := ref.ParseStream(sub, defOpt)
	if err2 == nil {
		return false
	}
	c2 := newErrCtx(sub, err2, true)
	if off <= int64(q) || off < int64(q+c2.rstart) || off > int64(q+err2.Pos) {
		return false
	}
	for _, a := range c2.allowed {
		if ptr == c.err.Ptr+a {
			return true
		}
	}
	return false
}

// synVerdict analyses an input once per mode.
type synVerdict struct {
	stream, single *errCtx
}

func analyse(in []byte) synVerdict {
	_, serr := ref.ParseStream(in, defOpt)
	_, perr := ref.Parse(in, defOpt)
	return synVerdict{newErrCtx(in, fixPos(in, serr, true), true), newErrCtx(in, fixPos(in, perr, false), false)}
}

// fixPos works around a slip in ref/parse.go (reported): for an ill-formed
// UTF-8 sequence whose lead byte announces 4 bytes and whose first two
// continuation bytes are fine, Err.Pos names the lead byte instead of the
// byte that breaks the sequence (the scan loop stops at k < 4). The true
// position is found with the viable-prefix predicate itself; the brute-force
// cross-check in RunSyn validates the result on short inputs.
func fixPos(in []byte, e *ref.Err, stream bool) *ref.Err {
	if e == nil || e.Kind != ref.ErrUTF8 {
		return e
	}
	c := *e
	for i := 0; i < 4 && c.Pos < len(in) && ref.Viable(in[:c.Pos+1], defOpt, stream); i++ {
		c.Pos++
	}
	return &c
}

// knownShapes lists, per known-finding classifier whose shape the input has,
// the mask of affected paths.
func (v synVerdict) knownShapes(in []byte) map[string]uint8 {
	out := map[string]uint8{}
	for _, c := range []*errCtx{v.stream, v.single} {
		if c == nil {
			continue
		}
		for i, p := range synPaths {
			if p.stream != (c == v.stream) {
				continue
			}
			if c.shapeGrandparent(in) && p.tokenish {
				out[kfGrandparent] |= 1 << i
			}
			if shape, scalar := c.shapeLexFirst(in); shape && (p.nameValue || (scalar && p.tokenish)) {
				out[kfLexFirst] |= 1 << i
			}
		}
	}
	return out
}

var oracleFails int
var oracleMu sync.Mutex

// crossCheck verifies Err.Pos by brute force: in[:n] is viable iff n <= Pos.
func crossCheck(in []byte, rerr *ref.Err, stream bool) bool {
	q := len(in)
	if rerr != nil {
		q = rerr.Pos
		if rerr.TokStart > rerr.Pos || rerr.Pos > len(in) {
			reportOracle(fmt.Sprintf("ref.Err of %q (stream=%v): TokStart %d, Pos %d, len %d", in, stream, rerr.TokStart, rerr.Pos, len(in)))
			return false
		}
	}
	for n := 0; n <= len(in); n++ {
		if got := ref.Viable(in[:n], defOpt, stream); got != (n <= q) {
			reportOracle(fmt.Sprintf("ref.Viable(%q[:%d], stream=%v)=%v but ref.Err.Pos=%d (err %v)", in, n, stream, got, q, rerr))
			return false
		}
	}
	return true
}

func reportOracle(msg string) {
	oracleMu.Lock()
	defer oracleMu.Unlock()
	if oracleFails < 5 {
		oracleFail("oracle self-test: " + msg)
	}
	oracleFails++
}

// synErrorOf runs one path and returns the error that ended it.
func synErrorOf(p synPath, c SynCase) (err error, perr *rt.PanicErr) {
	in := c.Input
	perr = rt.Guard(func() {
		switch p.name {
		case "token":
			d := jsontext.NewDecoder(bytes.NewBuffer(append([]byte(nil), in...)))
			for i := 0; i <= 2*len(in)+2 && err == nil; i++ {
				_, err = d.ReadToken()
			}
		case "value":
			d := jsontext.NewDecoder(bytes.NewBuffer(append([]byte(nil), in...)))
			for i := 0; i <= len(in)+2 && err == nil; i++ {
				_, err = d.ReadValue()
			}
		case "token-chunked":
			d := jsontext.NewDecoder(&chunkReader{b: in, n: 1 + int(cov.FP(in)%9)})
			for i := 0; i <= 2*len(in)+2 && err == nil; i++ {
				_, err = d.ReadToken()
			}
		case "value-chunked":
			d := jsontext.NewDecoder(&chunkReader{b: in, n: 1 + int(cov.FP(in)%9)})
			for i := 0; i <= len(in)+2 && err == nil; i++ {
				_, err = d.ReadValue()
			}
		case "mixed":
			d := jsontext.NewDecoder(bytes.NewBuffer(append([]byte(nil), in...)))
			stall := 0
			for i := 0; i <= 4*len(in)+16 && err == nil; i++ {
				op := byte(opToken)
				if len(c.Ops) > 0 && stall < 2 {
					op = c.Ops[i%len(c.Ops)] & 3
				}
				if op == opValue || op == opSkip {
					// a value-read at a legal end token is a caller error, not
					// an input error: read the end token instead
					if k := d.PeekKind(); k == '}' || k == ']' {
						op = opToken
					}
				}
				switch op {
				case opToken:
					_, err = d.ReadToken()
					stall = 0
				case opValue:
					_, err = d.ReadValue()
					stall = 0
				case opSkip:
					err = d.SkipValue()
					stall = 0
				default:
					d.PeekKind()
					stall++
				}
			}
		case "any":
			var v any
			err = json.Unmarshal(in, &v)
		case "struct":
			var v synTarget
			err = json.Unmarshal(in, &v)
		}
	})
	return err, perr
}

// RunSyn decides one syntactic-error case.
func RunSyn(c SynCase) error {
	rec.Eval()
	in := c.Input
	v := analyse(in)
	if len(in) <= 40 {
		var se, pe *ref.Err
		if v.stream != nil {
			se = v.stream.err
		}
		if v.single != nil {
			pe = v.single.err
		}
		if !crossCheck(in, se, true) || !crossCheck(in, pe, false) {
			return nil
		}
	}
	nontrivial := false
	for i, p := range synPaths {
		if c.Skip&(1<<i) != 0 {
			continue
		}
		ec := v.single
		if p.stream {
			ec = v.stream
		}
		err, perr := synErrorOf(p, c)
		if perr != nil {
			return fmt.Errorf("%s path panicked on %q: %v", p.name, clip(in), perr)
		}
		var se *jsontext.SyntacticError
		if !errors.As(err, &se) {
			switch {
			case err == nil || err == io.EOF:
				rec.Class("syn:" + p.name + ":no-error")
			default:
				rec.Class("syn:" + p.name + ":other-error")
			}
			continue
		}
		if ec == nil {
			// The library rejects what the reference accepts: C01's business
			// (e.g. a value-read at an end token in the mixed path is not an
			// input error at all).
			rec.Class("syn:" + p.name + ":ref-accepts(skipped)")
			continue
		}
		if jerr := judgeSyn(p, in, se, ec); jerr != nil {
			return jerr
		}
		rec.Class("syn:" + p.name + ":checked")
		if ec.err.Ptr != "" {
			nontrivial = true
			rec.Class("syn:" + p.name + ":depth>=2")
		}
		if p.name == "token" || p.name == "value" {
			rec.Class("syn:" + p.name + ":ctx=" + ec.ctx)
			rec.Class("syn:" + p.name + ":kind=" + ec.err.Kind.String())
			switch {
			case ec.err.Truncated:
				rec.Class("syn:" + p.name + ":truncated")
			case se.ByteOffset == int64(ec.err.Pos):
				rec.Class("syn:" + p.name + ":offset==q")
			default:
				rec.Class("syn:" + p.name + ":offset<q")
			}
			if len(ec.allowed) == 2 {
				if string(se.JSONPointer) == ec.allowed[0] {
					rec.Class("syn:" + p.name + ":ptr=container")
				} else {
					rec.Class("syn:" + p.name + ":ptr=member")
				}
			}
		}
	}
	if nontrivial {
		fp := cov.FP([]byte("syn"), in)
		rec.NonTrivial(fp)
		rec.Sample(fp, func() any {
			m := map[string]any{"sub": "syn", "input": clip(in)}
			if v.stream != nil {
				m["ref_error_pos"] = v.stream.err.Pos
				m["ref_container"] = v.stream.err.Ptr
				m["context"] = v.stream.ctx
			}
			return m
		})
	}
	return nil
}

func judgeSyn(p synPath, in []byte, se *jsontext.SyntacticError, ec *errCtx) error {
	rerr := ec.err
	off := se.ByteOffset
	ptr := string(se.JSONPointer)
	q := rerr.Pos

	var offMsg string
	switch {
	case off < 0 || off > int64(len(in)):
		offMsg = fmt.Sprintf("ByteOffset %d outside the input (len %d)", off, len(in))
	case off > int64(q) || !ref.Viable(in[:off], defOpt, p.stream):
		offMsg = fmt.Sprintf("ByteOffset %d: input[:%d]=%q is not a viable prefix (the input stops being viable at %d)", off, off, clip(in[:off]), q)
	case off < int64(ec.rstart):
		offMsg = fmt.Sprintf("ByteOffset %d lies before the offending token, which starts at %d (input stops being viable at %d)", off, ec.rstart, q)
	}
	ptrOK := false
	for _, a := range ec.allowed {
		if ptr == a {
			ptrOK = true
		}
	}
	var ptrMsg string
	if !ptrOK {
		if rerr.Kind == ref.ErrDup {
			ptrMsg = fmt.Sprintf("JSONPointer %q, want the duplicated member %q", ptr, ec.allowed[0])
		} else {
			ptrMsg = fmt.Sprintf("JSONPointer %q, want one of %q (innermost open container / member in progress; context %s)", ptr, ec.allowed, ec.ctx)
		}
	}
	if (se.Err == jsontext.ErrDuplicateName) != (rerr.Kind == ref.ErrDup) && offMsg == "" && ptrMsg == "" {
		// positions agree; which sentinel is used is not C16's business
		rec.Class("syn:" + p.name + ":dup-sentinel-differs")
	}
	if offMsg == "" && ptrMsg == "" {
		return nil
	}
	msg := offMsg
	if msg == "" {
		msg = ptrMsg
	} else if ptrMsg != "" {
		msg += "; " + ptrMsg
	}
	full := fmt.Errorf("%s path on %q: SyntacticError{ByteOffset:%d, JSONPointer:%q, Err:%v}: %s [reference: %v, container %q]",
		p.name, clip(in), off, ptr, se.Err, msg, rerr, rerr.Ptr)
	if p.tokenish && ptrMsg != "" && offMsg == "" && ec.shapeGrandparent(in) && ptr == parentPtr(rerr.Ptr) {
		return rt.Known(kfGrandparent, full)
	}
	if shape, scalar := ec.shapeLexFirst(in); shape && (p.nameValue || (scalar && p.tokenish)) && ec.lexFirstManifestation(in, off, ptr) {
		return rt.Known(kfLexFirst, full)
	}
	return full
}

// Presence of the two known defects on the tree under test, probed once with
// the canonical inputs. Only generators consult it (to exclude and count the
// shapes while the defect exists); Run never does.
var (
	presentOnce sync.Once
	present     = map[string]bool{}
)

func defectPresent(classifier string) bool {
	presentOnce.Do(func() {
		if os.Getenv("C16_NOEXCLUDE") != "" { // development knob: let the campaign rediscover the known findings
			return
		}
		probe := func(path int, in string, classifier string) {
			c := SynCase{Input: []byte(in)}
			v := analyse(c.Input)
			ec := v.single
			if synPaths[path].stream {
				ec = v.stream
			}
			err, perr := synErrorOf(synPaths[path], c)
			var se *jsontext.SyntacticError
			if perr != nil || !errors.As(err, &se) || ec == nil {
				return
			}
			var k *rt.KnownErr
			if jerr := judgeSyn(synPaths[path], c.Input, se, ec); errors.As(jerr, &k) && k.Classifier == classifier {
				present[classifier] = true
			}
		}
		probe(0, `{"a":{"b":1]`, kfGrandparent)
		probe(0, `{nul`, kfLexFirst)
		probe(4, `{"b":{{`, kfLexFirst)
	})
	return present[classifier]
}

// exclude marks the paths of the case that hit a known finding which is
// present on the tree under test, and counts the exclusion.
func exclude(c SynCase) SynCase {
	shapes := analyse(c.Input).knownShapes(c.Input)
	for _, k := range []string{kfGrandparent, kfLexFirst} {
		if m := shapes[k]; m != 0 && defectPresent(k) {
			rec.Excluded(k)
			c.Skip |= m
		}
	}
	return c
}

// Package c16 decides property C16: reported positions are truthful.
//
// Sub-checks:
//
//	(a) dec-state / enc-state: after every Decoder/Encoder call InputOffset /
//	    OutputOffset, StackDepth, every StackIndex level and StackPointer equal
//	    the ref.Tokens model of the bytes consumed / produced so far;
//	(b) syn-*: SyntacticError{ByteOffset, JSONPointer} of every rejected input on
//	    the token path, the value path, a mixed read sequence and Unmarshal into
//	    any / into a struct lies in the allowed region / pointer set computed by
//	    the independent recognizer;
//	(c) sem-*: SemanticError{ByteOffset, JSONPointer} of Unmarshal into a
//	    reflect-built type designates the value that cannot be converted;
//	(d) pointer: jsontext.Pointer methods are mutually consistent under RFC 6901.
//
// Default options only.
package c16

import (
	"fmt"

	"github.com/go-json-experiment/json/jsontext"

	"verif/harness/cov"
	"verif/harness/ref"
)

var rec = cov.New()

// oracleFail is set by TestCheck to e.OracleFail; it reports a disagreement of
// the reference model with itself (never a violation of the library).
var oracleFail = func(string) {}

var defOpt = ref.Opt{}

func isWS(c byte) bool { return c == ' ' || c == '\t' || c == '\n' || c == '\r' }

// coder is the position-reporting API shared by Decoder and Encoder.
type coder interface {
	StackDepth() int
	StackIndex(int) (jsontext.Kind, int64)
	StackPointer() jsontext.Pointer
}

// snap is what a coder reports about its position at one moment.
type snap struct {
	Off   int64
	Depth int
	Kinds []byte
	Lens  []int64
	Ptr   string
}

// takeSnap queries every documented position accessor. The caller wraps it in
// rt.Guard (StackIndex panics when out of range).
func takeSnap(c coder, off int64) snap {
	s := snap{Off: off, Depth: c.StackDepth(), Ptr: string(c.StackPointer())}
	if s.Depth < 0 || s.Depth > 1<<20 {
		return s
	}
	for i := 0; i <= s.Depth; i++ {
		k, n := c.StackIndex(i)
		s.Kinds = append(s.Kinds, byte(k))
		s.Lens = append(s.Lens, n)
	}
	return s
}

// model is the documented coder state after the first n tokens of toks.
type model struct {
	End    int // end offset of token n-1 (0 when n == 0)
	Depth  int
	Levels []ref.Level
	Ptr    string
}

func modelAt(toks []ref.Tok, n int) model {
	if n == 0 {
		return model{Levels: []ref.Level{{}}}
	}
	t := toks[n-1]
	return model{End: t.End, Depth: t.Depth, Levels: t.Levels, Ptr: t.Pointer}
}

// diff compares everything but the offset; "" means equal.
func (s snap) diff(m model) string {
	if s.Depth != m.Depth {
		return fmt.Sprintf("StackDepth=%d, model %d", s.Depth, m.Depth)
	}
	if len(s.Kinds) != len(m.Levels) {
		return fmt.Sprintf("%d stack levels reported, model %d", len(s.Kinds), len(m.Levels))
	}
	for i, l := range m.Levels {
		if s.Kinds[i] != l.Kind || s.Lens[i] != l.Length {
			return fmt.Sprintf("StackIndex(%d)=(%q,%d), model (%q,%d)", i, rune(s.Kinds[i]), s.Lens[i], rune(l.Kind), l.Length)
		}
	}
	if s.Ptr != m.Ptr {
		return fmt.Sprintf("StackPointer=%q, model %q", s.Ptr, m.Ptr)
	}
	return ""
}

// ptrDepth counts the reference tokens of a pointer.
func ptrDepth(p string) int {
	n := 0
	for i := 0; i < len(p); i++ {
		if p[i] == '/' {
			n++
		}
	}
	return n
}

// parentPtr strips the last reference token (independent of Pointer.Parent).
func parentPtr(p string) string {
	for i := len(p) - 1; i >= 0; i-- {
		if p[i] == '/' {
			return p[:i]
		}
	}
	return ""
}

package c16

import (
	"fmt"
	"strings"

	"pgregory.net/rapid"

	"verif/harness/cov"
	"verif/harness/gen"
	"verif/harness/ref"
	"verif/harness/rt"
)

// synContexts are viable prefixes that put the decoder into every grammatical
// state at nesting depth 0..3; the enumeration appends every short lexeme
// sequence to each of them.
var synContexts = []string{
	"", "[", "[[", "[1,", `{"a":`, `{"a":[`, `{"a":[1,`, `{"a":{"b":`, `{"a":{"b":1,`, `{"a":{`, `[{`,
	`[{"a":1`, `{"a":{"b":1`, `[[1`, `{"a":[1`, `{"a~/":{"b":[`, `[0,{"k":`, `{"a":1,"b":{"c":2,`, `{"a":{"b"`,
	`[[],[{"a":[]}],{"b":{"a":{`,
}

var synLexemes = []string{"{", "}", "[", "]", ":", ",", `"a"`, `"b"`, "1", "nul", "null", " ", `"`, "x", "-", "\"\xff\"", "\"\\ud800\"", "1."}

// EnumSyn enumerates context x lexeme-tail inputs.
func EnumSyn(e *rt.Env, yield func(SynCase) bool) {
	maxLen := 3
	if e.Thorough() {
		maxLen = 4
	}
	k := int64(len(synLexemes))
	var idx, total int64
	complete := true
	var sb strings.Builder
	ops := []byte{opToken, opValue, opPeek, opToken, opSkip}
	for l := 0; l <= maxLen && complete; l++ {
		n := int64(1)
		for i := 0; i < l; i++ {
			n *= k
		}
		for i := int64(0); i < n && complete; i++ {
			for _, ctx := range synContexts {
				idx++
				if !e.Mine(idx) {
					continue
				}
				sb.Reset()
				sb.WriteString(ctx)
				x := i
				for j := 0; j < l; j++ {
					sb.WriteString(synLexemes[x%k])
					x /= k
				}
				total++
				if !yield(exclude(SynCase{Input: []byte(sb.String()), Ops: ops})) {
					complete = false
					break
				}
			}
		}
	}
	e.Rec.AddPart(cov.Part{Name: fmt.Sprintf("%d context prefixes x all lexeme tails of length <=%d over %d lexemes, each on 5 paths", len(synContexts), maxLen, len(synLexemes)), Size: total, Complete: complete})
}

var synOps = rapid.SliceOfN(rapid.SampledFrom([]byte{opToken, opToken, opValue, opSkip, opPeek}), 1, 8)

// GenSyn draws a mostly invalid text whose defect tends to sit inside nested
// containers.
func GenSyn(t *rapid.T) SynCase {
	cfg := gen.DocCfg{WS: true, LongStr: rapid.IntRange(0, 9).Draw(t, "longstr") == 0, Wide: rapid.IntRange(0, 9).Draw(t, "wide") == 0,
		MaxDepth: rapid.IntRange(2, 5).Draw(t, "maxdepth"),
		Dups:     rapid.IntRange(0, 3).Draw(t, "dups") == 0, BadUTF8: rapid.IntRange(0, 3).Draw(t, "badutf8") == 0}
	var in []byte
	switch rapid.IntRange(0, 11).Draw(t, "synclass") {
	case 0, 1, 2:
		in = gen.Mutate(t, nestedDoc(t, cfg))
	case 3:
		in = nestedDoc(t, cfg)
		in = in[:rapid.IntRange(0, len(in)).Draw(t, "cut")]
	case 4, 5, 6:
		in = structuralEdit(t, nestedDoc(t, gen.DocCfg{WS: cfg.WS, MaxDepth: cfg.MaxDepth}))
	case 7:
		in = gen.Text(t, cfg)
	case 8:
		in = append([]byte(rapid.SampledFrom(synContexts).Draw(t, "ctx")), gen.LexSeq(t, 6)...)
	case 9, 10:
		in = dupDoc(t)
	default:
		in = nestedDoc(t, cfg) // usually valid: no error on any path
	}
	return exclude(SynCase{Input: in, Ops: synOps.Draw(t, "ops")})
}

var editTokens = []string{",", ":", "]", "}", "[", "{", "nul", "-", "x", "\"\xff\"", `"`, "1.", "tru", "\"\\ud800\"", `"a"`, "1", "\x00", "falsE", "1e", "01"}

// structuralEdit damages one token of a valid text: replaces it, deletes it,
// inserts something before it, or swaps a closing delimiter.
func structuralEdit(t *rapid.T, in []byte) []byte {
	toks, err := ref.TokensLite(in, ref.Opt{AllowDup: true, AllowInvalidUTF8: true})
	if err != nil || len(toks) == 0 {
		return in
	}
	// prefer tokens inside nested containers
	i := rapid.IntRange(0, len(toks)-1).Draw(t, "tok")
	for tries := 0; tries < 3 && toks[i].Depth < 2; tries++ {
		i = rapid.IntRange(0, len(toks)-1).Draw(t, "tok2")
	}
	tk := toks[i]
	out := append([]byte(nil), in[:tk.Start]...)
	rest := in[tk.End:]
	self := in[tk.Start:tk.End]
	switch rapid.IntRange(0, 5).Draw(t, "edit") {
	case 0: // replace
		out = append(out, rapid.SampledFrom(editTokens).Draw(t, "rep")...)
	case 1: // delete
	case 2: // insert before
		out = append(out, rapid.SampledFrom(editTokens).Draw(t, "ins")...)
		out = append(out, rapid.SampledFrom([]string{"", " ", "\n"}).Draw(t, "sp")...)
		out = append(out, self...)
	case 3: // swap the closing delimiter / damage the token's tail
		switch tk.Kind {
		case '}':
			out = append(out, ']')
		case ']':
			out = append(out, '}')
		default:
			out = append(out, self[:len(self)-1]...)
			out = append(out, rapid.SampledFrom([]string{"", "x", "\x1f", "\\", "\\u12", "\xc3"}).Draw(t, "tail")...)
		}
	case 4: // truncate right after / inside the token
		out = append(out, self[:rapid.IntRange(0, len(self)).Draw(t, "keep")]...)
		return out
	default: // delete the separator after the token (if any)
		out = append(out, self...)
		j := 0
		for j < len(rest) && isWS(rest[j]) {
			j++
		}
		if j < len(rest) && (rest[j] == ',' || rest[j] == ':') {
			out = append(out, rest[:j]...)
			rest = rest[j+1:]
		} else {
			out = append(out, ',')
		}
	}
	return append(out, rest...)
}

// dupDoc builds an object with one re-spelled duplicate name below 0..3
// enclosing containers.
func dupDoc(t *rapid.T) []byte {
	var sb strings.Builder
	var closers []byte
	depth := rapid.IntRange(0, 3).Draw(t, "depth")
	for i := 0; i < depth; i++ {
		switch rapid.IntRange(0, 3).Draw(t, "open") {
		case 0:
			sb.WriteString("[")
			closers = append(closers, ']')
		case 1:
			sb.WriteString(`[1, `)
			closers = append(closers, ']')
		case 2:
			sb.WriteString(`{"o` + fmt.Sprint(i) + `":`)
			closers = append(closers, '}')
		default:
			sb.WriteString(`{"x":0,"a/b~c" : `)
			closers = append(closers, '}')
		}
	}
	names := []string{"a", "b", "", "k~/", "é", "n0", "n1", "n2"}
	n := rapid.IntRange(2, len(names)).Draw(t, "n")
	src := rapid.IntRange(0, n-2).Draw(t, "src")
	dst := rapid.IntRange(src+1, n-1).Draw(t, "dst")
	sb.WriteByte('{')
	for i := 0; i < n; i++ {
		if i > 0 {
			sb.WriteString(rapid.SampledFrom([]string{",", ", ", " ,\n"}).Draw(t, "sep"))
		}
		nm := names[i]
		if i == dst {
			nm = names[src]
			if len(nm) > 0 && nm[0] < 0x80 && rapid.Bool().Draw(t, "respell") {
				nm = fmt.Sprintf("\\u%04x", nm[0]) + nm[1:]
			}
		}
		sb.WriteString(`"` + nm + `"` + rapid.SampledFrom([]string{":", " : "}).Draw(t, "colon"))
		sb.WriteString(rapid.SampledFrom([]string{"0", `"v"`, "null", "[]", "{}", `{"a":1}`, `[{"b":[]}]`}).Draw(t, "val"))
	}
	sb.WriteByte('}')
	for i := len(closers) - 1; i >= 0; i-- {
		sb.WriteByte(closers[i])
	}
	in := []byte(sb.String())
	if rapid.IntRange(0, 5).Draw(t, "cut?") == 0 {
		in = in[:rapid.IntRange(0, len(in)).Draw(t, "cut")]
	}
	return in
}

// GenSynDeep builds towers of 3..300 containers (a cyclic pattern of array
// and object levels) with a defect at the bottom, so that error pointers are
// assembled from long token and name stacks. (Towers at the 10000 nesting
// limit are left to C01: the reference builds every level's pointer eagerly,
// which is quadratic and takes seconds per parse there.)
func GenSynDeep(t *rapid.T) SynCase {
	d := rapid.SampledFrom([]int{3, 4, 5, 8, 17, 33, 40, 65, 66, 100, 130, 200, 300}).Draw(t, "depth")
	pat := rapid.SliceOfN(rapid.IntRange(0, 3), 1, 6).Draw(t, "pattern")
	var sb strings.Builder
	closers := make([]byte, 0, d)
	for i := 0; i < d; i++ {
		switch pat[i%len(pat)] {
		case 0:
			sb.WriteByte('[')
			closers = append(closers, ']')
		case 1:
			sb.WriteString(`{"k":`)
			closers = append(closers, '}')
		case 2:
			sb.WriteString(`[1, `)
			closers = append(closers, ']')
		default:
			fmt.Fprintf(&sb, `{"a":0,"b/~%d" : `, i%7)
			closers = append(closers, '}')
		}
	}
	sb.WriteString(rapid.SampledFrom([]string{"1", "x", "]", "}", "nul", `"a":1`, `{"a":1,"a":2}`, `{"a":1]`, `[1}`, "", "\"\xff\"", "[", "{", "1 x", `{"a":}`, `[1,]`, `{"a" 1}`, `{"a":1,}`, "[[[[", `{"z":[{"y":`}).Draw(t, "bottom"))
	for i := len(closers) - 1; i >= 0; i-- {
		sb.WriteByte(closers[i])
	}
	in := []byte(sb.String())
	if rapid.IntRange(0, 3).Draw(t, "cut?") == 0 {
		in = in[:rapid.IntRange(len(in)/2, len(in)).Draw(t, "cut")]
	}
	return exclude(SynCase{Input: in, Ops: synOps.Draw(t, "ops")})
}

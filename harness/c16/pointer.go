package c16

import (
	"fmt"
	"slices"
	"strings"
	"unicode/utf8"

	"github.com/go-json-experiment/json/jsontext"
	"pgregory.net/rapid"

	"verif/harness/cov"
	"verif/harness/ref"
	"verif/harness/rt"
)

// PtrCase is a list of reference tokens (the pointer under test is built from
// them), a second token list (for Contains) and an arbitrary string that may
// or may not be a valid pointer.
type PtrCase struct {
	Tokens [][]byte `json:"tokens"`
	Other  [][]byte `json:"other"`
	Raw    []byte   `json:"raw"`
}

// rfc6901Valid: "" or a sequence of '/'-prefixed tokens in which every '~' is
// followed by '0' or '1'; JSON strings are Unicode, so ill-formed UTF-8 is out.
func rfc6901Valid(s string) bool {
	if !utf8.ValidString(s) {
		return false
	}
	if s != "" && s[0] != '/' {
		return false
	}
	for i := 0; i < len(s); i++ {
		if s[i] == '~' && (i+1 >= len(s) || (s[i+1] != '0' && s[i+1] != '1')) {
			return false
		}
	}
	return true
}

// rfc6901Tokens splits a valid pointer and unescapes left to right.
func rfc6901Tokens(s string) []string {
	var out []string
	if s == "" {
		return nil
	}
	for _, part := range strings.Split(s[1:], "/") {
		var sb strings.Builder
		for i := 0; i < len(part); i++ {
			if part[i] == '~' && i+1 < len(part) {
				if part[i+1] == '0' {
					sb.WriteByte('~')
				} else {
					sb.WriteByte('/')
				}
				i++
				continue
			}
			sb.WriteByte(part[i])
		}
		out = append(out, sb.String())
	}
	return out
}

func buildPtr(toks []string) string {
	var sb strings.Builder
	for _, t := range toks {
		sb.WriteString("/" + ref.EscapePtr(t))
	}
	return sb.String()
}

func strs(bs [][]byte) ([]string, bool) {
	out := make([]string, len(bs))
	for i, b := range bs {
		if !utf8.Valid(b) {
			return nil, false
		}
		out[i] = string(b)
	}
	return out, true
}

func isPrefix(a, b []string) bool {
	return len(a) <= len(b) && slices.Equal(a, b[:len(a)])
}

// checkPointer verifies every method of p against the token list that p is
// known to consist of.
func checkPointer(p jsontext.Pointer, toks []string) error {
	if !p.IsValid() {
		return fmt.Errorf("Pointer(%q).IsValid()=false, but it encodes the tokens %q", p, toks)
	}
	if got := slices.Collect(p.Tokens()); !slices.Equal(got, toks) {
		return fmt.Errorf("Pointer(%q).Tokens()=%q, want %q", p, got, toks)
	}
	// early termination of the iterator
	for k := 0; k <= len(toks) && k <= 2; k++ {
		var got []string
		for tk := range p.Tokens() {
			if len(got) == k {
				break
			}
			got = append(got, tk)
		}
		if !slices.Equal(got, toks[:k]) {
			return fmt.Errorf("first %d of Pointer(%q).Tokens()=%q, want %q", k, p, got, toks[:k])
		}
	}
	last, parent := "", ""
	if len(toks) > 0 {
		last, parent = toks[len(toks)-1], buildPtr(toks[:len(toks)-1])
	}
	if got := p.LastToken(); got != last {
		return fmt.Errorf("Pointer(%q).LastToken()=%q, want %q", p, got, last)
	}
	if got := p.Parent(); string(got) != parent {
		return fmt.Errorf("Pointer(%q).Parent()=%q, want %q", p, got, parent)
	}
	if len(toks) > 0 {
		if got := p.Parent().AppendToken(p.LastToken()); got != p {
			return fmt.Errorf("Pointer(%q): Parent().AppendToken(LastToken())=%q", p, got)
		}
	}
	return nil
}

// RunPtr decides one pointer case.
func RunPtr(c PtrCase) (err error) {
	rec.Eval()
	if p := rt.Guard(func() { err = runPtr(c) }); p != nil {
		return fmt.Errorf("Pointer method panicked: %v", p)
	}
	return err
}

func runPtr(c PtrCase) error {
	toks, ok1 := strs(c.Tokens)
	other, ok2 := strs(c.Other)
	if ok1 && ok2 {
		// built by AppendToken, step by step
		p := jsontext.Pointer("")
		if err := checkPointer(p, nil); err != nil {
			return err
		}
		for i, tk := range toks {
			q := p.AppendToken(tk)
			if want := buildPtr(toks[:i+1]); string(q) != want {
				return fmt.Errorf("Pointer(%q).AppendToken(%q)=%q, want %q", p, tk, q, want)
			}
			if err := checkPointer(q, toks[:i+1]); err != nil {
				return err
			}
			if !p.Contains(q) || q.Contains(p) || !q.Contains(q) {
				return fmt.Errorf("Contains: p=%q q=p.AppendToken(%q)=%q: p.Contains(q)=%v q.Contains(p)=%v q.Contains(q)=%v, want true false true", p, tk, q, p.Contains(q), q.Contains(p), q.Contains(q))
			}
			p = q
		}
		o := jsontext.Pointer(buildPtr(other))
		if got, want := p.Contains(o), isPrefix(toks, other); got != want {
			return fmt.Errorf("Pointer(%q).Contains(%q)=%v, token lists %q / %q say %v", p, o, got, toks, other, want)
		}
		if got, want := o.Contains(p), isPrefix(other, toks); got != want {
			return fmt.Errorf("Pointer(%q).Contains(%q)=%v, token lists %q / %q say %v", o, p, got, other, toks, want)
		}
		fp := cov.FP(append([][]byte{[]byte("ptr")}, c.Tokens...)...)
		special := strings.ContainsAny(string(p), "~")
		if len(toks) >= 2 {
			rec.NonTrivial(fp)
			rec.Class("ptr:tokens>=2")
			rec.Sample(fp, func() any { return map[string]any{"sub": "pointer", "tokens": toks, "pointer": string(p)} })
		} else {
			rec.Class("ptr:tokens<2")
		}
		if special {
			rec.Class("ptr:has-escape")
		}
		if isPrefix(toks, other) || isPrefix(other, toks) {
			rec.Class("ptr:contains-related-pair")
		}
	} else {
		rec.Class("ptr:token-not-utf8(skipped)")
	}

	// arbitrary string
	raw := string(c.Raw)
	valid := rfc6901Valid(raw)
	if got := jsontext.Pointer(raw).IsValid(); got != valid {
		return fmt.Errorf("Pointer(%q).IsValid()=%v, RFC 6901 says %v", raw, got, valid)
	}
	if valid {
		rec.Class("ptr:raw-valid")
		rtoks := rfc6901Tokens(raw)
		if err := checkPointer(jsontext.Pointer(raw), rtoks); err != nil {
			return err
		}
		if back := buildPtr(rtoks); back != raw {
			return fmt.Errorf("oracle: re-encoding the tokens %q of %q gives %q", rtoks, raw, back)
		}
	} else {
		rec.Class("ptr:raw-invalid")
	}
	return nil
}

var ptrTokenPool = []string{"", "a", "b", "0", "1", "10", "~", "/", "~0", "~1", "~01", "~10", "a/b", "m~n", "//", "~~", "~/", "/~", "é", "日本", "\x00", " ", "\"", "\\", "-", "�", "😀"}

// GenPtr draws token lists biased towards '~' and '/'.
func GenPtr(t *rapid.T) PtrCase {
	tok := rapid.OneOf(
		rapid.SampledFrom(ptrTokenPool),
		rapid.StringOfN(rapid.SampledFrom([]rune{'~', '/', '0', '1', 'a', 'é'}), 0, 5, -1),
		rapid.String(),
	)
	draw := func(label string, max int) [][]byte {
		var out [][]byte
		for _, s := range rapid.SliceOfN(tok, 0, max).Draw(t, label) {
			out = append(out, []byte(s))
		}
		return out
	}
	c := PtrCase{Tokens: draw("tokens", 6)}
	switch rapid.IntRange(0, 3).Draw(t, "otherclass") {
	case 0: // prefix of tokens
		c.Other = append([][]byte(nil), c.Tokens[:rapid.IntRange(0, len(c.Tokens)).Draw(t, "cut")]...)
	case 1: // extension
		c.Other = append(append([][]byte(nil), c.Tokens...), draw("ext", 2)...)
	case 2: // last token extended textually ("/a" vs "/ab")
		c.Other = append([][]byte(nil), c.Tokens...)
		if n := len(c.Other); n > 0 {
			c.Other[n-1] = append(append([]byte(nil), c.Other[n-1]...), rapid.SampledFrom([]string{"b", "/", "~", "0", "~1x"}).Draw(t, "suffix")...)
		}
	default:
		c.Other = draw("other", 4)
	}
	switch rapid.IntRange(0, 2).Draw(t, "rawclass") {
	case 0:
		c.Raw = []byte(rapid.StringOfN(rapid.SampledFrom([]rune{'/', '/', '~', '~', '0', '1', '2', 'a', 'é'}), 0, 10, -1).Draw(t, "raw"))
	case 1:
		c.Raw = rapid.SliceOfN(rapid.SampledFrom([]byte{'/', '~', '0', '1', 'x', 0xff, 0xc3, 0xa9, 0xef, 0xbf, 0xbd}), 0, 10).Draw(t, "rawbytes")
	default:
		toks, _ := strs(draw("rawtokens", 4))
		c.Raw = []byte(buildPtr(toks))
	}
	return c
}

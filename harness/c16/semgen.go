package c16

import (
	"encoding/base64"
	"strings"

	"pgregory.net/rapid"

	"verif/harness/gen"
)

// vnode is a value under construction: the generator first builds a value
// that fits the type, then damages exactly one node and renders the text with
// random insignificant whitespace. (Run never sees this tree: it recomputes
// the expected error location from the type description and the text.)
type vnode struct {
	t      *TDesc
	kind   byte // 's' literal text, '[' array, '{' object
	lit    string
	names  []string
	kids   []*vnode
	hidden bool // omitted from its parent unless it is the injection target
}

var leafKinds = []string{"bool", "int8", "int16", "int32", "int64", "uint8", "uint16", "uint32", "uint64", "float32", "float64", "string", "string", "bytes", "bytes", "any", "chan", "func", "errif"}
var fieldNames = []string{"a", "b", "c", "d", "e", "key", "name", "x1", "n_0", "zz"}
var mapNames = []string{"a", "b", "", "a/b", "m~n", "~0", "~1", "é", "0", "1", "k 1", "//", "日本", "q\\\"", "\\u0041", "\\/"}

func genType(t *rapid.T, depth int, root bool) TDesc {
	k := rapid.IntRange(0, 9).Draw(t, "tk")
	if depth <= 0 {
		k = 0
	} else if root && k < 3 {
		k = 3 + k
	}
	switch k {
	case 0, 1, 2:
		return TDesc{K: rapid.SampledFrom(leafKinds).Draw(t, "leaf")}
	case 3, 4:
		n := rapid.IntRange(1, 4).Draw(t, "nfields")
		d := TDesc{K: "struct"}
		perm := rapid.Permutation(fieldNames).Draw(t, "fnames")
		for i := 0; i < n; i++ {
			d.Fields = append(d.Fields, FDesc{Name: perm[i], T: genType(t, depth-1, false)})
		}
		return d
	case 5, 6:
		e := genType(t, depth-1, false)
		if e.K == "uint8" {
			e.K = "uint16"
		}
		return TDesc{K: "slice", Elem: &e}
	case 7:
		e := genType(t, depth-1, false)
		switch e.K {
		case "uint8":
			e.K = "uint16"
		case "chan", "func", "errif":
			e.K = "bool"
		}
		return TDesc{K: "array", N: rapid.IntRange(0, 3).Draw(t, "alen"), Elem: &e}
	case 8:
		e := genType(t, depth-1, false)
		return TDesc{K: "map", Elem: &e}
	default:
		e := genType(t, depth-1, false)
		return TDesc{K: "ptr", Elem: &e}
	}
}

func lit(d *TDesc, s string) *vnode { return &vnode{t: d, kind: 's', lit: s} }

var intGood = map[string][]string{
	"int8": {"0", "-0", "1", "-1", "127", "-128"}, "int16": {"0", "7", "32767", "-32768"}, "int32": {"0", "2147483647", "-2147483648", "42"},
	"int64": {"0", "9223372036854775807", "-9223372036854775808", "-1"}, "uint8": {"0", "1", "255"}, "uint16": {"0", "65535", "256"},
	"uint32": {"0", "4294967295"}, "uint64": {"0", "18446744073709551615", "9007199254740993"},
}
var intBad = map[string][]string{
	"int8": {"128", "-129", "1000"}, "int16": {"32768", "-32769"}, "int32": {"2147483648", "-2147483649"},
	"int64": {"9223372036854775808", "-9223372036854775809", "99999999999999999999999"}, "uint8": {"256", "-1"}, "uint16": {"65536", "-1"},
	"uint32": {"4294967296", "-0"}, "uint64": {"18446744073709551616", "-1"},
}

// genValue draws a value that Unmarshal accepts for d.
func genValue(t *rapid.T, d *TDesc, depth int) *vnode {
	null := rapid.IntRange(0, 14).Draw(t, "null?") == 0
	switch d.K {
	case "chan", "func":
		n := lit(d, rapid.SampledFrom([]string{"null", "1", `"x"`, "[1]", "{}", "true"}).Draw(t, "unsup"))
		n.hidden = true
		return n
	case "errif":
		return lit(d, "null")
	}
	if null && depth > 0 {
		return lit(d, "null")
	}
	switch d.K {
	case "bool":
		return lit(d, rapid.SampledFrom([]string{"true", "false"}).Draw(t, "bool"))
	case "int8", "int16", "int32", "int64", "uint8", "uint16", "uint32", "uint64":
		return lit(d, rapid.SampledFrom(intGood[d.K]).Draw(t, "int"))
	case "float32":
		return lit(d, rapid.SampledFrom([]string{"0", "1.5", "-2e10", "3.4028234e38", "1e-60", "16777217", "-0.0", "1E+2"}).Draw(t, "f32"))
	case "float64":
		return lit(d, rapid.SampledFrom([]string{"0", "-0", "1e308", "1.7976931348623157e308", "5e-324", "0.1", "123456789012345678901234567890", "1E+2", "-1e-400"}).Draw(t, "f64"))
	case "string":
		return lit(d, `"`+gen.StrBody(t, gen.DocCfg{})+`"`)
	case "bytes":
		raw := rapid.SliceOfN(rapid.Byte(), 0, 7).Draw(t, "raw")
		return lit(d, `"`+base64.StdEncoding.EncodeToString(raw)+`"`)
	case "any":
		return lit(d, rapid.SampledFrom([]string{`null`, `1`, `"s"`, `true`, `[1,"x",{"k":null}]`, `{"a":[1.5,{"b":[]}],"c":"d"}`, `[]`, `{}`, `[[1e308]]`}).Draw(t, "any"))
	case "ptr":
		n := genValue(t, d.Elem, depth)
		if n.hidden { // pointer to an unsupported type: only null converts
			return lit(d, "null")
		}
		return &vnode{t: d, kind: n.kind, lit: n.lit, names: n.names, kids: n.kids}
	case "slice":
		n := &vnode{t: d, kind: '['}
		for i, cnt := 0, rapid.IntRange(0, 3).Draw(t, "nelem"); i < cnt; i++ {
			n.kids = append(n.kids, genValue(t, d.Elem, depth+1))
		}
		return n
	case "array":
		n := &vnode{t: d, kind: '['}
		for i := 0; i < d.N; i++ {
			n.kids = append(n.kids, genValue(t, d.Elem, depth+1))
		}
		return n
	case "map":
		n := &vnode{t: d, kind: '{'}
		perm := rapid.Permutation(mapNames).Draw(t, "mnames")
		for i, cnt := 0, rapid.IntRange(0, 3).Draw(t, "nmemb"); i < cnt; i++ {
			n.names = append(n.names, perm[i])
			n.kids = append(n.kids, genValue(t, d.Elem, depth+1))
		}
		return n
	case "struct":
		n := &vnode{t: d, kind: '{'}
		order := rapid.Permutation(indexes(len(d.Fields))).Draw(t, "forder")
		for _, i := range order {
			if rapid.IntRange(0, 4).Draw(t, "omit?") == 0 {
				continue
			}
			n.names = append(n.names, d.Fields[i].Name)
			n.kids = append(n.kids, genValue(t, &d.Fields[i].T, depth+1))
		}
		if rapid.IntRange(0, 3).Draw(t, "unknown?") == 0 { // an unknown member is skipped
			at := rapid.IntRange(0, len(n.kids)).Draw(t, "unknownat")
			u := lit(nil, rapid.SampledFrom([]string{`1`, `"u"`, `[1,{"a":2}]`, `{"zz":[true]}`, `1e999`}).Draw(t, "unknownval"))
			n.names = append(n.names[:at], append([]string{"unknown_member"}, n.names[at:]...)...)
			n.kids = append(n.kids[:at], append([]*vnode{u}, n.kids[at:]...)...)
		}
		return n
	}
	panic("genValue: kind " + d.K)
}

func indexes(n int) []int {
	out := make([]int, n)
	for i := range out {
		out[i] = i
	}
	return out
}

// collect lists the typed nodes; deep gets those at nesting depth >= 2.
func collect(n *vnode, depth int, all, deep *[]*vnode) {
	if n.t != nil {
		*all = append(*all, n)
		if depth >= 2 {
			*deep = append(*deep, n)
		}
	}
	for _, k := range n.kids {
		collect(k, depth+1, all, deep)
	}
}

var wrongKind = map[string][]string{
	"bool":   {`1`, `"true"`, `[true]`, `{}`},
	"int":    {`"1"`, `true`, `[1]`, `{"a":1}`},
	"float":  {`"1.5"`, `false`, `[]`, `{}`},
	"string": {`1`, `true`, `["s"]`, `{"a":"b"}`},
	"bytes":  {`1`, `[1,2]`, `{}`, `true`},
	"slice":  {`1`, `"x"`, `{}`, `true`, `{"0":1}`},
	"array":  {`1`, `"x"`, `{}`, `false`},
	"map":    {`[]`, `1`, `"x"`, `[{"a":1}]`},
	"struct": {`[]`, `1`, `"x"`, `true`, `[{}]`},
}

// damage turns the node into something Unmarshal cannot convert.
func damage(t *rapid.T, n *vnode) {
	d := n.t
	for d.K == "ptr" {
		d = d.Elem
	}
	n.hidden = false
	set := func(s string) { n.kind, n.lit, n.kids, n.names = 's', s, nil, nil }
	pick := func(label string, from []string) string { return rapid.SampledFrom(from).Draw(t, label) }
	other := rapid.Bool().Draw(t, "wrongkind?")
	switch d.K {
	case "chan", "func":
		set(pick("unsup", []string{"null", "1", `"x"`, "[1]", "{}", `{"a":[1]}`}))
	case "errif":
		set(pick("unsup", []string{"1", `"x"`, "{}", "[null]", "true"}))
	case "bool":
		set(pick("bad", wrongKind["bool"]))
	case "int8", "int16", "int32", "int64", "uint8", "uint16", "uint32", "uint64":
		switch {
		case other:
			set(pick("bad", wrongKind["int"]))
		case rapid.IntRange(0, 3).Draw(t, "form?") == 0:
			set(pick("bad", []string{"1.5", "1e2", "1.0", "0.0", "1E0"}))
		default:
			set(pick("bad", intBad[d.K]))
		}
	case "float32":
		if other {
			set(pick("bad", wrongKind["float"]))
		} else {
			set(pick("bad", []string{"1e39", "-3.5e38", "1e400", "3.4028236e38"}))
		}
	case "float64":
		if other {
			set(pick("bad", wrongKind["float"]))
		} else {
			set(pick("bad", []string{"1e309", "-1e400", "1.7976931348623159e308", "1e999"}))
		}
	case "string":
		set(pick("bad", wrongKind["string"]))
	case "bytes":
		if other {
			set(pick("bad", wrongKind["bytes"]))
		} else {
			set(pick("bad", []string{`"QQ"`, `"Q!=="`, `"QUJD\n"`, `"=QQQ"`, `"A"`, `"QUJD\r\nQUJD"`, `"QUJ D"`, `"QQ==="`}))
		}
	case "any":
		set(pick("bad", []string{`1e400`, `[0,{"k":[-1e999]}]`, `{"x":{"y~/":1e309}}`, `[[],[1,2,1e1000]]`}))
	case "slice":
		set(pick("bad", wrongKind["slice"]))
	case "map":
		set(pick("bad", wrongKind["map"]))
	case "struct":
		set(pick("bad", wrongKind["struct"]))
	case "array":
		if other {
			set(pick("bad", wrongKind["array"]))
			return
		}
		// wrong length: drop the last element or add surplus ones (which are
		// skipped without conversion, so they may be anything)
		if n.kind != '[' { // the fitting value was null
			n.kind, n.lit, n.kids = '[', "", nil
			if d.N > 0 {
				return // zero elements is already too few
			}
		}
		if d.N > 0 && rapid.Bool().Draw(t, "fewer?") {
			n.kids = n.kids[:rapid.IntRange(0, d.N-1).Draw(t, "keep")]
			return
		}
		for i, extra := 0, rapid.IntRange(1, 3).Draw(t, "extra"); i < extra; i++ {
			n.kids = append(n.kids, lit(nil, pick("surplus", []string{"null", "1", `"x"`, `[{"a":1}]`, `{}`})))
		}
	}
}

func semWS(t *rapid.T) string {
	if rapid.IntRange(0, 2).Draw(t, "ws?") != 0 {
		return ""
	}
	return rapid.SampledFrom([]string{" ", "\n", "\t", "  ", " \r\n\t", "\n\n"}).Draw(t, "ws")
}

func render(t *rapid.T, n *vnode, target *vnode, sb *strings.Builder) {
	switch n.kind {
	case 's':
		sb.WriteString(n.lit)
	case '[', '{':
		sb.WriteByte(n.kind)
		first := true
		for i, k := range n.kids {
			if k.hidden && k != target {
				continue
			}
			if !first {
				sb.WriteByte(',')
			}
			first = false
			sb.WriteString(semWS(t))
			if n.kind == '{' {
				sb.WriteString(`"` + n.names[i] + `"` + semWS(t) + ":" + semWS(t))
			}
			render(t, k, target, sb)
			sb.WriteString(semWS(t))
		}
		if first {
			sb.WriteString(semWS(t))
		}
		sb.WriteByte(n.kind + 2) // '[' -> ']', '{' -> '}'
	}
}

// GenSem draws a type, a fitting value and damages one node of it.
func GenSem(t *rapid.T) SemCase {
	typ := genType(t, rapid.IntRange(2, 4).Draw(t, "tdepth"), true)
	root := genValue(t, &typ, 0)
	root.hidden = false
	var nodes, deep []*vnode
	collect(root, 0, &nodes, &deep)
	var target *vnode
	if rapid.IntRange(0, 19).Draw(t, "inject?") != 0 {
		from := nodes
		if len(deep) > 0 && rapid.IntRange(0, 3).Draw(t, "deep?") != 0 {
			from = deep
		}
		target = from[rapid.IntRange(0, len(from)-1).Draw(t, "target")]
		damage(t, target)
	}
	var sb strings.Builder
	sb.WriteString(semWS(t))
	render(t, root, target, &sb)
	sb.WriteString(semWS(t))
	return SemCase{Type: typ, Text: []byte(sb.String())}
}


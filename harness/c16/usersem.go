package c16

// Sub-check "usersem": the position carried by the SemanticError that Unmarshal builds when user code
// (an UnmarshalFromFunc or an UnmarshalJSONFrom method) refuses a value with an error of its own, after it
// has read some tokens of that value and possibly looked at the next one with PeekKind.
//
// The value that "could not be converted" is then either the token or value the user code read last or the
// one it looked at: ByteOffset must be the first byte of one of the two (never a comma, a colon or white
// space in front of it, never a byte outside the value handed to the user code), JSONPointer must lie in
// the value handed over, and the position must not depend on how the same text reaches the library
// (Unmarshal of a []byte, UnmarshalRead over readers delivering everything / one byte at a time,
// UnmarshalDecode on a caller-owned Decoder).

import (
	"bytes"
	"errors"
	"fmt"
	"io"
	"strings"
	"testing/iotest"

	"github.com/go-json-experiment/json"
	"github.com/go-json-experiment/json/jsontext"
	"pgregory.net/rapid"

	"verif/harness/cov"
	"verif/harness/rt"
)

// UTok is one token of the value handed to user code.
type UTok struct {
	Text string `json:"text"`
	WS   string `json:"ws"`            // white space (and the comma or colon) in front of the token
	End  int    `json:"end,omitempty"` // for [ and {: index of the matching closing token
}

// USemCase is a position, a value given as tokens, and what the user code does before refusing.
type USemCase struct {
	Pos    int    `json:"pos"`  // 0 top level, 1 struct field k, 2 second element of a slice, 3 map value, 4 field of a struct in a slice
	Toks   []UTok `json:"toks"` // the value handed to the user code
	Tail   string `json:"tail"` // white space after the value
	Reads  int    `json:"reads"`
	Last   int    `json:"last"` // how the last read is done: 0 ReadToken, 1 ReadValue, 2 SkipValue
	Peek   bool   `json:"peek"`
	Method bool   `json:"method"` // an UnmarshalJSONFrom method of the (pre-populated) destination instead of a caller-supplied function
}

var errRefused = errors.New("refused by user code")

type uTarget struct{ _ int }

type uScript struct {
	reads, last int
	peek        bool
	ran         int
}

func (s *uScript) run(dec *jsontext.Decoder) error {
	s.ran++
	for i := 0; i < s.reads; i++ {
		var err error
		switch {
		case i == s.reads-1 && s.last == 1:
			_, err = dec.ReadValue()
		case i == s.reads-1 && s.last == 2:
			err = dec.SkipValue()
		default:
			_, err = dec.ReadToken()
		}
		if err != nil {
			return err
		}
	}
	if s.peek {
		dec.PeekKind()
	}
	return errRefused
}

type uMethod struct{ s *uScript }

func (m *uMethod) UnmarshalJSONFrom(dec *jsontext.Decoder) error { return m.s.run(dec) }

func genWS(t *rapid.T, label string) string {
	return rapid.SampledFrom([]string{"", "", " ", "  ", "\n", "\t ", " \r\n "}).Draw(t, label)
}

func genUToks(t *rapid.T, depth int, out []UTok, lead string) []UTok {
	scalar := func() string {
		return rapid.SampledFrom([]string{"1", "22", "-3.5e1", `"a"`, `"bb"`, `""`, "null", "true", "false", `"éx"`}).Draw(t, "scalar")
	}
	kind := rapid.IntRange(0, 5).Draw(t, "vkind")
	if depth >= 2 && kind >= 4 {
		kind = 0
	}
	switch {
	case kind < 2:
		return append(out, UTok{Text: scalar(), WS: lead})
	case kind < 4 || kind == 4:
		open, closeT := "[", "]"
		isObj := kind == 3 || (kind == 4 && rapid.Bool().Draw(t, "obj"))
		if isObj {
			open, closeT = "{", "}"
		}
		at := len(out)
		out = append(out, UTok{Text: open, WS: lead})
		n := rapid.IntRange(0, 3).Draw(t, "n")
		for i := 0; i < n; i++ {
			sep := genWS(t, "ws1")
			if i > 0 {
				sep += "," + genWS(t, "ws2")
			}
			if isObj {
				out = append(out, UTok{Text: fmt.Sprintf(`"n%d"`, i), WS: sep})
				sep = genWS(t, "ws3") + ":" + genWS(t, "ws4")
			}
			if kind == 4 {
				out = genUToks(t, depth+1, out, sep)
			} else {
				out = append(out, UTok{Text: scalar(), WS: sep})
			}
		}
		out = append(out, UTok{Text: closeT, WS: genWS(t, "ws5")})
		out[at].End = len(out) - 1
		return out
	default:
		return append(out, UTok{Text: scalar(), WS: lead})
	}
}

// GenUSem draws a case.
func GenUSem(t *rapid.T) USemCase {
	c := USemCase{Pos: rapid.IntRange(0, 4).Draw(t, "pos"), Tail: genWS(t, "tail"), Method: rapid.IntRange(0, 2).Draw(t, "method") == 0}
	c.Toks = genUToks(t, 0, nil, genWS(t, "lead"))
	c.Peek = rapid.Bool().Draw(t, "peek")
	if c.Peek && len(c.Toks) > 2 {
		c.Reads = rapid.IntRange(0, len(c.Toks)-2).Draw(t, "reads-before-peek") // leave something inside the value to look at
	} else {
		c.Reads = rapid.IntRange(0, len(c.Toks)).Draw(t, "reads")
	}
	c.Last = rapid.IntRange(0, 2).Draw(t, "last")
	return c
}

// RunUSem decides one case.
func RunUSem(c USemCase) error {
	rec.Eval()
	if len(c.Toks) == 0 || c.Reads < 0 || c.Reads > len(c.Toks) || c.Pos < 0 || c.Pos > 4 {
		return nil
	}
	if c.Method && c.Pos != 0 && c.Pos != 1 {
		c.Method = false // only destinations that exist before the call can carry the script
	}
	// the text of the value and the offsets of its tokens (relative to the whole input)
	var prefix, suffix, basePtr string
	switch c.Pos {
	case 0:
	case 1:
		prefix, suffix, basePtr = `{"a":1, "k":`, `}`, "/k"
	case 2:
		prefix, suffix, basePtr = `[ null ,`, `]`, "/1"
	case 3:
		prefix, suffix, basePtr = `{"m~/":`, ` }`, "/m~0~1"
	case 4:
		prefix, suffix, basePtr = `[{"k":`, `}]`, "/0/k"
	}
	var sb strings.Builder
	sb.WriteString(prefix)
	starts := make([]int, len(c.Toks))
	for i, tk := range c.Toks {
		sb.WriteString(tk.WS)
		starts[i] = sb.Len()
		sb.WriteString(tk.Text)
	}
	valEnd := sb.Len()
	sb.WriteString(c.Tail)
	sb.WriteString(suffix)
	text := sb.String()
	if !jsontext.Value(text).IsValid() {
		return nil // (cannot happen by construction; the token list of a replay file may have been edited)
	}

	// what the script will have consumed: the first Reads-1 tokens one by one, then a token or a whole value
	last := c.Last
	next := c.Reads // index of the token that follows what was consumed
	lastStart := -1
	if c.Reads > 0 {
		lt := c.Toks[c.Reads-1]
		if lt.Text == "]" || lt.Text == "}" {
			last = 0 // a closing token cannot be read as a value
		}
		lastStart = starts[c.Reads-1]
		if last != 0 && lt.End > 0 {
			next = lt.End + 1
		}
	}
	closing := -1
	if c.Reads > 0 && last == 2 && c.Toks[c.Reads-1].End > 0 {
		// SkipValue walks a container token by token: the token read last is the closing one
		closing = starts[c.Toks[c.Reads-1].End]
	}
	peek := c.Peek && next < len(c.Toks) // looking beyond the value handed over is not exercised
	allowed := map[int64]string{}
	if lastStart >= 0 {
		allowed[int64(lastStart)] = "the token or value read last"
	}
	if next < len(c.Toks) {
		if lastStart < 0 || peek {
			allowed[int64(starts[next])] = "the next token"
		}
	}
	if lastStart < 0 {
		allowed[int64(starts[0])] = "the value handed over"
	}
	if closing >= 0 {
		allowed[int64(closing)] = "the closing token of the skipped value"
	}
	_ = valEnd

	type res struct {
		route string
		off   int64
		ptr   string
	}
	var results []res
	routes := []string{"Unmarshal", "UnmarshalRead", "UnmarshalRead/1-byte", "UnmarshalDecode"}
	for _, route := range routes {
		sc := &uScript{reads: c.Reads, last: last, peek: peek}
		var opts []json.Options
		if !c.Method {
			opts = append(opts, json.WithUnmarshalers(json.UnmarshalFromFunc(func(dec *jsontext.Decoder, _ *uTarget) error { return sc.run(dec) })))
		}
		var dst any
		switch {
		case c.Method && c.Pos == 0:
			dst = &uMethod{s: sc}
		case c.Method:
			dst = &struct {
				A int     `json:"a"`
				K uMethod `json:"k"`
			}{K: uMethod{s: sc}}
		case c.Pos == 0:
			dst = new(uTarget)
		case c.Pos == 1:
			dst = new(struct {
				A int     `json:"a"`
				K uTarget `json:"k"`
			})
		case c.Pos == 2:
			dst = new([]*uTarget)
		case c.Pos == 3:
			dst = new(map[string]uTarget)
		default:
			dst = new([]struct {
				K *uTarget `json:"k"`
			})
		}
		var err error
		p := rt.Guard(func() {
			switch route {
			case "Unmarshal":
				err = json.Unmarshal([]byte(text), dst, opts...)
			case "UnmarshalRead":
				err = json.UnmarshalRead(bytes.NewReader([]byte(text)), dst, opts...)
			case "UnmarshalRead/1-byte":
				err = json.UnmarshalRead(iotest.OneByteReader(bytes.NewReader([]byte(text))), dst, opts...)
			default:
				err = json.UnmarshalDecode(jsontext.NewDecoder(io.MultiReader(strings.NewReader(text[:len(text)/2]), strings.NewReader(text[len(text)/2:]))), dst, opts...)
			}
		})
		describe := func() string {
			return fmt.Sprintf("%s of %q; user code (method=%v) reads %d tokens (last read: %s), PeekKind=%v, then returns an error of its own",
				route, text, c.Method, c.Reads, []string{"ReadToken", "ReadValue", "SkipValue"}[last], peek)
		}
		if p != nil {
			return fmt.Errorf("panic: %v\n%s", p, describe())
		}
		if sc.ran != 1 {
			return nil // the user code was not reached exactly once (cannot happen for these destinations)
		}
		var se *json.SemanticError
		if !errors.As(err, &se) || !errors.Is(err, errRefused) {
			return fmt.Errorf("error is %T (%v), want a *json.SemanticError wrapping the error of the user code\n%s", err, err, describe())
		}
		if _, ok := allowed[se.ByteOffset]; !ok {
			at := "outside the input"
			if se.ByteOffset >= 0 && se.ByteOffset < int64(len(text)) {
				at = fmt.Sprintf("at %q", text[se.ByteOffset:min(len(text), int(se.ByteOffset)+6)])
			}
			return fmt.Errorf("SemanticError.ByteOffset = %d (%s); the user code last read the token or value at %d and the next token starts at %d (allowed: %v)\n%s",
				se.ByteOffset, at, lastStart, func() int {
					if next < len(c.Toks) {
						return starts[next]
					}
					return -1
				}(), allowed, describe())
		}
		ptr := string(se.JSONPointer)
		if !(ptr == basePtr || strings.HasPrefix(ptr, basePtr+"/")) {
			return fmt.Errorf("SemanticError.JSONPointer = %q does not lie in the value handed to the user code (%q)\n%s", ptr, basePtr, describe())
		}
		results = append(results, res{route, se.ByteOffset, ptr})
	}
	for _, r := range results[1:] {
		if r.off != results[0].off || r.ptr != results[0].ptr {
			return fmt.Errorf("the position of the SemanticError depends on how the text arrives: %s gives offset %d pointer %q, %s gives offset %d pointer %q\ntext %q; user code reads %d tokens, PeekKind=%v",
				results[0].route, results[0].off, results[0].ptr, r.route, r.off, r.ptr, text, c.Reads, peek)
		}
	}
	cls := "usersem:reads=0"
	if c.Reads > 0 {
		cls = "usersem:reads>0"
	}
	if peek {
		cls += ",peek"
	}
	rec.Class(cls)
	fp := cov.FPs("usersem", text, fmt.Sprint(c.Reads, last, peek, c.Method))
	if c.Reads > 0 || peek {
		rec.NonTrivial(fp)
	}
	rec.Sample(cov.FPs("usersem", cls, fmt.Sprint(c.Pos)), func() any {
		return map[string]any{"sub": "usersem", "text": text, "reads": c.Reads, "peek": peek, "offset": results[0].off, "pointer": results[0].ptr}
	})
	return nil
}
